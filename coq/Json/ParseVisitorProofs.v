(* C16 / C17 / C18 for the JSON parser model (Json/Parse.v): how the parser treats its
   visitor, what state it is in after an accepted input, and the pull decoder.
   The float parser [pf] is a Section variable.  All theorems are closed under the
   global context.

   C16  C16_json_parse_prompt, C16_json_parse_fail_spec, C16_json_parse_prefix (Write...Write),
        C16_json_run_parse_* (Parse), C16_json_parse_total_prefix (with totality).
   C17  C17_json_parse_idle, C17_json_writes_idle, C17_json_run_parse_reset, C17_json_run_chunks_reset:
        after an accepted input cur = jStart, states = [], inEscape = false and the literal buffer
        is empty (finalize drops the literal of a top-level number it reports);
        C17_json_parse_fresh, C17_json_writes_fresh, C17_json_run_*_fresh: the parser is fresh_like
        (additionally no error latched).  Behavioural form: C17_json_session_step - any further Parse
        or Write...finalize on a fresh_like parser returns what a fresh parser returns (same events,
        same verdict, any visitor) and leaves it fresh_like if accepted; C17_json_parse_reusable,
        C17_json_write_reusable, C17_json_chunks_reusable; C17_json_reuse_parse / _writes (no totality).
        Example C17_json_write_after_number: Parse "12", then Write {"a":1} = fresh parser.
   C18  (a) C18_json_next_total, C18_json_run_total: Next returns for every reader script;
        (b) C18_json_next_value_partial: a nil Next delivered >= 1 event, left the parser idle and
            consumed input (measure jmu); C18_json_next_tree: its events are [flatten t] for one tree
            (not proved: wf_tree t; "consumed" is stated on lengths, not as a suffix);
        (c) C18_json_script_independent_partial, C18_json_run_script_independent_partial,
            C18_json_reader_as_bytes_partial, C18_json_scripts_same_data: the sequence of
            (events, verdict) per Next depends only on the concatenated data, for well-behaved
            scripts (script_okb: nil errors, except io.EOF with or after the last data). *)
From Coq Require Import Setoid List NArith ZArith Bool Lia.
From Coq Require Import ZifyBool ZifyNat ZifyN.
From SF Require Import Base.Prelude Base.Utf8 Core.Events Core.EventsProofs Json.Parse Json.ParseSafety Json.ChunkProofs.
Import ListNotations.
Open Scope Z_scope.
Ltac Zify.zify_post_hook ::= Z.div_mod_to_equations.

(* ====================================================================== *)
(* Part 0: visitor programs.  A function of the sink is "representable"   *)
(* when it is the interpretation of a straight-line program of visitor    *)
(* calls that returns at the first failing call with that call's error.   *)
(* ====================================================================== *)

Definition out (A : Type) : Type := option (A * sink * Z).

Inductive prog (A : Type) : Type :=
| PRet (a : A) (e : Z)
| PAbort
| PVis (ev : event) (afail : A) (k : prog A).
Arguments PRet {A} a e.
Arguments PAbort {A}.
Arguments PVis {A} ev afail k.

Fixpoint run {A} (pr : prog A) (s : sink) : out A :=
  match pr with
  | PRet a e => Some (a, s, e)
  | PAbort => None
  | PVis ev af k => let '(s1, ok) := emit s ev in if ok then run k s1 else Some (af, s1, jeVisitor)
  end.

Fixpoint ptrace {A} (pr : prog A) : list event :=
  match pr with PVis ev _ k => ev :: ptrace k | _ => [] end.
Fixpoint pfinal {A} (pr : prog A) : option (A * Z) :=
  match pr with PRet a e => Some (a, e) | PAbort => None | PVis _ _ k => pfinal k end.

Definition s_add (s : sink) (l : list event) : sink :=
  {| s_rlog := rev l ++ s_rlog s; s_n := length l + s_n s; s_fail := s_fail s |}.

Lemma s_add_nil : forall s, s_add s [] = s.
Proof. intros [l n f]; reflexivity. Qed.

Lemma s_add_add : forall s l1 l2, s_add (s_add s l1) l2 = s_add s (l1 ++ l2).
Proof.
  intros s l1 l2. unfold s_add; cbn [s_rlog s_n s_fail]. f_equal.
  - rewrite rev_app_distr, app_assoc. reflexivity.
  - rewrite app_length. lia.
Qed.

Lemma emit_spec : forall s e,
  emit s e = (s_add s [e], match s_fail s with Some k => Nat.ltb (s_n s) k | None => true end).
Proof. intros s e. unfold emit, s_add. cbn [rev app length Nat.add]. destruct (s_fail s); reflexivity. Qed.

Definition final_out {A} (pr : prog A) (s : sink) : out A :=
  match pfinal pr with Some (a, e) => Some (a, s_add s (ptrace pr), e) | None => None end.

Lemma run_nofail : forall A (pr : prog A) s, s_fail s = None -> run pr s = final_out pr s.
Proof.
  induction pr as [a e| |ev af k IH]; intros s Hs; unfold final_out; cbn [run pfinal ptrace].
  - rewrite s_add_nil. reflexivity.
  - reflexivity.
  - rewrite emit_spec, Hs. rewrite IH by exact Hs. unfold final_out.
    destruct (pfinal k) as [[a e]|]; [|reflexivity]. rewrite s_add_add. reflexivity.
Qed.

Lemma run_fail : forall A (pr : prog A) s k, s_fail s = Some k -> (s_n s <= k)%nat ->
  (if (length (ptrace pr) <=? k - s_n s)%nat then run pr s = final_out pr s
   else exists af, run pr s = Some (af, s_add s (firstn (S (k - s_n s)) (ptrace pr)), jeVisitor)).
Proof.
  induction pr as [a e| |ev af k0 IH]; intros s k Hs Hn; cbn [run pfinal ptrace length].
  - cbn [Nat.leb]. unfold final_out. cbn [pfinal ptrace]. rewrite s_add_nil. reflexivity.
  - reflexivity.
  - rewrite emit_spec, Hs.
    destruct (Nat.ltb (s_n s) k) eqn:E.
    + apply Nat.ltb_lt in E.
      assert (Hs1 : s_fail (s_add s [ev]) = Some k) by exact Hs.
      assert (Hn1 : (s_n (s_add s [ev]) <= k)%nat) by (cbn [s_add s_n length]; lia).
      specialize (IH _ _ Hs1 Hn1).
      replace (k - s_n (s_add s [ev]))%nat with (k - s_n s - 1)%nat in IH by (cbn [s_add s_n length]; lia).
      destruct (Nat.leb (S (length (ptrace k0))) (k - s_n s)) eqn:L.
      * apply Nat.leb_le in L.
        assert (L' : Nat.leb (length (ptrace k0)) (k - s_n s - 1) = true) by (apply Nat.leb_le; lia).
        rewrite L' in IH. rewrite IH. unfold final_out. cbn [pfinal ptrace].
        destruct (pfinal k0) as [[a e]|]; [|reflexivity]. rewrite s_add_add. reflexivity.
      * apply Nat.leb_gt in L.
        assert (L' : Nat.leb (length (ptrace k0)) (k - s_n s - 1) = false) by (apply Nat.leb_gt; lia).
        rewrite L' in IH. destruct IH as [af' IH]. exists af'. rewrite IH. rewrite s_add_add.
        replace (S (k - s_n s)) with (S (S (k - s_n s - 1))) by lia. reflexivity.
    + apply Nat.ltb_ge in E. assert (k - s_n s = 0)%nat as -> by lia.
      cbn [Nat.leb]. exists af. reflexivity.
Qed.

(* representability *)
Definition Rep {A} (f : sink -> out A) : Type := { pr : prog A | forall s, f s = run pr s }.

Lemma Rep_ret : forall A (a : A) e, Rep (fun s => Some (a, s, e)).
Proof. intros A a e. exists (PRet a e). reflexivity. Qed.

Lemma Rep_abort : forall A, Rep (fun _ => @None (A * sink * Z)).
Proof. intros A. exists PAbort. reflexivity. Qed.

Lemma Rep_ext : forall A (f g : sink -> out A), (forall s, f s = g s) -> Rep g -> Rep f.
Proof. intros A f g H [pr Hpr]. exists pr. intros s. rewrite H. apply Hpr. Qed.

Lemma jvis_emit : forall s ev s1 ok, emit s ev = (s1, ok) -> jvis s ev = (s1, if ok then jpnil else jeVisitor).
Proof. intros s ev s1 ok E. unfold jvis. rewrite E. reflexivity. Qed.

(* the visitor call: on failure the function returns at once with the visitor's error *)
Lemma Rep_vis : forall A (f : sink -> out A) ev af (g : sink -> out A),
  (forall s s1, jvis s ev = (s1, jpnil) -> f s = g s1) ->
  (forall s s1, jvis s ev = (s1, jeVisitor) -> f s = Some (af, s1, jeVisitor)) ->
  Rep g -> Rep f.
Proof.
  intros A f ev af g H1 H2 [pr Hpr]. exists (PVis ev af pr). intros s. cbn [run].
  destruct (emit s ev) as [s1 ok] eqn:E. apply jvis_emit in E. destruct ok.
  - rewrite (H1 _ _ E). apply Hpr.
  - apply (H2 _ _ E).
Qed.

(* sequencing: the continuation runs only after a nil error *)
Fixpoint pbind {A B} (pr : prog A) (phi : A -> Z -> B) (K : A -> prog B) : prog B :=
  match pr with
  | PRet a e => if jisnil e then K a else PRet (phi a e) e
  | PAbort => PAbort
  | PVis ev af k => PVis ev (phi af jeVisitor) (pbind k phi K)
  end.

Lemma run_pbind : forall A B (pr : prog A) (phi : A -> Z -> B) K s,
  run (pbind pr phi K) s =
  match run pr s with
  | None => None
  | Some (a, s1, e) => if jisnil e then run (K a) s1 else Some (phi a e, s1, e)
  end.
Proof.
  induction pr as [a e| |ev af k IH]; intros phi K s; cbn [pbind run].
  - destruct (jisnil e); reflexivity.
  - reflexivity.
  - destruct (emit s ev) as [s1 ok]. destruct ok; [apply IH|reflexivity].
Qed.

Lemma Rep_bind : forall A B (g : sink -> out A) (phi : A -> Z -> B) (h : A -> sink -> out B)
  (f : sink -> out B),
  Rep g -> (forall a, Rep (h a)) ->
  (forall s, f s = match g s with
                   | None => None
                   | Some (a, s1, e) => if jisnil e then h a s1 else Some (phi a e, s1, e)
                   end) ->
  Rep f.
Proof.
  intros A B g phi h f [pg Hg] Hh Hf.
  exists (pbind pg phi (fun a => proj1_sig (Hh a))). intros s.
  rewrite Hf, run_pbind, Hg. destruct (run pg s) as [[[a s1] e]|]; [|reflexivity].
  destruct (jisnil e); [|reflexivity]. apply (proj2_sig (Hh a)).
Qed.

Lemma jisnil_true' : forall e, jisnil e = true -> e = jpnil.
Proof. intros e H. apply Z.eqb_eq in H. exact H. Qed.

Lemma Rep_map : forall A B (g : sink -> out A) (phi : A -> Z -> B) (f : sink -> out B),
  Rep g ->
  (forall s, f s = match g s with None => None | Some (a, s1, e) => Some (phi a e, s1, e) end) ->
  Rep f.
Proof.
  intros A B g phi f Hg Hf.
  apply (Rep_bind A B g phi (fun a s => Some (phi a jpnil, s, jpnil)) f Hg).
  - intros a. apply Rep_ret.
  - intros s. rewrite Hf. destruct (g s) as [[[a s1] e]|]; [|reflexivity].
    destruct (jisnil e) eqn:E; [|reflexivity]. apply jisnil_true' in E. subst e. reflexivity.
Qed.

(* ---------- what representability gives ---------- *)
Lemma s_log_add0 : forall f l, s_log (s_add (sink0 f) l) = l.
Proof. intros. unfold s_log, s_add, sink0. cbn [s_rlog]. rewrite app_nil_r. apply rev_involutive. Qed.

Lemma rep_prompt0 : forall A (f : sink -> out A), Rep f -> forall k a s e,
  f (sink0 (Some k)) = Some (a, s, e) ->
  (length (s_log s) <= S k)%nat /\ (length (s_log s) = S k -> e = jeVisitor).
Proof.
  intros A f [pr Hpr] k a s e H. rewrite Hpr in H.
  pose proof (run_fail A pr (sink0 (Some k)) k eq_refl (Nat.le_0_l k)) as R.
  cbn [sink0 s_n] in R. rewrite Nat.sub_0_r in R.
  destruct (Nat.leb (length (ptrace pr)) k) eqn:L.
  - apply Nat.leb_le in L. rewrite R in H. unfold final_out in H.
    destruct (pfinal pr) as [[a' e']|]; [|discriminate]. inversion H; subst.
    change {| s_rlog := []; s_n := 0; s_fail := Some k |} with (sink0 (Some k)).
    rewrite s_log_add0. split; lia.
  - apply Nat.leb_gt in L. destruct R as [af R].
    remember (firstn (S k) (ptrace pr)) as t eqn:Ht.
    rewrite R in H. injection H as Ha Hs He. subst a s e.
    change {| s_rlog := []; s_n := 0; s_fail := Some k |} with (sink0 (Some k)).
    rewrite s_log_add0. split; [|reflexivity]. subst t. rewrite firstn_length. lia.
Qed.

Lemma rep_prefix0 : forall A (f : sink -> out A), Rep f -> forall k a0 s0 e0,
  f (sink0 None) = Some (a0, s0, e0) ->
  exists a s, f (sink0 (Some k)) = Some (a, s, if (length (s_log s0) <=? k)%nat then e0 else jeVisitor) /\
              s_log s = firstn (S k) (s_log s0) /\
              ((length (s_log s0) <= k)%nat -> a = a0).
Proof.
  intros A f [pr Hpr] k a0 s0 e0 H. rewrite Hpr in H. rewrite Hpr.
  rewrite run_nofail in H by reflexivity. unfold final_out in H.
  destruct (pfinal pr) as [[a' e']|] eqn:F; [|discriminate]. inversion H; subst. clear H.
  rewrite s_log_add0.
  pose proof (run_fail A pr (sink0 (Some k)) k eq_refl (Nat.le_0_l k)) as R.
  cbn [sink0 s_n] in R. rewrite Nat.sub_0_r in R.
  change {| s_rlog := []; s_n := 0; s_fail := Some k |} with (sink0 (Some k)) in R.
  destruct (Nat.leb (length (ptrace pr)) k) eqn:L.
  - apply Nat.leb_le in L. rewrite R. unfold final_out. rewrite F.
    eexists _, _. split; [reflexivity|]. rewrite s_log_add0. split; [|reflexivity].
    symmetry. apply firstn_all2. lia.
  - apply Nat.leb_gt in L. destruct R as [af R]. rewrite R.
    eexists _, _. split; [reflexivity|]. rewrite s_log_add0. split; [reflexivity|]. lia.
Qed.

Lemma rep_prompt_gen : forall A (f : sink -> out A), Rep f -> forall s k a s' e,
  s_fail s = Some k -> (s_n s <= k)%nat -> f s = Some (a, s', e) ->
  exists l, s' = s_add s l /\ (s_n s' <= S k)%nat /\ (s_n s' = S k -> e = jeVisitor).
Proof.
  intros A f [pr Hpr] s k a s' e Hs Hn H. rewrite Hpr in H.
  pose proof (run_fail A pr s k Hs Hn) as R.
  destruct (Nat.leb (length (ptrace pr)) (k - s_n s)) eqn:L.
  - apply Nat.leb_le in L. rewrite R in H. unfold final_out in H.
    destruct (pfinal pr) as [[a' e']|]; [|discriminate]. inversion H; subst.
    exists (ptrace pr). split; [reflexivity|]. cbn [s_add s_n]. split; lia.
  - apply Nat.leb_gt in L. destruct R as [af R].
    remember (firstn (S (k - s_n s)) (ptrace pr)) as t eqn:Ht.
    rewrite R in H. inversion H; subst a s' e.
    exists t. split; [reflexivity|]. cbn [s_add s_n].
    assert (length t = S (k - s_n s)) by (subst t; rewrite firstn_length; lia).
    split; [lia|reflexivity].
Qed.

(* ====================================================================== *)
(* Part 1: every parser function is representable (core lemma of C16)     *)
(* ====================================================================== *)

Definition osr (r : jsres) : out (jparser * bytes * bool) :=
  match r with JS p s rest d e => Some ((p, rest, d), s, e) | JCrash _ => None end.

Ltac vred :=
  cbv beta iota zeta;
  change (jisnil jpnil) with true; change (jisnil jeVisitor) with false;
  change (negb true) with false; change (negb false) with true;
  cbv beta iota zeta.

Ltac vis_step :=
  eapply Rep_vis;
  [ let s := fresh "s" in let s1 := fresh "s1" in let E := fresh "E" in
    intros s s1 E; cbv beta; rewrite E; vred; reflexivity
  | let s := fresh "s" in let s1 := fresh "s1" in let E := fresh "E" in
    intros s s1 E; cbv beta; rewrite E; vred; reflexivity
  | cbv beta ].

Lemma Rep_sr : forall p rest d e, Rep (fun s => osr (JS p s rest d e)).
Proof. intros. apply (Rep_ret _ (p, rest, d) e). Qed.
Lemma Rep_crash : forall w, Rep (fun s => osr (JCrash w)).
Proof. intros. apply Rep_abort. Qed.

Ltac brk2 :=
  match goal with
  | |- Rep (fun s => _ (if ?c then _ else _)) => destruct c eqn:?
  | |- Rep (fun s => _ (match ?b with [] => _ | _ :: _ => _ end)) => destruct b
  | |- Rep (fun s => _ (match ?o with Some _ => _ | None => _ end)) => destruct o
  end.

Ltac fin := first [ apply Rep_sr | apply Rep_crash ].
Ltac rep_auto := repeat first [ fin | brk2 | vis_step ].

Section JsonVisitor.
Variable pf : bytes -> option Z.

Definition orn (r : option (sink * Z)) : out unit :=
  match r with Some (s, e) => Some (tt, s, e) | None => None end.

Lemma Rep_rn : forall e, Rep (fun s => orn (Some (s, e))).
Proof. intros. apply (Rep_ret _ tt e). Qed.
Lemma Rep_rn_none : Rep (fun s : sink => orn None).
Proof. apply Rep_abort. Qed.

Lemma report_number_rep : forall b dbl, Rep (fun s => orn (report_number pf s b dbl)).
Proof.
  intros b dbl. unfold report_number.
  destruct dbl.
  - destruct (pf b) as [bits|]; [|apply Rep_rn]. vis_step. apply Rep_rn.
  - destruct b as [|c r]; [apply Rep_rn_none|]. cbv zeta.
    destruct (if (c =? 43) || (c =? 45) then r else c :: r) as [|d0 dr]; [apply Rep_rn|].
    destruct (parse_uint _ 0) as [u|]; [|apply Rep_rn].
    destruct (negb (c =? 45) && (u >? 9223372036854775807)); [vis_step; apply Rep_rn|].
    destruct ((c =? 45) && (u >? 9223372036854775808)); [apply Rep_rn|].
    vis_step. apply Rep_rn.
Qed.

Lemma step_number_rep : forall p b, Rep (fun s => osr (step_number pf p s b)).
Proof.
  intros p b. unfold step_number.
  destruct (scan_number b (jp_isdbl p) 0) as [found dbl]. cbv zeta.
  destruct found as [i|]; [|apply Rep_sr].
  match goal with |- context [report_number pf _ ?tok dbl] =>
    apply (Rep_map _ _ _ (fun _ e => (jpop (jset_lit (jset_isdbl p dbl) []), skipn i b, true)) _
                   (report_number_rep tok dbl)) end.
  intros s. destruct (report_number pf s _ dbl) as [[s1 e]|]; reflexivity.
Qed.

Lemma step_kind_rep : forall p b kind ev, Rep (fun s => osr (step_kind p s b kind ev)).
Proof. intros. unfold step_kind. cbv zeta. rep_auto. Qed.

Lemma step_string_rep : forall p b, Rep (fun s => osr (step_string p s b)).
Proof.
  intros. unfold step_string. destruct (do_string p b) as [p1|p1 content rest|p1|w]; rep_auto.
Qed.

Lemma step_dict_key_rep : forall p b, Rep (fun s => osr (step_dict_key p s b)).
Proof.
  intros. unfold step_dict_key. destruct (do_string p b) as [p1|p1 content rest|p1|w]; rep_auto.
Qed.

Lemma end_container_rep : forall p b ev, Rep (fun s => osr (end_container p s b ev)).
Proof. intros. unfold end_container. rep_auto. Qed.

Lemma step_value_rep : forall p b ret, Rep (fun s => osr (step_value pf p s b ret)).
Proof.
  intros. unfold step_value. destruct (trim_left b) as [|c r]; [apply Rep_sr|]. cbv zeta.
  repeat first [ fin | apply step_kind_rep | apply step_string_rep | apply step_number_rep | brk2 | vis_step ].
Qed.

Lemma step_dict_rep : forall p b ae, Rep (fun s => osr (step_dict p s b ae)).
Proof.
  intros. unfold step_dict. destruct (trim_left b) as [|c r]; [apply Rep_sr|].
  repeat first [ fin | apply end_container_rep | brk2 ].
Qed.

Lemma step_dict_value_end_rep : forall p b, Rep (fun s => osr (step_dict_value_end p s b)).
Proof.
  intros. unfold step_dict_value_end. destruct (trim_left b) as [|c r]; [apply Rep_sr|].
  repeat first [ fin | apply end_container_rep | brk2 ].
Qed.

Lemma step_array_rep : forall p b, Rep (fun s => osr (step_array p s b)).
Proof.
  intros. unfold step_array. destruct (trim_left b) as [|c r]; [apply Rep_sr|].
  repeat first [ fin | apply end_container_rep | brk2 ].
Qed.

Lemma step_arr_value_end_rep : forall p b, Rep (fun s => osr (step_arr_value_end p s b)).
Proof.
  intros. unfold step_arr_value_end. destruct (trim_left b) as [|c r]; [apply Rep_sr|].
  repeat first [ fin | apply end_container_rep | brk2 ].
Qed.

(* Core lemma of C16: one parser step is a straight-line visitor program. *)
Lemma jstep_rep : forall p b, Rep (fun s => osr (jstep pf p s b)).
Proof.
  intros. unfold jstep. cbv zeta.
  repeat (match goal with |- Rep (fun s => _ (if ?c then _ else _)) => destruct c eqn:? end;
    [solve [ repeat first [ fin | apply step_value_rep | apply step_dict_rep | apply step_dict_key_rep
                          | apply step_dict_value_end_rep | apply step_array_rep
                          | apply step_arr_value_end_rep | apply step_kind_rep | apply step_string_rep
                          | apply step_number_rep | brk2 ]
           | (* jArrValue: the reported flag is dropped *)
             apply (Rep_map _ _ _ (fun a _ => (fst (fst a), snd (fst a), false)) _
                      (step_value_rep p b jArrNext));
             intros s; destruct (step_value pf p s b jArrNext); reflexivity ] |]).
  apply Rep_sr.
Qed.

(* ---------- the feed loops ---------- *)
Definition ores (r : res jsres) : out (jparser * bytes * bool) :=
  match r with Ok x => osr x | _ => None end.
Definition orf (r : res (jparser * sink * Z)) : out jparser :=
  match r with Ok (p, s, e) => Some (p, s, e) | _ => None end.

Lemma jfeed_until_rep : forall fuel p b orig, Rep (fun s => ores (jfeed_until fuel pf p s b orig)).
Proof.
  induction fuel as [|f IH]; intros p b orig.
  - apply Rep_abort.
  - cbn [jfeed_until]. destruct (zlen b =? 0); [apply Rep_sr|].
    destruct (jp_cur p =? jFailed) eqn:Ef.
    + apply (Rep_map _ _ _ (fun a _ => (fst (fst a), orig, false)) _ (jstep_rep p b)).
      intros s. destruct (jstep pf p s b); reflexivity.
    + apply (Rep_bind _ _ (fun s => osr (jstep pf p s b)) (fun a _ => a)
               (fun a s => let '(p1, rest, rep) := a in
                  if rep && (zlen (jp_states p1) =? 0) then Some ((p1, rest, true), s, jpnil)
                  else ores (jfeed_until f pf p1 s rest orig))).
      * apply jstep_rep.
      * intros [[p1 rest] rep]. destruct (rep && (zlen (jp_states p1) =? 0)); [apply Rep_ret|apply IH].
      * intros s. destruct (jstep pf p s b) as [p1 s1 rest rep err|w]; [|reflexivity].
        cbn [osr]. destruct (jisnil err) eqn:E; cbn [negb].
        -- apply jisnil_true' in E. subst err.
           destruct (rep && (zlen (jp_states p1) =? 0)); reflexivity.
        -- reflexivity.
Qed.

Lemma jfeed_rep : forall fuel p b, Rep (fun s => orf (jfeed fuel pf p s b)).
Proof.
  induction fuel as [|f IH]; intros p b.
  - apply Rep_abort.
  - cbn [jfeed]. destruct (zlen b >? 0); [|apply Rep_ret].
    apply (Rep_bind _ _ (fun s => ores (jfeed_until (jfeed_fuel b) pf p s b b)) (fun a _ => fst (fst a))
             (fun a s => orf (jfeed f pf (fst (fst a)) s (snd (fst a))))).
    + apply jfeed_until_rep.
    + intros a. apply IH.
    + intros s. destruct (jfeed_until (jfeed_fuel b) pf p s b b) as [[p1 s1 rest d err|w]| | |]; try reflexivity.
      cbn [ores osr fst snd]. destruct (jisnil err); reflexivity.
Qed.

Lemma jp_write_rep : forall p b, Rep (fun s => orf (jp_write pf p s b)).
Proof.
  intros. unfold jp_write.
  apply (Rep_map _ _ _ (fun p1 e => jset_err p1 (if jisnil e then 0 else e)) _ (jfeed_rep (2 * length b + 2) p b)).
  intros s. destruct (jfeed (2 * length b + 2) pf p s b) as [[[p1 s1] e]| | |]; reflexivity.
Qed.

Definition ofin (r : option (jparser * sink * Z)) : out jparser := r.

Lemma jfinalize_rep : forall p, Rep (fun s => ofin (jfinalize pf p s)).
Proof.
  intros p. unfold jfinalize, ofin.
  destruct (jp_cur p =? jNumber).
  - set (q := jset_lit (jpop p) []).
    apply (Rep_bind _ _ _ (fun _ _ => p)
             (fun _ s => if (zlen (jp_states q) >? 0) && negb (jp_cur q =? jStart)
                         then Some (q, s, jeGeneric) else Some (q, s, jpnil))
             _ (report_number_rep (jp_lit p) (jp_isdbl p))).
    + intros _. destruct (_ && _); apply Rep_ret.
    + intros s. destruct (report_number pf s (jp_lit p) (jp_isdbl p)) as [[s1 e]|]; [|reflexivity].
      cbn [orn]. destruct (jisnil e); cbn [negb]; reflexivity.
  - cbn [negb]. destruct (_ && _); apply Rep_ret.
Qed.

Lemma with_final_rep : forall p, Rep (fun s => orf (with_final pf p s)).
Proof.
  intros p. eapply Rep_ext; [|apply (jfinalize_rep p)].
  intros s. unfold with_final, ofin. destruct (jfinalize pf p s) as [[[p1 s1] e]|]; reflexivity.
Qed.

Lemma jp_parse_rep : forall p b, Rep (fun s => orf (jp_parse pf p s b)).
Proof.
  intros. unfold jp_parse. cbv zeta.
  match goal with |- context [jfeed ?n pf ?q _ b] =>
    apply (Rep_bind _ _ _ (fun p1 _ => p1) (fun p1 s => orf (with_final pf p1 s)) _ (jfeed_rep n q b)) end.
  - intros a. apply with_final_rep.
  - intros s.
    match goal with |- context [jfeed ?n pf ?q s b] => destruct (jfeed n pf q s b) as [[[p1 s1] e]| | |] end;
      try reflexivity.
    cbn [orf]. destruct (jisnil e); reflexivity.
Qed.

Lemma jp_writes_rep : forall chunks p, Rep (fun s => orf (jp_writes pf p s chunks)).
Proof.
  induction chunks as [|c r IH]; intros p.
  - apply with_final_rep.
  - cbn [jp_writes].
    apply (Rep_bind _ _ _ (fun p1 _ => p1) (fun p1 s => orf (jp_writes pf p1 s r)) _ (jp_write_rep p c)).
    + intros a. apply IH.
    + intros s. destruct (jp_write pf p s c) as [[[p1 s1] e]| | |]; try reflexivity.
      cbn [orf]. destruct (jisnil e); reflexivity.
Qed.

(* ---------- C16 for the parser ---------- *)
Lemma jrun_chunks_orf : forall v chunks evs e p,
  jrun_chunks pf v chunks = Ok (evs, e, p) <->
  exists s, orf (jp_writes pf jparser0 (sink0 v) chunks) = Some (p, s, e) /\ evs = s_log s.
Proof.
  intros. unfold jrun_chunks. destruct (jp_writes pf jparser0 (sink0 v) chunks) as [[[p' s] e']| | |]; cbn [orf].
  - split.
    + intros H. inversion H; subst. eauto.
    + intros (s' & H & ->). inversion H; subst. reflexivity.
  - split; [discriminate|]. intros (s' & H & _). discriminate.
  - split; [discriminate|]. intros (s' & H & _). discriminate.
  - split; [discriminate|]. intros (s' & H & _). discriminate.
Qed.

Lemma jrun_parse_orf : forall v b evs e p,
  jrun_parse pf v b = Ok (evs, e, p) <->
  exists s, orf (jp_parse pf jparser0 (sink0 v) b) = Some (p, s, e) /\ evs = s_log s.
Proof.
  intros. unfold jrun_parse. destruct (jp_parse pf jparser0 (sink0 v) b) as [[[p' s] e']| | |]; cbn [orf].
  - split.
    + intros H. inversion H; subst. eauto.
    + intros (s' & H & ->). inversion H; subst. reflexivity.
  - split; [discriminate|]. intros (s' & H & _). discriminate.
  - split; [discriminate|]. intros (s' & H & _). discriminate.
  - split; [discriminate|]. intros (s' & H & _). discriminate.
Qed.

(* no event is delivered after the failing one, and its error is returned unchanged *)
Theorem C16_json_parse_prompt : forall k chunks evs e p,
  jrun_chunks pf (Some k) chunks = Ok (evs, e, p) ->
  (length evs <= S k)%nat /\ (length evs = S k -> e = jeVisitor).
Proof.
  intros k chunks evs e p H. apply jrun_chunks_orf in H. destruct H as (s & H & ->).
  exact (rep_prompt0 _ _ (jp_writes_rep chunks jparser0) k p s e H).
Qed.

(* the failing run is determined by the unfailing one: it delivers exactly the
   first k+1 events, and returns the visitor's error iff the unfailing run has
   more than k events (otherwise the same verdict and the same final parser) *)
Theorem C16_json_parse_fail_spec : forall k chunks evs0 e0 p0,
  jrun_chunks pf None chunks = Ok (evs0, e0, p0) ->
  exists p, jrun_chunks pf (Some k) chunks =
              Ok (firstn (S k) evs0, (if (length evs0 <=? k)%nat then e0 else jeVisitor), p) /\
            ((length evs0 <= k)%nat -> p = p0).
Proof.
  intros k chunks evs0 e0 p0 H. apply jrun_chunks_orf in H. destruct H as (s0 & H & ->).
  destruct (rep_prefix0 _ _ (jp_writes_rep chunks jparser0) k p0 s0 e0 H) as (a & s & H1 & H2 & H3).
  exists a. split; [|exact H3]. apply jrun_chunks_orf. exists s. split; [exact H1|]. symmetry. exact H2.
Qed.

Theorem C16_json_parse_prefix : forall k chunks evs e p evs0 e0 p0,
  jrun_chunks pf (Some k) chunks = Ok (evs, e, p) -> jrun_chunks pf None chunks = Ok (evs0, e0, p0) ->
  evs = firstn (S k) evs0 /\ e = (if (length evs0 <=? k)%nat then e0 else jeVisitor).
Proof.
  intros k chunks evs e p evs0 e0 p0 H H0.
  destruct (C16_json_parse_fail_spec k chunks evs0 e0 p0 H0) as (p' & H1 & _).
  rewrite H1 in H. inversion H. split; reflexivity.
Qed.

Theorem C16_json_run_parse_prompt : forall k b evs e p,
  jrun_parse pf (Some k) b = Ok (evs, e, p) ->
  (length evs <= S k)%nat /\ (length evs = S k -> e = jeVisitor).
Proof.
  intros k b evs e p H. apply jrun_parse_orf in H. destruct H as (s & H & ->).
  exact (rep_prompt0 _ _ (jp_parse_rep jparser0 b) k p s e H).
Qed.

Theorem C16_json_run_parse_fail_spec : forall k b evs0 e0 p0,
  jrun_parse pf None b = Ok (evs0, e0, p0) ->
  exists p, jrun_parse pf (Some k) b =
              Ok (firstn (S k) evs0, (if (length evs0 <=? k)%nat then e0 else jeVisitor), p) /\
            ((length evs0 <= k)%nat -> p = p0).
Proof.
  intros k b evs0 e0 p0 H. apply jrun_parse_orf in H. destruct H as (s0 & H & ->).
  destruct (rep_prefix0 _ _ (jp_parse_rep jparser0 b) k p0 s0 e0 H) as (a & s & H1 & H2 & H3).
  exists a. split; [|exact H3]. apply jrun_parse_orf. exists s. split; [exact H1|]. symmetry. exact H2.
Qed.

Theorem C16_json_run_parse_prefix : forall k b evs e p evs0 e0 p0,
  jrun_parse pf (Some k) b = Ok (evs, e, p) -> jrun_parse pf None b = Ok (evs0, e0, p0) ->
  evs = firstn (S k) evs0 /\ e = (if (length evs0 <=? k)%nat then e0 else jeVisitor).
Proof.
  intros k b evs e p evs0 e0 p0 H H0.
  destruct (C16_json_run_parse_fail_spec k b evs0 e0 p0 H0) as (p' & H1 & _).
  rewrite H1 in H. inversion H. split; reflexivity.
Qed.

(* with totality (C03): the failing run is the truncated unfailing run *)
Theorem C16_json_parse_total_prefix : forall k chunks,
  exists evs0 e0 p0 p,
    jrun_chunks pf None chunks = Ok (evs0, e0, p0) /\
    jrun_chunks pf (Some k) chunks =
      Ok (firstn (S k) evs0, (if (length evs0 <=? k)%nat then e0 else jeVisitor), p).
Proof.
  intros k chunks. destruct (C03_json_chunks_total_any pf None chunks) as (evs0 & e0 & p0 & H0).
  destruct (C16_json_parse_fail_spec k chunks evs0 e0 p0 H0) as (p & H & _).
  exists evs0, e0, p0, p. auto.
Qed.


(* ====================================================================== *)
(* Part 2: C17 - the state after an accepted input.  The state stack is   *)
(* well formed: jStart at the bottom and nowhere else; the literal buffer *)
(* and the escape flag are only in use inside strings, keys and numbers.  *)
(* Every step delivers at most one event; a step that reports a value     *)
(* delivers exactly one.                                                  *)
(* ====================================================================== *)

Ltac jpsimp := cbn [jpush jp_cur jp_states jp_lit jp_inesc jp_isdbl jp_req jp_err
                    jset_cur jset_lit jset_inesc jset_isdbl jset_req jset_err] in *.

Fixpoint wfs (c : Z) (l : list Z) : Prop :=
  match l with
  | [] => c = jStart
  | d :: r => 2 <= c <= 15 /\ wfs d r
  end.

Definition W (p : jparser) : Prop :=
  wfs (jp_cur p) (jp_states p) /\
  (jp_inesc p = true -> jp_cur p = jString \/ jp_cur p = jDictField) /\
  (jp_lit p <> [] -> jp_cur p = jString \/ jp_cur p = jDictField \/ jp_cur p = jNumber).

Lemma wfs_nonempty : forall c l, wfs c l -> c <> jStart -> l <> [].
Proof. intros c [|d r] H Hc; [contradiction|discriminate]. Qed.

Lemma wfs_start : forall l, wfs jStart l -> l = [].
Proof. intros [|d r] H; [reflexivity|]. cbn [wfs] in H. ust. lia. Qed.

Lemma wfs_retop : forall c c' l, wfs c l -> l <> [] -> 2 <= c' <= 15 -> wfs c' l.
Proof. intros c c' [|d r] H Hl Hc; [congruence|]. cbn [wfs] in *. split; [exact Hc|apply H]. Qed.

Lemma wfs_range : forall c l, wfs c l -> 1 <= c <= 15.
Proof. intros c [|d r] H; cbn [wfs] in H; ust; lia. Qed.

Lemma W0 : W jparser0.
Proof. unfold W, jparser0; jsimp. split; [reflexivity|]. split; [discriminate|congruence]. Qed.

(* the outcome of a step: the events it delivered, the invariant, and what the
   "reported" flag means; st0 is the state stack the step (or its leaf) started from *)
Definition Cres (st0 : list Z) (s : sink) (r : jsres) : Prop :=
  match r with
  | JCrash _ => True
  | JS p1 s1 rest rep e =>
      exists l, s1 = s_add s l /\ (length l <= 1)%nat /\
      (e = jpnil -> W p1 /\ (rep = true -> l <> [] /\ jp_states p1 = tl st0) /\
                    (rep = false -> l <> [] -> jp_states p1 <> []))
  end.

Lemma jvis_add : forall s ev, exists e, jvis s ev = (s_add s [ev], e).
Proof. intros s ev. unfold jvis. rewrite emit_spec. eexists. reflexivity. Qed.

Lemma Cres_err : forall st0 s p1 rest rep e, e <> jpnil -> Cres st0 s (JS p1 s rest rep e).
Proof.
  intros. cbn [Cres]. exists []. rewrite s_add_nil. split; [reflexivity|]. split; [cbn; lia|]. intros; contradiction.
Qed.

Lemma Cres_silent : forall st0 s p1 rest, W p1 -> Cres st0 s (JS p1 s rest false jpnil).
Proof.
  intros. cbn [Cres]. exists []. rewrite s_add_nil. split; [reflexivity|]. split; [cbn; lia|]. intros _.
  split; [assumption|]. split; [discriminate|]. intros _ Hl. contradiction.
Qed.

Lemma jpop_W : forall p, W p -> jp_states p <> [] -> jp_inesc p = false -> jp_lit p = [] ->
  W (jpop p) /\ jp_states (jpop p) = tl (jp_states p).
Proof.
  intros p (Hw & _ & _) Hs Hi Hl. unfold jpop. destruct (jp_states p) as [|d r] eqn:E; [congruence|].
  cbn [wfs] in Hw. unfold W; jsimp. split; [|reflexivity].
  split; [apply Hw|]. split; [congruence|]. intros H. congruence.
Qed.

(* one event, value reported, parser popped *)
Lemma Cres_report : forall s ev q rest,
  W q -> jp_states q <> [] -> jp_inesc q = false -> jp_lit q = [] ->
  Cres (jp_states q) s (let '(s1, e) := jvis s ev in JS (jpop q) s1 rest true e).
Proof.
  intros s ev q rest Hw Hs Hi Hl. destruct (jvis_add s ev) as [e ->]. cbn [Cres].
  exists [ev]. split; [reflexivity|]. split; [cbn; lia|]. intros _.
  destruct (jpop_W q Hw Hs Hi Hl) as [H1 H2].
  split; [exact H1|]. split; [intros _; split; [discriminate|exact H2]|discriminate].
Qed.

(* one event, nothing reported, the stack is not empty *)
Lemma Cres_event : forall st0 s ev q rest,
  W q -> jp_states q <> [] ->
  Cres st0 s (let '(s1, e) := jvis s ev in JS q s1 rest false e).
Proof.
  intros st0 s ev q rest Hw Hs. destruct (jvis_add s ev) as [e ->]. cbn [Cres].
  exists [ev]. split; [reflexivity|]. split; [cbn; lia|]. intros _.
  split; [exact Hw|]. split; [discriminate|]. intros _ _. exact Hs.
Qed.

Lemma scan_quote_found : forall buf e i j e', scan_quote buf e i = (Some j, e') -> e' = false.
Proof.
  induction buf as [|c r IH]; intros e i j e'; cbn [scan_quote]; [discriminate|].
  destruct e; [apply IH|]. destruct (c =? 34); [intros [= _ <-]; reflexivity|].
  destruct (c =? 92); apply IH.
Qed.

Lemma do_string_W : forall p b,
  match do_string p b with
  | DSMore p1 => jp_cur p1 = jp_cur p /\ jp_states p1 = jp_states p
  | DSDone p1 _ _ => jp_cur p1 = jp_cur p /\ jp_states p1 = jp_states p /\ jp_lit p1 = [] /\ jp_inesc p1 = false
  | _ => True
  end.
Proof.
  intros p b. unfold do_string.
  destruct (if zlen (jp_lit p) =? 0 then _ else _) as [buf|]; [|exact I].
  destruct (scan_quote buf (jp_inesc p) 0) as [found inesc] eqn:Es.
  destruct found as [i|]; jsimp.
  - apply scan_quote_found in Es. subst inesc.
    destruct (zlen _ <? 2); [exact I|]. destruct (unquote _); jsimp; auto.
  - jsimp. auto.
Qed.

Lemma W_same_ctl : forall p p1,
  jp_cur p1 = jp_cur p -> jp_states p1 = jp_states p -> W p ->
  jp_cur p = jString \/ jp_cur p = jDictField \/ (jp_inesc p1 = false /\ jp_lit p1 = []) -> W p1.
Proof.
  intros p p1 Hc Hs (Hw & Hi & Hl) H. unfold W. rewrite Hc, Hs. split; [exact Hw|].
  destruct H as [H|[H|[H1 H2]]].
  - split; intros _; auto.
  - split; intros _; auto.
  - split; intros K; congruence.
Qed.

Lemma step_string_C : forall p s b,
  W p -> jp_cur p = jString -> jp_states p <> [] ->
  Cres (jp_states p) s (step_string p s b).
Proof.
  intros p s b Hw Hc Hs. unfold step_string. pose proof (do_string_W p b) as D.
  destruct (do_string p b) as [p1|p1 content rest|p1|w]; [| | |exact I].
  - destruct D as [D1 D2]. apply Cres_silent. eapply W_same_ctl; eauto.
  - destruct D as (D1 & D2 & D3 & D4). rewrite <- D2. apply Cres_report; try congruence.
    eapply W_same_ctl; eauto.
  - apply Cres_err. ust; lia.
Qed.

Lemma step_dict_key_C : forall p s b,
  W p -> jp_cur p = jDictField -> jp_states p <> [] ->
  Cres (jp_states p) s (step_dict_key p s b).
Proof.
  intros p s b Hw Hc Hs. unfold step_dict_key. pose proof (do_string_W p b) as D.
  destruct (do_string p b) as [p1|p1 content rest|p1|w]; [| | |exact I].
  - destruct D as [D1 D2]. apply Cres_silent. eapply W_same_ctl; eauto.
  - destruct D as (D1 & D2 & D3 & D4). apply Cres_event; [|jsimp; congruence].
    destruct Hw as (Hw & _ & _). unfold W; jsimp. rewrite D2, D3, D4.
    split; [eapply wfs_retop; eauto; ust; lia|]. split; congruence.
  - apply Cres_err. ust; lia.
Qed.

Lemma report_number_add : forall s b dbl s1 e, report_number pf s b dbl = Some (s1, e) ->
  exists l, s1 = s_add s l /\ (length l <= 1)%nat /\ (e = jpnil -> l <> []).
Proof.
  intros s b dbl s1 e. unfold report_number.
  assert (G : forall ev, (let '(s2, e2) := jvis s ev in Some (s2, e2)) = Some (s1, e) ->
              exists l, s1 = s_add s l /\ (length l <= 1)%nat /\ (e = jpnil -> l <> [])).
  { intros ev. destruct (jvis_add s ev) as [e2 ->]. intros [= <- <-].
    exists [ev]. split; [reflexivity|]. split; [cbn; lia|discriminate]. }
  assert (G0 : Some (s, jeGeneric) = Some (s1, e) ->
              exists l, s1 = s_add s l /\ (length l <= 1)%nat /\ (e = jpnil -> l <> [])).
  { intros [= <- <-]. exists []. rewrite s_add_nil. split; [reflexivity|]. split; [cbn; lia|]. ust; lia. }
  destruct dbl.
  - destruct (pf b); [apply G|apply G0].
  - destruct b as [|c r]; [discriminate|].
    destruct (if (c =? 43) || (c =? 45) then r else c :: r) as [|d0 dr]; [apply G0|].
    destruct (parse_uint _ _); [|apply G0].
    destruct (_ && _); [apply G|]. destruct (_ && _); [apply G0|apply G].
Qed.

Lemma step_number_C : forall p s b,
  W p -> jp_cur p = jNumber -> jp_states p <> [] ->
  Cres (jp_states p) s (step_number pf p s b).
Proof.
  intros p s b Hw Hc Hs. unfold step_number.
  destruct (scan_number b (jp_isdbl p) 0) as [found dbl].
  assert (Hi : jp_inesc p = false).
  { destruct Hw as (_ & Hi & _). destruct (jp_inesc p); [|reflexivity].
    destruct (Hi eq_refl) as [K|K]; rewrite Hc in K; discriminate K. }
  destruct found as [i|]; jsimp.
  - destruct (report_number pf s _ dbl) as [[s1 e]|] eqn:Er; [|exact I].
    destruct (report_number_add _ _ _ _ _ Er) as (l & -> & Hl1 & Hl2). cbn [Cres].
    exists l. split; [reflexivity|]. split; [exact Hl1|]. intros He.
    destruct (jpop_W (jset_lit (jset_isdbl p dbl) [])) as [H1 H2]; jsimp; auto.
    { destruct Hw as (Hw & _ & _). unfold W; jsimp. split; [exact Hw|]. split; congruence. }
    split; [exact H1|]. split; [intros _; split; [auto|exact H2]|discriminate].
  - apply Cres_silent. destruct Hw as (Hw & _ & _). unfold W; jsimp.
    split; [exact Hw|]. split; [congruence|auto].
Qed.

Lemma step_kind_C : forall p s b kind ev,
  W p -> jp_states p <> [] -> jp_inesc p = false -> jp_lit p = [] ->
  Cres (jp_states p) s (step_kind p s b kind ev).
Proof.
  intros p s b kind ev Hw Hs Hi Hl. unfold step_kind.
  destruct (_ || _); [exact I|]. cbv zeta.
  destruct (negb (zlen b <? jp_req p)) eqn:Ed.
  - destruct (negb (has_prefix _ _)); [apply Cres_err; ust; lia|].
    apply Cres_report; assumption.
  - destruct (negb (has_prefix _ _)); [apply Cres_err; ust; lia|].
    apply Cres_silent. destruct Hw as (Hw & Hw2 & Hw3). unfold W; jsimp. auto.
Qed.

Lemma end_container_C : forall p s b ev,
  W p -> jp_states p <> [] -> jp_inesc p = false -> jp_lit p = [] ->
  Cres (jp_states p) s (end_container p s b ev).
Proof.
  intros p s b ev Hw Hs Hi Hl. unfold end_container. destruct b as [|c r]; [exact I|].
  apply Cres_report; assumption.
Qed.

(* W-facts in states that are not string / key / number states *)
Lemma W_plain : forall p, W p ->
  jp_cur p <> jString -> jp_cur p <> jDictField -> jp_cur p <> jNumber ->
  jp_inesc p = false /\ jp_lit p = [].
Proof.
  intros p (_ & Hi & Hl) H1 H2 H3. split.
  - destruct (jp_inesc p); [|reflexivity]. destruct (Hi eq_refl); contradiction.
  - destruct (jp_lit p) as [|x l]; [reflexivity|].
    destruct Hl as [K|[K|K]]; [discriminate|contradiction..].
Qed.

Lemma W_set_cur : forall p c, W p -> jp_states p <> [] -> 2 <= c <= 15 ->
  jp_inesc p = false -> jp_lit p = [] -> W (jset_cur p c).
Proof.
  intros p c (Hw & _ & _) Hs Hc Hi Hl. unfold W; jsimp.
  split; [eapply wfs_retop; eauto|]. split; congruence.
Qed.

Lemma step_value_C : forall p s b ret,
  W p -> wfs ret (jp_states p) -> jp_inesc p = false -> jp_lit p = [] ->
  Cres (ret :: jp_states p) s (step_value pf p s b ret).
Proof.
  intros p s b ret Hw Hret Hi Hl. unfold step_value.
  destruct (trim_left b) as [|c r]; [apply Cres_silent; exact Hw|]. cbv zeta.
  assert (Hne : (ret =? jFailed) = false) by (apply wfs_range in Hret; ust; lia).
  (* the parser after pushing the state [nx] *)
  assert (Hpush : forall nx (q : jparser), 2 <= nx <= 15 ->
            jp_cur q = nx -> jp_states q = ret :: jp_states p ->
            (jp_inesc q = false) -> (jp_lit q = []) -> W q /\ jp_states q <> []).
  { intros nx q Hnx Hc Hs Hqi Hql. split; [|rewrite Hs; discriminate].
    unfold W. rewrite Hc, Hs, Hqi, Hql. cbn [wfs]. split; [auto|]. split; congruence. }
  destruct (c =? 123).
  { apply Cres_event; apply (Hpush jDict); jpsimp; rewrite ?Hne; auto; ust; lia. }
  destruct (c =? 91).
  { apply Cres_event; apply (Hpush jArr); jpsimp; rewrite ?Hne; auto; ust; lia. }
  destruct (c =? 110).
  { match goal with |- Cres _ _ (step_kind ?q _ _ _ _) =>
      destruct (Hpush jNull q) as [H1 H2]; jpsimp; rewrite ?Hne; auto; [ust; lia|];
      replace (ret :: jp_states p) with (jp_states q) by (jpsimp; rewrite Hne; reflexivity);
      apply step_kind_C; auto end. }
  destruct (c =? 102).
  { match goal with |- Cres _ _ (step_kind ?q _ _ _ _) =>
      destruct (Hpush jFalse q) as [H1 H2]; jpsimp; rewrite ?Hne; auto; [ust; lia|];
      replace (ret :: jp_states p) with (jp_states q) by (jpsimp; rewrite Hne; reflexivity);
      apply step_kind_C; auto end. }
  destruct (c =? 116).
  { match goal with |- Cres _ _ (step_kind ?q _ _ _ _) =>
      destruct (Hpush jTrue q) as [H1 H2]; jpsimp; rewrite ?Hne; auto; [ust; lia|];
      replace (ret :: jp_states p) with (jp_states q) by (jpsimp; rewrite Hne; reflexivity);
      apply step_kind_C; auto end. }
  destruct (c =? 34).
  { match goal with |- Cres _ _ (step_string ?q _ _) =>
      destruct (Hpush jString q) as [H1 H2]; jpsimp; rewrite ?Hne; auto; [ust; lia|];
      replace (ret :: jp_states p) with (jp_states q) by (jpsimp; rewrite Hne; reflexivity);
      apply step_string_C; auto end. }
  destruct (_ || _).
  { match goal with |- Cres _ _ (step_number pf ?q _ _) =>
      destruct (Hpush jNumber q) as [H1 H2]; jpsimp; rewrite ?Hne; auto; [ust; lia|];
      replace (ret :: jp_states p) with (jp_states q) by (jpsimp; rewrite Hne; reflexivity);
      apply step_number_C; auto end. }
  apply Cres_err. ust; lia.
Qed.

Lemma Cres_st0 : forall st0 st1 s r,
  (match r with JS _ _ _ rep e => e = jpnil -> rep = true -> tl st0 = tl st1 | _ => True end) ->
  Cres st0 s r -> Cres st1 s r.
Proof.
  intros st0 st1 s [p1 s1 rest rep e|w] H; cbn [Cres]; [|auto].
  intros (l & Hl1 & Hl2 & Hl3). exists l. split; [exact Hl1|]. split; [exact Hl2|].
  intros He. destruct (Hl3 He) as (A & B & C). split; [exact A|]. split; [|exact C].
  intros Hr. destruct (B Hr) as [B1 B2]. split; [exact B1|]. rewrite B2. apply H; assumption.
Qed.

(* one step: at most one event; the invariant; the meaning of "reported" *)
Lemma jstep_C : forall p s b, W p ->
  match jstep pf p s b with
  | JCrash _ => True
  | JS p1 s1 rest rep e =>
      exists l, s1 = s_add s l /\ (length l <= 1)%nat /\
      (e = jpnil -> W p1 /\ (rep = true -> l <> []) /\
                    (rep = false -> l <> [] -> jp_states p1 <> []))
  end.
Proof.
  intros p s b Hw.
  assert (G : forall st0, Cres st0 s (jstep pf p s b) ->
    match jstep pf p s b with
    | JCrash _ => True
    | JS p1 s1 rest rep e =>
        exists l, s1 = s_add s l /\ (length l <= 1)%nat /\
        (e = jpnil -> W p1 /\ (rep = true -> l <> []) /\ (rep = false -> l <> [] -> jp_states p1 <> []))
    end).
  { intros st0 H. destruct (jstep pf p s b) as [p1 s1 rest rep e|w]; [|exact I].
    destruct H as (l & H1 & H2 & H3). exists l. split; [exact H1|]. split; [exact H2|].
    intros He. destruct (H3 He) as (A & B & C). split; [exact A|]. split; [|exact C].
    intros Hr. apply B. exact Hr. }
  pose proof Hw as (Hwf & _ & _). pose proof (wfs_range _ _ Hwf) as Hrg.
  destruct (cur_cases (jp_cur p)) as
    [Hc|[Hc|[Hc|[Hc|[Hc|[Hc|[Hc|[Hc|[Hc|[Hc|[Hc|[Hc|[Hc|[Hc|[Hc|[Hc|Hc]]]]]]]]]]]]]]]];
    try (exfalso; ust; lia).
  - (* jStart *)
    assert (Hs : jp_states p = []) by (apply wfs_start; rewrite <- Hc; exact Hwf).
    destruct (W_plain p Hw) as [Hi Hl]; try (rewrite Hc; discriminate).
    apply (G (jStart :: jp_states p)). rewrite (jstep_start pf p s b Hc).
    apply step_value_C; auto. rewrite Hs. reflexivity.
  - (* jArr *)
    assert (Hs : jp_states p <> []) by (apply (wfs_nonempty _ _ Hwf); rewrite Hc; discriminate).
    destruct (W_plain p Hw) as [Hi Hl]; try (rewrite Hc; discriminate).
    apply (G (jp_states p)). rewrite (jstep_arr pf p s b Hc). unfold step_array.
    destruct (trim_left b) as [|c r]; [apply Cres_silent; exact Hw|].
    destruct (c =? 93); [apply end_container_C; auto|].
    apply Cres_silent. apply W_set_cur; auto. ust; lia.
  - (* jArrValue *)
    assert (Hs : jp_states p <> []) by (apply (wfs_nonempty _ _ Hwf); rewrite Hc; discriminate).
    destruct (W_plain p Hw) as [Hi Hl]; try (rewrite Hc; discriminate).
    rewrite (jstep_arrvalue pf p s b Hc).
    pose proof (step_value_C p s b jArrNext Hw) as H.
    destruct (step_value pf p s b jArrNext) as [p1 s1 rest rep e|w]; [|exact I].
    destruct H as (l & H1 & H2 & H3); auto.
    { eapply wfs_retop; eauto. ust; lia. }
    exists l. split; [exact H1|]. split; [exact H2|]. intros He.
    destruct (H3 He) as (A & B & C). split; [exact A|]. split; [discriminate|].
    intros _ Hl0. destruct rep; [|apply C; auto].
    destruct (B eq_refl) as [_ B2]. rewrite B2. exact Hs.
  - (* jArrNext *)
    assert (Hs : jp_states p <> []) by (apply (wfs_nonempty _ _ Hwf); rewrite Hc; discriminate).
    destruct (W_plain p Hw) as [Hi Hl]; try (rewrite Hc; discriminate).
    apply (G (jp_states p)). rewrite (jstep_arrnext pf p s b Hc). unfold step_arr_value_end.
    destruct (trim_left b) as [|c r]; [apply Cres_silent; exact Hw|].
    destruct (c =? 93); [apply end_container_C; auto|].
    destruct (c =? 44); [|apply Cres_err; ust; lia].
    apply Cres_silent. apply W_set_cur; auto. ust; lia.
  - (* jDict *)
    assert (Hs : jp_states p <> []) by (apply (wfs_nonempty _ _ Hwf); rewrite Hc; discriminate).
    destruct (W_plain p Hw) as [Hi Hl]; try (rewrite Hc; discriminate).
    apply (G (jp_states p)). rewrite (jstep_dict pf p s b Hc). unfold step_dict.
    destruct (trim_left b) as [|c r]; [apply Cres_silent; exact Hw|].
    destruct (c =? 125); [cbn [negb]; apply end_container_C; auto|].
    destruct (c =? 34); [|apply Cres_err; ust; lia].
    apply Cres_silent. apply W_set_cur; auto. ust; lia.
  - (* jDictField *)
    assert (Hs : jp_states p <> []) by (apply (wfs_nonempty _ _ Hwf); rewrite Hc; discriminate).
    apply (G (jp_states p)). rewrite (jstep_dictfield pf p s b Hc). apply step_dict_key_C; auto.
  - (* jDictNextField *)
    assert (Hs : jp_states p <> []) by (apply (wfs_nonempty _ _ Hwf); rewrite Hc; discriminate).
    destruct (W_plain p Hw) as [Hi Hl]; try (rewrite Hc; discriminate).
    apply (G (jp_states p)). rewrite (jstep_dictnext pf p s b Hc). unfold step_dict.
    destruct (trim_left b) as [|c r]; [apply Cres_silent; exact Hw|].
    destruct (c =? 125); [cbn [negb]; apply Cres_err; ust; lia|].
    destruct (c =? 34); [|apply Cres_err; ust; lia].
    apply Cres_silent. apply W_set_cur; auto. ust; lia.
  - (* jDictFieldValue *)
    assert (Hs : jp_states p <> []) by (apply (wfs_nonempty _ _ Hwf); rewrite Hc; discriminate).
    destruct (W_plain p Hw) as [Hi Hl]; try (rewrite Hc; discriminate).
    apply (G (jDictFieldStateEnd :: jp_states p)). rewrite (jstep_dictvalue pf p s b Hc).
    apply step_value_C; auto. eapply wfs_retop; eauto. ust; lia.
  - (* jDictFieldValueSep *)
    assert (Hs : jp_states p <> []) by (apply (wfs_nonempty _ _ Hwf); rewrite Hc; discriminate).
    destruct (W_plain p Hw) as [Hi Hl]; try (rewrite Hc; discriminate).
    apply (G (jp_states p)). rewrite (jstep_sep pf p s b Hc).
    destruct (trim_left b) as [|x r]; [apply Cres_silent; exact Hw|].
    destruct (x =? 58); [|apply Cres_err; ust; lia].
    apply Cres_silent. apply W_set_cur; auto. ust; lia.
  - (* jDictFieldStateEnd *)
    assert (Hs : jp_states p <> []) by (apply (wfs_nonempty _ _ Hwf); rewrite Hc; discriminate).
    destruct (W_plain p Hw) as [Hi Hl]; try (rewrite Hc; discriminate).
    apply (G (jp_states p)). rewrite (jstep_dictend pf p s b Hc). unfold step_dict_value_end.
    destruct (trim_left b) as [|c r]; [apply Cres_silent; exact Hw|].
    destruct (c =? 125); [apply end_container_C; auto|].
    destruct (c =? 44); [|apply Cres_err; ust; lia].
    apply Cres_silent. apply W_set_cur; auto. ust; lia.
  - (* jNull *)
    assert (Hs : jp_states p <> []) by (apply (wfs_nonempty _ _ Hwf); rewrite Hc; discriminate).
    destruct (W_plain p Hw) as [Hi Hl]; try (rewrite Hc; discriminate).
    apply (G (jp_states p)). rewrite (jstep_null pf p s b Hc). apply step_kind_C; auto.
  - (* jTrue *)
    assert (Hs : jp_states p <> []) by (apply (wfs_nonempty _ _ Hwf); rewrite Hc; discriminate).
    destruct (W_plain p Hw) as [Hi Hl]; try (rewrite Hc; discriminate).
    apply (G (jp_states p)). rewrite (jstep_true pf p s b Hc). apply step_kind_C; auto.
  - (* jFalse *)
    assert (Hs : jp_states p <> []) by (apply (wfs_nonempty _ _ Hwf); rewrite Hc; discriminate).
    destruct (W_plain p Hw) as [Hi Hl]; try (rewrite Hc; discriminate).
    apply (G (jp_states p)). rewrite (jstep_false pf p s b Hc). apply step_kind_C; auto.
  - (* jString *)
    assert (Hs : jp_states p <> []) by (apply (wfs_nonempty _ _ Hwf); rewrite Hc; discriminate).
    apply (G (jp_states p)). rewrite (jstep_string pf p s b Hc). apply step_string_C; auto.
  - (* jNumber *)
    assert (Hs : jp_states p <> []) by (apply (wfs_nonempty _ _ Hwf); rewrite Hc; discriminate).
    apply (G (jp_states p)). rewrite (jstep_number pf p s b Hc). apply step_number_C; auto.
Qed.

Lemma jstep_W : forall p s b p1 s1 rest rep, W p -> jstep pf p s b = JS p1 s1 rest rep jpnil -> W p1.
Proof.
  intros p s b p1 s1 rest rep Hw H. pose proof (jstep_C p s b Hw) as C. rewrite H in C.
  destruct C as (l & _ & _ & C). apply C. reflexivity.
Qed.

Lemma W_notfailed : forall p, W p -> (jp_cur p =? jFailed) = false.
Proof. intros p (Hw & _). apply wfs_range in Hw. ust. lia. Qed.

Lemma jfeed_until_W : forall fuel p s b orig p' s' r d e,
  W p -> jfeed_until fuel pf p s b orig = Ok (JS p' s' r d e) -> e = jpnil -> W p'.
Proof.
  induction fuel as [|f IH]; intros p s b orig p' s' r d e Hw H He; [discriminate|].
  cbn [jfeed_until] in H.
  destruct (zlen b =? 0); [inversion H; subst; exact Hw|].
  destruct (jstep pf p s b) as [p1 s1 rest rep err|w] eqn:Hx; [|discriminate].
  rewrite (W_notfailed p Hw) in H.
  destruct (jisnil err) eqn:Ee; cbn [negb] in H.
  - apply jisnil_true' in Ee. subst err. pose proof (jstep_W _ _ _ _ _ _ _ Hw Hx) as Hw1.
    destruct (rep && (zlen (jp_states p1) =? 0)).
    + inversion H; subst. exact Hw1.
    + eapply IH; eauto.
  - inversion H; subst. vm_compute in Ee. discriminate Ee.
Qed.

Lemma jfeed_W : forall fuel p s b p' s' e,
  W p -> jfeed fuel pf p s b = Ok (p', s', e) -> e = jpnil -> W p'.
Proof.
  induction fuel as [|f IH]; intros p s b p' s' e Hw H He; [discriminate|].
  cbn [jfeed] in H. destruct (zlen b >? 0); [|inversion H; subst; exact Hw].
  destruct (jfeed_until (jfeed_fuel b) pf p s b b) as [[p1 s1 rest d err|w]| | |] eqn:Hf; try discriminate.
  destruct (jisnil err) eqn:Ee.
  - apply jisnil_true' in Ee. subst err.
    pose proof (jfeed_until_W _ _ _ _ _ _ _ _ _ _ Hw Hf eq_refl) as Hw1. eapply IH; eauto.
  - inversion H; subst. vm_compute in Ee. discriminate Ee.
Qed.

Lemma W_set_err : forall p e, W p -> W (jset_err p e).
Proof. intros p e H. exact H. Qed.

Lemma jp_write_W : forall p s b p' s' e,
  W p -> jp_write pf p s b = Ok (p', s', e) -> e = jpnil -> W p'.
Proof.
  intros p s b p' s' e Hw H He. unfold jp_write in H.
  destruct (jfeed (2 * length b + 2) pf p s b) as [[[p1 s1] err]| | |] eqn:Hf; try discriminate.
  inversion H; subst. apply W_set_err. eapply jfeed_W; eauto.
Qed.

(* what the parser looks like between two top-level values *)
Definition idle (p : jparser) : Prop :=
  jp_cur p = jStart /\ jp_states p = [] /\ jp_inesc p = false.

Lemma idle_W : forall p, idle p -> jp_lit p = [] -> W p.
Proof.
  intros p (H1 & H2 & H3) H4. unfold W. rewrite H1, H2, H3, H4.
  split; [reflexivity|]. split; [discriminate|congruence].
Qed.

(* finalize accepts only at the top level; a pending top-level number is reported,
   popped, and its literal is dropped *)
Lemma jfinalize_idle : forall p s p' s',
  W p -> jfinalize pf p s = Some (p', s', jpnil) ->
  idle p' /\ jp_lit p' = [] /\
  ((jp_cur p <> jNumber /\ p' = p) \/ (jp_cur p = jNumber /\ p' = jset_lit (jpop p) [])).
Proof.
  intros p s p' s' Hw H. unfold jfinalize in H.
  pose proof Hw as (Hwf & Hi & Hl).
  assert (Gi : forall q, wfs (jp_cur q) (jp_states q) -> jp_inesc q = false ->
            (zlen (jp_states q) >? 0) && negb (jp_cur q =? jStart) = false -> idle q).
  { intros q Hq Hqi Hz. unfold idle. destruct (jp_states q) as [|d r] eqn:Es.
    - cbn [wfs] in Hq. auto.
    - cbn [wfs] in Hq. exfalso. unfold zlen in Hz. cbn [length] in Hz. ust. lia. }
  destruct (jp_cur p =? jNumber) eqn:Ec.
  - apply Z.eqb_eq in Ec.
    assert (Hs : jp_states p <> []) by (apply (wfs_nonempty _ _ Hwf); rewrite Ec; discriminate).
    assert (Hie : jp_inesc p = false).
    { destruct (jp_inesc p); [|reflexivity]. destruct (Hi eq_refl) as [K|K]; rewrite Ec in K; discriminate K. }
    destruct (report_number pf s (jp_lit p) (jp_isdbl p)) as [[s1 e]|]; [|discriminate].
    destruct (jisnil e) eqn:Ee; cbn [negb] in H.
    + set (q := jset_lit (jpop p) []) in *.
      destruct ((zlen (jp_states q) >? 0) && negb (jp_cur q =? jStart)) eqn:Ez;
        [inversion H; ust; lia|].
      inversion H; subst p' s'. clear H.
      assert (Hpop : wfs (jp_cur q) (jp_states q) /\ jp_inesc q = false /\ jp_lit q = []).
      { unfold q, jpop. destruct (jp_states p) as [|d r]; [congruence|]. cbn [wfs] in Hwf. jsimp. tauto. }
      destruct Hpop as (A & B & C).
      split; [apply Gi; assumption|]. split; [exact C|]. right. auto.
    + inversion H; subst. vm_compute in Ee. discriminate Ee.
  - cbn [negb] in H.
    destruct ((zlen (jp_states p) >? 0) && negb (jp_cur p =? jStart)) eqn:Ez; [inversion H; ust; lia|].
    inversion H; subst p' s'. clear H. apply Z.eqb_neq in Ec.
    assert (Hidle : idle p).
    { unfold idle. destruct (jp_states p) as [|d r] eqn:Es.
      - cbn [wfs] in Hwf. split; [exact Hwf|]. split; [reflexivity|].
        destruct (jp_inesc p); [|reflexivity]. destruct (Hi eq_refl) as [K|K]; rewrite Hwf in K; discriminate K.
      - cbn [wfs] in Hwf. exfalso. unfold zlen in Ez. cbn [length] in Ez. ust. lia. }
    split; [exact Hidle|]. split; [|left; auto].
    destruct Hidle as (K1 & _). destruct (jp_lit p) as [|x l]; [reflexivity|].
    destruct Hl as [K|[K|K]]; try discriminate; rewrite K1 in K; discriminate K.
Qed.

Definition jreset (p : jparser) : jparser :=
  jset_cur (jset_lit {| jp_cur := jp_cur p; jp_states := []; jp_lit := jp_lit p; jp_inesc := jp_inesc p;
                        jp_isdbl := jp_isdbl p; jp_req := jp_req p; jp_err := jp_err p |} []) jStart.

Lemma jp_parse_reset : forall p s b,
  jp_parse pf p s b =
  match jfeed (2 * length b + 2) pf (jreset p) s b with
  | Ok (p1, s1, err) => if jisnil err then with_final pf p1 s1 else Ok (p1, s1, err)
  | r => r
  end.
Proof. reflexivity. Qed.

Lemma jreset_W : forall p, jp_inesc p = false -> W (jreset p).
Proof.
  intros p H. apply idle_W; [|reflexivity]. unfold idle, jreset; jsimp. auto.
Qed.

Lemma with_final_inv : forall p s r, with_final pf p s = Ok r -> jfinalize pf p s = Some r.
Proof. intros p s r. unfold with_final. destruct (jfinalize pf p s); [intros [= ->]; reflexivity|discriminate]. Qed.

(* C17, Parse: any parser whose escape flag is clear (e.g. a fresh one, or one that
   accepted its last input) is idle again after an accepted Parse, with an empty
   literal buffer *)
Theorem C17_json_parse_idle : forall p s b p' s',
  jp_inesc p = false -> jp_parse pf p s b = Ok (p', s', jpnil) ->
  jp_cur p' = jStart /\ jp_states p' = [] /\ jp_inesc p' = false /\ jp_lit p' = [].
Proof.
  intros p s b p' s' Hi H. rewrite jp_parse_reset in H.
  destruct (jfeed (2 * length b + 2) pf (jreset p) s b) as [[[p1 s1] err]| | |] eqn:Hf; try discriminate.
  destruct (jisnil err) eqn:Ee.
  - apply jisnil_true' in Ee. subst err. apply with_final_inv in H.
    pose proof (jfeed_W _ _ _ _ _ _ _ (jreset_W p Hi) Hf eq_refl) as Hw1.
    destruct (jfinalize_idle _ _ _ _ Hw1 H) as ((A & B & C) & D & _). auto.
  - inversion H; subst. vm_compute in Ee. discriminate Ee.
Qed.

(* C17, Write ... Write, finalize *)
Theorem C17_json_writes_idle : forall chunks p s p' s',
  W p -> jp_writes pf p s chunks = Ok (p', s', jpnil) ->
  jp_cur p' = jStart /\ jp_states p' = [] /\ jp_inesc p' = false /\ jp_lit p' = [].
Proof.
  induction chunks as [|c r IH]; intros p s p' s' Hw H; cbn [jp_writes] in H.
  - apply with_final_inv in H. destruct (jfinalize_idle _ _ _ _ Hw H) as ((A & B & C) & D & _). auto.
  - destruct (jp_write pf p s c) as [[[p1 s1] err]| | |] eqn:Hwr; try discriminate.
    destruct (jisnil err) eqn:Ee.
    + apply jisnil_true' in Ee. subst err. eapply IH; [|exact H]. eapply jp_write_W; eauto.
    + inversion H; subst. vm_compute in Ee. discriminate Ee.
Qed.

Theorem C17_json_run_parse_reset : forall vfail b evs p,
  jrun_parse pf vfail b = Ok (evs, jpnil, p) ->
  jp_cur p = jStart /\ jp_states p = [] /\ jp_inesc p = false /\ jp_lit p = [].
Proof.
  intros vfail b evs p H. unfold jrun_parse in H.
  destruct (jp_parse pf jparser0 (sink0 vfail) b) as [[[p' s'] e']| | |] eqn:E; try discriminate.
  inversion H; subst. exact (C17_json_parse_idle jparser0 _ _ _ _ eq_refl E).
Qed.

Theorem C17_json_run_chunks_reset : forall vfail chunks evs p,
  jrun_chunks pf vfail chunks = Ok (evs, jpnil, p) ->
  jp_cur p = jStart /\ jp_states p = [] /\ jp_inesc p = false /\ jp_lit p = [].
Proof.
  intros vfail chunks evs p H. unfold jrun_chunks in H.
  destruct (jp_writes pf jparser0 (sink0 vfail) chunks) as [[[p' s'] e']| | |] eqn:E; try discriminate.
  inversion H; subst. exact (C17_json_writes_idle _ _ _ _ _ W0 E).
Qed.

(* ---------------------------------------------------------------------- *)
(* C17, behavioural form: an idle parser behaves like a fresh one.  The   *)
(* fields jp_isdbl (outside numbers) and jp_req (outside null/true/false) *)
(* are dead: jp_req is handled by peq in ChunkProofs.v, jp_isdbl here.    *)
(* ---------------------------------------------------------------------- *)
Definition deq (p q : jparser) : Prop :=
  jp_cur p = jp_cur q /\ jp_states p = jp_states q /\ jp_lit p = jp_lit q /\
  jp_inesc p = jp_inesc q /\ jp_req p = jp_req q /\ jp_err p = jp_err q /\
  (jp_cur p = jNumber -> jp_isdbl p = jp_isdbl q).

Lemma deq_refl : forall p, deq p p.
Proof. intros p. unfold deq. repeat split. Qed.

Lemma deq_num_eq : forall p q, deq p q -> jp_cur p = jNumber -> p = q.
Proof.
  intros [c st l ie d r e] [c' st' l' ie' d' r' e'] (H1 & H2 & H3 & H4 & H5 & H6 & H7) K.
  cbn [jp_cur jp_states jp_lit jp_inesc jp_isdbl jp_req jp_err] in *.
  specialize (H7 K). subst. reflexivity.
Qed.

Lemma deq_setdbl : forall p q, deq p q -> q = jset_isdbl p (jp_isdbl q).
Proof.
  intros [c st l ie d r e] [c' st' l' ie' d' r' e'] (H1 & H2 & H3 & H4 & H5 & H6 & H7).
  cbn [jp_cur jp_states jp_lit jp_inesc jp_isdbl jp_req jp_err] in *.
  subst. reflexivity.
Qed.

Lemma deq_dbl : forall p x, jp_cur p <> jNumber -> deq p (jset_isdbl p x).
Proof. intros p x K. unfold deq. js. repeat split. intros; contradiction. Qed.

Lemma ret_not_number : forall c, ret_state c -> c <> jNumber.
Proof. intros c H. unfold ret_state in H. ust. lia. Qed.

Lemma jpop_deq : forall p x, Forall ret_state (jp_states p) -> deq (jpop p) (jpop (jset_isdbl p x)).
Proof.
  intros p x HF. unfold jpop. js. destruct (jp_states p) as [|c r].
  - unfold deq. js. repeat split. intros K. vm_compute in K. discriminate K.
  - inversion HF as [|? ? Hc Hr]; subst. unfold deq. js. repeat split.
    intros K. exfalso. exact (ret_not_number _ Hc K).
Qed.

Definition rdeq (r r' : jsres) : Prop :=
  match r, r' with
  | JS p1 s1 rest d e, JS p2 s2 rest' d' e' => deq p1 p2 /\ s1 = s2 /\ rest = rest' /\ d = d' /\ e = e'
  | JCrash w, JCrash w' => w = w'
  | _, _ => False
  end.
Lemma rdeq_refl : forall r, rdeq r r.
Proof. intros [p s rest d e|w]; cbn [rdeq]; auto using deq_refl. Qed.

Ltac rd := cbn [rdeq]; split; [|repeat split; reflexivity].
Ltac deq_tac :=
  unfold deq; js; repeat split;
  try (let K := fresh "K" in intros K; first [ (vm_compute in K; discriminate K) | congruence | contradiction ]).

Lemma do_string_dbl : forall p x b,
  do_string (jset_isdbl p x) b =
  match do_string p b with
  | DSMore p1 => DSMore (jset_isdbl p1 x)
  | DSDone p1 c r => DSDone (jset_isdbl p1 x) c r
  | DSErr p1 => DSErr (jset_isdbl p1 x)
  | DSCrash w => DSCrash w
  end.
Proof.
  intros p x b. unfold do_string. js.
  destruct (if zlen (jp_lit p) =? 0 then _ else _) as [buf|]; [|reflexivity].
  destruct (scan_quote buf (jp_inesc p) 0) as [found inesc].
  destruct found as [i|]; js; [|reflexivity].
  destruct (zlen _ <? 2); [reflexivity|]. destruct (unquote _); reflexivity.
Qed.

Lemma step_string_dbl : forall p x s b,
  jp_cur p <> jNumber -> Forall ret_state (jp_states p) ->
  rdeq (step_string p s b) (step_string (jset_isdbl p x) s b).
Proof.
  intros p x s b K HF. unfold step_string. rewrite do_string_dbl.
  pose proof (do_string_same p b) as Hs.
  destruct (do_string p b) as [p1|p1 c r|p1|w]; try destruct Hs as (H1 & H2 & H3 & H4 & H5).
  - rd. apply deq_dbl. rewrite H1. exact K.
  - destruct (jvis s _) as [s1 e]. rd. apply jpop_deq. rewrite H2. exact HF.
  - rd. apply deq_dbl. rewrite H1. exact K.
  - reflexivity.
Qed.

Lemma step_dict_key_dbl : forall p x s b,
  jp_cur p <> jNumber ->
  rdeq (step_dict_key p s b) (step_dict_key (jset_isdbl p x) s b).
Proof.
  intros p x s b K. unfold step_dict_key. rewrite do_string_dbl.
  pose proof (do_string_same p b) as Hs.
  destruct (do_string p b) as [p1|p1 c r|p1|w]; try destruct Hs as (H1 & H2 & H3 & H4 & H5).
  - rd. apply deq_dbl. rewrite H1. exact K.
  - destruct (jvis s _) as [s1 e]. rd. deq_tac.
  - rd. apply deq_dbl. rewrite H1. exact K.
  - reflexivity.
Qed.

Lemma step_kind_dbl : forall p x s b kind ev,
  jp_cur p <> jNumber -> Forall ret_state (jp_states p) ->
  rdeq (step_kind p s b kind ev) (step_kind (jset_isdbl p x) s b kind ev).
Proof.
  intros p x s b kind ev K HF. unfold step_kind. js.
  destruct (_ || _); [reflexivity|]. cbv zeta.
  destruct (negb (zlen b <? jp_req p)).
  - destruct (negb (has_prefix _ _)); [rd; apply deq_dbl; exact K|].
    destruct (jvis s ev) as [s2 e]. rd. apply jpop_deq. exact HF.
  - destruct (negb (has_prefix _ _)); rd; deq_tac.
Qed.

Lemma end_container_dbl : forall p x s b ev,
  Forall ret_state (jp_states p) ->
  rdeq (end_container p s b ev) (end_container (jset_isdbl p x) s b ev).
Proof.
  intros p x s b ev HF. unfold end_container. destruct b as [|c r]; [reflexivity|].
  destruct (jvis s ev) as [s1 e]. rd. apply jpop_deq. exact HF.
Qed.

Lemma step_value_dbl : forall p x s b ret,
  jp_cur p <> jNumber -> Forall ret_state (jp_states p) -> ret_state ret ->
  rdeq (step_value pf p s b ret) (step_value pf (jset_isdbl p x) s b ret).
Proof.
  intros p x s b ret K HF Hret. unfold step_value.
  destruct (trim_left b) as [|c r]; [rd; apply deq_dbl; exact K|].
  assert (HF' : Forall ret_state (if ret =? jFailed then jp_states p else ret :: jp_states p)).
  { destruct (ret =? jFailed); [exact HF|constructor; assumption]. }
  destruct (c =? 123). { destruct (jvis s _) as [s1 e]. rd. deq_tac. }
  destruct (c =? 91). { destruct (jvis s _) as [s1 e]. rd. deq_tac. }
  destruct (c =? 110).
  { apply (step_kind_dbl (jset_req (jpush (jset_cur p ret) jNull) 3) x); js; [discriminate|exact HF']. }
  destruct (c =? 102).
  { apply (step_kind_dbl (jset_req (jpush (jset_cur p ret) jFalse) 4) x); js; [discriminate|exact HF']. }
  destruct (c =? 116).
  { apply (step_kind_dbl (jset_req (jpush (jset_cur p ret) jTrue) 3) x); js; [discriminate|exact HF']. }
  destruct (c =? 34).
  { apply (step_string_dbl (jset_inesc (jpush (jset_lit (jset_cur p ret) []) jString) false) x); js;
      [discriminate|exact HF']. }
  destruct (_ || _). { apply rdeq_refl. }
  apply rdeq_refl.
Qed.

Lemma step_dict_dbl : forall p x s b ae,
  jp_cur p <> jNumber -> Forall ret_state (jp_states p) ->
  rdeq (step_dict p s b ae) (step_dict (jset_isdbl p x) s b ae).
Proof.
  intros p x s b ae K HF. unfold step_dict.
  destruct (trim_left b) as [|c r]; [rd; apply deq_dbl; exact K|].
  destruct (c =? 125).
  { destruct (negb ae); [rd; apply deq_dbl; exact K|]. apply end_container_dbl. exact HF. }
  destruct (c =? 34); rd; [deq_tac|apply deq_dbl; exact K].
Qed.

Lemma step_dict_value_end_dbl : forall p x s b,
  jp_cur p <> jNumber -> Forall ret_state (jp_states p) ->
  rdeq (step_dict_value_end p s b) (step_dict_value_end (jset_isdbl p x) s b).
Proof.
  intros p x s b K HF. unfold step_dict_value_end.
  destruct (trim_left b) as [|c r]; [rd; apply deq_dbl; exact K|].
  destruct (c =? 125); [apply end_container_dbl; exact HF|].
  destruct (c =? 44); rd; [deq_tac|apply deq_dbl; exact K].
Qed.

Lemma step_array_dbl : forall p x s b,
  jp_cur p <> jNumber -> Forall ret_state (jp_states p) ->
  rdeq (step_array p s b) (step_array (jset_isdbl p x) s b).
Proof.
  intros p x s b K HF. unfold step_array.
  destruct (trim_left b) as [|c r]; [rd; apply deq_dbl; exact K|].
  destruct (c =? 93); [apply end_container_dbl; exact HF|].
  rd; deq_tac.
Qed.

Lemma step_arr_value_end_dbl : forall p x s b,
  jp_cur p <> jNumber -> Forall ret_state (jp_states p) ->
  rdeq (step_arr_value_end p s b) (step_arr_value_end (jset_isdbl p x) s b).
Proof.
  intros p x s b K HF. unfold step_arr_value_end.
  destruct (trim_left b) as [|c r]; [rd; apply deq_dbl; exact K|].
  destruct (c =? 93); [apply end_container_dbl; exact HF|].
  destruct (c =? 44); rd; [deq_tac|apply deq_dbl; exact K].
Qed.

Lemma jstep_dbl : forall p x s b,
  jp_cur p <> jNumber -> Forall ret_state (jp_states p) ->
  rdeq (jstep pf p s b) (jstep pf (jset_isdbl p x) s b).
Proof.
  intros p x s b K HF. unfold jstep. js.
  destruct (jp_cur p =? jFailed).
  { destruct (jp_err p =? 0); rd; deq_tac. }
  destruct (jp_cur p =? jStart). { apply step_value_dbl; auto. left; reflexivity. }
  destruct (jp_cur p =? jDict). { apply step_dict_dbl; auto. }
  destruct (jp_cur p =? jDictNextField). { apply step_dict_dbl; auto. }
  destruct (jp_cur p =? jDictField). { apply step_dict_key_dbl; auto. }
  destruct (jp_cur p =? jDictFieldValueSep).
  { destruct (trim_left b) as [|c r]; rd; [apply deq_dbl; exact K|deq_tac]. }
  destruct (jp_cur p =? jDictFieldValue). { apply step_value_dbl; auto. right; left; reflexivity. }
  destruct (jp_cur p =? jDictFieldStateEnd). { apply step_dict_value_end_dbl; auto. }
  destruct (jp_cur p =? jArr). { apply step_array_dbl; auto. }
  destruct (jp_cur p =? jArrValue).
  { assert (Hr : ret_state jArrNext) by (right; right; reflexivity).
    pose proof (step_value_dbl p x s b jArrNext K HF Hr) as Hq.
    destruct (step_value pf p s b jArrNext) as [p1 s1 r1 d1 e1|w],
             (step_value pf (jset_isdbl p x) s b jArrNext) as [p2 s2 r2 d2 e2|w']; cbn [rdeq] in *; auto.
    destruct Hq as (H1 & H2 & H3 & H4 & H5). auto. }
  destruct (jp_cur p =? jArrNext). { apply step_arr_value_end_dbl; auto. }
  destruct (jp_cur p =? jNull). { apply step_kind_dbl; auto. }
  destruct (jp_cur p =? jTrue). { apply step_kind_dbl; auto. }
  destruct (jp_cur p =? jFalse). { apply step_kind_dbl; auto. }
  destruct (jp_cur p =? jString). { apply step_string_dbl; auto. }
  destruct (jp_cur p =? jNumber) eqn:E. { apply Z.eqb_eq in E. contradiction. }
  rd. apply deq_dbl; exact K.
Qed.

Lemma jstep_deq : forall p q s b,
  deq p q -> Forall ret_state (jp_states p) ->
  rdeq (jstep pf p s b) (jstep pf q s b).
Proof.
  intros p q s b H HF. destruct (Z.eq_dec (jp_cur p) jNumber) as [K|K].
  - rewrite (deq_num_eq _ _ H K). apply rdeq_refl.
  - rewrite (deq_setdbl _ _ H). apply jstep_dbl; assumption.
Qed.

Definition simd (r r' : fres) : Prop :=
  let '(p, s, e) := r in let '(p', s', e') := r' in
  s = s' /\ e = e' /\ (e = jpnil -> deq p p').

Lemma R_deq : forall p s b r, R pf p s b r -> forall q, deq p q -> inv p -> b <> [] ->
  exists r', R pf q s b r' /\ simd r r'.
Proof.
  induction 1 as [p s b p1 s1 rest d e E Hn | p s b p1 s1 rest d r E Hr HR IH | p s b p1 s1 d E];
    intros q Hq Hi Hb;
    pose proof (jstep_deq p q s b Hq (inv_states p Hi)) as Hp; rewrite E in Hp;
    destruct (jstep pf q s b) as [p2 s2 rest2 d2 e2|w] eqn:Eq; cbn [rdeq] in Hp; try contradiction;
    destruct Hp as (Hp1 & <- & <- & <- & <-).
  - exists (p2, s1, e). split; [eapply R_err; eauto|]. cbn [simd]. split; [reflexivity|]. split; [reflexivity|]. intros; congruence.
  - assert (Hi1 : inv p1) by (eapply jstep_inv; eauto).
    destruct (IH p2 Hp1 Hi1 Hr) as (r' & R' & S').
    exists r'. split; [eapply R_more; eauto|exact S'].
  - exists (p2, s1, jpnil). split; [eapply R_stop; eauto|]. cbn [simd]. auto.
Qed.

Lemma Feed_deq : forall p s b r q, Feed pf p s b r -> deq p q -> inv p ->
  exists r', Feed pf q s b r' /\ simd r r'.
Proof.
  intros p s b r q [[Hb ->]|[Hb HR]] Hq Hi.
  - exists (q, s, jpnil). split; [left; auto|]. cbn [simd]. auto.
  - destruct (R_deq _ _ _ _ HR q Hq Hi Hb) as (r' & R' & S'). exists r'. split; [right; auto|exact S'].
Qed.

Lemma Feed_peq : forall p s b r q, Feed pf p s b r -> peq p q -> inv p ->
  exists r', Feed pf q s b r' /\ sim r r'.
Proof.
  intros p s b r q [[Hb ->]|[Hb HR]] Hq Hi.
  - exists (q, s, jpnil). split; [left; auto|]. cbn [sim]. auto.
  - destruct (R_peq pf _ _ _ _ HR q Hq Hi Hb) as (r' & R' & S'). exists r'. split; [right; auto|exact S'].
Qed.

Lemma jfinalize_deq : forall p q s p' s' e',
  deq p q -> jfinalize pf p s = Some (p', s', e') -> exists q', jfinalize pf q s = Some (q', s', e').
Proof.
  intros p q s p' s' e' H E. destruct (Z.eq_dec (jp_cur p) jNumber) as [K|K].
  - rewrite <- (deq_num_eq _ _ H K). eauto.
  - rewrite (deq_setdbl _ _ H). unfold jfinalize in *. js.
    destruct (jp_cur p =? jNumber) eqn:Ec; [apply Z.eqb_eq in Ec; contradiction|].
    cbn [negb] in *. destruct (_ && _); inversion E; subst; eauto.
Qed.

Lemma Whole_deq : forall p q s b o, Whole pf p s b o -> deq p q -> inv p -> Whole pf q s b o.
Proof.
  intros p q s b o (pm & sm & em & F & O) Hq Hi.
  destruct (Feed_deq _ _ _ _ q F Hq Hi) as ([[qm sm'] em'] & F' & S'). cbn [simd] in S'.
  destruct S' as (<- & <- & S'). exists qm, sm, em. split; [exact F'|].
  destruct O as [O|[O1 [p' O2]]]; [left; exact O|right]. split; [exact O1|].
  eapply jfinalize_deq; [apply S'; exact O1|exact O2].
Qed.

Lemma Whole_peq : forall p q s b o, Whole pf p s b o -> peq p q -> inv p -> Whole pf q s b o.
Proof.
  intros p q s b o (pm & sm & em & F & O) Hq Hi.
  destruct (Feed_peq _ _ _ _ q F Hq Hi) as ([[qm sm'] em'] & F' & S'). cbn [sim] in S'.
  destruct S' as (<- & <- & S'). exists qm, sm, em. split; [exact F'|].
  destruct O as [O|[O1 [p' O2]]]; [left; exact O|right]. split; [exact O1|].
  eapply jfinalize_peq; [apply S'; exact O1|exact O2].
Qed.

(* a parser that is idle, with an empty literal buffer and no latched error *)
Definition fresh_like (p : jparser) : Prop := idle p /\ jp_lit p = [] /\ jp_err p = 0.

Lemma fresh_like_inv : forall p, fresh_like p -> Inv p.
Proof.
  intros p ((H1 & H2 & H3) & H4 & H5). split; [|exact H5].
  unfold inv. rewrite H1, H2, H5. ust. repeat split; try lia; try constructor.
Qed.

Lemma Whole_fresh : forall p s b o, fresh_like p -> Whole pf jparser0 s b o -> Whole pf p s b o.
Proof.
  intros p s b o Hf H. pose proof Hf as ((H1 & H2 & H3) & H4 & H5).
  set (m := jset_isdbl jparser0 (jp_isdbl p)).
  assert (Hm : Whole pf m s b o).
  { eapply Whole_deq; [exact H| |apply inv0]. apply deq_dbl. discriminate. }
  eapply Whole_peq; [exact Hm| |].
  - unfold peq, m. js. cbn [jparser0 jp_cur jp_states jp_lit jp_inesc jp_isdbl jp_req jp_err].
    rewrite H1, H2, H3, H4, H5. repeat split. intros K. vm_compute in K. discriminate K.
  - unfold inv, m; js. cbn [jparser0 jp_cur jp_states jp_lit jp_inesc jp_isdbl jp_req jp_err].
    ust. repeat split; try lia; try constructor.
Qed.

Lemma parse_whole_gen : forall p s b p' sf ef,
  inv (jreset p) -> jp_parse pf p s b = Ok (p', sf, ef) -> Whole pf (jreset p) s b (sf, ef).
Proof.
  intros p s b p' sf ef Hi H. rewrite jp_parse_reset in H.
  destruct (jfeed (2 * length b + 2) pf (jreset p) s b) as [[[p1 s1] e1]| | |] eqn:E; try discriminate.
  apply jfeed_sound in E; [|exact Hi].
  exists p1, s1, e1. split; [exact E|].
  destruct (jisnil e1) eqn:Ee.
  - apply jisnil_true in Ee. right. split; [exact Ee|]. apply with_final_Some in H. exists p'. exact H.
  - apply jisnil_false in Ee. inversion H; subst. left. auto.
Qed.

Lemma jreset_fresh : forall p, jp_inesc p = false -> jp_err p = 0 -> fresh_like (jreset p).
Proof. intros p H1 H2. unfold fresh_like, idle, jreset; js. auto. Qed.

(* Parse on a used parser = Parse on a fresh parser (same events, same verdict) *)
Theorem C17_json_reuse_parse : forall p s b p1 s1 e1 p2 s2 e2,
  jp_inesc p = false -> jp_err p = 0 ->
  jp_parse pf p s b = Ok (p1, s1, e1) -> jp_parse pf jparser0 s b = Ok (p2, s2, e2) ->
  s1 = s2 /\ e1 = e2.
Proof.
  intros p s b p1 s1 e1 p2 s2 e2 Hi He H1 H2.
  pose proof (jreset_fresh p Hi He) as Hf.
  apply parse_whole_gen in H1; [|apply (fresh_like_inv _ Hf)].
  apply (parse_whole pf) in H2. apply (Whole_fresh _ _ _ _ Hf) in H2.
  pose proof (Whole_det pf _ _ _ _ _ H1 H2) as E. inversion E. auto.
Qed.

(* Write on an idle parser with an empty literal buffer = Write on a fresh parser *)
Theorem C17_json_reuse_writes : forall p s chunks p1 s1 e1 p2 s2 e2,
  fresh_like p ->
  jp_writes pf p s chunks = Ok (p1, s1, e1) -> jp_writes pf jparser0 s chunks = Ok (p2, s2, e2) ->
  s1 = s2 /\ e1 = e2.
Proof.
  intros p s chunks p1 s1 e1 p2 s2 e2 Hf H1 H2.
  apply (writes_whole pf _ _ _ _ _ _ (fresh_like_inv _ Hf)) in H1.
  apply (writes_whole pf _ _ _ _ _ _ Inv0) in H2. apply (Whole_fresh _ _ _ _ Hf) in H2.
  pose proof (Whole_det pf _ _ _ _ _ H1 H2) as E. inversion E. auto.
Qed.

(* an accepted run does not latch an error *)
Lemma jfinalize_err : forall p s p' s' e, jfinalize pf p s = Some (p', s', e) -> jp_err p' = jp_err p.
Proof.
  intros p s p' s' e H. unfold jfinalize in H.
  destruct (jp_cur p =? jNumber).
  - destruct (report_number pf s (jp_lit p) (jp_isdbl p)) as [[s1 e1]|]; [|discriminate].
    destruct (jisnil e1); cbn [negb] in H.
    + destruct (_ && _); inversion H; subst; apply jpop_err.
    + inversion H; subst; reflexivity.
  - cbn [negb] in H. destruct (_ && _); inversion H; subst; reflexivity.
Qed.

Lemma jp_parse_err0 : forall p s b p' s',
  jp_inesc p = false -> jp_err p = 0 -> jp_parse pf p s b = Ok (p', s', jpnil) -> jp_err p' = 0.
Proof.
  intros p s b p' s' Hi He H. rewrite jp_parse_reset in H.
  destruct (jfeed (2 * length b + 2) pf (jreset p) s b) as [[[p1 s1] e1]| | |] eqn:E; try discriminate.
  pose proof (fresh_like_inv _ (jreset_fresh p Hi He)) as HI.
  destruct (jisnil e1) eqn:Ee.
  - apply jisnil_true in Ee. subst e1. apply jfeed_sound in E; [|apply HI].
    pose proof (Feed_Inv pf _ _ _ _ _ E HI) as [_ HI1].
    apply with_final_Some in H. rewrite (jfinalize_err _ _ _ _ _ H). exact HI1.
  - inversion H; subst. vm_compute in Ee. discriminate Ee.
Qed.

(* ---------- after any accepted Parse / Write sequence the parser is like a fresh one ---------- *)
Theorem C17_json_parse_fresh : forall p s b p' s',
  jp_inesc p = false -> jp_err p = 0 -> jp_parse pf p s b = Ok (p', s', jpnil) -> fresh_like p'.
Proof.
  intros p s b p' s' Hi He H.
  destruct (C17_json_parse_idle _ _ _ _ _ Hi H) as (A & B & C & D).
  pose proof (jp_parse_err0 _ _ _ _ _ Hi He H) as E. unfold fresh_like, idle. auto.
Qed.

Theorem C17_json_writes_fresh : forall chunks p s p' s',
  W p -> jp_err p = 0 -> jp_writes pf p s chunks = Ok (p', s', jpnil) -> fresh_like p'.
Proof.
  induction chunks as [|c r IH]; intros p s p' s' Hw He H.
  - destruct (C17_json_writes_idle [] _ _ _ _ Hw H) as (A & B & C & D).
    cbn [jp_writes] in H. apply with_final_Some in H. pose proof (jfinalize_err _ _ _ _ _ H) as E.
    unfold fresh_like, idle. rewrite E. auto.
  - cbn [jp_writes] in H.
    destruct (jp_write pf p s c) as [[[p1 s1] err]| | |] eqn:Hwr; try discriminate.
    destruct (jisnil err) eqn:Ee; [|inversion H; subst; vm_compute in Ee; discriminate Ee].
    apply jisnil_true' in Ee. subst err. eapply IH; [| |exact H].
    + eapply jp_write_W; eauto.
    + unfold jp_write in Hwr. destruct (jfeed _ pf p s c) as [[[q sq] eq]| | |]; try discriminate.
      inversion Hwr; subst. reflexivity.
Qed.

Lemma fresh_like_W : forall p, fresh_like p -> W p.
Proof. intros p (Hi & Hl & _). apply idle_W; assumption. Qed.

Theorem C17_json_run_parse_fresh : forall vfail b evs p,
  jrun_parse pf vfail b = Ok (evs, jpnil, p) -> fresh_like p.
Proof.
  intros vfail b evs p H. unfold jrun_parse in H.
  destruct (jp_parse pf jparser0 (sink0 vfail) b) as [[[p' s'] e']| | |] eqn:E; try discriminate.
  inversion H; subst. exact (C17_json_parse_fresh jparser0 _ _ _ _ eq_refl eq_refl E).
Qed.

Theorem C17_json_run_chunks_fresh : forall vfail chunks evs p,
  jrun_chunks pf vfail chunks = Ok (evs, jpnil, p) -> fresh_like p.
Proof.
  intros vfail chunks evs p H. unfold jrun_chunks in H.
  destruct (jp_writes pf jparser0 (sink0 vfail) chunks) as [[[p' s'] e']| | |] eqn:E; try discriminate.
  inversion H; subst. exact (C17_json_writes_fresh _ _ _ _ _ W0 eq_refl E).
Qed.

(* one further use of a fresh-like parser - a Parse, or a sequence of Writes closed by
   finalize -: it returns, it returns what a fresh parser returns (same events, same
   verdict, for every visitor), and if the input is accepted the parser is fresh-like
   again; so by induction a reused parser behaves like a fresh one on every sequence
   of uses *)
Inductive jop := OpParse (b : bytes) | OpWrites (chunks : list bytes).
Definition jop_run (p : jparser) (s : sink) (op : jop) : res (jparser * sink * Z) :=
  match op with OpParse b => jp_parse pf p s b | OpWrites cs => jp_writes pf p s cs end.

Theorem C17_json_session_step : forall p s op, fresh_like p ->
  exists p1 p2 s' e', jop_run p s op = Ok (p1, s', e') /\ jop_run jparser0 s op = Ok (p2, s', e') /\
                      (e' = jpnil -> fresh_like p1).
Proof.
  intros p s [b|cs] Hf; cbn [jop_run]; pose proof Hf as ((Hc & Hs & Hi) & Hl & He).
  - destruct (jp_parse_ok pf p s b) as (p1 & s1 & e1 & H1 & _); [rewrite He; ust; lia|].
    destruct (jp_parse_ok pf jparser0 s b) as (p2 & s2 & e2 & H2 & _); [cbn; ust; lia|].
    destruct (C17_json_reuse_parse _ _ _ _ _ _ _ _ _ Hi He H1 H2) as [<- <-].
    exists p1, p2, s1, e1. split; [exact H1|]. split; [exact H2|].
    intros ->. eapply C17_json_parse_fresh; eauto.
  - pose proof (fresh_like_inv _ Hf) as [HI _].
    destruct (jp_writes_ok pf cs p s (length (jp_states p) + length (jp_lit p)) HI) as (p1 & s1 & e1 & H1 & _); [lia|lia|].
    destruct (jp_writes_ok pf cs jparser0 s 0%nat inv0) as (p2 & s2 & e2 & H2 & _); [cbn; lia|cbn; lia|].
    destruct (C17_json_reuse_writes _ _ _ _ _ _ _ _ _ Hf H1 H2) as [<- <-].
    exists p1, p2, s1, e1. split; [exact H1|]. split; [exact H2|].
    intros ->. eapply C17_json_writes_fresh; [apply fresh_like_W; exact Hf|exact He|exact H1].
Qed.

(* the statements asked for: after an accepted Parse on a fresh parser, a Parse / a Write
   sequence on the same parser object returns what a fresh parser returns *)
Theorem C17_json_parse_reusable : forall vfail b evs p s b2,
  jrun_parse pf vfail b = Ok (evs, jpnil, p) ->
  exists p1 p2 s' e', jp_parse pf p s b2 = Ok (p1, s', e') /\ jp_parse pf jparser0 s b2 = Ok (p2, s', e').
Proof.
  intros vfail b evs p s b2 H. apply C17_json_run_parse_fresh in H.
  destruct (C17_json_session_step p s (OpParse b2) H) as (p1 & p2 & s' & e' & H1 & H2 & _). eauto 8.
Qed.

Theorem C17_json_write_reusable : forall vfail b evs p s chunks,
  jrun_parse pf vfail b = Ok (evs, jpnil, p) ->
  exists p1 p2 s' e', jp_writes pf p s chunks = Ok (p1, s', e') /\ jp_writes pf jparser0 s chunks = Ok (p2, s', e').
Proof.
  intros vfail b evs p s chunks H. apply C17_json_run_parse_fresh in H.
  destruct (C17_json_session_step p s (OpWrites chunks) H) as (p1 & p2 & s' & e' & H1 & H2 & _). eauto 8.
Qed.

Theorem C17_json_chunks_reusable : forall vfail cs evs p s op,
  jrun_chunks pf vfail cs = Ok (evs, jpnil, p) ->
  exists p1 p2 s' e', jop_run p s op = Ok (p1, s', e') /\ jop_run jparser0 s op = Ok (p2, s', e') /\
                      (e' = jpnil -> fresh_like p1).
Proof.
  intros vfail cs evs p s op H. apply C17_json_run_chunks_fresh in H. apply C17_json_session_step. exact H.
Qed.

(* ====================================================================== *)
(* Part 3: C18 - the pull decoder                                         *)
(* ====================================================================== *)

(* ---------- (a) Next always returns ---------- *)
Lemma jfeed_until_norep : forall fuel p s b orig p1 s1 rest,
  inv p -> jfeed_until fuel pf p s b orig = Ok (JS p1 s1 rest false jpnil) -> rest = [].
Proof.
  induction fuel as [|f IH]; intros p s b orig p1 s1 rest Hi H; [discriminate|].
  cbn [jfeed_until] in H.
  destruct (zlen b =? 0) eqn:Eb.
  { inversion H; subst. destruct rest; [reflexivity|]. unfold zlen in Eb. cbn [length] in Eb. lia. }
  assert (Hb : b <> []) by (intros ->; discriminate Eb).
  destruct (jstep pf p s b) as [pa sa ra da ea|w] eqn:E; [|discriminate].
  destruct (jp_cur p =? jFailed) eqn:Ef.
  { apply Z.eqb_eq in Ef. destruct (jstep_failed pf p s b Ef) as (p' & err & E' & Hne & _); [apply Hi|].
    rewrite E in E'. inversion E'; subst. inversion H; subst. congruence. }
  destruct (jisnil ea) eqn:En; cbn [negb] in H.
  - apply jisnil_true in En. subst ea.
    destruct (da && (zlen (jp_states pa) =? 0)); [discriminate|].
    eapply IH; [|exact H]. eapply jstep_inv; eauto.
  - apply jisnil_false in En. inversion H; subst. congruence.
Qed.

Lemma jpop_lit_ok : forall p, Forall ret_state (jp_states p) -> jp_err p <> jpnil ->
  inv (jset_lit (jpop p) []) /\ wgt (jp_cur (jset_lit (jpop p) [])) = 0%nat.
Proof.
  intros p Hst Her. destruct (jpop_ok p Hst Her) as (Hi' & Hw' & _). jsimp. split; [|exact Hw'].
  inv_split Hi'. unfold inv; jsimp. split; [assumption|]. split; [assumption|].
  split; [|split; assumption]. intros K. rewrite K in Hw'. discriminate Hw'.
Qed.

Lemma jfinalize_inv : forall p s p' s', inv p -> jfinalize pf p s = Some (p', s', jpnil) -> inv p'.
Proof.
  intros p s p' s' Hi H. unfold jfinalize in H. pose proof Hi as Hi0. inv_split Hi.
  destruct (jp_cur p =? jNumber).
  - destruct (report_number pf s _ _) as [[s1 e]|]; [|discriminate].
    destruct (jisnil e) eqn:Ee; cbn [negb] in H.
    + destruct (_ && _); inversion H; subst; apply (jpop_lit_ok _ Hst Her).
    + inversion H; subst. vm_compute in Ee. discriminate Ee.
  - cbn [negb] in H. destruct (_ && _); inversion H; subst; exact Hi0.
Qed.

Lemma jdec_finalize_ok : forall d s, inv (jd_p d) ->
  exists d' s' e, jdec_finalize pf d s = Ok (d', s', e) /\ (e = jpnil -> inv (jd_p d')) /\
                  jd_script d' = jd_script d /\ jd_buf d' = jd_buf d.
Proof.
  intros d s Hi. unfold jdec_finalize.
  destruct (with_final_ok pf (jd_p d) s Hi) as (p' & s' & err & Heq & _).
  apply with_final_Some in Heq. rewrite Heq.
  assert (Hinv : err = jpnil -> inv p') by (intros ->; eapply jfinalize_inv; eauto).
  destruct (negb (jisnil err)) eqn:En.
  - eexists _, _, _. split; [reflexivity|]. cbn [jd_p jd_script jd_buf]. auto.
  - apply negb_false_iff, jisnil_true in En.
    destruct (jp_cur (jd_p d) =? jNumber); eexists _, _, _; (split; [reflexivity|]);
      cbn [jd_p jd_script jd_buf]; (split; [|auto]); intros E; auto; ust; lia.
Qed.

Definition jmeasure (d : jdecoder) : nat :=
  (2 * length (jd_script d) + match jd_buf d with [] => 0 | _ => 1 end)%nat.

(* C18 (a): from any reachable parser state, for any reader script and any visitor
   failure index, Next returns (no panic, no missing fuel); a nil verdict keeps
   the parser invariant, so the next call returns as well *)
Theorem C18_json_next_total : forall fuel d s,
  inv (jd_p d) -> (jmeasure d < fuel)%nat ->
  exists d' s' e, jdec_next fuel pf d s = Ok (d', s', e) /\ (e = jpnil -> inv (jd_p d')) /\
                  (jmeasure d' <= jmeasure d)%nat.
Proof.
  induction fuel as [|f IH]; intros d s Hi Hm; [lia|].
  (* the part after the buffer has been filled *)
  assert (Body : forall d1, inv (jd_p d1) -> (jmeasure d1 <= jmeasure d)%nat ->
            (jd_buf d1 = [] -> (jmeasure d1 < jmeasure d)%nat) ->
            exists d' s' e,
              match jfeed_until (jfeed_fuel (jd_buf d1)) pf (jd_p d1) s (jd_buf d1) (jd_buf d1) with
              | Ok (JS p1 s1 rest rep err) =>
                  let d2 := {| jd_p := p1; jd_buf := rest; jd_script := jd_script d1; jd_bytesdec := jd_bytesdec d1 |} in
                  if negb (jisnil err) then Ok ({| jd_p := p1; jd_buf := jd_buf d1; jd_script := jd_script d1; jd_bytesdec := jd_bytesdec d1 |}, s1, err)
                  else if rep then Ok (d2, s1, jpnil)
                  else jdec_next f pf d2 s1
              | Ok (JCrash w) => Panic w
              | Err e => Err e | Panic w => Panic w | OutOfFuel => OutOfFuel
              end = Ok (d', s', e) /\ (e = jpnil -> inv (jd_p d')) /\ (jmeasure d' <= jmeasure d)%nat).
  { intros d1 Hi1 Hm1 Hm2.
    pose proof (wgt_le1 (jp_cur (jd_p d1))) as Hw.
    destruct (jfeed_until_ok pf (jfeed_fuel (jd_buf d1)) (jd_p d1) s (jd_buf d1) (jd_buf d1)
                (length (jp_lit (jd_p d1)) + length (jd_buf d1))%nat
                (length (jp_states (jd_p d1)) + length (jd_buf d1))%nat Hi1)
      as (p1 & s1 & rest & rep & err & Heq & _ & _ & Hn); [unfold jfeed_fuel; lia|lia|lia|].
    rewrite Heq. cbv zeta.
    destruct (jisnil err) eqn:Ee; cbn [negb].
    - apply jisnil_true in Ee. subst err. destruct (Hn eq_refl) as (Hi' & _ & _ & Hle & _).
      destruct rep.
      + eexists _, _, _. split; [reflexivity|]. cbn [jd_p]. split; [auto|].
        unfold jmeasure in *. cbn [jd_script jd_buf].
        destruct rest as [|x rest]; [lia|]. destruct (jd_buf d1); [cbn [length] in Hle; lia|lia].
      + apply jfeed_until_norep in Heq; [|exact Hi1]. subst rest.
        destruct (IH {| jd_p := p1; jd_buf := []; jd_script := jd_script d1; jd_bytesdec := jd_bytesdec d1 |} s1)
          as (d' & s' & e & H1 & H2 & H3); [exact Hi'| |].
        { unfold jmeasure in *. cbn [jd_script jd_buf] in *. destruct (jd_buf d1); [specialize (Hm2 eq_refl)|]; lia. }
        exists d', s', e. split; [exact H1|]. split; [exact H2|].
        unfold jmeasure in *. cbn [jd_script jd_buf] in *. destruct (jd_buf d1); lia.
    - apply jisnil_false in Ee. eexists _, _, _. split; [reflexivity|]. split; [intros; contradiction|].
      unfold jmeasure in *. cbn [jd_script jd_buf]. lia. }
  assert (Fin : forall d1, inv (jd_p d1) -> (jmeasure d1 <= jmeasure d)%nat ->
            exists d' s' e, jdec_finalize pf d1 s = Ok (d', s', e) /\ (e = jpnil -> inv (jd_p d')) /\
                            (jmeasure d' <= jmeasure d)%nat).
  { intros d1 Hi1 Hm1. destruct (jdec_finalize_ok d1 s Hi1) as (d' & s' & e & H1 & H2 & H3 & H4).
    exists d', s', e. split; [exact H1|]. split; [exact H2|]. unfold jmeasure in *. rewrite H3, H4. exact Hm1. }
  cbn [jdec_next].
  destruct (zlen (jd_buf d) =? 0) eqn:Eb.
  - assert (Hb : jd_buf d = []).
    { destruct (jd_buf d); [reflexivity|]. unfold zlen in Eb. cbn [length] in Eb. lia. }
    destruct (jd_bytesdec d); [apply Fin; [exact Hi|lia]|].
    destruct (jd_script d) as [|[data err] rest] eqn:Es; [apply Fin; [exact Hi|lia]|].
    cbv zeta.
    destruct ((zlen data =? 0) && negb (err =? 0)) eqn:Ec.
    + destruct (err =? jeEOF).
      * apply Fin; [exact Hi|]. unfold jmeasure. cbn [jd_script jd_buf]. rewrite Es, Hb.
        apply andb_true_iff in Ec. destruct Ec as [Ec _].
        destruct data; [cbn [length]; lia|unfold zlen in Ec; cbn [length] in Ec; lia].
      * eexists _, _, _. split; [reflexivity|]. split.
        -- intros ->. apply andb_true_iff in Ec. destruct Ec as [_ Ec]. exact Hi.
        -- unfold jmeasure. cbn [jd_script jd_buf]. rewrite Es, Hb.
           apply andb_true_iff in Ec. destruct Ec as [Ec _].
           destruct data; [cbn [length]; lia|unfold zlen in Ec; cbn [length] in Ec; lia].
    + apply Body; cbn [jd_p jd_buf jd_script]; [exact Hi| |].
      * unfold jmeasure. cbn [jd_script jd_buf]. rewrite Es, Hb. destruct data; cbn [length]; lia.
      * intros ->. unfold jmeasure. cbn [jd_script jd_buf]. rewrite Es, Hb. cbn [length]. lia.
  - apply Body; [exact Hi|lia|]. intros E. rewrite E in Eb. discriminate Eb.
Qed.

(* ---------- Next, unfolded once ---------- *)
Definition jdec_body (f : nat) (d1 : jdecoder) (s : sink) : res (jdecoder * sink * Z) :=
  match jfeed_until (jfeed_fuel (jd_buf d1)) pf (jd_p d1) s (jd_buf d1) (jd_buf d1) with
  | Ok (JS p1 s1 rest rep err) =>
      let d2 := {| jd_p := p1; jd_buf := rest; jd_script := jd_script d1; jd_bytesdec := jd_bytesdec d1 |} in
      if negb (jisnil err) then Ok ({| jd_p := p1; jd_buf := jd_buf d1; jd_script := jd_script d1; jd_bytesdec := jd_bytesdec d1 |}, s1, err)
      else if rep then Ok (d2, s1, jpnil)
      else jdec_next f pf d2 s1
  | Ok (JCrash w) => Panic w
  | Err e => Err e | Panic w => Panic w | OutOfFuel => OutOfFuel
  end.

Inductive jfill_res := JFbody (d1 : jdecoder) | JFfin (d1 : jdecoder) | JFerr (d1 : jdecoder) (e : Z).

Definition jdec_fill (d : jdecoder) : jfill_res :=
  if zlen (jd_buf d) =? 0 then
    if jd_bytesdec d then JFfin d
    else match jd_script d with
         | [] => JFfin d
         | (data, err) :: rest =>
             let d1 := {| jd_p := jd_p d; jd_buf := data; jd_script := rest; jd_bytesdec := false |} in
             if (zlen data =? 0) && negb (err =? 0) then (if err =? jeEOF then JFfin d1 else JFerr d1 err)
             else JFbody d1
         end
  else JFbody d.

Lemma jdec_next_S : forall f d s,
  jdec_next (S f) pf d s =
  match jdec_fill d with
  | JFbody d1 => jdec_body f d1 s
  | JFfin d1 => jdec_finalize pf d1 s
  | JFerr d1 e => Ok (d1, s, e)
  end.
Proof.
  intros f d s. cbn [jdec_next]. unfold jdec_fill, jdec_body.
  destruct (zlen (jd_buf d) =? 0); [|reflexivity].
  destruct (jd_bytesdec d); [reflexivity|].
  destruct (jd_script d) as [|[data err] rest]; [reflexivity|]. cbv zeta.
  destruct ((zlen data =? 0) && negb (err =? 0)); [|reflexivity].
  destruct (err =? jeEOF); reflexivity.
Qed.

(* everything the decoder will still see *)
Definition jtailb (d : jdecoder) : bytes :=
  if jd_bytesdec d then [] else concat (map fst (jd_script d)).
Definition jrem (d : jdecoder) : bytes := jd_buf d ++ jtailb d.

Lemma zlen0_nil : forall (b : bytes), (zlen b =? 0) = true -> b = [].
Proof. intros [|x b] H; [reflexivity|]. unfold zlen in H. cbn [length] in H. lia. Qed.

Lemma jdec_fill_spec : forall d,
  match jdec_fill d with
  | JFbody d1 => jd_p d1 = jd_p d /\ jrem d1 = jrem d
  | JFfin d1 => jd_p d1 = jd_p d /\ jd_buf d1 = [] /\ jrem d1 = jrem d /\
                (jrem d = [] \/ exists r, jd_script d = ([], jeEOF) :: r /\ jd_script d1 = r /\ jd_bytesdec d = false)
  | JFerr d1 e => jd_p d1 = jd_p d /\ e <> 0 /\ e <> jeEOF /\ exists r, jd_script d = ([], e) :: r
  end.
Proof.
  intros d. unfold jdec_fill.
  destruct (zlen (jd_buf d) =? 0) eqn:Eb; [|auto].
  apply zlen0_nil in Eb.
  destruct (jd_bytesdec d) eqn:Ebd.
  { split; [reflexivity|]. split; [exact Eb|]. split; [reflexivity|]. left. unfold jrem, jtailb. rewrite Eb, Ebd. reflexivity. }
  destruct (jd_script d) as [|[data err] rest] eqn:Es.
  { split; [reflexivity|]. split; [exact Eb|]. split; [reflexivity|]. left. unfold jrem, jtailb. rewrite Eb, Ebd, Es. reflexivity. }
  cbv zeta. destruct ((zlen data =? 0) && negb (err =? 0)) eqn:Ec.
  - apply andb_true_iff in Ec. destruct Ec as [Ec1 Ec2]. apply zlen0_nil in Ec1. subst data.
    apply negb_true_iff, Z.eqb_neq in Ec2.
    destruct (err =? jeEOF) eqn:Ee.
    + apply Z.eqb_eq in Ee. subst err. cbn [jd_p jd_buf jd_script]. split; [reflexivity|]. split; [reflexivity|].
      split; [unfold jrem, jtailb; cbn [jd_buf jd_script jd_bytesdec]; rewrite Eb, Ebd, Es; reflexivity|].
      right. exists rest. auto.
    + apply Z.eqb_neq in Ee. cbn [jd_p]. split; [reflexivity|]. split; [exact Ec2|]. split; [exact Ee|]. eauto.
  - cbn [jd_p]. split; [reflexivity|]. unfold jrem, jtailb. cbn [jd_buf jd_script jd_bytesdec].
    rewrite Eb, Ebd, Es. cbn [map fst concat app]. reflexivity.
Qed.

(* reader errors are never the parser's internal "nil" code *)
Definition jscript_ok (sc : list (bytes * Z)) : Prop := Forall (fun x => snd x <> jpnil) sc.

Lemma jdec_fill_script : forall d, jscript_ok (jd_script d) ->
  match jdec_fill d with
  | JFbody d1 | JFfin d1 | JFerr d1 _ => jscript_ok (jd_script d1)
  end.
Proof.
  intros d H. unfold jdec_fill.
  destruct (zlen (jd_buf d) =? 0); [|exact H].
  destruct (jd_bytesdec d); [exact H|].
  destruct (jd_script d) as [|[data err] rest] eqn:Es; [rewrite Es; exact H|]. cbv zeta.
  inversion H; subst.
  destruct ((zlen data =? 0) && negb (err =? 0)); [destruct (err =? jeEOF)|]; cbn [jd_script]; assumption.
Qed.

(* ---------- (b) a Next that returns nil delivered at least one event, consumed input,
   and left the parser idle ---------- *)
Lemma jfeed_until_C : forall fuel p s b orig p' s' rest rep e,
  W p -> jfeed_until fuel pf p s b orig = Ok (JS p' s' rest rep e) ->
  exists L, s' = s_add s L /\ (e = jpnil -> rep = true -> L <> [] /\ jp_states p' = []).
Proof.
  induction fuel as [|f IH]; intros p s b orig p' s' rest rep e Hw H; [discriminate|].
  cbn [jfeed_until] in H.
  destruct (zlen b =? 0).
  { inversion H; subst. exists []. rewrite s_add_nil. split; [reflexivity|]. intros _ K. discriminate K. }
  pose proof (jstep_C p s b Hw) as C.
  destruct (jstep pf p s b) as [p1 s1 r1 rep1 err|w] eqn:Hx; [|discriminate].
  destruct C as (l & -> & _ & C).
  rewrite (W_notfailed p Hw) in H.
  destruct (jisnil err) eqn:Ee; cbn [negb] in H.
  - apply jisnil_true' in Ee. subst err. destruct (C eq_refl) as (Hw1 & C1 & _).
    destruct (rep1 && (zlen (jp_states p1) =? 0)) eqn:Er.
    + inversion H; subst. exists l. split; [reflexivity|]. intros _ _.
      apply andb_true_iff in Er. destruct Er as [Er1 Er2]. split; [apply C1; exact Er1|].
      destruct (jp_states p') as [|c st]; [reflexivity|]. unfold zlen in Er2. cbn [length] in Er2. lia.
    + destruct (IH _ _ _ _ _ _ _ _ _ Hw1 H) as (L & -> & HL).
      exists (l ++ L). split; [apply s_add_add|]. intros He Hr. destruct (HL He Hr) as [HL1 HL2].
      split; [|exact HL2]. destruct l; [exact HL1|discriminate].
  - inversion H; subst. exists l. split; [reflexivity|]. intros ->. vm_compute in Ee. discriminate Ee.
Qed.

Lemma jfinalize_add : forall p s p' s' e, jfinalize pf p s = Some (p', s', e) ->
  exists l, s' = s_add s l /\ (e = jpnil -> jp_cur p = jNumber -> l <> []).
Proof.
  intros p s p' s' e H. unfold jfinalize in H.
  destruct (jp_cur p =? jNumber) eqn:Ec.
  - destruct (report_number pf s (jp_lit p) (jp_isdbl p)) as [[s1 e1]|] eqn:Er; [|discriminate].
    destruct (report_number_add _ _ _ _ _ Er) as (l & -> & _ & Hl).
    destruct (jisnil e1) eqn:Ee; cbn [negb] in H.
    + apply jisnil_true' in Ee. destruct (_ && _); inversion H; subst; exists l; auto.
    + inversion H; subst. exists l. split; [reflexivity|]. intros ->. vm_compute in Ee. discriminate Ee.
  - apply Z.eqb_neq in Ec. cbn [negb] in H.
    destruct (_ && _); inversion H; subst; exists []; rewrite s_add_nil; (split; [reflexivity|]);
      intros _ K; contradiction.
Qed.

Definition jmu (d : jdecoder) : nat := (2 * length (jrem d) + wgt (jp_cur (jd_p d)))%nat.

Lemma jdec_finalize_nil : forall d s d' s',
  W (jd_p d) -> inv (jd_p d) -> jdec_finalize pf d s = Ok (d', s', jpnil) ->
  (exists L, s' = s_add s L /\ L <> []) /\ idle (jd_p d') /\ inv (jd_p d') /\
  jd_buf d' = jd_buf d /\ jd_script d' = jd_script d /\ jd_bytesdec d' = jd_bytesdec d /\
  wgt (jp_cur (jd_p d)) = 1%nat /\ wgt (jp_cur (jd_p d')) = 0%nat /\
  jp_cur (jd_p d) = jNumber /\ jfinalize pf (jd_p d) s = Some (jd_p d', s', jpnil).
Proof.
  intros d s d' s' Hw Hi H. unfold jdec_finalize in H.
  destruct (jfinalize pf (jd_p d) s) as [[[p1 s1] e]|] eqn:Ef; [|discriminate].
  destruct (negb (jisnil e)) eqn:En.
  { inversion H; subst. vm_compute in En. discriminate En. }
  apply negb_false_iff, jisnil_true' in En. subst e.
  destruct (jp_cur (jd_p d) =? jNumber) eqn:Ec; [|inversion H; ust; lia].
  apply Z.eqb_eq in Ec. inversion H; subst d' s'. cbn [jd_p jd_buf jd_script jd_bytesdec].
  destruct (jfinalize_add _ _ _ _ _ Ef) as (l & -> & Hl).
  destruct (jfinalize_idle _ _ _ _ Hw Ef) as (Hidle & _ & [(K & _)|(_ & Hp)]); [contradiction|].
  split; [exists l; auto|]. split; [exact Hidle|].
  inv_split Hi. destruct (jpop_lit_ok _ Hst Her) as (Hi' & Hw').
  subst p1. split; [exact Hi'|]. repeat split; auto. rewrite Ec. reflexivity.
Qed.

Lemma idle_W' : forall p, idle p -> W p -> W p.
Proof. auto. Qed.

Theorem C18_json_next_value_partial : forall fuel d s d' s',
  W (jd_p d) -> inv (jd_p d) -> jscript_ok (jd_script d) -> jdec_next fuel pf d s = Ok (d', s', jpnil) ->
  (exists L, s' = s_add s L /\ L <> []) /\
  jp_cur (jd_p d') = jStart /\ jp_states (jd_p d') = [] /\ jp_inesc (jd_p d') = false /\
  inv (jd_p d') /\ (jmu d' < jmu d)%nat.
Proof.
  induction fuel as [|f IH]; intros d s d' s' Hw Hi Hsc H; [discriminate|].
  rewrite jdec_next_S in H. pose proof (jdec_fill_spec d) as Hf.
  pose proof (jdec_fill_script d Hsc) as Hsc1.
  destruct (jdec_fill d) as [d1|d1|d1 e].
  - (* feed the buffer *)
    destruct Hf as [Hp Hr]. unfold jdec_body in H.
    pose proof (wgt_le1 (jp_cur (jd_p d1))) as Hwg.
    assert (Hi1 : inv (jd_p d1)) by (rewrite Hp; exact Hi).
    assert (Hw1 : W (jd_p d1)) by (rewrite Hp; exact Hw).
    destruct (jfeed_until_ok pf (jfeed_fuel (jd_buf d1)) (jd_p d1) s (jd_buf d1) (jd_buf d1)
                (length (jp_lit (jd_p d1)) + length (jd_buf d1))%nat
                (length (jp_states (jd_p d1)) + length (jd_buf d1))%nat Hi1)
      as (p1 & s1 & rest & rep & err & Heq & _ & _ & Hn); [unfold jfeed_fuel; lia|lia|lia|].
    rewrite Heq in H. cbv zeta in H.
    destruct (jfeed_until_C _ _ _ _ _ _ _ _ _ _ Hw1 Heq) as (L1 & -> & HL1).
    pose proof (fun E => jfeed_until_W _ _ _ _ _ _ _ _ _ _ Hw1 Heq E) as Hw2.
    destruct (jisnil err) eqn:Ee; cbn [negb] in H; [|inversion H; subst; vm_compute in Ee; discriminate Ee].
    apply jisnil_true' in Ee. subst err. destruct (Hn eq_refl) as (Hi' & _ & _ & Hle & Hlt).
    assert (Hmu : forall d2, jd_p d2 = p1 -> jrem d2 = rest ++ jtailb d1 ->
              (jmu d2 <= jmu d)%nat /\ (jd_buf d1 <> [] -> jmu d2 < jmu d)%nat).
    { intros d2 E1 E2. unfold jmu. rewrite E1, E2, <- Hr, <- Hp. unfold jrem. rewrite !app_length.
      split; [lia|]. intros Hb. specialize (Hlt Hb). lia. }
    destruct rep.
    + inversion H; subst d' s'. cbn [jd_p]. destruct (HL1 eq_refl eq_refl) as [HL2 HL3].
      split; [exists L1; auto|].
      destruct (Hw2 eq_refl) as (Hwf & Hie & _). rewrite HL3 in Hwf. cbn [wfs] in Hwf.
      split; [exact Hwf|]. split; [exact HL3|].
      split. { destruct (jp_inesc p1); [|reflexivity]. destruct (Hie eq_refl) as [K|K]; rewrite Hwf in K; discriminate K. }
      split; [exact Hi'|].
      match goal with |- (jmu ?d2 < _)%nat => destruct (Hmu d2 eq_refl eq_refl) as [_ Hs] end.
      apply Hs. intros Eb. rewrite Eb in Heq. cbn in Heq. discriminate Heq.
    + match type of H with jdec_next f pf ?d2 _ = _ =>
        destruct (IH d2 _ _ _ (Hw2 eq_refl) Hi' Hsc1 H) as ((L2 & -> & HL2) & A & B & C & D & E);
        destruct (Hmu d2 eq_refl eq_refl) as [Hs _] end.
      split; [exists (L1 ++ L2); split; [apply s_add_add|destruct L1; [exact HL2|discriminate]]|].
      split; [exact A|]. split; [exact B|]. split; [exact C|]. split; [exact D|]. lia.
  - (* end of input: finalize *)
    destruct Hf as (Hp & Hb & Hr & _).
    assert (Hi1 : inv (jd_p d1)) by (rewrite Hp; exact Hi).
    assert (Hw1 : W (jd_p d1)) by (rewrite Hp; exact Hw).
    destruct (jdec_finalize_nil _ _ _ _ Hw1 Hi1 H) as (HL & (A & B & C) & Hi' & E1 & E2 & E3 & G1 & G2 & _).
    split; [exact HL|]. split; [exact A|]. split; [exact B|]. split; [exact C|]. split; [exact Hi'|].
    assert (Hrem : jrem d' = jrem d).
    { rewrite <- Hr. unfold jrem, jtailb. rewrite E1, E2, E3. reflexivity. }
    unfold jmu. rewrite G2, Hrem. rewrite <- Hp, G1. lia.
  - inversion H; subst. destruct Hf as (_ & _ & _ & r & Hs). rewrite Hs in Hsc. inversion Hsc; subst.
    exfalso. cbn [snd] in *. congruence.
Qed.

(* ---------------------------------------------------------------------- *)
(* (c) script independence.  First: a step that delivers an event on the  *)
(* input a does exactly the same on a ++ b and leaves b unread.           *)
(* ---------------------------------------------------------------------- *)
Definition Emit (b : bytes) (s : sink) (r whole : jsres) : Prop :=
  match r with
  | JS p1 s1 rest d e => s_n s1 <> s_n s -> ext b r whole
  | JCrash _ => True
  end.

Lemma Emit_silent : forall b s p1 rest d e w, Emit b s (JS p1 s rest d e) w.
Proof. intros. cbn [Emit]. intros H. congruence. Qed.

Lemma Emit_ext : forall b s r w, ext b r w -> Emit b s r w.
Proof. intros b s [p1 s1 rest d e|x] w H; cbn [Emit]; auto. Qed.

Lemma step_kind_emit : forall p s a b kind ev,
  0 <= jp_req p <= zlen kind ->
  Emit b s (step_kind p s a kind ev) (step_kind p s (a ++ b) kind ev).
Proof.
  intros p s a b kind ev Hn.
  rewrite (step_kind_spec pf p s a), (step_kind_spec pf p s (a ++ b)) by assumption. cbv zeta.
  set (n := jp_req p) in *. set (suffix := skipn (length kind - Z.to_nat n) kind).
  assert (Hsl : length suffix = Z.to_nat n).
  { unfold suffix. rewrite skipn_length. unfold zlen in Hn. lia. }
  rewrite zlen_app.
  destruct (zlen a <? n) eqn:Ea.
  - destruct (has_prefix a _); apply Emit_silent.
  - replace (zlen a + zlen b <? n) with false by (pose proof (Zle_0_nat (length b)); unfold zlen in *; lia).
    rewrite has_prefix_app.
    rewrite (firstn_all2 (n := length a)) by (unfold zlen in *; lia).
    rewrite (skipn_all2 (n := length a)) by (unfold zlen in *; lia).
    rewrite has_prefix_nil, andb_true_r.
    destruct (has_prefix a suffix); [|apply Emit_silent].
    destruct (jvis s ev) as [s2 e]. apply Emit_ext.
    rewrite skipn_app_le by (unfold zlen in *; lia). apply ext_same.
Qed.

Lemma step_string_emit : forall p s a b, a <> [] ->
  Emit b s (step_string p s a) (step_string p s (a ++ b)).
Proof.
  intros p s a b Ha. unfold step_string. pose proof (do_string_app p a b Ha) as H.
  destruct (do_string p a) as [p1|p1 c r|p1|w]; try apply Emit_silent; [|exact I].
  rewrite H. destruct (jvis s _) as [s1 e]. apply Emit_ext, ext_same.
Qed.

Lemma step_dict_key_emit : forall p s a b, a <> [] ->
  Emit b s (step_dict_key p s a) (step_dict_key p s (a ++ b)).
Proof.
  intros p s a b Ha. unfold step_dict_key. pose proof (do_string_app p a b Ha) as H.
  destruct (do_string p a) as [p1|p1 c r|p1|w]; try apply Emit_silent; [|exact I].
  rewrite H. destruct (jvis s _) as [s1 e]. apply Emit_ext, ext_same.
Qed.

Lemma step_number_emit : forall p s a b,
  Emit b s (step_number pf p s a) (step_number pf p s (a ++ b)).
Proof.
  intros p s a b.
  destruct (scan_number a (jp_isdbl p) 0) as [[i|] d] eqn:Es.
  - rewrite (step_number_app_found pf p s a b i d Es). apply Emit_ext, ext_app.
  - destruct (step_number_app_more pf p s a b d Es) as [H1 _]. rewrite H1. apply Emit_silent.
Qed.

Lemma end_container_emit : forall p s c r b ev,
  Emit b s (end_container p s (c :: r) ev) (end_container p s (c :: r ++ b) ev).
Proof. intros. unfold end_container. destruct (jvis s ev) as [s1 e]. apply Emit_ext, ext_same. Qed.

Lemma step_value_emit : forall p s a b ret,
  Emit b s (step_value pf p s a ret) (step_value pf p s (a ++ b) ret).
Proof.
  intros p s a b ret. unfold step_value at 1 2.
  destruct (trim_left a) as [|c r] eqn:Et; [apply Emit_silent|].
  rewrite (trim_left_app_cons _ _ _ _ Et).
  destruct (c =? 123). { destruct (jvis s _) as [s1 e]. apply Emit_ext, ext_same. }
  destruct (c =? 91). { destruct (jvis s _) as [s1 e]. apply Emit_ext, ext_same. }
  destruct (c =? 110). { apply step_kind_emit. js. unfold zlen, kNull. cbn [length]. lia. }
  destruct (c =? 102). { apply step_kind_emit. js. unfold zlen, kFalse. cbn [length]. lia. }
  destruct (c =? 116). { apply step_kind_emit. js. unfold zlen, kTrue. cbn [length]. lia. }
  destruct (c =? 34).
  { change (c :: r ++ b) with ((c :: r) ++ b). apply step_string_emit. discriminate. }
  destruct (_ || _).
  { change (c :: r ++ b) with ((c :: r) ++ b). apply step_number_emit. }
  apply Emit_silent.
Qed.

Lemma Emit_norep : forall b s r w,
  Emit b s r w ->
  Emit b s (match r with JS p1 s1 r0 _ e => JS p1 s1 r0 false e | JCrash x => JCrash x end)
           (match w with JS p1 s1 r0 _ e => JS p1 s1 r0 false e | JCrash x => JCrash x end).
Proof.
  intros b s [p1 s1 r1 d1 e1|x] [p2 s2 r2 d2 e2|y]; cbn [Emit ext]; auto.
Qed.

Lemma jstep_emit : forall p s a b, inv p -> a <> [] ->
  Emit b s (jstep pf p s a) (jstep pf p s (a ++ b)).
Proof.
  intros p s a b Hi Ha. inv_split Hi.
  destruct (cur_cases (jp_cur p)) as
    [Hc|[Hc|[Hc|[Hc|[Hc|[Hc|[Hc|[Hc|[Hc|[Hc|[Hc|[Hc|[Hc|[Hc|[Hc|[Hc|Hc]]]]]]]]]]]]]]]].
  - unfold jstep. rewrite Hc. change (jFailed =? jFailed) with true. cbv iota. apply Emit_silent.
  - rewrite !(jstep_start pf p s _ Hc). apply step_value_emit.
  - rewrite !(jstep_arr pf p s _ Hc). unfold step_array.
    destruct (trim_left a) as [|c r] eqn:Et; [apply Emit_silent|].
    rewrite (trim_left_app_cons _ _ _ _ Et).
    destruct (c =? 93); [apply end_container_emit|apply Emit_silent].
  - rewrite !(jstep_arrvalue pf p s _ Hc).
    pose proof (step_value_emit p s a b jArrNext) as H. apply Emit_norep in H.
    destruct (step_value pf p s a jArrNext), (step_value pf p s (a ++ b) jArrNext); exact H.
  - rewrite !(jstep_arrnext pf p s _ Hc). unfold step_arr_value_end.
    destruct (trim_left a) as [|c r] eqn:Et; [apply Emit_silent|].
    rewrite (trim_left_app_cons _ _ _ _ Et).
    destruct (c =? 93); [apply end_container_emit|]. destruct (c =? 44); apply Emit_silent.
  - rewrite !(jstep_dict pf p s _ Hc). unfold step_dict.
    destruct (trim_left a) as [|c r] eqn:Et; [apply Emit_silent|].
    rewrite (trim_left_app_cons _ _ _ _ Et).
    destruct (c =? 125); [cbn [negb]; apply end_container_emit|]. destruct (c =? 34); apply Emit_silent.
  - rewrite !(jstep_dictfield pf p s _ Hc). apply step_dict_key_emit; assumption.
  - rewrite !(jstep_dictnext pf p s _ Hc). unfold step_dict.
    destruct (trim_left a) as [|c r] eqn:Et; [apply Emit_silent|].
    rewrite (trim_left_app_cons _ _ _ _ Et).
    destruct (c =? 125); [cbn [negb]; apply Emit_silent|]. destruct (c =? 34); apply Emit_silent.
  - rewrite !(jstep_dictvalue pf p s _ Hc). apply step_value_emit.
  - rewrite !(jstep_sep pf p s _ Hc).
    destruct (trim_left a) as [|c r] eqn:Et; [apply Emit_silent|].
    rewrite (trim_left_app_cons _ _ _ _ Et). apply Emit_silent.
  - rewrite !(jstep_dictend pf p s _ Hc). unfold step_dict_value_end.
    destruct (trim_left a) as [|c r] eqn:Et; [apply Emit_silent|].
    rewrite (trim_left_app_cons _ _ _ _ Et).
    destruct (c =? 125); [apply end_container_emit|]. destruct (c =? 44); apply Emit_silent.
  - rewrite !(jstep_null pf p s _ Hc). apply step_kind_emit. unfold zlen, kNull. cbn [length]. lia.
  - rewrite !(jstep_true pf p s _ Hc). apply step_kind_emit. unfold zlen, kTrue. cbn [length]. lia.
  - rewrite !(jstep_false pf p s _ Hc). apply step_kind_emit. unfold zlen, kFalse. cbn [length]. lia.
  - rewrite !(jstep_string pf p s _ Hc). apply step_string_emit; assumption.
  - rewrite !(jstep_number pf p s _ Hc). apply step_number_emit.
  - rewrite !(jstep_other pf p s _ Hc). apply Emit_silent.
Qed.

(* the dichotomy of ChunkProofs.v, sharpened: in its second case the step on a was silent *)
Lemma jstep_dich2 : forall p s a b, inv p -> W p -> a <> [] ->
  match jstep pf p s a with
  | JCrash _ => True
  | JS p1 s1 rest d e =>
      ext b (JS p1 s1 rest d e) (jstep pf p s (a ++ b)) \/
      (rest = [] /\ e = jpnil /\ s1 = s /\ ext [] (jstep pf p1 s b) (jstep pf p s (a ++ b)))
  end.
Proof.
  intros p s a b Hi Hw Ha.
  pose proof (jstep_dich pf p s a b Hi Ha) as D.
  pose proof (jstep_emit p s a b Hi Ha) as E.
  pose proof (jstep_C p s a Hw) as C.
  destruct (jstep pf p s a) as [p1 s1 rest d e|w]; [|exact I].
  cbn [Dich] in D. cbn [Emit] in E. destruct C as (l & Hl & Hl1 & _).
  destruct D as [D|(D1 & D2 & D3)]; [left; exact D|].
  destruct l as [|x l].
  - rewrite s_add_nil in Hl. subst s1. right. auto.
  - left. apply E. subst s1. cbn [s_add s_n length]. lia.
Qed.

Lemma zlen0_nil' : forall A (l : list A), (zlen l =? 0) = true -> l = [].
Proof. intros A [|x l] H; [reflexivity|]. unfold zlen in H. cbn [length] in H. lia. Qed.

(* ---------- feedUntil without fuel: one call of Next's inner loop ---------- *)
(* "a top-level value has just been completed": decided by the parser and the
   visitor alone (cf. jstep_C), so it is the same for a and a ++ b *)
Definition tdone (p1 : jparser) (s s1 : sink) : Prop := jp_states p1 = [] /\ s_n s1 <> s_n s.

Lemma tdone_dec : forall p1 s s1, tdone p1 s s1 \/ ~ tdone p1 s s1.
Proof.
  intros p1 s s1. unfold tdone. destruct (jp_states p1) as [|c l].
  - destruct (Nat.eq_dec (s_n s1) (s_n s)) as [E|E]; [right; intros [_ H]; contradiction|left; auto].
  - right. intros [H _]. discriminate H.
Qed.

Lemma rep1_char : forall p s b p1 s1 rest d,
  W p -> jstep pf p s b = JS p1 s1 rest d jpnil ->
  (d && (zlen (jp_states p1) =? 0) = true <-> tdone p1 s s1).
Proof.
  intros p s b p1 s1 rest d Hw H. pose proof (jstep_C p s b Hw) as C. rewrite H in C.
  destruct C as (l & -> & _ & C). destruct (C eq_refl) as (_ & C1 & C2).
  unfold tdone. cbn [s_add s_n]. split.
  - intros E. apply andb_true_iff in E. destruct E as [E1 E2].
    split; [apply zlen0_nil'; exact E2|].
    specialize (C1 E1). destruct l; [congruence|cbn [length]; lia].
  - intros [E1 E2]. assert (Hl : l <> []) by (intros ->; cbn [length] in E2; lia).
    rewrite E1. cbn. rewrite andb_true_r. destruct d; [reflexivity|]. exfalso. apply (C2 eq_refl Hl). exact E1.
Qed.

Definition jures := (jparser * sink * bytes * bool * Z)%type.

Inductive JU : jparser -> sink -> bytes -> jures -> Prop :=
| JU_err : forall p s b p1 s1 rest d e,
    jstep pf p s b = JS p1 s1 rest d e -> e <> jpnil -> JU p s b (p1, s1, rest, d, e)
| JU_done : forall p s b p1 s1 rest d,
    jstep pf p s b = JS p1 s1 rest d jpnil -> tdone p1 s s1 -> JU p s b (p1, s1, rest, true, jpnil)
| JU_cont : forall p s b p1 s1 rest d r,
    jstep pf p s b = JS p1 s1 rest d jpnil -> ~ tdone p1 s s1 -> rest <> [] ->
    JU p1 s1 rest r -> JU p s b r
| JU_stop : forall p s b p1 s1 d,
    jstep pf p s b = JS p1 s1 [] d jpnil -> ~ tdone p1 s s1 -> JU p s b (p1, s1, [], false, jpnil).

Lemma jfeed_until_JU : forall n p s b orig p1 s1 rest d e,
  inv p -> W p -> b <> [] ->
  jfeed_until n pf p s b orig = Ok (JS p1 s1 rest d e) -> JU p s b (p1, s1, rest, d, e).
Proof.
  induction n as [|n IH]; intros p s b orig p1 s1 rest d e Hi Hw Hb H; [discriminate|].
  cbn [jfeed_until] in H. rewrite (zlen_eqb0 b Hb) in H.
  destruct (jstep pf p s b) as [pa sa ra da ea|w] eqn:E; [|discriminate].
  rewrite (W_notfailed p Hw) in H.
  destruct (jisnil ea) eqn:En; cbn [negb] in H.
  - apply jisnil_true in En. subst ea.
    pose proof (rep1_char _ _ _ _ _ _ _ Hw E) as Hc.
    destruct (da && (zlen (jp_states pa) =? 0)) eqn:Er.
    + inversion H; subst. eapply JU_done; [exact E|]. apply Hc. reflexivity.
    + assert (Hnd : ~ tdone pa s sa) by (intros K; apply Hc in K; discriminate K).
      destruct ra as [|c ra'].
      * destruct n as [|n']; [discriminate|]. cbn [jfeed_until] in H.
        change (zlen (@nil Z) =? 0) with true in H. cbv iota in H. inversion H; subst.
        eapply JU_stop; eauto.
      * eapply JU_cont; [exact E|exact Hnd|discriminate|].
        eapply IH; [eapply jstep_inv; eauto|eapply jstep_W; eauto|discriminate|exact H].
  - apply jisnil_false in En. inversion H; subst. eapply JU_err; eauto.
Qed.

Lemma JU_det : forall p s b r, JU p s b r -> forall r', JU p s b r' -> r = r'.
Proof.
  induction 1 as [p s b p1 s1 rest d e E Hn | p s b p1 s1 rest d E Ht
                 | p s b p1 s1 rest d r E Ht Hr _ IH | p s b p1 s1 d E Ht];
    intros r' H'; inversion H'; subst;
    match goal with H : jstep pf _ _ _ = _ |- _ => rewrite E in H; inversion H; subst end;
    try congruence; try contradiction; auto.
Qed.

Lemma JU_short : forall p s b p1 s1 rest,
  JU p s b (p1, s1, rest, false, jpnil) -> rest = [].
Proof.
  intros p s b p1 s1 rest H. remember (p1, s1, rest, false, jpnil) as r eqn:Hr.
  induction H as [p s b pa sa ra d e E Hn | p s b pa sa ra d E Ht
                 | p s b pa sa ra d r E Ht Hra _ IH | p s b pa sa d E Ht].
  - inversion Hr; subst. congruence.
  - inversion Hr.
  - apply IH. exact Hr.
  - inversion Hr; subst. reflexivity.
Qed.

Lemma JU_inv : forall p s b r, JU p s b r -> inv p -> W p -> b <> [] ->
  snd r = jpnil -> inv (fst (fst (fst (fst r)))) /\ W (fst (fst (fst (fst r)))).
Proof.
  induction 1 as [p s b p1 s1 rest d e E Hn | p s b p1 s1 rest d E Ht
                 | p s b p1 s1 rest d r E Ht Hr _ IH | p s b p1 s1 d E Ht]; intros Hi Hw Hb He; cbn [fst snd] in *.
  - congruence.
  - split; [eapply jstep_inv; eauto|eapply jstep_W; eauto].
  - apply IH; auto; [eapply jstep_inv; eauto|eapply jstep_W; eauto].
  - split; [eapply jstep_inv; eauto|eapply jstep_W; eauto].
Qed.

(* same visitor, same error; parser (modulo the dead jp_req), rest and done flag
   unless an error occurred *)
Definition simu (r r' : jures) : Prop :=
  let '(p, s, rest, d, e) := r in let '(p', s', rest', d', e') := r' in
  s = s' /\ e = e' /\ (e = jpnil -> peq p p' /\ rest = rest' /\ d = d').

Lemma simu_refl : forall r, simu r r.
Proof. intros [[[[p s] rest] d] e]. cbn. auto using peq_refl. Qed.

Lemma simu_trans : forall r1 r2 r3, simu r1 r2 -> simu r2 r3 -> simu r1 r3.
Proof.
  intros [[[[p1 s1] t1] d1] e1] [[[[p2 s2] t2] d2] e2] [[[[p3 s3] t3] d3] e3] (A1 & A2 & A3) (B1 & B2 & B3).
  cbn [simu]. split; [congruence|]. split; [congruence|]. intros E.
  destruct (A3 E) as (X1 & X2 & X3). destruct B3 as (Y1 & Y2 & Y3); [congruence|].
  split; [eapply peq_trans; eauto|]. split; congruence.
Qed.

Lemma peq_states : forall p q, peq p q -> jp_states p = jp_states q.
Proof. intros p q H. apply H. Qed.

Lemma JU_peq : forall p s b r, JU p s b r -> forall q, peq p q -> inv p -> b <> [] ->
  exists r', JU q s b r' /\ simu r r'.
Proof.
  induction 1 as [p s b p1 s1 rest d e E Hn | p s b p1 s1 rest d E Ht
                 | p s b p1 s1 rest d r E Ht Hr HR IH | p s b p1 s1 d E Ht];
    intros q Hq Hi Hb;
    pose proof (jstep_peq pf p q s b Hq (inv_states p Hi)) as Hp; rewrite E in Hp;
    destruct (jstep pf q s b) as [p2 s2 rest2 d2 e2|w] eqn:Eq; cbn [rpeq] in Hp; try contradiction;
    destruct Hp as (Hp1 & <- & <- & <- & <-).
  - exists (p2, s1, rest, d, e). split; [eapply JU_err; eauto|].
    cbn [simu]. split; [reflexivity|]. split; [reflexivity|]. intros; congruence.
  - exists (p2, s1, rest, true, jpnil). split; [|cbn [simu]; auto].
    eapply JU_done; [exact Eq|]. unfold tdone in *. rewrite <- (peq_states _ _ Hp1). exact Ht.
  - assert (Hi1 : inv p1) by (eapply jstep_inv; eauto).
    destruct (IH p2 Hp1 Hi1 Hr) as (r' & R' & S').
    exists r'. split; [|exact S'].
    eapply JU_cont; [exact Eq| |exact Hr|exact R'].
    unfold tdone in *. rewrite <- (peq_states _ _ Hp1). exact Ht.
  - exists (p2, s1, [], false, jpnil). split; [|cbn [simu]; auto].
    eapply JU_stop; [exact Eq|]. unfold tdone in *. rewrite <- (peq_states _ _ Hp1). exact Ht.
Qed.

Lemma JU_ext_nil : forall p1 b p s x r,
  inv p1 -> b <> [] ->
  ext [] (jstep pf p1 s b) (jstep pf p s x) -> JU p1 s b r ->
  exists r', JU p s x r' /\ simu r r'.
Proof.
  intros p1 b p s x r Hi Hb X H.
  inversion H; subst;
    match goal with E : jstep pf p1 s b = _ |- _ => rewrite E in X; rename E into E1 end;
    destruct (jstep pf p s x) as [pw sw restw dw ew|w] eqn:Wh; cbn [ext] in X;
    try contradiction; destruct X as (<- & <- & X).
  - eexists; split; [eapply JU_err; eauto|].
    cbn [simu]. split; [reflexivity|]. split; [reflexivity|]. intros; congruence.
  - destruct (X eq_refl) as (Hq & ->). rewrite app_nil_r in Wh.
    exists (pw, s1, rest, true, jpnil). split; [|cbn [simu]; auto].
    eapply JU_done; [exact Wh|]. unfold tdone in *. rewrite <- (peq_states _ _ Hq). assumption.
  - destruct (X eq_refl) as (Hq & ->). rewrite app_nil_r in Wh.
    assert (Hi2 : inv p2) by (exact (jstep_inv pf _ _ _ _ _ _ _ Hi Hb E1)).
    match goal with HR : JU p2 _ _ r |- _ =>
      destruct (JU_peq _ _ _ _ HR pw Hq Hi2) as (r' & R' & S'); [assumption|] end.
    exists r'. split; [|exact S'].
    eapply JU_cont; [exact Wh| |assumption|exact R'].
    unfold tdone in *. rewrite <- (peq_states _ _ Hq). assumption.
  - destruct (X eq_refl) as (Hq & ->). cbn [app] in Wh.
    exists (pw, s1, [], false, jpnil). split; [|cbn [simu]; auto].
    eapply JU_stop; [exact Wh|]. unfold tdone in *. rewrite <- (peq_states _ _ Hq). assumption.
Qed.

(* feedUntil on a ++ b versus feedUntil on a, then (if more input is needed) on b *)
Lemma JU_merge : forall p s a r, JU p s a r ->
  inv p -> W p -> a <> [] -> forall b, b <> [] ->
  let '(p1, s1, rest, d, e) := r in
  (e <> jpnil -> exists p1' rest' d', JU p s (a ++ b) (p1', s1, rest', d', e)) /\
  (e = jpnil -> d = true -> exists p1', peq p1 p1' /\ JU p s (a ++ b) (p1', s1, rest ++ b, true, jpnil)) /\
  (e = jpnil -> d = false ->
     forall r2, JU p1 s1 b r2 -> exists r2', JU p s (a ++ b) r2' /\ simu r2 r2').
Proof.
  induction 1 as [p s a p1 s1 rest d e E Hn | p s a p1 s1 rest d E Ht
                 | p s a p1 s1 rest d r E Ht Hr HR IH | p s a p1 s1 d E Ht];
    intros Hi Hw Ha b Hb;
    pose proof (jstep_dich2 p s a b Hi Hw Ha) as D; rewrite E in D.
  - (* error *)
    split; [|split; intros; congruence]. intros _.
    destruct D as [D|(_ & D & _)]; [|congruence].
    destruct (jstep pf p s (a ++ b)) as [p2 s2 rest2 d2 e2|w] eqn:Wh; cbn [ext] in D; [|contradiction].
    destruct D as (<- & <- & _). exists p2, rest2, d2. eapply JU_err; eauto.
  - (* done *)
    split; [congruence|]. split; [|discriminate]. intros _ _.
    destruct D as [D|(_ & _ & D & _)]; [|exfalso; destruct Ht as [_ Ht]; subst; congruence].
    destruct (jstep pf p s (a ++ b)) as [p2 s2 rest2 d2 e2|w] eqn:Wh; cbn [ext] in D; [|contradiction].
    destruct D as (<- & <- & D). destruct (D eq_refl) as (Hq & ->).
    exists p2. split; [exact Hq|]. eapply JU_done; [exact Wh|].
    unfold tdone in *. rewrite <- (peq_states _ _ Hq). exact Ht.
  - (* continue *)
    destruct D as [D|(D & _)]; [|congruence].
    destruct (jstep pf p s (a ++ b)) as [p2 s2 rest2 d2 e2|w] eqn:Wh; cbn [ext] in D; [|contradiction].
    destruct D as (<- & <- & D). destruct (D eq_refl) as (Hq & ->).
    assert (Hi1 : inv p1) by (exact (jstep_inv pf _ _ _ _ _ _ _ Hi Ha E)).
    assert (Hw1 : W p1) by (exact (jstep_W _ _ _ _ _ _ _ Hw E)).
    assert (Ht2 : ~ tdone p2 s s1) by (unfold tdone in *; rewrite <- (peq_states _ _ Hq); exact Ht).
    assert (Hrb : rest ++ b <> []) by (apply app_nonnil; exact Hr).
    specialize (IH Hi1 Hw1 Hr b Hb).
    destruct r as [[[[pr sr] restr] dr] er]. destruct IH as (IH1 & IH2 & IH3).
    split; [|split].
    + intros He. destruct (IH1 He) as (p1' & rest' & d' & R1).
      destruct (JU_peq _ _ _ _ R1 p2 Hq Hi1 Hrb) as ([[[[pa sa] ra] da] ea] & R2 & S2).
      cbn [simu] in S2. destruct S2 as (<- & <- & _).
      exists pa, ra, da. eapply JU_cont; eauto.
    + intros He Hd. destruct (IH2 He Hd) as (p1' & Hq1 & R1).
      destruct (JU_peq _ _ _ _ R1 p2 Hq Hi1 Hrb) as ([[[[pa sa] ra] da] ea] & R2 & S2).
      cbn [simu] in S2. destruct S2 as (<- & <- & S2). destruct (S2 eq_refl) as (Hq2 & <- & <-).
      exists pa. split; [eapply peq_trans; eauto|]. eapply JU_cont; eauto.
    + intros He Hd r2 R2. destruct (IH3 He Hd r2 R2) as (r2' & R2' & S2).
      destruct (JU_peq _ _ _ _ R2' p2 Hq Hi1 Hrb) as (r2'' & R3 & S3).
      exists r2''. split; [eapply JU_cont; eauto|eapply simu_trans; eauto].
  - (* stop: a is used up inside a value *)
    split; [congruence|]. split; [discriminate|]. intros _ _ r2 R2.
    assert (Hi1 : inv p1) by (exact (jstep_inv pf _ _ _ _ _ _ _ Hi Ha E)).
    destruct D as [D|(_ & _ & -> & D)].
    + destruct (jstep pf p s (a ++ b)) as [p2 s2 rest2 d2 e2|w] eqn:Wh; cbn [ext] in D; [|contradiction].
      destruct D as (<- & <- & D). destruct (D eq_refl) as (Hq & ->). cbn [app] in Wh.
      destruct (JU_peq _ _ _ _ R2 p2 Hq Hi1 Hb) as (r2' & R3 & S3).
      exists r2'. split; [|exact S3]. eapply JU_cont; [exact Wh| |exact Hb|exact R3].
      unfold tdone in *. rewrite <- (peq_states _ _ Hq). exact Ht.
    + eapply JU_ext_nil; eauto.
Qed.

(* ---------- one Next call as a function of all bytes still to come ---------- *)
(* Decoder.finalize: the verdict of Next at the end of the input *)
Definition jfinN (p : jparser) (s : sink) : option (jparser * sink * Z) :=
  match jfinalize pf p s with
  | None => None
  | Some (p1, s1, e) =>
      Some (p1, s1, if negb (jisnil e) then e else if jp_cur p =? jNumber then jpnil else jeEOF)
  end.

Lemma jdec_finalize_finN : forall d s d' s' e,
  jdec_finalize pf d s = Ok (d', s', e) ->
  jfinN (jd_p d) s = Some (jd_p d', s', e) /\
  jd_buf d' = jd_buf d /\ jd_script d' = jd_script d /\ jd_bytesdec d' = jd_bytesdec d.
Proof.
  intros d s d' s' e H. unfold jdec_finalize in H. unfold jfinN.
  destruct (jfinalize pf (jd_p d) s) as [[[p1 s1] e1]|]; [|discriminate].
  destruct (negb (jisnil e1)); [inversion H; subst; cbn; auto|].
  destruct (jp_cur (jd_p d) =? jNumber); inversion H; subst; cbn; auto.
Qed.

Definition jnres := (jparser * sink * bytes * Z)%type.

(* [NextW p s T r]: Next on a decoder in parser state p whose remaining input
   (buffer and everything the reader will still deliver) is T *)
Inductive NextW : jparser -> sink -> bytes -> jnres -> Prop :=
| NW_eof : forall p s p1 s1 e, jfinN p s = Some (p1, s1, e) -> NextW p s [] (p1, s1, [], e)
| NW_err : forall p s T p1 s1 rest d e,
    T <> [] -> JU p s T (p1, s1, rest, d, e) -> e <> jpnil -> NextW p s T (p1, s1, rest, e)
| NW_done : forall p s T p1 s1 rest,
    T <> [] -> JU p s T (p1, s1, rest, true, jpnil) -> NextW p s T (p1, s1, rest, jpnil)
| NW_short : forall p s T p1 s1 p2 s2 e,
    T <> [] -> JU p s T (p1, s1, [], false, jpnil) -> jfinN p1 s1 = Some (p2, s2, e) ->
    NextW p s T (p2, s2, [], e).

Lemma NextW_det : forall p s T r r', NextW p s T r -> NextW p s T r' -> r = r'.
Proof.
  intros p s T r r' H H'.
  inversion H; subst; inversion H'; subst; try congruence;
    match goal with
    | H1 : JU _ _ _ _, H2 : JU _ _ _ _ |- _ => pose proof (JU_det _ _ _ _ H1 _ H2) as E; inversion E; subst
    end; try congruence; try reflexivity.
Qed.

Definition simW (r r' : jnres) : Prop :=
  let '(p, s, rest, e) := r in let '(p', s', rest', e') := r' in
  s = s' /\ e = e' /\ (e = jpnil -> peq p p' /\ rest = rest').

Lemma simW_refl : forall r, simW r r.
Proof. intros [[[p s] rest] e]. cbn. auto using peq_refl. Qed.
Lemma simW_sym : forall r r', simW r r' -> simW r' r.
Proof.
  intros [[[p s] rest] e] [[[p' s'] rest'] e'] (A & B & C). cbn [simW]. subst.
  split; [reflexivity|]. split; [reflexivity|]. intros E. destruct (C E). split; [apply peq_sym; assumption|congruence].
Qed.
Lemma simW_trans : forall r1 r2 r3, simW r1 r2 -> simW r2 r3 -> simW r1 r3.
Proof.
  intros [[[p1 s1] t1] e1] [[[p2 s2] t2] e2] [[[p3 s3] t3] e3] (A1 & A2 & A3) (B1 & B2 & B3).
  cbn [simW]. split; [congruence|]. split; [congruence|]. intros E.
  destruct (A3 E) as (X1 & X2). destruct B3 as (Y1 & Y2); [congruence|].
  split; [eapply peq_trans; eauto|congruence].
Qed.

(* finalize on parsers that differ in jp_req only *)
Lemma peq_cur : forall p q, peq p q -> jp_cur p = jp_cur q.
Proof. intros p q H. apply H. Qed.

Lemma jpop_not_kind : forall p, Forall ret_state (jp_states p) -> is_kind (jp_cur (jpop p)) = false.
Proof.
  intros p HF. unfold jpop. destruct (jp_states p) as [|c r]; [reflexivity|].
  inversion HF; subst. cbn [jp_cur]. apply ret_not_kind. assumption.
Qed.

Lemma jfinN_peq : forall p q s p1 s1 e, inv p -> peq p q -> jfinN p s = Some (p1, s1, e) ->
  exists q1, jfinN q s = Some (q1, s1, e) /\ (e = jpnil -> peq p1 q1).
Proof.
  intros p q s p1 s1 e Hi Hq H. unfold jfinN in *.
  destruct (jfinalize pf p s) as [[[pa sa] ea]|] eqn:Ef; [|discriminate].
  rewrite (peq_setreq _ _ Hq), jfinalize_req, Ef. rewrite <- (peq_setreq _ _ Hq).
  rewrite <- (peq_cur _ _ Hq). inversion H; subst. eexists. split; [reflexivity|].
  intros He. destruct (negb (jisnil ea)) eqn:En; [apply negb_true_iff in En; subst; vm_compute in En; discriminate En|].
  apply negb_false_iff, jisnil_true' in En. subst ea.
  destruct (jp_cur p =? jNumber) eqn:Ec; [|vm_compute in He; discriminate He].
  apply peq_req. unfold jfinalize in Ef. rewrite Ec in Ef.
  destruct (report_number pf s _ _) as [[s2 e2]|]; [|discriminate].
  destruct (jisnil e2) eqn:E2; cbn [negb] in Ef; [|inversion Ef; subst; vm_compute in E2; discriminate E2].
  destruct (_ && _); inversion Ef; subst; apply jpop_not_kind; apply Hi.
Qed.

Lemma W_peq : forall p q, peq p q -> W p -> W q.
Proof.
  intros p q (H1 & H2 & H3 & H4 & _) Hw. unfold W in *. rewrite <- H1, <- H2, <- H3, <- H4. exact Hw.
Qed.

Lemma inv_peq : forall p q, peq p q -> inv p -> inv q.
Proof.
  intros p q (H1 & H2 & H3 & H4 & H5 & H6 & H7) Hi. inv_split Hi. unfold inv.
  rewrite <- H1, <- H2, <- H3, <- H6.
  split; [exact Hst|]. split; [exact Her|]. split; [exact Hnum|].
  split.
  - intros K. rewrite <- H7; [apply Hk3; exact K|]. unfold is_kind. destruct K as [K|K]; rewrite K; reflexivity.
  - intros K. rewrite <- H7; [apply Hk4; exact K|]. unfold is_kind. rewrite K. reflexivity.
Qed.

Lemma JU_inv1 : forall p s b r, JU p s b r -> inv p -> b <> [] ->
  snd r = jpnil -> inv (fst (fst (fst (fst r)))).
Proof.
  induction 1 as [p s b p1 s1 rest d e E Hn | p s b p1 s1 rest d E Ht
                 | p s b p1 s1 rest d r E Ht Hr _ IH | p s b p1 s1 d E Ht]; intros Hi Hb He; cbn [fst snd] in *.
  - congruence.
  - eapply jstep_inv; eauto.
  - apply IH; auto. eapply jstep_inv; eauto.
  - eapply jstep_inv; eauto.
Qed.

Lemma NextW_peq : forall p s T r q, NextW p s T r -> peq p q -> inv p ->
  exists r', NextW q s T r' /\ simW r r'.
Proof.
  intros p s T r q H Hq Hi. inversion H; subst.
  - destruct (jfinN_peq _ _ _ _ _ _ Hi Hq H0) as (q1 & F & P).
    exists (q1, s1, [], e). split; [apply NW_eof; exact F|]. cbn [simW]. auto.
  - destruct (JU_peq _ _ _ _ H1 q Hq Hi H0) as ([[[[pa sa] ra] da] ea] & R & S).
    cbn [simu] in S. destruct S as (<- & <- & _).
    eexists. split; [eapply NW_err; eauto|]. cbn [simW]. split; [reflexivity|]. split; [reflexivity|]. intros; congruence.
  - destruct (JU_peq _ _ _ _ H1 q Hq Hi H0) as ([[[[pa sa] ra] da] ea] & R & S).
    cbn [simu] in S. destruct S as (<- & <- & S). destruct (S eq_refl) as (P & <- & <-).
    eexists. split; [eapply NW_done; eauto|]. cbn [simW]. auto.
  - destruct (JU_peq _ _ _ _ H1 q Hq Hi H0) as ([[[[pa sa] ra] da] ea] & R & S).
    cbn [simu] in S. destruct S as (<- & <- & S). destruct (S eq_refl) as (P & <- & <-).
    pose proof (JU_inv1 _ _ _ _ H1 Hi H0 eq_refl) as Hi1. cbn [fst] in Hi1.
    destruct (jfinN_peq _ _ _ _ _ _ Hi1 P H2) as (q2 & F & P2).
    eexists. split; [eapply NW_short; eauto|]. cbn [simW]. auto.
Qed.

Lemma NextW_merge_short : forall p s a p1 s1 T r2,
  JU p s a (p1, s1, [], false, jpnil) -> inv p -> W p -> a <> [] ->
  NextW p1 s1 T r2 -> exists r2', NextW p s (a ++ T) r2' /\ simW r2 r2'.
Proof.
  intros p s a p1 s1 T r2 HR Hi Hw Ha HN.
  assert (HaT : a ++ T <> []) by (destruct a; [congruence|discriminate]).
  inversion HN; subst.
  - rewrite app_nil_r. eexists. split; [eapply NW_short; eauto|apply simW_refl].
  - pose proof (JU_merge _ _ _ _ HR Hi Hw Ha T H) as (_ & _ & M).
    destruct (M eq_refl eq_refl _ H0) as ([[[[pm sm] restm] dm] em] & R2 & S2).
    cbn [simu] in S2. destruct S2 as (<- & <- & S2).
    eexists. split; [eapply NW_err; eauto|]. cbn [simW]. split; [reflexivity|]. split; [reflexivity|]. congruence.
  - pose proof (JU_merge _ _ _ _ HR Hi Hw Ha T H) as (_ & _ & M).
    destruct (M eq_refl eq_refl _ H0) as ([[[[pm sm] restm] dm] em] & R2 & S2).
    cbn [simu] in S2. destruct S2 as (<- & <- & S2). destruct (S2 eq_refl) as (P & <- & <-).
    eexists. split; [eapply NW_done; eauto|]. cbn [simW]. auto.
  - pose proof (JU_merge _ _ _ _ HR Hi Hw Ha T H) as (_ & _ & M).
    destruct (M eq_refl eq_refl _ H0) as ([[[[pm sm] restm] dm] em] & R2 & S2).
    cbn [simu] in S2. destruct S2 as (<- & <- & S2). destruct (S2 eq_refl) as (P & <- & <-).
    pose proof (JU_inv1 _ _ _ _ HR Hi Ha eq_refl) as Hi1. cbn [fst] in Hi1.
    pose proof (JU_inv1 _ _ _ _ H0 Hi1 H eq_refl) as Hi2. cbn [fst] in Hi2.
    destruct (jfinN_peq _ _ _ _ _ _ Hi2 P H1) as (q2 & F & P2).
    eexists. split; [eapply NW_short; eauto|]. cbn [simW]. auto.
Qed.

Lemma NextW_of_err : forall p s a p1 s1 rest d e T,
  JU p s a (p1, s1, rest, d, e) -> e <> jpnil -> inv p -> W p -> a <> [] ->
  exists p1' rest', NextW p s (a ++ T) (p1', s1, rest', e).
Proof.
  intros p s a p1 s1 rest d e T HR He Hi Hw Ha.
  assert (HaT : a ++ T <> []) by (destruct a; [congruence|discriminate]).
  destruct T as [|t T].
  - rewrite app_nil_r. exists p1, rest. eapply NW_err; eauto.
  - pose proof (JU_merge _ _ _ _ HR Hi Hw Ha (t :: T) ltac:(discriminate)) as (M & _ & _).
    destruct (M He) as (p1' & rest' & d' & R'). exists p1', rest'. eapply NW_err; eauto.
Qed.

Lemma NextW_of_done : forall p s a p1 s1 rest T,
  JU p s a (p1, s1, rest, true, jpnil) -> inv p -> W p -> a <> [] ->
  exists p1', peq p1 p1' /\ NextW p s (a ++ T) (p1', s1, rest ++ T, jpnil).
Proof.
  intros p s a p1 s1 rest T HR Hi Hw Ha.
  assert (HaT : a ++ T <> []) by (destruct a; [congruence|discriminate]).
  destruct T as [|t T].
  - rewrite !app_nil_r. exists p1. split; [apply peq_refl|]. eapply NW_done; eauto.
  - pose proof (JU_merge _ _ _ _ HR Hi Hw Ha (t :: T) ltac:(discriminate)) as (_ & M & _).
    destruct (M eq_refl eq_refl) as (p1' & P & R'). exists p1'. split; [exact P|]. eapply NW_done; eauto.
Qed.

(* ---------- read scripts ---------- *)
(* a well-behaved reader: every read returns a nil error (with any number of
   bytes, possibly none), except that the last read may carry io.EOF (with or
   without data) *)
Fixpoint script_okb (sc : list (bytes * Z)) : bool :=
  match sc with
  | [] => true
  | (data, err) :: r =>
      match r with
      | [] => (err =? 0) || (err =? jeEOF)
      | _ :: _ => (err =? 0) && script_okb r
      end
  end.

Lemma script_okb_tail : forall x r, script_okb (x :: r) = true -> script_okb r = true.
Proof.
  intros [data err] r H. destruct r as [|y r]; [reflexivity|].
  cbn [script_okb] in H. apply andb_true_iff in H. destruct H as [_ H]. exact H.
Qed.

Lemma script_okb_head : forall data err r, script_okb ((data, err) :: r) = true ->
  err = 0 \/ (err = jeEOF /\ r = []).
Proof.
  intros data err r H. cbn [script_okb] in H. destruct r as [|y r].
  - apply orb_true_iff in H. destruct H as [H|H]; apply Z.eqb_eq in H; auto.
  - apply andb_true_iff in H. destruct H as [H _]. apply Z.eqb_eq in H. auto.
Qed.

Lemma jdec_fill_okb : forall d, script_okb (jd_script d) = true ->
  match jdec_fill d with
  | JFbody d1 => script_okb (jd_script d1) = true
  | JFfin d1 => script_okb (jd_script d1) = true /\ jrem d = []
  | JFerr _ _ => False
  end.
Proof.
  intros d H. pose proof (jdec_fill_spec d) as S. unfold jdec_fill in *.
  destruct (zlen (jd_buf d) =? 0) eqn:Eb; [|exact H].
  destruct (jd_bytesdec d) eqn:Ebd.
  { split; [exact H|]. destruct S as (_ & _ & _ & [S|(r & S & _ & K)]); [exact S|discriminate K]. }
  destruct (jd_script d) as [|[data err] rest] eqn:Es.
  { split; [rewrite Es; exact H|]. destruct S as (_ & _ & _ & [S|(r & S & _)]); [exact S|discriminate S]. }
  cbv zeta in *. pose proof (script_okb_tail _ _ H) as Ht.
  destruct (script_okb_head _ _ _ H) as [->|[-> ->]].
  - change (negb (0 =? 0)) with false. rewrite andb_false_r. exact Ht.
  - destruct ((zlen data =? 0) && negb (jeEOF =? 0)) eqn:Ec; [|exact Ht].
    change (jeEOF =? jeEOF) with true. cbv iota. cbn [jd_script]. split; [reflexivity|].
    apply andb_true_iff in Ec. destruct Ec as [Ec _]. apply zlen0_nil in Ec. subst data.
    apply zlen0_nil in Eb. unfold jrem, jtailb. rewrite Eb, Ebd, Es. reflexivity.
Qed.

(* what holds after a Next that returned nil *)
Definition dpost (d' : jdecoder) (e : Z) : Prop :=
  e = jpnil -> script_okb (jd_script d') = true /\ inv (jd_p d') /\ (W (jd_p d') \/ jrem d' = []).

(* the stream is exhausted: Next is the decoder's finalize *)
Lemma jdec_next_eof : forall fuel d s d' s' e,
  jrem d = [] -> script_okb (jd_script d) = true ->
  jdec_next fuel pf d s = Ok (d', s', e) ->
  jfinN (jd_p d) s = Some (jd_p d', s', e) /\ jrem d' = [] /\ script_okb (jd_script d') = true.
Proof.
  induction fuel as [|f IH]; intros d s d' s' e Hr Hsc H; [discriminate|].
  rewrite jdec_next_S in H. pose proof (jdec_fill_spec d) as Hf. pose proof (jdec_fill_okb d Hsc) as Ho.
  destruct (jdec_fill d) as [d1|d1|d1 e1]; [| |contradiction].
  - destruct Hf as [Hp Hr1]. rewrite Hr in Hr1.
    assert (Hb : jd_buf d1 = []) by (unfold jrem in Hr1; apply app_eq_nil in Hr1; apply Hr1).
    unfold jdec_body in H. rewrite Hb in H. cbn in H.
    apply IH in H; [|unfold jrem, jtailb in *; cbn [jd_buf jd_script jd_bytesdec]; rewrite Hb in Hr1; exact Hr1|exact Ho].
    cbn [jd_p] in H. rewrite <- Hp. exact H.
  - destruct Hf as (Hp & Hb & Hr1 & _). destruct Ho as [Ho _].
    destruct (jdec_finalize_finN _ _ _ _ _ H) as (F & E1 & E2 & E3).
    rewrite <- Hp. split; [exact F|]. split; [|rewrite E2; exact Ho].
    rewrite <- Hr, <- Hr1. unfold jrem, jtailb. rewrite E1, E2, E3. reflexivity.
Qed.

Lemma jfinN_post : forall p s p1 s1, inv p -> jfinN p s = Some (p1, s1, jpnil) -> inv p1.
Proof.
  intros p s p1 s1 Hi H. unfold jfinN in H.
  destruct (jfinalize pf p s) as [[[pa sa] ea]|] eqn:Ef; [|discriminate].
  destruct (negb (jisnil ea)) eqn:En.
  { inversion H; subst. vm_compute in En. discriminate En. }
  apply negb_false_iff, jisnil_true' in En. subst ea.
  destruct (jp_cur p =? jNumber) eqn:Ec; [|inversion H; ust; lia].
  inversion H; subst. eapply jfinalize_inv; eauto.
Qed.

Lemma jdec_next_sound : forall fuel d s d' s' e,
  inv (jd_p d) -> W (jd_p d) -> script_okb (jd_script d) = true ->
  jdec_next fuel pf d s = Ok (d', s', e) ->
  exists r, NextW (jd_p d) s (jrem d) r /\ simW r (jd_p d', s', jrem d', e) /\ dpost d' e.
Proof.
  induction fuel as [|f IH]; intros d s d' s' e Hi Hw Hsc H; [discriminate|].
  (* an exhausted stream *)
  assert (Heof : jrem d = [] ->
    exists r, NextW (jd_p d) s (jrem d) r /\ simW r (jd_p d', s', jrem d', e) /\ dpost d' e).
  { intros Hr. destruct (jdec_next_eof _ _ _ _ _ _ Hr Hsc H) as (F & Hr' & Ho').
    rewrite Hr, Hr'. eexists. split; [apply NW_eof; exact F|]. split; [apply simW_refl|].
    intros ->. split; [exact Ho'|]. split; [eapply jfinN_post; eauto|right; exact Hr']. }
  rewrite jdec_next_S in H. pose proof (jdec_fill_spec d) as Hf. pose proof (jdec_fill_okb d Hsc) as Ho.
  destruct (jdec_fill d) as [d1|d1|d1 e1] eqn:Efill; [| |contradiction].
  - destruct Hf as [Hp Hr]. rewrite <- Hr, <- Hp.
    assert (Hi1 : inv (jd_p d1)) by (rewrite Hp; exact Hi).
    assert (Hw1 : W (jd_p d1)) by (rewrite Hp; exact Hw).
    unfold jdec_body in H.
    destruct (jd_buf d1) as [|b0 br] eqn:Eb.
    + (* an empty read: read again *)
      cbn in H.
      match type of H with jdec_next f pf ?d2 _ = _ => destruct (IH d2 _ _ _ _ Hi1 Hw1 Ho H) as (r & N & S & P) end.
      cbn [jd_p] in N. exists r. split; [|auto].
      unfold jrem in *. cbn [jd_buf] in N. rewrite Eb. exact N.
    + assert (Hb : jd_buf d1 <> []) by (rewrite Eb; discriminate). rewrite <- Eb in *. clear Eb b0 br.
      destruct (jfeed_until (jfeed_fuel (jd_buf d1)) pf (jd_p d1) s (jd_buf d1) (jd_buf d1))
        as [[p1 s1 rest rep err|w]| | |] eqn:Hfu; try discriminate.
      pose proof (jfeed_until_JU _ _ _ _ _ _ _ _ _ _ Hi1 Hw1 Hb Hfu) as HJ.
      destruct (jisnil err) eqn:Ee; cbn [negb] in H.
      * apply jisnil_true' in Ee. subst err.
        destruct (JU_inv _ _ _ _ HJ Hi1 Hw1 Hb eq_refl) as [Hi2 Hw2]. cbn [fst] in Hi2, Hw2.
        destruct rep.
        -- inversion H; subst d' s' e. unfold jrem at 1.
           destruct (NextW_of_done _ _ _ _ _ _ (jtailb d1) HJ Hi1 Hw1 Hb) as (p1' & P & N).
           eexists. split; [exact N|]. split.
           ++ cbn [simW]. split; [reflexivity|]. split; [reflexivity|]. intros _.
              split; [apply peq_sym; exact P|reflexivity].
           ++ intros _. cbn [jd_script jd_p]. auto.
        -- pose proof (JU_short _ _ _ _ _ _ HJ) as ->.
           match type of H with jdec_next f pf ?d2 _ = _ => destruct (IH d2 _ _ _ _ Hi2 Hw2 Ho H) as (r2 & N2 & S2 & P2) end.
           cbn [jd_p] in N2. unfold jrem in N2 at 1. cbn [jd_buf app] in N2.
           match type of N2 with NextW _ _ (jtailb ?d2) _ => change (jtailb d2) with (jtailb d1) in N2 end.
           destruct (NextW_merge_short _ _ _ _ _ _ _ HJ Hi1 Hw1 Hb N2) as (r2' & N2' & S2').
           exists r2'. split; [exact N2'|]. split; [|exact P2].
           eapply simW_trans; [apply simW_sym; exact S2'|exact S2].
      * apply jisnil_false in Ee. inversion H; subst d' s' e.
        destruct (NextW_of_err _ _ _ _ _ _ _ _ (jtailb d1) HJ Ee Hi1 Hw1 Hb) as (p1' & rest' & N).
        eexists. split; [exact N|]. split.
        -- cbn [simW]. split; [reflexivity|]. split; [reflexivity|]. intros; congruence.
        -- intros E. congruence.
  - destruct Ho as [_ Hr]. exact (Heof Hr).
Qed.

(* ---------- C18 (c): script independence ---------- *)
(* Two decoders whose parsers agree (modulo the dead field jp_req) and which have the
   same bytes still to come - however these are split between the buffer and the reads
   of a well-behaved reader, with or without empty reads, and whether the last bytes
   come together with io.EOF, before it, or the script just ends; a bytes decoder is
   the case "everything is in the buffer" - deliver the same events and the same
   verdict in their next Next, and after a nil verdict they are again such a pair. *)
Definition jdec_ok (d : jdecoder) : Prop :=
  inv (jd_p d) /\ (W (jd_p d) \/ jrem d = []) /\ script_okb (jd_script d) = true.

Theorem C18_json_script_independent_partial : forall f1 f2 d1 d2 s d1' s1' e1 d2' s2' e2,
  jdec_ok d1 -> script_okb (jd_script d2) = true ->
  peq (jd_p d1) (jd_p d2) -> jrem d1 = jrem d2 ->
  jdec_next f1 pf d1 s = Ok (d1', s1', e1) -> jdec_next f2 pf d2 s = Ok (d2', s2', e2) ->
  s1' = s2' /\ e1 = e2 /\
  (e1 = jpnil -> peq (jd_p d1') (jd_p d2') /\ jrem d1' = jrem d2' /\ jdec_ok d1' /\
                 script_okb (jd_script d2') = true).
Proof.
  intros f1 f2 d1 d2 s d1' s1' e1 d2' s2' e2 (Hi & Hw & Hs1) Hs2 Hp Hr H1 H2.
  assert (Hi2 : inv (jd_p d2)) by (eapply inv_peq; eauto).
  destruct Hw as [Hw|He].
  - destruct (jdec_next_sound _ _ _ _ _ _ Hi Hw Hs1 H1) as (r1 & N1 & S1 & P1).
    assert (Hw2 : W (jd_p d2)) by (eapply W_peq; eauto).
    destruct (jdec_next_sound _ _ _ _ _ _ Hi2 Hw2 Hs2 H2) as (r2 & N2 & S2 & P2).
    destruct (NextW_peq _ _ _ _ _ N1 Hp Hi) as (r1' & N1' & S1').
    rewrite <- Hr in N2. pose proof (NextW_det _ _ _ _ _ N1' N2) as E. subst r1'.
    pose proof (simW_trans _ _ _ (simW_sym _ _ S1) (simW_trans _ _ _ S1' S2)) as S.
    cbn [simW] in S. destruct S as (<- & <- & S).
    split; [reflexivity|]. split; [reflexivity|]. intros E.
    destruct (S E) as (A & B). destruct (P1 E) as (Q1 & Q2 & Q3). destruct (P2 E) as (Q4 & _).
    split; [exact A|]. split; [exact B|]. split; [|exact Q4]. unfold jdec_ok. auto.
  - assert (He2 : jrem d2 = []) by congruence.
    destruct (jdec_next_eof _ _ _ _ _ _ He Hs1 H1) as (F1 & R1 & O1).
    destruct (jdec_next_eof _ _ _ _ _ _ He2 Hs2 H2) as (F2 & R2 & O2).
    destruct (jfinN_peq _ _ _ _ _ _ Hi Hp F1) as (q1 & F1' & P).
    rewrite F1' in F2. inversion F2; subst.
    split; [reflexivity|]. split; [reflexivity|]. intros E.
    split; [apply P; exact E|]. split; [congruence|]. split; [|exact O2].
    unfold jdec_ok. split; [rewrite E in F1; exact (jfinN_post _ _ _ _ Hi F1)|]. auto.
Qed.

(* the observable behaviour of up to k calls of Next: the visitor's log and the
   verdict after each call, stopping at the first non-nil verdict *)
Fixpoint jdec_run (fuel k : nat) (d : jdecoder) (s : sink) : res (list (list event * Z)) :=
  match k with
  | O => Ok []
  | S k' =>
      match jdec_next fuel pf d s with
      | Ok (d', s', e) =>
          if jisnil e then
            match jdec_run fuel k' d' s' with
            | Ok l => Ok ((s_log s', e) :: l)
            | x => x
            end
          else Ok [(s_log s', e)]
      | Err e => Err e | Panic w => Panic w | OutOfFuel => OutOfFuel
      end
  end.

Theorem C18_json_run_script_independent_partial : forall f1 f2 k d1 d2 s l1 l2,
  jdec_ok d1 -> script_okb (jd_script d2) = true ->
  peq (jd_p d1) (jd_p d2) -> jrem d1 = jrem d2 ->
  jdec_run f1 k d1 s = Ok l1 -> jdec_run f2 k d2 s = Ok l2 -> l1 = l2.
Proof.
  induction k as [|k IH]; intros d1 d2 s l1 l2 Hok Hs2 Hp Hr H1 H2; cbn [jdec_run] in H1, H2.
  - congruence.
  - destruct (jdec_next f1 pf d1 s) as [[[d1' s1'] e1]| | |] eqn:E1; try discriminate.
    destruct (jdec_next f2 pf d2 s) as [[[d2' s2'] e2]| | |] eqn:E2; try discriminate.
    destruct (C18_json_script_independent_partial _ _ _ _ _ _ _ _ _ _ _ Hok Hs2 Hp Hr E1 E2)
      as (<- & <- & K).
    destruct (jisnil e1) eqn:Ee.
    + apply jisnil_true' in Ee. subst e1. destruct (K eq_refl) as (Kp & Kr & Kok & Ks2).
      destruct (jdec_run f1 k d1' s1') as [l1'| | |] eqn:R1; try discriminate.
      destruct (jdec_run f2 k d2' s1') as [l2'| | |] eqn:R2; try discriminate.
      rewrite (IH _ _ _ _ _ Kok Ks2 Kp Kr R1 R2) in H1. congruence.
    + congruence.
Qed.

(* with totality (a): the runs do return *)
Theorem C18_json_run_total : forall k fuel d s,
  inv (jd_p d) -> (jmeasure d < fuel)%nat -> exists l, jdec_run fuel k d s = Ok l.
Proof.
  induction k as [|k IH]; intros fuel d s Hi Hm; cbn [jdec_run]; [eauto|].
  destruct (C18_json_next_total fuel d s Hi Hm) as (d' & s' & e & H & Hinv & Hle). rewrite H.
  destruct (jisnil e) eqn:Ee; [|eauto].
  apply jisnil_true' in Ee. destruct (IH fuel d' s' (Hinv Ee)) as (l & Hl); [lia|]. rewrite Hl. eauto.
Qed.

(* in particular: a reader decoder behaves like the bytes decoder on the
   concatenation of everything the reader delivers *)
Definition jreader_dec (sc : list (bytes * Z)) : jdecoder :=
  {| jd_p := jparser0; jd_buf := []; jd_script := sc; jd_bytesdec := false |}.
Definition jbytes_dec (b : bytes) : jdecoder :=
  {| jd_p := jparser0; jd_buf := b; jd_script := []; jd_bytesdec := true |}.

Corollary C18_json_reader_as_bytes_partial : forall f1 f2 k sc s l1 l2,
  script_okb sc = true ->
  jdec_run f1 k (jreader_dec sc) s = Ok l1 ->
  jdec_run f2 k (jbytes_dec (concat (map fst sc))) s = Ok l2 -> l1 = l2.
Proof.
  intros f1 f2 k sc s l1 l2 Hsc H1 H2.
  eapply (C18_json_run_script_independent_partial f1 f2 k (jreader_dec sc) (jbytes_dec (concat (map fst sc))));
    try eassumption; try reflexivity.
  - unfold jdec_ok, jreader_dec. cbn [jd_p jd_script]. split; [apply inv0|]. split; [left; apply W0|exact Hsc].
  - apply peq_refl.
  - unfold jrem, jtailb, jreader_dec, jbytes_dec. cbn [jd_buf jd_script jd_bytesdec app]. rewrite app_nil_r. reflexivity.
Qed.

(* two scripts with the same data: same sequence of (events, verdict), and both runs return *)
Corollary C18_json_scripts_same_data : forall k sc1 sc2 s fuel,
  script_okb sc1 = true -> script_okb sc2 = true ->
  concat (map fst sc1) = concat (map fst sc2) ->
  (2 * length sc1 + 1 <= fuel)%nat -> (2 * length sc2 + 1 <= fuel)%nat ->
  exists l, jdec_run fuel k (jreader_dec sc1) s = Ok l /\ jdec_run fuel k (jreader_dec sc2) s = Ok l.
Proof.
  intros k sc1 sc2 s fuel H1 H2 Hc Hf1 Hf2.
  destruct (C18_json_run_total k fuel (jreader_dec sc1) s inv0) as (l1 & R1).
  { unfold jmeasure, jreader_dec. cbn [jd_script jd_buf]. lia. }
  destruct (C18_json_run_total k fuel (jreader_dec sc2) s inv0) as (l2 & R2).
  { unfold jmeasure, jreader_dec. cbn [jd_script jd_buf]. lia. }
  exists l1. split; [exact R1|]. rewrite R2. f_equal. symmetry.
  eapply (C18_json_run_script_independent_partial fuel fuel k (jreader_dec sc1) (jreader_dec sc2)); try eassumption.
  - unfold jdec_ok, jreader_dec. cbn [jd_p jd_script]. split; [apply inv0|]. split; [left; apply W0|exact H1].
  - apply peq_refl.
Qed.

(* ====================================================================== *)
(* Part 4: the events of one top-level value are the events of one tree.  *)
(* Ghost state: the open containers with the subtrees completed so far.   *)
(* ====================================================================== *)
Inductive frame :=
| FA (done : list tree)                                       (* open array, elements in reverse *)
| FO (done : list (bytes * bool * tree)) (key : option bytes). (* open object, pending key *)

Definition fret (f : frame) : Z := match f with FA _ => jArrNext | FO _ _ => jDictFieldStateEnd end.
Definition takes (f : frame) : Prop := match f with FO _ None => False | _ => True end.

Definition fevents (f : frame) : list event :=
  match f with
  | FA done => EArrStart (-1) BAny :: flatten_elems (rev done)
  | FO done key => EObjStart (-1) BAny :: flatten_members (rev done) ++
                   match key with Some k => [EKeyRef k] | None => [] end
  end.
(* innermost frame first *)
Fixpoint oevents (G : list frame) : list event :=
  match G with [] => [] | f :: G' => oevents G' ++ fevents f end.

Definition rets (G : list frame) : list Z := map fret G ++ [jStart].

Definition leafst (c : Z) : Prop := c = jNull \/ c = jTrue \/ c = jFalse \/ c = jString \/ c = jNumber.

Definition cur_frame (c : Z) (f : frame) : Prop :=
  match f with
  | FA _ => c = jArr \/ c = jArrValue \/ c = jArrNext
  | FO _ None => c = jDict \/ c = jDictNextField \/ c = jDictField \/ c = jDictFieldStateEnd
  | FO _ (Some _) => c = jDictFieldValueSep \/ c = jDictFieldValue
  end.

Definition Frames (p : jparser) (G : list frame) : Prop :=
  (G = [] /\ jp_cur p = jStart /\ jp_states p = []) \/
  (exists f G', G = f :: G' /\ cur_frame (jp_cur p) f /\ jp_states p = rets G' /\ Forall takes G') \/
  (leafst (jp_cur p) /\ jp_states p = rets G /\ Forall takes G).

Lemma rets_nonempty : forall G, rets G <> [].
Proof. intros G. unfold rets. destruct (map fret G); discriminate. Qed.

Lemma Frames_start : forall p G, Frames p G -> jp_cur p = jStart -> G = [] /\ jp_states p = [].
Proof.
  intros p G [(A & B & C)|[(f & G' & A & B & C & D)|(A & B & C)]] Hc.
  - auto.
  - exfalso. rewrite Hc in B. destruct f as [d|d [k|]]; cbn in B; ust; lia.
  - exfalso. rewrite Hc in A. unfold leafst in A. ust. lia.
Qed.

Lemma Frames_container : forall p G, Frames p G -> 2 <= jp_cur p <= 10 ->
  exists f G', G = f :: G' /\ cur_frame (jp_cur p) f /\ jp_states p = rets G' /\ Forall takes G'.
Proof.
  intros p G [(A & B & C)|[H|(A & B & C)]] Hc.
  - exfalso. ust. lia.
  - exact H.
  - exfalso. unfold leafst in A. ust. lia.
Qed.

Lemma Frames_leaf : forall p G, Frames p G -> leafst (jp_cur p) -> jp_states p = rets G /\ Forall takes G.
Proof.
  intros p G [(A & B & C)|[(f & G' & A & B & C & D)|(A & B & C)]] Hc.
  - exfalso. unfold leafst in Hc. ust. lia.
  - exfalso. unfold leafst in Hc. destruct f as [d|d [k|]]; cbn in B; ust; lia.
  - auto.
Qed.

Definition arrive (t : tree) (G : list frame) : list frame :=
  match G with
  | FA done :: G' => FA (t :: done) :: G'
  | FO done (Some k) :: G' => FO ((k, true, t) :: done) None :: G'
  | _ => G
  end.

Lemma oevents_arrive : forall t G, G <> [] -> Forall takes G -> oevents (arrive t G) = oevents G ++ flatten t.
Proof.
  intros t [|[done|done [k|]] G'] Hn HF; [congruence| | |].
  - cbn [arrive oevents fevents rev]. unfold flatten_elems. rewrite flat_map_app. cbn [flat_map].
    repeat (rewrite <- app_assoc || rewrite app_nil_r || rewrite <- app_comm_cons). reflexivity.
  - cbn [arrive oevents fevents rev]. unfold flatten_members. rewrite flat_map_app. cbn [flat_map key_event].
    repeat (rewrite <- app_assoc || rewrite app_nil_r || rewrite <- app_comm_cons). reflexivity.
  - inversion HF; subst. contradiction.
Qed.

(* a value has been completed and the parser pops to the state it returns to *)
Lemma pop_arrive : forall q G t, jp_states q = rets G -> Forall takes G ->
  (G = [] -> Frames (jpop q) [] /\ jp_states (jpop q) = []) /\
  (G <> [] -> Frames (jpop q) (arrive t G) /\ jp_states (jpop q) <> []).
Proof.
  intros q G t Hs HF. unfold jpop. rewrite Hs. split.
  - intros ->. cbn [rets map app]. jsimp. split; [|reflexivity]. left. auto.
  - intros Hn. destruct G as [|f G']; [congruence|]. cbn [rets map app]. jsimp.
    split; [|apply rets_nonempty]. right; left.
    inversion HF as [|? ? Hf HF']; subst.
    destruct f as [done|done [k|]]; cbn [arrive fret]; [| |contradiction].
    + exists (FA (t :: done)), G'. split; [reflexivity|]. split; [cbn; auto|]. split; [reflexivity|exact HF'].
    + exists (FO ((k, true, t) :: done) None), G'. split; [reflexivity|]. split; [cbn; auto|]. split; [reflexivity|exact HF'].
Qed.

(* the outcome of a step in terms of the ghost state *)
Definition Fout (G : list frame) (s : sink) (r : jsres) : Prop :=
  match r with
  | JCrash _ => True
  | JS p1 s1 rest rep e => e = jpnil ->
      exists l G1, s1 = s_add s l /\ Frames p1 G1 /\
        ((oevents G1 = oevents G ++ l /\ (jp_states p1 = [] -> l = [])) \/
         (jp_states p1 = [] /\ l <> [] /\ exists t, oevents G ++ l = flatten t))
  end.

Lemma Fout_err : forall G s p1 s1 rest rep e, e <> jpnil -> Fout G s (JS p1 s1 rest rep e).
Proof. intros. cbn [Fout]. intros; contradiction. Qed.

Lemma Fout_silent : forall G s p1 rest rep, Frames p1 G -> Fout G s (JS p1 s rest rep jpnil).
Proof.
  intros G s p1 rest rep HF. cbn [Fout]. intros _. exists [], G. rewrite s_add_nil, app_nil_r.
  split; [reflexivity|]. split; [exact HF|]. left. auto.
Qed.

Lemma Fout_pop : forall G s q s1 rest rep t l,
  jp_states q = rets G -> Forall takes G -> l <> [] -> s1 = s_add s l -> l = flatten t ->
  Fout G s (JS (jpop q) s1 rest rep jpnil).
Proof.
  intros G s q s1 rest rep t l Hs HF Hl -> ->. cbn [Fout]. intros _.
  destruct (pop_arrive q G t Hs HF) as [P0 P1].
  destruct G as [|f G'].
  - destruct (P0 eq_refl) as [A B]. exists (flatten t), []. split; [reflexivity|]. split; [exact A|].
    right. split; [exact B|]. split; [exact Hl|]. exists t. reflexivity.
  - destruct P1 as [A B]; [discriminate|]. exists (flatten t), (arrive t (f :: G')).
    split; [reflexivity|]. split; [exact A|]. left. split; [apply oevents_arrive; [discriminate|exact HF]|].
    intros K. contradiction.
Qed.

Lemma flatten_val : forall sc, flatten (TVal sc false) = [EVal sc].
Proof. intros [| | |]; reflexivity. Qed.

(* leaves: either nothing happens to the control state, or one scalar is delivered and the state popped *)
Definition Lout (q : jparser) (s : sink) (r : jsres) : Prop :=
  match r with
  | JCrash _ => True
  | JS p1 s1 rest rep e => e = jpnil ->
      (s1 = s /\ jp_cur p1 = jp_cur q /\ jp_states p1 = jp_states q) \/
      (exists sc byref q', s1 = s_add s (flatten (TVal sc byref)) /\ p1 = jpop q' /\ jp_states q' = jp_states q)
  end.

Lemma flatten_tval_nonempty : forall sc byref, flatten (TVal sc byref) <> [].
Proof. intros [| |x|] [|]; discriminate. Qed.

Lemma Lout_Fout : forall q G s r, Lout q s r -> leafst (jp_cur q) -> jp_states q = rets G -> Forall takes G ->
  Fout G s r.
Proof.
  intros q G s [p1 s1 rest rep e|w] H Hq Hs HF; [|exact I]. cbn [Lout Fout] in *. intros He.
  destruct (H He) as [(-> & A & B)|(sc & byref & q' & -> & -> & B)].
  - exists [], G. rewrite s_add_nil, app_nil_r. split; [reflexivity|]. split; [|left; auto].
    right; right. rewrite A, B. auto.
  - assert (K : Fout G s (JS (jpop q') (s_add s (flatten (TVal sc byref))) rest rep jpnil)).
    { eapply Fout_pop; [rewrite B; exact Hs|exact HF|apply flatten_tval_nonempty|reflexivity|reflexivity]. }
    exact (K eq_refl).
Qed.

Lemma jvis_add' : forall s ev s1 e, jvis s ev = (s1, e) -> s1 = s_add s [ev].
Proof. intros s ev s1 e H. destruct (jvis_add s ev) as [e' H']. rewrite H' in H. inversion H. reflexivity. Qed.

Lemma step_kind_L : forall p s b kind sc, Lout p s (step_kind p s b kind (EVal sc)).
Proof.
  intros p s b kind sc. unfold step_kind. destruct (_ || _); [exact I|]. cbv zeta.
  destruct (negb (zlen b <? jp_req p)).
  - destruct (negb (has_prefix _ _)); [cbn [Lout]; intros He; ust; lia|].
    destruct (jvis s (EVal sc)) as [s2 e] eqn:Ev. apply jvis_add' in Ev. cbn [Lout]. intros _.
    right. exists sc, false, p. rewrite flatten_val. auto.
  - destruct (negb (has_prefix _ _)); [cbn [Lout]; intros He; ust; lia|].
    cbn [Lout]. intros _. left. jsimp. auto.
Qed.

Lemma step_string_L : forall p s b, Lout p s (step_string p s b).
Proof.
  intros p s b. unfold step_string. pose proof (do_string_W p b) as D.
  destruct (do_string p b) as [p1|p1 content rest|p1|w]; [| | |exact I].
  - destruct D as [D1 D2]. cbn [Lout]. intros _. left. auto.
  - destruct D as (D1 & D2 & _). destruct (jvis s (EStrRef content)) as [s1 e] eqn:Ev. apply jvis_add' in Ev.
    cbn [Lout]. intros _. right. exists (SStr content), true, p1. auto.
  - cbn [Lout]. intros He. ust. lia.
Qed.

Lemma report_number_ev : forall s b dbl s1, report_number pf s b dbl = Some (s1, jpnil) ->
  exists k z, s1 = s_add s [EVal (SNum k z)].
Proof.
  intros s b dbl s1. unfold report_number.
  assert (G : forall k z, (let '(s2, e2) := jvis s (EVal (SNum k z)) in Some (s2, e2)) = Some (s1, jpnil) ->
              exists k z, s1 = s_add s [EVal (SNum k z)]).
  { intros k z. destruct (jvis s (EVal (SNum k z))) as [s2 e2] eqn:Ev. apply jvis_add' in Ev.
    intros [= <- _]. eauto. }
  assert (G0 : Some (s, jeGeneric) = Some (s1, jpnil) -> exists k z, s1 = s_add s [EVal (SNum k z)]).
  { intros H. assert (K : jeGeneric = jpnil) by congruence. ust. lia. }
  destruct dbl.
  - destruct (pf b); [apply G|apply G0].
  - destruct b as [|c r]; [discriminate|].
    destruct (if (c =? 43) || (c =? 45) then r else c :: r) as [|d0 dr]; [apply G0|].
    destruct (parse_uint _ _); [|apply G0].
    destruct (_ && _); [apply G|]. destruct (_ && _); [apply G0|apply G].
Qed.

Lemma step_number_L : forall p s b, Lout p s (step_number pf p s b).
Proof.
  intros p s b. unfold step_number. destruct (scan_number b (jp_isdbl p) 0) as [found dbl].
  destruct found as [i|]; jsimp.
  - destruct (report_number pf s _ dbl) as [[s1 e]|] eqn:Er; [|exact I].
    cbn [Lout]. intros ->. destruct (report_number_ev _ _ _ _ Er) as (k & z & ->).
    right. exists (SNum k z), false, (jset_lit (jset_isdbl p dbl) []). rewrite flatten_val. jsimp. auto.
  - cbn [Lout]. intros _. left. jsimp. auto.
Qed.

(* containers *)
Lemma cur_frame_arr : forall c f, cur_frame c f -> c = jArr \/ c = jArrValue \/ c = jArrNext -> exists done, f = FA done.
Proof. intros c [d|d [k|]] H Hc; cbn in H; [eauto| |]; exfalso; ust; lia. Qed.
Lemma cur_frame_obj : forall c f, cur_frame c f ->
  c = jDict \/ c = jDictNextField \/ c = jDictField \/ c = jDictFieldStateEnd -> exists done, f = FO done None.
Proof. intros c [d|d [k|]] H Hc; cbn in H; [| |eauto]; exfalso; ust; lia. Qed.
Lemma cur_frame_key : forall c f, cur_frame c f ->
  c = jDictFieldValueSep \/ c = jDictFieldValue -> exists done k, f = FO done (Some k).
Proof. intros c [d|d [k|]] H Hc; cbn in H; [|eauto|]; exfalso; ust; lia. Qed.

Lemma end_arr_F : forall p s b done G',
  jp_states p = rets G' -> Forall takes G' ->
  Fout (FA done :: G') s (end_container p s b EArrEnd).
Proof.
  intros p s b done G' Hs HF. unfold end_container. destruct b as [|c r]; [exact I|].
  destruct (jvis s EArrEnd) as [s1 e] eqn:Ev. apply jvis_add' in Ev. subst s1. cbn [Fout]. intros ->.
  set (t := TArr (-1) BAny (rev done)).
  destruct (pop_arrive p G' t Hs HF) as [P0 P1]. exists [EArrEnd].
  destruct G' as [|f G''].
  - destruct (P0 eq_refl) as [A B]. exists []. split; [reflexivity|]. split; [exact A|].
    right. split; [exact B|]. split; [discriminate|]. exists t. unfold t. rewrite flatten_arr.
    cbn [oevents fevents app]. reflexivity.
  - destruct P1 as [A B]; [discriminate|]. exists (arrive t (f :: G'')).
    split; [reflexivity|]. split; [exact A|]. left. split; [|intros K; contradiction].
    rewrite oevents_arrive by (try discriminate; exact HF). unfold t. rewrite flatten_arr.
    cbn [oevents fevents]. repeat (rewrite <- app_assoc || rewrite app_nil_r || rewrite <- app_comm_cons). reflexivity.
Qed.

Lemma end_obj_F : forall p s b done G',
  jp_states p = rets G' -> Forall takes G' ->
  Fout (FO done None :: G') s (end_container p s b EObjEnd).
Proof.
  intros p s b done G' Hs HF. unfold end_container. destruct b as [|c r]; [exact I|].
  destruct (jvis s EObjEnd) as [s1 e] eqn:Ev. apply jvis_add' in Ev. subst s1. cbn [Fout]. intros ->.
  set (t := TObj (-1) BAny (rev done)).
  destruct (pop_arrive p G' t Hs HF) as [P0 P1]. exists [EObjEnd].
  destruct G' as [|f G''].
  - destruct (P0 eq_refl) as [A B]. exists []. split; [reflexivity|]. split; [exact A|].
    right. split; [exact B|]. split; [discriminate|]. exists t. unfold t. rewrite flatten_obj.
    cbn [oevents fevents app]. rewrite app_nil_r. reflexivity.
  - destruct P1 as [A B]; [discriminate|]. exists (arrive t (f :: G'')).
    split; [reflexivity|]. split; [exact A|]. left. split; [|intros K; contradiction].
    rewrite oevents_arrive by (try discriminate; exact HF). unfold t. rewrite flatten_obj.
    cbn [oevents fevents]. repeat (rewrite <- app_assoc || rewrite app_nil_r || rewrite <- app_comm_cons). reflexivity.
Qed.

Lemma Frames_set_cur : forall p c f G', cur_frame c f -> jp_states p = rets G' -> Forall takes G' ->
  Frames (jset_cur p c) (f :: G').
Proof. intros p c f G' Hc Hs HF. right; left. exists f, G'. jsimp. auto. Qed.

(* a value starts in a context that can take one *)
Lemma step_value_F : forall p s b ret G,
  Frames p G -> ret :: jp_states p = rets G -> Forall takes G -> (ret =? jFailed) = false ->
  Fout G s (step_value pf p s b ret).
Proof.
  intros p s b ret G HFr Hs HF Hne. unfold step_value.
  destruct (trim_left b) as [|c r]; [apply Fout_silent; exact HFr|]. cbv zeta.
  assert (Hst : forall (q : jparser), jp_states q = (if ret =? jFailed then jp_states p else ret :: jp_states p) ->
                  jp_states q = rets G) by (intros q ->; rewrite Hne; exact Hs).
  destruct (c =? 123).
  { destruct (jvis s (EObjStart (-1) BAny)) as [s1 e] eqn:Ev. apply jvis_add' in Ev. subst s1.
    cbn [Fout]. intros ->. exists [EObjStart (-1) BAny], (FO [] None :: G). split; [reflexivity|].
    split; [|left; split; [reflexivity|]; intros K; jpsimp; rewrite Hne, Hs in K; exfalso; exact (rets_nonempty _ K)].
    right; left. exists (FO [] None), G. jpsimp. split; [reflexivity|]. split; [cbn; auto|]. split; [rewrite Hne; exact Hs|exact HF]. }
  destruct (c =? 91).
  { destruct (jvis s (EArrStart (-1) BAny)) as [s1 e] eqn:Ev. apply jvis_add' in Ev. subst s1.
    cbn [Fout]. intros ->. exists [EArrStart (-1) BAny], (FA [] :: G). split; [reflexivity|].
    split; [|left; split; [reflexivity|]; intros K; jpsimp; rewrite Hne, Hs in K; exfalso; exact (rets_nonempty _ K)].
    right; left. exists (FA []), G. jpsimp. split; [reflexivity|]. split; [cbn; auto|]. split; [rewrite Hne; exact Hs|exact HF]. }
  destruct (c =? 110).
  { eapply Lout_Fout; [apply step_kind_L|jpsimp; unfold leafst; auto|jpsimp; rewrite Hne; exact Hs|exact HF]. }
  destruct (c =? 102).
  { eapply Lout_Fout; [apply step_kind_L|jpsimp; unfold leafst; auto|jpsimp; rewrite Hne; exact Hs|exact HF]. }
  destruct (c =? 116).
  { eapply Lout_Fout; [apply step_kind_L|jpsimp; unfold leafst; auto|jpsimp; rewrite Hne; exact Hs|exact HF]. }
  destruct (c =? 34).
  { eapply Lout_Fout; [apply step_string_L|jpsimp; unfold leafst; auto|jpsimp; rewrite Hne; exact Hs|exact HF]. }
  destruct (_ || _).
  { eapply Lout_Fout; [apply step_number_L|jpsimp; unfold leafst; auto 6|jpsimp; rewrite Hne; exact Hs|exact HF]. }
  apply Fout_err. ust; lia.
Qed.

Lemma Fout_norep : forall G s r, Fout G s r ->
  Fout G s (match r with JS p1 s1 r0 _ e => JS p1 s1 r0 false e | JCrash x => JCrash x end).
Proof. intros G s [p1 s1 r0 rep e|x] H; exact H. Qed.

Lemma jstep_F : forall p s b G, W p -> Frames p G -> Fout G s (jstep pf p s b).
Proof.
  intros p s b G Hw HFr.
  pose proof Hw as (Hwf & _ & _). pose proof (wfs_range _ _ Hwf) as Hrg.
  destruct (cur_cases (jp_cur p)) as
    [Hc|[Hc|[Hc|[Hc|[Hc|[Hc|[Hc|[Hc|[Hc|[Hc|[Hc|[Hc|[Hc|[Hc|[Hc|[Hc|Hc]]]]]]]]]]]]]]]];
    try (exfalso; ust; lia).
  - (* jStart *)
    destruct (Frames_start _ _ HFr Hc) as [-> Hs].
    rewrite (jstep_start pf p s b Hc). apply step_value_F; auto. rewrite Hs. reflexivity.
  - (* jArr *)
    destruct (Frames_container _ _ HFr) as (f & G' & -> & Hcf & Hs & HF); [rewrite Hc; ust; lia|].
    destruct (cur_frame_arr _ _ Hcf) as [done ->]; [rewrite Hc; auto|].
    rewrite (jstep_arr pf p s b Hc). unfold step_array.
    destruct (trim_left b) as [|c r]; [apply Fout_silent; exact HFr|].
    destruct (c =? 93); [apply end_arr_F; auto|].
    apply Fout_silent. apply Frames_set_cur; auto. cbn; auto.
  - (* jArrValue *)
    destruct (Frames_container _ _ HFr) as (f & G' & -> & Hcf & Hs & HF); [rewrite Hc; ust; lia|].
    destruct (cur_frame_arr _ _ Hcf) as [done ->]; [rewrite Hc; auto|].
    rewrite (jstep_arrvalue pf p s b Hc).
    apply (Fout_norep _ _ (step_value pf p s b jArrNext)).
    apply step_value_F; auto.
    + rewrite Hs. reflexivity.
    + constructor; [exact I|exact HF].
  - (* jArrNext *)
    destruct (Frames_container _ _ HFr) as (f & G' & -> & Hcf & Hs & HF); [rewrite Hc; ust; lia|].
    destruct (cur_frame_arr _ _ Hcf) as [done ->]; [rewrite Hc; auto|].
    rewrite (jstep_arrnext pf p s b Hc). unfold step_arr_value_end.
    destruct (trim_left b) as [|c r]; [apply Fout_silent; exact HFr|].
    destruct (c =? 93); [apply end_arr_F; auto|].
    destruct (c =? 44); [|apply Fout_err; ust; lia].
    apply Fout_silent. apply Frames_set_cur; auto. cbn; auto.
  - (* jDict *)
    destruct (Frames_container _ _ HFr) as (f & G' & -> & Hcf & Hs & HF); [rewrite Hc; ust; lia|].
    destruct (cur_frame_obj _ _ Hcf) as [done ->]; [rewrite Hc; auto|].
    rewrite (jstep_dict pf p s b Hc). unfold step_dict.
    destruct (trim_left b) as [|c r]; [apply Fout_silent; exact HFr|].
    destruct (c =? 125); [cbn [negb]; apply end_obj_F; auto|].
    destruct (c =? 34); [|apply Fout_err; ust; lia].
    apply Fout_silent. apply Frames_set_cur; auto. cbn; auto.
  - (* jDictField: the key *)
    destruct (Frames_container _ _ HFr) as (f & G' & -> & Hcf & Hs & HF); [rewrite Hc; ust; lia|].
    destruct (cur_frame_obj _ _ Hcf) as [done ->]; [rewrite Hc; auto|].
    rewrite (jstep_dictfield pf p s b Hc). unfold step_dict_key. pose proof (do_string_W p b) as D.
    destruct (do_string p b) as [p1|p1 content rest|p1|w]; [| | |exact I].
    + destruct D as [D1 D2]. apply Fout_silent. right; left. exists (FO done None), G'.
      rewrite D1, D2. auto.
    + destruct D as (D1 & D2 & _). destruct (jvis s (EKeyRef content)) as [s1 e] eqn:Ev. apply jvis_add' in Ev. subst s1.
      cbn [Fout]. intros ->. exists [EKeyRef content], (FO done (Some content) :: G'). split; [reflexivity|].
      split; [apply Frames_set_cur; [cbn; auto|rewrite D2; exact Hs|exact HF]|].
      left. split; [cbn [oevents fevents]; repeat (rewrite <- app_assoc || rewrite app_nil_r || rewrite <- app_comm_cons); reflexivity|].
      jsimp. rewrite D2, Hs. intros K. exfalso. exact (rets_nonempty _ K).
    + apply Fout_err. ust; lia.
  - (* jDictNextField *)
    destruct (Frames_container _ _ HFr) as (f & G' & -> & Hcf & Hs & HF); [rewrite Hc; ust; lia|].
    destruct (cur_frame_obj _ _ Hcf) as [done ->]; [rewrite Hc; auto|].
    rewrite (jstep_dictnext pf p s b Hc). unfold step_dict.
    destruct (trim_left b) as [|c r]; [apply Fout_silent; exact HFr|].
    destruct (c =? 125); [cbn [negb]; apply Fout_err; ust; lia|].
    destruct (c =? 34); [|apply Fout_err; ust; lia].
    apply Fout_silent. apply Frames_set_cur; auto. cbn; auto.
  - (* jDictFieldValue *)
    destruct (Frames_container _ _ HFr) as (f & G' & -> & Hcf & Hs & HF); [rewrite Hc; ust; lia|].
    destruct (cur_frame_key _ _ Hcf) as (done & k & ->); [rewrite Hc; auto|].
    rewrite (jstep_dictvalue pf p s b Hc). apply step_value_F; auto.
    + rewrite Hs. reflexivity.
    + constructor; [exact I|exact HF].
  - (* jDictFieldValueSep *)
    destruct (Frames_container _ _ HFr) as (f & G' & -> & Hcf & Hs & HF); [rewrite Hc; ust; lia|].
    destruct (cur_frame_key _ _ Hcf) as (done & k & ->); [rewrite Hc; auto|].
    rewrite (jstep_sep pf p s b Hc).
    destruct (trim_left b) as [|x r]; [apply Fout_silent; exact HFr|].
    destruct (x =? 58); [|apply Fout_err; ust; lia].
    apply Fout_silent. apply Frames_set_cur; auto. cbn; auto.
  - (* jDictFieldStateEnd *)
    destruct (Frames_container _ _ HFr) as (f & G' & -> & Hcf & Hs & HF); [rewrite Hc; ust; lia|].
    destruct (cur_frame_obj _ _ Hcf) as [done ->]; [rewrite Hc; auto 6|].
    rewrite (jstep_dictend pf p s b Hc). unfold step_dict_value_end.
    destruct (trim_left b) as [|c r]; [apply Fout_silent; exact HFr|].
    destruct (c =? 125); [apply end_obj_F; auto|].
    destruct (c =? 44); [|apply Fout_err; ust; lia].
    apply Fout_silent. apply Frames_set_cur; auto. cbn; auto.
  - (* jNull *)
    destruct (Frames_leaf _ _ HFr) as [Hs HF]; [rewrite Hc; unfold leafst; auto|].
    rewrite (jstep_null pf p s b Hc). eapply Lout_Fout; [apply step_kind_L|rewrite Hc; unfold leafst; auto|exact Hs|exact HF].
  - (* jTrue *)
    destruct (Frames_leaf _ _ HFr) as [Hs HF]; [rewrite Hc; unfold leafst; auto|].
    rewrite (jstep_true pf p s b Hc). eapply Lout_Fout; [apply step_kind_L|rewrite Hc; unfold leafst; auto|exact Hs|exact HF].
  - (* jFalse *)
    destruct (Frames_leaf _ _ HFr) as [Hs HF]; [rewrite Hc; unfold leafst; auto|].
    rewrite (jstep_false pf p s b Hc). eapply Lout_Fout; [apply step_kind_L|rewrite Hc; unfold leafst; auto|exact Hs|exact HF].
  - (* jString *)
    destruct (Frames_leaf _ _ HFr) as [Hs HF]; [rewrite Hc; unfold leafst; auto|].
    rewrite (jstep_string pf p s b Hc). eapply Lout_Fout; [apply step_string_L|rewrite Hc; unfold leafst; auto|exact Hs|exact HF].
  - (* jNumber *)
    destruct (Frames_leaf _ _ HFr) as [Hs HF]; [rewrite Hc; unfold leafst; auto 6|].
    rewrite (jstep_number pf p s b Hc). eapply Lout_Fout; [apply step_number_L|rewrite Hc; unfold leafst; auto 6|exact Hs|exact HF].
Qed.

Lemma s_add_n : forall s l, s_n (s_add s l) <> s_n s <-> l <> [].
Proof.
  intros s l. cbn [s_add s_n]. destruct l; cbn [length]; split; intros H; try congruence; try lia; try discriminate.
Qed.

(* the inner loop: the events it delivers extend the open frames, and when it reports
   a value (at the top level) they complete one tree *)
Lemma jfeed_until_F : forall fuel p s b orig p' s' rest rep G,
  W p -> Frames p G -> jfeed_until fuel pf p s b orig = Ok (JS p' s' rest rep jpnil) ->
  exists L G1, s' = s_add s L /\ Frames p' G1 /\ W p' /\
    (rep = false -> oevents G1 = oevents G ++ L) /\
    (rep = true -> exists t, oevents G ++ L = flatten t).
Proof.
  induction fuel as [|f IH]; intros p s b orig p' s' rest rep G Hw HFr H; [discriminate|].
  cbn [jfeed_until] in H.
  destruct (zlen b =? 0).
  { inversion H; subst. exists [], G. rewrite s_add_nil, app_nil_r. split; [reflexivity|].
    split; [exact HFr|]. split; [exact Hw|]. split; [auto|discriminate]. }
  pose proof (jstep_F p s b G Hw HFr) as F.
  destruct (jstep pf p s b) as [p1 s1 r1 rep1 err|w] eqn:Hx; [|discriminate].
  rewrite (W_notfailed p Hw) in H.
  destruct (jisnil err) eqn:Ee; cbn [negb] in H; [|inversion H; subst; vm_compute in Ee; discriminate Ee].
  apply jisnil_true' in Ee. subst err. cbn [Fout] in F.
  destruct (F eq_refl) as (l & G1 & -> & HFr1 & Hd).
  pose proof (jstep_W _ _ _ _ _ _ _ Hw Hx) as Hw1.
  pose proof (rep1_char _ _ _ _ _ _ _ Hw Hx) as Hc. unfold tdone in Hc. rewrite s_add_n in Hc.
  destruct (rep1 && (zlen (jp_states p1) =? 0)) eqn:Er.
  - inversion H; subst. destruct (proj1 Hc eq_refl) as [Hs Hl].
    exists l, G1. split; [reflexivity|]. split; [exact HFr1|]. split; [exact Hw1|]. split; [discriminate|].
    intros _. destruct Hd as [[_ Hd]|(_ & _ & Hd)]; [exfalso; apply Hl; apply Hd; exact Hs|exact Hd].
  - assert (Hd1 : oevents G1 = oevents G ++ l).
    { destruct Hd as [[Hd _]|(Hs & Hl & _)]; [exact Hd|].
      exfalso. assert (K : false = true) by (apply Hc; auto). discriminate K. }
    destruct (IH _ _ _ _ _ _ _ _ _ Hw1 HFr1 H) as (L & G2 & -> & HFr2 & Hw2 & A & B).
    exists (l ++ L), G2. split; [apply s_add_add|]. split; [exact HFr2|]. split; [exact Hw2|]. split.
    + intros Hr. rewrite (A Hr), Hd1, app_assoc. reflexivity.
    + intros Hr. destruct (B Hr) as [t Ht]. exists t. rewrite <- Ht, Hd1, app_assoc. reflexivity.
Qed.

Lemma rets_single : forall G c, rets G = [c] -> G = [].
Proof. intros [|f G] c H; [reflexivity|]. unfold rets in H. cbn [map app] in H. inversion H. destruct (map fret G); discriminate. Qed.

(* the number that finalize reports at the end of the input is a top-level value *)
Lemma jdec_finalize_F : forall d s d' s' G,
  W (jd_p d) -> Frames (jd_p d) G -> jdec_finalize pf d s = Ok (d', s', jpnil) ->
  G = [] /\ exists k z, s' = s_add s [EVal (SNum k z)].
Proof.
  intros d s d' s' G Hw HFr H. unfold jdec_finalize in H.
  destruct (jfinalize pf (jd_p d) s) as [[[p1 s1] e]|] eqn:Ef; [|discriminate].
  destruct (negb (jisnil e)) eqn:En; [inversion H; subst; vm_compute in En; discriminate En|].
  apply negb_false_iff, jisnil_true' in En. subst e.
  destruct (jp_cur (jd_p d) =? jNumber) eqn:Ec; [|inversion H; ust; lia].
  apply Z.eqb_eq in Ec. inversion H; subst d' s'. clear H.
  destruct (jfinalize_idle _ _ _ _ Hw Ef) as ((_ & Hs1 & _) & _ & [(K & _)|(_ & Hp)]); [contradiction|].
  destruct (Frames_leaf _ _ HFr) as [Hs _]; [rewrite Ec; unfold leafst; auto 6|].
  split.
  - subst p1. unfold jpop in Hs1. jsimp. destruct (jp_states (jd_p d)) as [|c r] eqn:Es.
    + exfalso. symmetry in Hs. exact (rets_nonempty _ Hs).
    + jsimp. subst r. symmetry in Hs. eapply rets_single; eauto.
  - unfold jfinalize in Ef. rewrite Ec in Ef. change (jNumber =? jNumber) with true in Ef. cbv iota in Ef.
    destruct (report_number pf s _ _) as [[s2 e2]|] eqn:Er; [|discriminate].
    destruct (jisnil e2) eqn:E2; cbn [negb] in Ef; [|inversion Ef; subst; vm_compute in E2; discriminate E2].
    apply jisnil_true' in E2. subst e2.
    destruct (report_number_ev _ _ _ _ Er) as (k & z & ->).
    destruct (_ && _); inversion Ef; subst; eauto.
Qed.

(* C18 (b), the shape of the delivered events: a Next that returns nil has delivered
   exactly the events of one tree (started from a parser between two values) *)
Lemma jdec_next_F : forall fuel d s d' s' G,
  W (jd_p d) -> Frames (jd_p d) G -> jscript_ok (jd_script d) ->
  jdec_next fuel pf d s = Ok (d', s', jpnil) ->
  exists L t, s' = s_add s L /\ oevents G ++ L = flatten t.
Proof.
  induction fuel as [|f IH]; intros d s d' s' G Hw HFr Hsc H; [discriminate|].
  rewrite jdec_next_S in H. pose proof (jdec_fill_spec d) as Hf.
  pose proof (jdec_fill_script d Hsc) as Hsc1.
  destruct (jdec_fill d) as [d1|d1|d1 e].
  - destruct Hf as [Hp _]. unfold jdec_body in H.
    destruct (jfeed_until _ pf _ _ _ _) as [[p1 s1 rest rep err|w]| | |] eqn:Hfu; try discriminate.
    destruct (jisnil err) eqn:Ee; cbn [negb] in H; [|inversion H; subst; vm_compute in Ee; discriminate Ee].
    apply jisnil_true' in Ee. subst err. rewrite Hp in Hfu.
    destruct (jfeed_until_F _ _ _ _ _ _ _ _ _ _ Hw HFr Hfu) as (L1 & G1 & -> & HFr1 & Hw1 & A & B).
    destruct rep.
    + inversion H; subst. destruct (B eq_refl) as [t Ht]. exists L1, t. auto.
    + match type of H with jdec_next f pf ?d2 _ = _ =>
        destruct (IH d2 _ _ _ G1 Hw1 HFr1 Hsc1 H) as (L2 & t & -> & Ht) end.
      exists (L1 ++ L2), t. split; [apply s_add_add|]. rewrite <- Ht, (A eq_refl), app_assoc. reflexivity.
  - destruct Hf as (Hp & _). rewrite <- Hp in Hw, HFr.
    destruct (jdec_finalize_F _ _ _ _ _ Hw HFr H) as (-> & k & z & ->).
    exists [EVal (SNum k z)], (TVal (SNum k z) false). auto.
  - inversion H; subst. destruct Hf as (_ & _ & _ & r & Hs). rewrite Hs in Hsc. inversion Hsc; subst.
    exfalso. cbn [snd] in *. congruence.
Qed.

Theorem C18_json_next_tree : forall fuel d s d' s',
  W (jd_p d) -> jp_cur (jd_p d) = jStart -> jscript_ok (jd_script d) ->
  jdec_next fuel pf d s = Ok (d', s', jpnil) ->
  exists t, s' = s_add s (flatten t).
Proof.
  intros fuel d s d' s' Hw Hc Hsc H.
  assert (HFr : Frames (jd_p d) []).
  { left. split; [reflexivity|]. split; [exact Hc|]. apply wfs_start. rewrite <- Hc. apply Hw. }
  destruct (jdec_next_F _ _ _ _ _ _ Hw HFr Hsc H) as (L & t & -> & Ht). exists t. rewrite <- Ht. reflexivity.
Qed.

(* the same for the push parser: the events of an accepted one-value input read by
   feedUntil up to the report of the top-level value *)
Theorem C18_json_feed_until_tree : forall fuel s b orig p' s' rest,
  jfeed_until fuel pf jparser0 s b orig = Ok (JS p' s' rest true jpnil) ->
  exists t, s' = s_add s (flatten t).
Proof.
  intros fuel s b orig p' s' rest H.
  assert (HFr : Frames jparser0 []) by (left; auto).
  destruct (jfeed_until_F _ _ _ _ _ _ _ _ _ _ W0 HFr H) as (L & G1 & -> & _ & _ & _ & B).
  destruct (B eq_refl) as [t Ht]. exists t. rewrite <- Ht. reflexivity.
Qed.

End JsonVisitor.

(* The history that exposed the stale literal before finalize was fixed: Parse "12"
   (a top-level number that only finalize reports), then Write {"a":1} on the same
   parser, now behaves like a fresh parser. *)
Example C17_json_write_after_number : forall pf,
  match jp_parse pf jparser0 (sink0 None) [49; 50] with
  | Ok (p, _, e) =>
      e = jpnil /\ jp_lit p = [] /\
      match jp_writes pf p (sink0 None) [[123; 34; 97; 34; 58; 49; 125]],
            jp_writes pf jparser0 (sink0 None) [[123; 34; 97; 34; 58; 49; 125]] with
      | Ok (_, s1, e1), Ok (_, s2, e2) =>
          e1 = jpnil /\ e2 = jpnil /\ s_log s1 = s_log s2 /\
          s_log s2 = [EObjStart (-1) BAny; EKeyRef [97]; EVal (SNum KInt64 1); EObjEnd]
      | _, _ => False
      end
  | _ => False
  end.
Proof. intros pf. vm_compute. repeat split. Qed.

Print Assumptions C16_json_parse_prompt.
Print Assumptions C16_json_parse_fail_spec.
Print Assumptions C16_json_parse_prefix.
Print Assumptions C16_json_run_parse_prompt.
Print Assumptions C16_json_run_parse_fail_spec.
Print Assumptions C16_json_run_parse_prefix.
Print Assumptions C16_json_parse_total_prefix.
Print Assumptions C17_json_parse_idle.
Print Assumptions C17_json_writes_idle.
Print Assumptions C17_json_run_parse_reset.
Print Assumptions C17_json_run_chunks_reset.
Print Assumptions C17_json_reuse_parse.
Print Assumptions C17_json_reuse_writes.
Print Assumptions C17_json_parse_reusable.
Print Assumptions C17_json_write_reusable.
Print Assumptions C18_json_next_total.
Print Assumptions C18_json_next_value_partial.
Print Assumptions C18_json_script_independent_partial.
Print Assumptions C18_json_run_script_independent_partial.
Print Assumptions C18_json_run_total.
Print Assumptions C18_json_reader_as_bytes_partial.
Print Assumptions C18_json_scripts_same_data.
Print Assumptions C18_json_next_tree.
Print Assumptions C18_json_feed_until_tree.
Print Assumptions C17_json_parse_fresh.
Print Assumptions C17_json_writes_fresh.
Print Assumptions C17_json_run_parse_fresh.
Print Assumptions C17_json_run_chunks_fresh.
Print Assumptions C17_json_session_step.
Print Assumptions C17_json_chunks_reusable.
