(* C16 / C17 / C18 for the JSON parser model: how the parser treats its
   visitor, what state it is in after an accepted input, and the pull decoder.
   The float parser [pf] is a Section variable. *)
From Coq Require Import Setoid List NArith ZArith Bool Lia.
From Coq Require Import ZifyBool ZifyNat ZifyN.
From SF Require Import Base.Prelude Base.Utf8 Core.Events Json.Parse Json.ParseSafety Json.ChunkProofs.
Import ListNotations.
Open Scope Z_scope.
Ltac Zify.zify_post_hook ::= Z.div_mod_to_equations.

(* ====================================================================== *)
(* Part 0: visitor programs.  A function of the sink is "representable"   *)
(* when it is the interpretation of a straight-line program of visitor    *)
(* calls that returns at the first failing call with that call's error.   *)
(* ====================================================================== *)

Definition out (A : Type) : Type := option (A * sink * Z).

Inductive prog (A : Type) : Type :=
| PRet (a : A) (e : Z)
| PAbort
| PVis (ev : event) (afail : A) (k : prog A).
Arguments PRet {A} a e.
Arguments PAbort {A}.
Arguments PVis {A} ev afail k.

Fixpoint run {A} (pr : prog A) (s : sink) : out A :=
  match pr with
  | PRet a e => Some (a, s, e)
  | PAbort => None
  | PVis ev af k => let '(s1, ok) := emit s ev in if ok then run k s1 else Some (af, s1, jeVisitor)
  end.

Fixpoint ptrace {A} (pr : prog A) : list event :=
  match pr with PVis ev _ k => ev :: ptrace k | _ => [] end.
Fixpoint pfinal {A} (pr : prog A) : option (A * Z) :=
  match pr with PRet a e => Some (a, e) | PAbort => None | PVis _ _ k => pfinal k end.

Definition s_add (s : sink) (l : list event) : sink :=
  {| s_rlog := rev l ++ s_rlog s; s_n := length l + s_n s; s_fail := s_fail s |}.

Lemma s_add_nil : forall s, s_add s [] = s.
Proof. intros [l n f]; reflexivity. Qed.

Lemma s_add_add : forall s l1 l2, s_add (s_add s l1) l2 = s_add s (l1 ++ l2).
Proof.
  intros s l1 l2. unfold s_add; cbn [s_rlog s_n s_fail]. f_equal.
  - rewrite rev_app_distr, app_assoc. reflexivity.
  - rewrite app_length. lia.
Qed.

Lemma emit_spec : forall s e,
  emit s e = (s_add s [e], match s_fail s with Some k => Nat.ltb (s_n s) k | None => true end).
Proof. intros s e. unfold emit, s_add. cbn [rev app length Nat.add]. destruct (s_fail s); reflexivity. Qed.

Definition final_out {A} (pr : prog A) (s : sink) : out A :=
  match pfinal pr with Some (a, e) => Some (a, s_add s (ptrace pr), e) | None => None end.

Lemma run_nofail : forall A (pr : prog A) s, s_fail s = None -> run pr s = final_out pr s.
Proof.
  induction pr as [a e| |ev af k IH]; intros s Hs; unfold final_out; cbn [run pfinal ptrace].
  - rewrite s_add_nil. reflexivity.
  - reflexivity.
  - rewrite emit_spec, Hs. rewrite IH by exact Hs. unfold final_out.
    destruct (pfinal k) as [[a e]|]; [|reflexivity]. rewrite s_add_add. reflexivity.
Qed.

Lemma run_fail : forall A (pr : prog A) s k, s_fail s = Some k -> (s_n s <= k)%nat ->
  (if (length (ptrace pr) <=? k - s_n s)%nat then run pr s = final_out pr s
   else exists af, run pr s = Some (af, s_add s (firstn (S (k - s_n s)) (ptrace pr)), jeVisitor)).
Proof.
  induction pr as [a e| |ev af k0 IH]; intros s k Hs Hn; cbn [run pfinal ptrace length].
  - cbn [Nat.leb]. unfold final_out. cbn [pfinal ptrace]. rewrite s_add_nil. reflexivity.
  - reflexivity.
  - rewrite emit_spec, Hs.
    destruct (Nat.ltb (s_n s) k) eqn:E.
    + apply Nat.ltb_lt in E.
      assert (Hs1 : s_fail (s_add s [ev]) = Some k) by exact Hs.
      assert (Hn1 : (s_n (s_add s [ev]) <= k)%nat) by (cbn [s_add s_n length]; lia).
      specialize (IH _ _ Hs1 Hn1).
      replace (k - s_n (s_add s [ev]))%nat with (k - s_n s - 1)%nat in IH by (cbn [s_add s_n length]; lia).
      destruct (Nat.leb (S (length (ptrace k0))) (k - s_n s)) eqn:L.
      * apply Nat.leb_le in L.
        assert (L' : Nat.leb (length (ptrace k0)) (k - s_n s - 1) = true) by (apply Nat.leb_le; lia).
        rewrite L' in IH. rewrite IH. unfold final_out. cbn [pfinal ptrace].
        destruct (pfinal k0) as [[a e]|]; [|reflexivity]. rewrite s_add_add. reflexivity.
      * apply Nat.leb_gt in L.
        assert (L' : Nat.leb (length (ptrace k0)) (k - s_n s - 1) = false) by (apply Nat.leb_gt; lia).
        rewrite L' in IH. destruct IH as [af' IH]. exists af'. rewrite IH. rewrite s_add_add.
        replace (S (k - s_n s)) with (S (S (k - s_n s - 1))) by lia. reflexivity.
    + apply Nat.ltb_ge in E. assert (k - s_n s = 0)%nat as -> by lia.
      cbn [Nat.leb]. exists af. reflexivity.
Qed.

(* representability *)
Definition Rep {A} (f : sink -> out A) : Type := { pr : prog A | forall s, f s = run pr s }.

Lemma Rep_ret : forall A (a : A) e, Rep (fun s => Some (a, s, e)).
Proof. intros A a e. exists (PRet a e). reflexivity. Qed.

Lemma Rep_abort : forall A, Rep (fun _ => @None (A * sink * Z)).
Proof. intros A. exists PAbort. reflexivity. Qed.

Lemma Rep_ext : forall A (f g : sink -> out A), (forall s, f s = g s) -> Rep g -> Rep f.
Proof. intros A f g H [pr Hpr]. exists pr. intros s. rewrite H. apply Hpr. Qed.

Lemma jvis_emit : forall s ev s1 ok, emit s ev = (s1, ok) -> jvis s ev = (s1, if ok then jpnil else jeVisitor).
Proof. intros s ev s1 ok E. unfold jvis. rewrite E. reflexivity. Qed.

(* the visitor call: on failure the function returns at once with the visitor's error *)
Lemma Rep_vis : forall A (f : sink -> out A) ev af (g : sink -> out A),
  (forall s s1, jvis s ev = (s1, jpnil) -> f s = g s1) ->
  (forall s s1, jvis s ev = (s1, jeVisitor) -> f s = Some (af, s1, jeVisitor)) ->
  Rep g -> Rep f.
Proof.
  intros A f ev af g H1 H2 [pr Hpr]. exists (PVis ev af pr). intros s. cbn [run].
  destruct (emit s ev) as [s1 ok] eqn:E. apply jvis_emit in E. destruct ok.
  - rewrite (H1 _ _ E). apply Hpr.
  - apply (H2 _ _ E).
Qed.

(* sequencing: the continuation runs only after a nil error *)
Fixpoint pbind {A B} (pr : prog A) (phi : A -> Z -> B) (K : A -> prog B) : prog B :=
  match pr with
  | PRet a e => if jisnil e then K a else PRet (phi a e) e
  | PAbort => PAbort
  | PVis ev af k => PVis ev (phi af jeVisitor) (pbind k phi K)
  end.

Lemma run_pbind : forall A B (pr : prog A) (phi : A -> Z -> B) K s,
  run (pbind pr phi K) s =
  match run pr s with
  | None => None
  | Some (a, s1, e) => if jisnil e then run (K a) s1 else Some (phi a e, s1, e)
  end.
Proof.
  induction pr as [a e| |ev af k IH]; intros phi K s; cbn [pbind run].
  - destruct (jisnil e); reflexivity.
  - reflexivity.
  - destruct (emit s ev) as [s1 ok]. destruct ok; [apply IH|reflexivity].
Qed.

Lemma Rep_bind : forall A B (g : sink -> out A) (phi : A -> Z -> B) (h : A -> sink -> out B)
  (f : sink -> out B),
  Rep g -> (forall a, Rep (h a)) ->
  (forall s, f s = match g s with
                   | None => None
                   | Some (a, s1, e) => if jisnil e then h a s1 else Some (phi a e, s1, e)
                   end) ->
  Rep f.
Proof.
  intros A B g phi h f [pg Hg] Hh Hf.
  exists (pbind pg phi (fun a => proj1_sig (Hh a))). intros s.
  rewrite Hf, run_pbind, Hg. destruct (run pg s) as [[[a s1] e]|]; [|reflexivity].
  destruct (jisnil e); [|reflexivity]. apply (proj2_sig (Hh a)).
Qed.

Lemma jisnil_true' : forall e, jisnil e = true -> e = jpnil.
Proof. intros e H. apply Z.eqb_eq in H. exact H. Qed.

Lemma Rep_map : forall A B (g : sink -> out A) (phi : A -> Z -> B) (f : sink -> out B),
  Rep g ->
  (forall s, f s = match g s with None => None | Some (a, s1, e) => Some (phi a e, s1, e) end) ->
  Rep f.
Proof.
  intros A B g phi f Hg Hf.
  apply (Rep_bind A B g phi (fun a s => Some (phi a jpnil, s, jpnil)) f Hg).
  - intros a. apply Rep_ret.
  - intros s. rewrite Hf. destruct (g s) as [[[a s1] e]|]; [|reflexivity].
    destruct (jisnil e) eqn:E; [|reflexivity]. apply jisnil_true' in E. subst e. reflexivity.
Qed.

(* ---------- what representability gives ---------- *)
Lemma s_log_add0 : forall f l, s_log (s_add (sink0 f) l) = l.
Proof. intros. unfold s_log, s_add, sink0. cbn [s_rlog]. rewrite app_nil_r. apply rev_involutive. Qed.

Lemma rep_prompt0 : forall A (f : sink -> out A), Rep f -> forall k a s e,
  f (sink0 (Some k)) = Some (a, s, e) ->
  (length (s_log s) <= S k)%nat /\ (length (s_log s) = S k -> e = jeVisitor).
Proof.
  intros A f [pr Hpr] k a s e H. rewrite Hpr in H.
  pose proof (run_fail A pr (sink0 (Some k)) k eq_refl (Nat.le_0_l k)) as R.
  cbn [sink0 s_n] in R. rewrite Nat.sub_0_r in R.
  destruct (Nat.leb (length (ptrace pr)) k) eqn:L.
  - apply Nat.leb_le in L. rewrite R in H. unfold final_out in H.
    destruct (pfinal pr) as [[a' e']|]; [|discriminate]. inversion H; subst.
    change {| s_rlog := []; s_n := 0; s_fail := Some k |} with (sink0 (Some k)).
    rewrite s_log_add0. split; lia.
  - apply Nat.leb_gt in L. destruct R as [af R].
    remember (firstn (S k) (ptrace pr)) as t eqn:Ht.
    rewrite R in H. injection H as Ha Hs He. subst a s e.
    change {| s_rlog := []; s_n := 0; s_fail := Some k |} with (sink0 (Some k)).
    rewrite s_log_add0. split; [|reflexivity]. subst t. rewrite firstn_length. lia.
Qed.

Lemma rep_prefix0 : forall A (f : sink -> out A), Rep f -> forall k a0 s0 e0,
  f (sink0 None) = Some (a0, s0, e0) ->
  exists a s, f (sink0 (Some k)) = Some (a, s, if (length (s_log s0) <=? k)%nat then e0 else jeVisitor) /\
              s_log s = firstn (S k) (s_log s0) /\
              ((length (s_log s0) <= k)%nat -> a = a0).
Proof.
  intros A f [pr Hpr] k a0 s0 e0 H. rewrite Hpr in H. rewrite Hpr.
  rewrite run_nofail in H by reflexivity. unfold final_out in H.
  destruct (pfinal pr) as [[a' e']|] eqn:F; [|discriminate]. inversion H; subst. clear H.
  rewrite s_log_add0.
  pose proof (run_fail A pr (sink0 (Some k)) k eq_refl (Nat.le_0_l k)) as R.
  cbn [sink0 s_n] in R. rewrite Nat.sub_0_r in R.
  change {| s_rlog := []; s_n := 0; s_fail := Some k |} with (sink0 (Some k)) in R.
  destruct (Nat.leb (length (ptrace pr)) k) eqn:L.
  - apply Nat.leb_le in L. rewrite R. unfold final_out. rewrite F.
    eexists _, _. split; [reflexivity|]. rewrite s_log_add0. split; [|reflexivity].
    symmetry. apply firstn_all2. lia.
  - apply Nat.leb_gt in L. destruct R as [af R]. rewrite R.
    eexists _, _. split; [reflexivity|]. rewrite s_log_add0. split; [reflexivity|]. lia.
Qed.

Lemma rep_prompt_gen : forall A (f : sink -> out A), Rep f -> forall s k a s' e,
  s_fail s = Some k -> (s_n s <= k)%nat -> f s = Some (a, s', e) ->
  exists l, s' = s_add s l /\ (s_n s' <= S k)%nat /\ (s_n s' = S k -> e = jeVisitor).
Proof.
  intros A f [pr Hpr] s k a s' e Hs Hn H. rewrite Hpr in H.
  pose proof (run_fail A pr s k Hs Hn) as R.
  destruct (Nat.leb (length (ptrace pr)) (k - s_n s)) eqn:L.
  - apply Nat.leb_le in L. rewrite R in H. unfold final_out in H.
    destruct (pfinal pr) as [[a' e']|]; [|discriminate]. inversion H; subst.
    exists (ptrace pr). split; [reflexivity|]. cbn [s_add s_n]. split; lia.
  - apply Nat.leb_gt in L. destruct R as [af R].
    remember (firstn (S (k - s_n s)) (ptrace pr)) as t eqn:Ht.
    rewrite R in H. inversion H; subst a s' e.
    exists t. split; [reflexivity|]. cbn [s_add s_n].
    assert (length t = S (k - s_n s)) by (subst t; rewrite firstn_length; lia).
    split; [lia|reflexivity].
Qed.

(* ====================================================================== *)
(* Part 1: every parser function is representable (core lemma of C16)     *)
(* ====================================================================== *)

Definition osr (r : jsres) : out (jparser * bytes * bool) :=
  match r with JS p s rest d e => Some ((p, rest, d), s, e) | JCrash _ => None end.

Ltac vred :=
  cbv beta iota zeta;
  change (jisnil jpnil) with true; change (jisnil jeVisitor) with false;
  change (negb true) with false; change (negb false) with true;
  cbv beta iota zeta.

Ltac vis_step :=
  eapply Rep_vis;
  [ let s := fresh "s" in let s1 := fresh "s1" in let E := fresh "E" in
    intros s s1 E; cbv beta; rewrite E; vred; reflexivity
  | let s := fresh "s" in let s1 := fresh "s1" in let E := fresh "E" in
    intros s s1 E; cbv beta; rewrite E; vred; reflexivity
  | cbv beta ].

Lemma Rep_sr : forall p rest d e, Rep (fun s => osr (JS p s rest d e)).
Proof. intros. apply (Rep_ret _ (p, rest, d) e). Qed.
Lemma Rep_crash : forall w, Rep (fun s => osr (JCrash w)).
Proof. intros. apply Rep_abort. Qed.

Ltac brk2 :=
  match goal with
  | |- Rep (fun s => _ (if ?c then _ else _)) => destruct c eqn:?
  | |- Rep (fun s => _ (match ?b with [] => _ | _ :: _ => _ end)) => destruct b
  | |- Rep (fun s => _ (match ?o with Some _ => _ | None => _ end)) => destruct o
  end.

Ltac fin := first [ apply Rep_sr | apply Rep_crash ].
Ltac rep_auto := repeat first [ fin | brk2 | vis_step ].

Section JsonVisitor.
Variable pf : bytes -> option Z.

Definition orn (r : option (sink * Z)) : out unit :=
  match r with Some (s, e) => Some (tt, s, e) | None => None end.

Lemma Rep_rn : forall e, Rep (fun s => orn (Some (s, e))).
Proof. intros. apply (Rep_ret _ tt e). Qed.
Lemma Rep_rn_none : Rep (fun s : sink => orn None).
Proof. apply Rep_abort. Qed.

Lemma report_number_rep : forall b dbl, Rep (fun s => orn (report_number pf s b dbl)).
Proof.
  intros b dbl. unfold report_number.
  destruct dbl.
  - destruct (pf b) as [bits|]; [|apply Rep_rn]. vis_step. apply Rep_rn.
  - destruct b as [|c r]; [apply Rep_rn_none|]. cbv zeta.
    destruct (parse_uint _ 0) as [u|]; [|apply Rep_rn].
    destruct (negb (c =? 45) && (u >? 9223372036854775807)); [vis_step; apply Rep_rn|].
    destruct ((c =? 45) && (u >? 9223372036854775808)); [apply Rep_rn|].
    vis_step. apply Rep_rn.
Qed.

Lemma step_number_rep : forall p b, Rep (fun s => osr (step_number pf p s b)).
Proof.
  intros p b. unfold step_number.
  destruct (scan_number b (jp_isdbl p) 0) as [found dbl]. cbv zeta.
  destruct found as [i|]; [|apply Rep_sr].
  match goal with |- context [report_number pf _ ?tok dbl] =>
    apply (Rep_map _ _ _ (fun _ e => (jpop (jset_lit (jset_isdbl p dbl) []), skipn i b, true)) _
                   (report_number_rep tok dbl)) end.
  intros s. destruct (report_number pf s _ dbl) as [[s1 e]|]; reflexivity.
Qed.

Lemma step_kind_rep : forall p b kind ev, Rep (fun s => osr (step_kind p s b kind ev)).
Proof. intros. unfold step_kind. cbv zeta. rep_auto. Qed.

Lemma step_string_rep : forall p b, Rep (fun s => osr (step_string p s b)).
Proof.
  intros. unfold step_string. destruct (do_string p b) as [p1|p1 content rest|p1|w]; rep_auto.
Qed.

Lemma step_dict_key_rep : forall p b, Rep (fun s => osr (step_dict_key p s b)).
Proof.
  intros. unfold step_dict_key. destruct (do_string p b) as [p1|p1 content rest|p1|w]; rep_auto.
Qed.

Lemma end_container_rep : forall p b ev, Rep (fun s => osr (end_container p s b ev)).
Proof. intros. unfold end_container. rep_auto. Qed.

Lemma step_value_rep : forall p b ret, Rep (fun s => osr (step_value pf p s b ret)).
Proof.
  intros. unfold step_value. destruct (trim_left b) as [|c r]; [apply Rep_sr|]. cbv zeta.
  repeat first [ fin | apply step_kind_rep | apply step_string_rep | apply step_number_rep | brk2 | vis_step ].
Qed.

Lemma step_dict_rep : forall p b ae, Rep (fun s => osr (step_dict p s b ae)).
Proof.
  intros. unfold step_dict. destruct (trim_left b) as [|c r]; [apply Rep_sr|].
  repeat first [ fin | apply end_container_rep | brk2 ].
Qed.

Lemma step_dict_value_end_rep : forall p b, Rep (fun s => osr (step_dict_value_end p s b)).
Proof.
  intros. unfold step_dict_value_end. destruct (trim_left b) as [|c r]; [apply Rep_sr|].
  repeat first [ fin | apply end_container_rep | brk2 ].
Qed.

Lemma step_array_rep : forall p b, Rep (fun s => osr (step_array p s b)).
Proof.
  intros. unfold step_array. destruct (trim_left b) as [|c r]; [apply Rep_sr|].
  repeat first [ fin | apply end_container_rep | brk2 ].
Qed.

Lemma step_arr_value_end_rep : forall p b, Rep (fun s => osr (step_arr_value_end p s b)).
Proof.
  intros. unfold step_arr_value_end. destruct (trim_left b) as [|c r]; [apply Rep_sr|].
  repeat first [ fin | apply end_container_rep | brk2 ].
Qed.

(* Core lemma of C16: one parser step is a straight-line visitor program. *)
Lemma jstep_rep : forall p b, Rep (fun s => osr (jstep pf p s b)).
Proof.
  intros. unfold jstep. cbv zeta.
  repeat (match goal with |- Rep (fun s => _ (if ?c then _ else _)) => destruct c eqn:? end;
    [solve [ repeat first [ fin | apply step_value_rep | apply step_dict_rep | apply step_dict_key_rep
                          | apply step_dict_value_end_rep | apply step_array_rep
                          | apply step_arr_value_end_rep | apply step_kind_rep | apply step_string_rep
                          | apply step_number_rep | brk2 ]
           | (* jArrValue: the reported flag is dropped *)
             apply (Rep_map _ _ _ (fun a _ => (fst (fst a), snd (fst a), false)) _
                      (step_value_rep p b jArrNext));
             intros s; destruct (step_value pf p s b jArrNext); reflexivity ] |]).
  apply Rep_sr.
Qed.

(* ---------- the feed loops ---------- *)
Definition ores (r : res jsres) : out (jparser * bytes * bool) :=
  match r with Ok x => osr x | _ => None end.
Definition orf (r : res (jparser * sink * Z)) : out jparser :=
  match r with Ok (p, s, e) => Some (p, s, e) | _ => None end.

Lemma jfeed_until_rep : forall fuel p b orig, Rep (fun s => ores (jfeed_until fuel pf p s b orig)).
Proof.
  induction fuel as [|f IH]; intros p b orig.
  - apply Rep_abort.
  - cbn [jfeed_until]. destruct (zlen b =? 0); [apply Rep_sr|].
    destruct (jp_cur p =? jFailed) eqn:Ef.
    + apply (Rep_map _ _ _ (fun a _ => (fst (fst a), orig, false)) _ (jstep_rep p b)).
      intros s. destruct (jstep pf p s b); reflexivity.
    + apply (Rep_bind _ _ (fun s => osr (jstep pf p s b)) (fun a _ => a)
               (fun a s => let '(p1, rest, rep) := a in
                  if rep && (zlen (jp_states p1) =? 0) then Some ((p1, rest, true), s, jpnil)
                  else ores (jfeed_until f pf p1 s rest orig))).
      * apply jstep_rep.
      * intros [[p1 rest] rep]. destruct (rep && (zlen (jp_states p1) =? 0)); [apply Rep_ret|apply IH].
      * intros s. destruct (jstep pf p s b) as [p1 s1 rest rep err|w]; [|reflexivity].
        cbn [osr]. destruct (jisnil err) eqn:E; cbn [negb].
        -- apply jisnil_true' in E. subst err.
           destruct (rep && (zlen (jp_states p1) =? 0)); reflexivity.
        -- reflexivity.
Qed.

Lemma jfeed_rep : forall fuel p b, Rep (fun s => orf (jfeed fuel pf p s b)).
Proof.
  induction fuel as [|f IH]; intros p b.
  - apply Rep_abort.
  - cbn [jfeed]. destruct (zlen b >? 0); [|apply Rep_ret].
    apply (Rep_bind _ _ (fun s => ores (jfeed_until (jfeed_fuel b) pf p s b b)) (fun a _ => fst (fst a))
             (fun a s => orf (jfeed f pf (fst (fst a)) s (snd (fst a))))).
    + apply jfeed_until_rep.
    + intros a. apply IH.
    + intros s. destruct (jfeed_until (jfeed_fuel b) pf p s b b) as [[p1 s1 rest d err|w]| | |]; try reflexivity.
      cbn [ores osr fst snd]. destruct (jisnil err); reflexivity.
Qed.

Lemma jp_write_rep : forall p b, Rep (fun s => orf (jp_write pf p s b)).
Proof.
  intros. unfold jp_write.
  apply (Rep_map _ _ _ (fun p1 e => jset_err p1 (if jisnil e then 0 else e)) _ (jfeed_rep (2 * length b + 2) p b)).
  intros s. destruct (jfeed (2 * length b + 2) pf p s b) as [[[p1 s1] e]| | |]; reflexivity.
Qed.

Definition ofin (r : option (jparser * sink * Z)) : out jparser := r.

Lemma jfinalize_rep : forall p, Rep (fun s => ofin (jfinalize pf p s)).
Proof.
  intros p. unfold jfinalize, ofin.
  destruct (jp_cur p =? jNumber).
  - apply (Rep_bind _ _ _ (fun _ _ => p)
             (fun _ s => if (zlen (jp_states (jpop p)) >? 0) && negb (jp_cur (jpop p) =? jStart)
                         then Some (jpop p, s, jeGeneric) else Some (jpop p, s, jpnil))
             _ (report_number_rep (jp_lit p) (jp_isdbl p))).
    + intros _. destruct (_ && _); apply Rep_ret.
    + intros s. destruct (report_number pf s (jp_lit p) (jp_isdbl p)) as [[s1 e]|]; [|reflexivity].
      cbn [orn]. destruct (jisnil e); cbn [negb]; reflexivity.
  - cbn [negb]. destruct (_ && _); apply Rep_ret.
Qed.

Lemma with_final_rep : forall p, Rep (fun s => orf (with_final pf p s)).
Proof.
  intros p. eapply Rep_ext; [|apply (jfinalize_rep p)].
  intros s. unfold with_final, ofin. destruct (jfinalize pf p s) as [[[p1 s1] e]|]; reflexivity.
Qed.

Lemma jp_parse_rep : forall p b, Rep (fun s => orf (jp_parse pf p s b)).
Proof.
  intros. unfold jp_parse. cbv zeta.
  match goal with |- context [jfeed ?n pf ?q _ b] =>
    apply (Rep_bind _ _ _ (fun p1 _ => p1) (fun p1 s => orf (with_final pf p1 s)) _ (jfeed_rep n q b)) end.
  - intros a. apply with_final_rep.
  - intros s.
    match goal with |- context [jfeed ?n pf ?q s b] => destruct (jfeed n pf q s b) as [[[p1 s1] e]| | |] end;
      try reflexivity.
    cbn [orf]. destruct (jisnil e); reflexivity.
Qed.

Lemma jp_writes_rep : forall chunks p, Rep (fun s => orf (jp_writes pf p s chunks)).
Proof.
  induction chunks as [|c r IH]; intros p.
  - apply with_final_rep.
  - cbn [jp_writes].
    apply (Rep_bind _ _ _ (fun p1 _ => p1) (fun p1 s => orf (jp_writes pf p1 s r)) _ (jp_write_rep p c)).
    + intros a. apply IH.
    + intros s. destruct (jp_write pf p s c) as [[[p1 s1] e]| | |]; try reflexivity.
      cbn [orf]. destruct (jisnil e); reflexivity.
Qed.

(* ---------- C16 for the parser ---------- *)
Lemma jrun_chunks_orf : forall v chunks evs e p,
  jrun_chunks pf v chunks = Ok (evs, e, p) <->
  exists s, orf (jp_writes pf jparser0 (sink0 v) chunks) = Some (p, s, e) /\ evs = s_log s.
Proof.
  intros. unfold jrun_chunks. destruct (jp_writes pf jparser0 (sink0 v) chunks) as [[[p' s] e']| | |]; cbn [orf].
  - split.
    + intros H. inversion H; subst. eauto.
    + intros (s' & H & ->). inversion H; subst. reflexivity.
  - split; [discriminate|]. intros (s' & H & _). discriminate.
  - split; [discriminate|]. intros (s' & H & _). discriminate.
  - split; [discriminate|]. intros (s' & H & _). discriminate.
Qed.

Lemma jrun_parse_orf : forall v b evs e p,
  jrun_parse pf v b = Ok (evs, e, p) <->
  exists s, orf (jp_parse pf jparser0 (sink0 v) b) = Some (p, s, e) /\ evs = s_log s.
Proof.
  intros. unfold jrun_parse. destruct (jp_parse pf jparser0 (sink0 v) b) as [[[p' s] e']| | |]; cbn [orf].
  - split.
    + intros H. inversion H; subst. eauto.
    + intros (s' & H & ->). inversion H; subst. reflexivity.
  - split; [discriminate|]. intros (s' & H & _). discriminate.
  - split; [discriminate|]. intros (s' & H & _). discriminate.
  - split; [discriminate|]. intros (s' & H & _). discriminate.
Qed.

(* no event is delivered after the failing one, and its error is returned unchanged *)
Theorem C16_json_parse_prompt : forall k chunks evs e p,
  jrun_chunks pf (Some k) chunks = Ok (evs, e, p) ->
  (length evs <= S k)%nat /\ (length evs = S k -> e = jeVisitor).
Proof.
  intros k chunks evs e p H. apply jrun_chunks_orf in H. destruct H as (s & H & ->).
  exact (rep_prompt0 _ _ (jp_writes_rep chunks jparser0) k p s e H).
Qed.

(* the failing run is determined by the unfailing one: it delivers exactly the
   first k+1 events, and returns the visitor's error iff the unfailing run has
   more than k events (otherwise the same verdict and the same final parser) *)
Theorem C16_json_parse_fail_spec : forall k chunks evs0 e0 p0,
  jrun_chunks pf None chunks = Ok (evs0, e0, p0) ->
  exists p, jrun_chunks pf (Some k) chunks =
              Ok (firstn (S k) evs0, (if (length evs0 <=? k)%nat then e0 else jeVisitor), p) /\
            ((length evs0 <= k)%nat -> p = p0).
Proof.
  intros k chunks evs0 e0 p0 H. apply jrun_chunks_orf in H. destruct H as (s0 & H & ->).
  destruct (rep_prefix0 _ _ (jp_writes_rep chunks jparser0) k p0 s0 e0 H) as (a & s & H1 & H2 & H3).
  exists a. split; [|exact H3]. apply jrun_chunks_orf. exists s. split; [exact H1|]. symmetry. exact H2.
Qed.

Theorem C16_json_parse_prefix : forall k chunks evs e p evs0 e0 p0,
  jrun_chunks pf (Some k) chunks = Ok (evs, e, p) -> jrun_chunks pf None chunks = Ok (evs0, e0, p0) ->
  evs = firstn (S k) evs0 /\ e = (if (length evs0 <=? k)%nat then e0 else jeVisitor).
Proof.
  intros k chunks evs e p evs0 e0 p0 H H0.
  destruct (C16_json_parse_fail_spec k chunks evs0 e0 p0 H0) as (p' & H1 & _).
  rewrite H1 in H. inversion H. split; reflexivity.
Qed.

Theorem C16_json_run_parse_prompt : forall k b evs e p,
  jrun_parse pf (Some k) b = Ok (evs, e, p) ->
  (length evs <= S k)%nat /\ (length evs = S k -> e = jeVisitor).
Proof.
  intros k b evs e p H. apply jrun_parse_orf in H. destruct H as (s & H & ->).
  exact (rep_prompt0 _ _ (jp_parse_rep jparser0 b) k p s e H).
Qed.

Theorem C16_json_run_parse_fail_spec : forall k b evs0 e0 p0,
  jrun_parse pf None b = Ok (evs0, e0, p0) ->
  exists p, jrun_parse pf (Some k) b =
              Ok (firstn (S k) evs0, (if (length evs0 <=? k)%nat then e0 else jeVisitor), p) /\
            ((length evs0 <= k)%nat -> p = p0).
Proof.
  intros k b evs0 e0 p0 H. apply jrun_parse_orf in H. destruct H as (s0 & H & ->).
  destruct (rep_prefix0 _ _ (jp_parse_rep jparser0 b) k p0 s0 e0 H) as (a & s & H1 & H2 & H3).
  exists a. split; [|exact H3]. apply jrun_parse_orf. exists s. split; [exact H1|]. symmetry. exact H2.
Qed.

Theorem C16_json_run_parse_prefix : forall k b evs e p evs0 e0 p0,
  jrun_parse pf (Some k) b = Ok (evs, e, p) -> jrun_parse pf None b = Ok (evs0, e0, p0) ->
  evs = firstn (S k) evs0 /\ e = (if (length evs0 <=? k)%nat then e0 else jeVisitor).
Proof.
  intros k b evs e p evs0 e0 p0 H H0.
  destruct (C16_json_run_parse_fail_spec k b evs0 e0 p0 H0) as (p' & H1 & _).
  rewrite H1 in H. inversion H. split; reflexivity.
Qed.

(* with totality (C03): the failing run is the truncated unfailing run *)
Theorem C16_json_parse_total_prefix : forall k chunks,
  exists evs0 e0 p0 p,
    jrun_chunks pf None chunks = Ok (evs0, e0, p0) /\
    jrun_chunks pf (Some k) chunks =
      Ok (firstn (S k) evs0, (if (length evs0 <=? k)%nat then e0 else jeVisitor), p).
Proof.
  intros k chunks. destruct (C03_json_chunks_total_any pf None chunks) as (evs0 & e0 & p0 & H0).
  destruct (C16_json_parse_fail_spec k chunks evs0 e0 p0 H0) as (p & H & _).
  exists evs0, e0, p0, p. auto.
Qed.


(* ====================================================================== *)
(* Part 2: C17 - the state after an accepted input.  The state stack is   *)
(* well formed: jStart at the bottom and nowhere else; the literal buffer *)
(* and the escape flag are only in use inside strings, keys and numbers.  *)
(* Every step delivers at most one event; a step that reports a value     *)
(* delivers exactly one.                                                  *)
(* ====================================================================== *)

Ltac jpsimp := cbn [jpush jp_cur jp_states jp_lit jp_inesc jp_isdbl jp_req jp_err
                    jset_cur jset_lit jset_inesc jset_isdbl jset_req jset_err] in *.

Fixpoint wfs (c : Z) (l : list Z) : Prop :=
  match l with
  | [] => c = jStart
  | d :: r => 2 <= c <= 15 /\ wfs d r
  end.

Definition W (p : jparser) : Prop :=
  wfs (jp_cur p) (jp_states p) /\
  (jp_inesc p = true -> jp_cur p = jString \/ jp_cur p = jDictField) /\
  (jp_lit p <> [] -> jp_cur p = jString \/ jp_cur p = jDictField \/ jp_cur p = jNumber).

Lemma wfs_nonempty : forall c l, wfs c l -> c <> jStart -> l <> [].
Proof. intros c [|d r] H Hc; [contradiction|discriminate]. Qed.

Lemma wfs_start : forall l, wfs jStart l -> l = [].
Proof. intros [|d r] H; [reflexivity|]. cbn [wfs] in H. ust. lia. Qed.

Lemma wfs_retop : forall c c' l, wfs c l -> l <> [] -> 2 <= c' <= 15 -> wfs c' l.
Proof. intros c c' [|d r] H Hl Hc; [congruence|]. cbn [wfs] in *. split; [exact Hc|apply H]. Qed.

Lemma wfs_range : forall c l, wfs c l -> 1 <= c <= 15.
Proof. intros c [|d r] H; cbn [wfs] in H; ust; lia. Qed.

Lemma W0 : W jparser0.
Proof. unfold W, jparser0; jsimp. split; [reflexivity|]. split; [discriminate|congruence]. Qed.

(* the outcome of a step: the events it delivered, the invariant, and what the
   "reported" flag means; st0 is the state stack the step (or its leaf) started from *)
Definition Cres (st0 : list Z) (s : sink) (r : jsres) : Prop :=
  match r with
  | JCrash _ => True
  | JS p1 s1 rest rep e =>
      exists l, s1 = s_add s l /\ (length l <= 1)%nat /\
      (e = jpnil -> W p1 /\ (rep = true -> l <> [] /\ jp_states p1 = tl st0) /\
                    (rep = false -> l <> [] -> jp_states p1 <> []))
  end.

Lemma jvis_add : forall s ev, exists e, jvis s ev = (s_add s [ev], e).
Proof. intros s ev. unfold jvis. rewrite emit_spec. eexists. reflexivity. Qed.

Lemma Cres_err : forall st0 s p1 rest rep e, e <> jpnil -> Cres st0 s (JS p1 s rest rep e).
Proof.
  intros. cbn [Cres]. exists []. rewrite s_add_nil. split; [reflexivity|]. split; [cbn; lia|]. intros; contradiction.
Qed.

Lemma Cres_silent : forall st0 s p1 rest, W p1 -> Cres st0 s (JS p1 s rest false jpnil).
Proof.
  intros. cbn [Cres]. exists []. rewrite s_add_nil. split; [reflexivity|]. split; [cbn; lia|]. intros _.
  split; [assumption|]. split; [discriminate|]. intros _ Hl. contradiction.
Qed.

Lemma jpop_W : forall p, W p -> jp_states p <> [] -> jp_inesc p = false -> jp_lit p = [] ->
  W (jpop p) /\ jp_states (jpop p) = tl (jp_states p).
Proof.
  intros p (Hw & _ & _) Hs Hi Hl. unfold jpop. destruct (jp_states p) as [|d r] eqn:E; [congruence|].
  cbn [wfs] in Hw. unfold W; jsimp. split; [|reflexivity].
  split; [apply Hw|]. split; [congruence|]. intros H. congruence.
Qed.

(* one event, value reported, parser popped *)
Lemma Cres_report : forall s ev q rest,
  W q -> jp_states q <> [] -> jp_inesc q = false -> jp_lit q = [] ->
  Cres (jp_states q) s (let '(s1, e) := jvis s ev in JS (jpop q) s1 rest true e).
Proof.
  intros s ev q rest Hw Hs Hi Hl. destruct (jvis_add s ev) as [e ->]. cbn [Cres].
  exists [ev]. split; [reflexivity|]. split; [cbn; lia|]. intros _.
  destruct (jpop_W q Hw Hs Hi Hl) as [H1 H2].
  split; [exact H1|]. split; [intros _; split; [discriminate|exact H2]|discriminate].
Qed.

(* one event, nothing reported, the stack is not empty *)
Lemma Cres_event : forall st0 s ev q rest,
  W q -> jp_states q <> [] ->
  Cres st0 s (let '(s1, e) := jvis s ev in JS q s1 rest false e).
Proof.
  intros st0 s ev q rest Hw Hs. destruct (jvis_add s ev) as [e ->]. cbn [Cres].
  exists [ev]. split; [reflexivity|]. split; [cbn; lia|]. intros _.
  split; [exact Hw|]. split; [discriminate|]. intros _ _. exact Hs.
Qed.

Lemma scan_quote_found : forall buf e i j e', scan_quote buf e i = (Some j, e') -> e' = false.
Proof.
  induction buf as [|c r IH]; intros e i j e'; cbn [scan_quote]; [discriminate|].
  destruct e; [apply IH|]. destruct (c =? 34); [intros [= _ <-]; reflexivity|].
  destruct (c =? 92); apply IH.
Qed.

Lemma do_string_W : forall p b,
  match do_string p b with
  | DSMore p1 => jp_cur p1 = jp_cur p /\ jp_states p1 = jp_states p
  | DSDone p1 _ _ => jp_cur p1 = jp_cur p /\ jp_states p1 = jp_states p /\ jp_lit p1 = [] /\ jp_inesc p1 = false
  | _ => True
  end.
Proof.
  intros p b. unfold do_string.
  destruct (if zlen (jp_lit p) =? 0 then _ else _) as [buf|]; [|exact I].
  destruct (scan_quote buf (jp_inesc p) 0) as [found inesc] eqn:Es.
  destruct found as [i|]; jsimp.
  - apply scan_quote_found in Es. subst inesc.
    destruct (zlen _ <? 2); [exact I|]. destruct (unquote _); jsimp; auto.
  - jsimp. auto.
Qed.

Lemma W_same_ctl : forall p p1,
  jp_cur p1 = jp_cur p -> jp_states p1 = jp_states p -> W p ->
  jp_cur p = jString \/ jp_cur p = jDictField \/ (jp_inesc p1 = false /\ jp_lit p1 = []) -> W p1.
Proof.
  intros p p1 Hc Hs (Hw & Hi & Hl) H. unfold W. rewrite Hc, Hs. split; [exact Hw|].
  destruct H as [H|[H|[H1 H2]]].
  - split; intros _; auto.
  - split; intros _; auto.
  - split; intros K; congruence.
Qed.

Lemma step_string_C : forall p s b,
  W p -> jp_cur p = jString -> jp_states p <> [] ->
  Cres (jp_states p) s (step_string p s b).
Proof.
  intros p s b Hw Hc Hs. unfold step_string. pose proof (do_string_W p b) as D.
  destruct (do_string p b) as [p1|p1 content rest|p1|w]; [| | |exact I].
  - destruct D as [D1 D2]. apply Cres_silent. eapply W_same_ctl; eauto.
  - destruct D as (D1 & D2 & D3 & D4). rewrite <- D2. apply Cres_report; try congruence.
    eapply W_same_ctl; eauto.
  - apply Cres_err. ust; lia.
Qed.

Lemma step_dict_key_C : forall p s b,
  W p -> jp_cur p = jDictField -> jp_states p <> [] ->
  Cres (jp_states p) s (step_dict_key p s b).
Proof.
  intros p s b Hw Hc Hs. unfold step_dict_key. pose proof (do_string_W p b) as D.
  destruct (do_string p b) as [p1|p1 content rest|p1|w]; [| | |exact I].
  - destruct D as [D1 D2]. apply Cres_silent. eapply W_same_ctl; eauto.
  - destruct D as (D1 & D2 & D3 & D4). apply Cres_event; [|jsimp; congruence].
    destruct Hw as (Hw & _ & _). unfold W; jsimp. rewrite D2, D3, D4.
    split; [eapply wfs_retop; eauto; ust; lia|]. split; congruence.
  - apply Cres_err. ust; lia.
Qed.

Lemma report_number_add : forall s b dbl s1 e, report_number pf s b dbl = Some (s1, e) ->
  exists l, s1 = s_add s l /\ (length l <= 1)%nat /\ (e = jpnil -> l <> []).
Proof.
  intros s b dbl s1 e. unfold report_number.
  assert (G : forall ev, (let '(s2, e2) := jvis s ev in Some (s2, e2)) = Some (s1, e) ->
              exists l, s1 = s_add s l /\ (length l <= 1)%nat /\ (e = jpnil -> l <> [])).
  { intros ev. destruct (jvis_add s ev) as [e2 ->]. intros [= <- <-].
    exists [ev]. split; [reflexivity|]. split; [cbn; lia|discriminate]. }
  assert (G0 : Some (s, jeGeneric) = Some (s1, e) ->
              exists l, s1 = s_add s l /\ (length l <= 1)%nat /\ (e = jpnil -> l <> [])).
  { intros [= <- <-]. exists []. rewrite s_add_nil. split; [reflexivity|]. split; [cbn; lia|]. ust; lia. }
  destruct dbl.
  - destruct (pf b); [apply G|apply G0].
  - destruct b as [|c r]; [discriminate|].
    destruct (parse_uint _ _); [|apply G0].
    destruct (_ && _); [apply G|]. destruct (_ && _); [apply G0|apply G].
Qed.

Lemma step_number_C : forall p s b,
  W p -> jp_cur p = jNumber -> jp_states p <> [] ->
  Cres (jp_states p) s (step_number pf p s b).
Proof.
  intros p s b Hw Hc Hs. unfold step_number.
  destruct (scan_number b (jp_isdbl p) 0) as [found dbl].
  assert (Hi : jp_inesc p = false).
  { destruct Hw as (_ & Hi & _). destruct (jp_inesc p); [|reflexivity].
    destruct (Hi eq_refl) as [K|K]; rewrite Hc in K; discriminate K. }
  destruct found as [i|]; jsimp.
  - destruct (report_number pf s _ dbl) as [[s1 e]|] eqn:Er; [|exact I].
    destruct (report_number_add _ _ _ _ _ Er) as (l & -> & Hl1 & Hl2). cbn [Cres].
    exists l. split; [reflexivity|]. split; [exact Hl1|]. intros He.
    destruct (jpop_W (jset_lit (jset_isdbl p dbl) [])) as [H1 H2]; jsimp; auto.
    { destruct Hw as (Hw & _ & _). unfold W; jsimp. split; [exact Hw|]. split; congruence. }
    split; [exact H1|]. split; [intros _; split; [auto|exact H2]|discriminate].
  - apply Cres_silent. destruct Hw as (Hw & _ & _). unfold W; jsimp.
    split; [exact Hw|]. split; [congruence|auto].
Qed.

Lemma step_kind_C : forall p s b kind ev,
  W p -> jp_states p <> [] -> jp_inesc p = false -> jp_lit p = [] ->
  Cres (jp_states p) s (step_kind p s b kind ev).
Proof.
  intros p s b kind ev Hw Hs Hi Hl. unfold step_kind.
  destruct (_ || _); [exact I|]. cbv zeta.
  destruct (negb (zlen b <? jp_req p)) eqn:Ed.
  - destruct (negb (has_prefix _ _)); [apply Cres_err; ust; lia|].
    apply Cres_report; assumption.
  - destruct (negb (has_prefix _ _)); [apply Cres_err; ust; lia|].
    apply Cres_silent. destruct Hw as (Hw & Hw2 & Hw3). unfold W; jsimp. auto.
Qed.

Lemma end_container_C : forall p s b ev,
  W p -> jp_states p <> [] -> jp_inesc p = false -> jp_lit p = [] ->
  Cres (jp_states p) s (end_container p s b ev).
Proof.
  intros p s b ev Hw Hs Hi Hl. unfold end_container. destruct b as [|c r]; [exact I|].
  apply Cres_report; assumption.
Qed.

(* W-facts in states that are not string / key / number states *)
Lemma W_plain : forall p, W p ->
  jp_cur p <> jString -> jp_cur p <> jDictField -> jp_cur p <> jNumber ->
  jp_inesc p = false /\ jp_lit p = [].
Proof.
  intros p (_ & Hi & Hl) H1 H2 H3. split.
  - destruct (jp_inesc p); [|reflexivity]. destruct (Hi eq_refl); contradiction.
  - destruct (jp_lit p) as [|x l]; [reflexivity|].
    destruct Hl as [K|[K|K]]; [discriminate|contradiction..].
Qed.

Lemma W_set_cur : forall p c, W p -> jp_states p <> [] -> 2 <= c <= 15 ->
  jp_inesc p = false -> jp_lit p = [] -> W (jset_cur p c).
Proof.
  intros p c (Hw & _ & _) Hs Hc Hi Hl. unfold W; jsimp.
  split; [eapply wfs_retop; eauto|]. split; congruence.
Qed.

Lemma step_value_C : forall p s b ret,
  W p -> wfs ret (jp_states p) -> jp_inesc p = false -> jp_lit p = [] ->
  Cres (ret :: jp_states p) s (step_value pf p s b ret).
Proof.
  intros p s b ret Hw Hret Hi Hl. unfold step_value.
  destruct (trim_left b) as [|c r]; [apply Cres_silent; exact Hw|]. cbv zeta.
  assert (Hne : (ret =? jFailed) = false) by (apply wfs_range in Hret; ust; lia).
  (* the parser after pushing the state [nx] *)
  assert (Hpush : forall nx (q : jparser), 2 <= nx <= 15 ->
            jp_cur q = nx -> jp_states q = ret :: jp_states p ->
            (jp_inesc q = false) -> (jp_lit q = []) -> W q /\ jp_states q <> []).
  { intros nx q Hnx Hc Hs Hqi Hql. split; [|rewrite Hs; discriminate].
    unfold W. rewrite Hc, Hs, Hqi, Hql. cbn [wfs]. split; [auto|]. split; congruence. }
  destruct (c =? 123).
  { apply Cres_event; apply (Hpush jDict); jpsimp; rewrite ?Hne; auto; ust; lia. }
  destruct (c =? 91).
  { apply Cres_event; apply (Hpush jArr); jpsimp; rewrite ?Hne; auto; ust; lia. }
  destruct (c =? 110).
  { match goal with |- Cres _ _ (step_kind ?q _ _ _ _) =>
      destruct (Hpush jNull q) as [H1 H2]; jpsimp; rewrite ?Hne; auto; [ust; lia|];
      replace (ret :: jp_states p) with (jp_states q) by (jpsimp; rewrite Hne; reflexivity);
      apply step_kind_C; auto end. }
  destruct (c =? 102).
  { match goal with |- Cres _ _ (step_kind ?q _ _ _ _) =>
      destruct (Hpush jFalse q) as [H1 H2]; jpsimp; rewrite ?Hne; auto; [ust; lia|];
      replace (ret :: jp_states p) with (jp_states q) by (jpsimp; rewrite Hne; reflexivity);
      apply step_kind_C; auto end. }
  destruct (c =? 116).
  { match goal with |- Cres _ _ (step_kind ?q _ _ _ _) =>
      destruct (Hpush jTrue q) as [H1 H2]; jpsimp; rewrite ?Hne; auto; [ust; lia|];
      replace (ret :: jp_states p) with (jp_states q) by (jpsimp; rewrite Hne; reflexivity);
      apply step_kind_C; auto end. }
  destruct (c =? 34).
  { match goal with |- Cres _ _ (step_string ?q _ _) =>
      destruct (Hpush jString q) as [H1 H2]; jpsimp; rewrite ?Hne; auto; [ust; lia|];
      replace (ret :: jp_states p) with (jp_states q) by (jpsimp; rewrite Hne; reflexivity);
      apply step_string_C; auto end. }
  destruct (_ || _).
  { match goal with |- Cres _ _ (step_number pf ?q _ _) =>
      destruct (Hpush jNumber q) as [H1 H2]; jpsimp; rewrite ?Hne; auto; [ust; lia|];
      replace (ret :: jp_states p) with (jp_states q) by (jpsimp; rewrite Hne; reflexivity);
      apply step_number_C; auto end. }
  apply Cres_err. ust; lia.
Qed.

Lemma Cres_st0 : forall st0 st1 s r,
  (match r with JS _ _ _ rep e => e = jpnil -> rep = true -> tl st0 = tl st1 | _ => True end) ->
  Cres st0 s r -> Cres st1 s r.
Proof.
  intros st0 st1 s [p1 s1 rest rep e|w] H; cbn [Cres]; [|auto].
  intros (l & Hl1 & Hl2 & Hl3). exists l. split; [exact Hl1|]. split; [exact Hl2|].
  intros He. destruct (Hl3 He) as (A & B & C). split; [exact A|]. split; [|exact C].
  intros Hr. destruct (B Hr) as [B1 B2]. split; [exact B1|]. rewrite B2. apply H; assumption.
Qed.

(* one step: at most one event; the invariant; the meaning of "reported" *)
Lemma jstep_C : forall p s b, W p ->
  match jstep pf p s b with
  | JCrash _ => True
  | JS p1 s1 rest rep e =>
      exists l, s1 = s_add s l /\ (length l <= 1)%nat /\
      (e = jpnil -> W p1 /\ (rep = true -> l <> []) /\
                    (rep = false -> l <> [] -> jp_states p1 <> []))
  end.
Proof.
  intros p s b Hw.
  assert (G : forall st0, Cres st0 s (jstep pf p s b) ->
    match jstep pf p s b with
    | JCrash _ => True
    | JS p1 s1 rest rep e =>
        exists l, s1 = s_add s l /\ (length l <= 1)%nat /\
        (e = jpnil -> W p1 /\ (rep = true -> l <> []) /\ (rep = false -> l <> [] -> jp_states p1 <> []))
    end).
  { intros st0 H. destruct (jstep pf p s b) as [p1 s1 rest rep e|w]; [|exact I].
    destruct H as (l & H1 & H2 & H3). exists l. split; [exact H1|]. split; [exact H2|].
    intros He. destruct (H3 He) as (A & B & C). split; [exact A|]. split; [|exact C].
    intros Hr. apply B. exact Hr. }
  pose proof Hw as (Hwf & _ & _). pose proof (wfs_range _ _ Hwf) as Hrg.
  destruct (cur_cases (jp_cur p)) as
    [Hc|[Hc|[Hc|[Hc|[Hc|[Hc|[Hc|[Hc|[Hc|[Hc|[Hc|[Hc|[Hc|[Hc|[Hc|[Hc|Hc]]]]]]]]]]]]]]]];
    try (exfalso; ust; lia).
  - (* jStart *)
    assert (Hs : jp_states p = []) by (apply wfs_start; rewrite <- Hc; exact Hwf).
    destruct (W_plain p Hw) as [Hi Hl]; try (rewrite Hc; discriminate).
    apply (G (jStart :: jp_states p)). rewrite (jstep_start pf p s b Hc).
    apply step_value_C; auto. rewrite Hs. reflexivity.
  - (* jArr *)
    assert (Hs : jp_states p <> []) by (apply (wfs_nonempty _ _ Hwf); rewrite Hc; discriminate).
    destruct (W_plain p Hw) as [Hi Hl]; try (rewrite Hc; discriminate).
    apply (G (jp_states p)). rewrite (jstep_arr pf p s b Hc). unfold step_array.
    destruct (trim_left b) as [|c r]; [apply Cres_silent; exact Hw|].
    destruct (c =? 93); [apply end_container_C; auto|].
    apply Cres_silent. apply W_set_cur; auto. ust; lia.
  - (* jArrValue *)
    assert (Hs : jp_states p <> []) by (apply (wfs_nonempty _ _ Hwf); rewrite Hc; discriminate).
    destruct (W_plain p Hw) as [Hi Hl]; try (rewrite Hc; discriminate).
    rewrite (jstep_arrvalue pf p s b Hc).
    pose proof (step_value_C p s b jArrNext Hw) as H.
    destruct (step_value pf p s b jArrNext) as [p1 s1 rest rep e|w]; [|exact I].
    destruct H as (l & H1 & H2 & H3); auto.
    { eapply wfs_retop; eauto. ust; lia. }
    exists l. split; [exact H1|]. split; [exact H2|]. intros He.
    destruct (H3 He) as (A & B & C). split; [exact A|]. split; [discriminate|].
    intros _ Hl0. destruct rep; [|apply C; auto].
    destruct (B eq_refl) as [_ B2]. rewrite B2. exact Hs.
  - (* jArrNext *)
    assert (Hs : jp_states p <> []) by (apply (wfs_nonempty _ _ Hwf); rewrite Hc; discriminate).
    destruct (W_plain p Hw) as [Hi Hl]; try (rewrite Hc; discriminate).
    apply (G (jp_states p)). rewrite (jstep_arrnext pf p s b Hc). unfold step_arr_value_end.
    destruct (trim_left b) as [|c r]; [apply Cres_silent; exact Hw|].
    destruct (c =? 93); [apply end_container_C; auto|].
    destruct (c =? 44); [|apply Cres_err; ust; lia].
    apply Cres_silent. apply W_set_cur; auto. ust; lia.
  - (* jDict *)
    assert (Hs : jp_states p <> []) by (apply (wfs_nonempty _ _ Hwf); rewrite Hc; discriminate).
    destruct (W_plain p Hw) as [Hi Hl]; try (rewrite Hc; discriminate).
    apply (G (jp_states p)). rewrite (jstep_dict pf p s b Hc). unfold step_dict.
    destruct (trim_left b) as [|c r]; [apply Cres_silent; exact Hw|].
    destruct (c =? 125); [cbn [negb]; apply end_container_C; auto|].
    destruct (c =? 34); [|apply Cres_err; ust; lia].
    apply Cres_silent. apply W_set_cur; auto. ust; lia.
  - (* jDictField *)
    assert (Hs : jp_states p <> []) by (apply (wfs_nonempty _ _ Hwf); rewrite Hc; discriminate).
    apply (G (jp_states p)). rewrite (jstep_dictfield pf p s b Hc). apply step_dict_key_C; auto.
  - (* jDictNextField *)
    assert (Hs : jp_states p <> []) by (apply (wfs_nonempty _ _ Hwf); rewrite Hc; discriminate).
    destruct (W_plain p Hw) as [Hi Hl]; try (rewrite Hc; discriminate).
    apply (G (jp_states p)). rewrite (jstep_dictnext pf p s b Hc). unfold step_dict.
    destruct (trim_left b) as [|c r]; [apply Cres_silent; exact Hw|].
    destruct (c =? 125); [cbn [negb]; apply Cres_err; ust; lia|].
    destruct (c =? 34); [|apply Cres_err; ust; lia].
    apply Cres_silent. apply W_set_cur; auto. ust; lia.
  - (* jDictFieldValue *)
    assert (Hs : jp_states p <> []) by (apply (wfs_nonempty _ _ Hwf); rewrite Hc; discriminate).
    destruct (W_plain p Hw) as [Hi Hl]; try (rewrite Hc; discriminate).
    apply (G (jDictFieldStateEnd :: jp_states p)). rewrite (jstep_dictvalue pf p s b Hc).
    apply step_value_C; auto. eapply wfs_retop; eauto. ust; lia.
  - (* jDictFieldValueSep *)
    assert (Hs : jp_states p <> []) by (apply (wfs_nonempty _ _ Hwf); rewrite Hc; discriminate).
    destruct (W_plain p Hw) as [Hi Hl]; try (rewrite Hc; discriminate).
    apply (G (jp_states p)). rewrite (jstep_sep pf p s b Hc).
    destruct (trim_left b) as [|x r]; [apply Cres_silent; exact Hw|].
    destruct (x =? 58); [|apply Cres_err; ust; lia].
    apply Cres_silent. apply W_set_cur; auto. ust; lia.
  - (* jDictFieldStateEnd *)
    assert (Hs : jp_states p <> []) by (apply (wfs_nonempty _ _ Hwf); rewrite Hc; discriminate).
    destruct (W_plain p Hw) as [Hi Hl]; try (rewrite Hc; discriminate).
    apply (G (jp_states p)). rewrite (jstep_dictend pf p s b Hc). unfold step_dict_value_end.
    destruct (trim_left b) as [|c r]; [apply Cres_silent; exact Hw|].
    destruct (c =? 125); [apply end_container_C; auto|].
    destruct (c =? 44); [|apply Cres_err; ust; lia].
    apply Cres_silent. apply W_set_cur; auto. ust; lia.
  - (* jNull *)
    assert (Hs : jp_states p <> []) by (apply (wfs_nonempty _ _ Hwf); rewrite Hc; discriminate).
    destruct (W_plain p Hw) as [Hi Hl]; try (rewrite Hc; discriminate).
    apply (G (jp_states p)). rewrite (jstep_null pf p s b Hc). apply step_kind_C; auto.
  - (* jTrue *)
    assert (Hs : jp_states p <> []) by (apply (wfs_nonempty _ _ Hwf); rewrite Hc; discriminate).
    destruct (W_plain p Hw) as [Hi Hl]; try (rewrite Hc; discriminate).
    apply (G (jp_states p)). rewrite (jstep_true pf p s b Hc). apply step_kind_C; auto.
  - (* jFalse *)
    assert (Hs : jp_states p <> []) by (apply (wfs_nonempty _ _ Hwf); rewrite Hc; discriminate).
    destruct (W_plain p Hw) as [Hi Hl]; try (rewrite Hc; discriminate).
    apply (G (jp_states p)). rewrite (jstep_false pf p s b Hc). apply step_kind_C; auto.
  - (* jString *)
    assert (Hs : jp_states p <> []) by (apply (wfs_nonempty _ _ Hwf); rewrite Hc; discriminate).
    apply (G (jp_states p)). rewrite (jstep_string pf p s b Hc). apply step_string_C; auto.
  - (* jNumber *)
    assert (Hs : jp_states p <> []) by (apply (wfs_nonempty _ _ Hwf); rewrite Hc; discriminate).
    apply (G (jp_states p)). rewrite (jstep_number pf p s b Hc). apply step_number_C; auto.
Qed.

Lemma jstep_W : forall p s b p1 s1 rest rep, W p -> jstep pf p s b = JS p1 s1 rest rep jpnil -> W p1.
Proof.
  intros p s b p1 s1 rest rep Hw H. pose proof (jstep_C p s b Hw) as C. rewrite H in C.
  destruct C as (l & _ & _ & C). apply C. reflexivity.
Qed.

Lemma W_notfailed : forall p, W p -> (jp_cur p =? jFailed) = false.
Proof. intros p (Hw & _). apply wfs_range in Hw. ust. lia. Qed.

Lemma jfeed_until_W : forall fuel p s b orig p' s' r d e,
  W p -> jfeed_until fuel pf p s b orig = Ok (JS p' s' r d e) -> e = jpnil -> W p'.
Proof.
  induction fuel as [|f IH]; intros p s b orig p' s' r d e Hw H He; [discriminate|].
  cbn [jfeed_until] in H.
  destruct (zlen b =? 0); [inversion H; subst; exact Hw|].
  destruct (jstep pf p s b) as [p1 s1 rest rep err|w] eqn:Hx; [|discriminate].
  rewrite (W_notfailed p Hw) in H.
  destruct (jisnil err) eqn:Ee; cbn [negb] in H.
  - apply jisnil_true' in Ee. subst err. pose proof (jstep_W _ _ _ _ _ _ _ Hw Hx) as Hw1.
    destruct (rep && (zlen (jp_states p1) =? 0)).
    + inversion H; subst. exact Hw1.
    + eapply IH; eauto.
  - inversion H; subst. vm_compute in Ee. discriminate Ee.
Qed.

Lemma jfeed_W : forall fuel p s b p' s' e,
  W p -> jfeed fuel pf p s b = Ok (p', s', e) -> e = jpnil -> W p'.
Proof.
  induction fuel as [|f IH]; intros p s b p' s' e Hw H He; [discriminate|].
  cbn [jfeed] in H. destruct (zlen b >? 0); [|inversion H; subst; exact Hw].
  destruct (jfeed_until (jfeed_fuel b) pf p s b b) as [[p1 s1 rest d err|w]| | |] eqn:Hf; try discriminate.
  destruct (jisnil err) eqn:Ee.
  - apply jisnil_true' in Ee. subst err.
    pose proof (jfeed_until_W _ _ _ _ _ _ _ _ _ _ Hw Hf eq_refl) as Hw1. eapply IH; eauto.
  - inversion H; subst. vm_compute in Ee. discriminate Ee.
Qed.

Lemma W_set_err : forall p e, W p -> W (jset_err p e).
Proof. intros p e H. exact H. Qed.

Lemma jp_write_W : forall p s b p' s' e,
  W p -> jp_write pf p s b = Ok (p', s', e) -> e = jpnil -> W p'.
Proof.
  intros p s b p' s' e Hw H He. unfold jp_write in H.
  destruct (jfeed (2 * length b + 2) pf p s b) as [[[p1 s1] err]| | |] eqn:Hf; try discriminate.
  inversion H; subst. apply W_set_err. eapply jfeed_W; eauto.
Qed.

(* what the parser looks like between two top-level values *)
Definition idle (p : jparser) : Prop :=
  jp_cur p = jStart /\ jp_states p = [] /\ jp_inesc p = false.

Lemma idle_W : forall p, idle p -> jp_lit p = [] -> W p.
Proof.
  intros p (H1 & H2 & H3) H4. unfold W. rewrite H1, H2, H3, H4.
  split; [reflexivity|]. split; [discriminate|congruence].
Qed.

(* finalize accepts only at the top level; a pending top-level number is reported and
   popped, but its literal stays in the buffer *)
Lemma jfinalize_idle : forall p s p' s',
  W p -> jfinalize pf p s = Some (p', s', jpnil) ->
  idle p' /\
  ((jp_cur p <> jNumber /\ p' = p /\ jp_lit p' = []) \/
   (jp_cur p = jNumber /\ p' = jpop p /\ jp_lit p' = jp_lit p)).
Proof.
  intros p s p' s' Hw H. unfold jfinalize in H.
  pose proof Hw as (Hwf & Hi & Hl).
  assert (Gi : forall q, wfs (jp_cur q) (jp_states q) -> jp_inesc q = false ->
            (zlen (jp_states q) >? 0) && negb (jp_cur q =? jStart) = false -> idle q).
  { intros q Hq Hqi Hz. unfold idle. destruct (jp_states q) as [|d r] eqn:Es.
    - cbn [wfs] in Hq. auto.
    - cbn [wfs] in Hq. exfalso. unfold zlen in Hz. cbn [length] in Hz. ust. lia. }
  destruct (jp_cur p =? jNumber) eqn:Ec.
  - apply Z.eqb_eq in Ec.
    assert (Hs : jp_states p <> []) by (apply (wfs_nonempty _ _ Hwf); rewrite Ec; discriminate).
    assert (Hie : jp_inesc p = false).
    { destruct (jp_inesc p); [|reflexivity]. destruct (Hi eq_refl) as [K|K]; rewrite Ec in K; discriminate K. }
    destruct (report_number pf s (jp_lit p) (jp_isdbl p)) as [[s1 e]|]; [|discriminate].
    destruct (jisnil e) eqn:Ee; cbn [negb] in H.
    + destruct ((zlen (jp_states (jpop p)) >? 0) && negb (jp_cur (jpop p) =? jStart)) eqn:Ez;
        [inversion H; ust; lia|].
      inversion H; subst p' s'. clear H.
      assert (Hpop : wfs (jp_cur (jpop p)) (jp_states (jpop p)) /\ jp_inesc (jpop p) = false /\
                     jp_lit (jpop p) = jp_lit p).
      { unfold jpop. destruct (jp_states p) as [|d r]; [congruence|]. cbn [wfs] in Hwf. jsimp. tauto. }
      destruct Hpop as (A & B & C).
      split; [apply Gi; assumption|]. right. auto.
    + inversion H; subst. vm_compute in Ee. discriminate Ee.
  - cbn [negb] in H.
    destruct ((zlen (jp_states p) >? 0) && negb (jp_cur p =? jStart)) eqn:Ez; [inversion H; ust; lia|].
    inversion H; subst p' s'. clear H. apply Z.eqb_neq in Ec.
    assert (Hidle : idle p).
    { unfold idle. destruct (jp_states p) as [|d r] eqn:Es.
      - cbn [wfs] in Hwf. split; [exact Hwf|]. split; [reflexivity|].
        destruct (jp_inesc p); [|reflexivity]. destruct (Hi eq_refl) as [K|K]; rewrite Hwf in K; discriminate K.
      - cbn [wfs] in Hwf. exfalso. unfold zlen in Ez. cbn [length] in Ez. ust. lia. }
    split; [exact Hidle|]. left. split; [exact Ec|]. split; [reflexivity|].
    destruct Hidle as (K1 & _). destruct (jp_lit p) as [|x l]; [reflexivity|].
    destruct Hl as [K|[K|K]]; try discriminate; rewrite K1 in K; discriminate K.
Qed.

Definition jreset (p : jparser) : jparser :=
  jset_cur (jset_lit {| jp_cur := jp_cur p; jp_states := []; jp_lit := jp_lit p; jp_inesc := jp_inesc p;
                        jp_isdbl := jp_isdbl p; jp_req := jp_req p; jp_err := jp_err p |} []) jStart.

Lemma jp_parse_reset : forall p s b,
  jp_parse pf p s b =
  match jfeed (2 * length b + 2) pf (jreset p) s b with
  | Ok (p1, s1, err) => if jisnil err then with_final pf p1 s1 else Ok (p1, s1, err)
  | r => r
  end.
Proof. reflexivity. Qed.

Lemma jreset_W : forall p, jp_inesc p = false -> W (jreset p).
Proof.
  intros p H. apply idle_W; [|reflexivity]. unfold idle, jreset; jsimp. auto.
Qed.

Lemma with_final_inv : forall p s r, with_final pf p s = Ok r -> jfinalize pf p s = Some r.
Proof. intros p s r. unfold with_final. destruct (jfinalize pf p s); [intros [= ->]; reflexivity|discriminate]. Qed.

(* C17, Parse: any parser whose escape flag is clear (e.g. a fresh one, or one that
   accepted its last input) is idle again after an accepted Parse *)
Theorem C17_json_parse_idle : forall p s b p' s',
  jp_inesc p = false -> jp_parse pf p s b = Ok (p', s', jpnil) ->
  jp_cur p' = jStart /\ jp_states p' = [] /\ jp_inesc p' = false /\
  (jp_lit p' = [] \/
   exists p1 s1, jfeed (2 * length b + 2) pf (jreset p) s b = Ok (p1, s1, jpnil) /\
                 jp_cur p1 = jNumber /\ p' = jpop p1 /\ jp_lit p' = jp_lit p1).
Proof.
  intros p s b p' s' Hi H. rewrite jp_parse_reset in H.
  destruct (jfeed (2 * length b + 2) pf (jreset p) s b) as [[[p1 s1] err]| | |] eqn:Hf; try discriminate.
  destruct (jisnil err) eqn:Ee.
  - apply jisnil_true' in Ee. subst err. apply with_final_inv in H.
    pose proof (jfeed_W _ _ _ _ _ _ _ (jreset_W p Hi) Hf eq_refl) as Hw1.
    destruct (jfinalize_idle _ _ _ _ Hw1 H) as ((A & B & C) & D).
    split; [exact A|]. split; [exact B|]. split; [exact C|].
    destruct D as [(_ & _ & D)|(D1 & D2 & D3)]; [left; exact D|right].
    exists p1, s1. auto.
  - inversion H; subst. vm_compute in Ee. discriminate Ee.
Qed.

(* C17, Write ... Write, finalize *)
Theorem C17_json_writes_idle : forall chunks p s p' s',
  W p -> jp_writes pf p s chunks = Ok (p', s', jpnil) ->
  jp_cur p' = jStart /\ jp_states p' = [] /\ jp_inesc p' = false.
Proof.
  induction chunks as [|c r IH]; intros p s p' s' Hw H; cbn [jp_writes] in H.
  - apply with_final_inv in H. destruct (jfinalize_idle _ _ _ _ Hw H) as ((A & B & C) & _). auto.
  - destruct (jp_write pf p s c) as [[[p1 s1] err]| | |] eqn:Hwr; try discriminate.
    destruct (jisnil err) eqn:Ee.
    + apply jisnil_true' in Ee. subst err. eapply IH; [|exact H]. eapply jp_write_W; eauto.
    + inversion H; subst. vm_compute in Ee. discriminate Ee.
Qed.

Theorem C17_json_run_parse_reset : forall vfail b evs p,
  jrun_parse pf vfail b = Ok (evs, jpnil, p) ->
  jp_cur p = jStart /\ jp_states p = [] /\ jp_inesc p = false.
Proof.
  intros vfail b evs p H. unfold jrun_parse in H.
  destruct (jp_parse pf jparser0 (sink0 vfail) b) as [[[p' s'] e']| | |] eqn:E; try discriminate.
  inversion H; subst. destruct (C17_json_parse_idle jparser0 _ _ _ _ eq_refl E) as (A & B & C & _). auto.
Qed.

Theorem C17_json_run_chunks_reset : forall vfail chunks evs p,
  jrun_chunks pf vfail chunks = Ok (evs, jpnil, p) ->
  jp_cur p = jStart /\ jp_states p = [] /\ jp_inesc p = false.
Proof.
  intros vfail chunks evs p H. unfold jrun_chunks in H.
  destruct (jp_writes pf jparser0 (sink0 vfail) chunks) as [[[p' s'] e']| | |] eqn:E; try discriminate.
  inversion H; subst. exact (C17_json_writes_idle _ _ _ _ _ W0 E).
Qed.

End JsonVisitor.

Print Assumptions C16_json_parse_prompt.
Print Assumptions C16_json_parse_fail_spec.
Print Assumptions C16_json_parse_prefix.
Print Assumptions C16_json_run_parse_prompt.
Print Assumptions C16_json_run_parse_fail_spec.
Print Assumptions C16_json_run_parse_prefix.
Print Assumptions C16_json_parse_total_prefix.
Print Assumptions C17_json_parse_idle.
Print Assumptions C17_json_writes_idle.
Print Assumptions C17_json_run_parse_reset.
Print Assumptions C17_json_run_chunks_reset.
