(* C02 for the JSON parser model Json/Parse.v: the events reported and the
   verdict depend only on the concatenated input, not on how it is cut into
   Write calls, and Parse(b) does what Write* + end does.
   Method (as in Cbor/ChunkProofs.v): a fuel-free relation R for the loop of
   feed/feedUntil, soundness of the fuelled jfeed w.r.t. R, determinism, a
   dichotomy lemma for one step on a ++ b versus the same step on a, merging of
   two consecutive feeds.  One difference to CBOR: a null/true/false literal
   split over two writes leaves a different value in the dead field jp_req, so
   parser states are compared modulo [peq] (equal except for jp_req outside the
   states jNull/jTrue/jFalse) and jstep is shown to respect peq.
   The float parser [pf] is a Section variable. *)
From Coq Require Import List NArith ZArith Bool Lia.
From Coq Require Import ZifyBool ZifyNat ZifyN.
From SF Require Import Base.Prelude Base.Utf8 Core.Events Json.Parse Json.ParseSafety.
Import ListNotations.
Open Scope Z_scope.

Ltac Zify.zify_post_hook ::= Z.div_mod_to_equations.

Ltac js := cbn [jp_cur jp_states jp_lit jp_inesc jp_isdbl jp_req jp_err
                jset_cur jset_lit jset_inesc jset_isdbl jset_req jset_err jpush].
Ltac jsH H := cbn [jp_cur jp_states jp_lit jp_inesc jp_isdbl jp_req jp_err
                jset_cur jset_lit jset_inesc jset_isdbl jset_req jset_err jpush] in H.

(* ------------------------------------------------------------------ *)
(* parser states modulo the dead field jp_req                          *)
(* ------------------------------------------------------------------ *)
Definition is_kind (c : Z) : bool := (c =? jNull) || (c =? jTrue) || (c =? jFalse).

Definition peq (p q : jparser) : Prop :=
  jp_cur p = jp_cur q /\ jp_states p = jp_states q /\ jp_lit p = jp_lit q /\
  jp_inesc p = jp_inesc q /\ jp_isdbl p = jp_isdbl q /\ jp_err p = jp_err q /\
  (is_kind (jp_cur p) = true -> jp_req p = jp_req q).

Lemma peq_refl : forall p, peq p p.
Proof. intros p. unfold peq. repeat split. Qed.
Lemma peq_sym : forall p q, peq p q -> peq q p.
Proof.
  intros p q (H1 & H2 & H3 & H4 & H5 & H6 & H7). unfold peq.
  rewrite <- H1. repeat split; auto. intros K. symmetry. auto.
Qed.
Lemma peq_trans : forall p q r, peq p q -> peq q r -> peq p r.
Proof.
  intros p q r (H1 & H2 & H3 & H4 & H5 & H6 & H7) (G1 & G2 & G3 & G4 & G5 & G6 & G7). unfold peq.
  repeat split; try congruence. intros K. rewrite (H7 K). apply G7. rewrite <- H1. exact K.
Qed.

Lemma peq_kind_eq : forall p q, peq p q -> is_kind (jp_cur p) = true -> p = q.
Proof.
  intros [c st l ie d r e] [c' st' l' ie' d' r' e'] (H1 & H2 & H3 & H4 & H5 & H6 & H7) K.
  cbn [jp_cur jp_states jp_lit jp_inesc jp_isdbl jp_req jp_err] in *.
  specialize (H7 K). subst. reflexivity.
Qed.
Lemma peq_setreq : forall p q, peq p q -> q = jset_req p (jp_req q).
Proof.
  intros [c st l ie d r e] [c' st' l' ie' d' r' e'] (H1 & H2 & H3 & H4 & H5 & H6 & H7).
  cbn [jp_cur jp_states jp_lit jp_inesc jp_isdbl jp_req jp_err] in *.
  subst. reflexivity.
Qed.

Lemma ret_not_kind : forall c, ret_state c -> is_kind c = false.
Proof. intros c H. unfold ret_state, is_kind in *. ust. lia. Qed.

Definition rpeq (r r' : jsres) : Prop :=
  match r, r' with
  | JS p1 s1 rest d e, JS p2 s2 rest' d' e' => peq p1 p2 /\ s1 = s2 /\ rest = rest' /\ d = d' /\ e = e'
  | JCrash w, JCrash w' => w = w'
  | _, _ => False
  end.
Lemma rpeq_refl : forall r, rpeq r r.
Proof. intros [p s rest d e|w]; cbn [rpeq]; auto using peq_refl. Qed.

Lemma peq_req : forall p x, is_kind (jp_cur p) = false -> peq p (jset_req p x).
Proof. intros p x K. unfold peq. js. repeat split. congruence. Qed.

Lemma jpop_peq : forall p x, Forall ret_state (jp_states p) -> peq (jpop p) (jpop (jset_req p x)).
Proof.
  intros p x HF. unfold jpop. js. destruct (jp_states p) as [|c r].
  - unfold peq. js. repeat split. intros K. vm_compute in K. discriminate K.
  - inversion HF as [|? ? Hc Hr]; subst. unfold peq. js. repeat split.
    intros K. rewrite (ret_not_kind _ Hc) in K. discriminate K.
Qed.

(* peq of two explicit states whose current state is a constant or a return state *)
Ltac peq_tac :=
  unfold peq; js; repeat split;
  try (let K := fresh "K" in intros K; first [ (vm_compute in K; discriminate K) | congruence ]).

(* do_string does not touch the control fields *)
Lemma do_string_same : forall p b,
  match do_string p b with
  | DSMore p1 | DSDone p1 _ _ | DSErr p1 =>
      jp_cur p1 = jp_cur p /\ jp_states p1 = jp_states p /\ jp_err p1 = jp_err p /\ jp_req p1 = jp_req p /\
      jp_isdbl p1 = jp_isdbl p
  | DSCrash _ => True
  end.
Proof.
  intros p b. unfold do_string.
  destruct (if zlen (jp_lit p) =? 0 then _ else _) as [buf|]; [|exact I].
  destruct (scan_quote buf (jp_inesc p) 0) as [found inesc].
  destruct found as [i|]; js.
  - destruct (zlen _ <? 2); [exact I|]. destruct (unquote _); js; auto.
  - js. auto.
Qed.

Lemma do_string_req : forall p x b,
  do_string (jset_req p x) b =
  match do_string p b with
  | DSMore p1 => DSMore (jset_req p1 x)
  | DSDone p1 c r => DSDone (jset_req p1 x) c r
  | DSErr p1 => DSErr (jset_req p1 x)
  | DSCrash w => DSCrash w
  end.
Proof.
  intros p x b. unfold do_string. js.
  destruct (if zlen (jp_lit p) =? 0 then _ else _) as [buf|]; [|reflexivity].
  destruct (scan_quote buf (jp_inesc p) 0) as [found inesc].
  destruct found as [i|]; js; [|reflexivity].
  destruct (zlen _ <? 2); [reflexivity|]. destruct (unquote _); reflexivity.
Qed.

(* ------------------------------------------------------------------ *)
(* lists                                                               *)
(* ------------------------------------------------------------------ *)
Lemma firstn_app_le : forall (n : nat) (a b : bytes), (n <= length a)%nat -> firstn n (a ++ b) = firstn n a.
Proof.
  intros n a b H. rewrite firstn_app. replace (n - length a)%nat with 0%nat by lia.
  cbn [firstn]. apply app_nil_r.
Qed.
Lemma skipn_app_le : forall (n : nat) (a b : bytes), (n <= length a)%nat -> skipn n (a ++ b) = skipn n a ++ b.
Proof.
  intros n a b H. rewrite skipn_app. replace (n - length a)%nat with 0%nat by lia. reflexivity.
Qed.
Lemma skipn_app_ge : forall (n : nat) (a b : bytes), skipn (length a + n) (a ++ b) = skipn n b.
Proof.
  intros n a b. rewrite skipn_app. rewrite skipn_all2 by lia.
  replace (length a + n - length a)%nat with n by lia. reflexivity.
Qed.
Lemma skipn_skipn' : forall (x y : nat) (l : bytes), skipn x (skipn y l) = skipn (y + x) l.
Proof.
  intros x y. induction y as [|y IH]; intros l; [reflexivity|].
  destruct l as [|c l]; [destruct x; reflexivity|]. cbn [skipn plus]. apply IH.
Qed.
Lemma zlen_app : forall (a b : bytes), zlen (a ++ b) = zlen a + zlen b.
Proof. intros; unfold zlen; rewrite app_length; lia. Qed.
Lemma app_nonnil : forall (a b : bytes), a <> [] -> a ++ b <> [].
Proof. intros [|x a] b H; [congruence|discriminate]. Qed.

Lemma app_nonnil_r : forall (a b : bytes), b <> [] -> a ++ b <> [].
Proof. intros a [|x b] H; [congruence|]. destruct a; discriminate. Qed.
Lemma zlen_eqb0 : forall (b : bytes), b <> [] -> (zlen b =? 0) = false.
Proof. intros [|c r] H; [congruence|]. unfold zlen. cbn [length]. lia. Qed.

Lemma trim_left_app_nil : forall a b, trim_left a = [] -> trim_left (a ++ b) = trim_left b.
Proof.
  induction a as [|c a IH]; intros b H; [reflexivity|].
  cbn [trim_left app] in *. destruct (is_space c); [auto|discriminate].
Qed.
Lemma trim_left_app_cons : forall a b c r, trim_left a = c :: r -> trim_left (a ++ b) = c :: r ++ b.
Proof.
  induction a as [|x a IH]; intros b c r H; [discriminate|].
  cbn [trim_left app] in *. destruct (is_space x); [auto|].
  inversion H; subst. reflexivity.
Qed.

Lemma has_prefix_nil : forall b, has_prefix b [] = true.
Proof. intros b. destruct b; reflexivity. Qed.

Lemma has_prefix_app : forall a b s,
  has_prefix (a ++ b) s = has_prefix a (firstn (length a) s) && has_prefix b (skipn (length a) s).
Proof.
  induction a as [|x a IH]; intros b s.
  - cbn [app length firstn skipn]. rewrite has_prefix_nil. reflexivity.
  - destruct s as [|y s].
    + cbn [length firstn skipn]. rewrite !has_prefix_nil. reflexivity.
    + cbn [app length firstn skipn has_prefix]. rewrite IH, andb_assoc. reflexivity.
Qed.

Lemma scan_quote_app : forall a b e i,
  scan_quote (a ++ b) e i =
  match scan_quote a e i with
  | (Some j, e') => (Some j, e')
  | (None, e') => scan_quote b e' (i + length a)
  end.
Proof.
  induction a as [|c a IH]; intros b e i.
  - cbn [app scan_quote length]. rewrite Nat.add_0_r. reflexivity.
  - cbn [app scan_quote length].
    replace (i + S (length a))%nat with (S i + length a)%nat by lia.
    destruct e; [apply IH|]. destruct (c =? 34); [reflexivity|]. destruct (c =? 92); apply IH.
Qed.

Lemma scan_quote_shift : forall b e i k,
  scan_quote b e (i + k) =
  let '(f, e') := scan_quote b e i in (option_map (fun j => (j + k)%nat) f, e').
Proof.
  induction b as [|c b IH]; intros e i k; [reflexivity|].
  cbn [scan_quote]. change (S (i + k)) with (S i + k)%nat.
  destruct e; [apply IH|]. destruct (c =? 34); [reflexivity|]. destruct (c =? 92); apply IH.
Qed.

Lemma scan_quote_lt : forall a e i j e', scan_quote a e i = (Some j, e') -> (i <= j < i + length a)%nat.
Proof.
  induction a as [|c a IH]; intros e i j e'; cbn [scan_quote length]; [discriminate|].
  destruct e; [intros H; apply IH in H; lia|].
  destruct (c =? 34); [intros [= <- _]; lia|].
  destruct (c =? 92); intros H; apply IH in H; lia.
Qed.

Lemma scan_number_app : forall a b d i,
  scan_number (a ++ b) d i =
  match scan_number a d i with
  | (Some j, d') => (Some j, d')
  | (None, d') => scan_number b d' (i + length a)
  end.
Proof.
  induction a as [|c a IH]; intros b d i.
  - cbn [app scan_number length]. rewrite Nat.add_0_r. reflexivity.
  - cbn [app scan_number length].
    replace (i + S (length a))%nat with (S i + length a)%nat by lia.
    destruct (is_stop c); [reflexivity|apply IH].
Qed.

Lemma scan_number_shift : forall b d i k,
  scan_number b d (i + k) =
  let '(f, d') := scan_number b d i in (option_map (fun j => (j + k)%nat) f, d').
Proof.
  induction b as [|c b IH]; intros d i k; [reflexivity|].
  cbn [scan_number]. change (S (i + k)) with (S i + k)%nat.
  destruct (is_stop c); [reflexivity|apply IH].
Qed.

Lemma scan_number_lt : forall a d i j d', scan_number a d i = (Some j, d') -> (i <= j < i + length a)%nat.
Proof.
  induction a as [|c a IH]; intros d i j d'; cbn [scan_number length]; [discriminate|].
  destruct (is_stop c); [intros [= <- _]; lia|intros H; apply IH in H; lia].
Qed.

(* ------------------------------------------------------------------ *)
(* doString on a ++ b                                                  *)
(* ------------------------------------------------------------------ *)
Lemma do_string_app : forall p a b, a <> [] ->
  match do_string p a with
  | DSMore p1 => do_string p (a ++ b) = do_string p1 b
  | DSDone p1 c rest => do_string p (a ++ b) = DSDone p1 c (rest ++ b)
  | DSErr p1 => do_string p (a ++ b) = DSErr p1
  | DSCrash _ => True
  end.
Proof.
  intros p a b Ha. unfold do_string. cbv zeta.
  destruct (zlen (jp_lit p) =? 0) eqn:Eat.
  - destruct a as [|c0 a']; [congruence|]. cbn [app].
    rewrite scan_quote_app.
    destruct (scan_quote a' (jp_inesc p) 0) as [[j|] e1] eqn:Es.
    + apply scan_quote_lt in Es. js.
      change (c0 :: a' ++ b) with ((c0 :: a') ++ b).
      rewrite (firstn_app_le (j + 2)), (skipn_app_le (j + 2)) by (cbn [length]; lia).
      destruct (zlen _ <? 2); [exact I|]. destruct (unquote _); reflexivity.
    + js.
      rewrite (zlen_eqb0 (jp_lit p ++ c0 :: a')) by (apply app_nonnil_r; discriminate).
      rewrite (scan_quote_shift b e1 0 (length a')).
      destruct (scan_quote b e1 0) as [[j|] e2]; cbn [option_map]; js.
      * replace (j + length a' + 2)%nat with (length (c0 :: a') + (j + 1))%nat by (cbn [length]; lia).
        change (c0 :: a' ++ b) with ((c0 :: a') ++ b).
        rewrite firstn_app_2, skipn_app_ge. rewrite <- app_assoc. reflexivity.
      * change (c0 :: a' ++ b) with ((c0 :: a') ++ b). rewrite <- app_assoc. reflexivity.
  - rewrite scan_quote_app.
    destruct (scan_quote a (jp_inesc p) 0) as [[j|] e1] eqn:Es.
    + apply scan_quote_lt in Es. js.
      rewrite (firstn_app_le (j + 1)), (skipn_app_le (j + 1)) by lia.
      destruct (zlen _ <? 2); [exact I|]. destruct (unquote _); reflexivity.
    + js.
      rewrite (zlen_eqb0 (jp_lit p ++ a)) by (apply app_nonnil_r; exact Ha).
      rewrite (scan_quote_shift b e1 0 (length a)).
      destruct (scan_quote b e1 0) as [[j|] e2]; cbn [option_map]; js.
      * replace (j + length a + 1)%nat with (length a + (j + 1))%nat by lia.
        rewrite firstn_app_2, skipn_app_ge. rewrite <- app_assoc. reflexivity.
      * rewrite <- app_assoc. reflexivity.
Qed.

Section JsonChunks.
Variable pf : bytes -> option Z.

(* reduce rpeq of two JS results that differ in the parser only *)
Ltac rp := cbn [rpeq]; split; [|repeat split; reflexivity].

Lemma step_string_req : forall p x s b,
  is_kind (jp_cur p) = false -> Forall ret_state (jp_states p) ->
  rpeq (step_string p s b) (step_string (jset_req p x) s b).
Proof.
  intros p x s b K HF. unfold step_string. rewrite do_string_req.
  pose proof (do_string_same p b) as Hs.
  destruct (do_string p b) as [p1|p1 c r|p1|w]; try destruct Hs as (H1 & H2 & H3 & H4 & H5).
  - rp. apply peq_req. rewrite H1. exact K.
  - destruct (jvis s _) as [s1 e]. rp. apply jpop_peq. rewrite H2. exact HF.
  - rp. apply peq_req. rewrite H1. exact K.
  - reflexivity.
Qed.

Lemma step_dict_key_req : forall p x s b,
  is_kind (jp_cur p) = false ->
  rpeq (step_dict_key p s b) (step_dict_key (jset_req p x) s b).
Proof.
  intros p x s b K. unfold step_dict_key. rewrite do_string_req.
  pose proof (do_string_same p b) as Hs.
  destruct (do_string p b) as [p1|p1 c r|p1|w]; try destruct Hs as (H1 & H2 & H3 & H4 & H5).
  - rp. apply peq_req. rewrite H1. exact K.
  - destruct (jvis s _) as [s1 e]. rp. peq_tac.
  - rp. apply peq_req. rewrite H1. exact K.
  - reflexivity.
Qed.

Lemma step_number_req : forall p x s b,
  is_kind (jp_cur p) = false -> Forall ret_state (jp_states p) ->
  rpeq (step_number pf p s b) (step_number pf (jset_req p x) s b).
Proof.
  intros p x s b K HF. unfold step_number. js.
  destruct (scan_number b (jp_isdbl p) 0) as [found dbl].
  destruct found as [i|].
  - destruct (report_number pf s _ dbl) as [[s1 e]|]; [|reflexivity].
    rp. apply (jpop_peq (jset_lit (jset_isdbl p dbl) []) x). js. exact HF.
  - rp. peq_tac.
Qed.

Lemma end_container_req : forall p x s b ev,
  Forall ret_state (jp_states p) ->
  rpeq (end_container p s b ev) (end_container (jset_req p x) s b ev).
Proof.
  intros p x s b ev HF. unfold end_container. destruct b as [|c r]; [reflexivity|].
  destruct (jvis s ev) as [s1 e]. rp. apply jpop_peq. exact HF.
Qed.

Lemma step_value_req : forall p x s b ret,
  is_kind (jp_cur p) = false -> Forall ret_state (jp_states p) -> ret_state ret ->
  rpeq (step_value pf p s b ret) (step_value pf (jset_req p x) s b ret).
Proof.
  intros p x s b ret K HF Hret. unfold step_value.
  pose proof (ret_not_kind _ Hret) as Kr.
  destruct (trim_left b) as [|c r]; [rp; apply peq_req; exact K|].
  destruct (c =? 123). { destruct (jvis s _) as [s1 e]. rp. peq_tac. }
  destruct (c =? 91). { destruct (jvis s _) as [s1 e]. rp. peq_tac. }
  destruct (c =? 110). { apply rpeq_refl. }
  destruct (c =? 102). { apply rpeq_refl. }
  destruct (c =? 116). { apply rpeq_refl. }
  assert (HF' : Forall ret_state (if ret =? jFailed then jp_states p else ret :: jp_states p)).
  { destruct (ret =? jFailed); [exact HF|constructor; assumption]. }
  destruct (c =? 34).
  { apply (step_string_req (jset_inesc (jpush (jset_lit (jset_cur p ret) []) jString) false) x).
    - reflexivity.
    - js. exact HF'. }
  destruct (_ || _).
  { apply (step_number_req (jset_isdbl (jpush (jset_lit (jset_isdbl (jset_cur p ret) false) []) jNumber) false) x).
    - reflexivity.
    - js. exact HF'. }
  rp. peq_tac.
Qed.

Lemma step_dict_req : forall p x s b ae,
  is_kind (jp_cur p) = false -> Forall ret_state (jp_states p) ->
  rpeq (step_dict p s b ae) (step_dict (jset_req p x) s b ae).
Proof.
  intros p x s b ae K HF. unfold step_dict.
  destruct (trim_left b) as [|c r]; [rp; apply peq_req; exact K|].
  destruct (c =? 125).
  { destruct (negb ae); [rp; apply peq_req; exact K|]. apply end_container_req. exact HF. }
  destruct (c =? 34); rp; [peq_tac|apply peq_req; exact K].
Qed.

Lemma step_dict_value_end_req : forall p x s b,
  is_kind (jp_cur p) = false -> Forall ret_state (jp_states p) ->
  rpeq (step_dict_value_end p s b) (step_dict_value_end (jset_req p x) s b).
Proof.
  intros p x s b K HF. unfold step_dict_value_end.
  destruct (trim_left b) as [|c r]; [rp; apply peq_req; exact K|].
  destruct (c =? 125); [apply end_container_req; exact HF|].
  destruct (c =? 44); rp; [peq_tac|apply peq_req; exact K].
Qed.

Lemma step_array_req : forall p x s b,
  is_kind (jp_cur p) = false -> Forall ret_state (jp_states p) ->
  rpeq (step_array p s b) (step_array (jset_req p x) s b).
Proof.
  intros p x s b K HF. unfold step_array.
  destruct (trim_left b) as [|c r]; [rp; apply peq_req; exact K|].
  destruct (c =? 93); [apply end_container_req; exact HF|].
  rp; peq_tac.
Qed.

Lemma step_arr_value_end_req : forall p x s b,
  is_kind (jp_cur p) = false -> Forall ret_state (jp_states p) ->
  rpeq (step_arr_value_end p s b) (step_arr_value_end (jset_req p x) s b).
Proof.
  intros p x s b K HF. unfold step_arr_value_end.
  destruct (trim_left b) as [|c r]; [rp; apply peq_req; exact K|].
  destruct (c =? 93); [apply end_container_req; exact HF|].
  destruct (c =? 44); rp; [peq_tac|apply peq_req; exact K].
Qed.

Lemma jstep_req : forall p x s b,
  is_kind (jp_cur p) = false -> Forall ret_state (jp_states p) ->
  rpeq (jstep pf p s b) (jstep pf (jset_req p x) s b).
Proof.
  intros p x s b K HF. unfold jstep. js.
  destruct (jp_cur p =? jFailed).
  { destruct (jp_err p =? 0); rp; peq_tac. }
  destruct (jp_cur p =? jStart). { apply step_value_req; auto. left; reflexivity. }
  destruct (jp_cur p =? jDict). { apply step_dict_req; auto. }
  destruct (jp_cur p =? jDictNextField). { apply step_dict_req; auto. }
  destruct (jp_cur p =? jDictField). { apply step_dict_key_req; auto. }
  destruct (jp_cur p =? jDictFieldValueSep).
  { destruct (trim_left b) as [|c r]; rp; [apply peq_req; exact K|peq_tac]. }
  destruct (jp_cur p =? jDictFieldValue). { apply step_value_req; auto. right; left; reflexivity. }
  destruct (jp_cur p =? jDictFieldStateEnd). { apply step_dict_value_end_req; auto. }
  destruct (jp_cur p =? jArr). { apply step_array_req; auto. }
  destruct (jp_cur p =? jArrValue).
  { assert (Hr : ret_state jArrNext) by (right; right; reflexivity).
    pose proof (step_value_req p x s b jArrNext K HF Hr) as Hq.
    destruct (step_value pf p s b jArrNext) as [p1 s1 r1 d1 e1|w],
             (step_value pf (jset_req p x) s b jArrNext) as [p2 s2 r2 d2 e2|w']; cbn [rpeq] in *; auto.
    destruct Hq as (H1 & H2 & H3 & H4 & H5). auto. }
  destruct (jp_cur p =? jArrNext). { apply step_arr_value_end_req; auto. }
  destruct (jp_cur p =? jNull) eqn:E1. { unfold is_kind in K. rewrite E1 in K. discriminate K. }
  destruct (jp_cur p =? jTrue) eqn:E2. { unfold is_kind in K. rewrite E2, orb_true_r in K. discriminate K. }
  destruct (jp_cur p =? jFalse) eqn:E3. { unfold is_kind in K. rewrite E3, !orb_true_r in K. discriminate K. }
  destruct (jp_cur p =? jString). { apply step_string_req; auto. }
  destruct (jp_cur p =? jNumber). { apply step_number_req; auto. }
  rp. apply peq_req; exact K.
Qed.

Lemma jstep_peq : forall p q s b,
  peq p q -> Forall ret_state (jp_states p) ->
  rpeq (jstep pf p s b) (jstep pf q s b).
Proof.
  intros p q s b H HF. destruct (is_kind (jp_cur p)) eqn:K.
  - rewrite (peq_kind_eq _ _ H K). apply rpeq_refl.
  - rewrite (peq_setreq _ _ H). apply jstep_req; assumption.
Qed.


(* ------------------------------------------------------------------ *)
(* a step does not change jp_err (outside the failed state)            *)
(* ------------------------------------------------------------------ *)
Definition errk (p : jparser) (r : jsres) : Prop :=
  match r with JS p1 _ _ _ _ => jp_err p1 = jp_err p | JCrash _ => True end.

Lemma errk_trans : forall p q r, errk q r -> jp_err q = jp_err p -> errk p r.
Proof. intros p q [p1 s1 r1 d e|w] H E; cbn [errk] in *; congruence. Qed.

Lemma jpop_err : forall p, jp_err (jpop p) = jp_err p.
Proof. intros p. unfold jpop. destruct (jp_states p); reflexivity. Qed.

Lemma step_kind_err : forall p s b kind ev, errk p (step_kind p s b kind ev).
Proof.
  intros p s b kind ev. unfold step_kind.
  destruct (_ || _); [exact I|].
  destruct (zlen b <? jp_req p); cbn [negb].
  - destruct (has_prefix _ _); cbn [negb errk]; reflexivity.
  - destruct (has_prefix _ _); cbn [negb errk]; [|reflexivity].
    destruct (jvis s ev) as [s2 e]. cbn [errk]. apply jpop_err.
Qed.

Lemma step_number_err : forall p s b, errk p (step_number pf p s b).
Proof.
  intros p s b. unfold step_number.
  destruct (scan_number b (jp_isdbl p) 0) as [found dbl].
  destruct found as [i|]; [|reflexivity].
  destruct (report_number pf s _ dbl) as [[s1 e]|]; [|exact I].
  cbn [errk]. rewrite jpop_err. reflexivity.
Qed.

Lemma step_string_err : forall p s b, errk p (step_string p s b).
Proof.
  intros p s b. unfold step_string. pose proof (do_string_same p b) as Hs.
  destruct (do_string p b) as [p1|p1 c r|p1|w]; try destruct Hs as (H1 & H2 & H3 & H4 & H5); cbn [errk]; auto.
  destruct (jvis s _) as [s1 e]. cbn [errk]. rewrite jpop_err. exact H3.
Qed.

Lemma step_dict_key_err : forall p s b, errk p (step_dict_key p s b).
Proof.
  intros p s b. unfold step_dict_key. pose proof (do_string_same p b) as Hs.
  destruct (do_string p b) as [p1|p1 c r|p1|w]; try destruct Hs as (H1 & H2 & H3 & H4 & H5); cbn [errk]; auto.
  destruct (jvis s _) as [s1 e]. cbn [errk]. js. exact H3.
Qed.

Lemma end_container_err : forall p s b ev, errk p (end_container p s b ev).
Proof.
  intros p s b ev. unfold end_container. destruct b; [exact I|].
  destruct (jvis s ev) as [s1 e]. cbn [errk]. apply jpop_err.
Qed.

Lemma step_value_err : forall p s b ret, errk p (step_value pf p s b ret).
Proof.
  intros p s b ret. unfold step_value.
  destruct (trim_left b) as [|c r]; [reflexivity|].
  destruct (c =? 123). { destruct (jvis s _) as [s1 e]. reflexivity. }
  destruct (c =? 91). { destruct (jvis s _) as [s1 e]. reflexivity. }
  destruct (c =? 110). { eapply errk_trans; [apply step_kind_err|reflexivity]. }
  destruct (c =? 102). { eapply errk_trans; [apply step_kind_err|reflexivity]. }
  destruct (c =? 116). { eapply errk_trans; [apply step_kind_err|reflexivity]. }
  destruct (c =? 34). { eapply errk_trans; [apply step_string_err|reflexivity]. }
  destruct (_ || _). { eapply errk_trans; [apply step_number_err|reflexivity]. }
  reflexivity.
Qed.

Lemma jstep_err : forall p s b, jp_cur p <> jFailed -> errk p (jstep pf p s b).
Proof.
  intros p s b Hnf. unfold jstep.
  destruct (jp_cur p =? jFailed) eqn:E0; [apply Z.eqb_eq in E0; contradiction|].
  destruct (jp_cur p =? jStart). { apply step_value_err. }
  destruct (jp_cur p =? jDict).
  { unfold step_dict. destruct (trim_left b) as [|c r]; [reflexivity|].
    destruct (c =? 125); [destruct (negb true); [reflexivity|apply end_container_err]|].
    destruct (c =? 34); reflexivity. }
  destruct (jp_cur p =? jDictNextField).
  { unfold step_dict. destruct (trim_left b) as [|c r]; [reflexivity|].
    destruct (c =? 125); [destruct (negb false); [reflexivity|apply end_container_err]|].
    destruct (c =? 34); reflexivity. }
  destruct (jp_cur p =? jDictField). { apply step_dict_key_err. }
  destruct (jp_cur p =? jDictFieldValueSep). { destruct (trim_left b); reflexivity. }
  destruct (jp_cur p =? jDictFieldValue). { apply step_value_err. }
  destruct (jp_cur p =? jDictFieldStateEnd).
  { unfold step_dict_value_end. destruct (trim_left b) as [|c r]; [reflexivity|].
    destruct (c =? 125); [apply end_container_err|]. destruct (c =? 44); reflexivity. }
  destruct (jp_cur p =? jArr).
  { unfold step_array. destruct (trim_left b) as [|c r]; [reflexivity|].
    destruct (c =? 93); [apply end_container_err|reflexivity]. }
  destruct (jp_cur p =? jArrValue).
  { pose proof (step_value_err p s b jArrNext) as H.
    destruct (step_value pf p s b jArrNext); exact H. }
  destruct (jp_cur p =? jArrNext).
  { unfold step_arr_value_end. destruct (trim_left b) as [|c r]; [reflexivity|].
    destruct (c =? 93); [apply end_container_err|]. destruct (c =? 44); reflexivity. }
  destruct (jp_cur p =? jNull). { apply step_kind_err. }
  destruct (jp_cur p =? jTrue). { apply step_kind_err. }
  destruct (jp_cur p =? jFalse). { apply step_kind_err. }
  destruct (jp_cur p =? jString). { apply step_string_err. }
  destruct (jp_cur p =? jNumber). { apply step_number_err. }
  reflexivity.
Qed.


(* ------------------------------------------------------------------ *)
(* the invariant, and the feed loop without fuel                       *)
(* ------------------------------------------------------------------ *)
Definition Inv (p : jparser) : Prop := inv p /\ jp_err p = 0.

Lemma Inv0 : Inv jparser0.
Proof. split; [apply inv0|reflexivity]. Qed.

Lemma jstep_nil_notfailed : forall p s b p1 s1 rest d,
  inv p -> jstep pf p s b = JS p1 s1 rest d jpnil -> jp_cur p <> jFailed.
Proof.
  intros p s b p1 s1 rest d Hi H Hc.
  destruct (jstep_failed pf p s b Hc) as (p' & err & E & Hne & _); [apply Hi|].
  rewrite E in H. inversion H; subst. congruence.
Qed.

Lemma jstep_inv : forall p s b p1 s1 rest d,
  inv p -> b <> [] -> jstep pf p s b = JS p1 s1 rest d jpnil -> inv p1.
Proof.
  intros p s b p1 s1 rest d Hi Hb H.
  pose proof (jstep_nil_notfailed _ _ _ _ _ _ _ Hi H) as Hnf.
  pose proof (jstep_ok pf p s b Hi Hnf Hb) as Hs. rewrite H in Hs. cbn [res_ok] in Hs.
  apply Hs. reflexivity.
Qed.

Lemma jstep_Inv : forall p s b p1 s1 rest d,
  Inv p -> b <> [] -> jstep pf p s b = JS p1 s1 rest d jpnil -> Inv p1.
Proof.
  intros p s b p1 s1 rest d [Hi He] Hb H. split; [eapply jstep_inv; eauto|].
  pose proof (jstep_nil_notfailed _ _ _ _ _ _ _ Hi H) as Hnf.
  pose proof (jstep_err p s b Hnf) as Hk. rewrite H in Hk. cbn [errk] in Hk. congruence.
Qed.

Lemma jstep_nocrash : forall p s b w, inv p -> b <> [] -> jstep pf p s b <> JCrash w.
Proof.
  intros p s b w Hi Hb H. destruct (Z.eq_dec (jp_cur p) jFailed) as [Hc|Hc].
  - destruct (jstep_failed pf p s b Hc) as (p' & err & E & _); [apply Hi|]. congruence.
  - pose proof (jstep_ok pf p s b Hi Hc Hb) as Hs. rewrite H in Hs. exact Hs.
Qed.

Definition fres := (jparser * sink * Z)%type.

(* [R p s b r]: the loop of jfeed/jfeed_until started on the non-empty input b ends with r.
   (The "reported" flag only decides whether feedUntil returns to feed, which calls it again.) *)
Inductive R : jparser -> sink -> bytes -> fres -> Prop :=
| R_err : forall p s b p1 s1 rest d e,
    jstep pf p s b = JS p1 s1 rest d e -> e <> jpnil -> R p s b (p1, s1, e)
| R_more : forall p s b p1 s1 rest d r,
    jstep pf p s b = JS p1 s1 rest d jpnil -> rest <> [] -> R p1 s1 rest r -> R p s b r
| R_stop : forall p s b p1 s1 d,
    jstep pf p s b = JS p1 s1 [] d jpnil -> R p s b (p1, s1, jpnil).

Definition Feed (p : jparser) (s : sink) (b : bytes) (r : fres) : Prop :=
  (b = [] /\ r = (p, s, jpnil)) \/ (b <> [] /\ R p s b r).

Lemma R_det : forall p s b r, R p s b r -> forall r', R p s b r' -> r = r'.
Proof.
  induction 1 as [p s b p1 s1 rest d e E Hn | p s b p1 s1 rest d r E Hr _ IH | p s b p1 s1 d E];
    intros r' H'; inversion H'; subst;
    match goal with H : jstep pf _ _ _ = _ |- _ => rewrite E in H; inversion H; subst end;
    try congruence; auto.
Qed.

Lemma Feed_det : forall p s b r r', Feed p s b r -> Feed p s b r' -> r = r'.
Proof.
  intros p s b r r' [[H1 H2]|[H1 H2]] [[H3 H4]|[H3 H4]]; try congruence.
  eapply R_det; eauto.
Qed.

Definition after_fu (p1 : jparser) (s1 : sink) (rest : bytes) (e : Z) (r : fres) : Prop :=
  (e <> jpnil /\ r = (p1, s1, e)) \/
  (e = jpnil /\ rest = [] /\ r = (p1, s1, jpnil)) \/
  (e = jpnil /\ rest <> [] /\ R p1 s1 rest r).


Lemma jfeed_until_sound : forall n p s b orig p1 s1 rest d e,
  inv p -> b <> [] ->
  jfeed_until n pf p s b orig = Ok (JS p1 s1 rest d e) ->
  forall r, after_fu p1 s1 rest e r -> R p s b r.
Proof.
  induction n as [|n IH]; intros p s b orig p1 s1 rest d e Hi Hb H r K; [discriminate|].
  cbn [jfeed_until] in H. rewrite (zlen_eqb0 b Hb) in H.
  destruct (jstep pf p s b) as [pa sa ra da ea|w] eqn:E; [|discriminate].
  destruct (jp_cur p =? jFailed) eqn:Ef.
  { apply Z.eqb_eq in Ef.
    destruct (jstep_failed pf p s b Ef) as (p' & err & E' & Hne & _); [apply Hi|].
    rewrite E in E'. inversion E'; subst. inversion H; subst.
    destruct K as [[K1 K2]|[[K1 _]|[K1 _]]]; try congruence. subst r. eapply R_err; eauto. }
  destruct (jisnil ea) eqn:En; cbn [negb] in H.
  - apply jisnil_true in En. subst ea.
    destruct (da && (zlen (jp_states pa) =? 0)).
    + inversion H; subst.
      destruct K as [[K1 _]|[[_ [K2 K3]]|[_ [K2 K3]]]]; [congruence| |].
      * subst. eapply R_stop; eauto.
      * eapply R_more; eauto.
    + destruct ra as [|c ra'].
      * destruct n as [|n']; [discriminate|]. cbn [jfeed_until] in H.
        change (zlen (@nil Z) =? 0) with true in H. cbv iota in H. inversion H; subst.
        destruct K as [[K1 _]|[[_ [_ K3]]|[_ [K2 _]]]]; try congruence.
        subst. eapply R_stop; eauto.
      * assert (Hi1 : inv pa) by (eapply jstep_inv; eauto).
        eapply R_more; [exact E|discriminate|].
        eapply IH; [exact Hi1|discriminate|exact H|exact K].
  - apply jisnil_false in En. inversion H; subst.
    destruct K as [[K1 K2]|[[K1 _]|[K1 _]]]; try congruence. subst r. eapply R_err; eauto.
Qed.

Lemma jfeed_sound : forall n p s b r, inv p -> jfeed n pf p s b = Ok r -> Feed p s b r.
Proof.
  induction n as [|n IH]; intros p s b r Hi H; [discriminate|].
  cbn [jfeed] in H.
  destruct (zlen b >? 0) eqn:Eb.
  - assert (Hb : b <> []) by (intro; subst; discriminate).
    right; split; [exact Hb|].
    pose proof (wgt_le1 (jp_cur p)) as Hw.
    destruct (jfeed_until_ok pf (jfeed_fuel b) p s b b (length (jp_lit p) + length b)%nat
      (length (jp_states p) + length b)%nat Hi) as (p1 & s1 & rest & rep & e & Heq & _ & _ & Hn);
      [unfold jfeed_fuel; lia|lia|lia|].
    rewrite Heq in H.
    eapply jfeed_until_sound; [exact Hi|exact Hb|exact Heq|].
    destruct (jisnil e) eqn:Ee.
    + apply jisnil_true in Ee. subst e. destruct (Hn eq_refl) as (Hi1 & _).
      apply IH in H; [|exact Hi1]. destruct H as [[H1 H2]|[H1 H2]].
      * right; left; auto.
      * right; right; auto.
    + apply jisnil_false in Ee. inversion H; subst. left; auto.
  - inversion H; subst. left. split; [|reflexivity].
    destruct b; [reflexivity|]. unfold zlen in Eb. cbn [length] in Eb. lia.
Qed.


(* ------------------------------------------------------------------ *)
(* one step on a ++ b versus the same step on a                        *)
(* ------------------------------------------------------------------ *)
Lemma step_number_app_found : forall p s a b i d,
  scan_number a (jp_isdbl p) 0 = (Some i, d) ->
  step_number pf p s (a ++ b) =
  match step_number pf p s a with JS p1 s1 rest dd e => JS p1 s1 (rest ++ b) dd e | JCrash w => JCrash w end.
Proof.
  intros p s a b i d H. unfold step_number. rewrite scan_number_app, H.
  apply scan_number_lt in H. js.
  rewrite (firstn_app_le i), (skipn_app_le i) by lia.
  destruct (report_number pf s _ d) as [[s1 e]|]; reflexivity.
Qed.

Lemma step_number_app_more : forall p s a b d,
  scan_number a (jp_isdbl p) 0 = (None, d) ->
  step_number pf p s a = JS (jset_lit (jset_isdbl p d) (jp_lit p ++ a)) s [] false jpnil /\
  step_number pf p s (a ++ b) = step_number pf (jset_lit (jset_isdbl p d) (jp_lit p ++ a)) s b.
Proof.
  intros p s a b d H. unfold step_number. rewrite scan_number_app, H. js.
  split; [reflexivity|].
  rewrite (scan_number_shift b d 0 (length a)).
  destruct (scan_number b d 0) as [[j|] d2]; cbn [option_map]; js.
  - replace (j + length a)%nat with (length a + j)%nat by lia.
    rewrite firstn_app_2, skipn_app_ge, <- app_assoc. reflexivity.
  - rewrite <- app_assoc. reflexivity.
Qed.

(* the step on the longer input does the same and leaves b unread; after an
   error only the visitor and the error matter.  The "reported" flag is ignored. *)
Definition ext (b : bytes) (r r' : jsres) : Prop :=
  match r with
  | JCrash _ => True
  | JS p1 s1 rest d e =>
      match r' with
      | JCrash _ => False
      | JS p2 s2 rest' d' e' =>
          s1 = s2 /\ e = e' /\ (e = jpnil -> peq p1 p2 /\ rest' = rest ++ b)
      end
  end.

Lemma ext_same : forall b p s rest d d' e, ext b (JS p s rest d e) (JS p s (rest ++ b) d' e).
Proof. intros; cbn [ext]; auto using peq_refl. Qed.
Lemma ext_err : forall b p s rest d e p' rest' d',
  e <> jpnil -> ext b (JS p s rest d e) (JS p' s rest' d' e).
Proof. intros; cbn [ext]; repeat split; auto; congruence. Qed.
Lemma ext_refl : forall r, ext [] r r.
Proof. intros [p s rest d e|w]; cbn [ext]; auto. rewrite app_nil_r. auto using peq_refl. Qed.
Lemma ext_app : forall b r,
  ext b r (match r with JS p1 s1 rest d e => JS p1 s1 (rest ++ b) d e | JCrash w => JCrash w end).
Proof. intros b [p s rest d e|w]; [apply ext_same|exact I]. Qed.

Definition Dich (b : bytes) (r whole : jsres) : Prop :=
  match r with
  | JCrash _ => True
  | JS p1 s1 rest d e =>
      ext b r whole \/ (rest = [] /\ e = jpnil /\ ext [] (jstep pf p1 s1 b) whole)
  end.
Lemma Dich_ext : forall b r w, ext b r w -> Dich b r w.
Proof. intros b [] w H; [left; exact H|exact I]. Qed.

(* ---- null / true / false ---- *)
Lemma step_kind_spec : forall p s b kind ev,
  0 <= jp_req p <= zlen kind ->
  step_kind p s b kind ev =
  let n := jp_req p in
  let suffix := skipn (length kind - Z.to_nat n) kind in
  if zlen b <? n then
    if has_prefix b (firstn (length b) suffix) then JS (jset_req p (n - zlen b)) s [] false jpnil
    else JS (jset_req p (n - zlen b)) s b false jeGeneric
  else if has_prefix b suffix then let '(s2, e) := jvis s ev in JS (jpop p) s2 (skipn (Z.to_nat n) b) true e
       else JS p s b false jeGeneric.
Proof.
  intros p s b kind ev Hn. unfold step_kind. cbv zeta.
  destruct ((jp_req p <? 0) || (zlen kind <? jp_req p)) eqn:E; [lia|]. clear E.
  destruct (zlen b <? jp_req p) eqn:EL; cbn [negb].
  - replace (Z.to_nat (zlen b)) with (length b) by (unfold zlen; lia).
    destruct (has_prefix _ _); cbn [negb]; [|reflexivity].
    rewrite skipn_all. reflexivity.
  - rewrite (firstn_all2 (n := Z.to_nat (jp_req p))).
    + destruct (has_prefix _ _); reflexivity.
    + rewrite skipn_length. unfold zlen in *. lia.
Qed.


Lemma generic_not_nil : jeGeneric <> jpnil.
Proof. ust. lia. Qed.

Lemma step_kind_dich0 : forall p s a b kind ev,
  0 <= jp_req p <= zlen kind -> Forall ret_state (jp_states p) ->
  match step_kind p s a kind ev with
  | JCrash _ => True
  | JS p1 s1 rest d e =>
      ext b (JS p1 s1 rest d e) (step_kind p s (a ++ b) kind ev) \/
      (rest = [] /\ e = jpnil /\ jp_cur p1 = jp_cur p /\
       ext [] (step_kind p1 s1 b kind ev) (step_kind p s (a ++ b) kind ev))
  end.
Proof.
  intros p s a b kind ev Hn HF.
  rewrite (step_kind_spec p s a), (step_kind_spec p s (a ++ b)) by assumption. cbv zeta.
  set (n := jp_req p) in *. set (suffix := skipn (length kind - Z.to_nat n) kind).
  assert (Hsl : length suffix = Z.to_nat n).
  { unfold suffix. rewrite skipn_length. unfold zlen in Hn. lia. }
  rewrite zlen_app.
  destruct (zlen a <? n) eqn:Ea.
  - rewrite !has_prefix_app, firstn_firstn, skipn_firstn_comm, app_length.
    replace (Nat.min (length a) (length a + length b)) with (length a) by lia.
    replace (length a + length b - length a)%nat with (length b) by lia.
    destruct (has_prefix a (firstn (length a) suffix)) eqn:Ha; cbn [andb].
    + right. split; [reflexivity|]. split; [reflexivity|]. split; [reflexivity|].
      rewrite (step_kind_spec (jset_req p (n - zlen a)) s b) by (js; unfold zlen in *; lia). js. cbv zeta.
      assert (Hsuf : skipn (length kind - Z.to_nat (n - zlen a)) kind = skipn (length a) suffix).
      { unfold suffix. rewrite skipn_skipn'. f_equal. unfold zlen in *. lia. }
      rewrite Hsuf.
      replace (zlen a + zlen b <? n) with (zlen b <? n - zlen a) by lia.
      destruct (zlen b <? n - zlen a) eqn:Eb.
      * replace (n - (zlen a + zlen b)) with (n - zlen a - zlen b) by lia.
        destruct (has_prefix b _); [apply ext_refl|apply ext_err, generic_not_nil].
      * destruct (has_prefix b _); [|apply ext_err, generic_not_nil].
        destruct (jvis s ev) as [s2 e]. cbn [ext]. split; [reflexivity|]. split; [reflexivity|].
        intros _. split.
        -- apply peq_sym. apply (jpop_peq p (n - zlen a) HF).
        -- rewrite app_nil_r.
           replace (Z.to_nat n) with (length a + Z.to_nat (n - zlen a))%nat by (unfold zlen in *; lia).
           apply skipn_app_ge.
    + left. destruct (zlen a + zlen b <? n); apply ext_err, generic_not_nil.
  - replace (zlen a + zlen b <? n) with false by (pose proof (Zle_0_nat (length b)); unfold zlen in *; lia).
    rewrite has_prefix_app.
    rewrite (firstn_all2 (n := length a)) by (unfold zlen in *; lia).
    rewrite (skipn_all2 (n := length a)) by (unfold zlen in *; lia).
    rewrite has_prefix_nil, andb_true_r.
    destruct (has_prefix a suffix).
    + destruct (jvis s ev) as [s2 e]. left.
      rewrite skipn_app_le by (unfold zlen in *; lia). apply ext_same.
    + left. apply ext_err, generic_not_nil.
Qed.


(* ---- jstep in a given state ---- *)
Ltac ex_tac := intros p s b H; unfold jstep; rewrite H; reflexivity.
Lemma jstep_start : forall p s b, jp_cur p = jStart -> jstep pf p s b = step_value pf p s b jStart.
Proof. ex_tac. Qed.
Lemma jstep_dict : forall p s b, jp_cur p = jDict -> jstep pf p s b = step_dict p s b true.
Proof. ex_tac. Qed.
Lemma jstep_dictnext : forall p s b, jp_cur p = jDictNextField -> jstep pf p s b = step_dict p s b false.
Proof. ex_tac. Qed.
Lemma jstep_dictfield : forall p s b, jp_cur p = jDictField -> jstep pf p s b = step_dict_key p s b.
Proof. ex_tac. Qed.
Lemma jstep_sep : forall p s b, jp_cur p = jDictFieldValueSep ->
  jstep pf p s b = match trim_left b with
                   | [] => JS p s [] false jpnil
                   | x :: r => JS (jset_cur p jDictFieldValue) s r false (if x =? 58 then jpnil else jeGeneric)
                   end.
Proof. ex_tac. Qed.
Lemma jstep_dictvalue : forall p s b, jp_cur p = jDictFieldValue ->
  jstep pf p s b = step_value pf p s b jDictFieldStateEnd.
Proof. ex_tac. Qed.
Lemma jstep_dictend : forall p s b, jp_cur p = jDictFieldStateEnd -> jstep pf p s b = step_dict_value_end p s b.
Proof. ex_tac. Qed.
Lemma jstep_arr : forall p s b, jp_cur p = jArr -> jstep pf p s b = step_array p s b.
Proof. ex_tac. Qed.
Lemma jstep_arrvalue : forall p s b, jp_cur p = jArrValue ->
  jstep pf p s b = match step_value pf p s b jArrNext with JS p1 s1 r _ e => JS p1 s1 r false e | x => x end.
Proof. ex_tac. Qed.
Lemma jstep_arrnext : forall p s b, jp_cur p = jArrNext -> jstep pf p s b = step_arr_value_end p s b.
Proof. ex_tac. Qed.
Lemma jstep_null : forall p s b, jp_cur p = jNull -> jstep pf p s b = step_kind p s b kNull (EVal SNil).
Proof. ex_tac. Qed.
Lemma jstep_true : forall p s b, jp_cur p = jTrue -> jstep pf p s b = step_kind p s b kTrue (EVal (SBool true)).
Proof. ex_tac. Qed.
Lemma jstep_false : forall p s b, jp_cur p = jFalse -> jstep pf p s b = step_kind p s b kFalse (EVal (SBool false)).
Proof. ex_tac. Qed.
Lemma jstep_string : forall p s b, jp_cur p = jString -> jstep pf p s b = step_string p s b.
Proof. ex_tac. Qed.
Lemma jstep_number : forall p s b, jp_cur p = jNumber -> jstep pf p s b = step_number pf p s b.
Proof. ex_tac. Qed.
Lemma jstep_other : forall p s b, jp_cur p < 0 \/ 15 < jp_cur p -> jstep pf p s b = JS p s b false jeGeneric.
Proof.
  intros p s b H. unfold jstep.
  repeat match goal with |- context [jp_cur p =? ?c] =>
    let E := fresh "E" in destruct (jp_cur p =? c) eqn:E; [exfalso; ust; lia|clear E] end.
  reflexivity.
Qed.

(* ---- leaves ---- *)
Lemma step_kind_dich : forall p s a b kind ev,
  (forall q s' b', jp_cur q = jp_cur p -> jstep pf q s' b' = step_kind q s' b' kind ev) ->
  0 <= jp_req p <= zlen kind -> Forall ret_state (jp_states p) ->
  Dich b (step_kind p s a kind ev) (step_kind p s (a ++ b) kind ev).
Proof.
  intros p s a b kind ev Hj Hn HF.
  pose proof (step_kind_dich0 p s a b kind ev Hn HF) as H.
  destruct (step_kind p s a kind ev) as [p1 s1 rest d e|w]; [|exact I].
  cbn [Dich]. destruct H as [H|(H1 & H2 & H3 & H4)]; [left; exact H|].
  right. rewrite (Hj p1 s1 b H3). auto.
Qed.

Lemma step_string_dich : forall p s a b, jp_cur p = jString -> a <> [] ->
  Dich b (step_string p s a) (step_string p s (a ++ b)).
Proof.
  intros p s a b Hc Ha. unfold step_string.
  pose proof (do_string_app p a b Ha) as H. pose proof (do_string_same p a) as Hs.
  destruct (do_string p a) as [p1|p1 c r|p1|w].
  - destruct Hs as (H1 & _). cbn [Dich]. right. split; [reflexivity|]. split; [reflexivity|].
    rewrite H. rewrite jstep_string by congruence. apply ext_refl.
  - rewrite H. destruct (jvis s _) as [s1 e]. apply Dich_ext, ext_same.
  - rewrite H. apply Dich_ext, ext_err, generic_not_nil.
  - exact I.
Qed.

Lemma step_dict_key_dich : forall p s a b, jp_cur p = jDictField -> a <> [] ->
  Dich b (step_dict_key p s a) (step_dict_key p s (a ++ b)).
Proof.
  intros p s a b Hc Ha. unfold step_dict_key.
  pose proof (do_string_app p a b Ha) as H. pose proof (do_string_same p a) as Hs.
  destruct (do_string p a) as [p1|p1 c r|p1|w].
  - destruct Hs as (H1 & _). cbn [Dich]. right. split; [reflexivity|]. split; [reflexivity|].
    rewrite H. rewrite jstep_dictfield by congruence. apply ext_refl.
  - rewrite H. destruct (jvis s _) as [s1 e]. apply Dich_ext, ext_same.
  - rewrite H. apply Dich_ext, ext_err, generic_not_nil.
  - exact I.
Qed.

Lemma step_number_dich : forall p s a b, jp_cur p = jNumber ->
  Dich b (step_number pf p s a) (step_number pf p s (a ++ b)).
Proof.
  intros p s a b Hc.
  destruct (scan_number a (jp_isdbl p) 0) as [[i|] d] eqn:Es.
  - rewrite (step_number_app_found p s a b i d Es). apply Dich_ext, ext_app.
  - destruct (step_number_app_more p s a b d Es) as [H1 H2]. rewrite H1, H2.
    cbn [Dich]. right. split; [reflexivity|]. split; [reflexivity|].
    rewrite jstep_number by (js; exact Hc). apply ext_refl.
Qed.


(* ---- containers and separators ---- *)
Lemma end_container_dich : forall p s c r b ev,
  Dich b (end_container p s (c :: r) ev) (end_container p s (c :: r ++ b) ev).
Proof.
  intros. unfold end_container. destruct (jvis s ev) as [s1 e]. apply Dich_ext, ext_same.
Qed.

Ltac dich_ws Hj Et :=
  rewrite (trim_left_app_nil _ _ Et); cbn [Dich]; right;
  split; [reflexivity|]; split; [reflexivity|]; rewrite Hj; apply ext_refl.

Lemma step_dict_dich : forall p s a b ae,
  (forall b', jstep pf p s b' = step_dict p s b' ae) ->
  Dich b (step_dict p s a ae) (step_dict p s (a ++ b) ae).
Proof.
  intros p s a b ae Hj. unfold step_dict at 1 2.
  destruct (trim_left a) as [|c r] eqn:Et.
  - rewrite (trim_left_app_nil _ _ Et). cbn [Dich]. right.
    split; [reflexivity|]. split; [reflexivity|]. rewrite Hj. unfold step_dict. apply ext_refl.
  - rewrite (trim_left_app_cons _ _ _ _ Et).
    destruct (c =? 125).
    { destruct (negb ae); [apply Dich_ext, ext_err, generic_not_nil|apply end_container_dich]. }
    destruct (c =? 34); [apply Dich_ext; exact (ext_same b _ s (c :: r) _ _ _)|apply Dich_ext, ext_err, generic_not_nil].
Qed.

Lemma sep_dich : forall p s a b, jp_cur p = jDictFieldValueSep ->
  Dich b (jstep pf p s a) (jstep pf p s (a ++ b)).
Proof.
  intros p s a b Hc. rewrite !(jstep_sep p s _ Hc).
  destruct (trim_left a) as [|c r] eqn:Et.
  - rewrite (trim_left_app_nil _ _ Et). cbn [Dich]. right.
    split; [reflexivity|]. split; [reflexivity|]. rewrite (jstep_sep p s _ Hc). apply ext_refl.
  - rewrite (trim_left_app_cons _ _ _ _ Et). apply Dich_ext, ext_same.
Qed.

Lemma step_dict_value_end_dich : forall p s a b, jp_cur p = jDictFieldStateEnd ->
  Dich b (step_dict_value_end p s a) (step_dict_value_end p s (a ++ b)).
Proof.
  intros p s a b Hc. unfold step_dict_value_end at 1 2.
  destruct (trim_left a) as [|c r] eqn:Et.
  - rewrite (trim_left_app_nil _ _ Et). cbn [Dich]. right.
    split; [reflexivity|]. split; [reflexivity|]. rewrite (jstep_dictend p s _ Hc).
    unfold step_dict_value_end. apply ext_refl.
  - rewrite (trim_left_app_cons _ _ _ _ Et).
    destruct (c =? 125); [apply end_container_dich|].
    destruct (c =? 44); [apply Dich_ext, ext_same|apply Dich_ext, ext_err, generic_not_nil].
Qed.

Lemma step_array_dich : forall p s a b, jp_cur p = jArr ->
  Dich b (step_array p s a) (step_array p s (a ++ b)).
Proof.
  intros p s a b Hc. unfold step_array at 1 2.
  destruct (trim_left a) as [|c r] eqn:Et.
  - rewrite (trim_left_app_nil _ _ Et). cbn [Dich]. right.
    split; [reflexivity|]. split; [reflexivity|]. rewrite (jstep_arr p s _ Hc).
    unfold step_array. apply ext_refl.
  - rewrite (trim_left_app_cons _ _ _ _ Et).
    destruct (c =? 93); [apply end_container_dich|].
    apply Dich_ext; exact (ext_same b _ s (c :: r) _ _ _).
Qed.

Lemma step_arr_value_end_dich : forall p s a b, jp_cur p = jArrNext ->
  Dich b (step_arr_value_end p s a) (step_arr_value_end p s (a ++ b)).
Proof.
  intros p s a b Hc. unfold step_arr_value_end at 1 2.
  destruct (trim_left a) as [|c r] eqn:Et.
  - rewrite (trim_left_app_nil _ _ Et). cbn [Dich]. right.
    split; [reflexivity|]. split; [reflexivity|]. rewrite (jstep_arrnext p s _ Hc).
    unfold step_arr_value_end. apply ext_refl.
  - rewrite (trim_left_app_cons _ _ _ _ Et).
    destruct (c =? 93); [apply end_container_dich|].
    destruct (c =? 44); [apply Dich_ext, ext_same|apply Dich_ext, ext_err, generic_not_nil].
Qed.

(* ---- values ---- *)
Lemma step_value_dich : forall p s a b ret,
  (forall b', ext [] (jstep pf p s b') (step_value pf p s b' ret)) ->
  ret_state ret -> Forall ret_state (jp_states p) ->
  Dich b (step_value pf p s a ret) (step_value pf p s (a ++ b) ret).
Proof.
  intros p s a b ret Hj Hret HF. unfold step_value at 1 2.
  destruct (trim_left a) as [|c r] eqn:Et.
  - rewrite (trim_left_app_nil _ _ Et). cbn [Dich]. right.
    split; [reflexivity|]. split; [reflexivity|]. exact (Hj b).
  - rewrite (trim_left_app_cons _ _ _ _ Et).
    assert (HF' : Forall ret_state (if ret =? jFailed then jp_states p else ret :: jp_states p)).
    { destruct (ret =? jFailed); [exact HF|constructor; assumption]. }
    destruct (c =? 123). { destruct (jvis s _) as [s1 e]. apply Dich_ext, ext_same. }
    destruct (c =? 91). { destruct (jvis s _) as [s1 e]. apply Dich_ext, ext_same. }
    destruct (c =? 110).
    { apply step_kind_dich.
      - intros q s' b' Hq. apply jstep_null. rewrite Hq. reflexivity.
      - js. unfold zlen, kNull. cbn [length]. lia.
      - js. exact HF'. }
    destruct (c =? 102).
    { apply step_kind_dich.
      - intros q s' b' Hq. apply jstep_false. rewrite Hq. reflexivity.
      - js. unfold zlen, kFalse. cbn [length]. lia.
      - js. exact HF'. }
    destruct (c =? 116).
    { apply step_kind_dich.
      - intros q s' b' Hq. apply jstep_true. rewrite Hq. reflexivity.
      - js. unfold zlen, kTrue. cbn [length]. lia.
      - js. exact HF'. }
    destruct (c =? 34).
    { change (c :: r ++ b) with ((c :: r) ++ b). apply step_string_dich; [reflexivity|discriminate]. }
    destruct (_ || _).
    { change (c :: r ++ b) with ((c :: r) ++ b). apply step_number_dich. reflexivity. }
    apply Dich_ext, ext_err, generic_not_nil.
Qed.

Lemma Dich_norep : forall b r w,
  Dich b r w ->
  Dich b (match r with JS p1 s1 r0 _ e => JS p1 s1 r0 false e | JCrash x => JCrash x end)
         (match w with JS p1 s1 r0 _ e => JS p1 s1 r0 false e | JCrash x => JCrash x end).
Proof.
  intros b [p1 s1 r1 d1 e1|x] [p2 s2 r2 d2 e2|y]; cbn [Dich ext]; auto.
Qed.

Lemma cur_cases : forall c,
  c = jFailed \/ c = jStart \/ c = jArr \/ c = jArrValue \/ c = jArrNext \/ c = jDict \/ c = jDictField \/
  c = jDictNextField \/ c = jDictFieldValue \/ c = jDictFieldValueSep \/ c = jDictFieldStateEnd \/
  c = jNull \/ c = jTrue \/ c = jFalse \/ c = jString \/ c = jNumber \/ (c < 0 \/ 15 < c).
Proof. intros c. ust. lia. Qed.

Lemma jstep_dich : forall p s a b, inv p -> a <> [] ->
  Dich b (jstep pf p s a) (jstep pf p s (a ++ b)).
Proof.
  intros p s a b Hi Ha. inv_split Hi.
  destruct (cur_cases (jp_cur p)) as
    [Hc|[Hc|[Hc|[Hc|[Hc|[Hc|[Hc|[Hc|[Hc|[Hc|[Hc|[Hc|[Hc|[Hc|[Hc|[Hc|Hc]]]]]]]]]]]]]]]].
  - (* failed *)
    unfold jstep. rewrite Hc. change (jFailed =? jFailed) with true. cbv iota.
    apply Dich_ext, ext_err. destruct (jp_err p =? 0) eqn:E; [apply generic_not_nil|exact Her].
  - rewrite !(jstep_start p s _ Hc). apply step_value_dich; auto.
    + intros b'. rewrite (jstep_start p s _ Hc). apply ext_refl.
    + left; reflexivity.
  - rewrite !(jstep_arr p s _ Hc). apply step_array_dich; exact Hc.
  - rewrite !(jstep_arrvalue p s _ Hc).
    pose proof (step_value_dich p s a b jArrNext) as H.
    match type of H with ?A -> ?B -> ?C -> _ => assert (H1 : A); [|assert (H2 : B); [|specialize (H H1 H2 Hst)]] end.
    + intros b'. rewrite (jstep_arrvalue p s _ Hc).
      destruct (step_value pf p s b' jArrNext) as [p1 s1 r1 d1 e1|w]; [|exact I].
      cbn [ext]. rewrite app_nil_r. auto using peq_refl.
    + right; right; reflexivity.
    + apply Dich_norep in H.
      destruct (step_value pf p s a jArrNext), (step_value pf p s (a ++ b) jArrNext); exact H.
  - rewrite !(jstep_arrnext p s _ Hc). apply step_arr_value_end_dich; exact Hc.
  - rewrite !(jstep_dict p s _ Hc). apply step_dict_dich. intros b'. apply jstep_dict; exact Hc.
  - rewrite !(jstep_dictfield p s _ Hc). apply step_dict_key_dich; assumption.
  - rewrite !(jstep_dictnext p s _ Hc). apply step_dict_dich. intros b'. apply jstep_dictnext; exact Hc.
  - rewrite !(jstep_dictvalue p s _ Hc). apply step_value_dich; auto.
    + intros b'. rewrite (jstep_dictvalue p s _ Hc). apply ext_refl.
    + right; left; reflexivity.
  - apply sep_dich; exact Hc.
  - rewrite !(jstep_dictend p s _ Hc). apply step_dict_value_end_dich; exact Hc.
  - rewrite !(jstep_null p s _ Hc). apply step_kind_dich; auto.
    + intros q s' b' Hq. apply jstep_null. congruence.
    + unfold zlen, kNull. cbn [length]. lia.
  - rewrite !(jstep_true p s _ Hc). apply step_kind_dich; auto.
    + intros q s' b' Hq. apply jstep_true. congruence.
    + unfold zlen, kTrue. cbn [length]. lia.
  - rewrite !(jstep_false p s _ Hc). apply step_kind_dich; auto.
    + intros q s' b' Hq. apply jstep_false. congruence.
    + unfold zlen, kFalse. cbn [length]. lia.
  - rewrite !(jstep_string p s _ Hc). apply step_string_dich; assumption.
  - rewrite !(jstep_number p s _ Hc). apply step_number_dich; assumption.
  - rewrite !(jstep_other p s _ Hc). apply Dich_ext, ext_err, generic_not_nil.
Qed.


(* ------------------------------------------------------------------ *)
(* merging two consecutive feeds into one                              *)
(* ------------------------------------------------------------------ *)
(* same visitor, same error; the same parser (modulo peq) unless an error occurred *)
Definition sim (r r' : fres) : Prop :=
  let '(p, s, e) := r in let '(p', s', e') := r' in
  s = s' /\ e = e' /\ (e = jpnil -> peq p p').
Lemma sim_refl : forall r, sim r r.
Proof. intros [[p s] e]; cbn; auto using peq_refl. Qed.
Lemma sim_trans : forall r1 r2 r3, sim r1 r2 -> sim r2 r3 -> sim r1 r3.
Proof.
  intros [[p1 s1] e1] [[p2 s2] e2] [[p3 s3] e3] (A1 & A2 & A3) (B1 & B2 & B3). cbn [sim].
  split; [congruence|]. split; [congruence|]. intros E.
  eapply peq_trans; [apply A3; exact E|apply B3; congruence].
Qed.

Lemma inv_states : forall p, inv p -> Forall ret_state (jp_states p).
Proof. intros p H. apply H. Qed.

Lemma R_peq : forall p s b r, R p s b r -> forall q, peq p q -> inv p -> b <> [] ->
  exists r', R q s b r' /\ sim r r'.
Proof.
  induction 1 as [p s b p1 s1 rest d e E Hn | p s b p1 s1 rest d r E Hr HR IH | p s b p1 s1 d E];
    intros q Hq Hi Hb;
    pose proof (jstep_peq p q s b Hq (inv_states p Hi)) as Hp; rewrite E in Hp;
    destruct (jstep pf q s b) as [p2 s2 rest2 d2 e2|w] eqn:Eq; cbn [rpeq] in Hp; try contradiction;
    destruct Hp as (Hp1 & <- & <- & <- & <-).
  - exists (p2, s1, e). split; [eapply R_err; eauto|]. cbn [sim]. split; [reflexivity|]. split; [reflexivity|]. intros; congruence.
  - assert (Hi1 : inv p1) by (eapply jstep_inv; eauto).
    destruct (IH p2 Hp1 Hi1 Hr) as (r' & R' & S').
    exists r'. split; [eapply R_more; eauto|exact S'].
  - exists (p2, s1, jpnil). split; [eapply R_stop; eauto|]. cbn [sim]. auto.
Qed.

Lemma R_ext_nil : forall p1 s1 b p s x r,
  inv p1 -> b <> [] ->
  ext [] (jstep pf p1 s1 b) (jstep pf p s x) -> R p1 s1 b r ->
  exists r', R p s x r' /\ sim r r'.
Proof.
  intros p1 s1 b p s x r Hi Hb X H.
  inversion H; subst;
    match goal with E : jstep pf p1 s1 b = _ |- _ => rewrite E in X; rename E into E1 end;
    destruct (jstep pf p s x) as [pw sw restw dw ew|w] eqn:W; cbn [ext] in X;
    try contradiction; destruct X as (<- & <- & X).
  - eexists; split; [eapply R_err; eauto|]. cbn [sim]. split; [reflexivity|]. split; [reflexivity|]. intros; congruence.
  - destruct (X eq_refl) as (Hq & ->). rewrite app_nil_r in W.
    assert (Hi2 : inv p2) by (exact (jstep_inv _ _ _ _ _ _ _ Hi Hb E1)).
    match goal with HR : R p2 _ _ r |- _ => destruct (R_peq _ _ _ _ HR pw Hq Hi2) as (r' & R' & S'); [assumption|] end.
    exists r'. split; [eapply R_more; eauto|exact S'].
  - destruct (X eq_refl) as (Hq & ->). cbn [app] in W.
    eexists; split; [eapply R_stop; eauto|]. cbn [sim]. auto.
Qed.

Lemma R_merge : forall p s a r, R p s a r ->
  inv p -> a <> [] -> forall b, b <> [] ->
  (snd r <> jpnil -> exists p1', R p s (a ++ b) (p1', snd (fst r), snd r)) /\
  (snd r = jpnil -> forall r2, R (fst (fst r)) (snd (fst r)) b r2 ->
                   exists r2', R p s (a ++ b) r2' /\ sim r2 r2').
Proof.
  induction 1 as [p s a p1 s1 rest d e E Hn | p s a p1 s1 rest d r E Hr HR IH | p s a p1 s1 d E];
    intros Hi Ha b Hb;
    pose proof (jstep_dich p s a b Hi Ha) as D; rewrite E in D; cbn [Dich] in D.
  - cbn [fst snd]. split; [intros _|congruence].
    destruct D as [D|(_ & D & _)]; [|congruence].
    destruct (jstep pf p s (a ++ b)) as [p2 s2 rest2 d2 e2|w] eqn:W; cbn [ext] in D; [|contradiction].
    destruct D as (<- & <- & _). exists p2. eapply R_err; eauto.
  - destruct D as [D|(D & _)]; [|congruence].
    destruct (jstep pf p s (a ++ b)) as [p2 s2 rest2 d2 e2|w] eqn:W; cbn [ext] in D; [|contradiction].
    destruct D as (<- & <- & D). destruct (D eq_refl) as (Hq & ->).
    assert (Hi1 : inv p1) by (exact (jstep_inv _ _ _ _ _ _ _ Hi Ha E)).
    destruct (IH Hi1 Hr b Hb) as [IH1 IH2].
    assert (Hrb : rest ++ b <> []) by (apply app_nonnil; exact Hr).
    split.
    + intros Hn. destruct (IH1 Hn) as [p1' R1].
      destruct (R_peq _ _ _ _ R1 p2 Hq Hi1 Hrb) as ([[p1'' s''] e''] & R2 & S2).
      cbn [sim] in S2. destruct S2 as (<- & <- & _).
      exists p1''. eapply R_more; eauto.
    + intros Hn r2 R2. destruct (IH2 Hn r2 R2) as (r2' & R2' & S2).
      destruct (R_peq _ _ _ _ R2' p2 Hq Hi1 Hrb) as (r2'' & R3 & S3).
      exists r2''. split; [eapply R_more; eauto|eapply sim_trans; eauto].
  - cbn [fst snd]. split; [congruence|intros _ r2 R2].
    assert (Hi1 : inv p1) by (exact (jstep_inv _ _ _ _ _ _ _ Hi Ha E)).
    destruct D as [D|(_ & _ & D)].
    + destruct (jstep pf p s (a ++ b)) as [p2 s2 rest2 d2 e2|w] eqn:W; cbn [ext] in D; [|contradiction].
      destruct D as (<- & <- & D). destruct (D eq_refl) as (Hq & ->). cbn [app] in W.
      destruct (R_peq _ _ _ _ R2 p2 Hq Hi1 Hb) as (r2' & R3 & S3).
      exists r2'. split; [eapply R_more; eauto|exact S3].
    + eapply R_ext_nil; eauto.
Qed.

Lemma R_Inv : forall p s a r, R p s a r -> Inv p -> a <> [] -> snd r = jpnil -> Inv (fst (fst r)).
Proof.
  induction 1 as [p s a p1 s1 rest d e E Hn | p s a p1 s1 rest d r E Hr HR IH | p s a p1 s1 d E];
    intros HI Ha Hn'.
  - cbn in Hn'. congruence.
  - apply IH; auto. exact (jstep_Inv _ _ _ _ _ _ _ HI Ha E).
  - cbn. exact (jstep_Inv _ _ _ _ _ _ _ HI Ha E).
Qed.

Lemma Feed_Inv : forall p s a p1 s1, Feed p s a (p1, s1, jpnil) -> Inv p -> Inv p1.
Proof.
  intros p s a p1 s1 [[_ H]|[Ha H]] HI.
  - inversion H; subst. exact HI.
  - apply (R_Inv _ _ _ _ H HI Ha eq_refl).
Qed.

Lemma Feed_merge : forall p s a b p1 s1 e, inv p -> Feed p s a (p1, s1, e) ->
  (e <> jpnil -> exists p1', Feed p s (a ++ b) (p1', s1, e)) /\
  (e = jpnil -> forall r2, Feed p1 s1 b r2 -> exists r2', Feed p s (a ++ b) r2' /\ sim r2 r2').
Proof.
  intros p s a b p1 s1 e HI [[Ha H]|[Ha H]].
  - inversion H; subst. cbn [app]. split; [congruence|].
    intros _ r2 F2. exists r2. split; [exact F2|apply sim_refl].
  - destruct b as [|b0 br].
    + rewrite app_nil_r. split.
      * intros _. exists p1. right. auto.
      * intros -> r2 [[_ ->]|[Hb _]]; [|congruence].
        exists (p1, s1, jpnil). split; [right; auto|apply sim_refl].
    + assert (Hb : b0 :: br <> []) by discriminate.
      destruct (R_merge _ _ _ _ H HI Ha _ Hb) as [M1 M2]. cbn [fst snd] in M1, M2.
      split.
      * intros Hn. destruct (M1 Hn) as [p1' R1]. exists p1'. right. split; auto.
        apply app_nonnil; exact Ha.
      * intros Hn r2 [[Hb' _]|[_ R2]]; [congruence|].
        destruct (M2 Hn r2 R2) as (r2' & R2' & S2). exists r2'. split; [|exact S2].
        right. split; auto. apply app_nonnil; exact Ha.
Qed.


(* ------------------------------------------------------------------ *)
(* finalize, sequences of writes, Parse                                *)
(* ------------------------------------------------------------------ *)
Lemma jpop_req : forall p x, jpop (jset_req p x) = jset_req (jpop p) x.
Proof. intros p x. unfold jpop. js. destruct (jp_states p); reflexivity. Qed.

Lemma jfinalize_req : forall p x s,
  jfinalize pf (jset_req p x) s =
  match jfinalize pf p s with Some (p1, s1, e1) => Some (jset_req p1 x, s1, e1) | None => None end.
Proof.
  intros p x s. unfold jfinalize. js.
  destruct (jp_cur p =? jNumber).
  - destruct (report_number pf s (jp_lit p) (jp_isdbl p)) as [[s1 e]|]; [|reflexivity].
    destruct (jisnil e); cbn [negb]; [|reflexivity].
    rewrite jpop_req. js. destruct (_ && _); reflexivity.
  - cbn [negb]. destruct (_ && _); reflexivity.
Qed.

Lemma jfinalize_peq : forall p q s p' s' e',
  peq p q -> jfinalize pf p s = Some (p', s', e') -> exists q', jfinalize pf q s = Some (q', s', e').
Proof.
  intros p q s p' s' e' H E. rewrite (peq_setreq _ _ H), jfinalize_req, E. eauto.
Qed.

(* what a run on the whole input b reports: the visitor and the verdict *)
Definition Whole (p : jparser) (s : sink) (b : bytes) (o : sink * Z) : Prop :=
  exists pm sm em, Feed p s b (pm, sm, em) /\
    ((em <> jpnil /\ o = (sm, em)) \/
     (em = jpnil /\ exists p', jfinalize pf pm sm = Some (p', fst o, snd o))).

Lemma Whole_det : forall p s b o o', Whole p s b o -> Whole p s b o' -> o = o'.
Proof.
  intros p s b [so eo] [so' eo'] (pm & sm & em & F & O) (pm' & sm' & em' & F' & O').
  pose proof (Feed_det _ _ _ _ _ F F') as E. inversion E; subst.
  destruct O as [[O1 O2]|[O1 [q O2]]], O' as [[O1' O2']|[O1' [q' O2']]]; try congruence.
  cbn [fst snd] in *. rewrite O2 in O2'. inversion O2'; subst. reflexivity.
Qed.

Lemma jset_err_same : forall p e, jp_err p = e -> jset_err p e = p.
Proof. intros [c st l ie d r e0] e H. cbn in H. subst. reflexivity. Qed.

Lemma jp_write_Ok : forall p s c p1 s1 err, inv p -> jp_write pf p s c = Ok (p1, s1, err) ->
  exists p1', Feed p s c (p1', s1, err) /\ p1 = jset_err p1' (if jisnil err then 0 else err).
Proof.
  intros p s c p1 s1 err Hi H. unfold jp_write in H.
  destruct (jfeed (2 * length c + 2) pf p s c) as [[[p1' s1'] e']| | |] eqn:E; try discriminate.
  inversion H; subst. exists p1'. split; [|reflexivity].
  eapply jfeed_sound; eauto.
Qed.

Lemma with_final_Some : forall p s r, with_final pf p s = Ok r -> jfinalize pf p s = Some r.
Proof. intros p s r. unfold with_final. destruct (jfinalize pf p s); [intros [= ->]; reflexivity|discriminate]. Qed.

Lemma writes_whole : forall cs p s p' sf ef, Inv p ->
  jp_writes pf p s cs = Ok (p', sf, ef) -> Whole p s (concat cs) (sf, ef).
Proof.
  induction cs as [|c cs IH]; intros p s p' sf ef HI H.
  - cbn [jp_writes concat] in *. apply with_final_Some in H.
    exists p, s, jpnil. split; [left; auto|]. right. split; [reflexivity|]. exists p'. exact H.
  - cbn [jp_writes concat] in *.
    destruct (jp_write pf p s c) as [[[p1 s1] err]| | |] eqn:E; try discriminate.
    destruct (jp_write_Ok _ _ _ _ _ _ (proj1 HI) E) as (p1' & F & ->).
    destruct (Feed_merge p s c (concat cs) p1' s1 err (proj1 HI) F) as [M1 M2].
    destruct (jisnil err) eqn:Ee.
    + apply jisnil_true in Ee. subst err.
      assert (HI1 : Inv p1') by (eapply Feed_Inv; eauto).
      rewrite jset_err_same in H by apply HI1.
      destruct (IH _ _ _ _ _ HI1 H) as (pm & sm & em & F2 & O).
      destruct (M2 eq_refl _ F2) as ([[pm' sm'] em'] & F3 & S3).
      cbn [sim] in S3. destruct S3 as (<- & <- & S3).
      exists pm', sm, em. split; [exact F3|].
      destruct O as [O|[O1 [q O2]]]; [left; exact O|right].
      split; [exact O1|]. eapply jfinalize_peq; [apply S3; exact O1|exact O2].
    + inversion H; subst. apply jisnil_false in Ee.
      destruct (M1 Ee) as [p1'' F3].
      exists p1'', sf, ef. split; [exact F3|]. left. auto.
Qed.

Lemma parse_whole : forall s b p' sf ef,
  jp_parse pf jparser0 s b = Ok (p', sf, ef) -> Whole jparser0 s b (sf, ef).
Proof.
  intros s b p' sf ef H. unfold jp_parse in H.
  change (jset_cur (jset_lit _ []) jStart) with jparser0 in H.
  destruct (jfeed (2 * length b + 2) pf jparser0 s b) as [[[p1 s1] e1]| | |] eqn:E; try discriminate.
  apply jfeed_sound in E; [|apply inv0].
  exists p1, s1, e1. split; [exact E|].
  destruct (jisnil e1) eqn:Ee.
  - apply jisnil_true in Ee. right. split; [exact Ee|]. apply with_final_Some in H. exists p'. exact H.
  - apply jisnil_false in Ee. inversion H; subst. left. auto.
Qed.

(* ---------- C02 ---------- *)
(* Whenever the two runs return (they always do, see C03 in ParseSafety.v), they
   report exactly the same events and the same verdict, also when the input is
   rejected, for every visitor failure schedule vfail. *)
Theorem C02_json_chunks_strong : forall vfail cs1 cs2 ev1 e1 p1 ev2 e2 p2,
  concat cs1 = concat cs2 ->
  jrun_chunks pf vfail cs1 = Ok (ev1, e1, p1) -> jrun_chunks pf vfail cs2 = Ok (ev2, e2, p2) ->
  ev1 = ev2 /\ e1 = e2.
Proof.
  intros vfail cs1 cs2 ev1 e1 p1 ev2 e2 p2 Hc H1 H2. unfold jrun_chunks in *.
  destruct (jp_writes pf jparser0 (sink0 vfail) cs1) as [[[pf1 sf1] ef1]| | |] eqn:E1; try discriminate.
  destruct (jp_writes pf jparser0 (sink0 vfail) cs2) as [[[pf2 sf2] ef2]| | |] eqn:E2; try discriminate.
  apply (writes_whole _ _ _ _ _ _ Inv0) in E1. apply (writes_whole _ _ _ _ _ _ Inv0) in E2.
  rewrite Hc in E1. pose proof (Whole_det _ _ _ _ _ E1 E2) as E. inversion E; subst.
  inversion H1; inversion H2; subst. auto.
Qed.

Theorem C02_json_entry_strong : forall vfail cs ev1 e1 p1 ev2 e2 p2,
  jrun_parse pf vfail (concat cs) = Ok (ev1, e1, p1) -> jrun_chunks pf vfail cs = Ok (ev2, e2, p2) ->
  ev1 = ev2 /\ e1 = e2.
Proof.
  intros vfail cs ev1 e1 p1 ev2 e2 p2 H1 H2. unfold jrun_parse, jrun_chunks in *.
  destruct (jp_parse pf jparser0 (sink0 vfail) (concat cs)) as [[[pf1 sf1] ef1]| | |] eqn:E1; try discriminate.
  destruct (jp_writes pf jparser0 (sink0 vfail) cs) as [[[pf2 sf2] ef2]| | |] eqn:E2; try discriminate.
  apply parse_whole in E1. apply (writes_whole _ _ _ _ _ _ Inv0) in E2.
  pose proof (Whole_det _ _ _ _ _ E1 E2) as E. inversion E; subst.
  inversion H1; inversion H2; subst. auto.
Qed.

(* One-write split, as a statement about the model functions: when the three
   calls return, Write(a ++ b) does what Write(a); Write(b) does (the parsers agree
   modulo the dead field jp_req). *)
Lemma peq_set_err : forall p q e, peq p q -> peq (jset_err p e) (jset_err q e).
Proof. intros p q e (H1 & H2 & H3 & H4 & H5 & H6 & H7). unfold peq. js. repeat split; auto. Qed.

Theorem C02_json_write_split : forall p s a b p1 s1 p2 s2 e2 p3 s3 e3,
  Inv p ->
  jp_write pf p s a = Ok (p1, s1, jpnil) -> jp_write pf p1 s1 b = Ok (p2, s2, e2) ->
  jp_write pf p s (a ++ b) = Ok (p3, s3, e3) ->
  s3 = s2 /\ e3 = e2 /\ (e2 = jpnil -> peq p2 p3).
Proof.
  intros p s a b p1 s1 p2 s2 e2 p3 s3 e3 HI W1 W2 W3.
  destruct (jp_write_Ok _ _ _ _ _ _ (proj1 HI) W1) as (p1' & F1 & E1).
  assert (HI1 : Inv p1') by (eapply Feed_Inv; eauto).
  change (jisnil jpnil) with true in E1. cbv iota in E1.
  rewrite jset_err_same in E1 by apply HI1. subst p1.
  destruct (jp_write_Ok _ _ _ _ _ _ (proj1 HI1) W2) as (p2' & F2 & E2).
  destruct (jp_write_Ok _ _ _ _ _ _ (proj1 HI) W3) as (p3' & F3 & E3).
  destruct (Feed_merge p s a b p1' s1 jpnil (proj1 HI) F1) as [_ M2].
  destruct (M2 eq_refl _ F2) as ([[pm sm] em] & F4 & S4).
  pose proof (Feed_det _ _ _ _ _ F3 F4) as E. inversion E; subst.
  cbn [sim] in S4. destruct S4 as (<- & <- & S4).
  split; [reflexivity|]. split; [reflexivity|]. intros He.
  apply peq_set_err. apply S4. exact He.
Qed.

End JsonChunks.

(* The observation: both runs return; identical event lists and identical verdict
   (error code), whether the input is accepted or rejected.  The model delivers all
   strings and keys as EStrRef / EKeyRef, so no merging of delivery forms is needed. *)
Definition same_jobs (r1 r2 : res (list event * Z * jparser)) : Prop :=
  match r1, r2 with
  | Ok (ev1, e1, _), Ok (ev2, e2, _) => ev1 = ev2 /\ e1 = e2
  | _, _ => False
  end.

(* the weaker form of the task statement *)
Definition same_jobs_weak (r1 r2 : res (list event * Z * jparser)) : Prop :=
  match r1, r2 with
  | Ok (ev1, e1, _), Ok (ev2, e2, _) =>
      (e1 = jpnil /\ e2 = jpnil /\ ev1 = ev2) \/ (e1 <> jpnil /\ e2 <> jpnil)
  | _, _ => False
  end.
Lemma same_jobs_weaken : forall r1 r2, same_jobs r1 r2 -> same_jobs_weak r1 r2.
Proof.
  intros [[[ev1 e1] p1]| | |] [[[ev2 e2] p2]| | |] H; cbn in *; try contradiction.
  destruct H as [-> ->]. destruct (Z.eq_dec e2 jpnil); auto.
Qed.

Theorem C02_json_chunks : forall pf vfail cs1 cs2, concat cs1 = concat cs2 ->
  same_jobs (jrun_chunks pf vfail cs1) (jrun_chunks pf vfail cs2).
Proof.
  intros pf vfail cs1 cs2 Hc.
  destruct (C03_json_chunks_total_any pf vfail cs1) as (ev1 & e1 & p1 & H1).
  destruct (C03_json_chunks_total_any pf vfail cs2) as (ev2 & e2 & p2 & H2).
  rewrite H1, H2. cbn [same_jobs]. eapply C02_json_chunks_strong; eauto.
Qed.

Theorem C02_json_entry : forall pf vfail cs,
  same_jobs (jrun_parse pf vfail (concat cs)) (jrun_chunks pf vfail cs).
Proof.
  intros pf vfail cs.
  destruct (C03_json_parse_total_any pf vfail (concat cs)) as (ev1 & e1 & p1 & H1).
  destruct (C03_json_chunks_total_any pf vfail cs) as (ev2 & e2 & p2 & H2).
  rewrite H1, H2. cbn [same_jobs]. eapply C02_json_entry_strong; eauto.
Qed.

Corollary C02_json_chunks_weak : forall pf vfail cs1 cs2, concat cs1 = concat cs2 ->
  same_jobs_weak (jrun_chunks pf vfail cs1) (jrun_chunks pf vfail cs2).
Proof. intros. apply same_jobs_weaken, C02_json_chunks; assumption. Qed.
Corollary C02_json_entry_weak : forall pf vfail cs,
  same_jobs_weak (jrun_parse pf vfail (concat cs)) (jrun_chunks pf vfail cs).
Proof. intros. apply same_jobs_weaken, C02_json_entry. Qed.

(* The final parser states may really differ in jp_req: "true" in one write or in two. *)
Example C02_json_req_differs : forall pf,
  match jrun_chunks pf None [[116; 114; 117; 101]], jrun_chunks pf None [[116; 114]; [117; 101]] with
  | Ok (ev1, e1, p1), Ok (ev2, e2, p2) => ev1 = ev2 /\ e1 = e2 /\ jp_req p1 = 3 /\ jp_req p2 = 2
  | _, _ => False
  end.
Proof. intros pf. vm_compute. repeat split. Qed.

Print Assumptions C02_json_write_split.
Print Assumptions C02_json_chunks_strong.
Print Assumptions C02_json_entry_strong.
Print Assumptions C02_json_chunks.
Print Assumptions C02_json_entry.
Print Assumptions C02_json_chunks_weak.
Print Assumptions C02_json_entry_weak.
