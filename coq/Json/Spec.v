(* L0: reference decoder for JSON, written from RFC 8259 (sections 2-7 and 9),
   not from json/parse.go and not from Json/Parse.v.  Executable, total,
   fuelled; extracted to OCaml and used as an independent oracle.

   strconv.ParseFloat is an oracle [pf]: literal -> IEEE bits, [None] = range
   error.  Choices the RFC leaves to the implementation (section 6, 7, 9):
   - an integer literal (no frac, no exp) in [-2^63, 2^64) is that integer,
     exactly; an integer literal outside that range is RUnsupported (the
     parser may reject it or widen it to a float: the oracle does not judge);
   - every other number is the float [pf lit]; RUnsupported when pf = None;
   - a \uXXXX escape naming a high surrogate immediately followed by one
     naming a low surrogate is one code point; any other surrogate escape
     becomes U+FFFD;
   - raw bytes >= 0x20 other than quotation mark and reverse solidus are copied
     untouched (no UTF-8 validation);
   - members are kept in document order, duplicate names are kept.
   (In comments '' stands for the quotation mark.) *)
From SF Require Import Base.Prelude Base.Utf8 Core.Events.
Open Scope Z_scope.

(* ---------- section 2: ws = *( %x20 / %x09 / %x0A / %x0D ) ---------- *)
Definition is_ws (c : Z) : bool := (c =? 32) || (c =? 9) || (c =? 10) || (c =? 13).

Fixpoint skip_ws (b : bytes) : bytes :=
  match b with
  | [] => []
  | c :: r => if is_ws c then skip_ws r else b
  end.

(* ---------- section 3: the literal names ---------- *)
Definition kw_null : bytes := [110; 117; 108; 108].
Definition kw_true : bytes := [116; 114; 117; 101].
Definition kw_false : bytes := [102; 97; 108; 115; 101].

Inductive lit_result := LitOk (rest : bytes) | LitTrunc | LitBad.

Fixpoint match_lit (name b : bytes) : lit_result :=
  match name with
  | [] => LitOk b
  | x :: name' =>
      match b with
      | [] => LitTrunc
      | y :: b' => if x =? y then match_lit name' b' else LitBad
      end
  end.

(* ---------- section 7: strings ---------- *)
Inductive hex_result := HexOk (code : Z) (rest : bytes) | HexTrunc | HexBad.

Definition is_hex (c : Z) : bool := match hexval c with Some _ => true | None => false end.

(* 4HEXDIG *)
Definition hex4 (b : bytes) : hex_result :=
  match b with
  | h1 :: h2 :: h3 :: h4 :: rest =>
      match hexval h1, hexval h2, hexval h3, hexval h4 with
      | Some x, Some y, Some z, Some w => HexOk (x * 4096 + y * 256 + z * 16 + w) rest
      | _, _, _, _ => HexBad
      end
  | _ => if forallb is_hex b then HexTrunc else HexBad
  end.

Definition is_high_surrogate (c : Z) : bool := (55296 <=? c) && (c <=? 56319).   (* D800..DBFF *)
Definition is_low_surrogate (c : Z) : bool := (56320 <=? c) && (c <=? 57343).    (* DC00..DFFF *)

Inductive char_result := ChOk (out : bytes) (rest : bytes) | ChTrunc | ChBad.

(* the low half of a surrogate pair: \uDC00..\uDFFF right here *)
Definition low_escape (b : bytes) : option (Z * bytes) :=
  match b with
  | c1 :: c2 :: r =>
      if (c1 =? 92) && (c2 =? 117) then
        match hex4 r with
        | HexOk lo r' => if is_low_surrogate lo then Some (lo, r') else None
        | _ => None
        end
      else None
  | _ => None
  end.

(* escape: [r] is the input after the reverse solidus *)
Definition json_escape (r : bytes) : char_result :=
  match r with
  | [] => ChTrunc
  | x :: r2 =>
      if x =? 34 then ChOk [34] r2            (* \''  *)
      else if x =? 92 then ChOk [92] r2       (* \\  *)
      else if x =? 47 then ChOk [47] r2       (* \/  *)
      else if x =? 98 then ChOk [8] r2        (* \b  *)
      else if x =? 102 then ChOk [12] r2      (* \f  *)
      else if x =? 110 then ChOk [10] r2      (* \n  *)
      else if x =? 114 then ChOk [13] r2      (* \r  *)
      else if x =? 116 then ChOk [9] r2       (* \t  *)
      else if x =? 117 then                   (* \uXXXX *)
        match hex4 r2 with
        | HexTrunc => ChTrunc
        | HexBad => ChBad
        | HexOk code r3 =>
            if is_high_surrogate code then
              match low_escape r3 with
              | Some (lo, r4) => ChOk (encode_rune (utf16_decode code lo)) r4
              | None => ChOk (encode_rune rune_error) r3
              end
            else if is_low_surrogate code then ChOk (encode_rune rune_error) r3
            else ChOk (encode_rune code) r3
        end
      else ChBad
  end.

(* char = unescaped / escape ...; not called on a quotation mark *)
Definition json_char (b : bytes) : char_result :=
  match b with
  | [] => ChTrunc
  | c :: r =>
      if c =? 92 then json_escape r
      else if (c =? 34) || (c <? 32) then ChBad
      else ChOk [c] r
  end.

Inductive str_result := StrOk (s : bytes) (rest : bytes) | StrTrunc | StrBad.

(* *char quotation-mark: [b] is the input after the opening quotation mark *)
Fixpoint json_string_loop (fuel : nat) (b : bytes) (racc : bytes) : str_result :=
  match fuel with
  | O => StrTrunc
  | S f =>
      match b with
      | [] => StrTrunc
      | c :: r =>
          if c =? 34 then StrOk (rev racc) r
          else
            match json_char b with
            | ChOk out rest => json_string_loop f rest (rev out ++ racc)
            | ChTrunc => StrTrunc
            | ChBad => StrBad
            end
      end
  end.

Definition json_string (b : bytes) : str_result := json_string_loop (S (length b)) b [].

(* the same unescaping applied to a complete string body (the bytes between
   the quotation marks); None when the body is not *char *)
Fixpoint json_unescape_loop (fuel : nat) (s : bytes) : option bytes :=
  match fuel with
  | O => None
  | S f =>
      match s with
      | [] => Some []
      | c :: _ =>
          if c =? 34 then None
          else
            match json_char s with
            | ChOk out rest =>
                match json_unescape_loop f rest with
                | Some t => Some (out ++ t)
                | None => None
                end
            | _ => None
            end
      end
  end.

Definition json_unescape (s : bytes) : option bytes := json_unescape_loop (S (length s)) s.

(* ---------- section 6: numbers ---------- *)
Definition is_dig (c : Z) : bool := (48 <=? c) && (c <=? 57).

Fixpoint span_digits (b : bytes) : bytes * bytes :=
  match b with
  | [] => ([], [])
  | c :: r => if is_dig c then let '(ds, r') := span_digits r in (c :: ds, r') else ([], b)
  end.

Inductive part_result := POk (lit : bytes) (rest : bytes) | PTrunc | PBad.

(* int = zero / ( digit1-9 *DIGIT ) *)
Definition lex_int (b : bytes) : part_result :=
  match b with
  | [] => PTrunc
  | c :: r =>
      if c =? 48 then POk [48] r
      else if (49 <=? c) && (c <=? 57) then let '(ds, r') := span_digits r in POk (c :: ds) r'
      else PBad
  end.

(* 1*DIGIT *)
Definition lex_digits1 (b : bytes) : part_result :=
  match span_digits b with
  | ([], []) => PTrunc
  | ([], _ :: _) => PBad
  | (ds, r) => POk ds r
  end.

(* [ frac ], frac = decimal-point 1*DIGIT *)
Definition lex_frac (b : bytes) : part_result :=
  match b with
  | [] => POk [] b
  | c :: r =>
      if c =? 46 then
        match lex_digits1 r with
        | POk ds r' => POk (c :: ds) r'
        | e => e
        end
      else POk [] b
  end.

(* [ exp ], exp = e [ minus / plus ] 1*DIGIT *)
Definition lex_exp (b : bytes) : part_result :=
  match b with
  | [] => POk [] b
  | c :: r =>
      if (c =? 101) || (c =? 69) then
        let '(sg, r1) :=
          match r with
          | x :: r' => if (x =? 43) || (x =? 45) then ([x], r') else ([], r)
          | [] => ([], r)
          end in
        match lex_digits1 r1 with
        | POk ds r' => POk (c :: sg ++ ds) r'
        | e => e
        end
      else POk [] b
  end.

Definition is_nil {A} (l : list A) : bool := match l with [] => true | _ => false end.

Inductive num_result := NumOk (lit : bytes) (isint : bool) (rest : bytes) | NumTrunc | NumBad.

(* number = [ minus ] int [ frac ] [ exp ]; isint = no frac and no exp *)
Definition json_number (b : bytes) : num_result :=
  let '(sg, b1) :=
    match b with
    | c :: r => if c =? 45 then ([c], r) else ([], b)
    | [] => ([], b)
    end in
  match lex_int b1 with
  | PTrunc => NumTrunc
  | PBad => NumBad
  | POk i b2 =>
      match lex_frac b2 with
      | PTrunc => NumTrunc
      | PBad => NumBad
      | POk fr b3 =>
          match lex_exp b3 with
          | PTrunc => NumTrunc
          | PBad => NumBad
          | POk ex b4 => NumOk (sg ++ i ++ fr ++ ex) (is_nil fr && is_nil ex) b4
          end
      end
  end.

(* value of a sequence of decimal digits *)
Definition dec_value (ds : bytes) : Z := fold_left (fun a c => a * 10 + (c - 48)) ds 0.

(* value of an integer literal [ minus ] int *)
Definition int_value (lit : bytes) : Z :=
  match lit with
  | c :: ds => if c =? 45 then - dec_value ds else dec_value lit
  | [] => 0
  end.

(* None = outside the supported range *)
Definition json_num_value (pf : bytes -> option Z) (lit : bytes) (isint : bool) : option cnum :=
  if isint then
    let z := int_value lit in
    if (-9223372036854775808 <=? z) && (z <? 18446744073709551616) then Some (CInt z) else None
  else
    match pf lit with
    | Some bits => Some (CF64 bits)
    | None => None
    end.

(* ---------- sections 4, 5: objects and arrays ---------- *)
(* the elements after the first position of a non-empty array:
   value *( ws , ws value ) ws ]          ([value] skips leading ws itself) *)
Fixpoint json_elems (value : bytes -> ref_result) (g : nat) (b : bytes) (acc : list cvalue) : ref_result :=
  match g with
  | O => RTruncated
  | S g' =>
      match value b with
      | RValue v r =>
          match skip_ws r with
          | [] => RTruncated
          | c :: r' =>
              if c =? 44 then json_elems value g' r' (v :: acc)
              else if c =? 93 then RValue (CArr (rev (v :: acc))) r'
              else RMalformed
          end
      | e => e
      end
  end.

(* member *( ws , ws member ) ws },  member = string ws : ws value *)
Fixpoint json_members (value : bytes -> ref_result) (g : nat) (b : bytes) (acc : list (bytes * cvalue)) : ref_result :=
  match g with
  | O => RTruncated
  | S g' =>
      match skip_ws b with
      | [] => RTruncated
      | q :: r0 =>
          if negb (q =? 34) then RMalformed else
          match json_string r0 with
          | StrTrunc => RTruncated
          | StrBad => RMalformed
          | StrOk k r1 =>
              match skip_ws r1 with
              | [] => RTruncated
              | c :: r2 =>
                  if negb (c =? 58) then RMalformed else
                  match value r2 with
                  | RValue v r3 =>
                      match skip_ws r3 with
                      | [] => RTruncated
                      | d :: r4 =>
                          if d =? 44 then json_members value g' r4 ((k, v) :: acc)
                          else if d =? 125 then RValue (CObj (rev ((k, v) :: acc))) r4
                          else RMalformed
                      end
                  | e => e
                  end
              end
          end
      end
  end.

Definition lit_value (name : bytes) (v : cvalue) (b : bytes) : ref_result :=
  match match_lit name b with
  | LitOk rest => RValue v rest
  | LitTrunc => RTruncated
  | LitBad => RMalformed
  end.

(* ---------- section 3: value, after optional leading ws ---------- *)
Fixpoint json_ref (pf : bytes -> option Z) (fuel : nat) (b : bytes) : ref_result :=
  match fuel with
  | O => RTruncated
  | S f =>
      match skip_ws b with
      | [] => RTruncated
      | c :: r =>
          if c =? 110 then lit_value kw_null CNil (c :: r)
          else if c =? 116 then lit_value kw_true (CBool true) (c :: r)
          else if c =? 102 then lit_value kw_false (CBool false) (c :: r)
          else if c =? 34 then
            match json_string r with
            | StrOk s rest => RValue (CStr s) rest
            | StrTrunc => RTruncated
            | StrBad => RMalformed
            end
          else if c =? 91 then                                   (* [ *)
            match skip_ws r with
            | [] => RTruncated
            | d :: r' =>
                if d =? 93 then RValue (CArr []) r'
                else json_elems (json_ref pf f) f r []
            end
          else if c =? 123 then                                  (* { *)
            match skip_ws r with
            | [] => RTruncated
            | d :: r' =>
                if d =? 125 then RValue (CObj []) r'
                else json_members (json_ref pf f) f r []
            end
          else if (c =? 45) || is_dig c then
            match json_number (c :: r) with
            | NumOk lit isint rest =>
                match json_num_value pf lit isint with
                | Some n => RValue (CNum n) rest
                | None => RUnsupported
                end
            | NumTrunc => RTruncated
            | NumBad => RMalformed
            end
          else RMalformed
      end
  end.

(* JSON-text = ws value ws *)
Definition json_decode (pf : bytes -> option Z) (b : bytes) : ref_result :=
  match json_ref pf (S (length b)) b with
  | RValue v r =>
      match skip_ws r with
      | [] => RValue v []
      | _ :: _ => RMalformed
      end
  | e => e
  end.

(* a stream of values separated by whitespace (each value is followed by
   whitespace or the end of the input) *)
Fixpoint json_decode_all (pf : bytes -> option Z) (fuel : nat) (b : bytes) : option (list cvalue) :=
  match fuel with
  | O => None
  | S f =>
      match skip_ws b with
      | [] => Some []
      | c :: r =>
          match json_ref pf (S (length (c :: r))) (c :: r) with
          | RValue v rest =>
              let sep_ok := match rest with [] => true | x :: _ => is_ws x end in
              if sep_ok then
                match json_decode_all pf f rest with
                | Some vs => Some (v :: vs)
                | None => None
                end
              else None
          | _ => None
          end
      end
  end.

(* ---------- examples ---------- *)
Module JsonSpecExamples.
  (* a stand-in float oracle: the length of the literal *)
  Definition pf0 (l : bytes) : option Z := Some (zlen l).
  Definition pfnone (l : bytes) : option Z := None.

  (* {''a'':[1,-2.5e3,true,null],''b'':{}, ''a'' : ''x\n''} *)
  Example ex_nested :
    json_decode pf0
      [123; 34;97;34; 58; 91; 49; 44; 45;50;46;53;101;51; 44; 116;114;117;101; 44; 110;117;108;108; 93; 44;
       34;98;34; 58; 123; 125; 44; 32; 34;97;34; 32; 58; 32; 34;120;92;110;34; 125]
    = RValue (CObj [([97], CArr [CNum (CInt 1); CNum (CF64 6); CBool true; CNil]);
                    ([98], CObj []);
                    ([97], CStr [120; 10])]) [].
  Proof. vm_compute. reflexivity. Qed.

  (* [ [ ] , [[]] ] with whitespace everywhere *)
  Example ex_arrays :
    json_decode pf0 [32; 91; 10; 91; 9; 93; 13; 44; 32; 91; 91; 93; 93; 32; 93; 10]
    = RValue (CArr [CArr []; CArr [CArr []]]) [].
  Proof. vm_compute. reflexivity. Qed.

  (* ''\''\\\/\b\f\n\r\t\u00e9\u20AC'' *)
  Example ex_escapes :
    json_decode pf0
      [34; 92;34; 92;92; 92;47; 92;98; 92;102; 92;110; 92;114; 92;116;
       92;117;48;48;101;57; 92;117;50;48;65;67; 34]
    = RValue (CStr [34; 92; 47; 8; 12; 10; 13; 9; 195; 169; 226; 130; 172]) [].
  Proof. vm_compute. reflexivity. Qed.

  (* ''\ud83d\ude00'' = U+1F600 = F0 9F 98 80 *)
  Example ex_surrogate_pair :
    json_decode pf0 [34; 92;117;100;56;51;100; 92;117;100;101;48;48; 34]
    = RValue (CStr [240; 159; 152; 128]) [].
  Proof. vm_compute. reflexivity. Qed.

  (* ''\ud83dx'', ''\ude00'', ''\ud83dA'': lone surrogates become U+FFFD *)
  Example ex_lone_high :
    json_decode pf0 [34; 92;117;100;56;51;100; 120; 34] = RValue (CStr [239; 191; 189; 120]) [].
  Proof. vm_compute. reflexivity. Qed.
  Example ex_lone_low :
    json_decode pf0 [34; 92;117;100;101;48;48; 34] = RValue (CStr [239; 191; 189]) [].
  Proof. vm_compute. reflexivity. Qed.
  Example ex_high_then_bmp :
    json_decode pf0 [34; 92;117;100;56;51;100; 92;117;48;48;52;49; 34] = RValue (CStr [239; 191; 189; 65]) [].
  Proof. vm_compute. reflexivity. Qed.

  (* raw bytes >= 0x80 are copied untouched, valid UTF-8 or not *)
  Example ex_raw_bytes :
    json_decode pf0 [34; 195; 169; 255; 34] = RValue (CStr [195; 169; 255]) [].
  Proof. vm_compute. reflexivity. Qed.

  (* 64-bit boundaries *)
  Example ex_min_int64 :   (* -9223372036854775808 *)
    json_decode pf0 [45; 57;50;50;51;51;55;50;48;51;54;56;53;52;55;55;53;56;48;56]
    = RValue (CNum (CInt (-9223372036854775808))) [].
  Proof. vm_compute. reflexivity. Qed.
  Example ex_below_min_int64 :   (* -9223372036854775809 *)
    json_decode pf0 [45; 57;50;50;51;51;55;50;48;51;54;56;53;52;55;55;53;56;48;57] = RUnsupported.
  Proof. vm_compute. reflexivity. Qed.
  Example ex_max_int64_plus1 :   (* 9223372036854775808 *)
    json_decode pf0 [57;50;50;51;51;55;50;48;51;54;56;53;52;55;55;53;56;48;56]
    = RValue (CNum (CInt 9223372036854775808)) [].
  Proof. vm_compute. reflexivity. Qed.
  Example ex_max_uint64 :   (* 18446744073709551615 *)
    json_decode pf0 [49;56;52;52;54;55;52;52;48;55;51;55;48;57;53;53;49;54;49;53]
    = RValue (CNum (CInt 18446744073709551615)) [].
  Proof. vm_compute. reflexivity. Qed.
  Example ex_above_uint64 :   (* 18446744073709551616 *)
    json_decode pf0 [49;56;52;52;54;55;52;52;48;55;51;55;48;57;53;53;49;54;49;54] = RUnsupported.
  Proof. vm_compute. reflexivity. Qed.
  Example ex_minus_zero : json_decode pf0 [45; 48] = RValue (CNum (CInt 0)) [].
  Proof. vm_compute. reflexivity. Qed.
  Example ex_float_forms :   (* [0.5,1e2,1E+2,-0.0e-1] : literal lengths *)
    json_decode pf0 [91; 48;46;53; 44; 49;101;50; 44; 49;69;43;50; 44; 45;48;46;48;101;45;49; 93]
    = RValue (CArr [CNum (CF64 3); CNum (CF64 3); CNum (CF64 4); CNum (CF64 7)]) [].
  Proof. vm_compute. reflexivity. Qed.
  Example ex_float_range : json_decode pfnone [49;101;57;57;57] = RUnsupported.   (* 1e999 *)
  Proof. vm_compute. reflexivity. Qed.

  (* truncation *)
  Example ex_trunc_empty : json_decode pf0 [32] = RTruncated.
  Proof. vm_compute. reflexivity. Qed.
  Example ex_trunc_array : json_decode pf0 [91; 49; 44] = RTruncated.            (* [1, *)
  Proof. vm_compute. reflexivity. Qed.
  Example ex_trunc_array2 : json_decode pf0 [91; 49] = RTruncated.               (* [1 *)
  Proof. vm_compute. reflexivity. Qed.
  Example ex_trunc_object : json_decode pf0 [123; 34;97;34; 58] = RTruncated.    (* {''a'': *)
  Proof. vm_compute. reflexivity. Qed.
  Example ex_trunc_string : json_decode pf0 [34; 97; 92] = RTruncated.           (* ''a\ *)
  Proof. vm_compute. reflexivity. Qed.
  Example ex_trunc_hex : json_decode pf0 [34; 92;117;48;48] = RTruncated.        (* ''\u00 *)
  Proof. vm_compute. reflexivity. Qed.
  Example ex_trunc_lit : json_decode pf0 [116;114] = RTruncated.                 (* tr *)
  Proof. vm_compute. reflexivity. Qed.
  Example ex_trunc_minus : json_decode pf0 [45] = RTruncated.                    (* - *)
  Proof. vm_compute. reflexivity. Qed.
  Example ex_trunc_frac : json_decode pf0 [49;46] = RTruncated.                  (* 1. *)
  Proof. vm_compute. reflexivity. Qed.
  Example ex_trunc_exp : json_decode pf0 [49;101;43] = RTruncated.               (* 1e+ *)
  Proof. vm_compute. reflexivity. Qed.

  (* malformed *)
  Example ex_bad_leading_zero : json_decode pf0 [48;49] = RMalformed.            (* 01 *)
  Proof. vm_compute. reflexivity. Qed.
  Example ex_bad_plus : json_decode pf0 [43;49] = RMalformed.                    (* +1 *)
  Proof. vm_compute. reflexivity. Qed.
  Example ex_bad_dot : json_decode pf0 [46;53] = RMalformed.                     (* .5 *)
  Proof. vm_compute. reflexivity. Qed.
  Example ex_bad_frac : json_decode pf0 [49;46;101;49] = RMalformed.             (* 1.e1 *)
  Proof. vm_compute. reflexivity. Qed.
  Example ex_bad_trailing_comma : json_decode pf0 [91; 49; 44; 93] = RMalformed. (* [1,] *)
  Proof. vm_compute. reflexivity. Qed.
  Example ex_bad_missing_comma : json_decode pf0 [91; 49; 32; 50; 93] = RMalformed. (* [1 2] *)
  Proof. vm_compute. reflexivity. Qed.
  Example ex_bad_key : json_decode pf0 [123; 49; 58; 49; 125] = RMalformed.      (* {1:1} *)
  Proof. vm_compute. reflexivity. Qed.
  Example ex_bad_colon : json_decode pf0 [123; 34;97;34; 44; 49; 125] = RMalformed. (* {''a'',1} *)
  Proof. vm_compute. reflexivity. Qed.
  Example ex_bad_escape : json_decode pf0 [34; 92; 39; 34] = RMalformed.         (* ''\''' *)
  Proof. vm_compute. reflexivity. Qed.
  Example ex_bad_hex : json_decode pf0 [34; 92;117;48;48;103;48; 34] = RMalformed. (* ''\u00g0'' *)
  Proof. vm_compute. reflexivity. Qed.
  Example ex_bad_control : json_decode pf0 [34; 10; 34] = RMalformed.            (* raw LF in a string *)
  Proof. vm_compute. reflexivity. Qed.
  Example ex_bad_ws : json_decode pf0 [12; 49] = RMalformed.                     (* form feed is not ws *)
  Proof. vm_compute. reflexivity. Qed.
  Example ex_bad_nbsp : json_decode pf0 [160; 49] = RMalformed.                  (* 0xA0 is not ws *)
  Proof. vm_compute. reflexivity. Qed.
  Example ex_bad_literal : json_decode pf0 [110;117;108;76] = RMalformed.        (* nulL *)
  Proof. vm_compute. reflexivity. Qed.
  Example ex_bad_two_values : json_decode pf0 [49; 32; 50] = RMalformed.         (* 1 2 *)
  Proof. vm_compute. reflexivity. Qed.
  Example ex_bad_close : json_decode pf0 [93] = RMalformed.                      (* ] *)
  Proof. vm_compute. reflexivity. Qed.

  (* streams *)
  Example ex_stream :   (* 1 ''a'' [] \n {} *)
    json_decode_all pf0 20 [49; 32; 34;97;34; 32; 91;93; 10; 123;125]
    = Some [CNum (CInt 1); CStr [97]; CArr []; CObj []].
  Proof. vm_compute. reflexivity. Qed.
  Example ex_stream_empty : json_decode_all pf0 5 [32; 10] = Some [].
  Proof. vm_compute. reflexivity. Qed.
  Example ex_stream_unseparated : json_decode_all pf0 5 [91;93; 91;93] = None.   (* [][] *)
  Proof. vm_compute. reflexivity. Qed.

  (* unescape of a string body *)
  Example ex_unescape : json_unescape [97; 92;110; 195;169; 92;117;100;56;51;100; 92;117;100;101;48;48]
    = Some [97; 10; 195; 169; 240; 159; 152; 128].
  Proof. vm_compute. reflexivity. Qed.
  Example ex_unescape_quote : json_unescape [97; 34; 98] = None.
  Proof. vm_compute. reflexivity. Qed.
End JsonSpecExamples.
