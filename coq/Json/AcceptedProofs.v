(* C09 for the JSON parser model on EVERY accepted input (Json/Parse.v).

   The parser is lenient ("+1", "01", "\'", Latin-1 white space ...; a lone sign "-" / "+"
   is no longer among them: C03_json_lone_sign_rejected), so the
   inputs it accepts are a strict superset of the inputs of the RFC 8259 reference decoder
   (Json/Spec.v) for which C09_json_parser (Core/ComposeProofs.v) speaks.  Here the gap is
   closed by reasoning about the parser alone:

   - structure (balanced containers, one key before every member value): the frame
     invariant [Frames] of Json/ParseVisitorProofs.v (jfeed_until_F), lifted here over the
     outer loop [jfeed], [jfinalize], Parse and the pull decoder;
   - content: every single event the parser delivers is [ev_ok] (containers are announced
     with length -1 and BaseType Any, strings and keys are byte strings, int64/uint64 come
     out of the integer scanner within range, float bits come from [pf]);
   - a tree all of whose events are [ev_ok] is well formed (flatten_ok_wf).

   Main theorems (all closed under the global context):
     C09_json_accepted            whole-buffer Parse, any visitor-failure index
     C09_json_accepted_stream     the same through the monitor [stream_trees]
     C09_json_accepted_contract   one contract_ok per top-level value; contract_ok for
                                  an input with exactly one top-level value
     C09_json_accepted_chunks     Write ... Write, finalize, in any chunking (via C02)
     C18_json_next_wf             the tree of a nil Next of the pull decoder is well formed *)
From Coq Require Import Setoid List NArith ZArith Bool Lia.
From Coq Require Import ZifyBool ZifyNat ZifyN.
From SF Require Import Base.Prelude Base.Utf8 Core.Events Core.EventsProofs Core.AdapterProofs
  Json.Parse Json.ParseSafety Json.ChunkProofs Json.ParseVisitorProofs.
From SF Require Json.SpecProofs.
Import ListNotations.
Open Scope Z_scope.
Ltac Zify.zify_post_hook ::= Z.div_mod_to_equations.

(* ====================================================================== *)
(* Part A: events of the shape the JSON parser delivers                    *)
(* ====================================================================== *)
Definition ev_ok (e : event) : bool :=
  match e with
  | EVal s => scalar_ok s
  | EStrRef s => all_bytes s
  | EArrStart len bt | EObjStart len bt => (len =? -1) && btype_eqb bt BAny
  | EArrEnd | EObjEnd => true
  | EKey k | EKeyRef k => all_bytes k
  | EXArr _ _ | EXObj _ _ => false
  end.

Lemma start_ok_inv : forall len bt, (len =? -1) && btype_eqb bt BAny = true -> len = -1 /\ bt = BAny.
Proof.
  intros len bt H. apply andb_true_iff in H. destruct H as [H1 H2]. split; [lia|].
  destruct bt; try reflexivity; vm_compute in H2; discriminate H2.
Qed.

Lemma forallb_any_matches : forall es, forallb (tree_matches BAny) es = true.
Proof. induction es as [|e es IH]; [reflexivity|]. cbn [forallb tree_matches]. exact IH. Qed.

Lemma elems_ok_wf : forall es,
  Forall (fun t => forallb ev_ok (flatten t) = true -> wf_tree t = true) es ->
  forallb ev_ok (flatten_elems es) = true -> forallb wf_tree es = true.
Proof.
  induction 1 as [|e es He Hes IHes]; intros H; [reflexivity|].
  unfold flatten_elems in H. cbn [flat_map] in H. rewrite forallb_app in H.
  apply andb_true_iff in H. destruct H as [H1 H2]. cbn [forallb]. rewrite (He H1). exact (IHes H2).
Qed.

Lemma members_ok_wf : forall ms : list (bytes * bool * tree),
  Forall (fun m => forallb ev_ok (flatten (snd m)) = true -> wf_tree (snd m) = true) ms ->
  forallb ev_ok (flatten_members ms) = true ->
  forallb (fun m => all_bytes (fst (fst m)) && wf_tree (snd m)) ms = true.
Proof.
  induction 1 as [|[[k r] e] ms He Hes IHes]; intros H; [reflexivity|].
  unfold flatten_members in H. cbn [flat_map] in H. fold (flatten_members ms) in H.
  cbn [forallb app] in H. apply andb_true_iff in H. destruct H as [Hk H]. rewrite forallb_app in H.
  apply andb_true_iff in H. destruct H as [H1 H2]. cbn [forallb fst snd] in *.
  rewrite (He H1). rewrite (IHes H2).
  destruct r; cbn [key_event ev_ok] in Hk; rewrite Hk; reflexivity.
Qed.

(* a tree all of whose events are ev_ok satisfies the Visitor contract *)
Lemma flatten_ok_wf : forall t, forallb ev_ok (flatten t) = true -> wf_tree t = true.
Proof.
  induction t as [s r|len bt es IH|len bt ms IH|bt es|bt ms] using tree_ind'; intros H.
  - destruct s as [| |x|k z], r; cbn [flatten forallb ev_ok] in H; cbn [wf_tree];
      rewrite andb_true_r in H; exact H.
  - rewrite flatten_arr in H. cbn [forallb ev_ok] in H. apply andb_true_iff in H. destruct H as [H0 H].
    apply start_ok_inv in H0. destruct H0 as [-> ->].
    rewrite forallb_app in H. apply andb_true_iff in H. destruct H as [H _].
    rewrite wf_arr. rewrite forallb_any_matches, (elems_ok_wf es IH H). reflexivity.
  - rewrite flatten_obj in H. cbn [forallb ev_ok] in H. apply andb_true_iff in H. destruct H as [H0 H].
    apply start_ok_inv in H0. destruct H0 as [-> ->].
    rewrite forallb_app in H. apply andb_true_iff in H. destruct H as [H _].
    rewrite wf_obj. rewrite (members_ok_wf ms IH H).
    assert (Hm : forallb (fun m : bytes * bool * tree => tree_matches BAny (snd m)) ms = true).
    { clear. induction ms as [|m ms IHm]; [reflexivity|]. cbn [forallb tree_matches]. exact IHm. }
    rewrite Hm. reflexivity.
  - cbn [flatten forallb ev_ok] in H. discriminate H.
  - cbn [flatten forallb ev_ok] in H. discriminate H.
Qed.

Lemma flat_map_ok_wf : forall ts, forallb ev_ok (flat_map flatten ts) = true -> forallb wf_tree ts = true.
Proof.
  induction ts as [|t ts IH]; intros H; [reflexivity|].
  cbn [flat_map] in H. rewrite forallb_app in H. apply andb_true_iff in H. destruct H as [H1 H2].
  cbn [forallb]. rewrite (flatten_ok_wf t H1). exact (IH H2).
Qed.

(* the monitor for a stream of top-level values reads the trees back *)
Lemma stream_trees_flatten : forall ts fuel, (length ts < fuel)%nat ->
  stream_trees fuel (flat_map flatten ts) = Some (map norm ts).
Proof.
  induction ts as [|t ts IH]; intros fuel Hf.
  - destruct fuel as [|f]; [lia|]. reflexivity.
  - destruct fuel as [|f]; [lia|]. cbn [flat_map map length] in *.
    destruct (flatten_head t) as (h & tl & E & _).
    assert (Hs : stream_trees (S f) (flatten t ++ flat_map flatten ts) =
                 match parse_tree (S (length (flatten t ++ flat_map flatten ts))) (flatten t ++ flat_map flatten ts) with
                 | Some (t0, r) => match stream_trees f r with Some ts0 => Some (t0 :: ts0) | None => None end
                 | None => None
                 end).
    { rewrite E. reflexivity. }
    rewrite Hs. rewrite parse_flatten by (rewrite app_length; lia).
    rewrite IH by lia. reflexivity.
Qed.

Lemma flat_map_length_ge : forall ts, (length ts <= length (flat_map flatten ts))%nat.
Proof.
  induction ts as [|t ts IH]; [cbn; lia|]. cbn [flat_map length]. rewrite app_length.
  pose proof (flatten_length_pos t). lia.
Qed.

(* ====================================================================== *)
(* Part B: every delivered event is ev_ok                                  *)
(* ====================================================================== *)
Lemma all_bytes_app : forall a b, all_bytes (a ++ b) = all_bytes a && all_bytes b.
Proof. exact Json.SpecProofs.all_bytes_app. Qed.
Lemma all_bytes_rev : forall l, all_bytes (rev l) = all_bytes l.
Proof. exact Json.SpecProofs.all_bytes_rev. Qed.

Lemma all_bytes_cons : forall c r, all_bytes (c :: r) = true -> is_byte c = true /\ all_bytes r = true.
Proof. intros c r H. cbn [all_bytes forallb] in H. apply andb_true_iff in H. exact H. Qed.

Lemma all_bytes_firstn : forall n b, all_bytes b = true -> all_bytes (firstn n b) = true.
Proof.
  induction n as [|n IH]; intros b H; [reflexivity|]. destruct b as [|c r]; [reflexivity|].
  apply all_bytes_cons in H. destruct H as [H1 H2]. cbn [firstn all_bytes forallb]. rewrite H1.
  exact (IH r H2).
Qed.

Lemma all_bytes_skipn : forall n b, all_bytes b = true -> all_bytes (skipn n b) = true.
Proof.
  induction n as [|n IH]; intros b H; [exact H|]. destruct b as [|c r]; [reflexivity|].
  apply all_bytes_cons in H. destruct H as [_ H2]. cbn [skipn]. exact (IH r H2).
Qed.

Lemma trim_left_bytes : forall b, all_bytes b = true -> all_bytes (trim_left b) = true.
Proof.
  induction b as [|c r IH]; intros H; [reflexivity|]. cbn [trim_left].
  destruct (is_space c); [|exact H]. apply all_bytes_cons in H. apply IH, H.
Qed.

Lemma trim_left_tail_bytes : forall b c r, all_bytes b = true -> trim_left b = c :: r ->
  all_bytes (c :: r) = true /\ all_bytes r = true.
Proof.
  intros b c r Hb E. apply trim_left_bytes in Hb. rewrite E in Hb. split; [exact Hb|].
  apply all_bytes_cons in Hb. apply Hb.
Qed.

(* ---------- unquote produces bytes ---------- *)
Lemma cons_bytes : forall c l, is_byte c = true -> all_bytes l = true -> all_bytes (c :: l) = true.
Proof. intros c l H1 H2. cbn [all_bytes forallb]. rewrite H1. exact H2. Qed.

Lemma unquote_loop_bytes : forall fuel s racc out,
  all_bytes s = true -> all_bytes racc = true -> unquote_loop fuel s racc = UQ out -> all_bytes out = true.
Proof.
  induction fuel as [|f IH]; intros s racc out Hs Ha H; [discriminate|].
  destruct s as [|c r]; cbn [unquote_loop] in H.
  { inversion H; subst. rewrite all_bytes_rev. exact Ha. }
  pose proof (all_bytes_cons _ _ Hs) as [Hc Hr].
  destruct (c =? 92).
  - destruct r as [|x r2]; [discriminate|].
    pose proof (all_bytes_cons _ _ Hr) as [Hx Hr2].
    destruct ((x =? 34) || (x =? 92) || (x =? 47) || (x =? 39)).
    { eapply IH; [exact Hr2| |exact H]. apply cons_bytes; assumption. }
    destruct (x =? 98). { eapply IH; [exact Hr2| |exact H]. apply cons_bytes; [reflexivity|assumption]. }
    destruct (x =? 102). { eapply IH; [exact Hr2| |exact H]. apply cons_bytes; [reflexivity|assumption]. }
    destruct (x =? 110). { eapply IH; [exact Hr2| |exact H]. apply cons_bytes; [reflexivity|assumption]. }
    destruct (x =? 114). { eapply IH; [exact Hr2| |exact H]. apply cons_bytes; [reflexivity|assumption]. }
    destruct (x =? 116). { eapply IH; [exact Hr2| |exact H]. apply cons_bytes; [reflexivity|assumption]. }
    destruct (x =? 117); [|discriminate].
    destruct (zlen r2 <? 4); [discriminate|].
    destruct (parse_hex4 (firstn 4 r2)) as [code|]; [|discriminate].
    assert (Hr3 : all_bytes (skipn 4 r2) = true) by (apply all_bytes_skipn; exact Hr2).
    remember (skipn 4 r2) as r3 eqn:Er3. clear Er3.
    assert (Hacc : forall ru, all_bytes (rev (encode_rune ru) ++ racc) = true).
    { intros ru. rewrite all_bytes_app, all_bytes_rev, Json.SpecProofs.encode_rune_bytes. exact Ha. }
    cbv zeta in H.
    destruct (is_surrogate code).
    + match type of H with (let '(ru, r4) := ?X in _) = _ => destruct X as [ru r4] eqn:EX end.
      assert (Hr4 : all_bytes r4 = true).
      { destruct (_ && _).
        - destruct (parse_hex4 _) as [code2|].
          + destruct (_ =? rune_error); injection EX as <- <-; [exact Hr3|exact (all_bytes_skipn 6 r3 Hr3)].
          + injection EX as <- <-. exact Hr3.
        - injection EX as <- <-. exact Hr3. }
      eapply IH; [exact Hr4|apply Hacc|exact H].
    + eapply IH; [exact Hr3|apply Hacc|exact H].
  - destruct ((c =? 34) || (c <? 32)); [discriminate|].
    destruct (c <? 128).
    + eapply IH; [exact Hr| |exact H]. apply cons_bytes; assumption.
    + destruct (decode_rune (c :: r)) as [ru sz].
      eapply IH; [apply all_bytes_skipn; exact Hs| |exact H].
      rewrite all_bytes_app, all_bytes_rev, (all_bytes_firstn _ _ Hs). exact Ha.
Qed.

Lemma unquote_bytes : forall s out, all_bytes s = true -> unquote s = UQ out -> all_bytes out = true.
Proof.
  intros s out Hs H. unfold unquote in H.
  destruct (Nat.eqb _ _); [inversion H; subst; exact Hs|].
  eapply unquote_loop_bytes; [| |exact H].
  - apply all_bytes_skipn; exact Hs.
  - rewrite all_bytes_rev. apply all_bytes_firstn; exact Hs.
Qed.

Lemma do_string_bytes : forall p b, all_bytes (jp_lit p) = true -> all_bytes b = true ->
  match do_string p b with
  | DSMore p1 => all_bytes (jp_lit p1) = true
  | DSDone p1 out rest => all_bytes (jp_lit p1) = true /\ all_bytes out = true /\ all_bytes rest = true
  | DSErr p1 => all_bytes (jp_lit p1) = true
  | DSCrash _ => True
  end.
Proof.
  intros p b Hl Hb. unfold do_string.
  destruct (if zlen (jp_lit p) =? 0 then _ else _) as [buf|]; [|exact I].
  destruct (scan_quote buf (jp_inesc p) 0) as [found inesc].
  destruct found as [i|]; jsimp.
  - destruct (zlen _ <? 2); [exact I|].
    destruct (unquote _) as [out| |] eqn:Eu; jsimp; auto.
    split; [reflexivity|]. split; [|apply all_bytes_skipn; exact Hb].
    eapply unquote_bytes; [|exact Eu].
    apply all_bytes_firstn, all_bytes_skipn. rewrite all_bytes_app, Hl. apply all_bytes_firstn; exact Hb.
  - rewrite all_bytes_app, Hl, Hb. reflexivity.
Qed.

(* ---------- the integer scanner ---------- *)
Lemma parse_uint_range : forall b n u, 0 <= n <= 18446744073709551615 ->
  parse_uint b n = Some u -> 0 <= u <= 18446744073709551615.
Proof.
  induction b as [|c r IH]; intros n u Hn H; cbn [parse_uint] in H.
  - inversion H; subst. exact Hn.
  - cbv zeta in H. destruct ((c - 48 <? 0) || (c - 48 >? 9)) eqn:Ed; [discriminate|].
    destruct (n >=? 1844674407370955162) eqn:Ec; [discriminate|].
    destruct (n * 10 + (c - 48) >? 18446744073709551615) eqn:Eo; [discriminate|].
    eapply IH; [|exact H]. lia.
Qed.

(* ---------- sinks: only ev_ok events are added ---------- *)
Definition Ext (s s1 : sink) : Prop := exists l, s1 = s_add s l /\ forallb ev_ok l = true.

Lemma Ext_refl : forall s, Ext s s.
Proof. intros s. exists []. rewrite s_add_nil. auto. Qed.

Lemma Ext_trans : forall s1 s2 s3, Ext s1 s2 -> Ext s2 s3 -> Ext s1 s3.
Proof.
  intros s1 s2 s3 (l1 & -> & H1) (l2 & -> & H2). exists (l1 ++ l2). rewrite s_add_add.
  split; [reflexivity|]. rewrite forallb_app, H1, H2. reflexivity.
Qed.

Lemma Ext_vis : forall s ev s1 e, ev_ok ev = true -> jvis s ev = (s1, e) -> Ext s s1.
Proof.
  intros s ev s1 e Hok H. apply jvis_add' in H. subst s1. exists [ev]. split; [reflexivity|].
  cbn [forallb]. rewrite Hok. reflexivity.
Qed.

Lemma s_add_inj : forall s l1 l2, s_add s l1 = s_add s l2 -> l1 = l2.
Proof.
  intros s l1 l2 H. unfold s_add in H. injection H as H _.
  apply app_inv_tail in H. rewrite <- (rev_involutive l1), <- (rev_involutive l2), H. reflexivity.
Qed.

Lemma Ext_add : forall s l, Ext s (s_add s l) -> forallb ev_ok l = true.
Proof. intros s l (l' & E & H). apply s_add_inj in E. subst l'. exact H. Qed.

(* outcome of a step: only ev_ok events, literal buffer and rest stay byte strings *)
Definition Sok (s : sink) (r : jsres) : Prop :=
  match r with
  | JCrash _ => True
  | JS p1 s1 rest _ _ => Ext s s1 /\ all_bytes (jp_lit p1) = true /\ all_bytes rest = true
  end.

Lemma jpop_lit : forall p, jp_lit (jpop p) = jp_lit p.
Proof. intros p. unfold jpop. destruct (jp_states p); reflexivity. Qed.

Ltac jpsimp := cbn [jpush jp_cur jp_states jp_lit jp_inesc jp_isdbl jp_req jp_err
                    jset_cur jset_lit jset_inesc jset_isdbl jset_req jset_err] in *.

Section JsonAccepted.
Variable pf : bytes -> option Z.
Hypothesis pf_ok : forall l z, pf l = Some z -> in_u 64 z = true.

Lemma report_number_ok : forall s b dbl s1 e, report_number pf s b dbl = Some (s1, e) -> Ext s s1.
Proof.
  intros s b dbl s1 e H. unfold report_number in H.
  destruct dbl.
  - destruct (pf b) as [bits|] eqn:Ep; [|inversion H; subst; apply Ext_refl].
    destruct (jvis s (EVal (SNum KFloat64 bits))) as [s2 e2] eqn:Ev. inversion H; subst.
    eapply Ext_vis; [|exact Ev]. cbn [ev_ok scalar_ok nkind_ok]. eapply pf_ok; exact Ep.
  - destruct b as [|c r]; [discriminate|]. cbv zeta in H.
    destruct (if (c =? 43) || (c =? 45) then r else c :: r) as [|d0 dr];
      [inversion H; subst; apply Ext_refl|].
    destruct (parse_uint _ 0) as [u|] eqn:Eu; [|inversion H; subst; apply Ext_refl].
    apply parse_uint_range in Eu; [|lia].
    destruct (negb (c =? 45) && (u >? 9223372036854775807)) eqn:E1.
    { destruct (jvis s (EVal (SNum KUint64 u))) as [s2 e2] eqn:Ev. inversion H; subst.
      eapply Ext_vis; [|exact Ev]. cbn [ev_ok scalar_ok nkind_ok]. unfold in_u. lia. }
    destruct ((c =? 45) && (u >? 9223372036854775808)) eqn:E2; [inversion H; subst; apply Ext_refl|].
    destruct (jvis s (EVal (SNum KInt64 (if c =? 45 then - u else u)))) as [s2 e2] eqn:Ev. inversion H; subst.
    eapply Ext_vis; [|exact Ev]. cbn [ev_ok scalar_ok nkind_ok]. unfold in_s.
    destruct (c =? 45); cbn [negb andb] in E1, E2; lia.
Qed.

Lemma step_number_ok : forall p s b, all_bytes (jp_lit p) = true -> all_bytes b = true ->
  Sok s (step_number pf p s b).
Proof.
  intros p s b Hl Hb. unfold step_number. destruct (scan_number b (jp_isdbl p) 0) as [found dbl].
  destruct found as [i|]; jsimp.
  - destruct (report_number pf s _ dbl) as [[s1 e]|] eqn:Er; [|exact I].
    cbn [Sok]. rewrite jpop_lit. jsimp. split; [eapply report_number_ok; exact Er|].
    split; [reflexivity|apply all_bytes_skipn; exact Hb].
  - cbn [Sok]. jsimp. split; [apply Ext_refl|]. split; [|reflexivity].
    rewrite all_bytes_app, Hl, Hb. reflexivity.
Qed.

Lemma step_kind_ok : forall p s b kind ev, ev_ok ev = true ->
  all_bytes (jp_lit p) = true -> all_bytes b = true -> Sok s (step_kind p s b kind ev).
Proof.
  intros p s b kind ev Hev Hl Hb. unfold step_kind. destruct (_ || _); [exact I|]. cbv zeta.
  destruct (negb (zlen b <? jp_req p)).
  - destruct (negb (has_prefix _ _)); [cbn [Sok]; split; [apply Ext_refl|auto]|].
    destruct (jvis s ev) as [s2 e] eqn:Ev. cbn [Sok]. rewrite jpop_lit.
    split; [eapply Ext_vis; eauto|]. split; [exact Hl|apply all_bytes_skipn; exact Hb].
  - destruct (negb (has_prefix _ _)); cbn [Sok]; jsimp; (split; [apply Ext_refl|]); split; auto.
    apply all_bytes_skipn; exact Hb.
Qed.

Lemma step_string_ok : forall p s b, all_bytes (jp_lit p) = true -> all_bytes b = true ->
  Sok s (step_string p s b).
Proof.
  intros p s b Hl Hb. unfold step_string. pose proof (do_string_bytes p b Hl Hb) as D.
  destruct (do_string p b) as [p1|p1 content rest|p1|w]; [| | |exact I].
  - cbn [Sok]. split; [apply Ext_refl|auto].
  - destruct D as (D1 & D2 & D3). destruct (jvis s (EStrRef content)) as [s1 e] eqn:Ev.
    cbn [Sok]. rewrite jpop_lit. split; [eapply Ext_vis; [|exact Ev]; exact D2|auto].
  - cbn [Sok]. split; [apply Ext_refl|auto].
Qed.

Lemma step_dict_key_ok : forall p s b, all_bytes (jp_lit p) = true -> all_bytes b = true ->
  Sok s (step_dict_key p s b).
Proof.
  intros p s b Hl Hb. unfold step_dict_key. pose proof (do_string_bytes p b Hl Hb) as D.
  destruct (do_string p b) as [p1|p1 content rest|p1|w]; [| | |exact I].
  - cbn [Sok]. split; [apply Ext_refl|auto].
  - destruct D as (D1 & D2 & D3). destruct (jvis s (EKeyRef content)) as [s1 e] eqn:Ev.
    cbn [Sok]. jsimp. split; [eapply Ext_vis; [|exact Ev]; exact D2|auto].
  - cbn [Sok]. split; [apply Ext_refl|auto].
Qed.

Lemma end_container_ok : forall p s b ev, ev_ok ev = true ->
  all_bytes (jp_lit p) = true -> all_bytes b = true -> Sok s (end_container p s b ev).
Proof.
  intros p s b ev Hev Hl Hb. unfold end_container. destruct b as [|c r]; [exact I|].
  destruct (jvis s ev) as [s1 e] eqn:Ev. cbn [Sok]. rewrite jpop_lit.
  split; [eapply Ext_vis; eauto|]. split; [exact Hl|]. apply all_bytes_cons in Hb. apply Hb.
Qed.

Lemma Sok_silent : forall s p1 rest rep e, all_bytes (jp_lit p1) = true -> all_bytes rest = true ->
  Sok s (JS p1 s rest rep e).
Proof. intros. cbn [Sok]. split; [apply Ext_refl|auto]. Qed.

Lemma step_value_ok : forall p s b ret, all_bytes (jp_lit p) = true -> all_bytes b = true ->
  Sok s (step_value pf p s b ret).
Proof.
  intros p s b ret Hl Hb. unfold step_value.
  destruct (trim_left b) as [|c r] eqn:Et; [apply Sok_silent; auto|]. cbv zeta.
  destruct (trim_left_tail_bytes _ _ _ Hb Et) as [Hcr Hr].
  destruct (c =? 123).
  { destruct (jvis s (EObjStart (-1) BAny)) as [s1 e] eqn:Ev. cbn [Sok]. jpsimp.
    split; [eapply Ext_vis; [|exact Ev]; reflexivity|auto]. }
  destruct (c =? 91).
  { destruct (jvis s (EArrStart (-1) BAny)) as [s1 e] eqn:Ev. cbn [Sok]. jpsimp.
    split; [eapply Ext_vis; [|exact Ev]; reflexivity|auto]. }
  destruct (c =? 110). { apply step_kind_ok; [reflexivity|jpsimp; exact Hl|exact Hr]. }
  destruct (c =? 102). { apply step_kind_ok; [reflexivity|jpsimp; exact Hl|exact Hr]. }
  destruct (c =? 116). { apply step_kind_ok; [reflexivity|jpsimp; exact Hl|exact Hr]. }
  destruct (c =? 34). { apply step_string_ok; [jpsimp; reflexivity|exact Hcr]. }
  destruct (_ || _). { apply step_number_ok; [jpsimp; reflexivity|exact Hcr]. }
  apply Sok_silent; [jpsimp; exact Hl|exact Hcr].
Qed.

Lemma Sok_norep : forall s r, Sok s r ->
  Sok s (match r with JS p1 s1 r0 _ e => JS p1 s1 r0 false e | JCrash x => JCrash x end).
Proof. intros s [p1 s1 r0 rep e|x] H; exact H. Qed.

Lemma jstep_ok : forall p s b, all_bytes (jp_lit p) = true -> all_bytes b = true ->
  Sok s (jstep pf p s b).
Proof.
  intros p s b Hl Hb.
  assert (Hws : forall (k : list Z -> jsres), Sok s (k []) ->
            (forall c r, all_bytes (c :: r) = true -> all_bytes r = true -> Sok s (k (c :: r))) ->
            Sok s (k (trim_left b))).
  { intros k K0 K1. destruct (trim_left b) as [|c r] eqn:Et; [exact K0|].
    destruct (trim_left_tail_bytes _ _ _ Hb Et). apply K1; assumption. }
  destruct (cur_cases (jp_cur p)) as
    [Hc|[Hc|[Hc|[Hc|[Hc|[Hc|[Hc|[Hc|[Hc|[Hc|[Hc|[Hc|[Hc|[Hc|[Hc|[Hc|Hc]]]]]]]]]]]]]]]].
  - (* jFailed *)
    unfold jstep. rewrite Hc. change (jFailed =? jFailed) with true. cbv iota.
    apply Sok_silent; [destruct (jp_err p =? 0); jsimp; exact Hl|exact Hb].
  - rewrite (jstep_start pf p s b Hc). apply step_value_ok; assumption.
  - (* jArr *)
    rewrite (jstep_arr pf p s b Hc). unfold step_array.
    apply (Hws (fun t => match t with [] => _ | c :: r => _ end)); [apply Sok_silent; auto|].
    intros c r Hcr Hr. destruct (c =? 93); [apply end_container_ok; auto|apply Sok_silent; jsimp; auto].
  - rewrite (jstep_arrvalue pf p s b Hc). apply (Sok_norep s (step_value pf p s b jArrNext)).
    apply step_value_ok; assumption.
  - (* jArrNext *)
    rewrite (jstep_arrnext pf p s b Hc). unfold step_arr_value_end.
    apply (Hws (fun t => match t with [] => _ | c :: r => _ end)); [apply Sok_silent; auto|].
    intros c r Hcr Hr. destruct (c =? 93); [apply end_container_ok; auto|].
    destruct (c =? 44); apply Sok_silent; jsimp; auto.
  - (* jDict *)
    rewrite (jstep_dict pf p s b Hc). unfold step_dict.
    apply (Hws (fun t => match t with [] => _ | c :: r => _ end)); [apply Sok_silent; auto|].
    intros c r Hcr Hr. destruct (c =? 125); [cbn [negb]; apply end_container_ok; auto|].
    destruct (c =? 34); apply Sok_silent; jsimp; auto.
  - rewrite (jstep_dictfield pf p s b Hc). apply step_dict_key_ok; assumption.
  - (* jDictNextField *)
    rewrite (jstep_dictnext pf p s b Hc). unfold step_dict.
    apply (Hws (fun t => match t with [] => _ | c :: r => _ end)); [apply Sok_silent; auto|].
    intros c r Hcr Hr. destruct (c =? 125); [cbn [negb]; apply Sok_silent; auto|].
    destruct (c =? 34); apply Sok_silent; jsimp; auto.
  - rewrite (jstep_dictvalue pf p s b Hc). apply step_value_ok; assumption.
  - (* jDictFieldValueSep *)
    rewrite (jstep_sep pf p s b Hc).
    apply (Hws (fun t => match t with [] => _ | c :: r => _ end)); [apply Sok_silent; auto|].
    intros c r Hcr Hr. apply Sok_silent; jsimp; auto.
  - (* jDictFieldStateEnd *)
    rewrite (jstep_dictend pf p s b Hc). unfold step_dict_value_end.
    apply (Hws (fun t => match t with [] => _ | c :: r => _ end)); [apply Sok_silent; auto|].
    intros c r Hcr Hr. destruct (c =? 125); [apply end_container_ok; auto|].
    destruct (c =? 44); apply Sok_silent; jsimp; auto.
  - rewrite (jstep_null pf p s b Hc). apply step_kind_ok; auto.
  - rewrite (jstep_true pf p s b Hc). apply step_kind_ok; auto.
  - rewrite (jstep_false pf p s b Hc). apply step_kind_ok; auto.
  - rewrite (jstep_string pf p s b Hc). apply step_string_ok; assumption.
  - rewrite (jstep_number pf p s b Hc). apply step_number_ok; assumption.
  - rewrite (jstep_other pf p s b Hc). apply Sok_silent; assumption.
Qed.

(* ---------- the loops ---------- *)
Lemma jfeed_until_ok : forall fuel p s b orig r,
  all_bytes (jp_lit p) = true -> all_bytes b = true -> all_bytes orig = true ->
  jfeed_until fuel pf p s b orig = Ok r -> Sok s r.
Proof.
  induction fuel as [|f IH]; intros p s b orig r Hl Hb Ho H; [discriminate|].
  cbn [jfeed_until] in H.
  destruct (zlen b =? 0). { inversion H; subst. apply Sok_silent; assumption. }
  pose proof (jstep_ok p s b Hl Hb) as K.
  destruct (jstep pf p s b) as [p1 s1 rest rep err|w]; [|discriminate].
  cbn [Sok] in K. destruct K as (K1 & K2 & K3).
  destruct (jp_cur p =? jFailed). { inversion H; subst. cbn [Sok]. auto. }
  destruct (negb (jisnil err)). { inversion H; subst. cbn [Sok]. auto. }
  destruct (rep && _). { inversion H; subst. cbn [Sok]. auto. }
  pose proof (IH _ _ _ _ _ K2 K3 Ho H) as K. destruct r as [p2 s2 r2 rep2 e2|w]; [|exact I].
  cbn [Sok] in *. destruct K as (A & B & C). split; [eapply Ext_trans; eauto|auto].
Qed.

Lemma jfeed_ok : forall fuel p s b p' s' e,
  all_bytes (jp_lit p) = true -> all_bytes b = true ->
  jfeed fuel pf p s b = Ok (p', s', e) -> Ext s s' /\ all_bytes (jp_lit p') = true.
Proof.
  induction fuel as [|f IH]; intros p s b p' s' e Hl Hb H; [discriminate|].
  cbn [jfeed] in H. destruct (zlen b >? 0); [|inversion H; subst; split; [apply Ext_refl|exact Hl]].
  destruct (jfeed_until (jfeed_fuel b) pf p s b b) as [[p1 s1 rest rep err|w]| | |] eqn:Hfu; try discriminate.
  pose proof (jfeed_until_ok _ _ _ _ _ _ Hl Hb Hb Hfu) as K. cbn [Sok] in K. destruct K as (K1 & K2 & K3).
  destruct (jisnil err).
  - destruct (IH _ _ _ _ _ _ K2 K3 H) as [A B]. split; [eapply Ext_trans; eauto|exact B].
  - inversion H; subst. auto.
Qed.

Lemma jfinalize_ok : forall p s p' s' e, jfinalize pf p s = Some (p', s', e) -> Ext s s'.
Proof.
  intros p s p' s' e H. unfold jfinalize in H.
  destruct (jp_cur p =? jNumber).
  - destruct (report_number pf s _ _) as [[s1 e1]|] eqn:Er; [|discriminate].
    apply report_number_ok in Er.
    destruct (jisnil e1); cbn [negb] in H; [destruct (_ && _)|]; inversion H; subst; exact Er.
  - cbn [negb] in H. destruct (_ && _); inversion H; subst; apply Ext_refl.
Qed.

(* ====================================================================== *)
(* Part C: structure - the log is a sequence of complete trees             *)
(* ====================================================================== *)
Lemma Frames_states_nil : forall p G, Frames p G -> jp_states p = [] -> G = [].
Proof.
  intros p G [(A & _ & _)|[(f & G' & _ & _ & C & _)|(_ & B & _)]] Hs.
  - exact A.
  - exfalso. rewrite Hs in C. symmetry in C. exact (rets_nonempty _ C).
  - exfalso. rewrite Hs in B. symmetry in B. exact (rets_nonempty _ B).
Qed.

Lemma jfeed_until_rep_states : forall fuel p s b orig p' s' rest,
  (jp_cur p =? jFailed) = false ->
  jfeed_until fuel pf p s b orig = Ok (JS p' s' rest true jpnil) -> jp_states p' = [].
Proof.
  induction fuel as [|f IH]; intros p s b orig p' s' rest Hnf H; [discriminate|].
  cbn [jfeed_until] in H.
  destruct (zlen b =? 0); [discriminate|].
  destruct (jstep pf p s b) as [p1 s1 r1 rep1 err|w] eqn:Hx; [|discriminate].
  rewrite Hnf in H.
  destruct (jisnil err) eqn:Ee; cbn [negb] in H; [|inversion H; subst; vm_compute in Ee; discriminate Ee].
  destruct (rep1 && (zlen (jp_states p1) =? 0)) eqn:Er.
  - inversion H; subst. apply andb_true_iff in Er. destruct Er as [_ Er].
    destruct (jp_states p') as [|x l]; [reflexivity|]. unfold zlen in Er. cbn [length] in Er. lia.
  - destruct (jp_cur p1 =? jFailed) eqn:Ef1.
    + (* a failed state never reports *)
      destruct f as [|f']; [discriminate|]. cbn [jfeed_until] in H.
      destruct (zlen r1 =? 0); [discriminate|].
      destruct (jstep pf p1 s1 r1) as [p2 s2 r2 rep2 err2|w]; [|discriminate].
      rewrite Ef1 in H. discriminate H.
    + eapply IH; [exact Ef1|exact H].
Qed.

(* the outer loop: the open frames are extended by complete trees and the frames of the
   value in progress *)
Lemma jfeed_trees : forall fuel p s b p' s' G,
  W p -> Frames p G -> jfeed fuel pf p s b = Ok (p', s', jpnil) ->
  exists ts L G', s' = s_add s L /\ oevents G ++ L = flat_map flatten ts ++ oevents G' /\
                  Frames p' G' /\ W p'.
Proof.
  induction fuel as [|f IH]; intros p s b p' s' G Hw HFr H; [discriminate|].
  cbn [jfeed] in H. destruct (zlen b >? 0).
  2:{ inversion H; subst. exists [], [], G. rewrite s_add_nil, app_nil_r. cbn [flat_map app]. auto. }
  destruct (jfeed_until (jfeed_fuel b) pf p s b b) as [[p1 s1 rest rep err|w]| | |] eqn:Hfu; try discriminate.
  destruct (jisnil err) eqn:Ee; [|inversion H; subst; vm_compute in Ee; discriminate Ee].
  apply jisnil_true' in Ee. subst err.
  destruct (jfeed_until_F pf _ _ _ _ _ _ _ _ _ _ Hw HFr Hfu) as (L1 & G1 & -> & HFr1 & Hw1 & A & B).
  destruct rep.
  - pose proof (jfeed_until_rep_states _ _ _ _ _ _ _ _ (W_notfailed pf p Hw) Hfu) as Hs1.
    pose proof (Frames_states_nil _ _ HFr1 Hs1) as HG1. subst G1.
    destruct (B eq_refl) as [t Ht].
    destruct (IH _ _ _ _ _ _ Hw1 HFr1 H) as (ts & L2 & G' & -> & E & HFr' & Hw').
    exists (t :: ts), (L1 ++ L2), G'. split; [apply s_add_add|]. split; [|auto].
    cbn [oevents app] in E. cbn [flat_map]. rewrite app_assoc, Ht, E, app_assoc. reflexivity.
  - destruct (IH _ _ _ _ _ _ Hw1 HFr1 H) as (ts & L2 & G' & -> & E & HFr' & Hw').
    exists ts, (L1 ++ L2), G'. split; [apply s_add_add|]. split; [|auto].
    rewrite app_assoc, <- (A eq_refl). exact E.
Qed.

(* finalize: nothing, or the top-level number that only the end of the input terminates *)
Lemma jfinalize_trees : forall p s p' s' G,
  W p -> Frames p G -> jfinalize pf p s = Some (p', s', jpnil) ->
  exists L ts, s' = s_add s L /\ oevents G ++ L = flat_map flatten ts.
Proof.
  intros p s p' s' G Hw HFr H.
  destruct (jp_cur p =? jNumber) eqn:Ec.
  - set (d := {| jd_p := p; jd_buf := []; jd_script := []; jd_bytesdec := true |}).
    assert (Hd : jdec_finalize pf d s = Ok ({| jd_p := p'; jd_buf := []; jd_script := []; jd_bytesdec := true |}, s', jpnil)).
    { unfold jdec_finalize. cbn [d jd_p jd_buf jd_script jd_bytesdec]. rewrite H, Ec. reflexivity. }
    destruct (jdec_finalize_F pf d s _ s' G Hw HFr Hd) as (-> & k & z & ->).
    exists [EVal (SNum k z)], [TVal (SNum k z) false]. split; [reflexivity|]. reflexivity.
  - unfold jfinalize in H. rewrite Ec in H. cbn [negb] in H.
    destruct ((zlen (jp_states p) >? 0) && negb (jp_cur p =? jStart)) eqn:E; inversion H; subst.
    exists [], []. rewrite s_add_nil, app_nil_r. split; [reflexivity|].
    assert (HG : G = []).
    { apply andb_false_iff in E. destruct E as [E|E].
      - apply (Frames_states_nil _ _ HFr). destruct (jp_states p'); [reflexivity|].
        unfold zlen in E. cbn [length] in E. lia.
      - apply negb_false_iff, Z.eqb_eq in E. apply (Frames_start pf _ _ HFr E). }
    subst G. reflexivity.
Qed.

Lemma jp_parse_trees : forall s b p' s',
  all_bytes b = true -> jp_parse pf jparser0 s b = Ok (p', s', jpnil) ->
  exists ts, s' = s_add s (flat_map flatten ts) /\ forallb wf_tree ts = true.
Proof.
  intros s b p' s' Hb H. rewrite jp_parse_reset in H.
  change (jreset jparser0) with jparser0 in H.
  destruct (jfeed (2 * length b + 2) pf jparser0 s b) as [[[p1 s1] err]| | |] eqn:Hf; try discriminate.
  destruct (jisnil err) eqn:Ee; [|inversion H; subst; vm_compute in Ee; discriminate Ee].
  apply jisnil_true' in Ee. subst err. apply with_final_inv in H.
  assert (HFr0 : Frames jparser0 []) by (left; auto).
  destruct (jfeed_trees _ _ _ _ _ _ _ W0 HFr0 Hf) as (ts & L & G' & -> & E & HFr' & Hw').
  destruct (jfinalize_trees _ _ _ _ _ Hw' HFr' H) as (L2 & ts2 & -> & E2).
  cbn [oevents app] in E.
  assert (EL : L ++ L2 = flat_map flatten (ts ++ ts2)).
  { rewrite flat_map_app, <- E2, app_assoc, <- E. reflexivity. }
  exists (ts ++ ts2). rewrite s_add_add, EL. split; [reflexivity|].
  apply flat_map_ok_wf. rewrite <- EL.
  destruct (jfeed_ok _ _ _ _ _ _ _ (eq_refl : all_bytes (jp_lit jparser0) = true) Hb Hf) as [X1 _].
  pose proof (jfinalize_ok _ _ _ _ _ H) as X2.
  pose proof (Ext_trans _ _ _ X1 X2) as X. rewrite s_add_add in X. exact (Ext_add _ _ X).
Qed.

(* ---------- C09, every accepted input ---------- *)
Theorem C09_json_accepted : forall vfail b evs p, all_bytes b = true ->
  jrun_parse pf vfail b = Ok (evs, jpnil, p) ->
  exists ts, evs = flat_map flatten ts /\ forallb wf_tree ts = true.
Proof.
  intros vfail b evs p Hb H. unfold jrun_parse in H.
  destruct (jp_parse pf jparser0 (sink0 vfail) b) as [[[p' s'] e']| | |] eqn:E; try discriminate.
  inversion H; subst. destruct (jp_parse_trees _ _ _ _ Hb E) as (ts & -> & Hwf).
  exists ts. rewrite s_log_add0. auto.
Qed.

(* the same through the executable monitor for a stream of documents *)
Theorem C09_json_accepted_stream : forall vfail b evs p, all_bytes b = true ->
  jrun_parse pf vfail b = Ok (evs, jpnil, p) ->
  exists ts, stream_trees (S (length evs)) evs = Some ts /\ forallb wf_tree ts = true /\
             evs = flat_map flatten ts.
Proof.
  intros vfail b evs p Hb H. destruct (C09_json_accepted vfail b evs p Hb H) as (ts & -> & Hwf).
  exists (map norm ts). rewrite stream_trees_flatten by (pose proof (flat_map_length_ge ts); lia).
  split; [reflexivity|]. split.
  - rewrite forallb_forall in *. intros t Ht. apply in_map_iff in Ht. destruct Ht as (t0 & <- & Ht0).
    rewrite wf_norm. apply Hwf, Ht0.
  - clear Hwf H. induction ts as [|t ts IH]; [reflexivity|]. cbn [map flat_map].
    rewrite flatten_norm, <- IH. reflexivity.
Qed.

(* one document: the contract monitor accepts; several: it accepts each of them *)
Theorem C09_json_accepted_contract : forall vfail b evs p, all_bytes b = true ->
  jrun_parse pf vfail b = Ok (evs, jpnil, p) ->
  exists ts, evs = flat_map flatten ts /\ Forall (fun t => contract_ok (flatten t) = true) ts /\
             (length ts = 1%nat -> contract_ok evs = true).
Proof.
  intros vfail b evs p Hb H. destruct (C09_json_accepted vfail b evs p Hb H) as (ts & -> & Hwf).
  exists ts. split; [reflexivity|]. split.
  - apply Forall_forall. intros t Ht. rewrite contract_flatten. rewrite forallb_forall in Hwf. apply Hwf, Ht.
  - intros Hl. destruct ts as [|t [|t2 ts]]; try discriminate Hl. cbn [flat_map]. rewrite app_nil_r.
    rewrite contract_flatten. cbn [forallb] in Hwf. rewrite andb_true_r in Hwf. exact Hwf.
Qed.

(* ---------- any chunking (C02) ---------- *)
Theorem C09_json_accepted_chunks : forall vfail cs evs p, all_bytes (concat cs) = true ->
  jrun_chunks pf vfail cs = Ok (evs, jpnil, p) ->
  exists ts, evs = flat_map flatten ts /\ forallb wf_tree ts = true.
Proof.
  intros vfail cs evs p Hb H. pose proof (C02_json_entry pf vfail cs) as K. rewrite H in K.
  destruct (jrun_parse pf vfail (concat cs)) as [[[ev1 e1] p1]| | |] eqn:E; try contradiction.
  cbn [same_jobs] in K. destruct K as [-> ->]. eapply C09_json_accepted; eauto.
Qed.

(* ====================================================================== *)
(* Part D: the pull decoder                                                *)
(* ====================================================================== *)
Definition jdec_bytes (d : jdecoder) : Prop :=
  all_bytes (jp_lit (jd_p d)) = true /\ all_bytes (jd_buf d) = true /\
  Forall (fun x => all_bytes (fst x) = true) (jd_script d).

Lemma jdec_fill_bytes : forall d, jdec_bytes d ->
  match jdec_fill d with JFbody d1 | JFfin d1 | JFerr d1 _ => jdec_bytes d1 end.
Proof.
  intros d (H1 & H2 & H3). unfold jdec_fill.
  destruct (zlen (jd_buf d) =? 0); [|split; auto].
  destruct (jd_bytesdec d); [split; auto|].
  destruct (jd_script d) as [|[data err] rest] eqn:Es; [split; [auto|split; [auto|rewrite Es; constructor]]|].
  cbv zeta. inversion H3; subst. cbn [fst] in *.
  destruct ((zlen data =? 0) && negb (err =? 0)); [destruct (err =? jeEOF)|]; split; cbn [jd_p jd_buf jd_script]; auto.
Qed.

Lemma jdec_finalize_ok : forall d s d' s' e, jdec_finalize pf d s = Ok (d', s', e) -> Ext s s'.
Proof.
  intros d s d' s' e H. unfold jdec_finalize in H.
  destruct (jfinalize pf (jd_p d) s) as [[[p1 s1] e1]|] eqn:Ef; [|discriminate].
  apply jfinalize_ok in Ef.
  destruct (negb (jisnil e1)); [|destruct (jp_cur (jd_p d) =? jNumber)]; inversion H; subst; exact Ef.
Qed.

Lemma jdec_next_ok : forall fuel d s d' s' e, jdec_bytes d ->
  jdec_next fuel pf d s = Ok (d', s', e) -> Ext s s'.
Proof.
  induction fuel as [|f IH]; intros d s d' s' e Hd H; [discriminate|].
  rewrite jdec_next_S in H. pose proof (jdec_fill_bytes d Hd) as Hf.
  destruct (jdec_fill d) as [d1|d1|d1 e1].
  - destruct Hf as (F1 & F2 & F3). unfold jdec_body in H.
    destruct (jfeed_until _ pf _ _ _ _) as [[p1 s1 rest rep err|w]| | |] eqn:Hfu; try discriminate.
    pose proof (jfeed_until_ok _ _ _ _ _ _ F1 F2 F2 Hfu) as K. cbn [Sok] in K. destruct K as (K1 & K2 & K3).
    destruct (negb (jisnil err)); [inversion H; subst; exact K1|].
    destruct rep; [inversion H; subst; exact K1|].
    eapply Ext_trans; [exact K1|]. eapply IH; [|exact H]. split; cbn [jd_p jd_buf jd_script]; auto.
  - eapply jdec_finalize_ok; exact H.
  - inversion H; subst. apply Ext_refl.
Qed.

(* C18 (b): the tree that a nil Next delivered (C18_json_next_tree) is well formed *)
Theorem C18_json_next_wf : forall fuel d s d' s',
  W (jd_p d) -> jp_cur (jd_p d) = jStart -> jscript_ok (jd_script d) ->
  all_bytes (jd_buf d) = true -> Forall (fun x => all_bytes (fst x) = true) (jd_script d) ->
  jdec_next fuel pf d s = Ok (d', s', jpnil) ->
  exists t, s' = s_add s (flatten t) /\ wf_tree t = true.
Proof.
  intros fuel d s d' s' Hw Hc Hsc Hb Hs H.
  destruct (C18_json_next_tree pf fuel d s d' s' Hw Hc Hsc H) as [t ->].
  exists t. split; [reflexivity|]. apply flatten_ok_wf.
  assert (Hl : jp_lit (jd_p d) = []).
  { destruct Hw as (_ & _ & Hl). destruct (jp_lit (jd_p d)) as [|x l]; [reflexivity|].
    exfalso. destruct Hl as [K|[K|K]]; [discriminate| | |]; rewrite Hc in K; revert K; ust; lia. }
  assert (Hd : jdec_bytes d) by (split; [rewrite Hl; reflexivity|auto]).
  exact (Ext_add _ _ (jdec_next_ok _ _ _ _ _ _ Hd H)).
Qed.

End JsonAccepted.

Print Assumptions C09_json_accepted.
Print Assumptions C09_json_accepted_stream.
Print Assumptions C09_json_accepted_contract.
Print Assumptions C09_json_accepted_chunks.
Print Assumptions C18_json_next_wf.

(* ---------- the statements on concrete lenient inputs ---------- *)
Module JsonAcceptedExamples.
  Definition pf0 (b : bytes) : option Z := Some (zlen b).
  Definition accepted (b : bytes) : option (list event) :=
    match jrun_parse pf0 None b with Ok (evs, e, _) => if jisnil e then Some evs else None | _ => None end.
  Definition monitor (evs : list event) : bool :=
    match stream_trees (S (length evs)) evs with Some ts => forallb wf_tree ts | None => false end.

  (* "+1", "01", "\'" (escaped apostrophe), NBSP 1 SP, all accepted although not RFC 8259;
     the lone sign "-" was accepted as the integer 0 before the repair of reportNumber and
     is rejected now *)
  Example ex_plus : accepted [43; 49] = Some [EVal (SNum KInt64 1)]. Proof. vm_compute. reflexivity. Qed.
  Example ex_lead0 : accepted [48; 49] = Some [EVal (SNum KInt64 1)]. Proof. vm_compute. reflexivity. Qed.
  Example ex_minus : accepted [45] = None. Proof. vm_compute. reflexivity. Qed.
  Example ex_apos : accepted [34; 92; 39; 34] = Some [EStrRef [39]]. Proof. vm_compute. reflexivity. Qed.
  Example ex_nbsp : accepted [160; 49; 32] = Some [EVal (SNum KInt64 1)]. Proof. vm_compute. reflexivity. Qed.
  (* 1 [2,{"a":[]}] "x" : three documents *)
  Example ex_stream :
    match accepted [49; 32; 91; 50; 44; 123; 34; 97; 34; 58; 91; 93; 125; 93; 34; 120; 34] with
    | Some evs => monitor evs = true /\ length evs = 10%nat
    | None => False
    end.
  Proof. vm_compute. split; reflexivity. Qed.
  (* the empty input is accepted with no events: contract_ok [] = false, so the statement
     for streams (ts = []) is the right one *)
  Example ex_empty : accepted [] = Some [] /\ contract_ok [] = false. Proof. vm_compute. split; reflexivity. Qed.
  (* truncated or malformed inputs are not accepted: [1,   {"a":1,}   [1 2]   {"a" 1} *)
  Example ex_trunc : accepted [91; 49; 44] = None. Proof. vm_compute. reflexivity. Qed.
  Example ex_trail : accepted [123; 34; 97; 34; 58; 49; 44; 125] = None. Proof. vm_compute. reflexivity. Qed.
  Example ex_nosep : accepted [91; 49; 32; 50; 93] = None. Proof. vm_compute. reflexivity. Qed.
  Example ex_nocolon : accepted [123; 34; 97; 34; 32; 49; 125] = None. Proof. vm_compute. reflexivity. Qed.
  Lemma pf0_ok : forall l z, pf0 l = Some z -> (zlen l <? 2 ^ 64) = true -> in_u 64 z = true.
  Proof. intros l z [= <-] H. unfold in_u, zlen in *. lia. Qed.
End JsonAcceptedExamples.

(* C03 (JSON): a sign without digits is no number.  "-", "+" and "[-]" are not accepted,
   whatever the float oracle and whatever the visitor does: the verdict of Parse is the
   parser's error, never nil (before the repair of reportNumber "-" and "+" were delivered
   as the integer 0). *)
Theorem C03_json_lone_sign_rejected : forall pf vfail b,
  b = [45] \/ b = [43] \/ b = [91; 45; 93] \/ b = [91; 43; 93] ->
  exists evs e p, jrun_parse pf vfail b = Ok (evs, e, p) /\ e <> jpnil.
Proof.
  intros pf vfail b Hb.
  assert (G : forall n, exists evs e p, jrun_parse pf (Some n) b = Ok (evs, e, p) /\ e <> jpnil).
  { intros n. destruct Hb as [-> | [-> | [-> | ->]]].
    - do 3 eexists. split; [vm_compute; reflexivity|discriminate].
    - do 3 eexists. split; [vm_compute; reflexivity|discriminate].
    - destruct n as [|n]; do 3 eexists; (split; [vm_compute; reflexivity|discriminate]).
    - destruct n as [|n]; do 3 eexists; (split; [vm_compute; reflexivity|discriminate]). }
  destruct vfail as [n|]; [apply G|].
  destruct Hb as [-> | [-> | [-> | ->]]];
    do 3 eexists; (split; [vm_compute; reflexivity|discriminate]).
Qed.
Print Assumptions C03_json_lone_sign_rejected.
