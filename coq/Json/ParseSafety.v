(* C03 for the JSON parser model Json/Parse.v: the parser survives arbitrary
   input in arbitrary chunkings and any visitor-failure index: no Panic
   (JCrash/UQCrash/DSCrash) and no OutOfFuel; the retained state is bounded
   linearly by the input length.  The float parser [pf] is a Section variable. *)
From Coq Require Import List NArith ZArith Bool Lia.
From Coq Require Import ZifyBool ZifyNat ZifyN.
From SF Require Import Base.Prelude Base.Utf8 Core.Events Json.Parse.
Import ListNotations.
Open Scope Z_scope.

Ltac Zify.zify_post_hook ::= Z.div_mod_to_equations.

(* ------------------------------------------------------------------ *)
(* unquote                                                            *)
(* ------------------------------------------------------------------ *)

Lemma decode_rune_sz_pos : forall c r ru sz, decode_rune (c :: r) = (ru, sz) -> 1 <= sz <= 4.
Proof.
  intros c r ru sz. unfold decode_rune.
  repeat match goal with
  | |- context [if ?b then _ else _] => destruct b
  | |- context [match ?l with [] => _ | _ :: _ => _ end] => destruct l
  end; intros [= <- <-]; lia.
Qed.

Lemma unquote_loop_safe : forall fuel s racc,
  (length s < fuel)%nat -> unquote_loop fuel s racc <> UQCrash.
Proof.
  induction fuel as [|f IH]; intros s racc H; [lia|].
  destruct s as [|c r]; cbn [unquote_loop]; [discriminate|].
  cbn [length] in H.
  destruct (c =? 92).
  - destruct r as [|x r2]; [discriminate|]. cbn [length] in H.
    repeat (first
      [ progress cbv beta match
      | match goal with
        | |- context [if ?b then _ else _] => destruct b
        | |- context [match parse_hex4 ?x with _ => _ end] => destruct (parse_hex4 x)
        end ]);
    try discriminate;
    apply IH; rewrite ?skipn_length; lia.
  - destruct (_ || _); [discriminate|].
    destruct (c <? 128).
    + apply IH. lia.
    + destruct (decode_rune (c :: r)) as [ru sz] eqn:E.
      apply decode_rune_sz_pos in E.
      apply IH. rewrite skipn_length. cbn [length]. lia.
Qed.

(* The unescaper never runs beyond its input, whatever the bytes are. *)
Lemma unquote_safe_any : forall s, unquote s <> UQCrash.
Proof.
  intros s. unfold unquote.
  destruct (Nat.eqb _ _); [discriminate|].
  apply unquote_loop_safe. rewrite skipn_length. lia.
Qed.

Theorem C03_json_unquote_safe : forall s, all_bytes s = true -> unquote s <> UQCrash.
Proof. intros s _. apply unquote_safe_any. Qed.

(* ------------------------------------------------------------------ *)
(* small facts                                                        *)
(* ------------------------------------------------------------------ *)

Ltac jsimp := cbn [jp_cur jp_states jp_lit jp_inesc jp_isdbl jp_req jp_err
                   jset_cur jset_lit jset_inesc jset_isdbl jset_req jset_err] in *.
Ltac ust := unfold jFailed, jStart, jArr, jArrValue, jArrNext, jDict, jDictField, jDictNextField,
  jDictFieldValue, jDictFieldValueSep, jDictFieldStateEnd, jNull, jTrue, jFalse, jString, jNumber,
  jpnil, jeGeneric, jeVisitor in *.

Lemma trim_left_len : forall b, (length (trim_left b) <= length b)%nat.
Proof.
  induction b as [|c r IH]; cbn [trim_left length]; [lia|].
  destruct (is_space c); cbn [length]; lia.
Qed.

Lemma scan_number_ge : forall b dbl i0 i d, scan_number b dbl i0 = (Some i, d) -> (i0 <= i)%nat.
Proof.
  induction b as [|c r IH]; intros dbl i0 i d; cbn [scan_number]; [discriminate|].
  destruct (is_stop c).
  - intros [= <- _]. lia.
  - intros H. apply IH in H. lia.
Qed.

Lemma scan_quote_nonempty : forall buf e i0 i e', scan_quote buf e i0 = (Some i, e') -> buf <> [].
Proof. intros [|c r] e i0 i e'; cbn [scan_quote]; [discriminate|]. intros _; discriminate. Qed.

Lemma report_number_some : forall pf s b dbl, b <> [] -> exists s1 e, report_number pf s b dbl = Some (s1, e).
Proof.
  intros pf s b dbl Hb. unfold report_number.
  destruct dbl.
  - destruct (pf b); [destruct (jvis _ _)|]; eauto.
  - destruct b as [|c r]; [congruence|].
    destruct (if (_ || _)%bool then r else c :: r) as [|d0 dr]; [eauto|].
    destruct (parse_uint _ _); [|eauto].
    destruct (_ && _); [destruct (jvis _ _); eauto|].
    destruct (_ && _); [eauto|].
    destruct (jvis _ _); eauto.
Qed.

(* ------------------------------------------------------------------ *)
(* the reachable-state invariant                                      *)
(* ------------------------------------------------------------------ *)

(* the states that are ever pushed on the state stack *)
Definition ret_state (x : Z) : Prop := x = jStart \/ x = jDictFieldStateEnd \/ x = jArrNext.

(* states that may make one transition without consuming a byte *)
Definition wgt (c : Z) : nat :=
  if (c =? jDict) || (c =? jDictNextField) || (c =? jArr) || (c =? jNumber) then 1%nat else 0%nat.

Definition inv (p : jparser) : Prop :=
  Forall ret_state (jp_states p) /\
  jp_err p <> jpnil /\
  (jp_cur p = jNumber -> jp_lit p <> []) /\
  (jp_cur p = jNull \/ jp_cur p = jTrue -> 1 <= jp_req p <= 3) /\
  (jp_cur p = jFalse -> 1 <= jp_req p <= 4).

Lemma wgt_le1 : forall c, (wgt c <= 1)%nat.
Proof. intros c. unfold wgt. destruct (_ || _); lia. Qed.

Lemma wgt_ret : forall c, ret_state c \/ c = jFailed -> wgt c = 0%nat.
Proof.
  intros c H. unfold wgt, ret_state in *. ust.
  destruct (_ || _) eqn:E; [lia|reflexivity].
Qed.

Lemma inv0 : inv jparser0.
Proof.
  unfold inv, jparser0; jsimp. ust. repeat split; try lia. constructor.
Qed.

(* outcome of one step relative to budgets L (literal), S (stack), M (measure) *)
Definition res_ok (L S M : nat) (r : jsres) : Prop :=
  match r with
  | JCrash _ => False
  | JS p' _ rest _ err =>
      (length (jp_lit p') + length rest <= L)%nat /\
      (length (jp_states p') + length rest <= S)%nat /\
      (err = jpnil -> inv p' /\ (2 * length rest + wgt (jp_cur p') < M)%nat)
  end.

Lemma res_ok_mono : forall L S M L' S' M' r,
  res_ok L S M r -> (L <= L')%nat -> (S <= S')%nat -> (M <= M')%nat -> res_ok L' S' M' r.
Proof.
  intros L S M L' S' M' [p' s' rest rep err|w]; cbn [res_ok]; [|tauto].
  intros (H1 & H2 & H3) HL HS HM.
  split; [lia|]. split; [lia|].
  intros He. destruct (H3 He) as [Hi Hm]. split; [assumption|lia].
Qed.

Lemma jpop_ok : forall p,
  Forall ret_state (jp_states p) -> jp_err p <> jpnil ->
  inv (jpop p) /\ wgt (jp_cur (jpop p)) = 0%nat /\
  (length (jp_states (jpop p)) = length (jp_states p) - 1)%nat /\ jp_lit (jpop p) = jp_lit p.
Proof.
  intros p HF He. unfold jpop.
  destruct (jp_states p) as [|c r] eqn:Es.
  - unfold inv. jsimp. rewrite Es. ust. repeat split; try lia; try constructor.
  - inversion HF as [|? ? Hc Hr]; subst.
    unfold inv. jsimp. cbn [length].
    assert (W := wgt_ret c (or_introl Hc)).
    unfold ret_state in Hc. ust. repeat split; try lia; try assumption.
Qed.

Lemma jvis_cases : forall s e, exists s1 err, jvis s e = (s1, err).
Proof. intros s e. destruct (jvis s e) as [s1 err]. eauto. Qed.

Ltac inv_split Hi :=
  let H1 := fresh "Hst" in let H2 := fresh "Her" in let H3 := fresh "Hnum" in
  let H4 := fresh "Hk3" in let H5 := fresh "Hk4" in
  destruct Hi as (H1 & H2 & H3 & H4 & H5).

(* ------------------------------------------------------------------ *)
(* the step functions                                                  *)
(* ------------------------------------------------------------------ *)

Lemma step_kind_ok : forall p s b kind ev,
  inv p -> 1 <= jp_req p <= zlen kind -> wgt (jp_cur p) = 0%nat ->
  res_ok (length (jp_lit p) + length b) (length (jp_states p) + length b)
         (2 * length b + match b with [] => 1 | _ => 0 end)
         (step_kind p s b kind ev).
Proof.
  intros p s b kind ev Hi Hr Hw. unfold step_kind.
  destruct ((jp_req p <? 0) || (zlen kind <? jp_req p)) eqn:E; [lia|]. clear E.
  inv_split Hi.
  destruct (zlen b <? jp_req p) eqn:EL; cbn [negb].
  - destruct (has_prefix _ _); cbn [negb res_ok]; jsimp.
    + rewrite skipn_length. unfold zlen in *.
      split; [lia|]. split; [lia|]. intros _. split.
      * unfold inv; jsimp. ust. repeat split; try assumption; lia.
      * rewrite Hw. destruct b; cbn [length]; lia.
    + split; [lia|]. split; [lia|]. ust. intros; lia.
  - destruct (has_prefix _ _); cbn [negb res_ok]; jsimp.
    + destruct (jvis s ev) as [s2 e]. cbn [res_ok].
      destruct (jpop_ok p Hst Her) as (Hi' & Hw' & Hl' & Hlit').
      rewrite skipn_length, Hlit'. unfold zlen in *.
      split; [lia|]. split; [lia|]. intros _. split; [assumption|].
      rewrite Hw'. destruct b; cbn [length] in *; lia.
    + split; [lia|]. split; [lia|]. ust. intros; lia.
Qed.

Section JsonSafety.
Variable pf : bytes -> option Z.

Lemma step_number_ok : forall p s b k,
  Forall ret_state (jp_states p) -> jp_err p <> jpnil -> jp_cur p = jNumber -> b <> [] ->
  ((jp_lit p <> [] /\ k = 0%nat) \/ (exists c r, b = c :: r /\ is_stop c = false /\ k = 1%nat)) ->
  res_ok (length (jp_lit p) + length b) (length (jp_states p) + length b - k)
         (2 * length b + 1 - k) (step_number pf p s b).
Proof.
  intros p s b k Hst Her Hc Hb Hlit. unfold step_number.
  assert (Hlen : (length b <> 0)%nat) by (destruct b; [congruence|cbn [length]; lia]).
  assert (Hk1 : (k <= 1)%nat) by (destruct Hlit as [[_ ->]|(c & r & _ & _ & ->)]; lia).
  destruct (scan_number b (jp_isdbl p) 0) as [found dbl] eqn:Esc.
  destruct found as [i|]; jsimp.
  - assert (Htok : jp_lit p ++ firstn i b <> [] /\ (k <= i)%nat).
    { destruct Hlit as [[Hl ->]|(c & r & -> & Hs & ->)].
      - split; [|lia]. destruct (jp_lit p); [congruence|discriminate].
      - cbn [scan_number] in Esc. rewrite Hs in Esc.
        apply scan_number_ge in Esc. destruct i as [|i]; [lia|].
        split; [|lia]. cbn [firstn]. destruct (jp_lit p); discriminate. }
    destruct Htok as [Htok Hki].
    destruct (report_number_some pf s _ dbl Htok) as (s1 & e & ->).
    cbn [res_ok].
    match goal with |- context [jpop ?q] =>
      destruct (jpop_ok q) as (Hi' & Hw' & Hl' & Hlit'); [jsimp; assumption|jsimp; assumption|] end.
    jsimp. rewrite skipn_length, Hlit'. cbn [length].
    split; [lia|]. split; [lia|]. intros _. split; [assumption|]. rewrite Hw'. lia.
  - cbn [res_ok]. jsimp. rewrite app_length. cbn [length].
    split; [lia|]. split; [lia|]. intros _. split.
    + unfold inv; jsimp. ust. repeat split; try assumption; try lia.
      intros _. destruct (jp_lit p); destruct b; try congruence; discriminate.
    + rewrite Hc. change (wgt jNumber) with 1%nat. lia.
Qed.

(* ---- doString ---- *)
Definition same_ctl (p p1 : jparser) : Prop :=
  jp_cur p1 = jp_cur p /\ jp_states p1 = jp_states p /\ jp_err p1 = jp_err p /\ jp_req p1 = jp_req p.

Definition ds_ok (p : jparser) (b : bytes) (r : dsres) : Prop :=
  match r with
  | DSCrash _ => False
  | DSMore p1 => same_ctl p p1 /\ jp_lit p1 = jp_lit p ++ b
  | DSDone p1 _ rest => same_ctl p p1 /\ jp_lit p1 = [] /\ (length rest < length b)%nat
  | DSErr p1 => same_ctl p p1 /\ jp_lit p1 = []
  end.

Lemma do_string_ok : forall p b, b <> [] -> ds_ok p b (do_string p b).
Proof.
  intros p b Hb. unfold do_string.
  destruct (zlen (jp_lit p) =? 0) eqn:Eat.
  - destruct b as [|c buf]; [congruence|].
    destruct (scan_quote buf (jp_inesc p) 0) as [found inesc] eqn:Esc.
    destruct found as [i|]; jsimp.
    + apply scan_quote_nonempty in Esc.
      destruct buf as [|c2 buf2]; [congruence|].
      replace (i + 2)%nat with (S (S i)) by lia. cbn [firstn skipn].
      destruct (zlen _ <? 2) eqn:E2.
      { unfold zlen in E2. rewrite app_length in E2. cbn [length] in E2. lia. }
      destruct (unquote _) eqn:Eu; cbn [ds_ok]; jsimp; unfold same_ctl; jsimp.
      * repeat split. rewrite skipn_length. cbn [length]. lia.
      * repeat split.
      * exfalso. eapply unquote_safe_any; eassumption.
    + cbn [ds_ok]. unfold same_ctl; jsimp. repeat split.
  - assert (Hl : jp_lit p <> []).
    { destruct (jp_lit p); [unfold zlen in Eat; cbn [length] in Eat; lia|discriminate]. }
    destruct (scan_quote b (jp_inesc p) 0) as [found inesc] eqn:Esc.
    destruct found as [i|]; jsimp.
    + destruct (zlen _ <? 2) eqn:E2.
      { unfold zlen in E2. rewrite app_length in E2.
        replace (i + 1)%nat with (S i) in E2 by lia.
        destruct b as [|c r]; [congruence|]. cbn [firstn length] in E2.
        destruct (jp_lit p); [congruence|]. cbn [length] in E2. lia. }
      destruct (unquote _) eqn:Eu; cbn [ds_ok]; jsimp; unfold same_ctl; jsimp.
      * repeat split. rewrite skipn_length.
        destruct b; [congruence|]. cbn [length]. lia.
      * repeat split.
      * exfalso. eapply unquote_safe_any; eassumption.
    + cbn [ds_ok]. unfold same_ctl; jsimp. repeat split.
Qed.

Lemma step_string_ok : forall p s b,
  inv p -> jp_cur p = jString -> b <> [] ->
  res_ok (length (jp_lit p) + length b) (length (jp_states p) + length b - 1)
         (2 * length b) (step_string p s b).
Proof.
  intros p s b Hi Hc Hb. unfold step_string.
  assert (Hlen : (length b <> 0)%nat) by (destruct b; [congruence|cbn [length]; lia]).
  pose proof (do_string_ok p b Hb) as Hd.
  inv_split Hi.
  destruct (do_string p b) as [p1|p1 content rest|p1|w]; cbn [ds_ok] in Hd.
  - destruct Hd as ((Hc1 & Hs1 & He1 & Hr1) & Hl1). cbn [res_ok length].
    rewrite Hl1, Hs1, app_length.
    split; [lia|]. split; [lia|]. intros _. split.
    + unfold inv. rewrite Hc1, Hs1, He1, Hr1, Hc. ust. repeat split; try assumption; lia.
    + rewrite Hc1, Hc. change (wgt jString) with 0%nat. lia.
  - destruct Hd as ((Hc1 & Hs1 & He1 & Hr1) & Hl1 & Hrest).
    destruct (jvis s _) as [s1 e]. cbn [res_ok].
    destruct (jpop_ok p1) as (Hi' & Hw' & Hl' & Hlit'); [rewrite Hs1; assumption|rewrite He1; assumption|].
    rewrite Hlit', Hl1. rewrite Hs1 in Hl'. cbn [length].
    split; [lia|]. split; [lia|]. intros _. split; [assumption|]. rewrite Hw'. lia.
  - destruct Hd as ((Hc1 & Hs1 & He1 & Hr1) & Hl1). cbn [res_ok length].
    rewrite Hl1, Hs1. cbn [length].
    split; [lia|]. split; [lia|]. ust. intros; lia.
  - contradiction.
Qed.

Lemma step_dict_key_ok : forall p s b,
  inv p -> jp_cur p = jDictField -> b <> [] ->
  res_ok (length (jp_lit p) + length b) (length (jp_states p) + length b)
         (2 * length b) (step_dict_key p s b).
Proof.
  intros p s b Hi Hc Hb. unfold step_dict_key.
  assert (Hlen : (length b <> 0)%nat) by (destruct b; [congruence|cbn [length]; lia]).
  pose proof (do_string_ok p b Hb) as Hd.
  inv_split Hi.
  destruct (do_string p b) as [p1|p1 content rest|p1|w]; cbn [ds_ok] in Hd.
  - destruct Hd as ((Hc1 & Hs1 & He1 & Hr1) & Hl1). cbn [res_ok length].
    rewrite Hl1, Hs1, app_length.
    split; [lia|]. split; [lia|]. intros _. split.
    + unfold inv. rewrite Hc1, Hs1, He1, Hr1, Hc. ust. repeat split; try assumption; lia.
    + rewrite Hc1, Hc. change (wgt jDictField) with 0%nat. lia.
  - destruct Hd as ((Hc1 & Hs1 & He1 & Hr1) & Hl1 & Hrest).
    destruct (jvis s _) as [s1 e]. cbn [res_ok]. jsimp.
    rewrite Hl1, Hs1. cbn [length].
    split; [lia|]. split; [lia|]. intros _. split.
    + unfold inv; jsimp. rewrite Hs1, He1. ust. repeat split; try assumption; lia.
    + change (wgt jDictFieldValueSep) with 0%nat. lia.
  - destruct Hd as ((Hc1 & Hs1 & He1 & Hr1) & Hl1). cbn [res_ok length].
    rewrite Hl1, Hs1. cbn [length].
    split; [lia|]. split; [lia|]. ust. intros; lia.
  - contradiction.
Qed.

Lemma end_container_ok : forall p s c r ev,
  inv p ->
  res_ok (length (jp_lit p) + S (length r)) (length (jp_states p) + S (length r))
         (2 * S (length r)) (end_container p s (c :: r) ev).
Proof.
  intros p s c r ev Hi. unfold end_container. inv_split Hi.
  destruct (jvis s ev) as [s1 e]. cbn [res_ok].
  destruct (jpop_ok p Hst Her) as (Hi' & Hw' & Hl' & Hlit').
  rewrite Hlit'. split; [lia|]. split; [lia|]. intros _. split; [assumption|]. rewrite Hw'. lia.
Qed.

Ltac jpsimp := cbn [jpush jp_cur jp_states jp_lit jp_inesc jp_isdbl jp_req jp_err
                    jset_cur jset_lit jset_inesc jset_isdbl jset_req jset_err] in *.

Lemma number_start_not_stop : forall c,
  (c =? 45) || (c =? 43) || (c =? 46) || is_digit c = true -> is_stop c = false.
Proof. intros c. unfold is_digit, is_stop. lia. Qed.

Lemma step_value_ok : forall p s b ret,
  inv p -> ret_state ret -> wgt (jp_cur p) = 0%nat -> b <> [] ->
  res_ok (length (jp_lit p) + length b) (length (jp_states p) + length b)
         (2 * length b) (step_value pf p s b ret).
Proof.
  intros p s b ret Hi Hret Hw Hb. unfold step_value.
  assert (Hlen : (length b <> 0)%nat) by (destruct b; [congruence|cbn [length]; lia]).
  pose proof (trim_left_len b) as Ht.
  destruct (trim_left b) as [|c r].
  { cbn [res_ok length]. split; [lia|]. split; [lia|]. intros _. split; [assumption|]. rewrite Hw. lia. }
  cbn [length] in Ht.
  assert (Hne : (ret =? jFailed) = false) by (unfold ret_state in Hret; ust; lia).
  assert (Hst' : Forall ret_state (ret :: jp_states p)) by (constructor; [assumption|apply Hi]).
  inv_split Hi.
  destruct (c =? 123).
  { destruct (jvis s _) as [s1 e]. cbn [res_ok]. jpsimp. rewrite Hne. cbn [length].
    split; [lia|]. split; [lia|]. intros _. split.
    - unfold inv; jpsimp. rewrite Hne. ust. repeat split; try assumption; lia.
    - change (wgt jDict) with 1%nat. lia. }
  destruct (c =? 91).
  { destruct (jvis s _) as [s1 e]. cbn [res_ok]. jpsimp. rewrite Hne. cbn [length].
    split; [lia|]. split; [lia|]. intros _. split.
    - unfold inv; jpsimp. rewrite Hne. ust. repeat split; try assumption; lia.
    - change (wgt jArr) with 1%nat. lia. }
  destruct (c =? 110).
  { eapply res_ok_mono.
    - apply step_kind_ok.
      + unfold inv; jpsimp. rewrite Hne. ust. repeat split; try assumption; lia.
      + jpsimp. unfold zlen, kNull. cbn [length]. lia.
      + reflexivity.
    - jpsimp. lia.
    - jpsimp. rewrite Hne. cbn [length]. lia.
    - destruct r; cbn [length] in *; lia. }
  destruct (c =? 102).
  { eapply res_ok_mono.
    - apply step_kind_ok.
      + unfold inv; jpsimp. rewrite Hne. ust. repeat split; try assumption; lia.
      + jpsimp. unfold zlen, kFalse. cbn [length]. lia.
      + reflexivity.
    - jpsimp. lia.
    - jpsimp. rewrite Hne. cbn [length]. lia.
    - destruct r; cbn [length] in *; lia. }
  destruct (c =? 116).
  { eapply res_ok_mono.
    - apply step_kind_ok.
      + unfold inv; jpsimp. rewrite Hne. ust. repeat split; try assumption; lia.
      + jpsimp. unfold zlen, kTrue. cbn [length]. lia.
      + reflexivity.
    - jpsimp. lia.
    - jpsimp. rewrite Hne. cbn [length]. lia.
    - destruct r; cbn [length] in *; lia. }
  destruct (c =? 34).
  { eapply res_ok_mono.
    - apply step_string_ok.
      + unfold inv; jpsimp. rewrite Hne. ust. repeat split; try assumption; lia.
      + reflexivity.
      + discriminate.
    - jpsimp. cbn [length]. lia.
    - jpsimp. rewrite Hne. cbn [length]. lia.
    - cbn [length]. lia. }
  destruct (_ || _) eqn:En.
  { apply number_start_not_stop in En.
    eapply res_ok_mono.
    - apply step_number_ok with (k := 1%nat).
      + jpsimp. rewrite Hne. assumption.
      + assumption.
      + reflexivity.
      + discriminate.
      + right. exists c, r. auto.
    - jpsimp. cbn [length]. lia.
    - jpsimp. rewrite Hne. cbn [length]. lia.
    - cbn [length]. lia. }
  cbn [res_ok]. jpsimp. cbn [length].
  split; [lia|]. split; [lia|]. ust. intros; lia.
Qed.

Lemma step_dict_ok : forall p s b allow_end,
  inv p -> b <> [] ->
  res_ok (length (jp_lit p) + length b) (length (jp_states p) + length b)
         (2 * length b + 1) (step_dict p s b allow_end).
Proof.
  intros p s b allow_end Hi Hb. unfold step_dict.
  assert (Hlen : (length b <> 0)%nat) by (destruct b; [congruence|cbn [length]; lia]).
  pose proof (trim_left_len b) as Ht.
  destruct (trim_left b) as [|c r].
  { cbn [res_ok length]. split; [lia|]. split; [lia|]. intros _. split; [assumption|].
    pose proof (wgt_le1 (jp_cur p)). lia. }
  cbn [length] in Ht.
  destruct (c =? 125).
  { destruct allow_end; cbn [negb].
    - eapply res_ok_mono; [apply end_container_ok; assumption|lia|lia|lia].
    - cbn [res_ok length]. split; [lia|]. split; [lia|]. ust. intros; lia. }
  destruct (c =? 34).
  { inv_split Hi. cbn [res_ok length]. jsimp. split; [lia|]. split; [lia|]. intros _. split.
    - unfold inv; jsimp. ust. repeat split; try assumption; lia.
    - change (wgt jDictField) with 0%nat. lia. }
  cbn [res_ok length]. split; [lia|]. split; [lia|]. ust. intros; lia.
Qed.

Lemma step_dict_value_end_ok : forall p s b,
  inv p -> wgt (jp_cur p) = 0%nat -> b <> [] ->
  res_ok (length (jp_lit p) + length b) (length (jp_states p) + length b)
         (2 * length b) (step_dict_value_end p s b).
Proof.
  intros p s b Hi Hw Hb. unfold step_dict_value_end.
  assert (Hlen : (length b <> 0)%nat) by (destruct b; [congruence|cbn [length]; lia]).
  pose proof (trim_left_len b) as Ht.
  destruct (trim_left b) as [|c r].
  { cbn [res_ok length]. split; [lia|]. split; [lia|]. intros _. split; [assumption|]. lia. }
  cbn [length] in Ht.
  destruct (c =? 125).
  { eapply res_ok_mono; [apply end_container_ok; assumption|lia|lia|lia]. }
  destruct (c =? 44).
  { inv_split Hi. cbn [res_ok length]. jsimp. split; [lia|]. split; [lia|]. intros _. split.
    - unfold inv; jsimp. ust. repeat split; try assumption; lia.
    - change (wgt jDictNextField) with 1%nat. lia. }
  cbn [res_ok length]. split; [lia|]. split; [lia|]. ust. intros; lia.
Qed.

Lemma step_array_ok : forall p s b,
  inv p -> b <> [] ->
  res_ok (length (jp_lit p) + length b) (length (jp_states p) + length b)
         (2 * length b + 1) (step_array p s b).
Proof.
  intros p s b Hi Hb. unfold step_array.
  assert (Hlen : (length b <> 0)%nat) by (destruct b; [congruence|cbn [length]; lia]).
  pose proof (trim_left_len b) as Ht.
  destruct (trim_left b) as [|c r].
  { cbn [res_ok length]. split; [lia|]. split; [lia|]. intros _. split; [assumption|].
    pose proof (wgt_le1 (jp_cur p)). lia. }
  cbn [length] in Ht.
  destruct (c =? 93).
  { eapply res_ok_mono; [apply end_container_ok; assumption|lia|lia|lia]. }
  inv_split Hi. cbn [res_ok length]. jsimp. split; [lia|]. split; [lia|]. intros _. split.
  - unfold inv; jsimp. ust. repeat split; try assumption; lia.
  - change (wgt jArrValue) with 0%nat. lia.
Qed.

Lemma step_arr_value_end_ok : forall p s b,
  inv p -> wgt (jp_cur p) = 0%nat -> b <> [] ->
  res_ok (length (jp_lit p) + length b) (length (jp_states p) + length b)
         (2 * length b) (step_arr_value_end p s b).
Proof.
  intros p s b Hi Hw Hb. unfold step_arr_value_end.
  assert (Hlen : (length b <> 0)%nat) by (destruct b; [congruence|cbn [length]; lia]).
  pose proof (trim_left_len b) as Ht.
  destruct (trim_left b) as [|c r].
  { cbn [res_ok length]. split; [lia|]. split; [lia|]. intros _. split; [assumption|]. lia. }
  cbn [length] in Ht.
  destruct (c =? 93).
  { eapply res_ok_mono; [apply end_container_ok; assumption|lia|lia|lia]. }
  destruct (c =? 44).
  { inv_split Hi. cbn [res_ok length]. jsimp. split; [lia|]. split; [lia|]. intros _. split.
    - unfold inv; jsimp. ust. repeat split; try assumption; lia.
    - change (wgt jArrValue) with 0%nat. lia. }
  cbn [res_ok length]. split; [lia|]. split; [lia|]. ust. intros; lia.
Qed.

Lemma res_ok_norep : forall L S M r,
  res_ok L S M r ->
  res_ok L S M (match r with JS p1 s1 r0 _ e => JS p1 s1 r0 false e | JCrash why => JCrash why end).
Proof. intros L S M [p1 s1 r0 rep e|w]; cbn [res_ok]; auto. Qed.

Lemma jstep_ok : forall p s b,
  inv p -> jp_cur p <> jFailed -> b <> [] ->
  res_ok (length (jp_lit p) + length b) (length (jp_states p) + length b)
         (2 * length b + wgt (jp_cur p)) (jstep pf p s b).
Proof.
  intros p s b Hi Hnf Hb. unfold jstep.
  assert (Hlen : (length b <> 0)%nat) by (destruct b; [congruence|cbn [length]; lia]).
  destruct (jp_cur p =? jFailed) eqn:E0; [apply Z.eqb_eq in E0; contradiction|].
  clear E0. destruct (jp_cur p =? jStart) eqn:E1.
  { apply Z.eqb_eq in E1.
    eapply res_ok_mono; [apply step_value_ok; try assumption|lia|lia|lia].
    - left; reflexivity.
    - rewrite E1; reflexivity. }
  clear E1. destruct (jp_cur p =? jDict) eqn:E2.
  { apply Z.eqb_eq in E2. rewrite E2. change (wgt jDict) with 1%nat.
    apply step_dict_ok; assumption. }
  clear E2. destruct (jp_cur p =? jDictNextField) eqn:E3.
  { apply Z.eqb_eq in E3. rewrite E3. change (wgt jDictNextField) with 1%nat.
    apply step_dict_ok; assumption. }
  clear E3. destruct (jp_cur p =? jDictField) eqn:E4.
  { apply Z.eqb_eq in E4.
    eapply res_ok_mono; [apply step_dict_key_ok; assumption|lia|lia|lia]. }
  clear E4. destruct (jp_cur p =? jDictFieldValueSep) eqn:E5.
  { apply Z.eqb_eq in E5.
    pose proof (trim_left_len b) as Ht.
    destruct (trim_left b) as [|x r].
    - cbn [res_ok length]. split; [lia|]. split; [lia|]. intros _. split; [assumption|].
      rewrite E5. change (wgt jDictFieldValueSep) with 0%nat. lia.
    - cbn [length] in Ht. inv_split Hi. cbn [res_ok]. jsimp.
      split; [lia|]. split; [lia|]. intros _. split.
      + unfold inv; jsimp. ust. repeat split; try assumption; lia.
      + change (wgt jDictFieldValue) with 0%nat. lia. }
  clear E5. destruct (jp_cur p =? jDictFieldValue) eqn:E6.
  { apply Z.eqb_eq in E6.
    eapply res_ok_mono; [apply step_value_ok; try assumption|lia|lia|lia].
    - right; left; reflexivity.
    - rewrite E6; reflexivity. }
  clear E6. destruct (jp_cur p =? jDictFieldStateEnd) eqn:E7.
  { apply Z.eqb_eq in E7.
    eapply res_ok_mono; [apply step_dict_value_end_ok; try assumption|lia|lia|lia].
    rewrite E7; reflexivity. }
  clear E7. destruct (jp_cur p =? jArr) eqn:E8.
  { apply Z.eqb_eq in E8. rewrite E8. change (wgt jArr) with 1%nat.
    apply step_array_ok; assumption. }
  clear E8. destruct (jp_cur p =? jArrValue) eqn:E9.
  { apply Z.eqb_eq in E9. apply res_ok_norep.
    eapply res_ok_mono; [apply step_value_ok; try assumption|lia|lia|lia].
    - right; right; reflexivity.
    - rewrite E9; reflexivity. }
  clear E9. destruct (jp_cur p =? jArrNext) eqn:E10.
  { apply Z.eqb_eq in E10.
    eapply res_ok_mono; [apply step_arr_value_end_ok; try assumption|lia|lia|lia].
    rewrite E10; reflexivity. }
  clear E10. destruct (jp_cur p =? jNull) eqn:E11.
  { apply Z.eqb_eq in E11.
    eapply res_ok_mono; [apply step_kind_ok; try assumption|lia|lia|destruct b; [congruence|lia]].
    - inv_split Hi. unfold zlen, kNull. cbn [length]. lia.
    - rewrite E11; reflexivity. }
  clear E11. destruct (jp_cur p =? jTrue) eqn:E12.
  { apply Z.eqb_eq in E12.
    eapply res_ok_mono; [apply step_kind_ok; try assumption|lia|lia|destruct b; [congruence|lia]].
    - inv_split Hi. unfold zlen, kTrue. cbn [length]. lia.
    - rewrite E12; reflexivity. }
  clear E12. destruct (jp_cur p =? jFalse) eqn:E13.
  { apply Z.eqb_eq in E13.
    eapply res_ok_mono; [apply step_kind_ok; try assumption|lia|lia|destruct b; [congruence|lia]].
    - inv_split Hi. unfold zlen, kFalse. cbn [length]. lia.
    - rewrite E13; reflexivity. }
  clear E13. destruct (jp_cur p =? jString) eqn:E14.
  { apply Z.eqb_eq in E14.
    eapply res_ok_mono; [apply step_string_ok; assumption|lia|lia|lia]. }
  clear E14. destruct (jp_cur p =? jNumber) eqn:E15.
  { apply Z.eqb_eq in E15. inv_split Hi.
    eapply res_ok_mono; [apply step_number_ok with (k := 0%nat); try assumption|lia|rewrite Nat.sub_0_r; lia|].
    - left. split; [auto|reflexivity].
    - rewrite E15. change (wgt jNumber) with 1%nat. rewrite Nat.sub_0_r. lia. }
  clear E15. cbn [res_ok]. split; [lia|]. split; [lia|]. ust. intros; lia.
Qed.

(* ------------------------------------------------------------------ *)
(* feedUntil / feed / Write                                            *)
(* ------------------------------------------------------------------ *)

Lemma jstep_failed : forall p s b,
  jp_cur p = jFailed -> jp_err p <> jpnil ->
  exists p1 err, jstep pf p s b = JS p1 s b false err /\ err <> jpnil /\
                 jp_lit p1 = jp_lit p /\ jp_states p1 = jp_states p.
Proof.
  intros p s b Hc He. unfold jstep. rewrite Hc. change (jFailed =? jFailed) with true. cbv iota.
  destruct (jp_err p =? 0) eqn:E; eexists _, _; (split; [reflexivity|]); jsimp; ust; repeat split; lia.
Qed.

Lemma jisnil_true : forall e, jisnil e = true -> e = jpnil.
Proof. intros e. unfold jisnil. apply Z.eqb_eq. Qed.
Lemma jisnil_false : forall e, jisnil e = false -> e <> jpnil.
Proof. intros e. unfold jisnil. apply Z.eqb_neq. Qed.

Lemma jfeed_until_ok : forall fuel p s b orig L S,
  inv p -> (2 * length b + wgt (jp_cur p) < fuel)%nat ->
  (length (jp_lit p) + length b <= L)%nat -> (length (jp_states p) + length b <= S)%nat ->
  exists p' s' rest rep err,
    jfeed_until fuel pf p s b orig = Ok (JS p' s' rest rep err) /\
    (length (jp_lit p') <= L)%nat /\ (length (jp_states p') <= S)%nat /\
    (err = jpnil ->
       inv p' /\ (length (jp_lit p') + length rest <= L)%nat /\
       (length (jp_states p') + length rest <= S)%nat /\
       (2 * length rest + wgt (jp_cur p') <= 2 * length b + wgt (jp_cur p))%nat /\
       (b <> [] -> (2 * length rest + wgt (jp_cur p') < 2 * length b + wgt (jp_cur p))%nat)).
Proof.
  induction fuel as [|f IH]; intros p s b orig L S Hi Hf HL HS; [lia|].
  cbn [jfeed_until].
  destruct (zlen b =? 0) eqn:Eb.
  { exists p, s, b, false, jpnil. split; [reflexivity|]. split; [lia|]. split; [lia|].
    intros _. split; [assumption|]. split; [lia|]. split; [lia|]. split; [lia|].
    intros Hb. destruct b; [congruence|]. unfold zlen in Eb. cbn [length] in Eb. lia. }
  assert (Hb : b <> []) by (intros ->; unfold zlen in Eb; cbn [length] in Eb; lia).
  destruct (Z.eq_dec (jp_cur p) jFailed) as [Hc|Hc].
  { destruct (jstep_failed p s b Hc) as (p1 & err & -> & Hne & Hl1 & Hs1); [apply Hi|].
    rewrite Hc. change (jFailed =? jFailed) with true. cbv iota.
    exists p1, s, orig, false, err. split; [reflexivity|]. rewrite Hl1, Hs1.
    split; [lia|]. split; [lia|]. intros; contradiction. }
  pose proof (jstep_ok p s b Hi Hc Hb) as Hs.
  destruct (jstep pf p s b) as [p1 s1 rest rep err|w]; [|contradiction].
  cbn [res_ok] in Hs. destruct Hs as (H1 & H2 & H3).
  destruct (jp_cur p =? jFailed) eqn:E0; [apply Z.eqb_eq in E0; contradiction|]. clear E0.
  destruct (jisnil err) eqn:En; cbn [negb].
  - apply jisnil_true in En. destruct (H3 En) as [Hi1 Hm].
    destruct (rep && _).
    + exists p1, s1, rest, true, jpnil. split; [reflexivity|]. split; [lia|]. split; [lia|].
      intros _. split; [assumption|]. split; [lia|]. split; [lia|]. split; [lia|]. intros _; lia.
    + destruct (IH p1 s1 rest orig L S Hi1) as (p' & s' & rest' & rep' & err' & Heq & HL' & HS' & Hn');
        [lia|lia|lia|].
      exists p', s', rest', rep', err'. split; [assumption|]. split; [lia|]. split; [lia|].
      intros He. destruct (Hn' He) as (Hi' & Ha & Hb' & Hc' & _).
      split; [assumption|]. split; [lia|]. split; [lia|]. split; [lia|]. intros _; lia.
  - apply jisnil_false in En.
    exists p1, s1, rest, rep, err. split; [reflexivity|]. split; [lia|]. split; [lia|].
    intros; contradiction.
Qed.

Lemma jfeed_ok : forall fuel p s b L S,
  inv p -> (2 * length b + wgt (jp_cur p) < fuel)%nat ->
  (length (jp_lit p) + length b <= L)%nat -> (length (jp_states p) + length b <= S)%nat ->
  exists p' s' err,
    jfeed fuel pf p s b = Ok (p', s', err) /\
    (length (jp_lit p') <= L)%nat /\ (length (jp_states p') <= S)%nat /\
    (err = jpnil -> inv p').
Proof.
  induction fuel as [|f IH]; intros p s b L S Hi Hf HL HS; [lia|].
  cbn [jfeed].
  destruct (zlen b >? 0) eqn:Eb.
  - assert (Hb : b <> []) by (intros ->; unfold zlen in Eb; cbn [length] in Eb; lia).
    pose proof (wgt_le1 (jp_cur p)) as Hw.
    destruct (jfeed_until_ok (jfeed_fuel b) p s b b L S Hi) as
      (p1 & s1 & rest & rep & err & Heq & HL1 & HS1 & Hn); [unfold jfeed_fuel; lia|lia|lia|].
    rewrite Heq.
    destruct (jisnil err) eqn:En.
    + apply jisnil_true in En. destruct (Hn En) as (Hi1 & Ha & Hb1 & _ & Hlt).
      specialize (Hlt Hb).
      apply IH; [assumption|lia|lia|lia].
    + apply jisnil_false in En. exists p1, s1, err. split; [reflexivity|].
      split; [lia|]. split; [lia|]. intros; contradiction.
  - exists p, s, jpnil. split; [reflexivity|]. split; [lia|]. split; [lia|]. intros _; assumption.
Qed.

Lemma inv_set_err : forall p e, inv p -> e <> jpnil -> inv (jset_err p e).
Proof.
  intros p e Hi He. inv_split Hi. unfold inv; jsimp.
  split; [assumption|]. split; [assumption|]. split; [assumption|]. split; assumption.
Qed.

Lemma jp_write_ok : forall p s b N,
  inv p -> (length (jp_lit p) <= N)%nat -> (length (jp_states p) <= N)%nat ->
  exists p' s' err,
    jp_write pf p s b = Ok (p', s', err) /\
    (length (jp_lit p') <= N + length b)%nat /\ (length (jp_states p') <= N + length b)%nat /\
    (err = jpnil -> inv p').
Proof.
  intros p s b N Hi HL HS. unfold jp_write.
  pose proof (wgt_le1 (jp_cur p)) as Hw.
  destruct (jfeed_ok (2 * length b + 2) p s b (N + length b) (N + length b) Hi) as
    (p1 & s1 & err & Heq & HL1 & HS1 & Hn); [lia|lia|lia|].
  rewrite Heq. eexists _, _, _. split; [reflexivity|]. jsimp.
  split; [assumption|]. split; [assumption|].
  intros He. rewrite He. change (jisnil jpnil) with true. cbv iota.
  apply inv_set_err; [auto|]. ust; lia.
Qed.

Lemma with_final_ok : forall p s,
  inv p ->
  exists p' s' err,
    with_final pf p s = Ok (p', s', err) /\
    (length (jp_lit p') <= length (jp_lit p))%nat /\
    (length (jp_states p') <= length (jp_states p))%nat.
Proof.
  intros p s Hi. inv_split Hi. unfold with_final, jfinalize.
  destruct (jp_cur p =? jNumber) eqn:Ec.
  - apply Z.eqb_eq in Ec.
    destruct (report_number_some pf s (jp_lit p) (jp_isdbl p) (Hnum Ec)) as (s1 & e & ->).
    destruct (jpop_ok p Hst Her) as (_ & _ & Hl & Hlit).
    destruct (jisnil e); cbn [negb].
    + destruct (_ && _); eexists _, _, _; (split; [reflexivity|]); cbn [jset_lit jp_lit jp_states length]; lia.
    + eexists _, _, _; (split; [reflexivity|]); cbn [jset_lit jp_lit jp_states length]; lia.
  - cbn [negb]. destruct (_ && _); eexists _, _, _; (split; [reflexivity|]); lia.
Qed.

Lemma jp_writes_ok : forall chunks p s N,
  inv p -> (length (jp_lit p) <= N)%nat -> (length (jp_states p) <= N)%nat ->
  exists p' s' err,
    jp_writes pf p s chunks = Ok (p', s', err) /\
    (length (jp_lit p') <= N + length (concat chunks))%nat /\
    (length (jp_states p') <= N + length (concat chunks))%nat.
Proof.
  induction chunks as [|c cs IH]; intros p s N Hi HL HS; cbn [jp_writes concat].
  - destruct (with_final_ok p s Hi) as (p' & s' & err & Heq & H1 & H2).
    exists p', s', err. split; [assumption|]. cbn [length]. lia.
  - destruct (jp_write_ok p s c N Hi HL HS) as (p1 & s1 & err & Heq & H1 & H2 & Hn).
    rewrite Heq. rewrite app_length.
    destruct (jisnil err) eqn:En.
    + apply jisnil_true in En.
      destruct (IH p1 s1 (N + length c)%nat (Hn En) H1 H2) as (p' & s' & err' & Heq' & H1' & H2').
      exists p', s', err'. split; [assumption|]. lia.
    + exists p1, s1, err. split; [reflexivity|]. lia.
Qed.

Lemma jp_parse_ok : forall p s b,
  jp_err p <> jpnil ->
  exists p' s' err,
    jp_parse pf p s b = Ok (p', s', err) /\
    (length (jp_lit p') <= length b)%nat /\ (length (jp_states p') <= length b)%nat.
Proof.
  intros p s b He. unfold jp_parse.
  match goal with |- context [jfeed _ pf ?q s b] => set (p0 := q) end.
  assert (Hi0 : inv p0).
  { unfold inv, p0; jsimp. ust. repeat split; try lia; try assumption. constructor. }
  destruct (jfeed_ok (2 * length b + 2) p0 s b (length b) (length b) Hi0) as
    (p1 & s1 & err & Heq & HL1 & HS1 & Hn).
  { change (wgt (jp_cur p0)) with 0%nat. lia. }
  { unfold p0; jsimp. cbn [length]. lia. }
  { unfold p0; jsimp. cbn [length]. lia. }
  rewrite Heq.
  destruct (jisnil err) eqn:En.
  - apply jisnil_true in En.
    destruct (with_final_ok p1 s1 (Hn En)) as (p' & s' & err' & Heq' & H1 & H2).
    exists p', s', err'. split; [assumption|]. lia.
  - exists p1, s1, err. split; [reflexivity|]. lia.
Qed.

(* ------------------------------------------------------------------ *)
(* C03                                                                 *)
(* ------------------------------------------------------------------ *)

(* no hypothesis on the bytes is needed: the model is total on all of list Z *)
Theorem C03_json_chunks_total_any : forall vfail chunks,
  exists evs e p, jrun_chunks pf vfail chunks = Ok (evs, e, p).
Proof.
  intros vfail chunks. unfold jrun_chunks.
  destruct (jp_writes_ok chunks jparser0 (sink0 vfail) 0%nat inv0) as (p' & s' & err & -> & _);
    [cbn; lia|cbn; lia|].
  eauto.
Qed.

Theorem C03_json_parse_total_any : forall vfail b,
  exists evs e p, jrun_parse pf vfail b = Ok (evs, e, p).
Proof.
  intros vfail b. unfold jrun_parse.
  destruct (jp_parse_ok jparser0 (sink0 vfail) b) as (p' & s' & err & -> & _).
  { cbn. ust. lia. }
  eauto.
Qed.

Theorem C03_json_chunks_total : forall vfail chunks, forallb all_bytes chunks = true ->
  exists evs e p, jrun_chunks pf vfail chunks = Ok (evs, e, p).
Proof. intros vfail chunks _. apply C03_json_chunks_total_any. Qed.

Theorem C03_json_parse_total : forall vfail b, all_bytes b = true ->
  exists evs e p, jrun_parse pf vfail b = Ok (evs, e, p).
Proof. intros vfail b _. apply C03_json_parse_total_any. Qed.

(* retained state after any sequence of Writes (whatever the outcome, error or not) *)
Theorem C03_json_space_writes : forall vfail chunks p s e,
  jp_writes pf jparser0 (sink0 vfail) chunks = Ok (p, s, e) ->
  (length (jp_lit p) <= length (concat chunks))%nat /\
  (length (jp_states p) <= length (concat chunks))%nat.
Proof.
  intros vfail chunks p s e H.
  destruct (jp_writes_ok chunks jparser0 (sink0 vfail) 0%nat inv0) as (p' & s' & err & Heq & H1 & H2);
    [cbn; lia|cbn; lia|].
  rewrite Heq in H. injection H as -> _ _. lia.
Qed.

Theorem C03_json_space_parse_writes : forall vfail b p s e,
  jp_parse pf jparser0 (sink0 vfail) b = Ok (p, s, e) ->
  (length (jp_lit p) <= length b)%nat /\ (length (jp_states p) <= length b)%nat.
Proof.
  intros vfail b p s e H.
  destruct (jp_parse_ok jparser0 (sink0 vfail) b) as (p' & s' & err & Heq & H1 & H2).
  { cbn. ust. lia. }
  rewrite Heq in H. injection H as -> _ _. lia.
Qed.

(* the same, on the harness entry points (which return the final parser) *)
Theorem C03_json_space : forall vfail chunks evs e p,
  jrun_chunks pf vfail chunks = Ok (evs, e, p) ->
  (length (jp_lit p) <= length (concat chunks))%nat /\
  (length (jp_states p) <= length (concat chunks))%nat.
Proof.
  intros vfail chunks evs e p. unfold jrun_chunks.
  destruct (jp_writes pf jparser0 (sink0 vfail) chunks) as [[[p' s'] e']| | |] eqn:H; try discriminate.
  intros [= _ _ <-]. eapply C03_json_space_writes; eassumption.
Qed.

Theorem C03_json_space_parse : forall vfail b evs e p,
  jrun_parse pf vfail b = Ok (evs, e, p) ->
  (length (jp_lit p) <= length b)%nat /\ (length (jp_states p) <= length b)%nat.
Proof.
  intros vfail b evs e p. unfold jrun_parse.
  destruct (jp_parse pf jparser0 (sink0 vfail) b) as [[[p' s'] e']| | |] eqn:H; try discriminate.
  intros [= _ _ <-]. eapply C03_json_space_parse_writes; eassumption.
Qed.

End JsonSafety.

Print Assumptions C03_json_unquote_safe.
Print Assumptions unquote_safe_any.
Print Assumptions C03_json_chunks_total.
Print Assumptions C03_json_parse_total.
Print Assumptions C03_json_chunks_total_any.
Print Assumptions C03_json_parse_total_any.
Print Assumptions C03_json_space.
Print Assumptions C03_json_space_parse.
Print Assumptions C03_json_space_writes.
Check C03_json_chunks_total.
Check C03_json_parse_total.
Check C03_json_space.
