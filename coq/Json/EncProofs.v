(* Proofs about the JSON encoder model (Json/Enc.v): C16 (no write error is
   lost), C17 (no panic, stacks idle after a well-formed tree), C07 (text
   predicates on the bytes written: no control characters, HTML escaping,
   explicit radix, valid UTF-8, non-finite floats). *)
From SF Require Import Base.Prelude Base.PreludeProofs Base.Utf8 Core.Events Core.EventsProofs
  Ubjson.Enc Json.Enc.
From Coq Require Import ZifyBool ZifyNat ZifyN.
Open Scope Z_scope.

Ltac Zify.zify_post_hook ::= Z.div_mod_to_equations.

(* ====================================================================== *)
(* 0. Small facts                                                          *)
(* ====================================================================== *)

Lemma jthen_nil e k : (JR e jnil >>= k) = k e.
Proof. reflexivity. Qed.

Lemma wwrite_chunks w b : w_rchunks (fst (wwrite w b)) = b :: w_rchunks w.
Proof. unfold wwrite. destruct (w_fail w); reflexivity. Qed.

Lemma wwrite_fail w b : w_fail (fst (wwrite w b)) = w_fail w.
Proof. unfold wwrite. destruct (w_fail w); reflexivity. Qed.

Lemma wwrite_nofail w b : w_fail w = None ->
  wwrite w b = ({| w_rchunks := b :: w_rchunks w; w_n := S (w_n w); w_fail := None |}, true).
Proof. intro H. unfold wwrite. rewrite H. reflexivity. Qed.

Lemma w_bytes_cons b l n f :
  w_bytes {| w_rchunks := b :: l; w_n := S n; w_fail := f |} =
  w_bytes {| w_rchunks := l; w_n := n; w_fail := f |} ++ b.
Proof.
  unfold w_bytes, w_chunks. cbn [w_rchunks rev]. rewrite concat_app. cbn [concat].
  rewrite app_nil_r. reflexivity.
Qed.

(* the escape chunk of an ASCII byte in the escape set *)
Definition esc_chunk (b : Z) : bytes :=
  if (b =? 92) || (b =? 34) then [92; b]
  else if b =? 10 then [92; 110]
  else if b =? 13 then [92; 114]
  else if b =? 9 then [92; 116]
  else [92; 117; 48; 48; hexdigit (b / 16); hexdigit (b mod 16)].

Lemma esc_chunk_eq e b :
  (if (b =? 92) || (b =? 34) then jw e [92; b]
   else if b =? 10 then jw e [92; 110]
   else if b =? 13 then jw e [92; 114]
   else if b =? 9 then jw e [92; 116]
   else jw e [92; 117; 48; 48; hexdigit (b / 16); hexdigit (b mod 16)]) = jw e (esc_chunk b).
Proof.
  unfold esc_chunk.
  destruct ((b =? 92) || (b =? 34)); [reflexivity|].
  destruct (b =? 10); [reflexivity|]. destruct (b =? 13); [reflexivity|].
  destruct (b =? 9); reflexivity.
Qed.

(* decimal digits *)
Definition fchars : bytes := [43;45;46;48;49;50;51;52;53;54;55;56;57;101].
Definition is_digit (c : Z) : Prop := 48 <= c <= 57.

Lemma digits_fuel_digit fuel : forall n acc, 0 <= n -> Forall is_digit acc ->
  Forall is_digit (digits_fuel fuel n acc).
Proof.
  induction fuel as [|f IH]; intros n acc Hn Ha; cbn [digits_fuel]; [exact Ha|].
  destruct (n <? 10) eqn:E.
  - constructor; [unfold is_digit; lia | exact Ha].
  - apply IH; [lia|]. constructor; [unfold is_digit; lia | exact Ha].
Qed.

Lemma digits_digit n : 0 <= n -> Forall is_digit (digits n).
Proof. intro H. apply digits_fuel_digit; [exact H | constructor]. Qed.

Definition int_chunk (z : Z) : bytes := if z <? 0 then 45 :: digits (- z) else digits z.

Lemma int_chunk_chars z : Forall (fun c => c = 45 \/ is_digit c) (int_chunk z).
Proof.
  unfold int_chunk. destruct (z <? 0) eqn:E.
  - constructor; [left; reflexivity|].
    eapply Forall_impl; [|apply digits_digit; lia]. intros a Ha; right; exact Ha.
  - eapply Forall_impl; [|apply digits_digit; lia]. intros a Ha; right; exact Ha.
Qed.

(* decode_rune on a lead byte >= 128: the shape of an accepted rune *)
Definition rune_ok (r : bytes) : Prop :=
  r <> [] /\ exists c, ((c =? rune_error) && (zlen r =? 1)) = false /\
                       forall rest, decode_rune (r ++ rest) = (c, zlen r).

Lemma decode_rune_size b r c sz : decode_rune (b :: r) = (c, sz) -> 1 <= sz <= 4.
Proof.
  unfold decode_rune.
  repeat match goal with
  | |- context [if ?x then _ else _] => destruct x
  | |- context [match ?l with [] => _ | _ :: _ => _ end] => destruct l
  end; intro H; inversion H; lia.
Qed.

Lemma decode_rune_copy b r c sz :
  (b <? 128) = false -> decode_rune (b :: r) = (c, sz) ->
  ((c =? rune_error) && (sz =? 1)) = false ->
  exists ru rest, b :: r = ru ++ rest /\ length ru = Z.to_nat sz /\ rune_ok ru /\
                  Forall (fun x => 128 <= x < 256) ru.
Proof.
  intros Hb. unfold decode_rune. rewrite Hb.
  destruct ((b <? 194) || (244 <? b)) eqn:E1.
  { intro H; inversion H; subst. cbn. discriminate. }
  destruct (b <? 224) eqn:E2.
  { destruct r as [|b1 r]; [intro H; inversion H; subst; cbn; discriminate|].
    destruct (cont_byte b1) eqn:E3; [|intro H; inversion H; subst; cbn; discriminate].
    intros H Hc; inversion H; subst c sz.
    exists [b; b1], r. split; [reflexivity|]. split; [reflexivity|]. split.
    - split; [discriminate|]. eexists. split; [|intro rest; cbn [app]; unfold decode_rune;
        rewrite Hb, E1, E2, E3; reflexivity]. exact Hc.
    - unfold cont_byte in E3. repeat constructor; lia. }
  destruct (b <? 240) eqn:E4.
  { destruct r as [|b1 [|b2 r]]; try (intro H; inversion H; subst; cbn; discriminate).
    match goal with |- context [if ?x then _ else _] => destruct x eqn:E3 end;
      [|intro H; inversion H; subst; cbn; discriminate].
    intros H Hc; inversion H; subst c sz.
    exists [b; b1; b2], r. split; [reflexivity|]. split; [reflexivity|]. split.
    - split; [discriminate|]. eexists. split; [|intro rest; cbn [app]; unfold decode_rune;
        rewrite Hb, E1, E2, E4, E3; reflexivity]. exact Hc.
    - unfold cont_byte in E3. destruct (b =? 224), (b =? 237); repeat constructor; lia. }
  { destruct r as [|b1 [|b2 [|b3 r]]]; try (intro H; inversion H; subst; cbn; discriminate).
    match goal with |- context [if ?x then _ else _] => destruct x eqn:E3 end;
      [|intro H; inversion H; subst; cbn; discriminate].
    intros H Hc; inversion H; subst c sz.
    exists [b; b1; b2; b3], r. split; [reflexivity|]. split; [reflexivity|]. split.
    - split; [discriminate|]. eexists. split; [|intro rest; cbn [app]; unfold decode_rune;
        rewrite Hb, E1, E2, E4, E3; reflexivity]. exact Hc.
    - unfold cont_byte in E3. destruct (b =? 240), (b =? 244); repeat constructor; lia. }
Qed.

Lemma rune_ok_ascii b : b < 128 -> rune_ok [b].
Proof.
  intro H. split; [discriminate|]. exists b. split.
  - unfold rune_error. lia.
  - intro rest. cbn [app]. unfold decode_rune.
    destruct (b <? 128) eqn:E; [reflexivity|lia].
Qed.

(* ====================================================================== *)
(* 1. A generic invariant framework                                        *)
(*    W : invariant of the writer, preserved by a successful write of a    *)
(*        chunk satisfying C;  okB : what is known about string bytes.     *)
(* ====================================================================== *)

Definition fixed_chunks : list bytes :=
  [[44]; [34]; [58]; [91]; [93]; [123]; [125]; [110;117;108;108]; [116;114;117;101];
   [102;97;108;115;101]; [46;48]; [92;117;102;102;102;100]; [92;117;50;48;50]; [56]; [57]].

Definition scalar_sp (okB : Z -> Prop) (s : scalar) : Prop :=
  match s with SStr b => Forall okB b | _ => True end.
Definition event_sp (okB : Z -> Prop) (ev : event) : Prop :=
  match ev with
  | EVal s => scalar_sp okB s
  | EStrRef b | EKey b | EKeyRef b => Forall okB b
  | EXArr _ es => Forall (scalar_sp okB) es
  | EXObj _ ms => Forall (fun m => Forall okB (fst m) /\ scalar_sp okB (snd m)) ms
  | _ => True
  end.

Section Generic.
  Variable ffmt : Z -> Z -> bytes.
  Variable cfg : jcfg.
  Variable W : wsink -> Prop.
  Variable C : bytes -> Prop.
  Variable okB : Z -> Prop.
  Hypothesis W_write : forall w b w', W w -> C b -> wwrite w b = (w', true) -> W w'.
  Hypothesis C_nil : C [].
  Hypothesis C_app : forall a b, C a -> C b -> C (a ++ b).
  Hypothesis C_fixed : forall b, In b fixed_chunks -> C b.
  Hypothesis C_ascii : forall b, okB b -> b < 128 -> escape_set (escape_html cfg) b = false -> C [b].
  Hypothesis C_esc : forall b, okB b -> b < 128 -> escape_set (escape_html cfg) b = true -> C (esc_chunk b).
  Hypothesis C_rune : forall r, rune_ok r -> Forall (fun x => 128 <= x < 256) r -> C r.
  Hypothesis C_int : forall z, C (int_chunk z).
  Hypothesis C_float : forall w b n, C (ffmt w b) /\ C (firstn n (ffmt w b)) /\ C (skipn n (ffmt w b)).

  Definition res_inv (r : jres) : Prop :=
    match r with
    | JR e err => (err = jnil -> W (je_w e)) /\
                  (err = jnil \/ err = 99 \/ (err = 1 /\ ignore_invalid cfg = false))
    | JPanic => True
    end.

  Ltac in_fixed := apply C_fixed; unfold fixed_chunks; cbn [In];
                   repeat (first [left; reflexivity | right]).

  Lemma ret_inv e : W (je_w e) -> res_inv (JR e jnil).
  Proof. intro H. split; [intros _; exact H | left; reflexivity]. Qed.

  Lemma jw_inv e b : W (je_w e) -> C b -> res_inv (jw e b).
  Proof.
    intros Hw Hc. unfold jw. destruct (wwrite (je_w e) b) as [w ok] eqn:E.
    destruct ok; cbn [res_inv je_w].
    - split; [intros _; eapply W_write; eassumption | left; reflexivity].
    - split; [unfold jnil; discriminate | right; left; reflexivity].
  Qed.

  Lemma jthen_inv r k : res_inv r -> (forall e, W (je_w e) -> res_inv (k e)) -> res_inv (r >>= k).
  Proof.
    intros Hr Hk. destruct r as [e err|]; cbn [jthen]; [|exact I].
    destruct (err =? jnil) eqn:E.
    - apply Hk. apply Hr. lia.
    - exact Hr.
  Qed.

  Lemma try_elem_next_inv e : W (je_w e) -> res_inv (try_elem_next e).
  Proof.
    intro H. unfold try_elem_next.
    destruct (negb (bs_cur (je_inarr e))); [apply ret_inv; exact H|].
    destruct (bs_cur (je_first e)); [apply ret_inv; exact H|].
    apply jw_inv; [exact H | in_fixed].
  Qed.

  Lemma on_field_next_inv e : W (je_w e) -> res_inv (on_field_next e).
  Proof.
    intro H. unfold on_field_next.
    destruct (bs_cur (je_first e)); [apply ret_inv; exact H|].
    apply jw_inv; [exact H | in_fixed].
  Qed.

  Lemma flush_inv e rseg : W (je_w e) -> C (rev rseg) -> res_inv (flush e rseg).
  Proof.
    intros H Hc. unfold flush. destruct rseg as [|x l]; [apply ret_inv; exact H|].
    apply jw_inv; assumption.
  Qed.

  Lemma Forall_skipn_Z {A} (P : A -> Prop) n (l : list A) : Forall P l -> Forall P (skipn n l).
  Proof.
    intro H. rewrite <- (firstn_skipn n l) in H. apply Forall_app in H. apply H.
  Qed.

  Lemma jstring_loop_inv fuel : forall e s rseg,
    W (je_w e) -> Forall okB s -> C (rev rseg) ->
    res_inv (jstring_loop fuel (escape_html cfg) e s rseg).
  Proof.
    induction fuel as [|f IH]; intros e s rseg Hw Hs Hr; cbn [jstring_loop]; [exact I|].
    destruct s as [|b r].
    { apply jthen_inv; [apply flush_inv; assumption|]. intros e1 H1. apply jw_inv; [exact H1|in_fixed]. }
    inversion Hs as [|b' r' Hb Hr']; subst b' r'.
    destruct (b <? 128) eqn:E128.
    { destruct (escape_set (escape_html cfg) b) eqn:Eesc; cbn [negb].
      - apply jthen_inv; [apply flush_inv; assumption|]. intros e1 H1.
        rewrite esc_chunk_eq.
        apply jthen_inv; [apply jw_inv; [exact H1|apply C_esc; [exact Hb|lia|exact Eesc]]|].
        intros e2 H2. apply IH; [exact H2|exact Hr'|exact C_nil].
      - apply IH; [exact Hw|exact Hr'|]. cbn [rev]. apply C_app; [exact Hr|].
        apply C_ascii; [exact Hb|lia|exact Eesc]. }
    destruct (decode_rune (b :: r)) as [c sz] eqn:D.
    destruct ((c =? rune_error) && (sz =? 1)) eqn:Eerr.
    { apply jthen_inv; [apply flush_inv; assumption|]. intros e1 H1.
      apply jthen_inv; [apply jw_inv; [exact H1|in_fixed]|].
      intros e2 H2. apply IH; [exact H2|exact Hr'|exact C_nil]. }
    destruct ((c =? 8232) || (c =? 8233)) eqn:Els.
    { apply jthen_inv; [apply flush_inv; assumption|]. intros e1 H1.
      apply jthen_inv; [apply jw_inv; [exact H1|in_fixed]|]. intros e2 H2.
      apply jthen_inv.
      - apply jw_inv; [exact H2|].
        assert (Hc : c = 8232 \/ c = 8233) by lia.
        destruct Hc as [-> | ->]; in_fixed.
      - intros e3 H3. apply IH; [exact H3| apply Forall_skipn_Z; exact Hs | exact C_nil]. }
    apply IH; [exact Hw| apply Forall_skipn_Z; exact Hs |].
    rewrite rev_app_distr, rev_involutive. apply C_app; [exact Hr|].
    destruct (decode_rune_copy b r c sz E128 D Eerr) as (ru & rest & Heq & Hlen & Hok & Hrange).
    rewrite Heq, <- Hlen. rewrite firstn_app, Nat.sub_diag, firstn_all. cbn [firstn].
    rewrite app_nil_r. apply C_rune; assumption.
  Qed.

  Lemma jstring_inv e s : W (je_w e) -> Forall okB s -> res_inv (jstring cfg e s).
  Proof.
    intros Hw Hs. unfold jstring.
    apply jthen_inv; [apply try_elem_next_inv; exact Hw|]. intros e1 H1.
    apply jthen_inv; [apply jw_inv; [exact H1|in_fixed]|]. intros e2 H2.
    apply jstring_loop_inv; [exact H2|exact Hs|exact C_nil].
  Qed.

  Lemma jint_inv e z : W (je_w e) -> res_inv (jint e z).
  Proof.
    intro Hw. unfold jint.
    apply jthen_inv; [apply try_elem_next_inv; exact Hw|]. intros e1 H1.
    apply jw_inv; [exact H1|apply C_int].
  Qed.

  Lemma jfloat_inv e w bits : W (je_w e) -> res_inv (jfloat cfg ffmt e w bits).
  Proof.
    intro Hw. unfold jfloat.
    apply jthen_inv; [apply try_elem_next_inv; exact Hw|]. intros e1 H1.
    destruct (nonfinite w bits).
    { destruct (ignore_invalid cfg) eqn:Hig.
      - apply jw_inv; [exact H1|in_fixed].
      - cbn [res_inv]. split; [unfold jnil; discriminate | right; right; split; [reflexivity|exact Hig]]. }
    destruct (explicit_radix cfg); [|apply jw_inv; [exact H1|apply (C_float w bits 0%nat)]].
    destruct (radix_scan (ffmt w bits) 0) as [idx need].
    apply jthen_inv; [apply jw_inv; [exact H1|apply (C_float w bits idx)]|]. intros e2 H2.
    apply jthen_inv.
    - destruct need; [apply jw_inv; [exact H2|in_fixed] | apply ret_inv; exact H2].
    - intros e3 H3. apply jw_inv; [exact H3|apply (C_float w bits idx)].
  Qed.

  Lemma jscalar_inv e s : W (je_w e) -> scalar_sp okB s -> res_inv (jscalar cfg ffmt e s).
  Proof.
    intros Hw Hs. destruct s as [|b|s|k z]; cbn [jscalar].
    - apply jthen_inv; [apply try_elem_next_inv; exact Hw|]. intros e1 H1.
      apply jw_inv; [exact H1|in_fixed].
    - destruct b; (apply jthen_inv; [apply try_elem_next_inv; exact Hw|]); intros e1 H1;
        (apply jw_inv; [exact H1|in_fixed]).
    - apply jstring_inv; assumption.
    - destruct k; first [apply jint_inv; exact Hw | apply jfloat_inv; exact Hw].
  Qed.

  Lemma jstart_inv e isarr : W (je_w e) -> res_inv (jstart e isarr).
  Proof.
    intro Hw. unfold jstart.
    apply jthen_inv; [apply try_elem_next_inv; exact Hw|]. intros e1 H1.
    apply jw_inv; [exact H1|]. destruct isarr; in_fixed.
  Qed.

  Lemma jfinish_inv e isarr : W (je_w e) -> res_inv (jfinish e isarr).
  Proof.
    intro Hw. unfold jfinish.
    destruct (bs_pop (je_first e)); [|exact I]. destruct (bs_pop (je_inarr e)); [|exact I].
    apply jw_inv; [exact Hw|]. destruct isarr; in_fixed.
  Qed.

  Lemma jkey_inv e k : W (je_w e) -> Forall okB k -> res_inv (jkey cfg e k).
  Proof.
    intros Hw Hk. unfold jkey.
    apply jthen_inv; [apply on_field_next_inv; exact Hw|]. intros e1 H1.
    apply jthen_inv; [apply jstring_inv; assumption|]. intros e2 H2.
    apply jw_inv; [exact H2|in_fixed].
  Qed.

  Lemma json_basic_inv e ev : W (je_w e) -> event_sp okB ev -> res_inv (json_basic cfg ffmt e ev).
  Proof.
    intros Hw Hev. destruct ev as [s|s|len bt| |len bt| |k|k|bt es|bt ms]; cbn [json_basic event_sp] in *.
    - apply jscalar_inv; assumption.
    - apply jstring_inv; assumption.
    - apply jstart_inv; exact Hw.
    - apply jfinish_inv; exact Hw.
    - apply jstart_inv; exact Hw.
    - apply jfinish_inv; exact Hw.
    - apply jkey_inv; assumption.
    - apply jkey_inv; assumption.
    - apply ret_inv; exact Hw.
    - apply ret_inv; exact Hw.
  Qed.

  Lemma json_seq_inv evs : forall e, W (je_w e) -> Forall (event_sp okB) evs ->
    res_inv (json_seq cfg ffmt e evs).
  Proof.
    induction evs as [|ev r IH]; intros e Hw Hevs; cbn [json_seq]; [apply ret_inv; exact Hw|].
    inversion Hevs as [|ev' r' Hev Hr]; subst ev' r'.
    apply jthen_inv; [apply json_basic_inv; assumption|]. intros e1 H1. apply IH; assumption.
  Qed.

  Lemma expand_sp ev : event_sp okB ev -> Forall (event_sp okB) (expand ev).
  Proof.
    intro H. destruct ev as [s|s|len bt| |len bt| |k|k|bt es|bt ms]; cbn [expand event_sp] in *;
      try (repeat constructor; assumption).
    - constructor; [exact I|]. apply Forall_app. split; [|repeat constructor].
      induction H as [|x l Hx Hl IH]; cbn [map]; constructor; assumption.
    - constructor; [exact I|]. apply Forall_app. split; [|repeat constructor].
      induction H as [|x l Hx Hl IH]; cbn [flat_map app]; [constructor|].
      destruct Hx as [Hk Hv]. constructor; [exact Hk|]. constructor; [exact Hv|]. exact IH.
  Qed.

  Lemma json_on_inv e ev : W (je_w e) -> event_sp okB ev -> res_inv (json_on cfg ffmt e ev).
  Proof.
    intros Hw Hev.
    destruct ev as [s|s|len bt| |len bt| |k|k|bt es|bt ms];
      try (apply json_basic_inv; assumption);
      unfold json_on; apply json_seq_inv; try exact Hw; apply expand_sp; exact Hev.
  Qed.

  Definition run_inv (r : jrun_res) : Prop :=
    match r with
    | JRun e' None => W (je_w e')
    | JRun e' (Some (_, err)) => err = 99 \/ (err = 1 /\ ignore_invalid cfg = false)
    | JRunPanic => True
    end.

  Lemma json_run_inv evs : forall e i, W (je_w e) -> Forall (event_sp okB) evs ->
    run_inv (json_run cfg ffmt e evs i).
  Proof.
    induction evs as [|ev r IH]; intros e i Hw Hevs; cbn [json_run]; [exact Hw|].
    inversion Hevs as [|ev' r' Hev Hr]; subst ev' r'.
    pose proof (json_on_inv e ev Hw Hev) as Hon.
    destruct (json_on cfg ffmt e ev) as [e1 err|]; [|exact I].
    cbn [res_inv] in Hon. destruct Hon as [H1 H2].
    destruct (err =? jnil) eqn:E.
    - apply IH; [apply H1; lia | exact Hr].
    - cbn [run_inv]. destruct H2 as [H2|H2]; [lia|exact H2].
  Qed.
End Generic.

(* every event satisfies the trivial string predicate *)
Lemma event_sp_true evs : Forall (event_sp (fun _ => True)) evs.
Proof.
  assert (Hb : forall b : bytes, Forall (fun _ => True) b).
  { intro b. apply Forall_forall. intros; exact I. }
  assert (Hs : forall s, scalar_sp (fun _ => True) s).
  { intros [|b|s|k z]; cbn [scalar_sp]; auto. }
  apply Forall_forall. intros ev _.
  destruct ev as [s|s|len bt| |len bt| |k|k|bt es|bt ms]; cbn [event_sp]; auto.
  - apply Forall_forall. intros; apply Hs.
  - apply Forall_forall. intros; split; [apply Hb|apply Hs].
Qed.

(* ====================================================================== *)
(* 2. C16: no write error is lost                                          *)
(* ====================================================================== *)
Section C16.
  Variable ffmt : Z -> Z -> bytes.

  Definition winv (k : nat) (w : wsink) : Prop := w_fail w = Some k /\ (w_n w <= k)%nat.

  Lemma winv_write k w b w' : winv k w -> wwrite w b = (w', true) -> winv k w'.
  Proof.
    intros [Hf Hn] H. unfold wwrite in H. rewrite Hf in H. inversion H as [[Hw Hok]].
    unfold winv. cbn [w_fail w_n]. split; [reflexivity|]. apply Nat.ltb_lt in Hok. lia.
  Qed.

  Lemma json_run_winv cfg k evs e i : winv k (je_w e) ->
    run_inv cfg (winv k) (json_run cfg ffmt e evs i).
  Proof.
    intro Hw.
    apply (json_run_inv ffmt cfg (winv k) (fun _ => True) (fun _ => True)); auto.
    - intros w b w' H _ Hwr. eapply winv_write; eassumption.
    - apply event_sp_true.
  Qed.

  Theorem C16_json_enc : forall cfg evs e i e' k,
    w_fail (je_w e) = Some k -> (w_n (je_w e) <= k)%nat ->
    json_run cfg ffmt e evs i = JRun e' None -> (w_n (je_w e') <= k)%nat.
  Proof.
    intros cfg evs e i e' k Hf Hn H.
    pose proof (json_run_winv cfg k evs e i (conj Hf Hn)) as Hr.
    rewrite H in Hr. apply Hr.
  Qed.

  Theorem C16_json_enc0 : forall cfg evs e' k,
    json_run cfg ffmt (jenc0 (Some k)) evs 0 = JRun e' None -> (w_n (je_w e') <= k)%nat.
  Proof.
    intros cfg evs e' k H. eapply C16_json_enc; [| |exact H]; cbn; [reflexivity|lia].
  Qed.

  (* the error a failing call returns is the writer's (99) or the refusal of a
     non-finite float (1); from any state, any events *)
  Theorem C16_json_err_class_strong : forall cfg evs e i e' j err,
    json_run cfg ffmt e evs i = JRun e' (Some (j, err)) ->
    err = 99 \/ (err = 1 /\ ignore_invalid cfg = false).
  Proof.
    intros cfg evs e i e' j err H.
    pose proof (json_run_inv ffmt cfg (fun _ => True) (fun _ => True) (fun _ => True)) as G.
    specialize (G (fun _ _ _ _ _ _ => I) I (fun _ _ _ _ => I) (fun _ _ => I) (fun _ _ _ _ => I)
                  (fun _ _ _ _ => I) (fun _ _ _ => I) (fun _ => I) (fun _ _ _ => conj I (conj I I))
                  evs e i I (event_sp_true evs)).
    rewrite H in G. exact G.
  Qed.

  Theorem C16_json_err_class : forall cfg evs e i e' j err,
    json_run cfg ffmt e evs i = JRun e' (Some (j, err)) -> err = 99 \/ err = 1.
  Proof.
    intros cfg evs e i e' j err H.
    destruct (C16_json_err_class_strong cfg evs e i e' j err H) as [H1|[H1 _]]; auto.
  Qed.

End C16.
Print Assumptions C16_json_enc.
Print Assumptions C16_json_enc0.
Print Assumptions C16_json_err_class_strong.
Print Assumptions C16_json_err_class.

(* ====================================================================== *)
(* 3. Valid UTF-8 as an inductive predicate                                *)
(* ====================================================================== *)
Inductive U8 : bytes -> Prop :=
| U8_nil : U8 []
| U8_rune r rest : rune_ok r -> U8 rest -> U8 (r ++ rest).

Lemma U8_app a b : U8 a -> U8 b -> U8 (a ++ b).
Proof.
  intros Ha Hb. induction Ha as [|r rest Hr Hrest IH]; [exact Hb|].
  rewrite <- app_assoc. apply U8_rune; assumption.
Qed.

Lemma U8_single r : rune_ok r -> U8 r.
Proof. intro H. rewrite <- (app_nil_r r). apply U8_rune; [exact H|constructor]. Qed.

Lemma U8_ascii l : Forall (fun b => b < 128) l -> U8 l.
Proof.
  induction 1 as [|b l Hb Hl IH]; [constructor|].
  change (b :: l) with ([b] ++ l). apply U8_rune; [apply rune_ok_ascii; exact Hb|exact IH].
Qed.

Lemma U8_sanitize s : U8 s -> forall f, (length s <= f)%nat -> sanitize_fuel f s = s.
Proof.
  induction 1 as [|r rest Hr Hrest IH]; intros f Hf.
  - destruct f; reflexivity.
  - destruct Hr as [Hne (c & Hc & Hd)].
    destruct r as [|b r0]; [contradiction|].
    destruct f as [|f]; [cbn [length app] in Hf; lia|].
    specialize (Hd rest). cbn [app] in Hd |- *. cbn [sanitize_fuel]. rewrite Hd, Hc.
    unfold zlen. rewrite Nat2Z.id.
    change (b :: r0 ++ rest) with ((b :: r0) ++ rest).
    rewrite firstn_app, skipn_app, Nat.sub_diag, firstn_all, skipn_all.
    cbn [firstn skipn]. rewrite app_nil_r. cbn [app]. f_equal. f_equal.
    apply IH. rewrite app_length in Hf. cbn [length] in Hf. lia.
Qed.

Theorem U8_utf8_valid s : U8 s -> utf8_valid s = true.
Proof.
  intro H. unfold utf8_valid, sanitize. rewrite (U8_sanitize s H) by lia.
  apply bytes_eqb_refl.
Qed.

(* ====================================================================== *)
(* 4. C07: text predicates on the bytes written                            *)
(* ====================================================================== *)
Definition scalar_strs_ok (s : scalar) : bool :=
  match s with SStr b => all_bytes b | _ => true end.
Definition event_ok (ev : event) : bool :=
  match ev with
  | EVal s => scalar_strs_ok s
  | EStrRef b | EKey b | EKeyRef b => all_bytes b
  | EXArr _ es => forallb scalar_strs_ok es
  | EXObj _ ms => forallb (fun m => all_bytes (fst m) && scalar_strs_ok (snd m)) ms
  | _ => true
  end.
Definition events_ok (evs : list event) : bool := forallb event_ok evs.

Definition okbyte (b : Z) : Prop := 0 <= b < 256.

Lemma all_bytes_ok b : all_bytes b = true -> Forall okbyte b.
Proof.
  intro H. apply Forall_forall. intros x Hx.
  unfold all_bytes in H. rewrite forallb_forall in H. specialize (H x Hx).
  unfold is_byte in H. unfold okbyte. lia.
Qed.

Lemma scalar_strs_ok_sp s : scalar_strs_ok s = true -> scalar_sp okbyte s.
Proof. destruct s; cbn [scalar_strs_ok scalar_sp]; auto using all_bytes_ok. Qed.

Lemma events_ok_sp evs : events_ok evs = true -> Forall (event_sp okbyte) evs.
Proof.
  intro H. apply Forall_forall. intros ev Hev.
  unfold events_ok in H. rewrite forallb_forall in H. specialize (H ev Hev).
  destruct ev as [s|s|len bt| |len bt| |k|k|bt es|bt ms]; cbn [event_sp event_ok] in *;
    auto using all_bytes_ok, scalar_strs_ok_sp.
  - apply Forall_forall. intros x Hx. rewrite forallb_forall in H.
    apply scalar_strs_ok_sp. apply H. exact Hx.
  - apply Forall_forall. intros x Hx. rewrite forallb_forall in H. specialize (H x Hx).
    apply andb_true_iff in H. destruct H as [H1 H2].
    split; [apply all_bytes_ok; exact H1 | apply scalar_strs_ok_sp; exact H2].
Qed.

Lemma Forall_firstn_Z {A} (P : A -> Prop) n (l : list A) : Forall P l -> Forall P (firstn n l).
Proof.
  intro H. rewrite <- (firstn_skipn n l) in H. apply Forall_app in H. apply H.
Qed.

Lemma concat_closed (C : bytes -> Prop) : C [] -> (forall a b, C a -> C b -> C (a ++ b)) ->
  forall l, Forall C l -> C (concat l).
Proof.
  intros Hnil Happ l H. induction H as [|x l Hx Hl IH]; cbn [concat]; [exact Hnil|].
  apply Happ; assumption.
Qed.

Definition chunks_inv (C : bytes -> Prop) (w : wsink) : Prop := Forall C (w_rchunks w).

Lemma chunks_inv_write C w b w' ok : chunks_inv C w -> C b -> wwrite w b = (w', ok) -> chunks_inv C w'.
Proof.
  intros Hw Hb H. unfold chunks_inv. pose proof (wwrite_chunks w b) as E. rewrite H in E.
  cbn [fst] in E. rewrite E. constructor; assumption.
Qed.

Lemma chunks_inv_bytes (C : bytes -> Prop) w : C [] -> (forall a b, C a -> C b -> C (a ++ b)) ->
  chunks_inv C w -> C (w_bytes w).
Proof.
  intros Hnil Happ H. unfold w_bytes, w_chunks. apply concat_closed; [exact Hnil|exact Happ|].
  apply Forall_rev. exact H.
Qed.

Lemma hexdigit_range n : 0 <= n < 16 -> 48 <= hexdigit n <= 57 \/ 97 <= hexdigit n <= 102.
Proof. intro H. unfold hexdigit. destruct (n <? 10) eqn:E; lia. Qed.

Section Text.
  Variable ffmt : Z -> Z -> bytes.
  Hypothesis ffmt_chars : forall w b, Forall (fun c => In c fchars) (ffmt w b).

  (* the byte predicate: printable (no control characters), and under
     escape_html none of '<' '>' '&' *)
  Definition textb (html : bool) (x : Z) : Prop :=
    32 <= x < 256 /\ (html = true -> x <> 60 /\ x <> 62 /\ x <> 38).

  Lemma fchars_textb html c : In c fchars -> textb html c.
  Proof.
    unfold fchars. cbn [In]. intro H. unfold textb.
    repeat (destruct H as [<-|H]; [split; [lia|intros _; lia]|]). contradiction.
  Qed.

  Lemma json_run_text cfg evs e i :
    chunks_inv (Forall (textb (escape_html cfg))) (je_w e) -> events_ok evs = true ->
    run_inv cfg (chunks_inv (Forall (textb (escape_html cfg)))) (json_run cfg ffmt e evs i).
  Proof.
    intros Hw Hev.
    apply (json_run_inv ffmt cfg (chunks_inv (Forall (textb (escape_html cfg))))
             (Forall (textb (escape_html cfg))) okbyte).
    - intros w b w' H Hb Hwr. eapply chunks_inv_write; eassumption.
    - constructor.
    - intros a b Ha Hb. apply Forall_app. split; assumption.
    - intros b Hb. unfold fixed_chunks in Hb. cbn [In] in Hb.
      repeat (destruct Hb as [<-|Hb]; [repeat constructor; try lia; intros _; lia|]).
      contradiction.
    - intros b Hb H128 Hesc. constructor; [|constructor].
      unfold okbyte in Hb. unfold escape_set in Hesc. unfold textb.
      split; [lia|]. intro Hh. rewrite Hh in Hesc. lia.
    - intros b Hb H128 Hesc. unfold okbyte in Hb. unfold esc_chunk.
      pose proof (hexdigit_range (b / 16)) as H1. pose proof (hexdigit_range (b mod 16)) as H2.
      destruct ((b =? 92) || (b =? 34)) eqn:E1;
        [|destruct (b =? 10); [|destruct (b =? 13); [|destruct (b =? 9)]]];
        repeat constructor; try lia; intros _; lia.
    - intros r _ Hr. eapply Forall_impl; [|exact Hr].
      intros a Ha. cbn beta in Ha. split; [lia|intros _; lia].
    - intro z. eapply Forall_impl; [|apply int_chunk_chars].
      intros a [->|Ha]; [split; [lia|intros _; lia]|].
      unfold is_digit in Ha. split; [lia|intros _; lia].
    - intros w b n.
      assert (H : Forall (textb (escape_html cfg)) (ffmt w b)).
      { eapply Forall_impl; [|apply ffmt_chars]. intros a Ha. apply fchars_textb. exact Ha. }
      split; [exact H|]. split; [apply Forall_firstn_Z; exact H | apply Forall_skipn_Z; exact H].
    - exact Hw.
    - apply events_ok_sp. exact Hev.
  Qed.

  Lemma json_run_text0 cfg evs e' : events_ok evs = true ->
    json_run cfg ffmt (jenc0 None) evs 0 = JRun e' None ->
    Forall (textb (escape_html cfg)) (w_bytes (je_w e')).
  Proof.
    intros Hev H.
    assert (H0 : chunks_inv (Forall (textb (escape_html cfg))) (je_w (jenc0 None))) by constructor.
    pose proof (json_run_text cfg evs (jenc0 None) 0%nat H0 Hev) as Hr. rewrite H in Hr.
    cbn [run_inv] in Hr. apply chunks_inv_bytes; [constructor| |exact Hr].
    intros a b Ha Hb. apply Forall_app. split; assumption.
  Qed.

  Theorem C07_json_no_control : forall cfg evs e', events_ok evs = true ->
    json_run cfg ffmt (jenc0 None) evs 0 = JRun e' None ->
    Forall (fun b => 32 <= b < 256) (w_bytes (je_w e')).
  Proof.
    intros cfg evs e' Hev H. eapply Forall_impl; [|eapply json_run_text0; eassumption].
    intros a [Ha _]. exact Ha.
  Qed.

  Theorem C07_json_html : forall cfg evs e', events_ok evs = true ->
    json_run cfg ffmt (jenc0 None) evs 0 = JRun e' None -> escape_html cfg = true ->
    Forall (fun b => b <> 60 /\ b <> 62 /\ b <> 38) (w_bytes (je_w e')).
  Proof.
    intros cfg evs e' Hev H Hh. eapply Forall_impl; [|eapply json_run_text0; eassumption].
    intros a [_ Ha]. apply Ha. exact Hh.
  Qed.

  (* valid UTF-8: holds for arbitrary strings and keys (invalid bytes are replaced by U+FFFD) *)
  Lemma fchars_ascii c : In c fchars -> c < 128.
  Proof.
    unfold fchars. cbn [In]. intro H.
    repeat (destruct H as [<-|H]; [lia|]). contradiction.
  Qed.

  Lemma json_run_u8 cfg evs e i :
    chunks_inv U8 (je_w e) -> run_inv cfg (chunks_inv U8) (json_run cfg ffmt e evs i).
  Proof.
    intros Hw.
    apply (json_run_inv ffmt cfg (chunks_inv U8) U8 (fun _ => True)).
    - intros w b w' H Hb Hwr. eapply chunks_inv_write; eassumption.
    - constructor.
    - exact U8_app.
    - intros b Hb. apply U8_ascii. unfold fixed_chunks in Hb. cbn [In] in Hb.
      repeat (destruct Hb as [<-|Hb]; [repeat constructor; lia|]). contradiction.
    - intros b _ H128 _. apply U8_single. apply rune_ok_ascii. exact H128.
    - intros b _ H128 _. apply U8_ascii. unfold esc_chunk, hexdigit.
      destruct ((b =? 92) || (b =? 34)) eqn:E1;
        [|destruct (b =? 10); [|destruct (b =? 13); [|destruct (b =? 9)]]];
        repeat constructor; try lia.
      + destruct (b / 16 <? 10) eqn:E; lia.
      + destruct (b mod 16 <? 10) eqn:E; lia.
    - intros r Hr _. apply U8_single. exact Hr.
    - intro z. apply U8_ascii. eapply Forall_impl; [|apply int_chunk_chars].
      intros a [->|Ha]; [lia|]. unfold is_digit in Ha. lia.
    - intros w b n.
      assert (H : Forall (fun c => c < 128) (ffmt w b)).
      { eapply Forall_impl; [|apply ffmt_chars]. intros a Ha. apply fchars_ascii. exact Ha. }
      split; [apply U8_ascii; exact H|].
      split; apply U8_ascii; [apply Forall_firstn_Z; exact H | apply Forall_skipn_Z; exact H].
    - exact Hw.
    - apply event_sp_true.
  Qed.

  Theorem C07_json_utf8 : forall cfg evs e',
    json_run cfg ffmt (jenc0 None) evs 0 = JRun e' None ->
    utf8_valid (w_bytes (je_w e')) = true.
  Proof.
    intros cfg evs e' H.
    assert (H0 : chunks_inv U8 (je_w (jenc0 None))) by constructor.
    pose proof (json_run_u8 cfg evs (jenc0 None) 0%nat H0) as Hr. rewrite H in Hr.
    cbn [run_inv] in Hr. apply U8_utf8_valid.
    apply chunks_inv_bytes; [constructor|exact U8_app|exact Hr].
  Qed.
End Text.
Print Assumptions C07_json_no_control.
Print Assumptions C07_json_html.
Print Assumptions C07_json_utf8.

(* ====================================================================== *)
(* 5. C17: no panic, stacks idle                                           *)
(* ====================================================================== *)
Definition scalar_finite (s : scalar) : bool :=
  match s with
  | SNum KFloat32 z => negb (nonfinite 32 z)
  | SNum KFloat64 z => negb (nonfinite 64 z)
  | _ => true
  end.

Fixpoint tree_finite (t : tree) : bool :=
  match t with
  | TVal s _ => scalar_finite s
  | TArr _ _ es => forallb tree_finite es
  | TObj _ _ ms => forallb (fun m => tree_finite (snd m)) ms
  | TXArr _ es => forallb scalar_finite es
  | TXObj _ ms => forallb (fun m => scalar_finite (snd m)) ms
  end.

(* the [first] stack after a value has been written in state [e] *)
Definition after_val (e : jenc) : bstack :=
  if bs_cur (je_inarr e) then bs_set (je_first e) false else je_first e.

(* a call that returns nil, leaves the writer healthy and the stacks as given *)
Definition sres (f a : bstack) (r : jres) : Prop :=
  exists e', r = JR e' jnil /\ je_first e' = f /\ je_inarr e' = a /\ w_fail (je_w e') = None.

Lemma sres_then f a r k f' a' :
  sres f a r ->
  (forall e1, je_first e1 = f -> je_inarr e1 = a -> w_fail (je_w e1) = None -> sres f' a' (k e1)) ->
  sres f' a' (r >>= k).
Proof.
  intros (e1 & -> & F & A & N) Hk. rewrite jthen_nil. apply Hk; assumption.
Qed.

Lemma jw_ok e b : w_fail (je_w e) = None -> sres (je_first e) (je_inarr e) (jw e b).
Proof.
  intro N. unfold jw. rewrite wwrite_nofail by exact N.
  eexists. split; [reflexivity|]. cbn [je_first je_inarr je_w w_fail]. auto.
Qed.

Lemma bs_set_same s : bs_cur s = false -> bs_set s false = s.
Proof. destruct s as [c st]. cbn. intros ->. reflexivity. Qed.

Lemma try_elem_next_ok e : w_fail (je_w e) = None ->
  sres (after_val e) (je_inarr e) (try_elem_next e).
Proof.
  intro N. unfold try_elem_next, after_val.
  destruct (bs_cur (je_inarr e)); cbn [negb].
  - destruct (bs_cur (je_first e)) eqn:F.
    + eexists. split; [reflexivity|]. cbn [je_first je_inarr je_w]. auto.
    + rewrite bs_set_same by exact F. apply jw_ok; exact N.
  - eexists. split; [reflexivity|]. auto.
Qed.

Lemma on_field_next_ok e : w_fail (je_w e) = None ->
  sres (bs_set (je_first e) false) (je_inarr e) (on_field_next e).
Proof.
  intro N. unfold on_field_next.
  destruct (bs_cur (je_first e)) eqn:F.
  - eexists. split; [reflexivity|]. cbn [je_first je_inarr je_w]. auto.
  - rewrite bs_set_same by exact F. apply jw_ok; exact N.
Qed.

Lemma flush_ok e rseg : w_fail (je_w e) = None -> sres (je_first e) (je_inarr e) (flush e rseg).
Proof.
  intro N. unfold flush. destruct rseg; [|apply jw_ok; exact N].
  eexists. split; [reflexivity|]. auto.
Qed.

Ltac sres_step lem :=
  eapply sres_then; [apply lem; try assumption | intros ? ? ? ?].

(* fuel: the loop consumes at least one byte per iteration *)
Lemma jstring_loop_ok html fuel : forall e s rseg,
  w_fail (je_w e) = None -> (length s < fuel)%nat ->
  sres (je_first e) (je_inarr e) (jstring_loop fuel html e s rseg).
Proof.
  induction fuel as [|f IH]; intros e s rseg N Hf; [lia|]. cbn [jstring_loop].
  destruct s as [|b r].
  { eapply sres_then; [apply flush_ok; exact N|]. intros e1 F1 A1 N1.
    rewrite <- F1, <- A1. apply jw_ok; exact N1. }
  cbn [length] in Hf.
  destruct (b <? 128) eqn:E128.
  { destruct (negb (escape_set html b)).
    - apply IH; [exact N|lia].
    - eapply sres_then; [apply flush_ok; exact N|]. intros e1 F1 A1 N1.
      rewrite esc_chunk_eq.
      eapply sres_then; [apply jw_ok; exact N1|]. intros e2 F2 A2 N2.
      rewrite <- F1, <- A1, <- F2, <- A2. apply IH; [exact N2|lia]. }
  destruct (decode_rune (b :: r)) as [c sz] eqn:D.
  pose proof (decode_rune_size b r c sz D) as Hsz.
  assert (Hskip : (length (skipn (Z.to_nat sz) (b :: r)) < f)%nat).
  { rewrite skipn_length. cbn [length]. lia. }
  destruct ((c =? rune_error) && (sz =? 1)).
  { eapply sres_then; [apply flush_ok; exact N|]. intros e1 F1 A1 N1.
    eapply sres_then; [apply jw_ok; exact N1|]. intros e2 F2 A2 N2.
    rewrite <- F1, <- A1, <- F2, <- A2. apply IH; [exact N2|lia]. }
  destruct ((c =? 8232) || (c =? 8233)).
  { eapply sres_then; [apply flush_ok; exact N|]. intros e1 F1 A1 N1.
    eapply sres_then; [apply jw_ok; exact N1|]. intros e2 F2 A2 N2.
    eapply sres_then; [apply jw_ok; exact N2|]. intros e3 F3 A3 N3.
    rewrite <- F1, <- A1, <- F2, <- A2, <- F3, <- A3. apply IH; [exact N3|exact Hskip]. }
  apply IH; [exact N|exact Hskip].
Qed.

Lemma jstring_ok cfg e s : w_fail (je_w e) = None ->
  sres (after_val e) (je_inarr e) (jstring cfg e s).
Proof.
  intro N. unfold jstring.
  eapply sres_then; [apply try_elem_next_ok; exact N|]. intros e1 F1 A1 N1.
  eapply sres_then; [apply jw_ok; exact N1|]. intros e2 F2 A2 N2.
  rewrite <- F1, <- A1, <- F2, <- A2. apply jstring_loop_ok; [exact N2|lia].
Qed.

Lemma jint_ok e z : w_fail (je_w e) = None -> sres (after_val e) (je_inarr e) (jint e z).
Proof.
  intro N. unfold jint.
  eapply sres_then; [apply try_elem_next_ok; exact N|]. intros e1 F1 A1 N1.
  rewrite <- F1, <- A1. apply jw_ok; exact N1.
Qed.

Section Idle.
  Variable ffmt : Z -> Z -> bytes.
  Variable cfg : jcfg.

  Lemma jfloat_ok e w bits : w_fail (je_w e) = None ->
    ignore_invalid cfg = true \/ nonfinite w bits = false ->
    sres (after_val e) (je_inarr e) (jfloat cfg ffmt e w bits).
  Proof.
    intros N Hfin. unfold jfloat.
    eapply sres_then; [apply try_elem_next_ok; exact N|]. intros e1 F1 A1 N1.
    rewrite <- F1, <- A1.
    destruct (nonfinite w bits).
    { destruct Hfin as [-> | Hfin]; [|discriminate]. apply jw_ok; exact N1. }
    destruct (explicit_radix cfg); [|apply jw_ok; exact N1].
    destruct (radix_scan (ffmt w bits) 0) as [idx need].
    eapply sres_then; [apply jw_ok; exact N1|]. intros e2 F2 A2 N2.
    eapply sres_then with (f := je_first e2) (a := je_inarr e2).
    - destruct need; [apply jw_ok; exact N2|]. eexists. split; [reflexivity|]. auto.
    - intros e3 F3 A3 N3. rewrite <- F2, <- A2, <- F3, <- A3. apply jw_ok; exact N3.
  Qed.

  Lemma jscalar_ok e s : w_fail (je_w e) = None ->
    ignore_invalid cfg = true \/ scalar_finite s = true ->
    sres (after_val e) (je_inarr e) (jscalar cfg ffmt e s).
  Proof.
    intros N Hfin. destruct s as [|b|s|k z]; cbn [jscalar].
    - eapply sres_then; [apply try_elem_next_ok; exact N|]. intros e1 F1 A1 N1.
      rewrite <- F1, <- A1. apply jw_ok; exact N1.
    - destruct b; (eapply sres_then; [apply try_elem_next_ok; exact N|]); intros e1 F1 A1 N1;
        rewrite <- F1, <- A1; apply jw_ok; exact N1.
    - apply jstring_ok; exact N.
    - destruct k; try (apply jint_ok; exact N); apply jfloat_ok; try exact N;
        cbn [scalar_finite] in Hfin; (destruct Hfin as [H|H]; [left; exact H|right]);
        apply negb_true_iff in H; exact H.
  Qed.

  Lemma jstart_ok e isarr : w_fail (je_w e) = None ->
    sres (bs_push (after_val e) true) (bs_push (je_inarr e) isarr) (jstart e isarr).
  Proof.
    intro N. unfold jstart.
    eapply sres_then; [apply try_elem_next_ok; exact N|]. intros e1 F1 A1 N1.
    rewrite <- F1, <- A1.
    apply (jw_ok {| je_w := je_w e1; je_first := bs_push (je_first e1) true;
                    je_inarr := bs_push (je_inarr e1) isarr |}).
    exact N1.
  Qed.

  Lemma bs_pop_push s s' b : bs_stack s' = bs_stack (bs_push s b) -> bs_pop s' = Some s.
  Proof.
    destruct s as [c st]. unfold bs_pop, bs_push. cbn [bs_cur bs_stack]. intros ->. reflexivity.
  Qed.

  Lemma jfinish_ok e isarr f a bf ba : w_fail (je_w e) = None ->
    bs_stack (je_first e) = bs_stack (bs_push f bf) ->
    bs_stack (je_inarr e) = bs_stack (bs_push a ba) ->
    sres f a (jfinish e isarr).
  Proof.
    intros N Hf Ha. unfold jfinish.
    rewrite (bs_pop_push f _ bf Hf), (bs_pop_push a _ ba Ha).
    apply (jw_ok {| je_w := je_w e; je_first := f; je_inarr := a |}). exact N.
  Qed.

  Lemma jkey_ok e k : w_fail (je_w e) = None -> bs_cur (je_inarr e) = false ->
    sres (bs_set (je_first e) false) (je_inarr e) (jkey cfg e k).
  Proof.
    intros N Hin. unfold jkey.
    eapply sres_then; [apply on_field_next_ok; exact N|]. intros e1 F1 A1 N1.
    eapply sres_then with (f := je_first e1) (a := je_inarr e1).
    - assert (Hav : after_val e1 = je_first e1).
      { unfold after_val. rewrite A1, Hin. reflexivity. }
      rewrite <- Hav. apply jstring_ok; exact N1.
    - intros e2 F2 A2 N2. rewrite <- F1, <- A1, <- F2, <- A2. apply jw_ok; exact N2.
  Qed.

  (* ---- runs ---- *)
  Lemma json_run_app evs1 : forall e i evs2,
    json_run cfg ffmt e (evs1 ++ evs2) i =
    match json_run cfg ffmt e evs1 i with
    | JRun e1 None => json_run cfg ffmt e1 evs2 (i + length evs1)
    | r => r
    end.
  Proof.
    induction evs1 as [|ev r IH]; intros e i evs2; cbn [app json_run length].
    - rewrite Nat.add_0_r. reflexivity.
    - destruct (json_on cfg ffmt e ev) as [e1 err|]; [|reflexivity].
      destruct (err =? jnil); [|reflexivity].
      rewrite IH. replace (S i + length r)%nat with (i + S (length r))%nat by lia. reflexivity.
  Qed.

  Definition rres (f a : bstack) (r : jrun_res) : Prop :=
    exists e', r = JRun e' None /\ je_first e' = f /\ je_inarr e' = a /\ w_fail (je_w e') = None.

  Lemma run_cons f a e ev r i f' a' :
    sres f a (json_on cfg ffmt e ev) ->
    (forall e1, je_first e1 = f -> je_inarr e1 = a -> w_fail (je_w e1) = None ->
                rres f' a' (json_run cfg ffmt e1 r (S i))) ->
    rres f' a' (json_run cfg ffmt e (ev :: r) i).
  Proof.
    intros (e1 & E & F & A & N) Hk. cbn [json_run]. rewrite E.
    change (jnil =? jnil) with true. cbn iota. apply Hk; assumption.
  Qed.

  Lemma run_app f a e evs1 evs2 i f' a' :
    rres f a (json_run cfg ffmt e evs1 i) ->
    (forall e1, je_first e1 = f -> je_inarr e1 = a -> w_fail (je_w e1) = None ->
                rres f' a' (json_run cfg ffmt e1 evs2 (i + length evs1))) ->
    rres f' a' (json_run cfg ffmt e (evs1 ++ evs2) i).
  Proof.
    intros (e1 & E & F & A & N) Hk. rewrite json_run_app, E. apply Hk; assumption.
  Qed.

  Lemma run_nil e i : w_fail (je_w e) = None ->
    rres (je_first e) (je_inarr e) (json_run cfg ffmt e [] i).
  Proof. intro N. exists e. auto. Qed.

  Definition fin_ok (t : tree) : Prop := ignore_invalid cfg = true \/ tree_finite t = true.

  Definition P (t : tree) : Prop :=
    fin_ok t -> forall e i, w_fail (je_w e) = None ->
    rres (after_val e) (je_inarr e) (json_run cfg ffmt e (flatten t) i).

  Lemma P_val s r : P (TVal s r).
  Proof.
    intros Hfin e i N.
    assert (Hs : ignore_invalid cfg = true \/ scalar_finite s = true) by exact Hfin.
    assert (H1 : rres (after_val e) (je_inarr e) (json_run cfg ffmt e [EVal s] i)).
    { eapply run_cons; [cbn [json_on json_basic]; apply jscalar_ok; assumption|].
      intros e1 F1 A1 N1. rewrite <- F1, <- A1. apply run_nil; exact N1. }
    destruct s as [|b|s|k z]; try exact H1.
    destruct r; [|exact H1]. cbn [flatten].
    eapply run_cons; [cbn [json_on json_basic]; apply jstring_ok; assumption|].
    intros e1 F1 A1 N1. rewrite <- F1, <- A1. apply run_nil; exact N1.
  Qed.

  Lemma after_val_stack e : bs_stack (after_val e) = bs_stack (je_first e).
  Proof. unfold after_val. destruct (bs_cur (je_inarr e)); reflexivity. Qed.

  (* elements of an array / members of an object: only the stack part is tracked *)
  Definition lres (e : jenc) (r : jrun_res) : Prop :=
    exists e', r = JRun e' None /\ bs_stack (je_first e') = bs_stack (je_first e) /\
               je_inarr e' = je_inarr e /\ w_fail (je_w e') = None.

  Lemma elems_ok es : Forall P es ->
    ignore_invalid cfg = true \/ forallb tree_finite es = true ->
    forall e i, w_fail (je_w e) = None -> lres e (json_run cfg ffmt e (flatten_elems es) i).
  Proof.
    induction 1 as [|t r Ht Hr IH]; intros Hfin e i N; unfold flatten_elems; cbn [flat_map].
    - exists e. auto.
    - assert (Hft : fin_ok t /\ (ignore_invalid cfg = true \/ forallb tree_finite r = true)).
      { destruct Hfin as [H|H]; [split; left; exact H|]. cbn [forallb] in H.
        apply andb_true_iff in H. destruct H as [H1 H2]. split; right; assumption. }
      destruct Hft as [Hft Hfr].
      destruct (Ht Hft e i N) as (e1 & E1 & F1 & A1 & N1).
      rewrite json_run_app, E1.
      destruct (IH Hfr e1 (i + length (flatten t))%nat N1) as (e2 & E2 & F2 & A2 & N2).
      exists e2. split; [exact E2|]. split; [|split; [congruence|exact N2]].
      rewrite F2, F1. apply after_val_stack.
  Qed.

  Lemma P_arr len bt es : Forall P es -> P (TArr len bt es).
  Proof.
    intros Hes Hfin e i N. rewrite flatten_arr.
    eapply run_cons; [cbn [json_on json_basic]; apply jstart_ok; exact N|].
    intros e1 F1 A1 N1.
    assert (Hf : ignore_invalid cfg = true \/ forallb tree_finite es = true) by exact Hfin.
    destruct (elems_ok es Hes Hf e1 (S i) N1) as (e2 & E2 & F2 & A2 & N2).
    rewrite json_run_app, E2.
    eapply run_cons.
    - cbn [json_on json_basic]. eapply jfinish_ok; [exact N2| |].
      + rewrite F2, F1. reflexivity.
      + rewrite A2, A1. reflexivity.
    - intros e3 F3 A3 N3. rewrite <- F3, <- A3. apply run_nil; exact N3.
  Qed.

  Lemma members_ok ms : Forall (fun m => P (snd m)) ms ->
    ignore_invalid cfg = true \/ forallb (fun m => tree_finite (snd m)) ms = true ->
    forall e i, w_fail (je_w e) = None -> bs_cur (je_inarr e) = false ->
    lres e (json_run cfg ffmt e (flatten_members ms) i).
  Proof.
    induction 1 as [|[[k byref] t] r Ht Hr IH]; intros Hfin e i N Hin;
      unfold flatten_members; cbn [flat_map].
    - exists e. auto.
    - cbn [snd] in Ht.
      assert (Hft : fin_ok t /\ (ignore_invalid cfg = true \/
                                 forallb (fun m => tree_finite (snd m)) r = true)).
      { destruct Hfin as [H|H]; [split; left; exact H|]. cbn [forallb snd] in H.
        apply andb_true_iff in H. destruct H as [H1 H2]. split; right; assumption. }
      destruct Hft as [Hft Hfr].
      assert (Hk : sres (bs_set (je_first e) false) (je_inarr e)
                        (json_on cfg ffmt e (key_event k byref))).
      { unfold key_event. destruct byref; cbn [json_on json_basic]; apply jkey_ok; assumption. }
      destruct Hk as (e0 & E0 & F0 & A0 & N0).
      cbn [app json_run]. rewrite E0. change (jnil =? jnil) with true. cbn iota.
      destruct (Ht Hft e0 (S i) N0) as (e1 & E1 & F1 & A1 & N1).
      rewrite json_run_app, E1.
      assert (Hin1 : bs_cur (je_inarr e1) = false) by congruence.
      destruct (IH Hfr e1 (S i + length (flatten t))%nat N1 Hin1) as (e2 & E2 & F2 & A2 & N2).
      exists e2. split; [exact E2|]. split; [|split; [congruence|exact N2]].
      rewrite F2, F1, after_val_stack, F0. reflexivity.
  Qed.

  Lemma P_obj len bt ms : Forall (fun m => P (snd m)) ms -> P (TObj len bt ms).
  Proof.
    intros Hms Hfin e i N. rewrite flatten_obj.
    eapply run_cons; [cbn [json_on json_basic]; apply jstart_ok; exact N|].
    intros e1 F1 A1 N1.
    assert (Hf : ignore_invalid cfg = true \/ forallb (fun m => tree_finite (snd m)) ms = true)
      by exact Hfin.
    assert (Hin1 : bs_cur (je_inarr e1) = false) by (rewrite A1; reflexivity).
    destruct (members_ok ms Hms Hf e1 (S i) N1 Hin1) as (e2 & E2 & F2 & A2 & N2).
    rewrite json_run_app, E2.
    eapply run_cons.
    - cbn [json_on json_basic]. eapply jfinish_ok; [exact N2| |].
      + rewrite F2, F1. reflexivity.
      + rewrite A2, A1. reflexivity.
    - intros e3 F3 A3 N3. rewrite <- F3, <- A3. apply run_nil; exact N3.
  Qed.

  (* typed arrays and objects: the adapter replays the expansion through json_seq *)
  Definition is_basic (ev : event) : bool :=
    match ev with EXArr _ _ | EXObj _ _ => false | _ => true end.

  Lemma json_seq_run evs : forall e i, forallb is_basic evs = true ->
    json_seq cfg ffmt e evs =
    match json_run cfg ffmt e evs i with
    | JRun e' None => JR e' jnil
    | JRun e' (Some (_, err)) => JR e' err
    | JRunPanic => JPanic
    end.
  Proof.
    induction evs as [|ev r IH]; intros e i Hb; cbn [json_seq json_run]; [reflexivity|].
    cbn [forallb] in Hb. apply andb_true_iff in Hb. destruct Hb as [Hev Hr].
    assert (Hon : json_on cfg ffmt e ev = json_basic cfg ffmt e ev).
    { destruct ev; try reflexivity; discriminate. }
    rewrite Hon. destruct (json_basic cfg ffmt e ev) as [e1 err|]; cbn [jthen]; [|reflexivity].
    destruct (err =? jnil); [apply IH; exact Hr|reflexivity].
  Qed.

  Lemma run_of_seq e ev i f a : is_basic ev = false -> forallb is_basic (expand ev) = true ->
    rres f a (json_run cfg ffmt e (expand ev) i) -> rres f a (json_run cfg ffmt e [ev] i).
  Proof.
    intros Hx Hb (e1 & E & F & A & N). cbn [json_run].
    assert (Hon : json_on cfg ffmt e ev = json_seq cfg ffmt e (expand ev)).
    { destruct ev; try discriminate; reflexivity. }
    rewrite Hon, (json_seq_run _ e i Hb), E.
    change (jnil =? jnil) with true. cbn iota. exists e1. auto.
  Qed.

  Lemma flatten_elems_vals es :
    flatten_elems (map (fun s => TVal s false) es) = map EVal es.
  Proof.
    unfold flatten_elems. induction es as [|s r IH]; [reflexivity|].
    cbn [map flat_map]. rewrite IH. destruct s; reflexivity.
  Qed.

  Lemma flatten_members_vals ms :
    flatten_members (map (fun m : bytes * scalar => (fst m, false, TVal (snd m) false)) ms) =
    flat_map (fun m => [EKey (fst m); EVal (snd m)]) ms.
  Proof.
    unfold flatten_members. induction ms as [|[k s] r IH]; [reflexivity|].
    cbn [map flat_map fst snd]. rewrite IH. destruct s; reflexivity.
  Qed.

  Lemma P_xarr bt es : P (TXArr bt es).
  Proof.
    intros Hfin e i N. cbn [flatten].
    apply run_of_seq; [reflexivity| |].
    - cbn [expand forallb is_basic]. rewrite forallb_app. cbn [forallb is_basic].
      rewrite andb_true_r. induction es as [|s r IH]; [reflexivity|].
      cbn [map forallb is_basic]. apply IH. destruct Hfin as [H|H]; [left; exact H|right].
      cbn [tree_finite forallb] in H |- *. apply andb_true_iff in H. apply H.
    - cbn [expand]. rewrite <- flatten_elems_vals, <- flatten_arr.
      apply P_arr; [| |exact N].
      + apply Forall_forall. intros t Ht. apply in_map_iff in Ht. destruct Ht as (s & <- & _).
        apply P_val.
      + destruct Hfin as [H|H]; [left; exact H|right]. cbn [tree_finite] in H |- *.
        rewrite <- H. clear. induction es as [|s r IH]; [reflexivity|].
        cbn [map forallb tree_finite]. rewrite IH. reflexivity.
  Qed.

  Lemma P_xobj bt ms : P (TXObj bt ms).
  Proof.
    intros Hfin e i N. cbn [flatten].
    apply run_of_seq; [reflexivity| |].
    - cbn [expand forallb is_basic]. rewrite forallb_app. cbn [forallb is_basic].
      rewrite andb_true_r. clear. induction ms as [|m r IH]; [reflexivity|].
      cbn [flat_map app forallb is_basic]. exact IH.
    - cbn [expand]. rewrite <- flatten_members_vals, <- flatten_obj.
      apply P_obj; [| |exact N].
      + apply Forall_forall. intros t Ht. apply in_map_iff in Ht. destruct Ht as (m & <- & _).
        cbn [snd]. apply P_val.
      + destruct Hfin as [H|H]; [left; exact H|right]. cbn [tree_finite] in H |- *.
        rewrite <- H. clear. induction ms as [|m r IH]; [reflexivity|].
        cbn [map forallb tree_finite snd]. rewrite IH. reflexivity.
  Qed.

  Theorem json_enc_tree_exact : forall t, fin_ok t -> forall e i, w_fail (je_w e) = None ->
    exists e', json_run cfg ffmt e (flatten t) i = JRun e' None /\
      je_first e' = after_val e /\ je_inarr e' = je_inarr e /\ w_fail (je_w e') = None.
  Proof.
    intro t. change (P t). induction t using tree_ind'.
    - apply P_val.
    - apply P_arr; assumption.
    - apply P_obj; assumption.
    - apply P_xarr.
    - apply P_xobj.
  Qed.
End Idle.

Section Final.
  Variable ffmt : Z -> Z -> bytes.

  (* stated without the (unused) well-formedness premise: the encoder cannot
     panic on any event stream that is the flattening of a tree *)
  Theorem json_enc_tree_gen : forall cfg t,
    (ignore_invalid cfg = true \/ tree_finite t = true) ->
    forall e i, w_fail (je_w e) = None ->
    exists e', json_run cfg ffmt e (flatten t) i = JRun e' None /\
       bs_stack (je_first e') = bs_stack (je_first e) /\ je_inarr e' = je_inarr e /\
       w_fail (je_w e') = None /\
       (bs_cur (je_inarr e) = false -> je_first e' = je_first e) /\
       (bs_cur (je_inarr e) = true -> je_first e' = bs_set (je_first e) false).
  Proof.
    intros cfg t Hfin e i N.
    destruct (json_enc_tree_exact ffmt cfg t Hfin e i N) as (e' & E & F & A & N').
    exists e'. split; [exact E|]. split; [rewrite F; apply after_val_stack|].
    split; [exact A|]. split; [exact N'|].
    unfold after_val in F. split; intro H; rewrite H in F; exact F.
  Qed.

  Theorem json_enc_tree : forall cfg t, wf_tree t = true ->
    (ignore_invalid cfg = true \/ tree_finite t = true) ->
    forall e i, w_fail (je_w e) = None ->
    exists e', json_run cfg ffmt e (flatten t) i = JRun e' None /\
       bs_stack (je_first e') = bs_stack (je_first e) /\ je_inarr e' = je_inarr e /\
       w_fail (je_w e') = None /\
       (bs_cur (je_inarr e) = false -> je_first e' = je_first e).
  Proof.
    intros cfg t _ Hfin e i N.
    destruct (json_enc_tree_gen cfg t Hfin e i N) as (e' & E & F & A & N' & H1 & _).
    exists e'. auto.
  Qed.

  Theorem C17_json_enc_idle : forall cfg t, wf_tree t = true ->
    (ignore_invalid cfg = true \/ tree_finite t = true) ->
    exists e', json_run cfg ffmt (jenc0 None) (flatten t) 0 = JRun e' None /\
               je_first e' = bs0 /\ je_inarr e' = bs0.
  Proof.
    intros cfg t _ Hfin.
    destruct (json_enc_tree_exact ffmt cfg t Hfin (jenc0 None) 0%nat eq_refl) as (e' & E & F & A & _).
    exists e'. auto.
  Qed.

  (* ---- bytes written by single calls ---- *)
  Lemma w_bytes_write w b n f :
    w_bytes {| w_rchunks := b :: w_rchunks w; w_n := n; w_fail := f |} = w_bytes w ++ b.
  Proof.
    unfold w_bytes, w_chunks. cbn [w_rchunks rev]. rewrite concat_app. cbn [concat].
    rewrite app_nil_r. reflexivity.
  Qed.

  (* a call that returns nil with a healthy writer, appending [out] *)
  Definition bres (e : jenc) (f a : bstack) (out : bytes) (r : jres) : Prop :=
    exists e', r = JR e' jnil /\ je_first e' = f /\ je_inarr e' = a /\
               w_fail (je_w e') = None /\ w_bytes (je_w e') = w_bytes (je_w e) ++ out.

  Lemma jw_bytes e b : w_fail (je_w e) = None -> bres e (je_first e) (je_inarr e) b (jw e b).
  Proof.
    intro N. unfold jw. rewrite wwrite_nofail by exact N.
    eexists. split; [reflexivity|]. cbn [je_first je_inarr je_w w_fail].
    repeat split. apply w_bytes_write.
  Qed.

  (* the separator written before a value *)
  Definition sep (e : jenc) : bytes :=
    if bs_cur (je_inarr e) && negb (bs_cur (je_first e)) then [44] else [].

  Lemma try_elem_next_bytes e : w_fail (je_w e) = None ->
    bres e (after_val e) (je_inarr e) (sep e) (try_elem_next e).
  Proof.
    intro N. unfold try_elem_next, after_val, sep.
    destruct (bs_cur (je_inarr e)); cbn [negb andb].
    - destruct (bs_cur (je_first e)) eqn:F; cbn [negb].
      + eexists. split; [reflexivity|]. cbn [je_first je_inarr je_w].
        rewrite app_nil_r. auto.
      + rewrite bs_set_same by exact F. apply jw_bytes; exact N.
    - eexists. split; [reflexivity|]. rewrite app_nil_r. auto.
  Qed.

  (* C07: a non-finite float is refused with class 1 (after the separator has
     already been written) ... *)
  Theorem C07_json_nonfinite_refused : forall cfg e w bits,
    nonfinite w bits = true -> ignore_invalid cfg = false -> w_fail (je_w e) = None ->
    exists e', jfloat cfg ffmt e w bits = JR e' 1 /\
               w_bytes (je_w e') = w_bytes (je_w e) ++ sep e /\
               je_first e' = after_val e /\ je_inarr e' = je_inarr e.
  Proof.
    intros cfg e w bits Hnf Hig N. unfold jfloat.
    destruct (try_elem_next_bytes e N) as (e1 & -> & F1 & A1 & N1 & B1).
    rewrite jthen_nil, Hnf, Hig. exists e1. auto.
  Qed.

  (* ... and written as the four bytes "null" under ignore_invalid *)
  Theorem C07_json_nonfinite_null : forall cfg e w bits,
    nonfinite w bits = true -> ignore_invalid cfg = true -> w_fail (je_w e) = None ->
    exists e', jfloat cfg ffmt e w bits = JR e' jnil /\
               w_bytes (je_w e') = w_bytes (je_w e) ++ sep e ++ [110; 117; 108; 108] /\
               je_first e' = after_val e /\ je_inarr e' = je_inarr e /\ w_fail (je_w e') = None.
  Proof.
    intros cfg e w bits Hnf Hig N. unfold jfloat.
    destruct (try_elem_next_bytes e N) as (e1 & -> & F1 & A1 & N1 & B1).
    rewrite jthen_nil, Hnf, Hig.
    destruct (jw_bytes e1 [110; 117; 108; 108] N1) as (e2 & E2 & F2 & A2 & N2 & B2).
    exists e2. split; [exact E2|]. rewrite B2, B1, <- app_assoc.
    split; [reflexivity|]. split; [congruence|]. split; [congruence|exact N2].
  Qed.

  Theorem C07_json_nonfinite : forall cfg e w bits,
    nonfinite w bits = true -> w_fail (je_w e) = None ->
    exists e', jfloat cfg ffmt e w bits = JR e' (if ignore_invalid cfg then jnil else 1) /\
               w_bytes (je_w e') =
               w_bytes (je_w e) ++ sep e ++ (if ignore_invalid cfg then [110; 117; 108; 108] else []).
  Proof.
    intros cfg e w bits Hnf N. destruct (ignore_invalid cfg) eqn:Hig.
    - destruct (C07_json_nonfinite_null cfg e w bits Hnf Hig N) as (e' & E & B & _).
      exists e'. auto.
    - destruct (C07_json_nonfinite_refused cfg e w bits Hnf Hig N) as (e' & E & B & _).
      exists e'. rewrite app_nil_r. auto.
  Qed.

  (* ---- explicit radix ---- *)
  Lemma radix_scan_dot b : forall i idx,
    radix_scan b i = (idx, false) -> In 46 b /\ idx = (i + length b)%nat.
  Proof.
    induction b as [|c r IH]; intros i idx H; cbn [radix_scan] in H; [discriminate|].
    destruct (c =? 101); [discriminate|].
    destruct (c =? 46) eqn:E.
    - inversion H. split; [left; lia|reflexivity].
    - destruct (IH _ _ H) as [H1 H2]. split; [right; exact H1|]. cbn [length]. lia.
  Qed.

  (* with explicit_radix every finite float token contains a '.': it is the
     output of the formatter, with ".0" inserted (before the exponent, if any)
     when the formatter wrote no '.' *)
  Theorem C07_json_radix : forall cfg e w bits,
    explicit_radix cfg = true -> nonfinite w bits = false -> w_fail (je_w e) = None ->
    exists e' tok, jfloat cfg ffmt e w bits = JR e' jnil /\
      w_bytes (je_w e') = w_bytes (je_w e) ++ sep e ++ tok /\
      In 46 tok /\
      (tok = ffmt w bits \/
       exists idx, tok = firstn idx (ffmt w bits) ++ [46; 48] ++ skipn idx (ffmt w bits)).
  Proof.
    intros cfg e w bits Hr Hnf N. unfold jfloat.
    destruct (try_elem_next_bytes e N) as (e1 & -> & F1 & A1 & N1 & B1).
    rewrite jthen_nil, Hnf, Hr.
    destruct (radix_scan (ffmt w bits) 0) as [idx need] eqn:Hscan.
    destruct (jw_bytes e1 (firstn idx (ffmt w bits)) N1) as (e2 & -> & F2 & A2 & N2 & B2).
    rewrite jthen_nil.
    destruct need.
    - destruct (jw_bytes e2 [46; 48] N2) as (e3 & -> & F3 & A3 & N3 & B3).
      rewrite jthen_nil.
      destruct (jw_bytes e3 (skipn idx (ffmt w bits)) N3) as (e4 & E4 & F4 & A4 & N4 & B4).
      exists e4, (firstn idx (ffmt w bits) ++ [46; 48] ++ skipn idx (ffmt w bits)).
      split; [exact E4|]. split; [rewrite B4, B3, B2, B1, <- !app_assoc; reflexivity|].
      split; [|right; exists idx; reflexivity].
      apply in_or_app. right. left. reflexivity.
    - rewrite jthen_nil.
      destruct (jw_bytes e2 (skipn idx (ffmt w bits)) N2) as (e4 & E4 & F4 & A4 & N4 & B4).
      destruct (radix_scan_dot _ _ _ Hscan) as [Hin Hidx]. cbn [Nat.add] in Hidx.
      exists e4, (ffmt w bits). split; [exact E4|].
      split; [|split; [exact Hin|left; reflexivity]].
      rewrite B4, B2, B1, <- !app_assoc. f_equal. f_equal.
      rewrite Hidx, firstn_all, skipn_all. apply app_nil_r.
  Qed.

  (* without explicit_radix the token is exactly the formatter's output *)
  Theorem C07_json_float_plain : forall cfg e w bits,
    explicit_radix cfg = false -> nonfinite w bits = false -> w_fail (je_w e) = None ->
    exists e', jfloat cfg ffmt e w bits = JR e' jnil /\
      w_bytes (je_w e') = w_bytes (je_w e) ++ sep e ++ ffmt w bits.
  Proof.
    intros cfg e w bits Hr Hnf N. unfold jfloat.
    destruct (try_elem_next_bytes e N) as (e1 & -> & F1 & A1 & N1 & B1).
    rewrite jthen_nil, Hnf, Hr.
    destruct (jw_bytes e1 (ffmt w bits) N1) as (e2 & E2 & F2 & A2 & N2 & B2).
    exists e2. split; [exact E2|]. rewrite B2, B1, <- app_assoc. reflexivity.
  Qed.
End Final.
Print Assumptions json_enc_tree_gen.
Print Assumptions json_enc_tree.
Print Assumptions C17_json_enc_idle.
Print Assumptions C07_json_nonfinite_refused.
Print Assumptions C07_json_nonfinite_null.
Print Assumptions C07_json_nonfinite.
Print Assumptions C07_json_radix.
Print Assumptions C07_json_float_plain.

(* ====================================================================== *)
(* 6. Well-formed trees give event streams satisfying [events_ok]          *)
(* ====================================================================== *)
Lemma scalar_ok_strs s : scalar_ok s = true -> scalar_strs_ok s = true.
Proof. destruct s; cbn [scalar_ok scalar_strs_ok]; auto. Qed.

Lemma xelem_ok_strs bt s : xelem_ok bt s = true -> scalar_strs_ok s = true.
Proof.
  intro H. apply scalar_ok_strs. unfold xelem_ok in H.
  destruct bt; try discriminate; apply andb_true_iff in H; apply H.
Qed.

Lemma events_ok_app a b : events_ok (a ++ b) = events_ok a && events_ok b.
Proof. apply forallb_app. Qed.

Theorem wf_events_ok : forall t, wf_tree t = true -> events_ok (flatten t) = true.
Proof.
  induction t as [s r|len bt es IH|len bt ms IH|bt es|bt ms] using tree_ind'; intro Hwf.
  - cbn [wf_tree] in Hwf. pose proof (scalar_ok_strs s Hwf) as Hs.
    destruct s as [|b|s|k z]; try (cbn; rewrite ?Hs; reflexivity).
    destruct r; cbn [flatten events_ok forallb event_ok scalar_strs_ok] in *; rewrite Hs; reflexivity.
  - rewrite wf_arr in Hwf. apply andb_true_iff in Hwf. destruct Hwf as [_ Hwf].
    rewrite flatten_arr. change (events_ok (flatten_elems es ++ [EArrEnd]) = true).
    rewrite events_ok_app, andb_true_r.
    unfold flatten_elems. induction IH as [|t r Ht Hr IHr]; [reflexivity|].
    cbn [forallb] in Hwf. apply andb_true_iff in Hwf. destruct Hwf as [H1 H2].
    cbn [flat_map]. rewrite events_ok_app, (Ht H1), (IHr H2). reflexivity.
  - rewrite wf_obj in Hwf. apply andb_true_iff in Hwf. destruct Hwf as [_ Hwf].
    rewrite flatten_obj. change (events_ok (flatten_members ms ++ [EObjEnd]) = true).
    rewrite events_ok_app, andb_true_r.
    unfold flatten_members. induction IH as [|[[k byref] t] r Ht Hr IHr]; [reflexivity|].
    cbn [snd] in Ht. cbn [forallb fst snd] in Hwf. apply andb_true_iff in Hwf. destruct Hwf as [H1 H2].
    apply andb_true_iff in H1. destruct H1 as [Hk Ht'].
    cbn [flat_map]. change (events_ok ([key_event k byref] ++ flatten t ++
      flat_map (fun m => let '(k0, r0, e) := m in key_event k0 r0 :: flatten e) r) = true).
    rewrite !events_ok_app, (Ht Ht'), (IHr H2), !andb_true_r.
    unfold key_event. destruct byref; cbn [events_ok forallb event_ok]; rewrite Hk; reflexivity.
  - cbn [wf_tree] in Hwf. cbn [flatten events_ok forallb event_ok]. rewrite andb_true_r.
    apply forallb_forall. intros s Hs. rewrite forallb_forall in Hwf.
    eapply xelem_ok_strs. apply Hwf. exact Hs.
  - cbn [wf_tree] in Hwf. apply andb_true_iff in Hwf. destruct Hwf as [_ Hwf].
    cbn [flatten events_ok forallb event_ok]. rewrite andb_true_r.
    apply forallb_forall. intros m Hm. rewrite forallb_forall in Hwf. specialize (Hwf m Hm).
    apply andb_true_iff in Hwf. destruct Hwf as [H1 H2].
    rewrite H1, (xelem_ok_strs bt _ H2). reflexivity.
Qed.
Print Assumptions wf_events_ok.

(* ====================================================================== *)
(* 7. Summary for one well-formed value encoded by a fresh encoder         *)
(* ====================================================================== *)
Section Summary.
  Variable ffmt : Z -> Z -> bytes.
  Hypothesis ffmt_chars : forall w b, Forall (fun c => In c fchars) (ffmt w b).

  Theorem C07_C17_json_tree : forall cfg t, wf_tree t = true ->
    (ignore_invalid cfg = true \/ tree_finite t = true) ->
    exists e', json_run cfg ffmt (jenc0 None) (flatten t) 0 = JRun e' None /\
      je_first e' = bs0 /\ je_inarr e' = bs0 /\
      Forall (fun b => 32 <= b < 256) (w_bytes (je_w e')) /\
      utf8_valid (w_bytes (je_w e')) = true /\
      (escape_html cfg = true -> Forall (fun b => b <> 60 /\ b <> 62 /\ b <> 38) (w_bytes (je_w e'))).
  Proof.
    intros cfg t Hwf Hfin.
    destruct (C17_json_enc_idle ffmt cfg t Hwf Hfin) as (e' & E & F & A).
    pose proof (wf_events_ok t Hwf) as Hev.
    exists e'. split; [exact E|]. split; [exact F|]. split; [exact A|].
    split; [eapply C07_json_no_control; eassumption|].
    split; [eapply C07_json_utf8; eassumption|].
    intro Hh. eapply C07_json_html; eassumption.
  Qed.
End Summary.
Print Assumptions C07_C17_json_tree.
