(* L1: the JSON encoder, json/visitor.go (after the fix: write errors in
   OnString/onInt are returned).  strconv.AppendFloat is an oracle [ffmt]. *)
From SF Require Import Base.Prelude Base.Utf8 Core.Events Ubjson.Enc.
Open Scope Z_scope.

Record bstack := { bs_cur : bool; bs_stack : list bool (* top first *) }.
Definition bs0 : bstack := {| bs_cur := false; bs_stack := [] |}.
Definition bs_push (s : bstack) (b : bool) : bstack := {| bs_cur := b; bs_stack := bs_cur s :: bs_stack s |}.
Definition bs_pop (s : bstack) : option bstack :=
  match bs_stack s with [] => None | x :: r => Some {| bs_cur := x; bs_stack := r |} end.
Definition bs_set (s : bstack) (b : bool) : bstack := {| bs_cur := b; bs_stack := bs_stack s |}.

Record jcfg := { escape_html : bool; ignore_invalid : bool; explicit_radix : bool }.

Record jenc := { je_w : wsink; je_first : bstack; je_inarr : bstack }.
Definition jenc0 (f : option nat) : jenc := {| je_w := wsink0 f; je_first := bs0; je_inarr := bs0 |}.

(* result of a call: state, error class (-1 nil, 99 the writer's error, 1 refused value), or a panic *)
Inductive jres := JR (e : jenc) (err : Z) | JPanic.
Definition jnil := -1.

Definition jw (e : jenc) (b : bytes) : jres :=
  let '(w, ok) := wwrite (je_w e) b in
  JR {| je_w := w; je_first := je_first e; je_inarr := je_inarr e |} (if ok then jnil else 99).

Definition jthen (r : jres) (k : jenc -> jres) : jres :=
  match r with JR e err => if err =? jnil then k e else r | JPanic => JPanic end.
Notation "r >>= k" := (jthen r k) (at level 60, right associativity).

Definition try_elem_next (e : jenc) : jres :=
  if negb (bs_cur (je_inarr e)) then JR e jnil
  else if bs_cur (je_first e) then
    JR {| je_w := je_w e; je_first := bs_set (je_first e) false; je_inarr := je_inarr e |} jnil
  else jw e [44].

Definition on_field_next (e : jenc) : jres :=
  if bs_cur (je_first e) then
    JR {| je_w := je_w e; je_first := bs_set (je_first e) false; je_inarr := je_inarr e |} jnil
  else jw e [44].

Definition escape_set (html : bool) (b : Z) : bool :=
  (b <? 32) || (b =? 34) || (b =? 92) || (html && ((b =? 38) || (b =? 60) || (b =? 62))).

Definition flush (e : jenc) (rseg : bytes) : jres :=
  match rseg with [] => JR e jnil | _ => jw e (rev rseg) end.

(* the byte loop of OnString; [rseg] = pending unescaped segment s[start:i], reversed *)
Fixpoint jstring_loop (fuel : nat) (html : bool) (e : jenc) (s : bytes) (rseg : bytes) : jres :=
  match fuel with
  | O => JPanic
  | S f =>
      match s with
      | [] => flush e rseg >>= fun e => jw e [34]
      | b :: r =>
          if b <? 128 then
            if negb (escape_set html b) then jstring_loop f html e r (b :: rseg)
            else
              flush e rseg >>= fun e =>
              (if (b =? 92) || (b =? 34) then jw e [92; b]
               else if b =? 10 then jw e [92; 110]
               else if b =? 13 then jw e [92; 114]
               else if b =? 9 then jw e [92; 116]
               else jw e [92; 117; 48; 48; hexdigit (b / 16); hexdigit (b mod 16)]) >>= fun e =>
              jstring_loop f html e r []
          else
            let '(c, sz) := decode_rune s in
            if (c =? rune_error) && (sz =? 1) then
              flush e rseg >>= fun e => jw e [92; 117; 102; 102; 102; 100] >>= fun e =>
              jstring_loop f html e r []
            else if (c =? 8232) || (c =? 8233) then
              flush e rseg >>= fun e => jw e [92; 117; 50; 48; 50] >>= fun e =>
              jw e [hexdigit (c mod 16)] >>= fun e =>
              jstring_loop f html e (skipn (Z.to_nat sz) s) []
            else jstring_loop f html e (skipn (Z.to_nat sz) s) (rev (firstn (Z.to_nat sz) s) ++ rseg)
      end
  end.

Definition jstring (cfg : jcfg) (e : jenc) (s : bytes) : jres :=
  try_elem_next e >>= fun e => jw e [34] >>= fun e => jstring_loop (S (length s)) (escape_html cfg) e s [].

Definition jint (e : jenc) (z : Z) : jres :=
  try_elem_next e >>= fun e => jw e (if z <? 0 then 45 :: digits (- z) else digits z).

Definition nonfinite (w bits : Z) : bool :=
  if w =? 32 then (bits / 8388608) mod 256 =? 255 else (bits / 4503599627370496) mod 2048 =? 2047.

(* index of the first 'e' or '.', and whether a ".0" is needed *)
Fixpoint radix_scan (b : bytes) (i : nat) : nat * bool :=
  match b with
  | [] => (i, true)
  | c :: r => if c =? 101 then (i, true) else if c =? 46 then (i + length b, false)%nat else radix_scan r (S i)
  end.

Definition jfloat (cfg : jcfg) (ffmt : Z -> Z -> bytes) (e : jenc) (w bits : Z) : jres :=
  try_elem_next e >>= fun e =>
  if nonfinite w bits then
    if ignore_invalid cfg then jw e [110; 117; 108; 108] else JR e 1
  else
    let b := ffmt w bits in
    if explicit_radix cfg then
      let '(idx, need) := radix_scan b 0 in
      jw e (firstn idx b) >>= fun e =>
      (if need then jw e [46; 48] else JR e jnil) >>= fun e =>
      jw e (skipn idx b)
    else jw e b.

Definition jscalar (cfg : jcfg) (ffmt : Z -> Z -> bytes) (e : jenc) (s : scalar) : jres :=
  match s with
  | SNil => try_elem_next e >>= fun e => jw e [110; 117; 108; 108]
  | SBool true => try_elem_next e >>= fun e => jw e [116; 114; 117; 101]
  | SBool false => try_elem_next e >>= fun e => jw e [102; 97; 108; 115; 101]
  | SStr s => jstring cfg e s
  | SNum KFloat32 z => jfloat cfg ffmt e 32 z
  | SNum KFloat64 z => jfloat cfg ffmt e 64 z
  | SNum _ z => jint e z
  end.

Definition jstart (e : jenc) (isarr : bool) : jres :=
  try_elem_next e >>= fun e =>
  jw {| je_w := je_w e; je_first := bs_push (je_first e) true; je_inarr := bs_push (je_inarr e) isarr |}
     [if isarr then 91 else 123].

Definition jfinish (e : jenc) (isarr : bool) : jres :=
  match bs_pop (je_first e), bs_pop (je_inarr e) with
  | Some f, Some a => jw {| je_w := je_w e; je_first := f; je_inarr := a |} [if isarr then 93 else 125]
  | _, _ => JPanic
  end.

Definition jkey (cfg : jcfg) (e : jenc) (k : bytes) : jres :=
  on_field_next e >>= fun e => jstring cfg e k >>= fun e => jw e [58].

Definition json_basic (cfg : jcfg) (ffmt : Z -> Z -> bytes) (e : jenc) (ev : event) : jres :=
  match ev with
  | EVal s => jscalar cfg ffmt e s
  | EStrRef s => jstring cfg e s
  | EKey k | EKeyRef k => jkey cfg e k
  | EArrStart _ _ => jstart e true
  | EObjStart _ _ => jstart e false
  | EArrEnd => jfinish e true
  | EObjEnd => jfinish e false
  | _ => JR e jnil
  end.

Fixpoint json_seq (cfg : jcfg) (ffmt : Z -> Z -> bytes) (e : jenc) (evs : list event) : jres :=
  match evs with
  | [] => JR e jnil
  | ev :: r => json_basic cfg ffmt e ev >>= fun e => json_seq cfg ffmt e r
  end.

(* typed events arrive through structform.extArrVisitor / extObjVisitor *)
Definition json_on (cfg : jcfg) (ffmt : Z -> Z -> bytes) (e : jenc) (ev : event) : jres :=
  match ev with
  | EXArr _ _ | EXObj _ _ => json_seq cfg ffmt e (expand ev)
  | _ => json_basic cfg ffmt e ev
  end.

(* a call sequence: final state, index and class of the failing call *)
Inductive jrun_res := JRun (e : jenc) (fail : option (nat * Z)) | JRunPanic.
Fixpoint json_run (cfg : jcfg) (ffmt : Z -> Z -> bytes) (e : jenc) (evs : list event) (i : nat) : jrun_res :=
  match evs with
  | [] => JRun e None
  | ev :: r =>
      match json_on cfg ffmt e ev with
      | JPanic => JRunPanic
      | JR e1 err => if err =? jnil then json_run cfg ffmt e1 r (S i) else JRun e1 (Some (i, err))
      end
  end.
