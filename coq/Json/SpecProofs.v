(* The Go JSON parser model (Json/Parse.v) against the RFC 8259 reference
   decoder (Json/Spec.v): the lexical / arithmetic core of property C04. *)
From SF Require Import Base.Prelude Base.PreludeProofs Base.Utf8 Core.Events Core.EventsProofs
  Json.Parse Json.Spec.
From Coq Require Import ZifyBool ZifyNat ZifyN.
Open Scope Z_scope.
Ltac Zify.zify_post_hook ::= Z.div_mod_to_equations.

(* ====================================================================== *)
(* Part 1: integers.  parse_uint / report_number against the decimal value *)
(* ====================================================================== *)

Definition all_digits (ds : bytes) : bool := forallb is_dig ds.

Definition dec_acc (ds : bytes) (n : Z) : Z := fold_left (fun a c => a * 10 + (c - 48)) ds n.

Lemma dec_value_acc ds : dec_value ds = dec_acc ds 0.
Proof. reflexivity. Qed.

Lemma dec_acc_cons c r n : dec_acc (c :: r) n = dec_acc r (n * 10 + (c - 48)).
Proof. reflexivity. Qed.

Lemma is_dig_digit c : is_dig c = is_digit c.
Proof. reflexivity. Qed.

Lemma is_dig_range c : is_dig c = true -> 48 <= c <= 57.
Proof. unfold is_dig. lia. Qed.

Lemma dec_acc_ge ds : forall n, all_digits ds = true -> 0 <= n -> n <= dec_acc ds n.
Proof.
  induction ds as [|c r IH]; intros n Hd Hn.
  - cbn. lia.
  - cbn [all_digits forallb] in Hd. apply andb_prop in Hd. destruct Hd as [Hc Hr].
    apply is_dig_range in Hc. rewrite dec_acc_cons.
    specialize (IH (n * 10 + (c - 48)) Hr). lia.
Qed.

Lemma dec_value_nonneg ds : all_digits ds = true -> 0 <= dec_value ds.
Proof. intro H. rewrite dec_value_acc. apply dec_acc_ge; [exact H|lia]. Qed.

(* parseUint computes the decimal value exactly, and fails exactly when the
   value does not fit 64 bits *)
Theorem parse_uint_exact ds : forall n, all_digits ds = true -> 0 <= n < 18446744073709551616 ->
  parse_uint ds n =
  if dec_acc ds n <? 18446744073709551616 then Some (dec_acc ds n) else None.
Proof.
  induction ds as [|c r IH]; intros n Hd Hn.
  - cbn [parse_uint dec_acc fold_left].
    destruct (n <? 18446744073709551616) eqn:E; [reflexivity|lia].
  - cbn [all_digits forallb] in Hd. apply andb_prop in Hd. destruct Hd as [Hc Hr].
    apply is_dig_range in Hc. rewrite dec_acc_cons. cbn [parse_uint].
    pose proof (dec_acc_ge r (n * 10 + (c - 48)) Hr ltac:(lia)) as Hge.
    destruct ((c - 48 <? 0) || (c - 48 >? 9)) eqn:E1; [lia|].
    destruct (n >=? 1844674407370955162) eqn:E2.
    { destruct (dec_acc r (n * 10 + (c - 48)) <? 18446744073709551616) eqn:E3; [lia|reflexivity]. }
    destruct (n * 10 + (c - 48) >? 18446744073709551615) eqn:E3.
    { destruct (dec_acc r (n * 10 + (c - 48)) <? 18446744073709551616) eqn:E4; [lia|reflexivity]. }
    apply IH; [exact Hr|lia].
Qed.
Print Assumptions parse_uint_exact.

Corollary parse_uint_value ds : all_digits ds = true ->
  parse_uint ds 0 = if dec_value ds <? 18446744073709551616 then Some (dec_value ds) else None.
Proof. intro H. rewrite dec_value_acc. apply parse_uint_exact; [exact H|lia]. Qed.

(* what reportNumber delivers for an integer literal *)
Definition int_report (s : sink) (k : nkind) (z : Z) : option (sink * Z) :=
  Some (jvis s (EVal (SNum k z))).

Lemma jvis_pair s e : (let '(s1, x) := jvis s e in Some (s1, x)) = Some (jvis s e).
Proof. destruct (jvis s e). reflexivity. Qed.

(* non-negative literals d1..dn, n >= 1 *)
Theorem report_number_nonneg pf s ds : ds <> [] -> all_digits ds = true ->
  report_number pf s ds false =
  let z := dec_value ds in
  if z <? 9223372036854775808 then int_report s KInt64 z
  else if z <? 18446744073709551616 then int_report s KUint64 z
  else Some (s, jeGeneric).
Proof.
  intros Hne Hd. destruct ds as [|c r]; [congruence|].
  pose proof (dec_value_nonneg _ Hd) as Hnn.
  pose proof Hd as Hd'. cbn [all_digits forallb] in Hd'. apply andb_prop in Hd'. destruct Hd' as [Hc _].
  apply is_dig_range in Hc.
  unfold report_number.
  replace (c =? 45) with false by lia. replace (c =? 43) with false by lia.
  cbn [orb negb andb]. rewrite (parse_uint_value _ Hd). cbv zeta.
  destruct (dec_value (c :: r) <? 18446744073709551616) eqn:E1.
  - destruct (dec_value (c :: r) >? 9223372036854775807) eqn:E2.
    + replace (dec_value (c :: r) <? 9223372036854775808) with false by lia.
      rewrite jvis_pair. reflexivity.
    + replace (dec_value (c :: r) <? 9223372036854775808) with true by lia.
      rewrite jvis_pair. reflexivity.
  - replace (dec_value (c :: r) <? 9223372036854775808) with false by lia. reflexivity.
Qed.
Print Assumptions report_number_nonneg.

(* negative literals -d1..dn *)
Theorem report_number_neg pf s ds : all_digits ds = true ->
  report_number pf s (45 :: ds) false =
  let z := dec_value ds in
  if z <=? 9223372036854775808 then int_report s KInt64 (- z)
  else Some (s, jeGeneric).
Proof.
  intros Hd. pose proof (dec_value_nonneg _ Hd) as Hnn.
  unfold report_number.
  replace (45 =? 45) with true by reflexivity. replace (45 =? 43) with false by reflexivity.
  cbn [orb negb andb]. rewrite (parse_uint_value _ Hd). cbv zeta.
  destruct (dec_value ds <? 18446744073709551616) eqn:E1.
  - destruct (dec_value ds >? 9223372036854775808) eqn:E2.
    + replace (dec_value ds <=? 9223372036854775808) with false by lia. reflexivity.
    + replace (dec_value ds <=? 9223372036854775808) with true by lia.
      rewrite jvis_pair. reflexivity.
  - replace (dec_value ds <=? 9223372036854775808) with false by lia. reflexivity.
Qed.
Print Assumptions report_number_neg.

(* the spec's integer literals: [ minus ] digits.  Exactly the value, with the
   kind fixed by the range; out-of-range literals are rejected, never
   reported as another number. *)
Definition int_kind (z : Z) : nkind := if z <? 9223372036854775808 then KInt64 else KUint64.

Theorem report_number_int pf s lit :
  (exists ds, ds <> [] /\ all_digits ds = true /\ (lit = ds \/ lit = 45 :: ds)) ->
  report_number pf s lit false =
  match json_num_value pf lit true with
  | Some (CInt z) => int_report s (int_kind z) z
  | _ => Some (s, jeGeneric)
  end.
Proof.
  intros (ds & Hne & Hd & [-> | ->]).
  - rewrite (report_number_nonneg pf s ds Hne Hd). cbv zeta.
    pose proof (dec_value_nonneg _ Hd) as Hnn.
    destruct ds as [|c r]; [congruence|].
    pose proof Hd as Hd'. cbn [all_digits forallb] in Hd'. apply andb_prop in Hd'. destruct Hd' as [Hc _].
    apply is_dig_range in Hc.
    unfold json_num_value, int_value. replace (c =? 45) with false by lia.
    unfold int_kind.
    destruct (dec_value (c :: r) <? 9223372036854775808) eqn:E1.
    + replace ((-9223372036854775808 <=? dec_value (c :: r)) && (dec_value (c :: r) <? 18446744073709551616)) with true by lia.
      rewrite E1. reflexivity.
    + destruct (dec_value (c :: r) <? 18446744073709551616) eqn:E2.
      * replace ((-9223372036854775808 <=? dec_value (c :: r)) && true) with true by lia.
        rewrite E1. reflexivity.
      * rewrite andb_false_r. reflexivity.
  - rewrite (report_number_neg pf s ds Hd). cbv zeta.
    pose proof (dec_value_nonneg _ Hd) as Hnn.
    unfold json_num_value, int_value. replace (45 =? 45) with true by reflexivity.
    unfold int_kind.
    destruct (dec_value ds <=? 9223372036854775808) eqn:E1.
    + replace ((-9223372036854775808 <=? - dec_value ds) && (- dec_value ds <? 18446744073709551616)) with true by lia.
      replace (- dec_value ds <? 9223372036854775808) with true by lia. reflexivity.
    + replace ((-9223372036854775808 <=? - dec_value ds) && (- dec_value ds <? 18446744073709551616)) with false by lia.
      reflexivity.
Qed.
Print Assumptions report_number_int.

(* the float path is the oracle on the same bytes *)
Theorem report_number_float pf s lit :
  report_number pf s lit true =
  match json_num_value pf lit false with
  | Some (CF64 bits) => Some (jvis s (EVal (SNum KFloat64 bits)))
  | _ => Some (s, jeGeneric)
  end.
Proof.
  unfold report_number, json_num_value. destruct (pf lit) as [bits|]; [|reflexivity].
  rewrite jvis_pair. reflexivity.
Qed.
Print Assumptions report_number_float.

(* ====================================================================== *)
(* Part 2: strings.  unquote against json_unescape                         *)
(* ====================================================================== *)
(* unquote receives the string body, i.e. the token without the two
   quotation marks (do_string: content = tok[1 : len(tok)-1]). *)

(* a byte that both sides copy *)
Definition plain (c : Z) : bool := negb ((c =? 92) || (c =? 34) || (c <? 32)).
Arguments plain : simpl never.

Lemma json_char_plain c r : plain c = true -> json_char (c :: r) = ChOk [c] r.
Proof.
  unfold plain, json_char. intro H.
  replace (c =? 92) with false by lia. replace ((c =? 34) || (c <? 32)) with false by lia. reflexivity.
Qed.

Lemma unescape_plain_prefix l : forall fu r out, forallb plain l = true ->
  json_unescape_loop fu (l ++ r) = Some out ->
  exists fu' t, json_unescape_loop fu' r = Some t /\ out = l ++ t.
Proof.
  induction l as [|c l IH]; intros fu r out Hp H.
  - exists fu, out. split; [exact H|reflexivity].
  - cbn [forallb] in Hp. apply andb_prop in Hp. destruct Hp as [Hc Hl].
    destruct fu as [|fu]; [discriminate|].
    cbn [app json_unescape_loop] in H.
    rewrite (json_char_plain _ _ Hc) in H.
    replace (c =? 34) with false in H by (unfold plain in Hc; lia).
    destruct (json_unescape_loop fu (l ++ r)) as [t0|] eqn:E; [|discriminate].
    destruct (IH fu r t0 Hl E) as (fu' & t & Ht & ->).
    exists fu', t. split; [exact Ht|]. injection H as <-. reflexivity.
Qed.

Lemma unescape_nil fu t : json_unescape_loop fu [] = Some t -> t = [].
Proof. destruct fu; cbn; congruence. Qed.

(* utf8.DecodeRune on a lead byte >= 0x80: the bytes it covers are all >= 0x80 *)
Ltac dr_fin :=
  cbn [snd]; change (Z.to_nat 1) with 1%nat; change (Z.to_nat 2) with 2%nat;
  change (Z.to_nat 3) with 3%nat; change (Z.to_nat 4) with 4%nat; cbn [firstn forallb length].

Lemma decode_rune_high c r : 128 <= c ->
  let sz := Z.to_nat (snd (decode_rune (c :: r))) in
  (1 <= sz <= length (c :: r))%nat /\ forallb plain (firstn sz (c :: r)) = true.
Proof.
  intro Hc. cbv zeta. unfold decode_rune.
  assert (P1 : forall x, 128 <= x -> plain x = true) by (intros x Hx; unfold plain; lia).
  replace (c <? 128) with false by lia.
  destruct ((c <? 194) || (244 <? c)).
  { dr_fin. rewrite (P1 c Hc). split; [lia|reflexivity]. }
  destruct (c <? 224).
  { destruct r as [|b1 r].
    - dr_fin. rewrite (P1 c Hc). split; [lia|reflexivity].
    - destruct (cont_byte b1) eqn:E.
      + unfold cont_byte in E. dr_fin. rewrite (P1 c Hc), (P1 b1) by lia. split; [lia|reflexivity].
      + dr_fin. rewrite (P1 c Hc). split; [lia|reflexivity]. }
  destruct (c <? 240).
  { destruct r as [|b1 [|b2 r]]; try (dr_fin; rewrite (P1 c Hc); split; [lia|reflexivity]).
    destruct ((((if c =? 224 then 160 else 128) <=? b1) && (b1 <=? (if c =? 237 then 159 else 191))) && cont_byte b2) eqn:E.
    - unfold cont_byte in E.
      assert (128 <= b1) by (destruct (c =? 224); lia).
      dr_fin. rewrite (P1 c Hc), (P1 b1), (P1 b2) by lia. split; [lia|reflexivity].
    - dr_fin. rewrite (P1 c Hc). split; [lia|reflexivity]. }
  destruct r as [|b1 [|b2 [|b3 r]]]; try (dr_fin; rewrite (P1 c Hc); split; [lia|reflexivity]).
  destruct (((((if c =? 240 then 144 else 128) <=? b1) && (b1 <=? (if c =? 244 then 143 else 191))) && cont_byte b2) && cont_byte b3) eqn:E.
  - unfold cont_byte in E.
    assert (128 <= b1) by (destruct (c =? 240); lia).
    dr_fin. rewrite (P1 c Hc), (P1 b1), (P1 b2), (P1 b3) by lia. split; [lia|reflexivity].
  - dr_fin. rewrite (P1 c Hc). split; [lia|reflexivity].
Qed.

Lemma firstn_plus {A} (a b : nat) (l : list A) :
  firstn (a + b) l = firstn a l ++ firstn b (skipn a l).
Proof.
  revert l. induction a as [|a IH]; intro l; [reflexivity|].
  destruct l as [|x l]; [cbn; rewrite firstn_nil; reflexivity|].
  cbn [Nat.add firstn skipn app]. rewrite IH. reflexivity.
Qed.

(* the first loop of unquote stops inside the string, on plain bytes only *)
Lemma plain_prefix_spec f : forall s,
  (plain_prefix f s <= length s)%nat /\ forallb plain (firstn (plain_prefix f s) s) = true.
Proof.
  induction f as [|f IH]; intro s; [cbn; split; [lia|reflexivity]|].
  destruct s as [|c r]; [cbn; split; [lia|reflexivity]|].
  cbn [plain_prefix].
  destruct ((c =? 92) || (c =? 34) || (c <? 32)) eqn:E1; [cbn; split; [lia|reflexivity]|].
  destruct (c <? 128) eqn:E2.
  - destruct (IH r) as [L P]. cbn [length firstn forallb]. split; [lia|].
    rewrite P. unfold plain. rewrite E1. reflexivity.
  - pose proof (decode_rune_high c r ltac:(lia)) as H. cbv zeta in H.
    destruct (decode_rune (c :: r)) as [ru sz] eqn:ED. cbn [snd] in H. destruct H as [Hsz Hp].
    destruct ((ru =? rune_error) && (sz =? 1)); [cbn; split; [lia|reflexivity]|].
    destruct (IH (skipn (Z.to_nat sz) (c :: r))) as [L P].
    rewrite skipn_length in L. split; [lia|].
    rewrite firstn_plus, forallb_app, Hp, P. reflexivity.
Qed.

(* hex4 against strconv.ParseUint on four bytes *)
Lemma hex4_parse l : (4 <= length l)%nat ->
  parse_hex4 (firstn 4 l) = match hex4 l with HexOk c _ => Some c | _ => None end.
Proof.
  intro H. destruct l as [|a [|b [|c [|d r]]]]; cbn [length] in H; try lia.
  cbn [firstn parse_hex4 hex4].
  destruct (hexval a), (hexval b), (hexval c), (hexval d); reflexivity.
Qed.

Lemma hex4_ok l code r3 : hex4 l = HexOk code r3 ->
  (4 <= length l)%nat /\ skipn 4 l = r3 /\ parse_hex4 (firstn 4 l) = Some code.
Proof.
  intro H. destruct l as [|a [|b [|c [|d r]]]];
    try (unfold hex4 in H; destruct (forallb is_hex _); discriminate).
  split; [cbn; lia|]. rewrite hex4_parse by (cbn; lia). rewrite H.
  split; [|reflexivity].
  cbn [hex4] in H. destruct (hexval a), (hexval b), (hexval c), (hexval d); try discriminate.
  injection H as _ <-. reflexivity.
Qed.

Lemma surrogate_split c : is_surrogate c = is_high_surrogate c || is_low_surrogate c.
Proof. unfold is_surrogate, is_high_surrogate, is_low_surrogate. lia. Qed.

Lemma utf16_pair hi lo : is_high_surrogate hi = true -> is_low_surrogate lo = true ->
  (utf16_decode hi lo =? rune_error) = false.
Proof.
  unfold is_high_surrogate, is_low_surrogate, utf16_decode, rune_error. intros H1 H2.
  replace ((55296 <=? hi) && (hi <? 56320) && (56320 <=? lo) && (lo <? 57344)) with true by lia. lia.
Qed.

Lemma utf16_nopair hi lo : is_high_surrogate hi && is_low_surrogate lo = false ->
  utf16_decode hi lo = rune_error.
Proof.
  unfold is_high_surrogate, is_low_surrogate, utf16_decode. intros H.
  replace ((55296 <=? hi) && (hi <? 56320) && (56320 <=? lo) && (lo <? 57344)) with false by lia. reflexivity.
Qed.

(* the surrogate look-ahead of unquote, isolated *)
Definition go_pair (code : Z) (r3 : bytes) : Z * bytes :=
  let valid := (6 <=? zlen r3) && (nth 0 r3 0 =? 92) && (nth 1 r3 0 =? 117) in
  if valid then
    match parse_hex4 (firstn 4 (skipn 2 r3)) with
    | Some code2 =>
        let d := utf16_decode code code2 in
        if d =? rune_error then (rune_error, r3) else (d, skipn 6 r3)
    | None => (rune_error, r3)
    end
  else (rune_error, r3).

Lemma go_pair_spec code r3 : is_surrogate code = true ->
  go_pair code r3 =
  if is_high_surrogate code then
    match low_escape r3 with
    | Some (lo, r4) => (utf16_decode code lo, r4)
    | None => (rune_error, r3)
    end
  else (rune_error, r3).
Proof.
  intro Hs. unfold go_pair. cbv zeta.
  destruct ((6 <=? zlen r3) && (nth 0 r3 0 =? 92) && (nth 1 r3 0 =? 117)) eqn:V.
  - destruct r3 as [|c1 [|c2 l]]; try (unfold zlen in V; cbn in V; lia).
    cbn [nth] in V. assert (Hl : (4 <= length l)%nat) by (unfold zlen in V; cbn [length] in V; lia).
    cbn [skipn]. rewrite (hex4_parse l Hl).
    unfold low_escape. replace ((c1 =? 92) && (c2 =? 117)) with true by lia.
    destruct (hex4 l) as [lo r'| |] eqn:EH.
    + destruct (hex4_ok _ _ _ EH) as (_ & Hsk & _).
      destruct (is_high_surrogate code) eqn:Hh.
      * destruct (is_low_surrogate lo) eqn:Hlo.
        -- rewrite (utf16_pair _ _ Hh Hlo). f_equal. change (skipn 6 (c1 :: c2 :: l)) with (skipn 4 l). exact Hsk.
        -- rewrite utf16_nopair by (rewrite Hh, Hlo; reflexivity). reflexivity.
      * rewrite utf16_nopair by (rewrite Hh; reflexivity). reflexivity.
    + destruct (is_high_surrogate code); reflexivity.
    + destruct (is_high_surrogate code); reflexivity.
  - destruct (is_high_surrogate code); [|reflexivity].
    unfold low_escape. destruct r3 as [|c1 [|c2 l]]; try reflexivity.
    destruct ((c1 =? 92) && (c2 =? 117)) eqn:E; [|reflexivity].
    cbn [nth] in V.
    assert (Hl : (length l < 4)%nat) by (unfold zlen in V; cbn [length] in V; lia).
    destruct l as [|h1 [|h2 [|h3 [|h4 l]]]]; try (cbn [length] in Hl; lia);
      unfold hex4; destruct (forallb is_hex _); reflexivity.
Qed.

Lemma low_escape_length r3 lo r4 : low_escape r3 = Some (lo, r4) -> (length r4 < length r3)%nat.
Proof.
  unfold low_escape. destruct r3 as [|c1 [|c2 l]]; try discriminate.
  destruct ((c1 =? 92) && (c2 =? 117)); [|discriminate].
  destruct (hex4 l) as [lo' r'| |] eqn:EH; try discriminate.
  destruct (is_low_surrogate lo'); [|discriminate]. intro H. injection H as _ <-.
  destruct (hex4_ok _ _ _ EH) as (L & Hsk & _). subst r'. rewrite skipn_length. cbn [length]. lia.
Qed.

(* unquote_loop, one \u escape: restated with go_pair *)
Lemma unquote_loop_u f r2 racc :
  unquote_loop (S f) (92 :: 117 :: r2) racc =
  if zlen r2 <? 4 then UQErr else
  match parse_hex4 (firstn 4 r2) with
  | None => UQErr
  | Some code =>
      let r3 := skipn 4 r2 in
      if is_surrogate code then
        let '(ru, r4) := go_pair code r3 in unquote_loop f r4 (rev (encode_rune ru) ++ racc)
      else unquote_loop f r3 (rev (encode_rune code) ++ racc)
  end.
Proof. reflexivity. Qed.

Lemma unquote_loop_simple f x r2 racc y :
  (x =? 34) || (x =? 92) || (x =? 47) || (x =? 39) = false ->
  (if x =? 98 then Some 8 else if x =? 102 then Some 12 else if x =? 110 then Some 10
   else if x =? 114 then Some 13 else if x =? 116 then Some 9 else None) = Some y ->
  unquote_loop (S f) (92 :: x :: r2) racc = unquote_loop f r2 (y :: racc).
Proof.
  intros H1 H2. cbn [unquote_loop]. change (92 =? 92) with true. cbv iota. rewrite H1.
  destruct (x =? 98); [injection H2 as <-; reflexivity|].
  destruct (x =? 102); [injection H2 as <-; reflexivity|].
  destruct (x =? 110); [injection H2 as <-; reflexivity|].
  destruct (x =? 114); [injection H2 as <-; reflexivity|].
  destruct (x =? 116); [injection H2 as <-; reflexivity|discriminate].
Qed.

Lemma unquote_loop_self f x r2 racc :
  (x =? 34) || (x =? 92) || (x =? 47) = true ->
  unquote_loop (S f) (92 :: x :: r2) racc = unquote_loop f r2 (x :: racc).
Proof.
  intros H1. cbn [unquote_loop]. change (92 =? 92) with true. cbv iota.
  replace ((x =? 34) || (x =? 92) || (x =? 47) || (x =? 39)) with true by lia. reflexivity.
Qed.

#[local] Opaque encode_rune.

(* the second loop of unquote computes json_unescape *)
Lemma unquote_loop_spec f : forall s racc fu out,
  json_unescape_loop fu s = Some out -> (length s < f)%nat ->
  unquote_loop f s racc = UQ (rev racc ++ out).
Proof.
  induction f as [|f IH]; intros s racc fu out Hu Hl; [lia|].
  destruct fu as [|fu]; [discriminate|].
  destruct s as [|c r].
  { cbn in Hu. injection Hu as <-. cbn. rewrite app_nil_r. reflexivity. }
  cbn [json_unescape_loop] in Hu.
  destruct (c =? 34) eqn:Eq; [discriminate|].
  destruct (json_char (c :: r)) as [o rest| |] eqn:EC; try discriminate.
  destruct (json_unescape_loop fu rest) as [t|] eqn:ER; [|discriminate].
  injection Hu as <-.
  cbn [length] in Hl.
  unfold json_char in EC.
  destruct (c =? 92) eqn:E92.
  - (* escape *)
    assert (c = 92) by lia. subst c.
    unfold json_escape in EC. destruct r as [|x r2]; [discriminate|].
    cbn [length] in Hl.
    assert (K : forall y, o = [y] -> rest = r2 ->
              unquote_loop f r2 (y :: racc) = UQ (rev racc ++ o ++ t)).
    { intros y -> ->. rewrite (IH r2 (y :: racc) fu t ER) by lia.
      cbn [rev app]. rewrite <- app_assoc. reflexivity. }
    destruct (x =? 34) eqn:X1.
    { injection EC as <- <-. rewrite unquote_loop_self by lia. assert (x = 34) by lia; subst x. apply K; reflexivity. }
    destruct (x =? 92) eqn:X2.
    { injection EC as <- <-. rewrite unquote_loop_self by lia. assert (x = 92) by lia; subst x. apply K; reflexivity. }
    destruct (x =? 47) eqn:X3.
    { injection EC as <- <-. rewrite unquote_loop_self by lia. assert (x = 47) by lia; subst x. apply K; reflexivity. }
    destruct (x =? 98) eqn:X4.
    { injection EC as <- <-. rewrite (unquote_loop_simple f x r2 racc 8); [apply K; reflexivity|lia|rewrite X4; reflexivity]. }
    destruct (x =? 102) eqn:X5.
    { injection EC as <- <-. rewrite (unquote_loop_simple f x r2 racc 12); [apply K; reflexivity|lia|rewrite X4, X5; reflexivity]. }
    destruct (x =? 110) eqn:X6.
    { injection EC as <- <-. rewrite (unquote_loop_simple f x r2 racc 10); [apply K; reflexivity|lia|rewrite X4, X5, X6; reflexivity]. }
    destruct (x =? 114) eqn:X7.
    { injection EC as <- <-. rewrite (unquote_loop_simple f x r2 racc 13); [apply K; reflexivity|lia|rewrite X4, X5, X6, X7; reflexivity]. }
    destruct (x =? 116) eqn:X8.
    { injection EC as <- <-. rewrite (unquote_loop_simple f x r2 racc 9); [apply K; reflexivity|lia|rewrite X4, X5, X6, X7, X8; reflexivity]. }
    destruct (x =? 117) eqn:X9; [|discriminate].
    assert (x = 117) by lia. subst x.
    destruct (hex4 r2) as [code r3| |] eqn:EH; try discriminate.
    destruct (hex4_ok _ _ _ EH) as (L4 & Hsk & Hph).
    rewrite unquote_loop_u. replace (zlen r2 <? 4) with false by (unfold zlen; lia).
    rewrite Hph, Hsk. cbv zeta.
    assert (L3 : (length r3 <= length r2)%nat) by (subst r3; rewrite skipn_length; lia).
    assert (K2 : forall ru r4, o = encode_rune ru -> rest = r4 -> (length r4 <= length r3)%nat ->
              unquote_loop f r4 (rev (encode_rune ru) ++ racc) = UQ (rev racc ++ o ++ t)).
    { intros ru r4 -> -> L. rewrite (IH r4 _ fu t ER) by lia.
      rewrite rev_app_distr, rev_involutive, <- app_assoc. reflexivity. }
    rewrite surrogate_split.
    destruct (is_high_surrogate code) eqn:Hh.
    + cbn [orb]. rewrite go_pair_spec by (rewrite surrogate_split, Hh; reflexivity). rewrite Hh.
      destruct (low_escape r3) as [[lo r4]|] eqn:EL.
      * injection EC as <- <-. apply K2; [reflexivity|reflexivity|].
        apply low_escape_length in EL. lia.
      * injection EC as <- <-. apply K2; [reflexivity|reflexivity|lia].
    + cbn [orb]. destruct (is_low_surrogate code) eqn:Hlo.
      * rewrite go_pair_spec by (rewrite surrogate_split, Hh, Hlo; reflexivity). rewrite Hh.
        injection EC as <- <-. apply K2; [reflexivity|reflexivity|lia].
      * injection EC as <- <-. apply K2; [reflexivity|reflexivity|lia].
  - (* unescaped *)
    destruct ((c =? 34) || (c <? 32)) eqn:E2; [discriminate|]. injection EC as <- <-.
    cbn [unquote_loop]. rewrite E92, E2.
    destruct (c <? 128) eqn:E3.
    + rewrite (IH r (c :: racc) fu t ER) by lia. cbn [rev app]. rewrite <- app_assoc. reflexivity.
    + pose proof (decode_rune_high c r ltac:(lia)) as H. cbv zeta in H.
      destruct (decode_rune (c :: r)) as [ru sz] eqn:ED. cbn [snd] in H. destruct H as [Hsz Hp].
      (* the spec copies the same bytes one at a time *)
      assert (HU : json_unescape_loop (S fu) (firstn (Z.to_nat sz) (c :: r) ++ skipn (Z.to_nat sz) (c :: r))
                   = Some ([c] ++ t)).
      { rewrite firstn_skipn. cbn [json_unescape_loop]. rewrite Eq.
        unfold json_char. rewrite E92, E2, ER. reflexivity. }
      destruct (unescape_plain_prefix _ _ _ _ Hp HU) as (fu' & t' & Ht' & Eout).
      rewrite (IH _ _ fu' t' Ht') by (rewrite skipn_length; cbn [length] in *; lia).
      rewrite rev_app_distr, rev_involutive, <- app_assoc. cbn [app] in Eout. cbn [app]. rewrite Eout. reflexivity.
Qed.

(* C04, strings: on every string body of the RFC grammar the Go unquote
   returns the reference unescaping *)
Theorem unquote_spec s out : json_unescape s = Some out -> unquote s = UQ out.
Proof.
  unfold json_unescape, unquote. intro Hu.
  destruct (plain_prefix_spec (length s) s) as [Li Pi].
  set (i := plain_prefix (length s) s) in *.
  rewrite <- (firstn_skipn i s) in Hu at 2.
  destruct (unescape_plain_prefix _ _ _ _ Pi Hu) as (fu' & t & Ht & Eout).
  destruct (Nat.eqb i (length s)) eqn:E.
  - apply Nat.eqb_eq in E. rewrite E, skipn_all in Ht. apply unescape_nil in Ht. subst t.
    rewrite E, firstn_all, app_nil_r in Eout. rewrite Eout. reflexivity.
  - rewrite (unquote_loop_spec _ _ _ fu' t Ht) by (rewrite skipn_length; lia).
    rewrite rev_involutive, Eout. reflexivity.
Qed.
Print Assumptions unquote_spec.

(* ====================================================================== *)
(* Part 3: whitespace.  The RFC's ws is a subset of what the parser skips  *)
(* ====================================================================== *)
Theorem is_ws_is_space c : is_ws c = true -> is_space c = true.
Proof. unfold is_ws, is_space. lia. Qed.
Print Assumptions is_ws_is_space.

(* the inclusion is strict: VT, FF, NEL and NBSP are skipped by the parser only *)
Example is_space_not_ws : map is_space [11; 12; 133; 160] = [true; true; true; true]
                       /\ map is_ws [11; 12; 133; 160] = [false; false; false; false].
Proof. split; reflexivity. Qed.

Theorem is_ws_is_stop c : is_ws c = true -> is_stop c = true.
Proof. unfold is_ws, is_stop. lia. Qed.

Theorem trim_left_skip_ws b : trim_left b = trim_left (skip_ws b).
Proof.
  induction b as [|c r IH]; [reflexivity|].
  cbn [skip_ws]. destruct (is_ws c) eqn:E.
  - cbn [trim_left]. rewrite (is_ws_is_space _ E). exact IH.
  - reflexivity.
Qed.
Print Assumptions trim_left_skip_ws.
