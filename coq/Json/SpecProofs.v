(* The Go JSON parser model (Json/Parse.v) against the RFC 8259 reference
   decoder (Json/Spec.v): property C04.
   Part 1  integers: parse_uint_exact, report_number_nonneg/_neg/_int/_float
   Part 2  strings:  unquote_spec(_fuel)  (unquote = json_unescape on string bodies)
   Part 3  whitespace: is_ws_is_space, is_ws_is_stop, trim_left_skip_ws
   Part 4  documents: sim_all (the step machine simulates json_ref),
           C04_accept_events, C04_accept, C04_number, C04_accept_stream.
   Depends on Core/AdapterProofs.v for [norm] and [stream_tree_flatten]. *)
From SF Require Import Base.Prelude Base.PreludeProofs Base.Utf8 Core.Events Core.EventsProofs Core.AdapterProofs
  Json.Parse Json.Spec.
From Coq Require Import ZifyBool ZifyNat ZifyN.
Open Scope Z_scope.
Ltac Zify.zify_post_hook ::= Z.div_mod_to_equations.

(* ====================================================================== *)
(* Part 1: integers.  parse_uint / report_number against the decimal value *)
(* ====================================================================== *)

Definition all_digits (ds : bytes) : bool := forallb is_dig ds.

Definition dec_acc (ds : bytes) (n : Z) : Z := fold_left (fun a c => a * 10 + (c - 48)) ds n.

Lemma dec_value_acc ds : dec_value ds = dec_acc ds 0.
Proof. reflexivity. Qed.

Lemma dec_acc_cons c r n : dec_acc (c :: r) n = dec_acc r (n * 10 + (c - 48)).
Proof. reflexivity. Qed.

Lemma is_dig_digit c : is_dig c = is_digit c.
Proof. reflexivity. Qed.

Lemma is_dig_range c : is_dig c = true -> 48 <= c <= 57.
Proof. unfold is_dig. lia. Qed.

Lemma dec_acc_ge ds : forall n, all_digits ds = true -> 0 <= n -> n <= dec_acc ds n.
Proof.
  induction ds as [|c r IH]; intros n Hd Hn.
  - cbn. lia.
  - cbn [all_digits forallb] in Hd. apply andb_prop in Hd. destruct Hd as [Hc Hr].
    apply is_dig_range in Hc. rewrite dec_acc_cons.
    specialize (IH (n * 10 + (c - 48)) Hr). lia.
Qed.

Lemma dec_value_nonneg ds : all_digits ds = true -> 0 <= dec_value ds.
Proof. intro H. rewrite dec_value_acc. apply dec_acc_ge; [exact H|lia]. Qed.

(* parseUint computes the decimal value exactly, and fails exactly when the
   value does not fit 64 bits *)
Theorem parse_uint_exact ds : forall n, all_digits ds = true -> 0 <= n < 18446744073709551616 ->
  parse_uint ds n =
  if dec_acc ds n <? 18446744073709551616 then Some (dec_acc ds n) else None.
Proof.
  induction ds as [|c r IH]; intros n Hd Hn.
  - cbn [parse_uint dec_acc fold_left].
    destruct (n <? 18446744073709551616) eqn:E; [reflexivity|lia].
  - cbn [all_digits forallb] in Hd. apply andb_prop in Hd. destruct Hd as [Hc Hr].
    apply is_dig_range in Hc. rewrite dec_acc_cons. cbn [parse_uint].
    pose proof (dec_acc_ge r (n * 10 + (c - 48)) Hr ltac:(lia)) as Hge.
    destruct ((c - 48 <? 0) || (c - 48 >? 9)) eqn:E1; [lia|].
    destruct (n >=? 1844674407370955162) eqn:E2.
    { destruct (dec_acc r (n * 10 + (c - 48)) <? 18446744073709551616) eqn:E3; [lia|reflexivity]. }
    destruct (n * 10 + (c - 48) >? 18446744073709551615) eqn:E3.
    { destruct (dec_acc r (n * 10 + (c - 48)) <? 18446744073709551616) eqn:E4; [lia|reflexivity]. }
    apply IH; [exact Hr|lia].
Qed.
Print Assumptions parse_uint_exact.

Corollary parse_uint_value ds : all_digits ds = true ->
  parse_uint ds 0 = if dec_value ds <? 18446744073709551616 then Some (dec_value ds) else None.
Proof. intro H. rewrite dec_value_acc. apply parse_uint_exact; [exact H|lia]. Qed.

(* what reportNumber delivers for an integer literal *)
Definition int_report (s : sink) (k : nkind) (z : Z) : option (sink * Z) :=
  Some (jvis s (EVal (SNum k z))).

Lemma jvis_pair s e : (let '(s1, x) := jvis s e in Some (s1, x)) = Some (jvis s e).
Proof. destruct (jvis s e). reflexivity. Qed.

(* non-negative literals d1..dn, n >= 1 *)
Theorem report_number_nonneg pf s ds : ds <> [] -> all_digits ds = true ->
  report_number pf s ds false =
  let z := dec_value ds in
  if z <? 9223372036854775808 then int_report s KInt64 z
  else if z <? 18446744073709551616 then int_report s KUint64 z
  else Some (s, jeGeneric).
Proof.
  intros Hne Hd. destruct ds as [|c r]; [congruence|].
  pose proof (dec_value_nonneg _ Hd) as Hnn.
  pose proof Hd as Hd'. cbn [all_digits forallb] in Hd'. apply andb_prop in Hd'. destruct Hd' as [Hc _].
  apply is_dig_range in Hc.
  unfold report_number.
  replace (c =? 45) with false by lia. replace (c =? 43) with false by lia.
  cbn [orb negb andb]. cbv zeta. cbn iota. rewrite (parse_uint_value _ Hd).
  destruct (dec_value (c :: r) <? 18446744073709551616) eqn:E1.
  - destruct (dec_value (c :: r) >? 9223372036854775807) eqn:E2.
    + replace (dec_value (c :: r) <? 9223372036854775808) with false by lia.
      rewrite jvis_pair. reflexivity.
    + replace (dec_value (c :: r) <? 9223372036854775808) with true by lia.
      rewrite jvis_pair. reflexivity.
  - replace (dec_value (c :: r) <? 9223372036854775808) with false by lia. reflexivity.
Qed.
Print Assumptions report_number_nonneg.

(* a sign without digits ("-", "+") is no number (strconv.ParseInt reports a syntax error;
   before the repair of reportNumber the lone sign was delivered as the integer 0) *)
Theorem report_number_lone_sign pf s c : c = 45 \/ c = 43 ->
  report_number pf s [c] false = Some (s, jeGeneric).
Proof. intros [-> | ->]; reflexivity. Qed.
Print Assumptions report_number_lone_sign.

(* negative literals -d1..dn, n >= 1 *)
Theorem report_number_neg pf s ds : ds <> [] -> all_digits ds = true ->
  report_number pf s (45 :: ds) false =
  let z := dec_value ds in
  if z <=? 9223372036854775808 then int_report s KInt64 (- z)
  else Some (s, jeGeneric).
Proof.
  intros Hne Hd. pose proof (dec_value_nonneg _ Hd) as Hnn.
  unfold report_number.
  replace (45 =? 45) with true by reflexivity. replace (45 =? 43) with false by reflexivity.
  cbn [orb negb andb]. cbv zeta.
  match goal with |- match ds with [] => _ | _ :: _ => ?x end = _ =>
    transitivity x; [destruct ds; [congruence|reflexivity]|] end.
  rewrite (parse_uint_value _ Hd).
  destruct (dec_value ds <? 18446744073709551616) eqn:E1.
  - destruct (dec_value ds >? 9223372036854775808) eqn:E2.
    + replace (dec_value ds <=? 9223372036854775808) with false by lia. reflexivity.
    + replace (dec_value ds <=? 9223372036854775808) with true by lia.
      rewrite jvis_pair. reflexivity.
  - replace (dec_value ds <=? 9223372036854775808) with false by lia. reflexivity.
Qed.
Print Assumptions report_number_neg.

(* the spec's integer literals: [ minus ] digits.  Exactly the value, with the
   kind fixed by the range; out-of-range literals are rejected, never
   reported as another number. *)
Definition int_kind (z : Z) : nkind := if z <? 9223372036854775808 then KInt64 else KUint64.

Theorem report_number_int pf s lit :
  (exists ds, ds <> [] /\ all_digits ds = true /\ (lit = ds \/ lit = 45 :: ds)) ->
  report_number pf s lit false =
  match json_num_value pf lit true with
  | Some (CInt z) => int_report s (int_kind z) z
  | _ => Some (s, jeGeneric)
  end.
Proof.
  intros (ds & Hne & Hd & [-> | ->]).
  - rewrite (report_number_nonneg pf s ds Hne Hd). cbv zeta.
    pose proof (dec_value_nonneg _ Hd) as Hnn.
    destruct ds as [|c r]; [congruence|].
    pose proof Hd as Hd'. cbn [all_digits forallb] in Hd'. apply andb_prop in Hd'. destruct Hd' as [Hc _].
    apply is_dig_range in Hc.
    unfold json_num_value, int_value. replace (c =? 45) with false by lia.
    unfold int_kind.
    destruct (dec_value (c :: r) <? 9223372036854775808) eqn:E1.
    + replace ((-9223372036854775808 <=? dec_value (c :: r)) && (dec_value (c :: r) <? 18446744073709551616)) with true by lia.
      rewrite E1. reflexivity.
    + destruct (dec_value (c :: r) <? 18446744073709551616) eqn:E2.
      * replace ((-9223372036854775808 <=? dec_value (c :: r)) && true) with true by lia.
        rewrite E1. reflexivity.
      * rewrite andb_false_r. reflexivity.
  - rewrite (report_number_neg pf s ds Hne Hd). cbv zeta.
    pose proof (dec_value_nonneg _ Hd) as Hnn.
    unfold json_num_value, int_value. replace (45 =? 45) with true by reflexivity.
    unfold int_kind.
    destruct (dec_value ds <=? 9223372036854775808) eqn:E1.
    + replace ((-9223372036854775808 <=? - dec_value ds) && (- dec_value ds <? 18446744073709551616)) with true by lia.
      replace (- dec_value ds <? 9223372036854775808) with true by lia. reflexivity.
    + replace ((-9223372036854775808 <=? - dec_value ds) && (- dec_value ds <? 18446744073709551616)) with false by lia.
      reflexivity.
Qed.
Print Assumptions report_number_int.

(* the float path is the oracle on the same bytes *)
Theorem report_number_float pf s lit :
  report_number pf s lit true =
  match json_num_value pf lit false with
  | Some (CF64 bits) => Some (jvis s (EVal (SNum KFloat64 bits)))
  | _ => Some (s, jeGeneric)
  end.
Proof.
  unfold report_number, json_num_value. destruct (pf lit) as [bits|]; [|reflexivity].
  rewrite jvis_pair. reflexivity.
Qed.
Print Assumptions report_number_float.

(* ====================================================================== *)
(* Part 2: strings.  unquote against json_unescape                         *)
(* ====================================================================== *)
(* unquote receives the string body, i.e. the token without the two
   quotation marks (do_string: content = tok[1 : len(tok)-1]). *)

(* a byte that both sides copy *)
Definition plain (c : Z) : bool := negb ((c =? 92) || (c =? 34) || (c <? 32)).
Arguments plain : simpl never.

Lemma json_char_plain c r : plain c = true -> json_char (c :: r) = ChOk [c] r.
Proof.
  unfold plain, json_char. intro H.
  replace (c =? 92) with false by lia. replace ((c =? 34) || (c <? 32)) with false by lia. reflexivity.
Qed.

Lemma unescape_plain_prefix l : forall fu r out, forallb plain l = true ->
  json_unescape_loop fu (l ++ r) = Some out ->
  exists fu' t, json_unescape_loop fu' r = Some t /\ out = l ++ t.
Proof.
  induction l as [|c l IH]; intros fu r out Hp H.
  - exists fu, out. split; [exact H|reflexivity].
  - cbn [forallb] in Hp. apply andb_prop in Hp. destruct Hp as [Hc Hl].
    destruct fu as [|fu]; [discriminate|].
    cbn [app json_unescape_loop] in H.
    rewrite (json_char_plain _ _ Hc) in H.
    replace (c =? 34) with false in H by (unfold plain in Hc; lia).
    destruct (json_unescape_loop fu (l ++ r)) as [t0|] eqn:E; [|discriminate].
    destruct (IH fu r t0 Hl E) as (fu' & t & Ht & ->).
    exists fu', t. split; [exact Ht|]. injection H as <-. reflexivity.
Qed.

Lemma unescape_nil fu t : json_unescape_loop fu [] = Some t -> t = [].
Proof. destruct fu; cbn; congruence. Qed.

(* utf8.DecodeRune on a lead byte >= 0x80: the bytes it covers are all >= 0x80 *)
Ltac dr_fin :=
  cbn [snd]; change (Z.to_nat 1) with 1%nat; change (Z.to_nat 2) with 2%nat;
  change (Z.to_nat 3) with 3%nat; change (Z.to_nat 4) with 4%nat; cbn [firstn forallb length].

Lemma decode_rune_high c r : 128 <= c ->
  let sz := Z.to_nat (snd (decode_rune (c :: r))) in
  (1 <= sz <= length (c :: r))%nat /\ forallb plain (firstn sz (c :: r)) = true.
Proof.
  intro Hc. cbv zeta. unfold decode_rune.
  assert (P1 : forall x, 128 <= x -> plain x = true) by (intros x Hx; unfold plain; lia).
  replace (c <? 128) with false by lia.
  destruct ((c <? 194) || (244 <? c)).
  { dr_fin. rewrite (P1 c Hc). split; [lia|reflexivity]. }
  destruct (c <? 224).
  { destruct r as [|b1 r].
    - dr_fin. rewrite (P1 c Hc). split; [lia|reflexivity].
    - destruct (cont_byte b1) eqn:E.
      + unfold cont_byte in E. dr_fin. rewrite (P1 c Hc), (P1 b1) by lia. split; [lia|reflexivity].
      + dr_fin. rewrite (P1 c Hc). split; [lia|reflexivity]. }
  destruct (c <? 240).
  { destruct r as [|b1 [|b2 r]]; try (dr_fin; rewrite (P1 c Hc); split; [lia|reflexivity]).
    destruct ((((if c =? 224 then 160 else 128) <=? b1) && (b1 <=? (if c =? 237 then 159 else 191))) && cont_byte b2) eqn:E.
    - unfold cont_byte in E.
      assert (128 <= b1) by (destruct (c =? 224); lia).
      dr_fin. rewrite (P1 c Hc), (P1 b1), (P1 b2) by lia. split; [lia|reflexivity].
    - dr_fin. rewrite (P1 c Hc). split; [lia|reflexivity]. }
  destruct r as [|b1 [|b2 [|b3 r]]]; try (dr_fin; rewrite (P1 c Hc); split; [lia|reflexivity]).
  destruct (((((if c =? 240 then 144 else 128) <=? b1) && (b1 <=? (if c =? 244 then 143 else 191))) && cont_byte b2) && cont_byte b3) eqn:E.
  - unfold cont_byte in E.
    assert (128 <= b1) by (destruct (c =? 240); lia).
    dr_fin. rewrite (P1 c Hc), (P1 b1), (P1 b2), (P1 b3) by lia. split; [lia|reflexivity].
  - dr_fin. rewrite (P1 c Hc). split; [lia|reflexivity].
Qed.

Lemma firstn_plus {A} (a b : nat) (l : list A) :
  firstn (a + b) l = firstn a l ++ firstn b (skipn a l).
Proof.
  revert l. induction a as [|a IH]; intro l; [reflexivity|].
  destruct l as [|x l]; [cbn; rewrite firstn_nil; reflexivity|].
  cbn [Nat.add firstn skipn app]. rewrite IH. reflexivity.
Qed.

(* the first loop of unquote stops inside the string, on plain bytes only *)
Lemma plain_prefix_spec f : forall s,
  (plain_prefix f s <= length s)%nat /\ forallb plain (firstn (plain_prefix f s) s) = true.
Proof.
  induction f as [|f IH]; intro s; [cbn; split; [lia|reflexivity]|].
  destruct s as [|c r]; [cbn; split; [lia|reflexivity]|].
  cbn [plain_prefix].
  destruct ((c =? 92) || (c =? 34) || (c <? 32)) eqn:E1; [cbn; split; [lia|reflexivity]|].
  destruct (c <? 128) eqn:E2.
  - destruct (IH r) as [L P]. cbn [length firstn forallb]. split; [lia|].
    rewrite P. unfold plain. rewrite E1. reflexivity.
  - pose proof (decode_rune_high c r ltac:(lia)) as H. cbv zeta in H.
    destruct (decode_rune (c :: r)) as [ru sz] eqn:ED. cbn [snd] in H. destruct H as [Hsz Hp].
    destruct ((ru =? rune_error) && (sz =? 1)); [cbn; split; [lia|reflexivity]|].
    destruct (IH (skipn (Z.to_nat sz) (c :: r))) as [L P].
    rewrite skipn_length in L. split; [lia|].
    rewrite firstn_plus, forallb_app, Hp, P. reflexivity.
Qed.

(* hex4 against strconv.ParseUint on four bytes *)
Lemma hex4_parse l : (4 <= length l)%nat ->
  parse_hex4 (firstn 4 l) = match hex4 l with HexOk c _ => Some c | _ => None end.
Proof.
  intro H. destruct l as [|a [|b [|c [|d r]]]]; cbn [length] in H; try lia.
  cbn [firstn parse_hex4 hex4].
  destruct (hexval a), (hexval b), (hexval c), (hexval d); reflexivity.
Qed.

Lemma hex4_ok l code r3 : hex4 l = HexOk code r3 ->
  (4 <= length l)%nat /\ skipn 4 l = r3 /\ parse_hex4 (firstn 4 l) = Some code.
Proof.
  intro H. destruct l as [|a [|b [|c [|d r]]]];
    try (unfold hex4 in H; destruct (forallb is_hex _); discriminate).
  split; [cbn; lia|]. rewrite hex4_parse by (cbn; lia). rewrite H.
  split; [|reflexivity].
  cbn [hex4] in H. destruct (hexval a), (hexval b), (hexval c), (hexval d); try discriminate.
  injection H as _ <-. reflexivity.
Qed.

Lemma surrogate_split c : is_surrogate c = is_high_surrogate c || is_low_surrogate c.
Proof. unfold is_surrogate, is_high_surrogate, is_low_surrogate. lia. Qed.

Lemma utf16_pair hi lo : is_high_surrogate hi = true -> is_low_surrogate lo = true ->
  (utf16_decode hi lo =? rune_error) = false.
Proof.
  unfold is_high_surrogate, is_low_surrogate, utf16_decode, rune_error. intros H1 H2.
  replace ((55296 <=? hi) && (hi <? 56320) && (56320 <=? lo) && (lo <? 57344)) with true by lia. lia.
Qed.

Lemma utf16_nopair hi lo : is_high_surrogate hi && is_low_surrogate lo = false ->
  utf16_decode hi lo = rune_error.
Proof.
  unfold is_high_surrogate, is_low_surrogate, utf16_decode. intros H.
  replace ((55296 <=? hi) && (hi <? 56320) && (56320 <=? lo) && (lo <? 57344)) with false by lia. reflexivity.
Qed.

(* the surrogate look-ahead of unquote, isolated *)
Definition go_pair (code : Z) (r3 : bytes) : Z * bytes :=
  let valid := (6 <=? zlen r3) && (nth 0 r3 0 =? 92) && (nth 1 r3 0 =? 117) in
  if valid then
    match parse_hex4 (firstn 4 (skipn 2 r3)) with
    | Some code2 =>
        let d := utf16_decode code code2 in
        if d =? rune_error then (rune_error, r3) else (d, skipn 6 r3)
    | None => (rune_error, r3)
    end
  else (rune_error, r3).

Lemma go_pair_spec code r3 : is_surrogate code = true ->
  go_pair code r3 =
  if is_high_surrogate code then
    match low_escape r3 with
    | Some (lo, r4) => (utf16_decode code lo, r4)
    | None => (rune_error, r3)
    end
  else (rune_error, r3).
Proof.
  intro Hs. unfold go_pair. cbv zeta.
  destruct ((6 <=? zlen r3) && (nth 0 r3 0 =? 92) && (nth 1 r3 0 =? 117)) eqn:V.
  - destruct r3 as [|c1 [|c2 l]]; try (unfold zlen in V; cbn in V; lia).
    cbn [nth] in V. assert (Hl : (4 <= length l)%nat) by (unfold zlen in V; cbn [length] in V; lia).
    cbn [skipn]. rewrite (hex4_parse l Hl).
    unfold low_escape. replace ((c1 =? 92) && (c2 =? 117)) with true by lia.
    destruct (hex4 l) as [lo r'| |] eqn:EH.
    + destruct (hex4_ok _ _ _ EH) as (_ & Hsk & _).
      destruct (is_high_surrogate code) eqn:Hh.
      * destruct (is_low_surrogate lo) eqn:Hlo.
        -- rewrite (utf16_pair _ _ Hh Hlo). f_equal. change (skipn 6 (c1 :: c2 :: l)) with (skipn 4 l). exact Hsk.
        -- rewrite utf16_nopair by (rewrite Hh, Hlo; reflexivity). reflexivity.
      * rewrite utf16_nopair by (rewrite Hh; reflexivity). reflexivity.
    + destruct (is_high_surrogate code); reflexivity.
    + destruct (is_high_surrogate code); reflexivity.
  - destruct (is_high_surrogate code); [|reflexivity].
    unfold low_escape. destruct r3 as [|c1 [|c2 l]]; try reflexivity.
    destruct ((c1 =? 92) && (c2 =? 117)) eqn:E; [|reflexivity].
    cbn [nth] in V.
    assert (Hl : (length l < 4)%nat) by (unfold zlen in V; cbn [length] in V; lia).
    destruct l as [|h1 [|h2 [|h3 [|h4 l]]]]; try (cbn [length] in Hl; lia);
      unfold hex4; destruct (forallb is_hex _); reflexivity.
Qed.

Lemma low_escape_length r3 lo r4 : low_escape r3 = Some (lo, r4) -> (length r4 < length r3)%nat.
Proof.
  unfold low_escape. destruct r3 as [|c1 [|c2 l]]; try discriminate.
  destruct ((c1 =? 92) && (c2 =? 117)); [|discriminate].
  destruct (hex4 l) as [lo' r'| |] eqn:EH; try discriminate.
  destruct (is_low_surrogate lo'); [|discriminate]. intro H. injection H as _ <-.
  destruct (hex4_ok _ _ _ EH) as (L & Hsk & _). subst r'. rewrite skipn_length. cbn [length]. lia.
Qed.

(* unquote_loop, one \u escape: restated with go_pair *)
Lemma unquote_loop_u f r2 racc :
  unquote_loop (S f) (92 :: 117 :: r2) racc =
  if zlen r2 <? 4 then UQErr else
  match parse_hex4 (firstn 4 r2) with
  | None => UQErr
  | Some code =>
      let r3 := skipn 4 r2 in
      if is_surrogate code then
        let '(ru, r4) := go_pair code r3 in unquote_loop f r4 (rev (encode_rune ru) ++ racc)
      else unquote_loop f r3 (rev (encode_rune code) ++ racc)
  end.
Proof. reflexivity. Qed.

Lemma unquote_loop_simple f x r2 racc y :
  (x =? 34) || (x =? 92) || (x =? 47) || (x =? 39) = false ->
  (if x =? 98 then Some 8 else if x =? 102 then Some 12 else if x =? 110 then Some 10
   else if x =? 114 then Some 13 else if x =? 116 then Some 9 else None) = Some y ->
  unquote_loop (S f) (92 :: x :: r2) racc = unquote_loop f r2 (y :: racc).
Proof.
  intros H1 H2. cbn [unquote_loop]. change (92 =? 92) with true. cbv iota. rewrite H1.
  destruct (x =? 98); [injection H2 as <-; reflexivity|].
  destruct (x =? 102); [injection H2 as <-; reflexivity|].
  destruct (x =? 110); [injection H2 as <-; reflexivity|].
  destruct (x =? 114); [injection H2 as <-; reflexivity|].
  destruct (x =? 116); [injection H2 as <-; reflexivity|discriminate].
Qed.

Lemma unquote_loop_self f x r2 racc :
  (x =? 34) || (x =? 92) || (x =? 47) = true ->
  unquote_loop (S f) (92 :: x :: r2) racc = unquote_loop f r2 (x :: racc).
Proof.
  intros H1. cbn [unquote_loop]. change (92 =? 92) with true. cbv iota.
  replace ((x =? 34) || (x =? 92) || (x =? 47) || (x =? 39)) with true by lia. reflexivity.
Qed.

#[local] Opaque encode_rune.

(* the second loop of unquote computes json_unescape *)
Lemma unquote_loop_spec f : forall s racc fu out,
  json_unescape_loop fu s = Some out -> (length s < f)%nat ->
  unquote_loop f s racc = UQ (rev racc ++ out).
Proof.
  induction f as [|f IH]; intros s racc fu out Hu Hl; [lia|].
  destruct fu as [|fu]; [discriminate|].
  destruct s as [|c r].
  { cbn in Hu. injection Hu as <-. cbn. rewrite app_nil_r. reflexivity. }
  cbn [json_unescape_loop] in Hu.
  destruct (c =? 34) eqn:Eq; [discriminate|].
  destruct (json_char (c :: r)) as [o rest| |] eqn:EC; try discriminate.
  destruct (json_unescape_loop fu rest) as [t|] eqn:ER; [|discriminate].
  injection Hu as <-.
  cbn [length] in Hl.
  unfold json_char in EC.
  destruct (c =? 92) eqn:E92.
  - (* escape *)
    assert (c = 92) by lia. subst c.
    unfold json_escape in EC. destruct r as [|x r2]; [discriminate|].
    cbn [length] in Hl.
    assert (K : forall y, o = [y] -> rest = r2 ->
              unquote_loop f r2 (y :: racc) = UQ (rev racc ++ o ++ t)).
    { intros y -> ->. rewrite (IH r2 (y :: racc) fu t ER) by lia.
      cbn [rev app]. rewrite <- app_assoc. reflexivity. }
    destruct (x =? 34) eqn:X1.
    { injection EC as <- <-. rewrite unquote_loop_self by lia. assert (x = 34) by lia; subst x. apply K; reflexivity. }
    destruct (x =? 92) eqn:X2.
    { injection EC as <- <-. rewrite unquote_loop_self by lia. assert (x = 92) by lia; subst x. apply K; reflexivity. }
    destruct (x =? 47) eqn:X3.
    { injection EC as <- <-. rewrite unquote_loop_self by lia. assert (x = 47) by lia; subst x. apply K; reflexivity. }
    destruct (x =? 98) eqn:X4.
    { injection EC as <- <-. rewrite (unquote_loop_simple f x r2 racc 8); [apply K; reflexivity|lia|rewrite X4; reflexivity]. }
    destruct (x =? 102) eqn:X5.
    { injection EC as <- <-. rewrite (unquote_loop_simple f x r2 racc 12); [apply K; reflexivity|lia|rewrite X4, X5; reflexivity]. }
    destruct (x =? 110) eqn:X6.
    { injection EC as <- <-. rewrite (unquote_loop_simple f x r2 racc 10); [apply K; reflexivity|lia|rewrite X4, X5, X6; reflexivity]. }
    destruct (x =? 114) eqn:X7.
    { injection EC as <- <-. rewrite (unquote_loop_simple f x r2 racc 13); [apply K; reflexivity|lia|rewrite X4, X5, X6, X7; reflexivity]. }
    destruct (x =? 116) eqn:X8.
    { injection EC as <- <-. rewrite (unquote_loop_simple f x r2 racc 9); [apply K; reflexivity|lia|rewrite X4, X5, X6, X7, X8; reflexivity]. }
    destruct (x =? 117) eqn:X9; [|discriminate].
    assert (x = 117) by lia. subst x.
    destruct (hex4 r2) as [code r3| |] eqn:EH; try discriminate.
    destruct (hex4_ok _ _ _ EH) as (L4 & Hsk & Hph).
    rewrite unquote_loop_u. replace (zlen r2 <? 4) with false by (unfold zlen; lia).
    rewrite Hph, Hsk. cbv zeta.
    assert (L3 : (length r3 <= length r2)%nat) by (subst r3; rewrite skipn_length; lia).
    assert (K2 : forall ru r4, o = encode_rune ru -> rest = r4 -> (length r4 <= length r3)%nat ->
              unquote_loop f r4 (rev (encode_rune ru) ++ racc) = UQ (rev racc ++ o ++ t)).
    { intros ru r4 -> -> L. rewrite (IH r4 _ fu t ER) by lia.
      rewrite rev_app_distr, rev_involutive, <- app_assoc. reflexivity. }
    rewrite surrogate_split.
    destruct (is_high_surrogate code) eqn:Hh.
    + cbn [orb]. rewrite go_pair_spec by (rewrite surrogate_split, Hh; reflexivity). rewrite Hh.
      destruct (low_escape r3) as [[lo r4]|] eqn:EL.
      * injection EC as <- <-. apply K2; [reflexivity|reflexivity|].
        apply low_escape_length in EL. lia.
      * injection EC as <- <-. apply K2; [reflexivity|reflexivity|lia].
    + cbn [orb]. destruct (is_low_surrogate code) eqn:Hlo.
      * rewrite go_pair_spec by (rewrite surrogate_split, Hh, Hlo; reflexivity). rewrite Hh.
        injection EC as <- <-. apply K2; [reflexivity|reflexivity|lia].
      * injection EC as <- <-. apply K2; [reflexivity|reflexivity|lia].
  - (* unescaped *)
    destruct ((c =? 34) || (c <? 32)) eqn:E2; [discriminate|]. injection EC as <- <-.
    cbn [unquote_loop]. rewrite E92, E2.
    destruct (c <? 128) eqn:E3.
    + rewrite (IH r (c :: racc) fu t ER) by lia. cbn [rev app]. rewrite <- app_assoc. reflexivity.
    + pose proof (decode_rune_high c r ltac:(lia)) as H. cbv zeta in H.
      destruct (decode_rune (c :: r)) as [ru sz] eqn:ED. cbn [snd] in H. destruct H as [Hsz Hp].
      (* the spec copies the same bytes one at a time *)
      assert (HU : json_unescape_loop (S fu) (firstn (Z.to_nat sz) (c :: r) ++ skipn (Z.to_nat sz) (c :: r))
                   = Some ([c] ++ t)).
      { rewrite firstn_skipn. cbn [json_unescape_loop]. rewrite Eq.
        unfold json_char. rewrite E92, E2, ER. reflexivity. }
      destruct (unescape_plain_prefix _ _ _ _ Hp HU) as (fu' & t' & Ht' & Eout).
      rewrite (IH _ _ fu' t' Ht') by (rewrite skipn_length; cbn [length] in *; lia).
      rewrite rev_app_distr, rev_involutive, <- app_assoc. cbn [app] in Eout. cbn [app]. rewrite Eout. reflexivity.
Qed.

(* C04, strings: on every string body of the RFC grammar the Go unquote
   returns the reference unescaping (stated for any fuel of the reference
   loop, then for json_unescape itself) *)
Theorem unquote_spec_fuel fu s out : json_unescape_loop fu s = Some out -> unquote s = UQ out.
Proof.
  unfold unquote. intro Hu.
  destruct (plain_prefix_spec (length s) s) as [Li Pi].
  set (i := plain_prefix (length s) s) in *.
  rewrite <- (firstn_skipn i s) in Hu.
  destruct (unescape_plain_prefix _ _ _ _ Pi Hu) as (fu' & t & Ht & Eout).
  destruct (Nat.eqb i (length s)) eqn:E.
  - apply Nat.eqb_eq in E. rewrite E, skipn_all in Ht. apply unescape_nil in Ht. subst t.
    rewrite E, firstn_all, app_nil_r in Eout. rewrite Eout. reflexivity.
  - rewrite (unquote_loop_spec _ _ _ fu' t Ht) by (rewrite skipn_length; lia).
    rewrite rev_involutive, Eout. reflexivity.
Qed.

Theorem unquote_spec s out : json_unescape s = Some out -> unquote s = UQ out.
Proof. apply unquote_spec_fuel. Qed.
Print Assumptions unquote_spec_fuel.
Print Assumptions unquote_spec.

(* ====================================================================== *)
(* Part 3: whitespace.  The RFC's ws is a subset of what the parser skips  *)
(* ====================================================================== *)
Theorem is_ws_is_space c : is_ws c = true -> is_space c = true.
Proof. unfold is_ws, is_space. lia. Qed.
Print Assumptions is_ws_is_space.

(* the inclusion is strict: VT, FF, NEL and NBSP are skipped by the parser only *)
Example is_space_not_ws : map is_space [11; 12; 133; 160] = [true; true; true; true]
                       /\ map is_ws [11; 12; 133; 160] = [false; false; false; false].
Proof. split; reflexivity. Qed.

Theorem is_ws_is_stop c : is_ws c = true -> is_stop c = true.
Proof. unfold is_ws, is_stop. lia. Qed.

Theorem trim_left_skip_ws b : trim_left b = trim_left (skip_ws b).
Proof.
  induction b as [|c r IH]; [reflexivity|].
  cbn [skip_ws]. destruct (is_ws c) eqn:E.
  - cbn [trim_left]. rewrite (is_ws_is_space _ E). exact IH.
  - reflexivity.
Qed.
Print Assumptions trim_left_skip_ws.

(* ====================================================================== *)
(* Part 4: the parser run against json_ref                                 *)
(* ====================================================================== *)

(* ---------- 4.0 recording sinks that never fail ---------- *)
Definition sapp (s : sink) (evs : list event) : sink :=
  {| s_rlog := rev evs ++ s_rlog s; s_n := (length evs + s_n s)%nat; s_fail := s_fail s |}.

Lemma sapp_fail s evs : s_fail (sapp s evs) = s_fail s.
Proof. reflexivity. Qed.

Lemma sapp_nil s : sapp s [] = s.
Proof. destruct s. reflexivity. Qed.

Lemma sapp_app s a b : sapp (sapp s a) b = sapp s (a ++ b).
Proof.
  unfold sapp. cbn [s_rlog s_n s_fail]. f_equal.
  - rewrite rev_app_distr, app_assoc. reflexivity.
  - rewrite app_length. lia.
Qed.

Lemma sapp_log s evs : s_log (sapp s evs) = s_log s ++ evs.
Proof. unfold s_log, sapp. cbn [s_rlog]. rewrite rev_app_distr, rev_involutive. reflexivity. Qed.

Lemma jvis_ok s e : s_fail s = None -> jvis s e = (sapp s [e], jpnil).
Proof. intro H. unfold jvis, emit, sapp. rewrite H. reflexivity. Qed.

(* ---------- 4.1 runs of the step function ---------- *)
Definition bonus (p : jparser) : nat :=
  if (jp_cur p =? jDict) || (jp_cur p =? jDictNextField) || (jp_cur p =? jArr) then 1 else 0.
Definition mu (p : jparser) (b : bytes) : nat := (2 * length b + bonus p)%nat.

Lemma bonus_le p : (bonus p <= 1)%nat.
Proof. unfold bonus. destruct (_ || _); lia. Qed.

Inductive jsteps (pf : bytes -> option Z) : jparser -> sink -> bytes -> jparser -> sink -> bytes -> Prop :=
| jsteps_refl p s b : jsteps pf p s b p s b
| jsteps_step p s b p1 s1 b1 rep p2 s2 b2 :
    b <> [] -> (jp_cur p =? jFailed) = false ->
    jstep pf p s b = JS p1 s1 b1 rep jpnil ->
    (mu p1 b1 < mu p b)%nat ->
    jsteps pf p1 s1 b1 p2 s2 b2 -> jsteps pf p s b p2 s2 b2.

Lemma jsteps_trans pf p s b p1 s1 b1 p2 s2 b2 :
  jsteps pf p s b p1 s1 b1 -> jsteps pf p1 s1 b1 p2 s2 b2 -> jsteps pf p s b p2 s2 b2.
Proof.
  induction 1 as [|p s b pa sa ba rep pb sb bb Hne Hnf Hst Hmu Hrest IH]; intro H2; [exact H2|].
  eapply jsteps_step; eauto.
Qed.

Lemma jsteps_one pf p s b p1 s1 b1 rep :
  b <> [] -> (jp_cur p =? jFailed) = false ->
  jstep pf p s b = JS p1 s1 b1 rep jpnil -> (mu p1 b1 < mu p b)%nat ->
  jsteps pf p s b p1 s1 b1.
Proof. intros. eapply jsteps_step; eauto. apply jsteps_refl. Qed.

Lemma zlen_nil_iff {A} (l : list A) : (zlen l =? 0) = true <-> l = [].
Proof. unfold zlen. destruct l; cbn [length]; split; intro H; try reflexivity; try discriminate; lia. Qed.

Lemma zlen_pos_false {A} (l : list A) : l <> [] -> (zlen l =? 0) = false.
Proof. intro H. destruct (zlen l =? 0) eqn:E; [|reflexivity]. apply zlen_nil_iff in E. contradiction. Qed.

(* feedUntil follows a run until it returns *)
Lemma jfeed_until_steps pf p' s' orig : forall G p s b,
  jsteps pf p s b p' s' [] -> (mu p b < G)%nat -> b <> [] ->
  exists p1 s1 b1 rep,
    jfeed_until G pf p s b orig = Ok (JS p1 s1 b1 rep jpnil) /\
    jsteps pf p1 s1 b1 p' s' [] /\ (mu p1 b1 < mu p b)%nat.
Proof.
  induction G as [|G IH]; intros p s b Hrun HG Hne; [lia|].
  inversion Hrun as [|p0 s0 b0 p1 s1 b1 rep p2 s2 b2 Hne' Hnf Hst Hmu Hrest]; subst; [congruence|].
  cbn [jfeed_until]. rewrite (zlen_pos_false _ Hne), Hst, Hnf.
  change (negb (jisnil jpnil)) with false. cbv iota.
  destruct (rep && (zlen (jp_states p1) =? 0)) eqn:R.
  - exists p1, s1, b1, true. auto.
  - destruct b1 as [|c1 r1].
    + destruct G as [|G]; [lia|]. exists p1, s1, [], false. cbn [jfeed_until]. auto.
    + destruct (IH p1 s1 (c1 :: r1) Hrest ltac:(lia) ltac:(discriminate)) as (pa & sa & ba & ra & E & Hr & Hm).
      exists pa, sa, ba, ra. split; [exact E|]. split; [exact Hr|lia].
Qed.

Lemma jsteps_nil_inv pf p s p' s' b' : jsteps pf p s [] p' s' b' -> p' = p /\ s' = s /\ b' = [].
Proof. intro H. inversion H; subst; [auto|congruence]. Qed.

Lemma jfeed_steps pf p' s' : forall F p s b,
  jsteps pf p s b p' s' [] -> (mu p b < F)%nat ->
  jfeed F pf p s b = Ok (p', s', jpnil).
Proof.
  induction F as [|F IH]; intros p s b Hrun HF; [lia|].
  cbn [jfeed]. destruct b as [|c r].
  - apply jsteps_nil_inv in Hrun. destruct Hrun as (-> & -> & _). reflexivity.
  - replace (zlen (c :: r) >? 0) with true by (unfold zlen; cbn [length]; lia).
    assert (HG : (mu p (c :: r) < jfeed_fuel (c :: r))%nat).
    { unfold mu, jfeed_fuel. pose proof (bonus_le p). lia. }
    destruct (jfeed_until_steps pf p' s' (c :: r) _ p s (c :: r) Hrun HG ltac:(discriminate))
      as (p1 & s1 & b1 & rep & E & Hr & Hm).
    rewrite E. change (jisnil jpnil) with true. cbv iota.
    apply IH; [exact Hr|lia].
Qed.

(* Parser.Parse on a fresh parser *)
Lemma jrun_parse_steps pf b p' s' :
  jsteps pf jparser0 (sink0 None) b p' s' [] ->
  jrun_parse pf None b =
  match with_final pf p' s' with
  | Ok (p, s, err) => Ok (s_log s, err, p)
  | Err e => Err e | Panic w => Panic w | OutOfFuel => OutOfFuel
  end.
Proof.
  intro H. unfold jrun_parse, jp_parse.
  change (jset_cur (jset_lit {| jp_cur := jp_cur jparser0; jp_states := []; jp_lit := jp_lit jparser0;
            jp_inesc := jp_inesc jparser0; jp_isdbl := jp_isdbl jparser0; jp_req := jp_req jparser0;
            jp_err := jp_err jparser0 |} []) jStart) with jparser0.
  rewrite (jfeed_steps pf p' s' _ _ _ _ H) by (unfold mu, bonus; cbn; lia).
  change (jisnil jpnil) with true. cbv iota. reflexivity.
Qed.

(* ---------- 4.2 list helpers ---------- *)
Lemma skipn_app_len {A} (a l : list A) k : skipn (length a + k) (a ++ l) = skipn k l.
Proof. induction a as [|x a IH]; [reflexivity|]. cbn [length Nat.add app skipn]. exact IH. Qed.

Lemma firstn_app_len {A} (a l : list A) k : firstn (length a + k) (a ++ l) = a ++ firstn k l.
Proof. induction a as [|x a IH]; [reflexivity|]. cbn [length Nat.add app firstn]. rewrite IH. reflexivity. Qed.

Lemma all_bytes_app a b : all_bytes (a ++ b) = all_bytes a && all_bytes b.
Proof. apply forallb_app. Qed.

Lemma all_bytes_rev l : all_bytes (rev l) = all_bytes l.
Proof.
  induction l as [|x l IH]; [reflexivity|].
  cbn [rev]. rewrite all_bytes_app, IH. cbn [all_bytes forallb]. rewrite andb_true_r. apply andb_comm.
Qed.

(* ---------- 4.3 strings: the reference lexer finds the token the parser finds ---------- *)
Definition skippable (l : bytes) : Prop :=
  forall x i, scan_quote (l ++ x) false i = scan_quote x false (i + length l)%nat.

Lemma skippable_nil : skippable [].
Proof. intros x i. cbn [app length]. rewrite Nat.add_0_r. reflexivity. Qed.

Lemma skippable_app a b : skippable a -> skippable b -> skippable (a ++ b).
Proof.
  intros Ha Hb x i. rewrite <- app_assoc, Ha, Hb, app_length. f_equal. lia.
Qed.

Lemma skippable_plain c : (c =? 34) = false -> (c =? 92) = false -> skippable [c].
Proof.
  intros H1 H2 x i. cbn [app scan_quote length]. rewrite H1, H2. f_equal. lia.
Qed.

Lemma skippable_esc x0 : skippable [92; x0].
Proof.
  intros x i. cbn [app scan_quote length]. change (92 =? 34) with false. change (92 =? 92) with true.
  cbv iota. f_equal. lia.
Qed.

Lemma hexval_noq h v : hexval h = Some v -> (h =? 34) = false /\ (h =? 92) = false.
Proof.
  unfold hexval. destruct ((48 <=? h) && (h <=? 57)) eqn:E1; [lia|].
  destruct ((97 <=? h) && (h <=? 102)) eqn:E2; [lia|].
  destruct ((65 <=? h) && (h <=? 70)) eqn:E3; [lia|discriminate].
Qed.

Lemma hex4_inv l code r3 : hex4 l = HexOk code r3 ->
  exists h1 h2 h3 h4, l = h1 :: h2 :: h3 :: h4 :: r3 /\
    (forall x, hex4 (h1 :: h2 :: h3 :: h4 :: x) = HexOk code x) /\
    skippable [h1; h2; h3; h4].
Proof.
  intro H. destruct l as [|h1 [|h2 [|h3 [|h4 r]]]];
    try (unfold hex4 in H; destruct (forallb is_hex _); discriminate).
  cbn [hex4] in H.
  destruct (hexval h1) as [x1|] eqn:E1; [|discriminate].
  destruct (hexval h2) as [x2|] eqn:E2; [|discriminate].
  destruct (hexval h3) as [x3|] eqn:E3; [|discriminate].
  destruct (hexval h4) as [x4|] eqn:E4; [|discriminate].
  injection H as <- <-. exists h1, h2, h3, h4. split; [reflexivity|]. split.
  - intro x. cbn [hex4]. rewrite E1, E2, E3, E4. reflexivity.
  - destruct (hexval_noq _ _ E1), (hexval_noq _ _ E2), (hexval_noq _ _ E3), (hexval_noq _ _ E4).
    change [h1; h2; h3; h4] with ([h1] ++ [h2] ++ [h3] ++ [h4]).
    repeat apply skippable_app; apply skippable_plain; assumption.
Qed.

Lemma low_escape_inv r3 lo r4 : low_escape r3 = Some (lo, r4) ->
  exists h1 h2 h3 h4, r3 = 92 :: 117 :: h1 :: h2 :: h3 :: h4 :: r4 /\
    (forall x, low_escape (92 :: 117 :: h1 :: h2 :: h3 :: h4 :: x) = Some (lo, x)) /\
    skippable [92; 117; h1; h2; h3; h4].
Proof.
  unfold low_escape. destruct r3 as [|c1 [|c2 l]]; try discriminate.
  destruct ((c1 =? 92) && (c2 =? 117)) eqn:E; [|discriminate].
  assert (c1 = 92) by lia. assert (c2 = 117) by lia. subst c1 c2.
  destruct (hex4 l) as [lo' r'| |] eqn:EH; try discriminate.
  destruct (is_low_surrogate lo') eqn:EL; [|discriminate]. intro H. injection H as <- <-.
  destruct (hex4_inv _ _ _ EH) as (h1 & h2 & h3 & h4 & -> & Hx & Hs).
  exists h1, h2, h3, h4. split; [reflexivity|]. split.
  - intro x. cbn [andb]. change ((92 =? 92) && (117 =? 117)) with true. cbv iota. rewrite Hx, EL. reflexivity.
  - change [92; 117; h1; h2; h3; h4] with ([92; 117] ++ [h1; h2; h3; h4]).
    apply skippable_app; [apply skippable_esc|exact Hs].
Qed.

Lemma low_escape_none_app y z : low_escape (y ++ 34 :: z) = None -> low_escape y = None.
Proof.
  unfold low_escape. destruct y as [|c1 [|c2 l]]; try reflexivity.
  cbn [app]. destruct ((c1 =? 92) && (c2 =? 117)); [|reflexivity].
  destruct l as [|h1 [|h2 [|h3 [|h4 l]]]];
    try (intros _; unfold hex4; destruct (forallb is_hex _); reflexivity).
  cbn [app hex4].
  destruct (hexval h1), (hexval h2), (hexval h3), (hexval h4); try reflexivity.
  destruct (is_low_surrogate _); [discriminate|reflexivity].
Qed.

#[local] Opaque encode_rune.

Lemma json_char_inv c r' o b' : json_char (c :: r') = ChOk o b' -> (c =? 34) = false ->
  exists cons, c :: r' = cons ++ b' /\ cons <> [] /\ skippable cons /\
    (forall body' rest, b' = body' ++ 34 :: rest -> json_char (cons ++ body') = ChOk o body').
Proof.
  intros H Hq. unfold json_char in H.
  destruct (c =? 92) eqn:E92.
  2:{ destruct ((c =? 34) || (c <? 32)) eqn:E2; [discriminate|]. injection H as <- <-.
      exists [c]. split; [reflexivity|]. split; [discriminate|]. split; [apply skippable_plain; lia|].
      intros body' rest _. cbn [app json_char]. rewrite E92, E2. reflexivity. }
  assert (c = 92) by lia. subst c.
  unfold json_escape in H. destruct r' as [|x r2]; [discriminate|].
  assert (S1 : forall y, (x =? 117) = false -> json_escape (x :: r2) = ChOk [y] r2 ->
     exists cons, 92 :: x :: r2 = cons ++ r2 /\ cons <> [] /\ skippable cons /\
       (forall body' rest, r2 = body' ++ 34 :: rest -> json_char (cons ++ body') = ChOk [y] body')).
  { intros y Hx Hy. exists [92; x]. split; [reflexivity|]. split; [discriminate|]. split; [apply skippable_esc|].
    intros body' rest _. cbn [app json_char]. change (92 =? 92) with true. cbv iota.
    unfold json_escape in *. 
    destruct (x =? 34); [injection Hy as <-; reflexivity|].
    destruct (x =? 92); [injection Hy as <-; reflexivity|].
    destruct (x =? 47); [injection Hy as <-; reflexivity|].
    destruct (x =? 98); [injection Hy as <-; reflexivity|].
    destruct (x =? 102); [injection Hy as <-; reflexivity|].
    destruct (x =? 110); [injection Hy as <-; reflexivity|].
    destruct (x =? 114); [injection Hy as <-; reflexivity|].
    destruct (x =? 116); [injection Hy as <-; reflexivity|].
    rewrite Hx in Hy. discriminate. }
  destruct (x =? 117) eqn:X9.
  2:{ assert (HE : json_escape (x :: r2) = ChOk o b') by (unfold json_escape; rewrite X9; exact H).
      clear H.
      assert (exists y, o = [y] /\ b' = r2) as (y & -> & ->).
      { unfold json_escape in HE. rewrite X9 in HE.
        repeat match type of HE with
               | (if ?c then _ else _) = _ => destruct c; [injection HE as <- <-; eexists; split; reflexivity|]
               end. discriminate. }
      apply (S1 y eq_refl HE). }
  assert (x = 117) by lia. subst x.
  replace (117 =? 34) with false in H by reflexivity. replace (117 =? 92) with false in H by reflexivity.
  replace (117 =? 47) with false in H by reflexivity. replace (117 =? 98) with false in H by reflexivity.
  replace (117 =? 102) with false in H by reflexivity. replace (117 =? 110) with false in H by reflexivity.
  replace (117 =? 114) with false in H by reflexivity. replace (117 =? 116) with false in H by reflexivity.
  replace (117 =? 117) with true in H by reflexivity.
  destruct (hex4 r2) as [code r3| |] eqn:EH; try discriminate.
  destruct (hex4_inv _ _ _ EH) as (h1 & h2 & h3 & h4 & -> & Hx & Hs).
  assert (Hs6 : skippable [92; 117; h1; h2; h3; h4]).
  { change [92; 117; h1; h2; h3; h4] with ([92; 117] ++ [h1; h2; h3; h4]).
    apply skippable_app; [apply skippable_esc|exact Hs]. }
  (* what json_char computes on the six bytes followed by y *)
  assert (J : forall y, json_char (92 :: 117 :: h1 :: h2 :: h3 :: h4 :: y) =
     if is_high_surrogate code then
       match low_escape y with
       | Some (lo, r4) => ChOk (encode_rune (utf16_decode code lo)) r4
       | None => ChOk (encode_rune rune_error) y
       end
     else if is_low_surrogate code then ChOk (encode_rune rune_error) y
     else ChOk (encode_rune code) y).
  { intro y. cbn [json_char]. change (92 =? 92) with true. cbv iota. cbn [json_escape].
    change (117 =? 34) with false. change (117 =? 92) with false. change (117 =? 47) with false.
    change (117 =? 98) with false. change (117 =? 102) with false. change (117 =? 110) with false.
    change (117 =? 114) with false. change (117 =? 116) with false. change (117 =? 117) with true.
    cbv iota. rewrite Hx. reflexivity. }
  destruct (is_high_surrogate code) eqn:Hh.
  - destruct (low_escape r3) as [[lo r4]|] eqn:EL.
    + injection H as <- <-.
      destruct (low_escape_inv _ _ _ EL) as (l1 & l2 & l3 & l4 & -> & Hlx & Hls).
      exists ([92; 117; h1; h2; h3; h4] ++ [92; 117; l1; l2; l3; l4]).
      split; [reflexivity|]. split; [discriminate|]. split; [apply skippable_app; assumption|].
      intros body' rest _. cbn [app]. rewrite J, Hlx. reflexivity.
    + injection H as <- <-.
      exists [92; 117; h1; h2; h3; h4]. split; [reflexivity|]. split; [discriminate|]. split; [exact Hs6|].
      intros body' rest ->. cbn [app]. rewrite J. rewrite (low_escape_none_app _ _ EL). reflexivity.
  - exists [92; 117; h1; h2; h3; h4].
    destruct (is_low_surrogate code) eqn:Hlo; injection H as <- <-;
      (split; [reflexivity|]; split; [discriminate|]; split; [exact Hs6|];
       intros body' rest _; cbn [app]; rewrite J; try rewrite Hlo; reflexivity).
Qed.

Lemma json_string_inv f : forall b racc out rest,
  json_string_loop f b racc = StrOk out rest ->
  exists body t fu, b = body ++ 34 :: rest /\ out = rev racc ++ t /\
    json_unescape_loop fu body = Some t /\
    forall i, scan_quote b false i = (Some (i + length body)%nat, false).
Proof.
  induction f as [|f IH]; intros b racc out rest H; [discriminate|].
  destruct b as [|c r']; [discriminate|]. cbn [json_string_loop] in H.
  destruct (c =? 34) eqn:Eq.
  - injection H as <- <-. assert (c = 34) by lia. subst c.
    exists [], [], 1%nat. split; [reflexivity|]. split; [rewrite app_nil_r; reflexivity|].
    split; [reflexivity|]. intro i. cbn [scan_quote length]. change (34 =? 34) with true.
    rewrite Nat.add_0_r. reflexivity.
  - destruct (json_char (c :: r')) as [o b'| |] eqn:EC; try discriminate.
    destruct (IH _ _ _ _ H) as (body' & t' & fu' & Eb & Eo & Hu & Hs).
    destruct (json_char_inv _ _ _ _ EC Eq) as (cons & Ec & Hne & Hsk & Hloc).
    exists (cons ++ body'), (o ++ t'), (S fu').
    split; [rewrite Ec, Eb, app_assoc; reflexivity|].
    split; [rewrite Eo, rev_app_distr, rev_involutive, app_assoc; reflexivity|].
    split.
    + destruct cons as [|c0 cons']; [congruence|]. injection Ec as <- _.
      cbn [app json_unescape_loop]. rewrite Eq.
      change (c :: cons' ++ body') with ((c :: cons') ++ body').
      rewrite (Hloc body' rest Eb), Hu. reflexivity.
    + intro i. rewrite Ec, Hsk, Hs, app_length. f_equal. f_equal. lia.
Qed.

(* bytes in, bytes out *)
Lemma encode_rune_bytes r : all_bytes (encode_rune r) = true.
Proof.
  Transparent encode_rune.
  unfold encode_rune.
  set (r' := if (r <? 0) || (1114111 <? r) || is_surrogate r then rune_error else r).
  assert (0 <= r' <= 1114111).
  { subst r'. unfold rune_error. destruct ((r <? 0) || (1114111 <? r) || is_surrogate r) eqn:E; lia. }
  unfold all_bytes, is_byte.
  destruct (r' <=? 127) eqn:E1; [cbn [forallb]; lia|].
  destruct (r' <=? 2047) eqn:E2; [cbn [forallb]; lia|].
  destruct (r' <=? 65535) eqn:E3; cbn [forallb]; lia.
  Opaque encode_rune.
Qed.

Lemma json_char_bytes b o b' : json_char b = ChOk o b' -> all_bytes b = true ->
  all_bytes o = true /\ all_bytes b' = true.
Proof.
  intros H Hb. destruct b as [|c r]; [discriminate|].
  destruct (c =? 34) eqn:Eq.
  { unfold json_char in H. destruct (c =? 92) eqn:E; [lia|]. rewrite Eq in H. discriminate. }
  destruct (json_char_inv _ _ _ _ H Eq) as (cons & Ec & _ & _ & _).
  pose proof Hb as Hb0. cbn [all_bytes forallb] in Hb0. apply andb_prop in Hb0. destruct Hb0 as [Hc0 _].
  rewrite Ec, all_bytes_app in Hb. apply andb_prop in Hb. destruct Hb as [Hc Hb']. split; [|exact Hb'].
  unfold json_char in H. destruct (c =? 92) eqn:E92.
  2:{ destruct ((c =? 34) || (c <? 32)); [discriminate|]. injection H as <- _.
      cbn [all_bytes forallb]. rewrite Hc0. reflexivity. }
  unfold json_escape in H. destruct r as [|x r2]; [discriminate|].
  repeat match type of H with
         | (if ?c then ChOk [_] _ else _) = _ => destruct c; [injection H as <- _; reflexivity|]
         end.
  destruct (x =? 117); [|discriminate].
  destruct (hex4 r2) as [code r3| |]; try discriminate.
  destruct (is_high_surrogate code).
  - destruct (low_escape r3) as [[lo r4]|]; injection H as <- _; apply encode_rune_bytes.
  - destruct (is_low_surrogate code); injection H as <- _; apply encode_rune_bytes.
Qed.

Lemma json_string_bytes f : forall b racc out rest,
  json_string_loop f b racc = StrOk out rest -> all_bytes b = true -> all_bytes racc = true ->
  all_bytes out = true /\ all_bytes rest = true.
Proof.
  induction f as [|f IH]; intros b racc out rest H Hb Ha; [discriminate|].
  destruct b as [|c r']; [discriminate|]. cbn [json_string_loop] in H.
  destruct (c =? 34).
  - injection H as <- <-. cbn [all_bytes forallb] in Hb. apply andb_prop in Hb. destruct Hb as [_ Hb].
    split; [|exact Hb]. rewrite all_bytes_rev. exact Ha.
  - destruct (json_char (c :: r')) as [o b'| |] eqn:EC; try discriminate.
    destruct (json_char_bytes _ _ _ EC Hb) as [Ho Hb'].
    apply (IH _ _ _ _ H Hb'). rewrite all_bytes_app, all_bytes_rev, Ho, Ha. reflexivity.
Qed.

(* doString on a complete string token *)
Lemma do_string_ok p body rest out : jp_lit p = [] -> jp_inesc p = false ->
  (forall i, scan_quote (body ++ 34 :: rest) false i = (Some (i + length body)%nat, false)) ->
  unquote body = UQ out ->
  do_string p (34 :: body ++ 34 :: rest) = DSDone (jset_lit (jset_inesc p false) []) out rest.
Proof.
  intros Hl Hi Hs Hu. unfold do_string. rewrite Hl. change (zlen (@nil Z) =? 0) with true. cbv iota.
  rewrite Hi, Hs. cbn [Nat.add]. cbn [jp_lit jset_inesc]. rewrite Hl. cbn [app].
  replace (length body + 2)%nat with (length (34%Z :: body) + 1)%nat by (cbn [length]; lia).
  change (34 :: body ++ 34 :: rest) with ((34 :: body) ++ 34 :: rest).
  rewrite firstn_app_len, skipn_app_len. cbn [firstn skipn].
  replace (zlen ((34 :: body) ++ [34]) <? 2) with false
    by (unfold zlen; rewrite app_length; cbn [length]; lia).
  change ((34 :: body) ++ [34]) with (34 :: (body ++ [34])). cbn [length]. rewrite app_length. cbn [length].
  replace (S (length body + 1) - 2)%nat with (length body + 0)%nat by lia.
  rewrite firstn_app_len. cbn [firstn]. rewrite app_nil_r, Hu. reflexivity.
Qed.

(* ---------- 4.4 numbers: the reference lexer finds the token the parser finds ---------- *)
Definition nostop (l : bytes) : bool := forallb (fun c => negb (is_stop c)) l.
Definition has_de (l : bytes) : bool := existsb (fun c => (c =? 46) || (c =? 101) || (c =? 69)) l.

Lemma nostop_app a b : nostop (a ++ b) = nostop a && nostop b.
Proof. apply forallb_app. Qed.
Lemma has_de_app a b : has_de (a ++ b) = has_de a || has_de b.
Proof. apply existsb_app. Qed.

Lemma scan_number_app l : forall rest dbl i, nostop l = true ->
  scan_number (l ++ rest) dbl i = scan_number rest (dbl || has_de l) (i + length l)%nat.
Proof.
  induction l as [|c l IH]; intros rest dbl i H.
  - cbn [app has_de existsb length]. rewrite orb_false_r, Nat.add_0_r. reflexivity.
  - cbn [nostop forallb] in H. apply andb_prop in H. destruct H as [Hc Hl].
    cbn [app scan_number]. destruct (is_stop c); [discriminate|].
    rewrite (IH _ _ _ Hl). cbn [has_de existsb length]. f_equal; [|lia].
    fold (has_de l). destruct dbl, (c =? 46), (c =? 101), (c =? 69), (has_de l); reflexivity.
Qed.

Lemma scan_number_nil dbl i : scan_number [] dbl i = (None, dbl).
Proof. reflexivity. Qed.

Lemma scan_number_stop c r dbl i : is_stop c = true -> scan_number (c :: r) dbl i = (Some i, dbl).
Proof. intro H. cbn [scan_number]. rewrite H. reflexivity. Qed.

Lemma span_digits_inv b : forall ds r, span_digits b = (ds, r) -> b = ds ++ r /\ all_digits ds = true.
Proof.
  induction b as [|c b IH]; intros ds r H.
  - injection H as <- <-. split; reflexivity.
  - cbn [span_digits] in H. destruct (is_dig c) eqn:E.
    + destruct (span_digits b) as [ds' r'] eqn:ES. injection H as <- <-.
      destruct (IH _ _ eq_refl) as [-> Hd]. split; [reflexivity|].
      cbn [all_digits forallb]. rewrite E. exact Hd.
    + injection H as <- <-. split; reflexivity.
Qed.

Lemma digits_nostop ds : all_digits ds = true -> nostop ds = true /\ has_de ds = false.
Proof.
  induction ds as [|c ds IH]; intro H; [split; reflexivity|].
  cbn [all_digits forallb] in H. apply andb_prop in H. destruct H as [Hc Hd].
  destruct (IH Hd) as [H1 H2]. apply is_dig_range in Hc.
  cbn [nostop forallb has_de existsb]. fold (nostop ds). fold (has_de ds). rewrite H1, H2.
  unfold is_stop. split; lia.
Qed.

Lemma lex_int_inv b i b2 : lex_int b = POk i b2 -> b = i ++ b2 /\ i <> [] /\ all_digits i = true.
Proof.
  unfold lex_int. destruct b as [|c r]; [discriminate|].
  destruct (c =? 48) eqn:E0.
  - intro H. injection H as <- <-. assert (c = 48) by lia. subst c.
    split; [reflexivity|]. split; [discriminate|reflexivity].
  - destruct ((49 <=? c) && (c <=? 57)) eqn:E1; [|discriminate].
    destruct (span_digits r) as [ds r'] eqn:ES. intro H. injection H as <- <-.
    destruct (span_digits_inv _ _ _ ES) as [-> Hd].
    split; [reflexivity|]. split; [discriminate|].
    cbn [all_digits forallb]. fold (all_digits ds). rewrite Hd. unfold is_dig. lia.
Qed.

Lemma lex_digits1_inv b ds r : lex_digits1 b = POk ds r -> b = ds ++ r /\ all_digits ds = true.
Proof.
  unfold lex_digits1. destruct (span_digits b) as [ds' r'] eqn:ES.
  destruct (span_digits_inv _ _ _ ES) as [-> Hd].
  destruct ds' as [|d ds']; [destruct r'; discriminate|].
  intro H. injection H as <- <-. split; [reflexivity|exact Hd].
Qed.

Lemma lex_frac_inv b fr b3 : lex_frac b = POk fr b3 ->
  b = fr ++ b3 /\ nostop fr = true /\ has_de fr = negb (is_nil fr).
Proof.
  unfold lex_frac. destruct b as [|c r].
  - intro H. injection H as <- <-. repeat split.
  - destruct (c =? 46) eqn:E.
    + destruct (lex_digits1 r) as [ds r'| |] eqn:EL; try discriminate.
      intro H. injection H as <- <-. destruct (lex_digits1_inv _ _ _ EL) as [-> Hd].
      destruct (digits_nostop _ Hd) as [H1 H2].
      split; [reflexivity|]. cbn [nostop forallb has_de existsb is_nil negb].
      fold (nostop ds). rewrite H1, E. unfold is_stop. split; [lia|reflexivity].
    + intro H. injection H as <- <-. repeat split.
Qed.

Lemma lex_exp_inv b ex b4 : lex_exp b = POk ex b4 ->
  b = ex ++ b4 /\ nostop ex = true /\ has_de ex = negb (is_nil ex).
Proof.
  unfold lex_exp. destruct b as [|c r].
  - intro H. injection H as <- <-. repeat split.
  - destruct ((c =? 101) || (c =? 69)) eqn:E.
    + assert (Hsg : exists sg r1, (match r with
                      | x :: r' => if (x =? 43) || (x =? 45) then ([x], r') else ([], r)
                      | [] => ([], r) end) = (sg, r1) /\ r = sg ++ r1 /\ nostop sg = true /\ has_de sg = false).
      { destruct r as [|x r']; [exists [], []; repeat split|].
        destruct ((x =? 43) || (x =? 45)) eqn:Ex.
        - exists [x], r'. split; [reflexivity|]. split; [reflexivity|].
          cbn [nostop forallb has_de existsb]. unfold is_stop. split; lia.
        - exists [], (x :: r'). repeat split. }
      destruct Hsg as (sg & r1 & -> & -> & Hn & Hde).
      destruct (lex_digits1 r1) as [ds r'| |] eqn:EL; try discriminate.
      intro H. injection H as <- <-. destruct (lex_digits1_inv _ _ _ EL) as [-> Hd].
      destruct (digits_nostop _ Hd) as [H1 H2].
      split; [cbn [app]; rewrite <- app_assoc; reflexivity|].
      change (c :: sg ++ ds) with ([c] ++ sg ++ ds).
      rewrite !nostop_app, !has_de_app, Hn, H1, Hde, H2.
      cbn [nostop forallb has_de existsb is_nil negb app]. unfold is_stop. split; lia.
    + intro H. injection H as <- <-. repeat split.
Qed.

Lemma json_number_inv b lit isint rest : json_number b = NumOk lit isint rest ->
  b = lit ++ rest /\ nostop lit = true /\ has_de lit = negb isint /\
  (isint = true -> exists ds, ds <> [] /\ all_digits ds = true /\ (lit = ds \/ lit = 45 :: ds)).
Proof.
  unfold json_number.
  assert (Hsg : exists sg b1, (match b with
                      | c :: r => if c =? 45 then ([c], r) else ([], b)
                      | [] => ([], b) end) = (sg, b1) /\ b = sg ++ b1 /\ (sg = [] \/ sg = [45])).
  { destruct b as [|c r]; [exists [], []; repeat split; left; reflexivity|].
    destruct (c =? 45) eqn:E.
    - assert (c = 45) by lia. subst c. exists [45], r. repeat split. right; reflexivity.
    - exists [], (c :: r). repeat split. left; reflexivity. }
  destruct Hsg as (sg & b1 & -> & -> & Hsg).
  destruct (lex_int b1) as [i b2| |] eqn:E1; try discriminate.
  destruct (lex_frac b2) as [fr b3| |] eqn:E2; try discriminate.
  destruct (lex_exp b3) as [ex b4| |] eqn:E3; try discriminate.
  intro H. injection H as <- <- <-.
  destruct (lex_int_inv _ _ _ E1) as (-> & Hine & Hid).
  destruct (lex_frac_inv _ _ _ E2) as (-> & Hfn & Hfd).
  destruct (lex_exp_inv _ _ _ E3) as (-> & Hen & Hed).
  destruct (digits_nostop _ Hid) as [Hin Hidd].
  assert (Hsn : nostop sg = true /\ has_de sg = false) by (destruct Hsg as [-> | ->]; split; reflexivity).
  destruct Hsn as [Hsn Hsd].
  split; [rewrite <- !app_assoc; reflexivity|].
  rewrite !nostop_app, !has_de_app, Hsn, Hin, Hfn, Hen, Hsd, Hidd, Hfd, Hed.
  split; [reflexivity|]. split; [cbn [orb]; destruct (is_nil fr), (is_nil ex); reflexivity|].
  intro Hint. apply andb_prop in Hint. destruct Hint as [Hf He].
  destruct fr; [|discriminate]. destruct ex; [|discriminate]. rewrite !app_nil_r.
  exists i. split; [exact Hine|]. split; [exact Hid|].
  destruct Hsg as [-> | ->]; [left|right]; reflexivity.
Qed.

(* stepNumber on a complete literal followed by a stop byte *)
Definition stop_next (rest : bytes) : bool := match rest with c :: _ => is_stop c | [] => false end.

Lemma step_number_done pf p s lit rest : jp_lit p = [] -> jp_isdbl p = false ->
  nostop lit = true -> stop_next rest = true ->
  step_number pf p s (lit ++ rest) =
  match report_number pf s lit (has_de lit) with
  | None => JCrash 4
  | Some (s1, e) => JS (jpop (jset_lit (jset_isdbl p (has_de lit)) [])) s1 rest true e
  end.
Proof.
  intros Hl Hd Hn Hs. unfold step_number. rewrite Hd, (scan_number_app _ _ _ _ Hn).
  destruct rest as [|c r]; [discriminate|]. cbn [stop_next] in Hs.
  rewrite (scan_number_stop _ _ _ _ Hs). cbn [orb Nat.add].
  cbn [jp_lit jset_isdbl]. rewrite Hl. cbn [app].
  replace (length lit) with (length lit + 0)%nat by lia.
  rewrite firstn_app_len, skipn_app_len. cbn [firstn skipn]. rewrite app_nil_r. reflexivity.
Qed.

(* ... and on a literal that runs to the end of the input *)
Lemma step_number_eof pf p s lit : jp_lit p = [] -> jp_isdbl p = false -> nostop lit = true ->
  step_number pf p s lit = JS (jset_lit (jset_isdbl p (has_de lit)) lit) s [] false jpnil.
Proof.
  intros Hl Hd Hn. unfold step_number. rewrite Hd.
  rewrite <- (app_nil_r lit) at 1. rewrite (scan_number_app _ _ _ _ Hn), scan_number_nil. cbn [orb].
  cbn [jp_lit jset_isdbl]. rewrite Hl. reflexivity.
Qed.

(* what reportNumber delivers for a literal of the grammar *)
Lemma report_ok pf s lit isint n :
  (forall l z, pf l = Some z -> in_u 64 z = true) ->
  json_num_value pf lit isint = Some n -> s_fail s = None ->
  (isint = true -> exists ds, ds <> [] /\ all_digits ds = true /\ (lit = ds \/ lit = 45 :: ds)) ->
  exists k z, report_number pf s lit (negb isint) = Some (sapp s [EVal (SNum k z)], jpnil) /\
              canon_num k z = n /\ nkind_ok k z = true.
Proof.
  intros Hpf Hv Hs Hshape. destruct isint; cbn [negb].
  - rewrite (report_number_int pf s lit (Hshape eq_refl)). rewrite Hv.
    unfold json_num_value in Hv.
    destruct ((-9223372036854775808 <=? int_value lit) && (int_value lit <? 18446744073709551616)) eqn:E;
      [|discriminate].
    injection Hv as <-. unfold int_report. rewrite (jvis_ok _ _ Hs).
    exists (int_kind (int_value lit)), (int_value lit). split; [reflexivity|].
    unfold int_kind. destruct (int_value lit <? 9223372036854775808) eqn:E2.
    + split; [reflexivity|]. unfold nkind_ok, in_s. change (2 ^ (64 - 1)) with 9223372036854775808. lia.
    + split; [reflexivity|]. unfold nkind_ok, in_u. change (2 ^ 64) with 18446744073709551616. lia.
  - rewrite report_number_float. rewrite Hv.
    unfold json_num_value in Hv. destruct (pf lit) as [bits|] eqn:E; [|discriminate].
    injection Hv as <-. rewrite (jvis_ok _ _ Hs).
    exists KFloat64, bits. split; [reflexivity|]. split; [reflexivity|]. exact (Hpf _ _ E).
Qed.

(* ---------- 4.5 single steps of the parser ---------- *)
Ltac jsimpl :=
  cbn [jp_cur jp_states jp_lit jp_inesc jp_isdbl jp_req jp_err
       jset_cur jset_lit jset_inesc jset_isdbl jset_req jset_err jpush jpop].

(* evaluate comparisons of closed numbers *)
Ltac zc :=
  repeat match goal with
         | |- context [?a =? ?b] =>
             let v := eval vm_compute in (a =? b) in
             match v with
             | true => change (a =? b) with true
             | false => change (a =? b) with false
             end
         end.

Definition clean (p : jparser) : Prop := jp_lit p = [] /\ jp_inesc p = false.
Definition after (p p' : jparser) (ret : Z) : Prop :=
  jp_cur p' = ret /\ jp_states p' = jp_states p /\ clean p'.

Definition vstate (p : jparser) (ret : Z) : Prop :=
  (jp_cur p = jStart /\ ret = jStart) \/
  (jp_cur p = jDictFieldValue /\ ret = jDictFieldStateEnd) \/
  (jp_cur p = jArrValue /\ ret = jArrNext).

Lemma vstate_ret p ret : vstate p ret -> (ret =? jFailed) = false.
Proof. intros [[_ ->]|[[_ ->]|[_ ->]]]; reflexivity. Qed.

Lemma vstate_cur p ret : vstate p ret -> (jp_cur p =? jFailed) = false.
Proof. intros [[-> _]|[[-> _]|[-> _]]]; reflexivity. Qed.

Lemma jstep_start pf p s b : jp_cur p = jStart -> jstep pf p s b = step_value pf p s b jStart.
Proof. intro H. unfold jstep. rewrite H. reflexivity. Qed.
Lemma jstep_dfv pf p s b : jp_cur p = jDictFieldValue ->
  jstep pf p s b = step_value pf p s b jDictFieldStateEnd.
Proof. intro H. unfold jstep. rewrite H. reflexivity. Qed.
Lemma jstep_av pf p s b : jp_cur p = jArrValue ->
  jstep pf p s b = match step_value pf p s b jArrNext with JS p1 s1 r _ e => JS p1 s1 r false e | x => x end.
Proof. intro H. unfold jstep. rewrite H. reflexivity. Qed.
Lemma jstep_arr pf p s b : jp_cur p = jArr -> jstep pf p s b = step_array p s b.
Proof. intro H. unfold jstep. rewrite H. reflexivity. Qed.
Lemma jstep_arrnext pf p s b : jp_cur p = jArrNext -> jstep pf p s b = step_arr_value_end p s b.
Proof. intro H. unfold jstep. rewrite H. reflexivity. Qed.
Lemma jstep_dict pf p s b : jp_cur p = jDict -> jstep pf p s b = step_dict p s b true.
Proof. intro H. unfold jstep. rewrite H. reflexivity. Qed.
Lemma jstep_dictnext pf p s b : jp_cur p = jDictNextField -> jstep pf p s b = step_dict p s b false.
Proof. intro H. unfold jstep. rewrite H. reflexivity. Qed.
Lemma jstep_dictfield pf p s b : jp_cur p = jDictField -> jstep pf p s b = step_dict_key p s b.
Proof. intro H. unfold jstep. rewrite H. reflexivity. Qed.
Lemma jstep_dictsep pf p s b : jp_cur p = jDictFieldValueSep ->
  jstep pf p s b =
  match trim_left b with
  | [] => JS p s [] false jpnil
  | x :: r => JS (jset_cur p jDictFieldValue) s r false (if x =? 58 then jpnil else jeGeneric)
  end.
Proof. intro H. unfold jstep. rewrite H. reflexivity. Qed.
Lemma jstep_dictend pf p s b : jp_cur p = jDictFieldStateEnd -> jstep pf p s b = step_dict_value_end p s b.
Proof. intro H. unfold jstep. rewrite H. reflexivity. Qed.

Lemma mu_consume p p1 (b b1 : bytes) : (length b1 < length b)%nat -> (mu p1 b1 < mu p b)%nat.
Proof. intro H. unfold mu. pose proof (bonus_le p1). lia. Qed.

Lemma vstep pf p s b ret p1 s1 b1 rep : vstate p ret ->
  step_value pf p s b ret = JS p1 s1 b1 rep jpnil -> (length b1 < length b)%nat ->
  jsteps pf p s b p1 s1 b1.
Proof.
  intros Hv E Hl.
  assert (Hne : b <> []) by (intro; subst b; cbn [length] in Hl; lia).
  pose proof (vstate_cur _ _ Hv) as Hnf.
  destruct Hv as [[H ->]|[[H ->]|[H ->]]].
  - eapply jsteps_one; eauto. rewrite jstep_start, E by exact H. reflexivity. apply mu_consume; exact Hl.
  - eapply jsteps_one; eauto. rewrite jstep_dfv, E by exact H. reflexivity. apply mu_consume; exact Hl.
  - eapply jsteps_one; eauto. rewrite jstep_av, E by exact H. reflexivity. apply mu_consume; exact Hl.
Qed.

(* whitespace *)
Lemma trim_left_length b : (length (trim_left b) <= length b)%nat.
Proof.
  induction b as [|c r IH]; [cbn; lia|]. cbn [trim_left]. destruct (is_space c); cbn [length] in *; lia.
Qed.

Lemma trim_left_head b c r : skip_ws b = c :: r -> is_space c = false -> trim_left b = c :: r.
Proof. intros H Hc. rewrite trim_left_skip_ws, H. cbn [trim_left]. rewrite Hc. reflexivity. Qed.

Lemma consume b pre rest : trim_left b = pre ++ rest -> pre <> [] -> (length rest < length b)%nat.
Proof.
  intros H Hp. pose proof (trim_left_length b) as L. rewrite H, app_length in L.
  destruct pre; [congruence|]. cbn [length] in L. lia.
Qed.

Lemma skip_ws_bytes b : all_bytes b = true -> all_bytes (skip_ws b) = true.
Proof.
  induction b as [|c r IH]; intro H; [reflexivity|]. cbn [skip_ws].
  destruct (is_ws c); [|exact H]. cbn [all_bytes forallb] in H. apply andb_prop in H. apply IH, H.
Qed.

Lemma skip_ws_stop r c r' : skip_ws r = c :: r' -> is_stop c = true -> stop_next r = true.
Proof.
  intros H Hc. destruct r as [|x r0]; [discriminate|]. cbn [skip_ws] in H. cbn [stop_next].
  destruct (is_ws x) eqn:E; [apply is_ws_is_stop, E|]. injection H as -> _. exact Hc.
Qed.

Lemma match_lit_ok name : forall b rest, match_lit name b = LitOk rest -> b = name ++ rest.
Proof.
  induction name as [|x name IH]; intros b rest H.
  - injection H as <-. reflexivity.
  - destruct b as [|y b']; [discriminate|]. cbn [match_lit] in H.
    destruct (x =? y) eqn:E; [|discriminate]. assert (x = y) by lia. subst y.
    rewrite (IH _ _ H). reflexivity.
Qed.

Lemma has_prefix_app s : forall rest, has_prefix (s ++ rest) s = true.
Proof. induction s as [|x s IH]; intro rest; [destruct rest; reflexivity|]. cbn [app has_prefix]. rewrite Z.eqb_refl, IH. reflexivity. Qed.

Lemma step_kind_done p s kind ev tail rest :
  0 <= jp_req p -> (Z.to_nat (jp_req p) <= length kind)%nat ->
  tail = skipn (length kind - Z.to_nat (jp_req p)) kind -> s_fail s = None ->
  step_kind p s (tail ++ rest) kind ev = JS (jpop p) (sapp s [ev]) rest true jpnil.
Proof.
  intros H0 H1 Ht Hs. unfold step_kind.
  assert (Lt : length tail = Z.to_nat (jp_req p)) by (subst tail; rewrite skipn_length; lia).
  replace ((jp_req p <? 0) || (zlen kind <? jp_req p)) with false by (unfold zlen; lia).
  replace (zlen (tail ++ rest) <? jp_req p) with false by (unfold zlen; rewrite app_length; lia).
  cbn [negb]. rewrite <- Ht.
  rewrite <- Lt. rewrite firstn_all, has_prefix_app. cbn [negb].
  replace (length tail) with (length tail + 0)%nat by lia. rewrite skipn_app_len. cbn [skipn].
  rewrite (jvis_ok _ _ Hs). reflexivity.
Qed.

Lemma after_push_pop p ret q next : (ret =? jFailed) = false ->
  jp_cur q = ret -> jp_states q = jp_states p -> 
  forall q', jp_states q' = jp_states (jpush q next) -> jp_lit q' = [] -> jp_inesc q' = false ->
  after p (jpop q') ret.
Proof.
  intros Hr Hc Hs q' Hs' Hl Hi. unfold after, clean, jpop. rewrite Hs'. cbn [jpush jp_states].
  rewrite Hc, Hr. jsimpl. rewrite Hs. auto.
Qed.

(* step_value on each kind of token *)
Section StepValue.
  Variable pf : bytes -> option Z.
  Variables (p : jparser) (s : sink) (b : bytes) (ret : Z).
  Hypothesis Hret : (ret =? jFailed) = false.
  Hypothesis Hs : s_fail s = None.
  Hypothesis Hclean : clean p.

  Lemma sv_arr r : trim_left b = 91 :: r ->
    step_value pf p s b ret = JS (jpush (jset_cur p ret) jArr) (sapp s [EArrStart (-1) BAny]) r false jpnil.
  Proof. intro H. unfold step_value. rewrite H. zc. cbv beta iota zeta. rewrite (jvis_ok _ _ Hs). reflexivity. Qed.

  Lemma sv_obj r : trim_left b = 123 :: r ->
    step_value pf p s b ret = JS (jpush (jset_cur p ret) jDict) (sapp s [EObjStart (-1) BAny]) r false jpnil.
  Proof. intro H. unfold step_value. rewrite H. zc. cbv beta iota zeta. rewrite (jvis_ok _ _ Hs). reflexivity. Qed.

  Lemma sv_null rest : trim_left b = kw_null ++ rest ->
    exists p', step_value pf p s b ret = JS p' (sapp s [EVal SNil]) rest true jpnil /\ after p p' ret.
  Proof.
    intro H. unfold step_value. rewrite H. cbn [kw_null app]. zc. cbv beta iota zeta.
    eexists. split.
    - apply (step_kind_done _ s kNull (EVal SNil) [117; 108; 108] rest); jsimpl; [lia|vm_compute; lia|reflexivity|exact Hs].
    - destruct Hclean. eapply after_push_pop with (q := jset_cur p ret) (next := jNull); try eassumption; try reflexivity; jsimpl; auto.
  Qed.

  Lemma sv_true rest : trim_left b = kw_true ++ rest ->
    exists p', step_value pf p s b ret = JS p' (sapp s [EVal (SBool true)]) rest true jpnil /\ after p p' ret.
  Proof.
    intro H. unfold step_value. rewrite H. cbn [kw_true app]. zc. cbv beta iota zeta.
    eexists. split.
    - apply (step_kind_done _ s kTrue (EVal (SBool true)) [114; 117; 101] rest); jsimpl; [lia|vm_compute; lia|reflexivity|exact Hs].
    - destruct Hclean. eapply after_push_pop with (q := jset_cur p ret) (next := jTrue); try eassumption; try reflexivity; jsimpl; auto.
  Qed.

  Lemma sv_false rest : trim_left b = kw_false ++ rest ->
    exists p', step_value pf p s b ret = JS p' (sapp s [EVal (SBool false)]) rest true jpnil /\ after p p' ret.
  Proof.
    intro H. unfold step_value. rewrite H. cbn [kw_false app]. zc. cbv beta iota zeta.
    eexists. split.
    - apply (step_kind_done _ s kFalse (EVal (SBool false)) [97; 108; 115; 101] rest); jsimpl; [lia|vm_compute; lia|reflexivity|exact Hs].
    - destruct Hclean. eapply after_push_pop with (q := jset_cur p ret) (next := jFalse); try eassumption; try reflexivity; jsimpl; auto.
  Qed.

  Lemma sv_str body rest out : trim_left b = 34 :: body ++ 34 :: rest ->
    (forall i, scan_quote (body ++ 34 :: rest) false i = (Some (i + length body)%nat, false)) ->
    unquote body = UQ out ->
    exists p', step_value pf p s b ret = JS p' (sapp s [EStrRef out]) rest true jpnil /\ after p p' ret.
  Proof.
    intros H Hsc Hu. unfold step_value. rewrite H. zc. cbv beta iota zeta.
    unfold step_string. rewrite (do_string_ok _ body rest out) by (jsimpl; auto).
    rewrite (jvis_ok _ _ Hs). eexists. split; [reflexivity|].
    eapply after_push_pop with (q := jset_lit (jset_cur p ret) []) (next := jString); try eassumption; try reflexivity.
  Qed.

  Lemma sv_num_head c r : trim_left b = c :: r -> (c =? 45) || is_dig c = true ->
    step_value pf p s b ret =
    step_number pf (jset_isdbl (jpush (jset_lit (jset_isdbl (jset_cur p ret) false) []) jNumber) false) s (c :: r).
  Proof.
    intros H Hc. unfold step_value. rewrite H. cbv beta iota zeta.
    assert (Hx : (c =? 45) = true \/ 48 <= c <= 57) by (unfold is_dig in Hc; lia).
    replace (c =? 123) with false by lia. replace (c =? 91) with false by lia.
    replace (c =? 110) with false by lia. replace (c =? 102) with false by lia.
    replace (c =? 116) with false by lia. replace (c =? 34) with false by lia.
    replace ((c =? 45) || (c =? 43) || (c =? 46) || is_digit c) with true by (unfold is_digit; lia).
    reflexivity.
  Qed.
End StepValue.

(* ---------- 4.6 the simulation ---------- *)
Definition good (t : tree) (v : cvalue) : Prop := cv (value_of t) = v /\ wf_tree t = true /\ norm t = t.
Definition is_cnum (v : cvalue) : bool := match v with CNum _ => true | _ => false end.
Definition tvals (ts : list tree) : list cvalue := map (fun t => cv (value_of t)) ts.
Definition mvals (ms : list (bytes * bool * tree)) : list (bytes * cvalue) :=
  map (fun m => (fst (fst m), cv (value_of (snd m)))) ms.

Lemma forallb_const_true {A} (l : list A) : forallb (fun _ => true) l = true.
Proof. induction l; [reflexivity|exact IHl]. Qed.

Lemma good_arr ts : forallb wf_tree ts = true -> map norm ts = ts ->
  good (TArr (-1) BAny ts) (CArr (tvals ts)).
Proof.
  intros Hw Hn. unfold good. split; [|split].
  - cbn [value_of cv]. rewrite map_map. reflexivity.
  - rewrite wf_arr, Hw. cbn [tree_matches]. rewrite forallb_const_true. reflexivity.
  - cbn [norm]. rewrite Hn. reflexivity.
Qed.

Lemma good_obj ms : forallb (fun m => all_bytes (fst (fst m)) && wf_tree (snd m)) ms = true ->
  map (fun m => (fst m, norm (snd m))) ms = ms ->
  good (TObj (-1) BAny ms) (CObj (mvals ms)).
Proof.
  intros Hw Hn. unfold good. split; [|split].
  - cbn [value_of cv]. rewrite map_map. reflexivity.
  - rewrite wf_obj, Hw. cbn [tree_matches]. rewrite forallb_const_true. reflexivity.
  - cbn [norm]. rewrite Hn. reflexivity.
Qed.

Lemma jsteps_snoc pf p s b p1 s1 b1 p2 s2 b2 rep :
  jsteps pf p s b p1 s1 b1 ->
  b1 <> [] -> (jp_cur p1 =? jFailed) = false ->
  jstep pf p1 s1 b1 = JS p2 s2 b2 rep jpnil -> (mu p2 b2 < mu p1 b1)%nat ->
  jsteps pf p s b p2 s2 b2.
Proof. intros H1 Hne Hnf Hst Hmu. eapply jsteps_trans; [exact H1|]. eapply jsteps_one; eauto. Qed.

Lemma trim_cons_length b c r : trim_left b = c :: r -> (length r < length b)%nat /\ b <> [].
Proof.
  intro H. pose proof (trim_left_length b) as L. rewrite H in L. cbn [length] in L.
  split; [lia|]. intro; subst b. discriminate.
Qed.

Lemma skip_ws_tail_bytes b c r : all_bytes b = true -> skip_ws b = c :: r -> all_bytes r = true.
Proof.
  intros Hb H. apply skip_ws_bytes in Hb. rewrite H in Hb. cbn [all_bytes forallb] in Hb.
  apply andb_prop in Hb. apply Hb.
Qed.

Section Sim.
  Variable pf : bytes -> option Z.
  Hypothesis pf_ok : forall l z, pf l = Some z -> in_u 64 z = true.

  Definition sim_at (f : nat) : Prop :=
    forall b v rest, json_ref pf f b = RValue v rest -> all_bytes b = true ->
    (is_cnum v = false \/ stop_next rest = true) ->
    forall p s ret, vstate p ret -> clean p -> s_fail s = None ->
    exists t p', good t v /\ all_bytes rest = true /\
      jsteps pf p s b p' (sapp s (flatten t)) rest /\ after p p' ret.

  (* closing a container *)
  Lemma end_step p s b c r ev ret st :
    trim_left b = c :: r -> jp_states p = ret :: st -> clean p -> s_fail s = None ->
    (jp_cur p =? jFailed) = false ->
    jstep pf p s b = end_container p s (c :: r) ev ->
    exists p', jsteps pf p s b p' (sapp s [ev]) r /\ jp_cur p' = ret /\ jp_states p' = st /\ clean p'.
  Proof.
    intros Ht Hst Hc Hs Hnf Hj. destruct (trim_cons_length _ _ _ Ht) as [L Hne].
    exists (jpop p). split.
    - eapply jsteps_one; eauto.
      + rewrite Hj. unfold end_container. rewrite (jvis_ok _ _ Hs). reflexivity.
      + apply mu_consume; exact L.
    - unfold jpop, clean. rewrite Hst. jsimpl. destruct Hc. auto.
  Qed.

  Lemma elems_sim f : sim_at f -> forall g b acc v rest,
    json_elems (json_ref pf f) g b acc = RValue v rest -> all_bytes b = true ->
    forall p s ret st, jp_cur p = jArrValue -> jp_states p = ret :: st -> clean p -> s_fail s = None ->
    exists ts p', v = CArr (rev acc ++ tvals ts) /\ forallb wf_tree ts = true /\ map norm ts = ts /\
      all_bytes rest = true /\
      jsteps pf p s b p' (sapp s (flatten_elems ts ++ [EArrEnd])) rest /\
      jp_cur p' = ret /\ jp_states p' = st /\ clean p'.
  Proof.
    intros Hsim. induction g as [|g IH]; intros b acc v rest H Hb p s ret st Hcur Hst Hcl Hs; [discriminate|].
    cbn [json_elems] in H.
    destruct (json_ref pf f b) as [v1 r1| | |] eqn:E1; try discriminate.
    destruct (skip_ws r1) as [|c r'] eqn:E2; [discriminate|].
    assert (Hc : c = 44 \/ c = 93).
    { destruct (c =? 44) eqn:C1; [left; lia|]. destruct (c =? 93) eqn:C2; [right; lia|discriminate]. }
    assert (Hstop : stop_next r1 = true).
    { apply (skip_ws_stop _ _ _ E2). destruct Hc as [-> | ->]; reflexivity. }
    destruct (Hsim _ _ _ E1 Hb (or_intror Hstop) p s jArrNext (or_intror (or_intror (conj Hcur eq_refl))) Hcl Hs)
      as (t1 & p1 & (Gv & Gw & Gn) & Hb1 & Hrun1 & (Hc1 & Hs1 & Hcl1)).
    assert (Ht : trim_left r1 = c :: r').
    { apply trim_left_head; [exact E2|]. destruct Hc as [-> | ->]; reflexivity. }
    destruct (trim_cons_length _ _ _ Ht) as [L1 Hne1].
    pose proof (skip_ws_tail_bytes _ _ _ Hb1 E2) as Hb'.
    assert (Hs1' : s_fail (sapp s (flatten t1)) = None) by (rewrite sapp_fail; exact Hs).
    destruct Hc as [-> | ->].
    - (* , *)
      change (44 =? 44) with true in H. cbv iota in H.
      assert (Hstep : jstep pf p1 (sapp s (flatten t1)) r1 = JS (jset_cur p1 jArrValue) (sapp s (flatten t1)) r' false jpnil).
      { rewrite jstep_arrnext by exact Hc1. unfold step_arr_value_end. rewrite Ht. reflexivity. }
      destruct (IH _ _ _ _ H Hb' (jset_cur p1 jArrValue) (sapp s (flatten t1)) ret st eq_refl
                  ltac:(jsimpl; rewrite Hs1; exact Hst) ltac:(destruct Hcl1; split; assumption) Hs1')
        as (ts & p' & -> & Hw & Hn & Hbr & Hrun & Hc' & Hs' & Hcl').
      exists (t1 :: ts), p'. split; [|split; [|split; [|split; [|split]]]]; auto.
      + cbn [rev tvals map]. rewrite <- app_assoc, Gv. reflexivity.
      + cbn [forallb]. rewrite Gw, Hw. reflexivity.
      + cbn [map]. rewrite Gn, Hn. reflexivity.
      + eapply jsteps_trans; [eapply jsteps_snoc; [exact Hrun1|exact Hne1|rewrite Hc1; reflexivity|exact Hstep|apply mu_consume; exact L1]|].
        rewrite sapp_app in Hrun. cbn [flatten_elems flat_map]. rewrite <- app_assoc. exact Hrun.
    - (* ] *)
      change (93 =? 44) with false in H. change (93 =? 93) with true in H. cbv iota in H. injection H as <- <-.
      destruct (end_step p1 (sapp s (flatten t1)) r1 93 r' EArrEnd ret st Ht ltac:(rewrite Hs1; exact Hst) Hcl1 Hs1'
                  ltac:(rewrite Hc1; reflexivity))
        as (p' & Hrun & Hc' & Hs' & Hcl').
      { rewrite jstep_arrnext by exact Hc1. unfold step_arr_value_end. rewrite Ht. reflexivity. }
      exists [t1], p'. split; [|split; [|split; [|split; [|split]]]]; auto.
      + cbn [rev tvals map]. rewrite Gv. reflexivity.
      + cbn [forallb]. rewrite Gw. reflexivity.
      + cbn [map]. rewrite Gn. reflexivity.
      + eapply jsteps_trans; [exact Hrun1|]. rewrite sapp_app in Hrun.
        cbn [flatten_elems flat_map]. rewrite app_nil_r. exact Hrun.
  Qed.

  Lemma members_sim f : sim_at f -> forall g b acc v rest,
    json_members (json_ref pf f) g b acc = RValue v rest -> all_bytes b = true ->
    forall p s ret st, (jp_cur p = jDict \/ jp_cur p = jDictNextField) ->
    jp_states p = ret :: st -> clean p -> s_fail s = None ->
    exists ms p', v = CObj (rev acc ++ mvals ms) /\
      forallb (fun m => all_bytes (fst (fst m)) && wf_tree (snd m)) ms = true /\
      map (fun m => (fst m, norm (snd m))) ms = ms /\
      all_bytes rest = true /\
      jsteps pf p s b p' (sapp s (flatten_members ms ++ [EObjEnd])) rest /\
      jp_cur p' = ret /\ jp_states p' = st /\ clean p'.
  Proof.
    intros Hsim. induction g as [|g IH]; intros b acc v rest H Hb p s ret st Hcur Hst Hcl Hs; [discriminate|].
    cbn [json_members] in H.
    destruct (skip_ws b) as [|q r0] eqn:E0; [discriminate|].
    destruct (q =? 34) eqn:Q; [|discriminate]. cbn [negb] in H. assert (q = 34) by lia. subst q.
    destruct (json_string r0) as [k r1| |] eqn:ES; try discriminate.
    destruct (skip_ws r1) as [|c r2] eqn:E1; [discriminate|].
    destruct (c =? 58) eqn:C; [|discriminate]. cbn [negb] in H. assert (c = 58) by lia. subst c.
    destruct (json_ref pf f r2) as [v1 r3| | |] eqn:EV; try discriminate.
    destruct (skip_ws r3) as [|d r4] eqn:E3; [discriminate|].
    assert (Hd : d = 44 \/ d = 125).
    { destruct (d =? 44) eqn:C1; [left; lia|]. destruct (d =? 125) eqn:C2; [right; lia|discriminate]. }
    (* bytes *)
    pose proof (skip_ws_tail_bytes _ _ _ Hb E0) as Hb0.
    unfold json_string in ES.
    destruct (json_string_bytes _ _ _ _ _ ES Hb0 eq_refl) as [Hkb Hb1].
    pose proof (skip_ws_tail_bytes _ _ _ Hb1 E1) as Hb2.
    (* step 1: the opening quote of the key is seen *)
    assert (Ht0 : trim_left b = 34 :: r0) by (apply trim_left_head; [exact E0|reflexivity]).
    assert (Hnf : (jp_cur p =? jFailed) = false) by (destruct Hcur as [-> | ->]; reflexivity).
    assert (Hstep1 : exists rep, jstep pf p s b = JS (jset_cur p jDictField) s (34 :: r0) rep jpnil).
    { destruct Hcur as [Hc | Hc].
      - rewrite jstep_dict by exact Hc. unfold step_dict. rewrite Ht0. eexists. reflexivity.
      - rewrite jstep_dictnext by exact Hc. unfold step_dict. rewrite Ht0. eexists. reflexivity. }
    destruct Hstep1 as (rep1 & Hstep1).
    assert (Hmu1 : (mu (jset_cur p jDictField) (34%Z :: r0) < mu p b)%nat).
    { pose proof (trim_left_length b) as L. rewrite Ht0 in L. unfold mu, bonus. jsimpl.
      destruct Hcur as [-> | ->]; cbn; cbn [length] in L; lia. }
    assert (Hne0 : b <> []) by (intro; subst b; discriminate).
    (* step 2: the key *)
    destruct (json_string_inv _ _ _ _ _ ES) as (body & t & fu & Er0 & Ek & Hu & Hsc).
    cbn [rev app] in Ek. subst t.
    pose proof (unquote_spec_fuel _ _ _ Hu) as Huq.
    set (p2 := jset_cur (jset_lit (jset_inesc (jset_cur p jDictField) false) []) jDictFieldValueSep).
    assert (Hstep2 : jstep pf (jset_cur p jDictField) s (34 :: r0) = JS p2 (sapp s [EKeyRef k]) r1 false jpnil).
    { rewrite jstep_dictfield by reflexivity. unfold step_dict_key. rewrite Er0.
      rewrite (do_string_ok _ body r1 k);
        [|jsimpl; apply Hcl|jsimpl; apply Hcl|intro i; rewrite <- Er0; apply Hsc|exact Huq].
      rewrite (jvis_ok _ _ Hs). reflexivity. }
    assert (L2 : (length r1 < length (34%Z :: r0))%nat) by (rewrite Er0; cbn [length]; rewrite app_length; cbn [length]; lia).
    (* step 3: the colon *)
    assert (Ht1 : trim_left r1 = 58 :: r2) by (apply trim_left_head; [exact E1|reflexivity]).
    destruct (trim_cons_length _ _ _ Ht1) as [L3 Hne1].
    set (p3 := jset_cur p2 jDictFieldValue).
    assert (Hstep3 : jstep pf p2 (sapp s [EKeyRef k]) r1 = JS p3 (sapp s [EKeyRef k]) r2 false jpnil).
    { rewrite jstep_dictsep by reflexivity. rewrite Ht1. reflexivity. }
    (* step 4: the value *)
    assert (Hstop : stop_next r3 = true).
    { apply (skip_ws_stop _ _ _ E3). destruct Hd as [-> | ->]; reflexivity. }
    assert (Hs3 : s_fail (sapp s [EKeyRef k]) = None) by (rewrite sapp_fail; exact Hs).
    assert (Hcl3 : clean p3) by (split; reflexivity).
    destruct (Hsim _ _ _ EV Hb2 (or_intror Hstop) p3 (sapp s [EKeyRef k]) jDictFieldStateEnd
                (or_intror (or_introl (conj eq_refl eq_refl))) Hcl3 Hs3)
      as (t1 & p4 & (Gv & Gw & Gn) & Hb3 & Hrun4 & (Hc4 & Hs4 & Hcl4)).
    rewrite sapp_app in Hrun4.
    assert (Hst4 : jp_states p4 = ret :: st) by (rewrite Hs4; subst p3 p2; jsimpl; exact Hst).
    (* step 5: , or } *)
    assert (Ht3 : trim_left r3 = d :: r4).
    { apply trim_left_head; [exact E3|]. destruct Hd as [-> | ->]; reflexivity. }
    destruct (trim_cons_length _ _ _ Ht3) as [L5 Hne3].
    pose proof (skip_ws_tail_bytes _ _ _ Hb3 E3) as Hb4.
    assert (Hs4' : s_fail (sapp s ([EKeyRef k] ++ flatten t1)) = None) by (rewrite sapp_fail; exact Hs).
    assert (Hrun14 : jsteps pf p s b p4 (sapp s ([EKeyRef k] ++ flatten t1)) r3).
    { eapply jsteps_step; [exact Hne0|exact Hnf|exact Hstep1|exact Hmu1|].
      eapply jsteps_step; [discriminate|reflexivity|exact Hstep2|apply mu_consume; exact L2|].
      eapply jsteps_step; [exact Hne1|reflexivity|exact Hstep3|apply mu_consume; exact L3|].
      exact Hrun4. }
    destruct Hd as [-> | ->].
    - (* , *)
      change (44 =? 44) with true in H. cbv iota in H.
      assert (Hstep5 : jstep pf p4 (sapp s ([EKeyRef k] ++ flatten t1)) r3 =
                       JS (jset_cur p4 jDictNextField) (sapp s ([EKeyRef k] ++ flatten t1)) r4 false jpnil).
      { rewrite jstep_dictend by exact Hc4. unfold step_dict_value_end. rewrite Ht3. reflexivity. }
      destruct (IH _ _ _ _ H Hb4 (jset_cur p4 jDictNextField) (sapp s ([EKeyRef k] ++ flatten t1)) ret st
                  (or_intror eq_refl) ltac:(jsimpl; exact Hst4) ltac:(destruct Hcl4; split; assumption) Hs4')
        as (ms & p' & -> & Hw & Hn & Hbr & Hrun & Hc' & Hs' & Hcl').
      exists ((k, true, t1) :: ms), p'. split; [|split; [|split; [|split; [|split]]]]; auto.
      + cbn [rev mvals map fst snd]. rewrite <- app_assoc, Gv. reflexivity.
      + cbn [forallb fst snd]. rewrite Hkb, Gw, Hw. reflexivity.
      + cbn [map fst snd]. rewrite Gn, Hn. reflexivity.
      + eapply jsteps_trans; [eapply jsteps_snoc; [exact Hrun14|exact Hne3|rewrite Hc4; reflexivity|exact Hstep5|apply mu_consume; exact L5]|].
        rewrite sapp_app in Hrun. cbn [flatten_members flat_map key_event].
        cbn [app] in Hrun |- *. rewrite <- app_assoc. exact Hrun.
    - (* } *)
      change (125 =? 44) with false in H. change (125 =? 125) with true in H. cbv iota in H. injection H as <- <-.
      destruct (end_step p4 (sapp s ([EKeyRef k] ++ flatten t1)) r3 125 r4 EObjEnd ret st Ht3 Hst4 Hcl4 Hs4'
                  ltac:(rewrite Hc4; reflexivity))
        as (p' & Hrun & Hc' & Hs' & Hcl').
      { rewrite jstep_dictend by exact Hc4. unfold step_dict_value_end. rewrite Ht3. reflexivity. }
      exists [(k, true, t1)], p'. split; [|split; [|split; [|split; [|split]]]]; auto.
      + cbn [rev mvals map fst snd]. rewrite Gv. reflexivity.
      + cbn [forallb fst snd]. rewrite Hkb, Gw. reflexivity.
      + cbn [map fst snd]. rewrite Gn. reflexivity.
      + eapply jsteps_trans; [exact Hrun14|]. rewrite sapp_app in Hrun.
        cbn [flatten_members flat_map key_event]. cbn [app] in Hrun |- *. rewrite app_nil_r. exact Hrun.
  Qed.

  (* a value starts with a byte the parser does not skip *)
  Lemma lit_value_inv name v0 b v rest : lit_value name v0 b = RValue v rest -> v = v0 /\ b = name ++ rest.
  Proof.
    unfold lit_value. destruct (match_lit name b) as [r| |] eqn:E; try discriminate.
    intro H. injection H as <- <-. split; [reflexivity|]. apply match_lit_ok, E.
  Qed.

  Theorem sim_all : forall f, sim_at f.
  Proof.
    induction f as [|f IH]; intros b v rest H Hb Hend p s ret Hv Hcl Hs; [discriminate|].
    cbn [json_ref] in H.
    destruct (skip_ws b) as [|c r] eqn:E0; [discriminate|].
    pose proof (vstate_ret _ _ Hv) as Hret.
    pose proof (skip_ws_bytes _ Hb) as Hb0. rewrite E0 in Hb0.
    destruct (c =? 110) eqn:C1.
    { (* null *)
      destruct (lit_value_inv _ _ _ _ _ H) as [-> Er].
      assert (Ht : trim_left b = kw_null ++ rest).
      { rewrite <- Er. apply trim_left_head; [exact E0|]. unfold is_space. lia. }
      destruct (sv_null pf p s b ret Hret Hs Hcl rest Ht) as (p' & Hst & Haf).
      exists (TVal SNil false), p'. split; [repeat split|]. split.
      { rewrite Er, all_bytes_app in Hb0. apply andb_prop in Hb0. apply Hb0. }
      split; [|exact Haf]. apply (vstep _ _ _ _ _ _ _ _ _ Hv Hst). apply (consume _ _ _ Ht). discriminate. }
    destruct (c =? 116) eqn:C2.
    { (* true *)
      destruct (lit_value_inv _ _ _ _ _ H) as [-> Er].
      assert (Ht : trim_left b = kw_true ++ rest).
      { rewrite <- Er. apply trim_left_head; [exact E0|]. unfold is_space. lia. }
      destruct (sv_true pf p s b ret Hret Hs Hcl rest Ht) as (p' & Hst & Haf).
      exists (TVal (SBool true) false), p'. split; [repeat split|]. split.
      { rewrite Er, all_bytes_app in Hb0. apply andb_prop in Hb0. apply Hb0. }
      split; [|exact Haf]. apply (vstep _ _ _ _ _ _ _ _ _ Hv Hst). apply (consume _ _ _ Ht). discriminate. }
    destruct (c =? 102) eqn:C3.
    { (* false *)
      destruct (lit_value_inv _ _ _ _ _ H) as [-> Er].
      assert (Ht : trim_left b = kw_false ++ rest).
      { rewrite <- Er. apply trim_left_head; [exact E0|]. unfold is_space. lia. }
      destruct (sv_false pf p s b ret Hret Hs Hcl rest Ht) as (p' & Hst & Haf).
      exists (TVal (SBool false) false), p'. split; [repeat split|]. split.
      { rewrite Er, all_bytes_app in Hb0. apply andb_prop in Hb0. apply Hb0. }
      split; [|exact Haf]. apply (vstep _ _ _ _ _ _ _ _ _ Hv Hst). apply (consume _ _ _ Ht). discriminate. }
    assert (Hbr : all_bytes r = true) by (cbn [all_bytes forallb] in Hb0; apply andb_prop in Hb0; apply Hb0).
    destruct (c =? 34) eqn:C4.
    { (* string *)
      assert (c = 34) by lia. subst c.
      destruct (json_string r) as [str r1| |] eqn:ES; try discriminate. injection H as <- Hr1. subst r1.
      unfold json_string in ES.
      destruct (json_string_bytes _ _ _ _ _ ES Hbr eq_refl) as [Hsb Hb1].
      destruct (json_string_inv _ _ _ _ _ ES) as (body & t & fu & Er & Ek & Hu & Hsc).
      cbn [rev app] in Ek. subst t.
      assert (Ht : trim_left b = 34 :: body ++ 34 :: rest).
      { rewrite <- Er. apply trim_left_head; [exact E0|reflexivity]. }
      destruct (sv_str pf p s b ret Hret Hs body rest str Ht) as (p' & Hst & Haf).
      { intro i. rewrite <- Er. apply Hsc. }
      { exact (unquote_spec_fuel _ _ _ Hu). }
      exists (TVal (SStr str) true), p'. split; [split; [reflexivity|split; [exact Hsb|reflexivity]]|].
      split; [exact Hb1|]. split; [|exact Haf].
      apply (vstep _ _ _ _ _ _ _ _ _ Hv Hst).
      replace (34 :: body ++ 34 :: rest) with ((34 :: body ++ [34]) ++ rest) in Ht
        by (cbn [app]; rewrite <- app_assoc; reflexivity).
      apply (consume _ _ _ Ht). discriminate. }
    destruct (c =? 91) eqn:C5.
    { (* array *)
      assert (c = 91) by lia. subst c.
      assert (Ht : trim_left b = 91 :: r) by (apply trim_left_head; [exact E0|reflexivity]).
      destruct (trim_cons_length _ _ _ Ht) as [L0 Hne0].
      pose proof (sv_arr pf p s b ret Hs r Ht) as Hst.
      set (pa := jpush (jset_cur p ret) jArr) in *.
      set (sa := sapp s [EArrStart (-1) BAny]) in *.
      assert (Hsa : s_fail sa = None) by (subst sa; rewrite sapp_fail; exact Hs).
      assert (Hca : jp_cur pa = jArr) by reflexivity.
      assert (Hsta : jp_states pa = ret :: jp_states p) by (subst pa; cbn [jpush jp_states jset_cur jp_cur]; rewrite Hret; reflexivity).
      assert (Hcla : clean pa) by (destruct Hcl; split; assumption).
      pose proof (vstep _ _ _ _ _ _ _ _ _ Hv Hst L0) as Hrun0.
      destruct (skip_ws r) as [|d r'] eqn:E1; [discriminate|].
      pose proof (skip_ws_tail_bytes _ _ _ Hbr E1) as Hb'.
      destruct (d =? 93) eqn:D.
      - (* [] *)
        injection H as <- <-. assert (d = 93) by lia. subst d.
        assert (Ht1 : trim_left r = 93 :: r') by (apply trim_left_head; [exact E1|reflexivity]).
        destruct (end_step pa sa r 93 r' EArrEnd ret (jp_states p) Ht1 Hsta Hcla Hsa eq_refl)
          as (p' & Hrun & Hc' & Hs' & Hcl').
        { rewrite jstep_arr by exact Hca. unfold step_array. rewrite Ht1. reflexivity. }
        exists (TArr (-1) BAny []), p'. split; [apply (good_arr []); reflexivity|].
        split; [exact Hb'|]. split; [|split; [exact Hc'|split; [exact Hs'|exact Hcl']]].
        eapply jsteps_trans; [exact Hrun0|]. subst sa. rewrite sapp_app in Hrun. exact Hrun.
      - (* elements *)
        assert (Hhead : exists v1 r1, json_ref pf f r = RValue v1 r1).
        { destruct f as [|f']; [discriminate|]. cbn [json_elems] in H.
          destruct (json_ref pf (S f') r) as [v1 r1| | |]; try discriminate. eauto. }
        destruct Hhead as (v1 & r1 & Ehead).
        assert (Hdsp : is_space d = false).
        { destruct f as [|f']; [discriminate|]. cbn [json_ref] in Ehead. rewrite E1 in Ehead.
          unfold is_space.
          destruct (d =? 110) eqn:X1; [lia|]. destruct (d =? 116) eqn:X2; [lia|].
          destruct (d =? 102) eqn:X3; [lia|]. destruct (d =? 34) eqn:X4; [lia|].
          destruct (d =? 91) eqn:X5; [lia|]. destruct (d =? 123) eqn:X6; [lia|].
          destruct ((d =? 45) || is_dig d) eqn:X7; [unfold is_dig in X7; lia|discriminate]. }
        assert (Ht1 : trim_left r = d :: r') by (apply trim_left_head; [exact E1|exact Hdsp]).
        set (pv := jset_cur pa jArrValue).
        assert (Hstep : jstep pf pa sa r = JS pv sa (d :: r') false jpnil).
        { rewrite jstep_arr by exact Hca. unfold step_array. rewrite Ht1, D. reflexivity. }
        assert (Hmu : (mu pv (d :: r') < mu pa r)%nat).
        { pose proof (trim_left_length r) as L. rewrite Ht1 in L. unfold mu, bonus. subst pv pa. jsimpl.
          cbn. cbn [length] in L. lia. }
        assert (Hner : r <> []) by (intro; subst r; discriminate).
        assert (Hdr : json_elems (json_ref pf f) f (d :: r') [] = RValue v rest).
        { (* json_ref skips ws itself: the same result from the trimmed input *)
          destruct f as [|f']; [discriminate|]. cbn [json_elems] in H |- *.
          assert (Esame : json_ref pf (S f') (d :: r') = json_ref pf (S f') r).
          { cbn [json_ref]. rewrite E1. cbn [skip_ws].
            replace (is_ws d) with false; [reflexivity|].
            destruct (is_ws d) eqn:W; [|reflexivity]. apply is_ws_is_space in W. congruence. }
          rewrite Esame. exact H. }
        destruct (elems_sim f IH _ _ _ _ _ Hdr ltac:(cbn [all_bytes forallb]; apply skip_ws_bytes in Hbr; rewrite E1 in Hbr; exact Hbr)
                    pv sa ret (jp_states p) eq_refl Hsta Hcla Hsa)
          as (ts & p' & -> & Hw & Hn & Hbrest & Hrun & Hc' & Hs' & Hcl').
        exists (TArr (-1) BAny ts), p'. split; [apply good_arr; assumption|].
        split; [exact Hbrest|]. split; [|split; [exact Hc'|split; [exact Hs'|exact Hcl']]].
        eapply jsteps_trans; [exact Hrun0|].
        eapply jsteps_step; [exact Hner|reflexivity|exact Hstep|exact Hmu|].
        subst sa. rewrite sapp_app in Hrun. rewrite flatten_arr. exact Hrun. }
    destruct (c =? 123) eqn:C6.
    { (* object *)
      assert (c = 123) by lia. subst c.
      assert (Ht : trim_left b = 123 :: r) by (apply trim_left_head; [exact E0|reflexivity]).
      destruct (trim_cons_length _ _ _ Ht) as [L0 Hne0].
      pose proof (sv_obj pf p s b ret Hs r Ht) as Hst.
      set (pa := jpush (jset_cur p ret) jDict) in *.
      set (sa := sapp s [EObjStart (-1) BAny]) in *.
      assert (Hsa : s_fail sa = None) by (subst sa; rewrite sapp_fail; exact Hs).
      assert (Hca : jp_cur pa = jDict) by reflexivity.
      assert (Hsta : jp_states pa = ret :: jp_states p) by (subst pa; cbn [jpush jp_states jset_cur jp_cur]; rewrite Hret; reflexivity).
      assert (Hcla : clean pa) by (destruct Hcl; split; assumption).
      pose proof (vstep _ _ _ _ _ _ _ _ _ Hv Hst L0) as Hrun0.
      destruct (skip_ws r) as [|d r'] eqn:E1; [discriminate|].
      pose proof (skip_ws_tail_bytes _ _ _ Hbr E1) as Hb'.
      destruct (d =? 125) eqn:D.
      - (* {} *)
        injection H as <- <-. assert (d = 125) by lia. subst d.
        assert (Ht1 : trim_left r = 125 :: r') by (apply trim_left_head; [exact E1|reflexivity]).
        destruct (end_step pa sa r 125 r' EObjEnd ret (jp_states p) Ht1 Hsta Hcla Hsa eq_refl)
          as (p' & Hrun & Hc' & Hs' & Hcl').
        { rewrite jstep_dict by exact Hca. unfold step_dict. rewrite Ht1. reflexivity. }
        exists (TObj (-1) BAny []), p'. split; [apply (good_obj []); reflexivity|].
        split; [exact Hb'|]. split; [|split; [exact Hc'|split; [exact Hs'|exact Hcl']]].
        eapply jsteps_trans; [exact Hrun0|]. subst sa. rewrite sapp_app in Hrun. exact Hrun.
      - (* members *)
        destruct (members_sim f IH _ _ _ _ _ H Hbr pa sa ret (jp_states p) (or_introl Hca) Hsta Hcla Hsa)
          as (ms & p' & -> & Hw & Hn & Hbrest & Hrun & Hc' & Hs' & Hcl').
        exists (TObj (-1) BAny ms), p'. split; [apply good_obj; assumption|].
        split; [exact Hbrest|]. split; [|split; [exact Hc'|split; [exact Hs'|exact Hcl']]].
        eapply jsteps_trans; [exact Hrun0|].
        subst sa. rewrite sapp_app in Hrun. rewrite flatten_obj. exact Hrun. }
    destruct ((c =? 45) || is_dig c) eqn:C7; [|discriminate].
    (* number *)
    destruct (json_number (c :: r)) as [lit isint r1| |] eqn:EN; try discriminate.
    destruct (json_num_value pf lit isint) as [n|] eqn:EV; [|discriminate]. injection H as <- Hr1. subst r1.
    destruct Hend as [Hend|Hend]; [discriminate|].
    destruct (json_number_inv _ _ _ _ EN) as (Er & Hns & Hde & Hshape).
    assert (Ht : trim_left b = c :: r).
    { apply trim_left_head; [exact E0|]. unfold is_space. unfold is_dig in C7. lia. }
    pose proof (sv_num_head pf p s b ret c r Ht C7) as Hst.
    set (pn := jset_isdbl (jpush (jset_lit (jset_isdbl (jset_cur p ret) false) []) jNumber) false) in *.
    rewrite Er in Hst. rewrite (step_number_done pf pn s lit rest eq_refl eq_refl Hns Hend) in Hst.
    destruct (report_ok pf s lit isint n pf_ok EV Hs Hshape) as (k & z & Hrep & Hcn & Hok).
    rewrite Hde, Hrep in Hst.
    exists (TVal (SNum k z) false), (jpop (jset_lit (jset_isdbl pn (negb isint)) [])).
    split; [split; [cbn [value_of scalar_value cv]; rewrite Hcn; reflexivity|split; [exact Hok|reflexivity]]|].
    split; [rewrite Er, all_bytes_app in Hb0; apply andb_prop in Hb0; apply Hb0|].
    split.
    - apply (vstep _ _ _ _ _ _ _ _ _ Hv Hst). rewrite Er in Ht. apply (consume _ _ _ Ht).
      intro; subst lit. cbn [app] in Er. rewrite <- Er in Hend. cbn [stop_next] in Hend.
      unfold is_stop in Hend. unfold is_dig in C7. lia.
    - unfold after, clean, jpop. subst pn. jsimpl. rewrite Hret. jsimpl. destruct Hcl. auto.
  Qed.
End Sim.
Print Assumptions sim_all.

(* ---------- 4.7 whole documents ---------- *)
Lemma json_elems_shape value g : forall b acc v rest,
  json_elems value g b acc = RValue v rest -> is_cnum v = false.
Proof.
  induction g as [|g IH]; intros b acc v rest H; [discriminate|]. cbn [json_elems] in H.
  destruct (value b) as [v1 r1| | |]; try discriminate.
  destruct (skip_ws r1) as [|c r']; [discriminate|].
  destruct (c =? 44); [exact (IH _ _ _ _ H)|].
  destruct (c =? 93); [|discriminate]. injection H as <- _. reflexivity.
Qed.

Lemma json_members_shape value g : forall b acc v rest,
  json_members value g b acc = RValue v rest -> is_cnum v = false.
Proof.
  induction g as [|g IH]; intros b acc v rest H; [discriminate|]. cbn [json_members] in H.
  destruct (skip_ws b) as [|q r0]; [discriminate|].
  destruct (negb (q =? 34)); [discriminate|].
  destruct (json_string r0) as [k r1| |]; try discriminate.
  destruct (skip_ws r1) as [|c r2]; [discriminate|].
  destruct (negb (c =? 58)); [discriminate|].
  destruct (value r2) as [v1 r3| | |]; try discriminate.
  destruct (skip_ws r3) as [|d r4]; [discriminate|].
  destruct (d =? 44); [exact (IH _ _ _ _ H)|].
  destruct (d =? 125); [|discriminate]. injection H as <- _. reflexivity.
Qed.

Lemma json_ref_num_inv pf f b n rest : json_ref pf (S f) b = RValue (CNum n) rest ->
  exists c r lit isint, skip_ws b = c :: r /\ (c =? 45) || is_dig c = true /\
    json_number (c :: r) = NumOk lit isint rest /\ json_num_value pf lit isint = Some n.
Proof.
  intro H. cbn [json_ref] in H.
  destruct (skip_ws b) as [|c r] eqn:E0; [discriminate|].
  destruct (c =? 110). { apply lit_value_inv in H. destruct H; discriminate. }
  destruct (c =? 116). { apply lit_value_inv in H. destruct H; discriminate. }
  destruct (c =? 102). { apply lit_value_inv in H. destruct H; discriminate. }
  destruct (c =? 34). { destruct (json_string r); discriminate. }
  destruct (c =? 91).
  { destruct (skip_ws r) as [|d r']; [discriminate|]. destruct (d =? 93); [discriminate|].
    apply json_elems_shape in H. discriminate. }
  destruct (c =? 123).
  { destruct (skip_ws r) as [|d r']; [discriminate|]. destruct (d =? 125); [discriminate|].
    apply json_members_shape in H. discriminate. }
  destruct ((c =? 45) || is_dig c) eqn:C7; [|discriminate].
  destruct (json_number (c :: r)) as [lit isint r1| |] eqn:EN; try discriminate.
  destruct (json_num_value pf lit isint) as [n'|] eqn:EV; [|discriminate].
  injection H as <- <-. exists c, r, lit, isint. auto.
Qed.

Lemma with_final_idle pf p s : jp_cur p = jStart -> jp_states p = [] ->
  with_final pf p s = Ok (p, s, jpnil).
Proof.
  intros Hc Hs. unfold with_final, jfinalize. rewrite Hc.
  change (jStart =? jNumber) with false. cbv iota beta. rewrite Hs. reflexivity.
Qed.

Lemma s_log_sink0 evs : s_log (sapp (sink0 None) evs) = evs.
Proof. rewrite sapp_log. reflexivity. Qed.

(* C04, acceptance: every document of the RFC 8259 grammar (as read by the
   reference decoder) is accepted by Parser.Parse, and the events delivered
   to the visitor form one contract-conforming value that is the reference
   value: strings unescaped, integers exact, floats through the same
   oracle, members and elements in document order. *)
Theorem C04_accept_events pf b v :
  (forall l z, pf l = Some z -> in_u 64 z = true) ->
  json_decode pf b = RValue v [] -> all_bytes b = true ->
  exists t p, jrun_parse pf None b = Ok (flatten t, jpnil, p) /\
    norm t = t /\ wf_tree t = true /\ cv (value_of t) = v.
Proof.
  intros pf_ok H Hb. unfold json_decode in H.
  destruct (json_ref pf (S (length b)) b) as [v0 r| | |] eqn:EJ; try discriminate.
  destruct (skip_ws r) as [|x r''] eqn:ER; [|discriminate]. injection H as ->.
  assert (Hcase : (is_cnum v = false \/ stop_next r = true) \/ (is_cnum v = true /\ r = [])).
  { destruct r as [|y r0]; [destruct (is_cnum v); auto|].
    left. right. cbn [skip_ws] in ER. cbn [stop_next].
    destruct (is_ws y) eqn:W; [apply is_ws_is_stop, W|discriminate]. }
  destruct Hcase as [Hend | [Hnum ->]].
  - (* the value is delimited *)
    destruct (sim_all pf pf_ok _ _ _ _ EJ Hb Hend jparser0 (sink0 None) jStart
                (or_introl (conj eq_refl eq_refl)) (conj eq_refl eq_refl) eq_refl)
      as (t & p' & (Gv & Gw & Gn) & Hbr & Hrun & (Hc & Hst & Hcl)).
    assert (Hrun' : jsteps pf jparser0 (sink0 None) b p' (sapp (sink0 None) (flatten t)) []).
    { destruct r as [|y r0]; [exact Hrun|].
      eapply jsteps_snoc; [exact Hrun|discriminate|rewrite Hc; reflexivity| |apply mu_consume; cbn [length]; lia].
      rewrite jstep_start by exact Hc. unfold step_value. rewrite trim_left_skip_ws, ER. reflexivity. }
    exists t, p'. rewrite (jrun_parse_steps _ _ _ _ Hrun').
    rewrite with_final_idle by assumption. rewrite s_log_sink0. auto.
  - (* a number that runs to the end of the input: delivered by finalize *)
    destruct v as [| | |n| |]; try discriminate.
    destruct (json_ref_num_inv _ _ _ _ _ EJ) as (c & r0 & lit & isint & E0 & C7 & EN & EV).
    destruct (json_number_inv _ _ _ _ EN) as (Er & Hns & Hde & Hshape).
    rewrite app_nil_r in Er.
    assert (Ht : trim_left b = c :: r0).
    { apply trim_left_head; [exact E0|]. unfold is_space. unfold is_dig in C7. lia. }
    destruct (trim_cons_length _ _ _ Ht) as [L0 Hne0].
    pose proof (sv_num_head pf jparser0 (sink0 None) b jStart c r0 Ht C7) as Hst.
    set (pn := jset_isdbl (jpush (jset_lit (jset_isdbl (jset_cur jparser0 jStart) false) []) jNumber) false) in *.
    rewrite Er, (step_number_eof pf pn (sink0 None) lit eq_refl eq_refl Hns) in Hst.
    assert (Hrun : jsteps pf jparser0 (sink0 None) b (jset_lit (jset_isdbl pn (has_de lit)) lit) (sink0 None) []).
    { apply (vstep _ _ _ _ _ _ _ _ _ (or_introl (conj eq_refl eq_refl) : vstate jparser0 jStart) Hst). cbn [length]. lia. }
    destruct (report_ok pf (sink0 None) lit isint n pf_ok EV eq_refl Hshape) as (k & z & Hrep & Hcn & Hok).
    exists (TVal (SNum k z) false), (jset_lit (jpop (jset_lit (jset_isdbl pn (has_de lit)) lit)) []).
    rewrite (jrun_parse_steps _ _ _ _ Hrun).
    unfold with_final, jfinalize. subst pn. unfold jparser0. jsimpl.
    change (jNumber =? jNumber) with true. cbv iota. rewrite Hde, Hrep.
    change (jisnil jpnil) with true. cbv iota. change (jStart =? jFailed) with false. cbv iota. jsimpl.
    split; [reflexivity|]. split; [reflexivity|]. split; [exact Hok|].
    cbn [value_of scalar_value cv]. rewrite Hcn. reflexivity.
Qed.
Print Assumptions C04_accept_events.

Theorem C04_accept pf b v :
  (forall l z, pf l = Some z -> in_u 64 z = true) ->
  json_decode pf b = RValue v [] -> all_bytes b = true ->
  exists evs t p, jrun_parse pf None b = Ok (evs, jpnil, p) /\
    stream_tree evs = Some t /\ wf_tree t = true /\ cv (value_of t) = v.
Proof.
  intros pf_ok H Hb.
  destruct (C04_accept_events pf b v pf_ok H Hb) as (t & p & Hrun & Hn & Hw & Hv).
  exists (flatten t), t, p. split; [exact Hrun|]. split; [|auto].
  rewrite stream_tree_flatten, Hn. reflexivity.
Qed.
Print Assumptions C04_accept.

(* ---------- 4.8 numbers: the report is the reference value or an error ---------- *)
(* C04_number: for every literal of the RFC number grammar, reportNumber
   (called with the parser's own classification of the literal) delivers the
   exact integer, or the oracle's float for the same bytes, or an error;
   never another number. *)
Theorem C04_number pf s lit isint :
  json_number lit = NumOk lit isint [] ->
  report_number pf s lit (has_de lit) =
  match json_num_value pf lit isint with
  | Some (CInt z) => Some (jvis s (EVal (SNum (int_kind z) z)))
  | Some (CF64 bits) => Some (jvis s (EVal (SNum KFloat64 bits)))
  | _ => Some (s, jeGeneric)
  end.
Proof.
  intro H. destruct (json_number_inv _ _ _ _ H) as (_ & _ & Hde & Hshape). rewrite Hde.
  destruct isint; cbn [negb].
  - rewrite (report_number_int pf s lit (Hshape eq_refl)).
    destruct (json_num_value pf lit true) as [[z|x|x]|] eqn:E; try reflexivity;
      unfold json_num_value in E; destruct (_ && _); discriminate.
  - rewrite report_number_float.
    destruct (json_num_value pf lit false) as [[z|x|x]|] eqn:E; try reflexivity;
      unfold json_num_value in E; destruct (pf lit); discriminate.
Qed.
Print Assumptions C04_number.

(* ---------- 4.9 streams of values ---------- *)
Lemma skip_ws_idem b : skip_ws (skip_ws b) = skip_ws b.
Proof.
  induction b as [|c r IH]; [reflexivity|]. cbn [skip_ws]. destruct (is_ws c) eqn:E; [exact IH|].
  cbn [skip_ws]. rewrite E. reflexivity.
Qed.

Lemma json_ref_skip_ws pf f b : json_ref pf f (skip_ws b) = json_ref pf f b.
Proof. destruct f as [|f]; [reflexivity|]. cbn [json_ref]. rewrite skip_ws_idem. reflexivity. Qed.

Lemma skip_ws_length b : (length (skip_ws b) <= length b)%nat.
Proof. induction b as [|c r IH]; [cbn; lia|]. cbn [skip_ws]. destruct (is_ws c); cbn [length] in *; lia. Qed.

Section Stream.
  Variable pf : bytes -> option Z.
  Hypothesis pf_ok : forall l z, pf l = Some z -> in_u 64 z = true.

  (* a number that runs to the end of the input is delivered by finalize *)
  Lemma num_eof_sim f b n p s :
    json_ref pf (S f) b = RValue (CNum n) [] ->
    jp_cur p = jStart -> jp_states p = [] -> clean p -> s_fail s = None ->
    exists k z pa pb, jsteps pf p s b pa s [] /\
      with_final pf pa s = Ok (pb, sapp s [EVal (SNum k z)], jpnil) /\
      canon_num k z = n /\ nkind_ok k z = true.
  Proof.
    intros EJ Hc Hst Hcl Hs.
    destruct (json_ref_num_inv _ _ _ _ _ EJ) as (c & r0 & lit & isint & E0 & C7 & EN & EV).
    destruct (json_number_inv _ _ _ _ EN) as (Er & Hns & Hde & Hshape).
    rewrite app_nil_r in Er.
    assert (Ht : trim_left b = c :: r0).
    { apply trim_left_head; [exact E0|]. unfold is_space. unfold is_dig in C7. lia. }
    destruct (trim_cons_length _ _ _ Ht) as [L0 Hne0].
    pose proof (sv_num_head pf p s b jStart c r0 Ht C7) as Hsv.
    set (pn := jset_isdbl (jpush (jset_lit (jset_isdbl (jset_cur p jStart) false) []) jNumber) false) in *.
    rewrite Er, (step_number_eof pf pn s lit eq_refl eq_refl Hns) in Hsv.
    destruct (report_ok pf s lit isint n pf_ok EV Hs Hshape) as (k & z & Hrep & Hcn & Hok).
    exists k, z, (jset_lit (jset_isdbl pn (has_de lit)) lit), (jset_lit (jpop (jset_lit (jset_isdbl pn (has_de lit)) lit)) []).
    split; [|split; [|split; assumption]].
    - apply (vstep _ _ _ _ _ _ _ _ _ (or_introl (conj Hc eq_refl) : vstate p jStart) Hsv). cbn [length]. lia.
    - set (pa := jset_lit (jset_isdbl pn (has_de lit)) lit).
      assert (Hpop : jp_states (jpop pa) = [] /\ jp_cur (jpop pa) = jStart).
      { subst pa pn. unfold jpop, jpush. jsimpl. change (jStart =? jFailed) with false. cbv iota. jsimpl.
        rewrite Hst. split; reflexivity. }
      destruct Hpop as [Hp1 Hp2].
      unfold with_final, jfinalize.
      change (jp_cur pa) with jNumber. change (jp_lit pa) with lit. change (jp_isdbl pa) with (has_de lit).
      change (jNumber =? jNumber) with true. cbv iota. rewrite Hde, Hrep.
      change (jisnil jpnil) with true. cbv iota beta. cbn [negb].
      change (jp_states (jset_lit (jpop pa) [])) with (jp_states (jpop pa)).
      change (jp_cur (jset_lit (jpop pa) [])) with (jp_cur (jpop pa)). rewrite Hp1, Hp2. reflexivity.
  Qed.

  Lemma stream_sim : forall fuel b vs, json_decode_all pf fuel b = Some vs -> all_bytes b = true ->
    forall p s, jp_cur p = jStart -> jp_states p = [] -> clean p -> s_fail s = None ->
    exists ts pa sa pb, jsteps pf p s b pa sa [] /\
      with_final pf pa sa = Ok (pb, sapp s (flat_map flatten ts), jpnil) /\
      tvals ts = vs /\ forallb wf_tree ts = true /\ map norm ts = ts.
  Proof.
    induction fuel as [|fuel IH]; intros b vs H Hb p s Hc Hst Hcl Hs; [discriminate|].
    cbn [json_decode_all] in H.
    destruct (skip_ws b) as [|c r] eqn:E0.
    - (* only whitespace is left *)
      injection H as <-. exists [], p, s, p. cbn [flat_map]. rewrite sapp_nil.
      split; [|split; [apply with_final_idle; assumption|repeat split]].
      destruct b as [|y b0]; [apply jsteps_refl|].
      eapply jsteps_one; [discriminate|rewrite Hc; reflexivity| |apply mu_consume; cbn [length]; lia].
      rewrite jstep_start by exact Hc. unfold step_value. rewrite trim_left_skip_ws, E0. reflexivity.
    - destruct (json_ref pf (S (length (c :: r))) (c :: r)) as [v rest| | |] eqn:EJ; try discriminate.
      rewrite <- E0, json_ref_skip_ws in EJ.
      destruct (match rest with [] => true | x :: _ => is_ws x end) eqn:Sep; [|discriminate].
      destruct (json_decode_all pf fuel rest) as [vs'|] eqn:ER; [|discriminate]. injection H as <-.
      assert (Hcase : (is_cnum v = false \/ stop_next rest = true) \/ (is_cnum v = true /\ rest = [])).
      { destruct rest as [|y r0]; [destruct (is_cnum v); auto|].
        left. right. cbn [stop_next]. apply is_ws_is_stop, Sep. }
      destruct Hcase as [Hend | [Hnum ->]].
      + destruct (sim_all pf pf_ok _ _ _ _ EJ Hb Hend p s jStart
                    (or_introl (conj Hc eq_refl)) Hcl Hs)
          as (t & p1 & (Gv & Gw & Gn) & Hbr & Hrun & (Hc1 & Hst1 & Hcl1)).
        destruct (IH _ _ ER Hbr p1 (sapp s (flatten t)) Hc1 ltac:(rewrite Hst1; exact Hst) Hcl1
                    ltac:(rewrite sapp_fail; exact Hs))
          as (ts & pa & sa & pb & Hrun' & Hfin & Hvs & Hw & Hn).
        exists (t :: ts), pa, sa, pb.
        split; [eapply jsteps_trans; eassumption|].
        split; [rewrite Hfin, sapp_app; reflexivity|].
        split; [cbn [tvals map]; rewrite Gv; fold (tvals ts); rewrite Hvs; reflexivity|].
        split; [cbn [forallb]; rewrite Gw, Hw; reflexivity|].
        cbn [map]. rewrite Gn, Hn. reflexivity.
      + destruct v as [| | |n| |]; try discriminate.
        destruct fuel as [|fuel']; [discriminate|]. cbn in ER. injection ER as <-.
        destruct (num_eof_sim _ _ _ p s EJ Hc Hst Hcl Hs) as (k & z & pa & pb & Hrun & Hfin & Hcn & Hok).
        exists [TVal (SNum k z) false], pa, s, pb.
        split; [exact Hrun|]. split; [exact Hfin|].
        split; [cbn [tvals map value_of scalar_value cv]; rewrite Hcn; reflexivity|].
        split; [cbn [forallb wf_tree scalar_ok]; rewrite Hok; reflexivity|reflexivity].
  Qed.
End Stream.

(* C04 for a stream of whitespace-separated documents: Parser.Parse delivers
   the values one after the other *)
Theorem C04_accept_stream pf fuel b vs :
  (forall l z, pf l = Some z -> in_u 64 z = true) ->
  json_decode_all pf fuel b = Some vs -> all_bytes b = true ->
  exists ts p, jrun_parse pf None b = Ok (flat_map flatten ts, jpnil, p) /\
    map norm ts = ts /\ forallb wf_tree ts = true /\ map (fun t => cv (value_of t)) ts = vs.
Proof.
  intros pf_ok H Hb.
  destruct (stream_sim pf pf_ok _ _ _ H Hb jparser0 (sink0 None) eq_refl eq_refl (conj eq_refl eq_refl) eq_refl)
    as (ts & pa & sa & pb & Hrun & Hfin & Hvs & Hw & Hn).
  exists ts, pb. rewrite (jrun_parse_steps _ _ _ _ Hrun), Hfin, s_log_sink0. auto.
Qed.
Print Assumptions C04_accept_stream.
