From SF Require Import Base.Prelude Core.Events Core.Latch.
Open Scope Z_scope.

Section LatchProofs.
  Context {S I : Type}.
  Variable isnil : Z -> bool.
  Variable step : S -> sink -> I -> res (S * sink * Z).

  (* as long as nothing has failed the guard is transparent *)
  Lemma latched_transparent p s i p1 s1 err :
    step p s i = Ok (p1, s1, err) ->
    latched isnil step (p, None) s i = Ok ((p1, if isnil err then None else Some err), s1, err).
  Proof. intro H. unfold latched. cbn [snd fst]. rewrite H. reflexivity. Qed.

  (* a failed state answers every call with the recorded error and touches nothing *)
  Lemma latched_failed p e s i : latched isnil step (p, Some e) s i = Ok ((p, Some e), s, e).
  Proof. reflexivity. Qed.

  Lemma latched_all_failed p e s is : forall last,
    latched_all isnil step (p, Some e) s is last = Ok ((p, Some e), s, match is with [] => last | _ => e end).
  Proof.
    induction is as [|i r IH]; intro last; cbn [latched_all]; [reflexivity|].
    rewrite latched_failed, IH. destruct r; reflexivity.
  Qed.

  (* C16, for a caller that does not stop at the first error: once a call has returned an
     error, every further call returns that same error, the visitor (sink) sees nothing more
     and the component's state is not touched again. *)
  Theorem failed_stays_failed : forall st s i st' s' e,
    latched isnil step st s i = Ok (st', s', e) -> isnil e = false ->
    (forall e0, snd st = Some e0 -> isnil e0 = false) ->
    snd st' = Some e /\
    forall is, latched_all isnil step st' s' is e = Ok (st', s', e).
  Proof.
    intros [p o] s i st' s' e H He Hinv. unfold latched in H. cbn [snd fst] in *.
    destruct o as [e0|].
    - inversion H; subst. split; [reflexivity|]. intro is. rewrite latched_all_failed. destruct is; reflexivity.
    - destruct (step p s i) as [[[p1 s1] err]|x|w|] eqn:E; try discriminate H.
      inversion H; subst. rewrite He. split; [reflexivity|].
      intro is. rewrite latched_all_failed. destruct is; reflexivity.
  Qed.

  (* ... and the recorded error is never nil, so the invariant of the theorem is kept by every call *)
  Theorem latch_invariant : forall st s i st' s' e,
    latched isnil step st s i = Ok (st', s', e) ->
    (forall e0, snd st = Some e0 -> isnil e0 = false) ->
    (forall e0, snd st' = Some e0 -> isnil e0 = false).
  Proof.
    intros [p o] s i st' s' e H Hinv e1 H1. unfold latched in H. cbn [snd fst] in *.
    destruct o as [e0|].
    - inversion H; subst. cbn [snd] in H1. apply Hinv. exact H1.
    - destruct (step p s i) as [[[p1 s1] err]|x|w|] eqn:E; try discriminate H.
      inversion H; subst. cbn [snd] in H1. destruct (isnil e) eqn:N; [discriminate H1|].
      inversion H1; subst. exact N.
  Qed.
End LatchProofs.

Print Assumptions failed_stays_failed.
Print Assumptions latch_invariant.

(* the instances: what the guard is wrapped around in each component *)
From SF Require Cbor.Parse Ubjson.Parse Json.Parse.

(* cborl Parser: Write (false) and Parse (true) on one parser *)
Definition cbor_call (p : Cbor.Parse.cparser) (s : sink) (i : bool * bytes) :=
  if fst i then Cbor.Parse.p_parse p s (snd i) else Cbor.Parse.p_write p s (snd i).
Definition ubj_call (p : Ubjson.Parse.uparser) (s : sink) (i : bool * bytes) :=
  if fst i then Ubjson.Parse.up_parse p s (snd i) else Ubjson.Parse.up_write p s (snd i).
(* json Parser: Write only (Parse starts a new document) *)
Definition json_call (pf : bytes -> option Z) (p : Json.Parse.jparser) (s : sink) (b : bytes) :=
  Json.Parse.jp_write pf p s b.

Corollary cbor_failed_stays_failed : forall st s i st' s' e,
  latched Cbor.Parse.isnil cbor_call st s i = Ok (st', s', e) -> Cbor.Parse.isnil e = false ->
  (forall e0, snd st = Some e0 -> Cbor.Parse.isnil e0 = false) ->
  forall is, latched_all Cbor.Parse.isnil cbor_call st' s' is e = Ok (st', s', e).
Proof. intros. eapply failed_stays_failed; eauto. Qed.

Corollary ubj_failed_stays_failed : forall st s i st' s' e,
  latched Ubjson.Parse.unil ubj_call st s i = Ok (st', s', e) -> Ubjson.Parse.unil e = false ->
  (forall e0, snd st = Some e0 -> Ubjson.Parse.unil e0 = false) ->
  forall is, latched_all Ubjson.Parse.unil ubj_call st' s' is e = Ok (st', s', e).
Proof. intros. eapply failed_stays_failed; eauto. Qed.

Corollary json_failed_stays_failed : forall pf st s i st' s' e,
  latched Json.Parse.jisnil (json_call pf) st s i = Ok (st', s', e) -> Json.Parse.jisnil e = false ->
  (forall e0, snd st = Some e0 -> Json.Parse.jisnil e0 = false) ->
  forall is, latched_all Json.Parse.jisnil (json_call pf) st' s' is e = Ok (st', s', e).
Proof. intros. eapply failed_stays_failed; eauto. Qed.
