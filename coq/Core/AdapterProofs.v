(* C09 and C16 for the adapters (array.go / map.go / string.go):
   - reading a flattened tree back gives the tree ([parse_flatten]), hence
     [contract_ok (flatten t) = wf_tree t];
   - the expansion of a well-typed extended event is a well-formed stream;
   - a visitor error is returned at once and nothing is delivered after it. *)
From Coq Require Import List NArith ZArith Bool Lia.
From Coq Require Import ZifyBool ZifyNat ZifyN.
From SF Require Import Base.Prelude Base.PreludeProofs Core.Events Core.EventsProofs.
Import ListNotations.
Open Scope Z_scope.

Ltac Zify.zify_post_hook ::= Z.div_mod_to_equations.

(* ====================================================================== *)
(* Part 0: the anonymous loops of parse_tree, named                        *)
(* ====================================================================== *)

Definition parse_elems (f : nat) (len : Z) (bt : btype) :=
  fix elems (g : nat) (evs : list event) (acc : list tree) : option (tree * list event) :=
    match g with
    | O => None
    | S g' =>
        match evs with
        | EArrEnd :: r' => Some (TArr len bt (rev acc), r')
        | _ => match parse_tree f evs with
               | Some (t, r') => elems g' r' (t :: acc)
               | None => None
               end
        end
    end.

Definition parse_members (f : nat) (len : Z) (bt : btype) :=
  fix members (g : nat) (evs : list event) (acc : list (bytes * bool * tree)) : option (tree * list event) :=
    match g with
    | O => None
    | S g' =>
        match evs with
        | EObjEnd :: r' => Some (TObj len bt (rev acc), r')
        | EKey k :: r' =>
            match parse_tree f r' with
            | Some (t, r'') => members g' r'' ((k, false, t) :: acc)
            | None => None
            end
        | EKeyRef k :: r' =>
            match parse_tree f r' with
            | Some (t, r'') => members g' r'' ((k, true, t) :: acc)
            | None => None
            end
        | _ => None
        end
    end.

Lemma parse_tree_O evs : parse_tree O evs = None.
Proof. reflexivity. Qed.

Lemma parse_tree_S f evs :
  parse_tree (S f) evs =
  match evs with
  | EVal s :: r => Some (TVal s false, r)
  | EStrRef s :: r => Some (TVal (SStr s) true, r)
  | EXArr bt es :: r => Some (TXArr bt es, r)
  | EXObj bt ms :: r => Some (TXObj bt ms, r)
  | EArrStart len bt :: r => parse_elems f len bt f r []
  | EObjStart len bt :: r => parse_members f len bt f r []
  | _ => None
  end.
Proof. reflexivity. Qed.

Lemma parse_elems_O f len bt evs acc : parse_elems f len bt O evs acc = None.
Proof. reflexivity. Qed.

Lemma parse_elems_S f len bt g evs acc :
  parse_elems f len bt (S g) evs acc =
  match evs with
  | EArrEnd :: r' => Some (TArr len bt (rev acc), r')
  | _ => match parse_tree f evs with
         | Some (t, r') => parse_elems f len bt g r' (t :: acc)
         | None => None
         end
  end.
Proof. reflexivity. Qed.

Lemma parse_members_O f len bt evs acc : parse_members f len bt O evs acc = None.
Proof. reflexivity. Qed.

Lemma parse_members_S f len bt g evs acc :
  parse_members f len bt (S g) evs acc =
  match evs with
  | EObjEnd :: r' => Some (TObj len bt (rev acc), r')
  | EKey k :: r' =>
      match parse_tree f r' with
      | Some (t, r'') => parse_members f len bt g r'' ((k, false, t) :: acc)
      | None => None
      end
  | EKeyRef k :: r' =>
      match parse_tree f r' with
      | Some (t, r'') => parse_members f len bt g r'' ((k, true, t) :: acc)
      | None => None
      end
  | _ => None
  end.
Proof. reflexivity. Qed.

#[local] Opaque parse_tree parse_elems parse_members.

(* ====================================================================== *)
(* Part 1: parse_tree inverts flatten                                      *)
(* ====================================================================== *)

(* The by-reference flag of a value is only observable on strings. *)
Fixpoint norm (t : tree) : tree :=
  match t with
  | TVal (SStr s) true => TVal (SStr s) true
  | TVal s _ => TVal s false
  | TArr len bt es => TArr len bt (map norm es)
  | TObj len bt ms => TObj len bt (map (fun m => (fst m, norm (snd m))) ms)
  | TXArr bt es => TXArr bt es
  | TXObj bt ms => TXObj bt ms
  end.

(* the first event of a flattened tree starts a value *)
Definition starts_value (e : event) : bool :=
  match e with
  | EVal _ | EStrRef _ | EArrStart _ _ | EObjStart _ _ | EXArr _ _ | EXObj _ _ => true
  | _ => false
  end.

Lemma flatten_head t : exists h tl, flatten t = h :: tl /\ starts_value h = true.
Proof.
  destruct t as [s r|len bt es|len bt ms|bt es|bt ms].
  - destruct s, r; cbn [flatten]; eexists; eexists; split; reflexivity.
  - rewrite flatten_arr. eexists; eexists; split; reflexivity.
  - rewrite flatten_obj. eexists; eexists; split; reflexivity.
  - cbn [flatten]. eexists; eexists; split; reflexivity.
  - cbn [flatten]. eexists; eexists; split; reflexivity.
Qed.

Lemma flatten_length_pos t : (1 <= length (flatten t))%nat.
Proof.
  destruct (flatten_head t) as (h & tl & E & _). rewrite E. cbn [length]. lia.
Qed.

Lemma parse_elems_step f len bt g e rest acc :
  parse_elems f len bt (S g) (flatten e ++ rest) acc =
  match parse_tree f (flatten e ++ rest) with
  | Some (t, r') => parse_elems f len bt g r' (t :: acc)
  | None => None
  end.
Proof.
  rewrite parse_elems_S.
  destruct (flatten_head e) as (h & tl & E & Hh). rewrite E. cbn [app].
  destruct h; try discriminate Hh; reflexivity.
Qed.

Definition parse_flatten_at (t : tree) : Prop :=
  forall rest fuel, (length (flatten t) <= fuel)%nat ->
    parse_tree fuel (flatten t ++ rest) = Some (norm t, rest).

Lemma flatten_elems_cons e es : flatten_elems (e :: es) = flatten e ++ flatten_elems es.
Proof. reflexivity. Qed.

Lemma flatten_members_cons k r e ms :
  flatten_members ((k, r, e) :: ms) = key_event k r :: flatten e ++ flatten_members ms.
Proof. reflexivity. Qed.

Lemma flatten_elems_length_ge es : (length es <= length (flatten_elems es))%nat.
Proof.
  induction es as [|e es IH]; [cbn; lia|].
  rewrite flatten_elems_cons, app_length. cbn [length].
  pose proof (flatten_length_pos e). lia.
Qed.

Lemma flatten_members_length_ge ms : (length ms <= length (flatten_members ms))%nat.
Proof.
  induction ms as [|[[k r] e] ms IH]; [cbn; lia|].
  rewrite flatten_members_cons. cbn [length]. rewrite app_length. lia.
Qed.

Lemma parse_elems_flatten f len bt es :
  Forall parse_flatten_at es ->
  forall g acc rest,
    (length es < g)%nat -> (length (flatten_elems es) <= f)%nat ->
    parse_elems f len bt g (flatten_elems es ++ EArrEnd :: rest) acc =
    Some (TArr len bt (rev acc ++ map norm es), rest).
Proof.
  induction 1 as [|e es He Hes IH]; intros g acc rest Hg Hf.
  - destruct g as [|g]; [cbn in Hg; lia|].
    rewrite parse_elems_S. cbn [flatten_elems flat_map app map]. rewrite app_nil_r. reflexivity.
  - destruct g as [|g]; [cbn in Hg; lia|].
    rewrite flatten_elems_cons in *. rewrite app_length in Hf.
    rewrite <- app_assoc. rewrite parse_elems_step.
    rewrite He by lia.
    rewrite IH by (cbn [length] in Hg; lia).
    cbn [rev map]. rewrite <- app_assoc. reflexivity.
Qed.

Lemma parse_members_flatten f len bt ms :
  Forall (fun m => parse_flatten_at (snd m)) ms ->
  forall g acc rest,
    (length ms < g)%nat -> (length (flatten_members ms) <= f)%nat ->
    parse_members f len bt g (flatten_members ms ++ EObjEnd :: rest) acc =
    Some (TObj len bt (rev acc ++ map (fun m => (fst m, norm (snd m))) ms), rest).
Proof.
  induction 1 as [|[[k r] e] ms He Hes IH]; intros g acc rest Hg Hf.
  - destruct g as [|g]; [cbn in Hg; lia|].
    rewrite parse_members_S. cbn [flatten_members flat_map app map]. rewrite app_nil_r. reflexivity.
  - destruct g as [|g]; [cbn in Hg; lia|].
    rewrite flatten_members_cons in *. cbn [length] in Hf. rewrite app_length in Hf.
    cbn [snd] in He. rewrite <- app_comm_cons, <- app_assoc.
    rewrite parse_members_S.
    destruct r; cbn [key_event].
    + rewrite He by lia. rewrite IH by (cbn [length] in Hg; lia).
      cbn [rev map fst snd]. rewrite <- app_assoc. reflexivity.
    + rewrite He by lia. rewrite IH by (cbn [length] in Hg; lia).
      cbn [rev map fst snd]. rewrite <- app_assoc. reflexivity.
Qed.

(* The main inversion lemma: with enough fuel (the number of events of the
   tree), parsing [flatten t ++ rest] gives [t] (up to the unobservable
   by-reference flags) and leaves [rest]. *)
Theorem parse_flatten : forall t rest fuel,
  (length (flatten t) <= fuel)%nat ->
  parse_tree fuel (flatten t ++ rest) = Some (norm t, rest).
Proof.
  induction t as [s r|len bt es IH|len bt ms IH|bt es|bt ms] using tree_ind';
    intros rest fuel Hfuel.
  - destruct fuel as [|f]; [pose proof (flatten_length_pos (TVal s r)); lia|].
    rewrite parse_tree_S. destruct s, r; reflexivity.
  - rewrite flatten_arr in *. cbn [length] in Hfuel. rewrite app_length in Hfuel. cbn [length] in Hfuel.
    destruct fuel as [|f]; [lia|].
    cbn [app]. rewrite parse_tree_S. rewrite <- app_assoc. cbn [app].
    pose proof (flatten_elems_length_ge es).
    rewrite (parse_elems_flatten f len bt es IH) by lia. reflexivity.
  - rewrite flatten_obj in *. cbn [length] in Hfuel. rewrite app_length in Hfuel. cbn [length] in Hfuel.
    destruct fuel as [|f]; [lia|].
    cbn [app]. rewrite parse_tree_S. rewrite <- app_assoc. cbn [app].
    pose proof (flatten_members_length_ge ms).
    rewrite (parse_members_flatten f len bt ms IH) by lia. reflexivity.
  - destruct fuel as [|f]; [cbn in Hfuel; lia|]. reflexivity.
  - destruct fuel as [|f]; [cbn in Hfuel; lia|]. reflexivity.
Qed.
Print Assumptions parse_flatten.

Corollary stream_tree_flatten t : stream_tree (flatten t) = Some (norm t).
Proof.
  unfold stream_tree.
  rewrite <- (app_nil_r (flatten t)) at 2.
  rewrite parse_flatten by lia. reflexivity.
Qed.
Print Assumptions stream_tree_flatten.

(* ---------- normalisation is invisible to the contract and to values ---------- *)
Lemma tree_matches_norm bt t : tree_matches bt (norm t) = tree_matches bt t.
Proof.
  destruct t as [s r|len b es|len b ms|b es|b ms]; try reflexivity.
  destruct s, r; reflexivity.
Qed.

Lemma forallb_map {A B} (f : B -> bool) (g : A -> B) l :
  forallb f (map g l) = forallb (fun x => f (g x)) l.
Proof. induction l as [|x l IH]; cbn [map forallb]; [reflexivity|]. rewrite IH. reflexivity. Qed.

Lemma forallb_ext_Forall {A} (f g : A -> bool) l :
  Forall (fun x => f x = g x) l -> forallb f l = forallb g l.
Proof. induction 1 as [|x l Hx _ IH]; cbn [forallb]; [reflexivity|]. rewrite Hx, IH. reflexivity. Qed.

Lemma zlen_map {A B} (g : A -> B) l : zlen (map g l) = zlen l.
Proof. unfold zlen. rewrite map_length. reflexivity. Qed.

Lemma len_ok_map {A B} len (g : A -> B) l : len_ok len (map g l) = len_ok len l.
Proof. unfold len_ok. rewrite zlen_map. reflexivity. Qed.

Theorem wf_norm : forall t, wf_tree (norm t) = wf_tree t.
Proof.
  induction t as [s r|len bt es IH|len bt ms IH|bt es|bt ms] using tree_ind'.
  - destruct s, r; reflexivity.
  - cbn [norm]. rewrite !wf_arr, len_ok_map, !forallb_map. f_equal; [f_equal|].
    + apply forallb_ext_Forall. apply Forall_forall. intros x _. apply tree_matches_norm.
    + apply forallb_ext_Forall. exact IH.
  - cbn [norm]. rewrite !wf_obj, len_ok_map, !forallb_map. f_equal; [f_equal|].
    + apply forallb_ext_Forall. apply Forall_forall. intros x _. cbn [snd]. apply tree_matches_norm.
    + apply forallb_ext_Forall. eapply Forall_impl; [|exact IH].
      intros m Hm. cbn [fst snd]. rewrite Hm. reflexivity.
  - reflexivity.
  - reflexivity.
Qed.
Print Assumptions wf_norm.

Theorem value_of_norm : forall t, value_of (norm t) = value_of t.
Proof.
  induction t as [s r|len bt es IH|len bt ms IH|bt es|bt ms] using tree_ind'.
  - destruct s, r; reflexivity.
  - cbn [norm value_of]. f_equal. rewrite map_map. apply map_ext_Forall. exact IH.
  - cbn [norm value_of]. f_equal. rewrite map_map. apply map_ext_Forall.
    eapply Forall_impl; [|exact IH]. intros m Hm. cbn [fst snd]. rewrite Hm. reflexivity.
  - reflexivity.
  - reflexivity.
Qed.
Print Assumptions value_of_norm.

Theorem norm_idem : forall t, norm (norm t) = norm t.
Proof.
  induction t as [s r|len bt es IH|len bt ms IH|bt es|bt ms] using tree_ind'.
  - destruct s, r; reflexivity.
  - cbn [norm]. f_equal. rewrite map_map. apply map_ext_Forall. exact IH.
  - cbn [norm]. f_equal. rewrite map_map. apply map_ext_Forall.
    eapply Forall_impl; [|exact IH]. intros m Hm. cbn [fst snd]. rewrite Hm. reflexivity.
  - reflexivity.
  - reflexivity.
Qed.
Print Assumptions norm_idem.

Theorem flatten_norm : forall t, flatten (norm t) = flatten t.
Proof.
  induction t as [s r|len bt es IH|len bt ms IH|bt es|bt ms] using tree_ind'.
  - destruct s, r; reflexivity.
  - cbn [norm]. rewrite !flatten_arr. f_equal. f_equal.
    unfold flatten_elems. rewrite !flat_map_concat_map, map_map. f_equal.
    apply map_ext_Forall. exact IH.
  - cbn [norm]. rewrite !flatten_obj. f_equal. f_equal.
    unfold flatten_members. rewrite !flat_map_concat_map, map_map. f_equal.
    apply map_ext_Forall. eapply Forall_impl; [|exact IH].
    intros [[k r] e] Hm. cbn [fst snd] in *. rewrite Hm. reflexivity.
  - reflexivity.
  - reflexivity.
Qed.
Print Assumptions flatten_norm.

(* The monitor applied to a flattened tree is the tree contract (C09 bridge). *)
Theorem contract_flatten : forall t, contract_ok (flatten t) = wf_tree t.
Proof.
  intro t. unfold contract_ok. rewrite stream_tree_flatten. apply wf_norm.
Qed.
Print Assumptions contract_flatten.

(* ====================================================================== *)
(* Part 2: C09 for the adapters                                            *)
(* ====================================================================== *)

(* trees that are a single event *)
Definition leaf_tree (t : tree) : bool :=
  match t with TArr _ _ _ | TObj _ _ _ => false | _ => true end.

Lemma flatten_elems_vals es :
  flatten_elems (map (fun s => TVal s false) es) = map EVal es.
Proof.
  induction es as [|s es IH]; [reflexivity|].
  cbn [map]. rewrite flatten_elems_cons, IH. destruct s; reflexivity.
Qed.

Lemma flatten_members_vals (ms : list (bytes * scalar)) :
  flatten_members (map (fun m => (fst m, false, TVal (snd m) false)) ms) =
  flat_map (fun m => [EKey (fst m); EVal (snd m)]) ms.
Proof.
  induction ms as [|[k s] ms IH]; [reflexivity|].
  cbn [map flat_map fst snd]. rewrite flatten_members_cons, IH. destruct s; reflexivity.
Qed.

Lemma expand_xarr_flatten bt es :
  expand (EXArr bt es) = flatten (expand_tree_top (TXArr bt es)).
Proof.
  cbn [expand expand_tree_top]. rewrite flatten_arr, flatten_elems_vals. reflexivity.
Qed.

Lemma expand_xobj_flatten bt ms :
  expand (EXObj bt ms) = flatten (expand_tree_top (TXObj bt ms)).
Proof.
  cbn [expand expand_tree_top]. rewrite flatten_obj, flatten_members_vals. reflexivity.
Qed.

(* The expansion of a one-event tree is the flattening of its expanded tree.
   (False for TArr/TObj, whose nested extended events are expanded by
   [flat_map expand] but not by [expand_tree_top]: e.g.
   [TArr 1 BAny [TXArr BInt []]]; see [expand_deep_is_flatten] below.) *)
Theorem expand_is_flatten : forall t, leaf_tree t = true ->
  flatten (expand_tree_top t) = flat_map expand (flatten t).
Proof.
  intros t Ht. destruct t as [s r|len bt es|len bt ms|bt es|bt ms]; try discriminate Ht.
  - destruct s, r; reflexivity.
  - cbn [flatten flat_map]. rewrite app_nil_r. symmetry. apply expand_xarr_flatten.
  - cbn [flatten flat_map]. rewrite app_nil_r. symmetry. apply expand_xobj_flatten.
Qed.
Print Assumptions expand_is_flatten.

Example expand_is_flatten_counterexample :
  let t := TArr 1 BAny [TXArr BInt []] in
  flatten (expand_tree_top t) <> flat_map expand (flatten t).
Proof. cbv. discriminate. Qed.
Print Assumptions expand_is_flatten_counterexample.

Lemma xelem_ok_matches bt s : xelem_ok bt s = true ->
  tree_matches bt (TVal s false) = true /\ scalar_ok s = true.
Proof.
  unfold xelem_ok. intro H.
  destruct bt; try discriminate H; apply andb_true_iff in H; destruct H as [H1 H2];
    (split; [exact H1|exact H2]).
Qed.

Lemma len_ok_zlen {A} (l : list A) : len_ok (zlen l) l = true.
Proof. unfold len_ok. rewrite Z.eqb_refl. apply orb_true_r. Qed.

Lemma wf_expand_xobj bt ms :
  forallb (fun m => all_bytes (fst m) && xelem_ok bt (snd m)) ms = true ->
  wf_tree (expand_tree_top (TXObj bt ms)) = true.
Proof.
  intro Hwf. cbn [expand_tree_top].
  rewrite wf_obj, len_ok_map, len_ok_zlen, !forallb_map. cbn [andb fst snd].
  apply andb_true_iff; split; apply forallb_forall; intros m Hm;
    (rewrite forallb_forall in Hwf; specialize (Hwf m Hm); apply andb_true_iff in Hwf; destruct Hwf as [Hk Hwf];
     apply xelem_ok_matches in Hwf; destruct Hwf as [H1 H2]).
  - exact H1.
  - cbn [wf_tree]. rewrite Hk, H2. reflexivity.
Qed.

Theorem expand_tree_wf : forall t, wf_tree t = true -> wf_tree (expand_tree_top t) = true.
Proof.
  intros t Hwf. destruct t as [s r|len bt es|len bt ms|bt es|bt ms].
  - destruct s, r; exact Hwf.
  - exact Hwf.
  - exact Hwf.
  - cbn [expand_tree_top wf_tree] in *. change (wf_tree (TArr (zlen es) bt (map (fun s => TVal s false) es)) = true).
    rewrite wf_arr, len_ok_map, len_ok_zlen, !forallb_map. cbn [andb].
    apply andb_true_iff; split; apply forallb_forall; intros s Hs;
      (rewrite forallb_forall in Hwf; specialize (Hwf s Hs); apply xelem_ok_matches in Hwf; destruct Hwf as [H1 H2]).
    + exact H1.
    + exact H2.
  - cbn [wf_tree] in Hwf. apply andb_true_iff in Hwf. destruct Hwf as [_ Hwf].
    apply wf_expand_xobj. exact Hwf.
Qed.
Print Assumptions expand_tree_wf.

Theorem expand_tree_value : forall t, value_of (expand_tree_top t) = value_of t.
Proof.
  intro t. destruct t as [s r|len bt es|len bt ms|bt es|bt ms]; try reflexivity.
  - destruct s, r; reflexivity.
  - cbn [expand_tree_top value_of]. rewrite map_map. reflexivity.
  - cbn [expand_tree_top value_of]. rewrite map_map. reflexivity.
Qed.
Print Assumptions expand_tree_value.

(* the expanded tree is already in normal form: it is exactly what the monitor reads back *)
Lemma expand_xarr_norm bt es : norm (expand_tree_top (TXArr bt es)) = expand_tree_top (TXArr bt es).
Proof.
  cbn [expand_tree_top norm]. f_equal. rewrite map_map. apply map_ext. intro s. destruct s; reflexivity.
Qed.

Lemma expand_xobj_norm bt ms : norm (expand_tree_top (TXObj bt ms)) = expand_tree_top (TXObj bt ms).
Proof.
  cbn [expand_tree_top norm]. f_equal. rewrite map_map. apply map_ext. intro m. cbn [fst snd].
  destruct (snd m); reflexivity.
Qed.

Theorem stream_tree_expand_xarr bt es :
  stream_tree (expand (EXArr bt es)) = Some (expand_tree_top (TXArr bt es)).
Proof.
  rewrite expand_xarr_flatten, stream_tree_flatten, expand_xarr_norm. reflexivity.
Qed.
Print Assumptions stream_tree_expand_xarr.

Theorem stream_tree_expand_xobj bt ms :
  stream_tree (expand (EXObj bt ms)) = Some (expand_tree_top (TXObj bt ms)).
Proof.
  rewrite expand_xobj_flatten, stream_tree_flatten, expand_xobj_norm. reflexivity.
Qed.
Print Assumptions stream_tree_expand_xobj.

Theorem C09_adapter_arr : forall bt es,
  forallb (xelem_ok bt) es = true -> contract_ok (expand (EXArr bt es)) = true.
Proof.
  intros bt es H. rewrite expand_xarr_flatten, contract_flatten.
  apply expand_tree_wf. exact H.
Qed.
Print Assumptions C09_adapter_arr.

Theorem C09_adapter_obj : forall bt ms,
  btype_eqb bt BByte = false ->
  forallb (fun m => all_bytes (fst m) && xelem_ok bt (snd m)) ms = true ->
  contract_ok (expand (EXObj bt ms)) = true.
Proof.
  intros bt ms Hb H. rewrite expand_xobj_flatten, contract_flatten.
  apply expand_tree_wf. cbn [wf_tree]. rewrite Hb, H. reflexivity.
Qed.
Print Assumptions C09_adapter_obj.

(* The side condition [bt <> BByte] of C09_adapter_obj is not needed for the
   expanded stream (the contract on TObj does not look at it). *)
Theorem C09_adapter_obj_nobyte : forall bt ms,
  forallb (fun m => all_bytes (fst m) && xelem_ok bt (snd m)) ms = true ->
  contract_ok (expand (EXObj bt ms)) = true.
Proof.
  intros bt ms H. rewrite expand_xobj_flatten, contract_flatten.
  apply wf_expand_xobj. exact H.
Qed.
Print Assumptions C09_adapter_obj_nobyte.

Theorem C09_adapter_strref : forall s,
  contract_ok (expand (EStrRef s)) = all_bytes s.
Proof. intro s. change (expand (EStrRef s)) with (flatten (TVal (SStr s) false)). apply contract_flatten. Qed.
Print Assumptions C09_adapter_strref.

(* ====================================================================== *)
(* Part 3: C16 for the adapters                                            *)
(* ====================================================================== *)

Lemma emit_all_app a : forall s b,
  emit_all s (a ++ b) =
  let '(s', ok) := emit_all s a in if ok then emit_all s' b else (s', false).
Proof.
  induction a as [|e a IH]; intros s b; cbn [app emit_all]; [reflexivity|].
  destruct (emit s e) as [s1 ok1]. destruct ok1; [apply IH|reflexivity].
Qed.

Lemma emit_all_one s e : emit_all s [e] = emit s e.
Proof.
  cbn [emit_all]. destruct (emit s e) as [s1 ok1]. destruct ok1; reflexivity.
Qed.

(* Every adapter is: deliver the expansion, stop at the first error. *)
Theorem adapter_emit_all : forall e s, adapter s e = emit_all s (expand e).
Proof.
  intros e s.
  destruct e as [sc|b|len bt| |len bt| |k|k|bt es|bt ms];
    try (cbn [adapter expand]; rewrite emit_all_one; reflexivity).
  - cbn [adapter expand]. unfold adapter_arr. cbn [emit_all].
    destruct (emit s (EArrStart (zlen es) bt)) as [s1 ok1]. destruct ok1; cbn [negb]; [|reflexivity].
    rewrite emit_all_app. destruct (emit_all s1 (map EVal es)) as [s2 ok2].
    destruct ok2; cbn [negb]; [|reflexivity]. rewrite emit_all_one. reflexivity.
  - cbn [adapter expand]. unfold adapter_obj. cbn [emit_all].
    destruct (emit s (EObjStart (zlen ms) bt)) as [s1 ok1]. destruct ok1; cbn [negb]; [|reflexivity].
    rewrite emit_all_app.
    destruct (emit_all s1 (flat_map (fun m => [EKey (fst m); EVal (snd m)]) ms)) as [s2 ok2].
    destruct ok2; cbn [negb]; [|reflexivity]. rewrite emit_all_one. reflexivity.
Qed.
Print Assumptions adapter_emit_all.

(* How many of [n] calls are made on sink [s]: all of them if the visitor never
   fails; otherwise the calls with index < k succeed, the call with the first
   index >= k is made (and recorded) and fails, and nothing is called afterwards. *)
Definition delivered (s : sink) (n : nat) : nat :=
  match s_fail s with
  | None => n
  | Some k => Nat.min n (S (k - s_n s))
  end.

Definition all_ok (s : sink) (n : nat) : bool :=
  match s_fail s with
  | None => true
  | Some k => Nat.eqb n 0 || Nat.leb (s_n s + n) k
  end.

Lemma emit_all_exact evs : forall s s' ok,
  emit_all s evs = (s', ok) ->
  s_fail s' = s_fail s /\
  s_rlog s' = rev (firstn (delivered s (length evs)) evs) ++ s_rlog s /\
  s_n s' = (s_n s + delivered s (length evs))%nat /\
  ok = all_ok s (length evs).
Proof.
  induction evs as [|e r IH]; intros s s' ok H.
  - cbn [emit_all] in H. inversion H; subst s' ok. unfold delivered, all_ok.
    destruct (s_fail s) as [k|]; cbn [length Nat.min firstn rev app Nat.eqb orb];
      repeat split; try lia.
  - cbn [emit_all] in H. unfold emit in H.
    destruct (s_fail s) as [k|] eqn:Hf.
    + destruct (Nat.ltb (s_n s) k) eqn:Hlt.
      * apply IH in H. cbn [s_fail s_rlog s_n] in H. destruct H as (H1 & H2 & H3 & H4).
        unfold delivered, all_ok in *. cbn [s_fail s_n] in *. rewrite Hf in *.
        apply Nat.ltb_lt in Hlt.
        replace (Nat.min (length (e :: r)) (S (k - s_n s)))
          with (S (Nat.min (length r) (S (k - S (s_n s))))) by (cbn [length]; lia).
        cbn [firstn rev]. rewrite <- app_assoc. cbn [app].
        repeat split; try assumption; try lia.
        rewrite H4. cbn [length Nat.eqb orb].
        destruct (length r) as [|n]; cbn [Nat.eqb orb]; [symmetry; apply Nat.leb_le; lia|].
        f_equal. lia.
      * inversion H; subst s' ok. cbn [s_fail s_rlog s_n].
        unfold delivered, all_ok. rewrite Hf. apply Nat.ltb_ge in Hlt.
        replace (Nat.min (length (e :: r)) (S (k - s_n s))) with 1%nat by (cbn [length]; lia).
        cbn [firstn rev app length Nat.eqb orb]. repeat split; try lia.
    + apply IH in H. cbn [s_fail s_rlog s_n] in H. destruct H as (H1 & H2 & H3 & H4).
      unfold delivered, all_ok in *. cbn [s_fail s_n] in *. rewrite Hf in *.
      cbn [length firstn rev]. rewrite <- app_assoc. cbn [app].
      repeat split; try assumption; try lia.
Qed.
Print Assumptions emit_all_exact.

Lemma expand_length_pos e : (1 <= length (expand e))%nat.
Proof. destruct e; cbn [expand length]; lia. Qed.

(* C16, exact form: what the wrapped visitor has seen, how often it was called
   and what the adapter returned, as closed expressions of the initial sink. *)
Theorem C16_adapter_exact : forall e s s' ok,
  adapter s e = (s', ok) ->
  s_fail s' = s_fail s /\
  s_log s' = s_log s ++ firstn (delivered s (length (expand e))) (expand e) /\
  s_n s' = (s_n s + delivered s (length (expand e)))%nat /\
  ok = all_ok s (length (expand e)).
Proof.
  intros e s s' ok H. rewrite adapter_emit_all in H. apply emit_all_exact in H.
  destruct H as (H1 & H2 & H3 & H4). unfold s_log. rewrite H2, rev_app_distr, rev_involutive.
  repeat split; assumption.
Qed.
Print Assumptions C16_adapter_exact.

(* C16: a visitor error is returned at once and nothing is delivered after it. *)
Theorem C16_adapter : forall e s s' ok,
  adapter s e = (s', ok) ->
  exists pre,
    (* the visitor received a prefix of the expansion, one call per event *)
    s_log s' = s_log s ++ pre /\
    (exists suf, expand e = pre ++ suf) /\
    s_n s' = (s_n s + length pre)%nat /\
    s_fail s' = s_fail s /\
    (* all of it if the adapter returns nil, and then no call has failed *)
    (ok = true -> pre = expand e /\ forall k, s_fail s = Some k -> (s_n s' <= k)%nat) /\
    (* otherwise exactly up to and including the first failing call: the last
       call made has index max k (s_n s), the first index >= k from s_n s on *)
    (ok = false -> exists k,
        s_fail s = Some k /\
        s_n s' = S (Nat.max k (s_n s)) /\
        length pre = S (k - s_n s) /\
        (k < s_n s + length (expand e))%nat).
Proof.
  intros e s s' ok H. apply C16_adapter_exact in H. destruct H as (H1 & H2 & H3 & H4).
  pose proof (expand_length_pos e) as Hpos.
  set (evs := expand e) in *. set (m := delivered s (length evs)) in *.
  assert (Hm : (m <= length evs)%nat).
  { unfold m, delivered. destruct (s_fail s); lia. }
  exists (firstn m evs).
  assert (Hlen : length (firstn m evs) = m) by (rewrite firstn_length; lia).
  split; [exact H2|].
  split; [exists (skipn m evs); symmetry; apply firstn_skipn|].
  split; [rewrite Hlen; exact H3|].
  split; [exact H1|].
  unfold all_ok in H4. unfold m, delivered in *. split.
  - intro Hok. rewrite Hok in H4. destruct (s_fail s) as [k|] eqn:Hf.
    + symmetry in H4. apply orb_true_iff in H4. destruct H4 as [H4|H4].
      * apply Nat.eqb_eq in H4. lia.
      * apply Nat.leb_le in H4. split.
        -- replace (Nat.min (length evs) (S (k - s_n s))) with (length evs) by lia.
           apply firstn_all.
        -- intros k' Hk'. inversion Hk'; subst k'. lia.
    + split; [apply firstn_all|]. intros k' Hk'. discriminate Hk'.
  - intro Hok. rewrite Hok in H4. destruct (s_fail s) as [k|] eqn:Hf; [|discriminate H4].
    symmetry in H4. apply orb_false_iff in H4. destruct H4 as [H4 H5].
    apply Nat.leb_gt in H5. exists k. split; [reflexivity|]. rewrite Hlen. lia.
Qed.
Print Assumptions C16_adapter.

Corollary C16_adapter_fail_needs_failing_visitor : forall e s s' ok,
  adapter s e = (s', ok) -> ok = false -> s_fail s <> None.
Proof.
  intros e s s' ok H Hok. apply C16_adapter in H.
  destruct H as (pre & _ & _ & _ & _ & _ & Hf). destruct (Hf Hok) as (k & Hk & _).
  rewrite Hk. discriminate.
Qed.
Print Assumptions C16_adapter_fail_needs_failing_visitor.

Corollary C16_adapter_nofail : forall e s s' ok,
  adapter s e = (s', ok) -> s_fail s = None -> ok = true /\ s_log s' = s_log s ++ expand e.
Proof.
  intros e s s' ok H Hnone. apply C16_adapter_exact in H. destruct H as (_ & H2 & _ & H4).
  unfold all_ok, delivered in *. rewrite Hnone in *. rewrite firstn_all in H2. split; assumption.
Qed.
Print Assumptions C16_adapter_nofail.

(* the adapter returns nil iff every call it could make is below the failure index *)
Corollary C16_adapter_ok_iff : forall e s s' ok k,
  adapter s e = (s', ok) -> s_fail s = Some k ->
  (ok = true <-> (s_n s + length (expand e) <= k)%nat).
Proof.
  intros e s s' ok k H Hk. apply C16_adapter_exact in H. destruct H as (_ & _ & _ & H4).
  pose proof (expand_length_pos e) as Hpos.
  unfold all_ok in H4. rewrite Hk in H4. subst ok. rewrite orb_true_iff, Nat.eqb_eq, Nat.leb_le. lia.
Qed.
Print Assumptions C16_adapter_ok_iff.

(* an error of the visitor is sticky for the adapter: once the visitor has
   failed (s_n s > k means call k was made), every adapter call makes exactly
   one more call and returns the error *)
Corollary C16_adapter_after_failure : forall e s s' ok k,
  adapter s e = (s', ok) -> s_fail s = Some k -> (k <= s_n s)%nat ->
  ok = false /\ s_n s' = S (s_n s) /\ s_log s' = s_log s ++ firstn 1 (expand e).
Proof.
  intros e s s' ok k H Hk Hle. apply C16_adapter_exact in H. destruct H as (_ & H2 & H3 & H4).
  pose proof (expand_length_pos e) as Hpos.
  unfold all_ok, delivered in *. rewrite Hk in *.
  replace (Nat.min (length (expand e)) (S (k - s_n s))) with 1%nat in * by lia.
  repeat split; [|lia|exact H2].
  subst ok. apply orb_false_iff. split; [apply Nat.eqb_neq; lia|apply Nat.leb_gt; lia].
Qed.
Print Assumptions C16_adapter_after_failure.

(* ---------- a driver feeding several events through the adapter ---------- *)
Fixpoint adapter_all (s : sink) (evs : list event) : sink * bool :=
  match evs with
  | [] => (s, true)
  | e :: r => let '(s', ok) := adapter s e in if ok then adapter_all s' r else (s', false)
  end.

Theorem adapter_all_emit_all : forall evs s,
  adapter_all s evs = emit_all s (flat_map expand evs).
Proof.
  induction evs as [|e r IH]; intro s; cbn [adapter_all flat_map]; [reflexivity|].
  rewrite emit_all_app, adapter_emit_all.
  destruct (emit_all s (expand e)) as [s1 ok1]. destruct ok1; [apply IH|reflexivity].
Qed.
Print Assumptions adapter_all_emit_all.

Theorem C16_adapter_all_exact : forall evs s s' ok,
  adapter_all s evs = (s', ok) ->
  let out := flat_map expand evs in
  s_fail s' = s_fail s /\
  s_log s' = s_log s ++ firstn (delivered s (length out)) out /\
  s_n s' = (s_n s + delivered s (length out))%nat /\
  ok = all_ok s (length out).
Proof.
  intros evs s s' ok H out. rewrite adapter_all_emit_all in H. apply emit_all_exact in H.
  destruct H as (H1 & H2 & H3 & H4). unfold s_log. rewrite H2, rev_app_distr, rev_involutive.
  repeat split; assumption.
Qed.
Print Assumptions C16_adapter_all_exact.

(* ====================================================================== *)
(* Part 4: the monitor is sound: what it reads back flattens to the input  *)
(* ====================================================================== *)

Definition parse_sound_at (f : nat) : Prop :=
  forall evs t rest, parse_tree f evs = Some (t, rest) -> evs = flatten t ++ rest /\ norm t = t.

Lemma parse_elems_sound f len bt : parse_sound_at f ->
  forall g evs acc t rest,
    parse_elems f len bt g evs acc = Some (t, rest) ->
    exists es, t = TArr len bt (rev acc ++ es) /\
               evs = flatten_elems es ++ EArrEnd :: rest /\
               map norm es = es.
Proof.
  intros IHf. induction g as [|g IHg]; intros evs acc t rest H.
  - rewrite parse_elems_O in H. discriminate H.
  - rewrite parse_elems_S in H.
    assert (Hstep : forall evs',
      match parse_tree f evs' with
      | Some (t0, r') => parse_elems f len bt g r' (t0 :: acc)
      | None => None
      end = Some (t, rest) ->
      exists es, t = TArr len bt (rev acc ++ es) /\
                 evs' = flatten_elems es ++ EArrEnd :: rest /\ map norm es = es).
    { intros evs' H'. destruct (parse_tree f evs') as [[t1 r1]|] eqn:E; [|discriminate H'].
      apply IHf in E. destruct E as [E1 E2]. apply IHg in H'. destruct H' as (es & Ht & Hr & Hn).
      exists (t1 :: es). split; [|split].
      - rewrite Ht. cbn [rev]. rewrite <- app_assoc. reflexivity.
      - rewrite flatten_elems_cons, <- app_assoc, <- Hr. exact E1.
      - cbn [map]. rewrite E2, Hn. reflexivity. }
    destruct evs as [|h r]; [apply Hstep; exact H|].
    destruct h; try (apply Hstep; exact H).
    inversion H; subst t rest. exists []. rewrite app_nil_r. repeat split.
Qed.

Lemma parse_members_sound f len bt : parse_sound_at f ->
  forall g evs acc t rest,
    parse_members f len bt g evs acc = Some (t, rest) ->
    exists ms, t = TObj len bt (rev acc ++ ms) /\
               evs = flatten_members ms ++ EObjEnd :: rest /\
               map (fun m => (fst m, norm (snd m))) ms = ms.
Proof.
  intros IHf. induction g as [|g IHg]; intros evs acc t rest H.
  - rewrite parse_members_O in H. discriminate H.
  - rewrite parse_members_S in H.
    assert (Hstep : forall k b evs',
      match parse_tree f evs' with
      | Some (t0, r') => parse_members f len bt g r' ((k, b, t0) :: acc)
      | None => None
      end = Some (t, rest) ->
      exists ms, t = TObj len bt (rev acc ++ ms) /\
                 key_event k b :: evs' = flatten_members ms ++ EObjEnd :: rest /\
                 map (fun m => (fst m, norm (snd m))) ms = ms).
    { intros k b evs' H'. destruct (parse_tree f evs') as [[t1 r1]|] eqn:E; [|discriminate H'].
      apply IHf in E. destruct E as [E1 E2]. apply IHg in H'. destruct H' as (ms & Ht & Hr & Hn).
      exists ((k, b, t1) :: ms). split; [|split].
      - rewrite Ht. cbn [rev]. rewrite <- app_assoc. reflexivity.
      - rewrite flatten_members_cons, <- app_comm_cons, <- app_assoc, <- Hr, E1. reflexivity.
      - cbn [map fst snd]. rewrite E2, Hn. reflexivity. }
    destruct evs as [|h r]; [discriminate H|].
    destruct h; try discriminate H.
    + inversion H; subst t rest. exists []. rewrite app_nil_r. repeat split.
    + apply (Hstep k false). exact H.
    + apply (Hstep k true). exact H.
Qed.

Theorem parse_tree_sound : forall fuel evs t rest,
  parse_tree fuel evs = Some (t, rest) -> evs = flatten t ++ rest /\ norm t = t.
Proof.
  induction fuel as [|f IH]; intros evs t rest H.
  - rewrite parse_tree_O in H. discriminate H.
  - rewrite parse_tree_S in H.
    destruct evs as [|h r]; [discriminate H|].
    destruct h as [sc|b|len bt| |len bt| |k|k|bt es|bt ms];
      try discriminate H; try (inversion H; subst; split; reflexivity).
    + inversion H; subst. split; destruct sc; reflexivity.
    + apply (parse_elems_sound f len bt IH) in H. destruct H as (es & Ht & Hr & Hn).
      cbn [rev app] in Ht. subst t. rewrite flatten_arr. cbn [app]. rewrite <- app_assoc. cbn [app].
      split; [rewrite Hr; reflexivity|]. cbn [norm]. rewrite Hn. reflexivity.
    + apply (parse_members_sound f len bt IH) in H. destruct H as (ms & Ht & Hr & Hn).
      cbn [rev app] in Ht. subst t. rewrite flatten_obj. cbn [app]. rewrite <- app_assoc. cbn [app].
      split; [rewrite Hr; reflexivity|]. cbn [norm]. rewrite Hn. reflexivity.
Qed.
Print Assumptions parse_tree_sound.

(* fuel monotonicity: more fuel never changes a successful parse *)
Definition parse_mono_at (f : nat) : Prop :=
  forall f' evs r, parse_tree f evs = Some r -> (f <= f')%nat -> parse_tree f' evs = Some r.

Lemma parse_elems_mono f len bt : parse_mono_at f ->
  forall g f' g' evs acc r,
    parse_elems f len bt g evs acc = Some r -> (f <= f')%nat -> (g <= g')%nat ->
    parse_elems f' len bt g' evs acc = Some r.
Proof.
  intros IHf. induction g as [|g IHg]; intros f' g' evs acc r H Hf Hg.
  - rewrite parse_elems_O in H. discriminate H.
  - destruct g' as [|g']; [lia|]. rewrite parse_elems_S in *.
    assert (Hstep :
      match parse_tree f evs with
      | Some (t0, r') => parse_elems f len bt g r' (t0 :: acc)
      | None => None
      end = Some r ->
      match parse_tree f' evs with
      | Some (t0, r') => parse_elems f' len bt g' r' (t0 :: acc)
      | None => None
      end = Some r).
    { intros H'. destruct (parse_tree f evs) as [[t1 r1]|] eqn:E; [|discriminate H'].
      rewrite (IHf f' evs _ E Hf). apply IHg; [exact H'|exact Hf|lia]. }
    destruct evs as [|h tl]; [apply Hstep; exact H|].
    destruct h; try (apply Hstep; exact H). exact H.
Qed.

Lemma parse_members_mono f len bt : parse_mono_at f ->
  forall g f' g' evs acc r,
    parse_members f len bt g evs acc = Some r -> (f <= f')%nat -> (g <= g')%nat ->
    parse_members f' len bt g' evs acc = Some r.
Proof.
  intros IHf. induction g as [|g IHg]; intros f' g' evs acc r H Hf Hg.
  - rewrite parse_members_O in H. discriminate H.
  - destruct g' as [|g']; [lia|]. rewrite parse_members_S in *.
    assert (Hstep : forall k b evs',
      match parse_tree f evs' with
      | Some (t0, r') => parse_members f len bt g r' ((k, b, t0) :: acc)
      | None => None
      end = Some r ->
      match parse_tree f' evs' with
      | Some (t0, r') => parse_members f' len bt g' r' ((k, b, t0) :: acc)
      | None => None
      end = Some r).
    { intros k b evs' H'. destruct (parse_tree f evs') as [[t1 r1]|] eqn:E; [|discriminate H'].
      rewrite (IHf f' evs' _ E Hf). apply IHg; [exact H'|exact Hf|lia]. }
    destruct evs as [|h tl]; [discriminate H|].
    destruct h; try discriminate H.
    + exact H.
    + apply Hstep. exact H.
    + apply Hstep. exact H.
Qed.

Theorem parse_tree_mono : forall fuel fuel' evs r,
  parse_tree fuel evs = Some r -> (fuel <= fuel')%nat -> parse_tree fuel' evs = Some r.
Proof.
  induction fuel as [|f IH]; intros fuel' evs r H Hle.
  - rewrite parse_tree_O in H. discriminate H.
  - destruct fuel' as [|f']; [lia|]. rewrite parse_tree_S in *.
    destruct evs as [|h tl]; [discriminate H|].
    destruct h as [sc|b|len bt| |len bt| |k|k|bt es|bt ms]; try discriminate H; try exact H.
    + apply (parse_elems_mono f len bt IH f f' f'); [exact H|lia|lia].
    + apply (parse_members_mono f len bt IH f f' f'); [exact H|lia|lia].
Qed.
Print Assumptions parse_tree_mono.

(* trees (in normal form) are exactly the streams accepted by the monitor *)
Theorem stream_tree_iff : forall evs t,
  stream_tree evs = Some t <-> evs = flatten t /\ norm t = t.
Proof.
  intros evs t. split.
  - unfold stream_tree. intro H.
    destruct (parse_tree (S (length evs)) evs) as [[t1 r1]|] eqn:E; [|discriminate H].
    destruct r1; [|discriminate H]. inversion H; subst t1.
    apply parse_tree_sound in E. rewrite app_nil_r in E. exact E.
  - intros [He Hn]. subst evs. rewrite stream_tree_flatten, Hn. reflexivity.
Qed.
Print Assumptions stream_tree_iff.

Theorem contract_ok_iff : forall evs,
  contract_ok evs = true <-> exists t, evs = flatten t /\ norm t = t /\ wf_tree t = true.
Proof.
  intro evs. unfold contract_ok. split.
  - destruct (stream_tree evs) as [t|] eqn:E; [|discriminate].
    intro Hwf. apply stream_tree_iff in E. destruct E as [E1 E2]. exists t. repeat split; assumption.
  - intros (t & E1 & E2 & Hwf). rewrite (proj2 (stream_tree_iff evs t) (conj E1 E2)). exact Hwf.
Qed.
Print Assumptions contract_ok_iff.

(* ====================================================================== *)
(* Part 5: expanding a whole stream (a plain visitor behind the adapter)   *)
(* ====================================================================== *)

(* expansion of every extended event / reference in a tree *)
Fixpoint expand_tree (t : tree) : tree :=
  match t with
  | TVal s _ => TVal s false
  | TArr len bt es => TArr len bt (map expand_tree es)
  | TObj len bt ms => TObj len bt (map (fun m => (fst (fst m), false, expand_tree (snd m))) ms)
  | TXArr bt es => TArr (zlen es) bt (map (fun s => TVal s false) es)
  | TXObj bt ms => TObj (zlen ms) bt (map (fun m => (fst m, false, TVal (snd m) false)) ms)
  end.

Lemma expand_tree_leaf t : leaf_tree t = true ->
  flatten (expand_tree t) = flatten (expand_tree_top t).
Proof.
  intro Ht. destruct t as [s r|len bt es|len bt ms|bt es|bt ms]; try discriminate Ht; try reflexivity.
  destruct s, r; reflexivity.
Qed.

Lemma flatten_elems_app a b : flatten_elems (a ++ b) = flatten_elems a ++ flatten_elems b.
Proof. apply flat_map_app. Qed.

Theorem expand_deep_is_flatten : forall t,
  flatten (expand_tree t) = flat_map expand (flatten t).
Proof.
  induction t as [s r|len bt es IH|len bt ms IH|bt es|bt ms] using tree_ind'.
  - destruct s, r; reflexivity.
  - cbn [expand_tree]. rewrite !flatten_arr. cbn [flat_map expand app].
    rewrite flat_map_app. cbn [flat_map expand app]. f_equal. f_equal.
    induction IH as [|e es He _ IHes]; [reflexivity|].
    cbn [map]. rewrite !flatten_elems_cons, flat_map_app, He, IHes. reflexivity.
  - cbn [expand_tree]. rewrite !flatten_obj. cbn [flat_map expand app].
    rewrite flat_map_app. cbn [flat_map expand app]. f_equal. f_equal.
    induction IH as [|[[k r] e] ms He _ IHms]; [reflexivity|].
    cbn [map fst snd] in *. rewrite !flatten_members_cons. cbn [flat_map].
    rewrite flat_map_app, He, IHms. destruct r; reflexivity.
  - cbn [flatten flat_map]. rewrite app_nil_r. symmetry. apply expand_xarr_flatten.
  - cbn [flatten flat_map]. rewrite app_nil_r. symmetry. apply expand_xobj_flatten.
Qed.
Print Assumptions expand_deep_is_flatten.

Lemma tree_matches_expand bt t : tree_matches bt (expand_tree t) = tree_matches bt t.
Proof.
  destruct t as [s r|len b es|len b ms|b es|b ms]; destruct bt; reflexivity.
Qed.

Theorem expand_deep_wf : forall t, wf_tree t = true -> wf_tree (expand_tree t) = true.
Proof.
  induction t as [s r|len bt es IH|len bt ms IH|bt es|bt ms] using tree_ind'; intro Hwf.
  - exact Hwf.
  - cbn [expand_tree]. rewrite wf_arr in *. rewrite len_ok_map, !forallb_map.
    apply andb_true_iff in Hwf. destruct Hwf as [Hwf H3]. apply andb_true_iff in Hwf. destruct Hwf as [H1 H2].
    rewrite H1. cbn [andb]. apply andb_true_iff. split.
    + erewrite forallb_ext_Forall; [exact H2|]. apply Forall_forall. intros x _. apply tree_matches_expand.
    + apply forallb_forall. intros x Hx. rewrite Forall_forall in IH. apply IH; [exact Hx|].
      rewrite forallb_forall in H3. apply H3. exact Hx.
  - cbn [expand_tree]. rewrite wf_obj in *. rewrite len_ok_map, !forallb_map.
    apply andb_true_iff in Hwf. destruct Hwf as [Hwf H3]. apply andb_true_iff in Hwf. destruct Hwf as [H1 H2].
    rewrite H1. cbn [andb]. apply andb_true_iff. split.
    + erewrite forallb_ext_Forall; [exact H2|]. apply Forall_forall. intros x _. cbn [snd]. apply tree_matches_expand.
    + apply forallb_forall. intros x Hx. rewrite Forall_forall in IH. cbn [fst snd].
      rewrite forallb_forall in H3. specialize (H3 x Hx). apply andb_true_iff in H3. destruct H3 as [Hk Hx'].
      rewrite Hk, (IH x Hx Hx'). reflexivity.
  - apply (expand_tree_wf (TXArr bt es)). exact Hwf.
  - apply (expand_tree_wf (TXObj bt ms)). exact Hwf.
Qed.
Print Assumptions expand_deep_wf.

Theorem expand_deep_value : forall t, value_of (expand_tree t) = value_of t.
Proof.
  induction t as [s r|len bt es IH|len bt ms IH|bt es|bt ms] using tree_ind'.
  - reflexivity.
  - cbn [expand_tree value_of]. f_equal. rewrite map_map. apply map_ext_Forall. exact IH.
  - cbn [expand_tree value_of]. f_equal. rewrite map_map. apply map_ext_Forall.
    eapply Forall_impl; [|exact IH]. intros m Hm. cbn [fst snd]. rewrite Hm. reflexivity.
  - apply (expand_tree_value (TXArr bt es)).
  - apply (expand_tree_value (TXObj bt ms)).
Qed.
Print Assumptions expand_deep_value.

(* C09 through the adapter: if the producer respects the contract towards the
   ExtVisitor, the wrapped plain Visitor sees a stream respecting the contract,
   describing the same value. *)
Theorem C09_expand_stream : forall evs,
  contract_ok evs = true -> contract_ok (flat_map expand evs) = true.
Proof.
  intros evs H. apply contract_ok_iff in H. destruct H as (t & He & _ & Hwf). subst evs.
  rewrite <- expand_deep_is_flatten, contract_flatten. apply expand_deep_wf. exact Hwf.
Qed.
Print Assumptions C09_expand_stream.

Theorem expand_stream_value : forall evs t,
  stream_tree evs = Some t ->
  exists t', stream_tree (flat_map expand evs) = Some t' /\ value_of t' = value_of t.
Proof.
  intros evs t H. apply stream_tree_iff in H. destruct H as [He _]. subst evs.
  rewrite <- expand_deep_is_flatten, stream_tree_flatten. eexists. split; [reflexivity|].
  rewrite value_of_norm. apply expand_deep_value.
Qed.
Print Assumptions expand_stream_value.

(* ... and with a visitor that never fails, that expanded stream is what it gets *)
Theorem C09_adapter_all : forall evs s,
  s_fail s = None -> contract_ok evs = true ->
  exists s', adapter_all s evs = (s', true) /\
             s_log s' = s_log s ++ flat_map expand evs /\
             contract_ok (flat_map expand evs) = true.
Proof.
  intros evs s Hnone Hc.
  destruct (adapter_all s evs) as [s' ok] eqn:E. apply C16_adapter_all_exact in E.
  cbv zeta in E. destruct E as (_ & H2 & _ & H4). unfold all_ok, delivered in *. rewrite Hnone in *.
  rewrite firstn_all in H2. subst ok. exists s'. split; [reflexivity|]. split; [exact H2|].
  apply C09_expand_stream. exact Hc.
Qed.
Print Assumptions C09_adapter_all.
