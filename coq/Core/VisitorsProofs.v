(* Theorems about the inline filter (visitors/expect_obj.go, Core/Visitors.v). *)
From SF Require Import Base.Prelude Base.PreludeProofs Core.Events Core.EventsProofs Core.AdapterProofs Core.Visitors.
From Coq Require Import Lia.
Open Scope Z_scope.

(* the target after it has been handed [evs] without failing *)
Definition push (evs : list event) (s : sink) : sink :=
  {| s_rlog := rev evs ++ s_rlog s; s_n := (length evs + s_n s)%nat; s_fail := None |}.

Lemma push_nil s : s_fail s = None -> push [] s = s.
Proof. intro H. destruct s as [l n f]. cbn in *. subst f. reflexivity. Qed.

Lemma push_fail evs s : s_fail (push evs s) = None.
Proof. reflexivity. Qed.

Lemma push_app a b s : push (a ++ b) s = push b (push a s).
Proof.
  unfold push. cbn [s_rlog s_n]. rewrite rev_app_distr, app_length, <- app_assoc. f_equal. lia.
Qed.

Lemma push_log evs s : s_log (push evs s) = s_log s ++ evs.
Proof. unfold s_log, push. cbn [s_rlog]. rewrite rev_app_distr, rev_involutive. reflexivity. Qed.

Lemma emit_push s e : s_fail s = None -> emit s e = (push [e] s, true).
Proof. intro H. rewrite emit_ok by exact H. reflexivity. Qed.

Definition at_depth (d : Z) (s : sink) : eo := {| eo_depth := d; eo_sink := s |}.

Lemma eo_fwd_ok d0 s d e : s_fail s = None ->
  eo_fwd (at_depth d0 s) d e = (at_depth d (push [e] s), EoNone).
Proof. intro H. unfold eo_fwd, at_depth. cbn [eo_sink]. rewrite emit_push by exact H. reflexivity. Qed.

Lemma eo_all_app a : forall st b,
  eo_all st (a ++ b) =
  let '(st', err) := eo_all st a in
  match err with EoNone => eo_all st' b | _ => (st', err) end.
Proof.
  induction a as [|e r IH]; intros st b; cbn [app eo_all]; [reflexivity|].
  destruct (eo_basic st e) as [st' err]. destruct err; try reflexivity. apply IH.
Qed.

Lemma eo_run_app a : forall st b,
  eo_run st (a ++ b) =
  let '(st', err) := eo_run st a in
  match err with EoNone => eo_run st' b | _ => (st', err) end.
Proof.
  induction a as [|e r IH]; intros st b; cbn [app eo_run]; [reflexivity|].
  destruct (eo_step st e) as [st' err]. destruct err; try reflexivity. apply IH.
Qed.

(* events that do not open or close an object *)
Definition plain (e : event) : bool :=
  match e with EObjStart _ _ | EObjEnd | EXArr _ _ | EXObj _ _ => false | _ => true end.

Lemma eo_basic_plain d s e : 1 <= d -> s_fail s = None -> plain e = true ->
  eo_basic (at_depth d s) e = (at_depth d (push [e] s), EoNone).
Proof.
  intros Hd Hs Hp. destruct e; try discriminate Hp; cbn [eo_basic at_depth eo_depth];
    (destruct (Z.eqb_spec d 0); [lia|]); apply (eo_fwd_ok d s d); exact Hs.
Qed.

Lemma eo_all_plain evs : forall d s, 1 <= d -> s_fail s = None -> forallb plain evs = true ->
  eo_all (at_depth d s) evs = (at_depth d (push evs s), EoNone).
Proof.
  induction evs as [|e r IH]; intros d s Hd Hs Hp; cbn [eo_all].
  - rewrite push_nil by exact Hs. reflexivity.
  - cbn [forallb] in Hp. apply andb_true_iff in Hp. destruct Hp as [He Hr].
    rewrite eo_basic_plain by assumption. rewrite IH by (try assumption; apply push_fail).
    change (e :: r) with ([e] ++ r). rewrite push_app. reflexivity.
Qed.

Lemma eo_basic_objstart d s len bt : 1 <= d -> s_fail s = None ->
  eo_basic (at_depth d s) (EObjStart len bt) = (at_depth (d + 1) (push [EObjStart len bt] s), EoNone).
Proof.
  intros Hd Hs. cbn [eo_basic at_depth eo_depth]. destruct (Z.eqb_spec (d + 1) 1); [lia|].
  apply (eo_fwd_ok d s (d + 1)). exact Hs.
Qed.

Lemma eo_basic_objend d s : 1 <= d -> s_fail s = None ->
  eo_basic (at_depth (d + 1) s) EObjEnd = (at_depth d (push [EObjEnd] s), EoNone).
Proof.
  intros Hd Hs. cbn [eo_basic at_depth eo_depth]. replace (d + 1 - 1) with d by lia.
  destruct (Z.eqb_spec d 0); [lia|]. apply (eo_fwd_ok (d + 1) s d). exact Hs.
Qed.

Lemma plain_vals es : forallb plain (map EVal es) = true.
Proof. induction es; [reflexivity|exact IHes]. Qed.

Lemma plain_kvs (ms : list (bytes * scalar)) :
  forallb plain (flat_map (fun m => [EKey (fst m); EVal (snd m)]) ms) = true.
Proof. induction ms; [reflexivity|exact IHms]. Qed.

(* a typed array / typed map inside the inlined object arrives as its expansion *)
Lemma eo_step_xarr d s bt es : 1 <= d -> s_fail s = None ->
  eo_step (at_depth d s) (EXArr bt es) = (at_depth d (push (expand (EXArr bt es)) s), EoNone).
Proof.
  intros Hd Hs. unfold eo_step. cbn [expand_x]. apply eo_all_plain; try assumption.
  cbn [expand forallb plain]. rewrite forallb_app, plain_vals. reflexivity.
Qed.

Lemma eo_step_xobj d s bt ms : 1 <= d -> s_fail s = None ->
  eo_step (at_depth d s) (EXObj bt ms) = (at_depth d (push (expand (EXObj bt ms)) s), EoNone).
Proof.
  intros Hd Hs. unfold eo_step. cbn [expand_x expand eo_all].
  rewrite eo_basic_objstart by assumption.
  rewrite eo_all_app. rewrite eo_all_plain by (try lia; try apply push_fail; apply plain_kvs).
  cbn [eo_all]. rewrite eo_basic_objend by (try assumption; apply push_fail).
  rewrite <- !push_app. reflexivity.
Qed.

Lemma eo_step_plain d s e : 1 <= d -> s_fail s = None -> plain e = true ->
  eo_step (at_depth d s) e = (at_depth d (push [e] s), EoNone).
Proof.
  intros Hd Hs Hp. unfold eo_step.
  assert (Hx : expand_x e = [e]) by (destruct e; try reflexivity; discriminate Hp).
  rewrite Hx. cbn [eo_all]. rewrite eo_basic_plain by assumption. reflexivity.
Qed.

Lemma eo_step_objstart d s len bt : 1 <= d -> s_fail s = None ->
  eo_step (at_depth d s) (EObjStart len bt) = (at_depth (d + 1) (push [EObjStart len bt] s), EoNone).
Proof.
  intros Hd Hs. unfold eo_step. cbn [expand_x eo_all]. rewrite eo_basic_objstart by assumption. reflexivity.
Qed.

Lemma eo_step_objend d s : 1 <= d -> s_fail s = None ->
  eo_step (at_depth (d + 1) s) EObjEnd = (at_depth d (push [EObjEnd] s), EoNone).
Proof.
  intros Hd Hs. unfold eo_step. cbn [expand_x eo_all]. rewrite eo_basic_objend by assumption. reflexivity.
Qed.

(* ---------- inside the inlined object every value passes through, typed
   containers as their expansion ---------- *)
Definition xflat (evs : list event) : list event := flat_map expand_x evs.

Lemma xflat_app a b : xflat (a ++ b) = xflat a ++ xflat b.
Proof. apply flat_map_app. Qed.

Definition passes (t : tree) : Prop :=
  forall d s, 1 <= d -> s_fail s = None ->
    eo_run (at_depth d s) (flatten t) = (at_depth d (push (xflat (flatten t)) s), EoNone).

Lemma passes_elems es : Forall passes es ->
  forall d s, 1 <= d -> s_fail s = None ->
    eo_run (at_depth d s) (flatten_elems es) = (at_depth d (push (xflat (flatten_elems es)) s), EoNone).
Proof.
  induction 1 as [|e r He _ IH]; intros d s Hd Hs.
  - cbn. rewrite push_nil by exact Hs. reflexivity.
  - rewrite flatten_elems_cons, eo_run_app, (He d s Hd Hs).
    rewrite IH by (try assumption; apply push_fail). rewrite xflat_app, push_app. reflexivity.
Qed.

Lemma key_event_plain k r : plain (key_event k r) = true.
Proof. destruct r; reflexivity. Qed.

Lemma passes_members ms : Forall (fun m => passes (snd m)) ms ->
  forall d s, 1 <= d -> s_fail s = None ->
    eo_run (at_depth d s) (flatten_members ms) = (at_depth d (push (xflat (flatten_members ms)) s), EoNone).
Proof.
  induction 1 as [|[[k r] e] rest He _ IH]; intros d s Hd Hs.
  - cbn. rewrite push_nil by exact Hs. reflexivity.
  - rewrite flatten_members_cons. cbn [eo_run].
    rewrite eo_step_plain by (try assumption; apply key_event_plain).
    cbn [snd] in He. rewrite eo_run_app, (He d _ Hd (push_fail _ _)).
    rewrite IH by (try assumption; apply push_fail).
    change (key_event k r :: flatten e ++ flatten_members rest)
      with ([key_event k r] ++ flatten e ++ flatten_members rest).
    rewrite !xflat_app, !push_app.
    assert (Hx : xflat [key_event k r] = [key_event k r]) by (destruct r; reflexivity).
    rewrite Hx. reflexivity.
Qed.

Theorem every_tree_passes : forall t, passes t.
Proof.
  induction t as [sc r|len bt es IH|len bt ms IH|bt es|bt ms] using tree_ind'; intros d s Hd Hs.
  - assert (Hf : exists e, flatten (TVal sc r) = [e] /\ plain e = true /\ expand_x e = [e]).
    { destruct sc, r; eexists; (split; [reflexivity|split; reflexivity]). }
    destruct Hf as (e & Hf & Hp & Hx). rewrite Hf. cbn [eo_run].
    rewrite eo_step_plain by assumption. unfold xflat. cbn [flat_map]. rewrite Hx, app_nil_r. reflexivity.
  - rewrite flatten_arr. cbn [eo_run]. rewrite eo_step_plain by (try assumption; reflexivity).
    rewrite eo_run_app, (passes_elems es IH d _ Hd (push_fail _ _)).
    cbn [eo_run]. rewrite eo_step_plain by (try assumption; try apply push_fail; reflexivity).
    change (EArrStart len bt :: flatten_elems es ++ [EArrEnd]) with ([EArrStart len bt] ++ flatten_elems es ++ [EArrEnd]).
    rewrite !xflat_app, !push_app. reflexivity.
  - rewrite flatten_obj. cbn [eo_run]. rewrite eo_step_objstart by assumption.
    rewrite eo_run_app, (passes_members ms IH (d + 1) _ ltac:(lia) (push_fail _ _)).
    cbn [eo_run]. rewrite eo_step_objend by (try assumption; apply push_fail).
    change (EObjStart len bt :: flatten_members ms ++ [EObjEnd]) with ([EObjStart len bt] ++ flatten_members ms ++ [EObjEnd]).
    rewrite !xflat_app, !push_app. reflexivity.
  - cbn [flatten eo_run]. rewrite eo_step_xarr by assumption.
    unfold xflat. cbn [flat_map expand_x]. rewrite app_nil_r. reflexivity.
  - cbn [flatten eo_run]. rewrite eo_step_xobj by assumption.
    unfold xflat. cbn [flat_map expand_x]. rewrite app_nil_r. reflexivity.
Qed.

(* ---------- the inlined value is an object: exactly its members are forwarded ---------- *)
Theorem inline_object_members : forall len bt ms s, s_fail s = None ->
  eo_run (eo0 s) (flatten (TObj len bt ms)) = (eo0 (push (xflat (flatten_members ms)) s), EoNone).
Proof.
  intros len bt ms s Hs. rewrite flatten_obj. cbn [eo_run].
  unfold eo_step. cbn [expand_x eo_all eo_basic eo0 eo_depth eo_sink Z.add Z.eqb Pos.eqb].
  change {| eo_depth := 1; eo_sink := s |} with (at_depth 1 s).
  rewrite eo_run_app.
  assert (Hm : Forall (fun m => passes (snd m)) ms) by (apply Forall_forall; intros; apply every_tree_passes).
  rewrite (passes_members ms Hm 1 s ltac:(lia) Hs).
  cbn [eo_run]. unfold eo_step. cbn [expand_x eo_all eo_basic at_depth eo_depth eo_sink Z.sub Z.add Z.opp Z.pos_sub Z.eqb].
  reflexivity.
Qed.

(* a typed map (map[string]T folded through On<T>Object) is an object as well *)
Theorem inline_typed_map_members : forall bt ms s, s_fail s = None ->
  eo_run (eo0 s) [EXObj bt ms] =
  (eo0 (push (flat_map (fun m => [EKey (fst m); EVal (snd m)]) ms) s), EoNone).
Proof.
  intros bt ms s Hs. cbn [eo_run]. unfold eo_step. cbn [expand_x expand eo_all eo_basic eo0 eo_depth eo_sink Z.add Z.eqb Pos.eqb].
  change {| eo_depth := 1; eo_sink := s |} with (at_depth 1 s).
  rewrite eo_all_app, eo_all_plain by (try lia; try assumption; apply plain_kvs).
  cbn [eo_all eo_basic at_depth eo_depth eo_sink Z.sub Z.add Z.opp Z.pos_sub Z.eqb]. reflexivity.
Qed.

(* ... anything else is refused at its first event and nothing reaches the target *)
Definition is_object (t : tree) : bool :=
  match t with TObj _ _ _ | TXObj _ _ => true | _ => false end.

Theorem inline_non_object_refused : forall t s, is_object t = false ->
  eo_run (eo0 s) (flatten t) = (eo0 s, EoNotObject).
Proof.
  intros t s Ht. destruct t as [sc r|len bt es|len bt ms|bt es|bt ms]; try discriminate Ht.
  - destruct sc, r; reflexivity.
  - rewrite flatten_arr. reflexivity.
  - reflexivity.
Qed.

(* what is forwarded is again a sequence of members of a well-formed object *)
Fixpoint xtree (t : tree) : tree :=
  match t with
  | TVal s r => TVal s r
  | TArr len bt es => TArr len bt (map xtree es)
  | TObj len bt ms => TObj len bt (map (fun m => (fst (fst m), snd (fst m), xtree (snd m))) ms)
  | TXArr bt es => TArr (zlen es) bt (map (fun s => TVal s false) es)
  | TXObj bt ms => TObj (zlen ms) bt (map (fun m => (fst m, false, TVal (snd m) false)) ms)
  end.

Lemma xflat_members_map ms :
  Forall (fun m => flatten (xtree (snd m)) = xflat (flatten (snd m))) ms ->
  flatten_members (map (fun m => (fst (fst m), snd (fst m), xtree (snd m))) ms) = xflat (flatten_members ms).
Proof.
  induction 1 as [|[[k r] e] rest He _ IH]; [reflexivity|].
  cbn [map fst snd] in *. rewrite !flatten_members_cons.
  change (key_event k r :: flatten e ++ flatten_members rest) with ([key_event k r] ++ flatten e ++ flatten_members rest).
  rewrite !xflat_app, He, IH. destruct r; reflexivity.
Qed.

Theorem xtree_is_xflat : forall t, flatten (xtree t) = xflat (flatten t).
Proof.
  induction t as [sc r|len bt es IH|len bt ms IH|bt es|bt ms] using tree_ind'.
  - destruct sc, r; reflexivity.
  - cbn [xtree]. rewrite !flatten_arr.
    change (EArrStart len bt :: flatten_elems es ++ [EArrEnd]) with ([EArrStart len bt] ++ flatten_elems es ++ [EArrEnd]).
    rewrite !xflat_app. cbn [xflat flat_map expand_x app]. f_equal. f_equal.
    induction IH as [|e r He _ IHr]; [reflexivity|].
    cbn [map]. rewrite !flatten_elems_cons, He, IHr. fold (xflat (flatten e ++ flatten_elems r)). rewrite xflat_app. reflexivity.
  - cbn [xtree]. rewrite !flatten_obj, xflat_members_map by exact IH.
    change (EObjStart len bt :: flatten_members ms ++ [EObjEnd]) with ([EObjStart len bt] ++ flatten_members ms ++ [EObjEnd]).
    rewrite !xflat_app. reflexivity.
  - cbn [xtree flatten]. unfold xflat. cbn [flat_map expand_x]. rewrite app_nil_r. symmetry. apply expand_xarr_flatten.
  - cbn [xtree flatten]. unfold xflat. cbn [flat_map expand_x]. rewrite app_nil_r. symmetry. apply expand_xobj_flatten.
Qed.

Lemma tree_matches_xtree bt t : tree_matches bt (xtree t) = tree_matches bt t.
Proof. destruct t as [s r|len b es|len b ms|b es|b ms]; destruct bt; reflexivity. Qed.

Theorem xtree_wf : forall t, wf_tree t = true -> wf_tree (xtree t) = true.
Proof.
  induction t as [s r|len bt es IH|len bt ms IH|bt es|bt ms] using tree_ind'; intro Hwf.
  - exact Hwf.
  - cbn [xtree]. rewrite wf_arr in *. rewrite len_ok_map, !forallb_map.
    apply andb_true_iff in Hwf. destruct Hwf as [Hwf H3]. apply andb_true_iff in Hwf. destruct Hwf as [H1 H2].
    rewrite H1. cbn [andb]. apply andb_true_iff. split.
    + erewrite forallb_ext_Forall; [exact H2|]. apply Forall_forall. intros x _. apply tree_matches_xtree.
    + apply forallb_forall. intros x Hx. rewrite Forall_forall in IH. apply IH; [exact Hx|].
      rewrite forallb_forall in H3. apply H3. exact Hx.
  - cbn [xtree]. rewrite wf_obj in *. rewrite len_ok_map, !forallb_map.
    apply andb_true_iff in Hwf. destruct Hwf as [Hwf H3]. apply andb_true_iff in Hwf. destruct Hwf as [H1 H2].
    rewrite H1. cbn [andb]. apply andb_true_iff. split.
    + erewrite forallb_ext_Forall; [exact H2|]. apply Forall_forall. intros x _. cbn [snd]. apply tree_matches_xtree.
    + apply forallb_forall. intros x Hx. rewrite Forall_forall in IH. cbn [fst snd].
      rewrite forallb_forall in H3. specialize (H3 x Hx). apply andb_true_iff in H3. destruct H3 as [Hk Hx'].
      rewrite Hk, (IH x Hx Hx'). reflexivity.
  - apply (expand_tree_wf (TXArr bt es)). exact Hwf.
  - apply (expand_tree_wf (TXObj bt ms)). exact Hwf.
Qed.

(* C09 for inlining: the members of a well-formed object, sent through the
   filter into an enclosing object, are again members of a well-formed object
   with the same values. *)
Theorem C09_inline_members_wf : forall len bt ms s, s_fail s = None ->
  wf_tree (TObj len bt ms) = true ->
  exists ms',
    eo_run (eo0 s) (flatten (TObj len bt ms)) = (eo0 (push (flatten_members ms') s), EoNone) /\
    wf_tree (TObj len bt ms') = true /\
    map (fun m => (fst (fst m), value_of (snd m))) ms' = map (fun m => (fst (fst m), value_of (snd m))) ms.
Proof.
  intros len bt ms s Hs Hwf.
  exists (map (fun m => (fst (fst m), snd (fst m), xtree (snd m))) ms).
  split; [|split].
  - rewrite inline_object_members by exact Hs. rewrite xflat_members_map; [reflexivity|].
    apply Forall_forall. intros m _. apply xtree_is_xflat.
  - exact (xtree_wf (TObj len bt ms) Hwf).
  - rewrite map_map. apply map_ext. intros [[k r] e]. cbn [fst snd]. f_equal.
    clear. induction e as [sc r'|l b es IH|l b ms0 IH|b es|b ms0] using tree_ind'; cbn [xtree value_of].
    + reflexivity.
    + f_equal. rewrite map_map. apply map_ext_Forall. exact IH.
    + f_equal. rewrite map_map. apply map_ext_Forall. eapply Forall_impl; [|exact IH].
      intros m Hm. cbn [fst snd]. rewrite Hm. reflexivity.
    + f_equal. rewrite map_map. reflexivity.
    + f_equal. rewrite map_map. reflexivity.
Qed.

(* ---------- C16: an error of the target is returned at once ---------- *)
(* With a target that fails from its k-th call on: the run never hands it more than k+1
   events, and it has seen k+1 exactly when the run returned the target's error. *)
Definition eo_inv (k : nat) (st : eo) (err : eo_err) : Prop :=
  s_fail (eo_sink st) = Some k /\
  match err with
  | EoTarget => s_n (eo_sink st) = S k
  | _ => (s_n (eo_sink st) <= k)%nat
  end.

Lemma eo_fwd_inv k st d e : eo_inv k st EoNone ->
  let '(st', err) := eo_fwd st d e in eo_inv k st' err /\ err <> EoNotObject.
Proof.
  intros [Hf Hn]. unfold eo_fwd, emit. rewrite Hf.
  destruct (Nat.ltb_spec (s_n (eo_sink st)) k) as [Hlt|Hge]; (split; [split; [reflexivity|]|discriminate]); cbn [eo_sink s_n]; lia.
Qed.

Lemma eo_basic_inv k st e : eo_inv k st EoNone ->
  let '(st', err) := eo_basic st e in eo_inv k st' err.
Proof.
  intro H. pose proof (fun d => eo_fwd_inv k st d e H) as Hf.
  destruct e; cbn [eo_basic];
    repeat match goal with
           | |- context [if ?c then _ else _] => destruct c
           end;
    try exact H;
    try match goal with
        | |- let '(_, _) := eo_fwd st ?d _ in _ => specialize (Hf d); destruct (eo_fwd st d _) as [st' err]; exact (proj1 Hf)
        end;
    destruct H as [Hs Hn]; split; cbn [eo_sink]; assumption.
Qed.

Lemma eo_all_inv k evs : forall st, eo_inv k st EoNone ->
  let '(st', err) := eo_all st evs in eo_inv k st' err.
Proof.
  induction evs as [|e r IH]; intros st H; cbn [eo_all]; [exact H|].
  pose proof (eo_basic_inv k st e H) as Hb. destruct (eo_basic st e) as [st' err].
  destruct err; [apply IH; exact Hb|exact Hb|exact Hb].
Qed.

Theorem C16_inline_filter : forall k evs st, eo_inv k st EoNone ->
  let '(st', err) := eo_run st evs in eo_inv k st' err.
Proof.
  intros k evs. induction evs as [|e r IH]; intros st H; cbn [eo_run]; [exact H|].
  pose proof (eo_all_inv k (expand_x e) st H) as Hb. unfold eo_step.
  destruct (eo_all st (expand_x e)) as [st' err].
  destruct err; [apply IH; exact Hb|exact Hb|exact Hb].
Qed.

Corollary C16_inline_filter_top : forall k evs log err done,
  eo_observe (Some k) evs = (log, err, done) ->
  (length log <= S k)%nat /\ (length log = S k <-> err = EoTarget).
Proof.
  intros k evs log err done. unfold eo_observe.
  pose proof (C16_inline_filter k evs (eo0 (sink0 (Some k)))) as H.
  destruct (eo_run (eo0 (sink0 (Some k))) evs) as [st e] eqn:E.
  assert (Hlen : forall evs st st' e, eo_run st evs = (st', e) -> length (s_rlog (eo_sink st)) = s_n (eo_sink st) ->
                                      length (s_rlog (eo_sink st')) = s_n (eo_sink st')).
  { clear. intros evs. 
    assert (Hb : forall st e0, length (s_rlog (eo_sink st)) = s_n (eo_sink st) ->
                 length (s_rlog (eo_sink (fst (eo_basic st e0)))) = s_n (eo_sink (fst (eo_basic st e0)))).
    { intros st e0 H. destruct e0; cbn [eo_basic];
        repeat match goal with |- context [if ?c then _ else _] => destruct c end;
        cbn [fst eo_sink]; try exact H; unfold eo_fwd, emit; destruct (s_fail (eo_sink st)); cbn [fst eo_sink s_rlog s_n length]; lia. }
    assert (Ha : forall l st st' e, eo_all st l = (st', e) -> length (s_rlog (eo_sink st)) = s_n (eo_sink st) ->
                 length (s_rlog (eo_sink st')) = s_n (eo_sink st')).
    { induction l as [|x r IH]; intros st st' e Hr H; cbn [eo_all] in Hr.
      - inversion Hr; subst; exact H.
      - pose proof (Hb st x H) as Hx. destruct (eo_basic st x) as [s1 e1]. cbn [fst] in Hx.
        destruct e1; [eapply IH; eauto|inversion Hr; subst; exact Hx|inversion Hr; subst; exact Hx]. }
    induction evs as [|x r IH]; intros st st' e Hr H; cbn [eo_run] in Hr.
    - inversion Hr; subst; exact H.
    - unfold eo_step in Hr. destruct (eo_all st (expand_x x)) as [s1 e1] eqn:E1.
      pose proof (Ha _ _ _ _ E1 H) as Hx.
      destruct e1; [eapply IH; eauto|inversion Hr; subst; exact Hx|inversion Hr; subst; exact Hx]. }
  intro Hobs. inversion Hobs; subst log err done. clear Hobs.
  specialize (Hlen _ _ _ _ E eq_refl).
  assert (H0 : eo_inv k (eo0 (sink0 (Some k))) EoNone) by (split; [reflexivity|cbn; lia]).
  specialize (H H0). destruct H as [_ Hn].
  unfold s_log. rewrite rev_length, Hlen.
  destruct e; split; try lia; split; intro X; try discriminate X; try lia; reflexivity.
Qed.

Print Assumptions every_tree_passes.
Print Assumptions C09_inline_members_wf.
Print Assumptions inline_non_object_refused.
Print Assumptions C16_inline_filter_top.

(* non-vacuity: a concrete inlined struct {"a":1,"m":{"k":"v"},"l":<typed int8 array [1;2]>} *)
Example inline_example :
  let t := TObj 3 BAny [ ([97], false, TVal (SNum KInt 1) false);
                         ([109], true, TObj (-1) BAny [ ([107], false, TVal (SStr [118]) true) ]);
                         ([108], false, TXArr BInt8 [SNum KInt8 1; SNum KInt8 2]) ] in
  wf_tree t = true /\
  eo_observe None (flatten t) =
    ([EKey [97]; EVal (SNum KInt 1); EKeyRef [109]; EObjStart (-1) BAny; EKey [107]; EStrRef [118]; EObjEnd;
      EKey [108]; EArrStart 2 BInt8; EVal (SNum KInt8 1); EVal (SNum KInt8 2); EArrEnd], EoNone, true) /\
  eo_observe (Some 4%nat) (flatten t) =
    ([EKey [97]; EVal (SNum KInt 1); EKeyRef [109]; EObjStart (-1) BAny; EKey [107]], EoTarget, false) /\
  eo_observe None (flatten (TArr 0 BAny [])) = ([], EoNotObject, true).
Proof. vm_compute. repeat split. Qed.
