(* L1 model of visitors/expect_obj.go: the filter that Fold puts in front of
   the visitor while an inlined value is folded (gotype/fold_inline.go).  It
   swallows the start and the finish of the outermost object, forwards what is
   inside, and refuses anything that is not inside an object.

   The filter implements Visitor and StringRefVisitor only; the caller wraps
   it with EnsureExtVisitor, so typed arrays and typed maps reach it as their
   expansion into basic events (array.go / map.go), stopping at the first
   error. *)
From SF Require Import Base.Prelude Core.Events.
Open Scope Z_scope.

Inductive eo_err := EoNone | EoTarget | EoNotObject.

Record eo := { eo_depth : Z; eo_sink : sink }.
Definition eo0 (s : sink) : eo := {| eo_depth := 0; eo_sink := s |}.
Definition eo_done (st : eo) : bool := eo_depth st =? 0.

(* v.active.On...(...) *)
Definition eo_fwd (st : eo) (d : Z) (e : event) : eo * eo_err :=
  let '(s', ok) := emit (eo_sink st) e in
  ({| eo_depth := d; eo_sink := s' |}, if ok then EoNone else EoTarget).

(* one method call of ExpectObjVisitor *)
Definition eo_basic (st : eo) (e : event) : eo * eo_err :=
  match e with
  | EObjStart _ _ =>
      let d := eo_depth st + 1 in
      if d =? 1 then ({| eo_depth := d; eo_sink := eo_sink st |}, EoNone) else eo_fwd st d e
  | EObjEnd =>
      let d := eo_depth st - 1 in
      if d =? 0 then ({| eo_depth := d; eo_sink := eo_sink st |}, EoNone) else eo_fwd st d e
  | _ => if eo_depth st =? 0 then (st, EoNotObject) else eo_fwd st (eo_depth st) e
  end.

Fixpoint eo_all (st : eo) (evs : list event) : eo * eo_err :=
  match evs with
  | [] => (st, EoNone)
  | e :: r =>
      let '(st', err) := eo_basic st e in
      match err with EoNone => eo_all st' r | _ => (st', err) end
  end.

(* what EnsureExtVisitor makes of an event for a visitor that has the
   string-reference methods but not the typed-container ones *)
Definition expand_x (e : event) : list event :=
  match e with
  | EXArr _ _ | EXObj _ _ => expand e
  | _ => [e]
  end.

Definition eo_step (st : eo) (e : event) : eo * eo_err := eo_all st (expand_x e).

Fixpoint eo_run (st : eo) (evs : list event) : eo * eo_err :=
  match evs with
  | [] => (st, EoNone)
  | e :: r =>
      let '(st', err) := eo_step st e in
      match err with EoNone => eo_run st' r | _ => (st', err) end
  end.

(* observation for the correspondence check: what the target saw, the error
   class, and Done() *)
Definition eo_observe (fail : option nat) (evs : list event) : list event * eo_err * bool :=
  let '(st, err) := eo_run (eo0 (sink0 fail)) evs in
  (s_log (eo_sink st), err, eo_done st).
