(* C10 for the three encoder models, C15 (first sentence) for the three parser
   models, C16 for Fold.
   Group A (C10): passing a typed slice / typed map / by-reference string through
     the extended interface has the same effect as passing its expansion into basic
     events: same decoded value, same consumer state.
   Group B (C15): what a parser hands out by value is only ever the empty string.
   Group C (C16): Fold with a failing visitor. *)
From Coq Require Import List NArith ZArith Bool Lia.
From Coq Require Import ZifyBool ZifyNat ZifyN.
From SF Require Import Base.Prelude Base.PreludeProofs Base.Utf8 Core.Events Core.EventsProofs
  Core.AdapterProofs.
From SF Require Import Cbor.Spec Cbor.Enc Cbor.Parse.
From SF Require Import Ubjson.Spec Ubjson.Enc Ubjson.Img Ubjson.Parse.
From SF Require Import Json.Spec Json.Enc Json.Parse.
From SF Require Cbor.EncProofs Cbor.RoundtripProofs.
From SF Require Ubjson.EncProofs Ubjson.RoundtripProofs.
From SF Require Json.EncProofs Json.RoundtripProofs.
From SF Require Import Gotype.Types Gotype.Fold.
From SF Require Cbor.ParseVisitorProofs.
Import ListNotations.
Open Scope Z_scope.

Ltac Zify.zify_post_hook ::= Z.div_mod_to_equations.

Notation cbor_small := Cbor.RoundtripProofs.tree_small.
Notation ubj_small := Ubjson.RoundtripProofs.tree_small.

(* ====================================================================== *)
(* Group A.1: C10 for the CBOR encoder                                     *)
(* ====================================================================== *)

Lemma zlen_map' {A B} (g : A -> B) l : zlen (map g l) = zlen l.
Proof. unfold zlen. rewrite map_length. reflexivity. Qed.

Theorem cbor_small_expand : forall t, cbor_small t = true -> cbor_small (expand_tree t) = true.
Proof.
  induction t as [s r|len bt es IH|len bt ms IH|bt es|bt ms] using tree_ind'; intro H.
  - exact H.
  - cbn [expand_tree Cbor.RoundtripProofs.tree_small] in *.
    apply andb_true_iff in H. destruct H as [H1 H2]. rewrite H1. cbn [andb].
    rewrite forallb_forall in H2. apply forallb_forall. intros x Hx.
    apply in_map_iff in Hx. destruct Hx as (y & <- & Hy).
    rewrite Forall_forall in IH. apply IH; [exact Hy|]. apply H2. exact Hy.
  - cbn [expand_tree Cbor.RoundtripProofs.tree_small] in *.
    apply andb_true_iff in H. destruct H as [H1 H2]. rewrite H1. cbn [andb].
    rewrite forallb_forall in H2. apply forallb_forall. intros x Hx.
    apply in_map_iff in Hx. destruct Hx as (y & <- & Hy). cbn [fst snd].
    rewrite Forall_forall in IH. specialize (H2 y Hy). apply andb_true_iff in H2. destruct H2 as [Hk Hs].
    apply andb_true_iff. split; [exact Hk|]. apply IH; assumption.
  - cbn [expand_tree Cbor.RoundtripProofs.tree_small] in *.
    apply andb_true_iff in H. destruct H as [H1 H2]. rewrite H1. cbn [andb].
    rewrite forallb_forall in H2. apply forallb_forall. intros x Hx.
    apply in_map_iff in Hx. destruct Hx as (y & <- & Hy). cbn [Cbor.RoundtripProofs.tree_small].
    apply H2. exact Hy.
  - cbn [expand_tree Cbor.RoundtripProofs.tree_small] in *.
    apply andb_true_iff in H. destruct H as [H1 H2]. rewrite H1. cbn [andb].
    rewrite forallb_forall in H2. apply forallb_forall. intros x Hx.
    apply in_map_iff in Hx. destruct Hx as (y & <- & Hy). cbn [fst snd Cbor.RoundtripProofs.tree_small].
    apply H2. exact Hy.
Qed.

(* C10, CBOR encoder, in context: from any encoder state with a healthy writer,
   the calls of a well-formed tree and the calls of its expansion into basic
   events both succeed, both leave the length stack as it was, and both append a
   document that the reference decoder reads as the same value. *)
Theorem C10_cbor_enc : forall t, wf_tree t = true -> cbor_small t = true ->
  forall e i, w_fail (ce_w e) = None ->
  exists e1 bs1 e2 bs2,
    cbor_run e (flatten t) i = (e1, None) /\
    cbor_run e (flat_map expand (flatten t)) i = (e2, None) /\
    ce_len e1 = ce_len e /\ ce_len e2 = ce_len e /\
    w_fail (ce_w e1) = None /\ w_fail (ce_w e2) = None /\
    w_bytes (ce_w e1) = w_bytes (ce_w e) ++ bs1 /\
    w_bytes (ce_w e2) = w_bytes (ce_w e) ++ bs2 /\
    forall rest fuel, (length (bs1 ++ rest) < fuel)%nat -> (length (bs2 ++ rest) < fuel)%nat ->
      cbor_ref fuel (bs1 ++ rest) = RValue (cv (value_of t)) rest /\
      cbor_ref fuel (bs2 ++ rest) = RValue (cv (value_of t)) rest.
Proof.
  intros t Hw Hs e i He.
  destruct (Cbor.RoundtripProofs.cbor_enc_tree t Hw Hs e i He) as (e1 & bs1 & E1 & L1 & F1 & B1 & D1).
  destruct (Cbor.RoundtripProofs.cbor_enc_tree (expand_tree t) (expand_deep_wf t Hw)
              (cbor_small_expand t Hs) e i He) as (e2 & bs2 & E2 & L2 & F2 & B2 & D2).
  rewrite expand_deep_is_flatten, expand_deep_value in *.
  exists e1, bs1, e2, bs2. repeat (split; [assumption|]).
  intros rest fuel H1 H2. split; [apply D1|apply D2]; assumption.
Qed.
Print Assumptions C10_cbor_enc.

(* top level: both documents decode to the same value *)
Corollary C10_cbor_encode : forall t, wf_tree t = true -> cbor_small t = true ->
  exists bs1 bs2, cbor_encode (flatten t) = Some bs1 /\
                  cbor_encode (flat_map expand (flatten t)) = Some bs2 /\
                  cbor_decode bs1 = RValue (cv (value_of t)) [] /\
                  cbor_decode bs2 = RValue (cv (value_of t)) [].
Proof.
  intros t Hw Hs.
  destruct (Cbor.RoundtripProofs.C07_cbor t Hw Hs) as (bs1 & E1 & D1).
  destruct (Cbor.RoundtripProofs.C07_cbor (expand_tree t) (expand_deep_wf t Hw) (cbor_small_expand t Hs))
    as (bs2 & E2 & D2).
  rewrite expand_deep_is_flatten in E2. rewrite expand_deep_value in D2.
  exists bs1, bs2. auto.
Qed.
Print Assumptions C10_cbor_encode.

(* ====================================================================== *)
(* Group A.2: C10 for the UBJSON encoder                                   *)
(* ====================================================================== *)

(* The recorded finding: a typed uint16/32/64/uint array or map that holds a value
   above MaxInt64 is written with element type 'H', i.e. EVERY element becomes a
   high-precision string, whereas the expansion writes only the large elements
   that way.  The two images differ exactly when such a container mixes large and
   small elements. *)
Definition all_h (es : list scalar) : bool := forallb (fun s => max_int64 <? snum s) es.
Definition mixed_h (bt : btype) (es : list scalar) : bool :=
  is_uint_bt bt && needs_h es && negb (all_h es).

Fixpoint no_mixed_h (t : tree) : bool :=
  match t with
  | TVal _ _ => true
  | TArr _ _ es => forallb no_mixed_h es
  | TObj _ _ ms => forallb (fun m => no_mixed_h (snd m)) ms
  | TXArr bt es => negb (mixed_h bt es)
  | TXObj bt ms => negb (mixed_h bt (map snd ms))
  end.

(* the simpler (stronger) guard: no typed unsigned container needs 'H' at all *)
Fixpoint no_typed_h (t : tree) : bool :=
  match t with
  | TVal _ _ => true
  | TArr _ _ es => forallb no_typed_h es
  | TObj _ _ ms => forallb (fun m => no_typed_h (snd m)) ms
  | TXArr bt es => negb (is_uint_bt bt && needs_h es)
  | TXObj bt ms => negb (is_uint_bt bt && needs_h (map snd ms))
  end.

Lemma no_typed_h_no_mixed : forall t, no_typed_h t = true -> no_mixed_h t = true.
Proof.
  induction t as [s r|len bt es IH|len bt ms IH|bt es|bt ms] using tree_ind';
    cbn [no_typed_h no_mixed_h]; intro H.
  - reflexivity.
  - rewrite forallb_forall in *. rewrite Forall_forall in IH. intros x Hx. apply IH; auto.
  - rewrite forallb_forall in *. rewrite Forall_forall in IH. intros x Hx. apply IH; auto.
  - unfold mixed_h. destruct (is_uint_bt bt && needs_h es); [discriminate|reflexivity].
  - unfold mixed_h. destruct (is_uint_bt bt && needs_h (map snd ms)); [discriminate|reflexivity].
Qed.

Lemma img_scalar_low bt s : xelem_ok bt s = true ->
  is_uint_bt bt = false \/ (max_int64 <? snum s) = false ->
  ubj_img_scalar s = cv (scalar_value s).
Proof.
  intros Hx Hc. destruct s as [|b|b|k z]; try reflexivity.
  unfold ubj_img_scalar. cbn [scalar_value cv]. destruct Hc as [Hc|Hc].
  - assert (Hk : is_uint_kind k = false).
    { destruct bt; try discriminate Hc; destruct k; try reflexivity; discriminate Hx. }
    rewrite Hk. reflexivity.
  - cbn [snum] in Hc. rewrite Hc, andb_false_r. reflexivity.
Qed.

Lemma img_scalar_high bt s : xelem_ok bt s = true -> is_uint_bt bt = true ->
  (max_int64 <? snum s) = true -> ubj_img_scalar s = scalar_h s.
Proof.
  intros Hx Hb Hc.
  destruct bt; try discriminate Hb; destruct s as [|b|b|k z]; try discriminate Hx;
    destruct k; try discriminate Hx; unfold ubj_img_scalar, scalar_h; cbn [snum is_uint_kind andb] in *;
    rewrite Hc; reflexivity.
Qed.

Lemma needs_h_false es s : needs_h es = false -> In s es -> (max_int64 <? snum s) = false.
Proof.
  intros H Hin. destruct (max_int64 <? snum s) eqn:E; [|reflexivity].
  assert (needs_h es = true) by (apply existsb_exists; exists s; auto). congruence.
Qed.

Lemma xarr_img_expand bt es : forallb (xelem_ok bt) es = true -> mixed_h bt es = false ->
  CArr (map ubj_img_scalar es) = ubj_img (TXArr bt es).
Proof.
  intros Hw Hg. rewrite forallb_forall in Hw. cbn [ubj_img]. unfold mixed_h in Hg.
  destruct (is_uint_bt bt) eqn:Hb; [destruct (needs_h es) eqn:Hn|]; cbn [andb] in *; f_equal; apply map_ext_in; intros s Hs.
  - apply negb_false_iff in Hg. unfold all_h in Hg. rewrite forallb_forall in Hg.
    apply (img_scalar_high bt); auto.
  - apply (img_scalar_low bt); auto. right. eapply needs_h_false; eassumption.
  - apply (img_scalar_low bt); auto.
Qed.

Lemma xobj_img_expand bt (ms : list (bytes * scalar)) :
  forallb (fun m => all_bytes (fst m) && xelem_ok bt (snd m)) ms = true -> mixed_h bt (map snd ms) = false ->
  CObj (map (fun m => (fst m, ubj_img_scalar (snd m))) ms) = ubj_img (TXObj bt ms).
Proof.
  intros Hw Hg. rewrite forallb_forall in Hw. cbn [ubj_img]. unfold mixed_h in Hg.
  assert (Hx : forall m, In m ms -> xelem_ok bt (snd m) = true).
  { intros m Hm. specialize (Hw m Hm). apply andb_true_iff in Hw. apply Hw. }
  destruct (is_uint_bt bt) eqn:Hb; [destruct (needs_h (map snd ms)) eqn:Hn|]; cbn [andb] in *; f_equal;
    apply map_ext_in; intros m Hm; f_equal.
  - apply negb_false_iff in Hg. unfold all_h in Hg. rewrite forallb_forall in Hg.
    apply (img_scalar_high bt); auto. apply Hg. apply in_map. exact Hm.
  - apply (img_scalar_low bt); auto. right. eapply needs_h_false; [eassumption|]. apply in_map. exact Hm.
  - apply (img_scalar_low bt); auto.
Qed.

(* under the guard, the image of the expansion is the image of the tree *)
Theorem ubj_img_expand : forall t, wf_tree t = true -> no_mixed_h t = true ->
  ubj_img (expand_tree t) = ubj_img t.
Proof.
  induction t as [s r|len bt es IH|len bt ms IH|bt es|bt ms] using tree_ind'; intros Hw Hg.
  - reflexivity.
  - cbn [expand_tree ubj_img]. f_equal. rewrite map_map. apply map_ext_in. intros x Hx.
    rewrite Forall_forall in IH. rewrite wf_arr in Hw. apply andb_true_iff in Hw. destruct Hw as [_ Hw].
    cbn [no_mixed_h] in Hg. rewrite forallb_forall in Hw, Hg. apply IH; auto.
  - cbn [expand_tree ubj_img]. f_equal. rewrite map_map. apply map_ext_in. intros x Hx.
    rewrite Forall_forall in IH. rewrite wf_obj in Hw. apply andb_true_iff in Hw. destruct Hw as [_ Hw].
    cbn [no_mixed_h] in Hg. rewrite forallb_forall in Hw, Hg. cbn [fst snd]. f_equal.
    specialize (Hw x Hx). apply andb_true_iff in Hw. destruct Hw as [_ Hw]. apply IH; auto.
  - cbn [expand_tree]. cbn [wf_tree no_mixed_h] in Hw, Hg. apply negb_true_iff in Hg.
    rewrite <- (xarr_img_expand bt es Hw Hg). cbn [ubj_img]. rewrite map_map. reflexivity.
  - cbn [expand_tree]. cbn [wf_tree no_mixed_h] in Hw, Hg. apply negb_true_iff in Hg.
    apply andb_true_iff in Hw. destruct Hw as [_ Hw].
    rewrite <- (xobj_img_expand bt ms Hw Hg). cbn [ubj_img]. rewrite map_map. reflexivity.
Qed.
Print Assumptions ubj_img_expand.

(* ... and the guard is exact: when a well-formed tree contains a typed unsigned
   container mixing values above and below MaxInt64, the two images differ *)
Lemma forallb_false_ex {A} (f : A -> bool) l : forallb f l = false -> exists x, In x l /\ f x = false.
Proof.
  induction l as [|a l IH]; cbn [forallb]; [discriminate|]. intro H.
  destruct (f a) eqn:E; [|exists a; split; [left; reflexivity|exact E]].
  destruct (IH H) as (x & Hx & Fx). exists x. split; [right; exact Hx|exact Fx].
Qed.

Lemma map_eq_in {A B} (f g : A -> B) l x : map f l = map g l -> In x l -> f x = g x.
Proof.
  induction l as [|a l IH]; cbn [map]; intros H Hx; [destruct Hx|].
  injection H as H1 H2. destruct Hx as [<-|Hx]; [exact H1|apply IH; assumption].
Qed.

Lemma img_scalar_mixed bt s : xelem_ok bt s = true -> is_uint_bt bt = true ->
  (max_int64 <? snum s) = false -> ubj_img_scalar s <> scalar_h s.
Proof.
  intros Hx Hb Hc.
  destruct bt; try discriminate Hb; destruct s as [|b|b|k z]; try discriminate Hx;
    destruct k; try discriminate Hx; unfold ubj_img_scalar, scalar_h; cbn [snum is_uint_kind andb] in *;
    rewrite Hc; discriminate.
Qed.

Theorem ubj_img_expand_exact : forall t, wf_tree t = true -> no_mixed_h t = false ->
  ubj_img (expand_tree t) <> ubj_img t.
Proof.
  induction t as [s r|len bt es IH|len bt ms IH|bt es|bt ms] using tree_ind'; intros Hw Hg.
  - discriminate Hg.
  - cbn [no_mixed_h] in Hg. apply forallb_false_ex in Hg. destruct Hg as (x & Hx & Fx).
    rewrite wf_arr in Hw. apply andb_true_iff in Hw. destruct Hw as [_ Hw]. rewrite forallb_forall in Hw.
    rewrite Forall_forall in IH. cbn [expand_tree ubj_img]. rewrite map_map. intro E. injection E as E.
    apply (IH x Hx (Hw x Hx) Fx). exact (map_eq_in _ _ es x E Hx).
  - cbn [no_mixed_h] in Hg. apply forallb_false_ex in Hg. destruct Hg as (x & Hx & Fx).
    rewrite wf_obj in Hw. apply andb_true_iff in Hw. destruct Hw as [_ Hw]. rewrite forallb_forall in Hw.
    specialize (Hw x Hx). apply andb_true_iff in Hw. destruct Hw as [_ Hw].
    rewrite Forall_forall in IH. cbn [expand_tree ubj_img]. rewrite map_map. intro E. injection E as E.
    apply (IH x Hx Hw Fx). pose proof (map_eq_in _ _ ms x E Hx) as E1. cbn [fst snd] in E1.
    injection E1 as E1. exact E1.
  - cbn [wf_tree no_mixed_h] in Hw, Hg. apply negb_false_iff in Hg. unfold mixed_h in Hg.
    apply andb_true_iff in Hg. destruct Hg as [Hg Hall]. apply andb_true_iff in Hg. destruct Hg as [Hb Hn].
    apply negb_true_iff in Hall. unfold all_h in Hall. apply forallb_false_ex in Hall.
    destruct Hall as (s & Hs & Fs). rewrite forallb_forall in Hw.
    cbn [expand_tree ubj_img]. rewrite Hb, Hn. cbn [andb]. rewrite map_map. intro E. injection E as E.
    apply (img_scalar_mixed bt s (Hw s Hs) Hb Fs). exact (map_eq_in _ _ es s E Hs).
  - cbn [wf_tree no_mixed_h] in Hw, Hg. apply negb_false_iff in Hg. unfold mixed_h in Hg.
    apply andb_true_iff in Hw. destruct Hw as [_ Hw].
    apply andb_true_iff in Hg. destruct Hg as [Hg Hall]. apply andb_true_iff in Hg. destruct Hg as [Hb Hn].
    apply negb_true_iff in Hall. unfold all_h in Hall. apply forallb_false_ex in Hall.
    destruct Hall as (s & Hs & Fs). apply in_map_iff in Hs. destruct Hs as (m & <- & Hm).
    rewrite forallb_forall in Hw. specialize (Hw m Hm). apply andb_true_iff in Hw. destruct Hw as [_ Hw].
    cbn [expand_tree ubj_img]. rewrite Hb, Hn. cbn [andb]. rewrite map_map. intro E. injection E as E.
    pose proof (map_eq_in _ _ ms m E Hm) as E1. cbn [fst snd] in E1. injection E1 as E1.
    exact (img_scalar_mixed bt (snd m) Hw Hb Fs E1).
Qed.
Print Assumptions ubj_img_expand_exact.

Corollary ubj_img_expand_iff : forall t, wf_tree t = true ->
  (ubj_img (expand_tree t) = ubj_img t <-> no_mixed_h t = true).
Proof.
  intros t Hw. split.
  - intro E. destruct (no_mixed_h t) eqn:G; [reflexivity|]. exfalso. exact (ubj_img_expand_exact t Hw G E).
  - apply ubj_img_expand. exact Hw.
Qed.
Print Assumptions ubj_img_expand_iff.

Theorem ubj_small_expand : forall t, ubj_small t = true -> ubj_small (expand_tree t) = true.
Proof.
  induction t as [s r|len bt es IH|len bt ms IH|bt es|bt ms] using tree_ind'; intro H.
  - exact H.
  - cbn [expand_tree]. rewrite Ubjson.RoundtripProofs.small_arr in *. rewrite zlen_map'.
    apply andb_true_iff in H. destruct H as [H1 H2]. apply andb_true_iff. split; [exact H1|].
    rewrite forallb_forall in H2. apply forallb_forall. intros x Hx.
    apply in_map_iff in Hx. destruct Hx as (y & <- & Hy).
    rewrite Forall_forall in IH. apply IH; [exact Hy|]. apply H2. exact Hy.
  - cbn [expand_tree]. rewrite Ubjson.RoundtripProofs.small_obj in *. rewrite zlen_map'.
    apply andb_true_iff in H. destruct H as [H1 H2]. apply andb_true_iff. split; [exact H1|].
    rewrite forallb_forall in H2. apply forallb_forall. intros x Hx.
    apply in_map_iff in Hx. destruct Hx as (y & <- & Hy). cbn [fst snd].
    rewrite Forall_forall in IH. specialize (H2 y Hy). apply andb_true_iff in H2. destruct H2 as [Hk Hs].
    apply andb_true_iff. split; [exact Hk|]. apply IH; assumption.
  - cbn [expand_tree]. rewrite Ubjson.RoundtripProofs.small_arr. rewrite zlen_map'.
    cbn [Ubjson.RoundtripProofs.tree_small] in H.
    apply andb_true_iff in H. destruct H as [H1 H2]. apply andb_true_iff. split; [exact H1|].
    rewrite forallb_forall in H2. apply forallb_forall. intros x Hx.
    apply in_map_iff in Hx. destruct Hx as (y & <- & Hy). cbn [Ubjson.RoundtripProofs.tree_small].
    apply H2. exact Hy.
  - cbn [expand_tree]. rewrite Ubjson.RoundtripProofs.small_obj. rewrite zlen_map'.
    cbn [Ubjson.RoundtripProofs.tree_small] in H.
    apply andb_true_iff in H. destruct H as [H1 H2]. apply andb_true_iff. split; [exact H1|].
    rewrite forallb_forall in H2. apply forallb_forall. intros x Hx.
    apply in_map_iff in Hx. destruct Hx as (y & <- & Hy). cbn [fst snd Ubjson.RoundtripProofs.tree_small].
    apply H2. exact Hy.
Qed.

(* same consumer state, unconditionally (any tree, even ill-formed): both call
   sequences succeed and leave the length stack as it was *)
Theorem C10_ubj_enc_state : forall t e i, w_fail (ue_w e) = None ->
  exists e1 e2,
    ubj_run e (flatten t) i = (e1, None) /\
    ubj_run e (flat_map expand (flatten t)) i = (e2, None) /\
    ue_len e1 = ue_len e /\ ue_len e2 = ue_len e.
Proof.
  intros t e i He.
  destruct (Ubjson.EncProofs.C17_ubj_enc_idle_any t e i He) as (e1 & E1 & L1).
  destruct (Ubjson.EncProofs.C17_ubj_enc_idle_any (expand_tree t) e i He) as (e2 & E2 & L2).
  rewrite expand_deep_is_flatten in E2. exists e1, e2. auto.
Qed.
Print Assumptions C10_ubj_enc_state.

(* C10, UBJSON encoder, in context, under the guard *)
Theorem C10_ubj_enc : forall t, wf_tree t = true -> ubj_small t = true -> no_mixed_h t = true ->
  forall e i, w_fail (ue_w e) = None ->
  exists e1 m1 p1 e2 m2 p2,
    ubj_run e (flatten t) i = (e1, None) /\
    ubj_run e (flat_map expand (flatten t)) i = (e2, None) /\
    ue_len e1 = ue_len e /\ ue_len e2 = ue_len e /\
    w_fail (ue_w e1) = None /\ w_fail (ue_w e2) = None /\
    w_bytes (ue_w e1) = w_bytes (ue_w e) ++ m1 :: p1 /\
    w_bytes (ue_w e2) = w_bytes (ue_w e) ++ m2 :: p2 /\
    is_value_marker m1 = true /\ is_value_marker m2 = true /\
    forall rest fuel, (length ((m1 :: p1) ++ rest) < fuel)%nat -> (length ((m2 :: p2) ++ rest) < fuel)%nat ->
      ubj_payload fuel m1 (p1 ++ rest) = RValue (ubj_img t) rest /\
      ubj_payload fuel m2 (p2 ++ rest) = RValue (ubj_img t) rest.
Proof.
  intros t Hw Hs Hg e i He.
  destruct (Ubjson.RoundtripProofs.ubj_enc_tree t Hw Hs e i He)
    as (e1 & bs1 & E1 & L1 & F1 & B1 & m1 & p1 & -> & M1 & D1).
  destruct (Ubjson.RoundtripProofs.ubj_enc_tree (expand_tree t) (expand_deep_wf t Hw)
              (ubj_small_expand t Hs) e i He) as (e2 & bs2 & E2 & L2 & F2 & B2 & m2 & p2 & -> & M2 & D2).
  rewrite expand_deep_is_flatten in E2. rewrite (ubj_img_expand t Hw Hg) in D2.
  exists e1, m1, p1, e2, m2, p2. repeat (split; [assumption|]).
  intros rest fuel H1 H2. split; [apply D1|apply D2]; assumption.
Qed.
Print Assumptions C10_ubj_enc.

Corollary C10_ubj_encode : forall t, wf_tree t = true -> ubj_small t = true -> no_mixed_h t = true ->
  exists bs1 bs2, ubj_encode (flatten t) = Some bs1 /\
                  ubj_encode (flat_map expand (flatten t)) = Some bs2 /\
                  ubj_decode bs1 = RValue (ubj_img t) [] /\
                  ubj_decode bs2 = RValue (ubj_img t) [].
Proof.
  intros t Hw Hs Hg.
  destruct (Ubjson.RoundtripProofs.C07_ubj t Hw Hs) as (bs1 & E1 & D1).
  destruct (Ubjson.RoundtripProofs.C07_ubj (expand_tree t) (expand_deep_wf t Hw) (ubj_small_expand t Hs))
    as (bs2 & E2 & D2).
  rewrite expand_deep_is_flatten in E2. rewrite (ubj_img_expand t Hw Hg) in D2.
  exists bs1, bs2. auto.
Qed.
Print Assumptions C10_ubj_encode.

(* the finding: without the guard C10 fails for the UBJSON encoder *)
Definition c10_ubj_witness : tree :=
  TXArr BUint64 [SNum KUint64 5; SNum KUint64 9223372036854775808].

Theorem C10_ubj_typed_h_refuted :
  exists t, wf_tree t = true /\ ubj_small t = true /\ ubj_img (expand_tree t) <> ubj_img t.
Proof.
  exists c10_ubj_witness. split; [vm_compute; reflexivity|]. split; [vm_compute; reflexivity|].
  intro H. vm_compute in H. discriminate H.
Qed.
Print Assumptions C10_ubj_typed_h_refuted.

(* the same on the wire: the two documents decode to different values
   ( ["5","9223372036854775808"] against [5,"9223372036854775808"] ) *)
Theorem C10_ubj_typed_h_refuted_wire :
  exists t bs1 bs2 v1 v2, wf_tree t = true /\
    ubj_encode (flatten t) = Some bs1 /\ ubj_encode (flat_map expand (flatten t)) = Some bs2 /\
    ubj_decode bs1 = RValue v1 [] /\ ubj_decode bs2 = RValue v2 [] /\ v1 <> v2.
Proof.
  exists c10_ubj_witness.
  eexists. eexists. eexists. eexists.
  split; [vm_compute; reflexivity|].
  split; [vm_compute; reflexivity|].
  split; [vm_compute; reflexivity|].
  split; [vm_compute; reflexivity|].
  split; [vm_compute; reflexivity|].
  intro H. discriminate H.
Qed.
Print Assumptions C10_ubj_typed_h_refuted_wire.

(* ====================================================================== *)
(* Group A.3: C10 for the JSON encoder                                     *)
(* ====================================================================== *)
(* The JSON encoder has no extended interface of its own: typed arrays and
   maps reach it through the adapters (json_on replays [expand]), and
   OnStringRef / OnKeyRef are OnString / OnKey.  So for EVERY call sequence
   (well-formed or not, healthy writer or not) the run on the extended events
   and the run on their expansion end in the same encoder state (hence the same
   bytes) with the same error class; only the index of the failing call differs
   (an extended event is one call, its expansion several). *)
Section JsonC10.
  Variable ffmt : Z -> Z -> bytes.
  Variable cfg : jcfg.

  (* forget the index of the failing call *)
  Definition jrun_forget (r : jrun_res) : option (jenc * option Z) :=
    match r with
    | JRun e f => Some (e, option_map snd f)
    | JRunPanic => None
    end.

  Lemma json_run_app a : forall b e i,
    json_run cfg ffmt e (a ++ b) i =
    match json_run cfg ffmt e a i with
    | JRun e1 None => json_run cfg ffmt e1 b (i + length a)
    | r => r
    end.
  Proof.
    induction a as [|ev a IH]; intros b e i; cbn [app json_run length].
    - rewrite Nat.add_0_r. reflexivity.
    - destruct (json_on cfg ffmt e ev) as [e1 err|]; [|reflexivity].
      destruct (err =? jnil); [|reflexivity]. rewrite IH. rewrite Nat.add_succ_comm. reflexivity.
  Qed.

  Lemma json_run_err_nonnil evs : forall e i e' j err,
    json_run cfg ffmt e evs i = JRun e' (Some (j, err)) -> (err =? jnil) = false.
  Proof.
    induction evs as [|ev r IH]; intros e i e' j err H; cbn [json_run] in H; [discriminate|].
    destruct (json_on cfg ffmt e ev) as [e1 err1|]; [|discriminate].
    destruct (err1 =? jnil) eqn:E; [eapply IH; exact H|]. inversion H; subst. exact E.
  Qed.

  (* an event that is not a typed container expands into one basic event which
     the encoder treats in the same way *)
  Lemma json_on_single ev : Json.EncProofs.is_basic ev = true ->
    exists ev', expand ev = [ev'] /\ forall e, json_on cfg ffmt e ev = json_on cfg ffmt e ev'.
  Proof.
    intro H. destruct ev; try discriminate H; eexists; (split; [reflexivity|]); intro e; reflexivity.
  Qed.

  Lemma expand_basic ev : forallb Json.EncProofs.is_basic (expand ev) = true.
  Proof.
    destruct ev as [s|s|len bt| |len bt| |k|k|bt es|bt ms]; try reflexivity.
    - cbn [expand forallb Json.EncProofs.is_basic]. rewrite forallb_app. cbn [forallb Json.EncProofs.is_basic].
      rewrite andb_true_r. induction es as [|s r IH]; [reflexivity|exact IH].
    - cbn [expand forallb Json.EncProofs.is_basic]. rewrite forallb_app. cbn [forallb Json.EncProofs.is_basic].
      rewrite andb_true_r. induction ms as [|m r IH]; [reflexivity|exact IH].
  Qed.

  Theorem json_run_expand_forget : forall evs e i j,
    jrun_forget (json_run cfg ffmt e evs i) = jrun_forget (json_run cfg ffmt e (flat_map expand evs) j).
  Proof.
    induction evs as [|ev r IH]; intros e i j; [reflexivity|].
    cbn [flat_map]. rewrite json_run_app.
    destruct (Json.EncProofs.is_basic ev) eqn:Hb.
    - destruct (json_on_single ev Hb) as (ev' & Hx & Hon). rewrite Hx. cbn [json_run]. rewrite Hon.
      destruct (json_on cfg ffmt e ev') as [e1 err|]; [|reflexivity].
      destruct (err =? jnil); [apply IH|reflexivity].
    - assert (Hon : json_on cfg ffmt e ev = json_seq cfg ffmt e (expand ev)).
      { destruct ev; try discriminate Hb; reflexivity. }
      cbn [json_run]. rewrite Hon, (Json.EncProofs.json_seq_run ffmt cfg _ e j (expand_basic ev)).
      destruct (json_run cfg ffmt e (expand ev) j) as [e1 [[j' err]|]|] eqn:E.
      + rewrite (json_run_err_nonnil _ _ _ _ _ _ E). reflexivity.
      + change (jnil =? jnil) with true. cbv iota. apply IH.
      + reflexivity.
  Qed.

  (* in particular: if one of the two runs succeeds, so does the other, in the
     very same state (same bytes written, same stacks) *)
  Corollary json_run_expand_ok : forall evs e i j e',
    json_run cfg ffmt e evs i = JRun e' None <->
    json_run cfg ffmt e (flat_map expand evs) j = JRun e' None.
  Proof.
    intros evs e i j e'. pose proof (json_run_expand_forget evs e i j) as H. split; intro E; rewrite E in H.
    - destruct (json_run cfg ffmt e (flat_map expand evs) j) as [e2 [[j' err]|]|]; cbn in H; try discriminate H.
      inversion H. reflexivity.
    - destruct (json_run cfg ffmt e evs i) as [e2 [[j' err]|]|]; cbn in H; try discriminate H.
      inversion H. reflexivity.
  Qed.

  (* the same error class otherwise *)
  Corollary json_run_expand_err : forall evs e i j e' k err,
    json_run cfg ffmt e evs i = JRun e' (Some (k, err)) ->
    exists k', json_run cfg ffmt e (flat_map expand evs) j = JRun e' (Some (k', err)).
  Proof.
    intros evs e i j e' k err E. pose proof (json_run_expand_forget evs e i j) as H. rewrite E in H.
    destruct (json_run cfg ffmt e (flat_map expand evs) j) as [e2 [[j' err']|]|]; cbn in H; try discriminate H.
    inversion H. exists j'. reflexivity.
  Qed.
End JsonC10.
Print Assumptions json_run_expand_forget.
Print Assumptions json_run_expand_ok.
Print Assumptions json_run_expand_err.

Section JsonC10RT.
  Variable ffmt : Z -> Z -> bytes.
  Variable pf : bytes -> option Z.
  Variable fimg : Z -> Z -> cnum.
  Variable fimg_r : Z -> Z -> cnum.
  (* the hypotheses of Json/RoundtripProofs.v (section JsonRT) about strconv *)
  Hypothesis ffmt_number : forall w bits, w = 32 \/ w = 64 -> in_u w bits = true ->
    nonfinite w bits = false ->
    exists isint, json_number (ffmt w bits) = NumOk (ffmt w bits) isint [] /\
                  json_num_value pf (ffmt w bits) isint = Some (fimg w bits).
  Hypothesis ffmt_radix : forall w bits, w = 32 \/ w = 64 -> in_u w bits = true ->
    nonfinite w bits = false -> snd (radix_scan (ffmt w bits) 0) = true ->
    exists isint, json_number (Json.RoundtripProofs.radix_patch (ffmt w bits)) =
                    NumOk (Json.RoundtripProofs.radix_patch (ffmt w bits)) isint [] /\
                  json_num_value pf (Json.RoundtripProofs.radix_patch (ffmt w bits)) isint = Some (fimg_r w bits).
  Variable cfg : jcfg.
  Notation img := (Json.RoundtripProofs.json_img ffmt fimg fimg_r cfg).

  (* C10, JSON encoder, in context: from any encoder state with a healthy writer
     (top level, inside an array, after a key) the calls of a well-formed tree and
     the calls of its expansion both succeed and end in the SAME encoder state e'
     (same bytes, same stacks); the text appended decodes to the image of the
     tree, which is also the image of the expanded tree. *)
  Theorem C10_json_enc : forall t, wf_tree t = true ->
    ignore_invalid cfg = true \/ Json.EncProofs.tree_finite t = true ->
    forall e i, w_fail (je_w e) = None ->
    exists e' txt,
      json_run cfg ffmt e (flatten t) i = JRun e' None /\
      json_run cfg ffmt e (flat_map expand (flatten t)) i = JRun e' None /\
      je_first e' = Json.EncProofs.after_val e /\ je_inarr e' = je_inarr e /\ w_fail (je_w e') = None /\
      w_bytes (je_w e') = w_bytes (je_w e) ++ Json.EncProofs.sep e ++ txt /\
      img (expand_tree t) = img t /\
      forall fuel rest, Json.RoundtripProofs.delim rest = true -> (length txt < fuel)%nat ->
        json_ref pf fuel (txt ++ rest) = RValue (img t) rest.
  Proof.
    intros t Hw Hfin e i He.
    destruct (Json.RoundtripProofs.json_enc_tree_value ffmt pf fimg fimg_r ffmt_number ffmt_radix cfg
                t Hw Hfin e i He) as (e' & txt & E & F & A & N & B & D).
    exists e', txt. split; [exact E|]. split; [apply (proj1 (json_run_expand_ok ffmt cfg (flatten t) e i i e')); exact E|].
    repeat (split; [assumption|]). split; [apply Json.RoundtripProofs.json_img_expand|exact D].
  Qed.

  (* the two runs are equal as results, not just in their final state *)
  Theorem C10_json_run_eq : forall t, wf_tree t = true ->
    ignore_invalid cfg = true \/ Json.EncProofs.tree_finite t = true ->
    forall e i, w_fail (je_w e) = None ->
    json_run cfg ffmt e (flatten t) i = json_run cfg ffmt e (flat_map expand (flatten t)) i.
  Proof.
    intros t Hw Hfin e i He.
    destruct (C10_json_enc t Hw Hfin e i He) as (e' & txt & E1 & E2 & _). rewrite E1, E2. reflexivity.
  Qed.
End JsonC10RT.
Print Assumptions C10_json_enc.
Print Assumptions C10_json_run_eq.

(* ====================================================================== *)
(* Group C: C16 for Fold                                                   *)
(* ====================================================================== *)
(* fold_into delivers the events of fold_value one by one.  Exact form, for any
   visitor state: the visitor's log grows by the first [delivered] events, it is
   called that many times, and the result is Fold's own verdict if every call
   succeeded and the injected error otherwise. *)
Theorem C16_fold_exact : forall s t v s' r, fold_into s t v = (s', r) ->
  let evs := fst (fold_value t v) in
  s_fail s' = s_fail s /\
  s_log s' = s_log s ++ firstn (delivered s (length evs)) evs /\
  s_n s' = (s_n s + delivered s (length evs))%nat /\
  r = if all_ok s (length evs) then snd (fold_value t v) else Some err_injected.
Proof.
  intros s t v s' r H. unfold fold_into in H.
  destruct (fold_value t v) as [evs err]. cbn [fst snd].
  destruct (emit_all s evs) as [s1 ok] eqn:E. inversion H; subst s1 r. clear H.
  apply emit_all_exact in E. destruct E as (H1 & H2 & H3 & H4).
  unfold s_log. rewrite H2, rev_app_distr, rev_involutive. rewrite <- H4. auto.
Qed.
Print Assumptions C16_fold_exact.

(* a visitor that fails from call k on (counting from 0), starting fresh:
   exactly the first k+1 events are delivered (all of them if there are at most
   k+1), and the injected error is returned iff there are more than k events;
   otherwise Fold's own verdict is returned *)
Theorem C16_fold : forall k t v s' r, fold_into (sink0 (Some k)) t v = (s', r) ->
  let evs := fst (fold_value t v) in
  s_log s' = firstn (S k) evs /\
  length (s_log s') = Nat.min (length evs) (S k) /\
  ((length evs > k)%nat -> r = Some err_injected) /\
  ((length evs <= k)%nat -> r = snd (fold_value t v) /\ s_log s' = evs).
Proof.
  intros k t v s' r H. apply C16_fold_exact in H. cbv zeta in *.
  destruct H as (_ & H2 & _ & H4).
  set (evs := fst (fold_value t v)) in *.
  unfold delivered, all_ok in *. cbn [sink0 s_fail s_n s_log s_rlog rev app] in *.
  rewrite Nat.sub_0_r in H2. rewrite Nat.add_0_l in H4.
  assert (Hlog : s_log s' = firstn (S k) evs).
  { rewrite H2. destruct (Nat.le_gt_cases (length evs) (S k)) as [L|L].
    - rewrite Nat.min_l by exact L. rewrite firstn_all. symmetry. apply firstn_all2. exact L.
    - rewrite Nat.min_r by lia. reflexivity. }
  split; [exact Hlog|]. split; [rewrite Hlog, firstn_length; lia|]. split.
  - intro L. rewrite H4.
    destruct (length evs) as [|n] eqn:E; [lia|]. cbn [Nat.eqb orb].
    assert (Hle : Nat.leb (S n) k = false) by (apply Nat.leb_gt; lia). rewrite Hle. reflexivity.
  - intro L. split.
    + rewrite H4. assert (Hle : Nat.leb (length evs) k = true) by (apply Nat.leb_le; exact L).
      rewrite Hle, orb_true_r. reflexivity.
    + rewrite Hlog. apply firstn_all2. lia.
Qed.
Print Assumptions C16_fold.

(* a visitor that never fails gets everything, and Fold returns its own verdict *)
Theorem C16_fold_nofail : forall s t v s' r, s_fail s = None -> fold_into s t v = (s', r) ->
  s_log s' = s_log s ++ fst (fold_value t v) /\ r = snd (fold_value t v).
Proof.
  intros s t v s' r Hs H. apply C16_fold_exact in H. cbv zeta in H. destruct H as (_ & H2 & _ & H4).
  unfold delivered, all_ok in *. rewrite Hs in *. rewrite firstn_all in H2. auto.
Qed.
Print Assumptions C16_fold_nofail.

(* ====================================================================== *)
(* Group B: C15 (first sentence) for the parser models                     *)
(* ====================================================================== *)
(* A parser hands strings to its visitor either by reference (EStrRef /
   EKeyRef: the bytes may alias the caller's chunk or the parser's buffer) or by
   value (EVal (SStr _) / EKey _).  What is handed out by value is only ever
   the empty string - a static value that aliases nothing. *)

Section Good.
  Variable P : event -> Prop.
  Definition good (s : sink) : Prop := Forall P (s_rlog s).

  Lemma emit_good s e s1 ok : emit s e = (s1, ok) -> good s -> P e -> good s1.
  Proof.
    unfold emit, good. intros H G Pe.
    destruct (s_fail s); inversion H; subst; cbn [s_rlog]; constructor; assumption.
  Qed.

  Lemma good_log s : good s -> Forall P (s_log s).
  Proof.
    unfold good, s_log. intro G. apply Forall_forall. intros x Hx. apply in_rev in Hx.
    rewrite Forall_forall in G. apply G. exact Hx.
  Qed.

  Lemma good_sink0 f : good (sink0 f).
  Proof. constructor. Qed.
End Good.

(* ---------------------------------------------------------------------- *)
(* B.1 CBOR                                                                *)
(* ---------------------------------------------------------------------- *)
Import Cbor.Parse.

Definition byval_empty (e : event) : Prop :=
  match e with
  | EVal (SStr s) => s = []
  | EKey k => k = []
  | _ => True
  end.

Notation cgood := (good byval_empty).

Lemma vis_good s e s1 er : vis s e = (s1, er) -> cgood s -> byval_empty e -> cgood s1.
Proof.
  unfold vis. intros H G Pe. destruct (emit s e) as [s' ok] eqn:E. inversion H; subst.
  eapply emit_good; eassumption.
Qed.

Definition gsr (r : sres) : Prop := match r with SR _ s _ _ _ => cgood s | Crash _ => True end.
Definition gov (r : option (cparser * sink * bool * Z)) : Prop :=
  match r with Some (_, s, _, _) => cgood s | None => True end.

Lemma num_event_byval neg minor v e : num_event neg minor v = Some e -> byval_empty e.
Proof.
  unfold num_event. intro H.
  repeat match type of H with
         | context [if ?c then _ else _] => destruct c
         end; inversion H; subst; exact I.
Qed.

Ltac cvis :=
  match goal with
  | |- context [vis ?s ?e] =>
      let s1 := fresh "s" in let er := fresh "er" in let E := fresh "E" in
      destruct (vis s e) as [s1 er] eqn:E;
      let G := fresh "G" in
      assert (G : cgood s1)
        by (eapply vis_good;
            [exact E | assumption
            | first [exact I | reflexivity | eapply num_event_byval; eassumption
                    | repeat match goal with |- context [if ?c then _ else _] => destruct c end; exact I]]);
      clear E
  end.

Ltac cbrk :=
  match goal with
  | |- context [if ?c then _ else _] => destruct c
  | |- context [match ?x with [] => _ | _ :: _ => _ end] => destruct x
  | |- context [match ?x with Some _ => _ | None => _ end] => destruct x eqn:?
  | |- context [match ?x with CR _ _ _ => _ | CCrash => _ end] => destruct x
  | |- context [match ?x with (_, _) => _ end] => destruct x
  end.

Create HintDb gd.
Ltac cleaf := cbn [gsr gov]; solve [assumption | exact I | auto with gd].
Ltac cgo := cbv zeta; repeat (cbv beta iota; first [cleaf | cvis | cbrk]).

Lemma on_value_good : forall fuel p s, cgood s -> gov (on_value fuel p s).
Proof.
  induction fuel as [|f IH]; intros p s G; cbn [on_value]; [exact I|]. cgo.
Qed.
#[local] Hint Resolve on_value_good : gd.

Lemma pop_state_good p s : cgood s -> gov (pop_state p s).
Proof. intro G. unfold pop_state. cgo. Qed.
#[local] Hint Resolve pop_state_good : gd.

Ltac cpop :=
  match goal with
  | G : cgood ?s |- context [pop_state ?p ?s] =>
      let H := fresh "H" in
      pose proof (pop_state_good p s G) as H;
      destruct (pop_state p s) as [[[[? ?] ?] ?]|]; cbn [gov] in H
  | G : cgood ?s |- context [on_value ?f ?p ?s] =>
      let H := fresh "H" in
      pose proof (on_value_good f p s G) as H;
      destruct (on_value f p s) as [[[[? ?] ?] ?]|]; cbn [gov] in H
  end.
Ltac cgo ::= cbv zeta; repeat (cbv beta iota; first [cleaf | cpop | cvis | cbrk]).

Lemma after_value_good p s rest err : cgood s -> gsr (after_value p s rest err).
Proof. intro G. unfold after_value. cgo. Qed.
Lemma after_pop_good p s rest err : cgood s -> gsr (after_pop p s rest err).
Proof. intro G. unfold after_pop. cgo. Qed.
Lemma init_byte_seq_good p s major minor b : cgood s -> gsr (init_byte_seq p s major minor b).
Proof. intro G. unfold init_byte_seq. cgo. Qed.
Lemma init_sub_good p s major minor b : cgood s -> gsr (init_sub p s major minor b).
Proof. intro G. unfold init_sub. cgo. Qed.
#[local] Hint Resolve after_value_good after_pop_good init_byte_seq_good init_sub_good : gd.

Lemma step_value_good p s b : cgood s -> gsr (step_value p s b).
Proof. intro G. unfold step_value. cgo. Qed.
#[local] Hint Resolve step_value_good : gd.

Lemma step_num_good neg p s b : cgood s -> gsr (step_num neg p s b).
Proof. intro G. unfold step_num, get_uint. cgo. Qed.
Lemma step_float_good w p s b : cgood s -> gsr (step_float w p s b).
Proof. intro G. unfold step_float, get_uint. cgo. Qed.
Lemma step_len_good p s b : cgood s -> gsr (step_len p s b).
Proof. intro G. unfold step_len, get_uint. cgo. Qed.
#[local] Hint Resolve step_num_good step_float_good step_len_good : gd.

Lemma emit_bytes_good l : forall s, cgood s -> cgood (fst (emit_bytes s l)).
Proof.
  induction l as [|c r IH]; intros s G; cbn [emit_bytes]; [exact G|].
  cvis. cbv beta iota. destruct (isnil er); [apply IH; assumption|assumption].
Qed.

Ltac cbytes :=
  match goal with
  | G : cgood ?s |- context [emit_bytes ?s ?l] =>
      let H := fresh "H" in
      pose proof (emit_bytes_good l s G) as H;
      destruct (emit_bytes s l) as [? ?]; cbn [fst] in H
  end.
Ltac cgo ::= cbv zeta; repeat (cbv beta iota; first [cleaf | cpop | cbytes | cvis | cbrk]).

Lemma step_bytes_good p s b : cgood s -> gsr (step_bytes p s b).
Proof. intro G. unfold step_bytes. cgo. Qed.
Lemma step_text_good p s b : cgood s -> gsr (step_text p s b).
Proof. intro G. unfold step_text. cgo. Qed.
Lemma step_key_good p s b : cgood s -> gsr (step_key p s b).
Proof. intro G. unfold step_key. cgo. Qed.
Lemma init_map_key_good p s b : cgood s -> gsr (init_map_key p s b).
Proof. intro G. unfold init_map_key. cgo. Qed.
#[local] Hint Resolve step_bytes_good step_text_good step_key_good init_map_key_good : gd.

Definition ghl (r : option (bool * cparser * sink * bool * Z)) : Prop :=
  match r with Some (_, _, s, _, _) => cgood s | None => True end.
Lemma handle_len_good isarr p s : cgood s -> ghl (handle_len isarr p s).
Proof. intro G. unfold handle_len. cbv zeta. repeat (cbv beta iota; first [solve [cbn [ghl]; first [assumption | exact I]] | cpop | cvis | cbrk]). Qed.

Lemma step_array_good p s b : cgood s -> gsr (step_array p s b).
Proof.
  intro G. unfold step_array. pose proof (handle_len_good true p s G) as H.
  destruct (handle_len true p s) as [[[[[v p1] s1] d] e]|]; cbn [ghl] in H; [|exact I].
  destruct v; cgo.
Qed.
Lemma step_map_good p s b : cgood s -> gsr (step_map p s b).
Proof.
  intro G. unfold step_map. pose proof (handle_len_good false p s G) as H.
  destruct (handle_len false p s) as [[[[[v p1] s1] d] e]|]; cbn [ghl] in H; [|exact I].
  destruct v; cgo.
Qed.
#[local] Hint Resolve step_array_good step_map_good : gd.

Lemma exec_step_good p s b : cgood s -> gsr (exec_step p s b).
Proof. intro G. unfold exec_step. cgo. Qed.

Definition gres (r : res sres) : Prop := match r with Ok x => gsr x | _ => True end.
Definition gfeed {A} (r : res (A * sink * Z)) : Prop :=
  match r with Ok (_, s, _) => cgood s | _ => True end.

Lemma feed_until_good : forall fuel p s b, cgood s -> gres (feed_until fuel p s b).
Proof.
  induction fuel as [|f IH]; intros p s b G; cbn [feed_until]; [exact I|].
  pose proof (exec_step_good p s b G) as H.
  destruct (exec_step p s b) as [p1 s1 rest done err|w]; cbn [gsr] in H; [|exact I].
  destruct (done || negb (isnil err)); [exact H|].
  match goal with |- context [if ?c then _ else _] => destruct c end; [apply IH; exact H|exact H].
Qed.

Lemma feed_good : forall fuel p s b, cgood s -> gfeed (feed fuel p s b).
Proof.
  induction fuel as [|f IH]; intros p s b G; cbn [feed]; [exact I|].
  destruct (zlen b >? 0); [|exact G].
  pose proof (feed_until_good (feed_fuel b) p s b G) as H.
  destruct (feed_until (feed_fuel b) p s b) as [[p1 s1 rest d err|w]|e|w|]; cbn [gres gsr] in H; try exact I.
  destruct (isnil err); [apply IH; exact H|exact H].
Qed.

Lemma p_write_good p s b : cgood s -> gfeed (p_write p s b).
Proof.
  intro G. unfold p_write. pose proof (feed_good (2 * length b + 2) p s b G) as H.
  destruct (feed (2 * length b + 2) p s b) as [[[p1 s1] err]|e|w|]; try exact I. exact H.
Qed.

Lemma p_parse_good p s b : cgood s -> gfeed (p_parse p s b).
Proof.
  intro G. unfold p_parse. pose proof (feed_good (2 * length b + 2) p s b G) as H.
  destruct (feed (2 * length b + 2) p s b) as [[[p1 s1] err]|e|w|]; try exact I. exact H.
Qed.

Lemma p_writes_good : forall chunks p s, cgood s -> gfeed (p_writes p s chunks).
Proof.
  induction chunks as [|c r IH]; intros p s G; cbn [p_writes]; [exact G|].
  pose proof (p_write_good p s c G) as H.
  destruct (p_write p s c) as [[[p1 s1] err]|e|w|]; try exact I.
  destruct (isnil err); [apply IH; exact H|exact H].
Qed.

Lemma byval_empty_log evs : Forall byval_empty evs ->
  (forall s, In (EVal (SStr s)) evs -> s = []) /\ (forall k, In (EKey k) evs -> k = []).
Proof.
  intro H. rewrite Forall_forall in H. split; [intros s Hs|intros k Hk].
  - exact (H _ Hs).
  - exact (H _ Hk).
Qed.

(* C15 (first sentence), CBOR parser: whatever the chunking, whether or not the
   visitor fails, whether the input is valid or not - every string and every
   key the parser delivers BY VALUE is the empty string *)
Theorem C15_cbor_byvalue_static : forall vfail chunks evs e,
  run_chunks vfail chunks = Ok (evs, e) ->
  (forall s, In (EVal (SStr s)) evs -> s = []) /\ (forall k, In (EKey k) evs -> k = []).
Proof.
  intros vfail chunks evs e H. unfold run_chunks in H.
  pose proof (p_writes_good chunks cparser0 (sink0 vfail) (good_sink0 _ _)) as G.
  destruct (p_writes cparser0 (sink0 vfail) chunks) as [[[p1 s1] err]|e'|w|]; try discriminate H.
  inversion H; subst. apply byval_empty_log. apply good_log. exact G.
Qed.
Print Assumptions C15_cbor_byvalue_static.

Theorem C15_cbor_byvalue_static_parse : forall vfail b evs e,
  run_parse vfail b = Ok (evs, e) ->
  (forall s, In (EVal (SStr s)) evs -> s = []) /\ (forall k, In (EKey k) evs -> k = []).
Proof.
  intros vfail b evs e H. unfold run_parse in H.
  pose proof (p_parse_good cparser0 (sink0 vfail) b (good_sink0 _ _)) as G.
  destruct (p_parse cparser0 (sink0 vfail) b) as [[[p1 s1] err]|e'|w|]; try discriminate H.
  inversion H; subst. apply byval_empty_log. apply good_log. exact G.
Qed.
Print Assumptions C15_cbor_byvalue_static_parse.

(* the pull decoder: Next only adds such events to what the visitor has seen *)
Theorem C15_cbor_byvalue_static_next : forall fuel d s, cgood s -> gfeed (dec_next fuel d s).
Proof.
  induction fuel as [|f IH]; intros d s G; cbn [dec_next]; [exact I|]. cbv zeta.
  match goal with |- context [match ?x with inl _ => _ | inr _ => _ end] => destruct x as [d1|e1] end;
    [|exact G].
  destruct (zlen (d_buf d1) =? 0); [apply IH; exact G|].
  pose proof (feed_until_good (feed_fuel (d_buf d1)) (d_p d1) s (d_buf d1) G) as H.
  destruct (feed_until (feed_fuel (d_buf d1)) (d_p d1) s (d_buf d1)) as [[p1 s1 rest d' err|w]|e|w|];
    cbn [gres gsr] in H; try exact I.
  destruct (negb (isnil err)); [exact H|]. destruct d'; [exact H|apply IH; exact H].
Qed.
Print Assumptions C15_cbor_byvalue_static_next.

(* the statement is not vacuous: both kinds of by-value event do occur
   (the empty text string 0x60, and it as a map key), next to by-reference ones *)
Example C15_cbor_byvalue_occurs :
  run_chunks None [[96]] = Ok ([EVal (SStr [])], nilE) /\
  run_chunks None [[161; 96]; [97; 120]] = Ok ([EObjStart 1 BAny; EKey []; EStrRef [120]; EObjEnd], nilE).
Proof. split; vm_compute; reflexivity. Qed.

(* ---------------------------------------------------------------------- *)
(* B.2 UBJSON                                                              *)
(* ---------------------------------------------------------------------- *)
(* The UBJSON parser model delivers the empty string by value (OnString(""))
   and never delivers a key by value (an empty key goes out as OnKeyRef). *)
Import Ubjson.Parse.

Definition byval_empty_nokey (e : event) : Prop :=
  match e with
  | EVal (SStr s) => s = []
  | EKey _ => False
  | _ => True
  end.

Notation ugood := (good byval_empty_nokey).

Lemma uvis_good s e s1 er : uvis s e = (s1, er) -> ugood s -> byval_empty_nokey e -> ugood s1.
Proof.
  unfold uvis. intros H G Pe. destruct (emit s e) as [s' ok] eqn:E. inversion H; subst.
  eapply emit_good; eassumption.
Qed.

Definition gur (r : ures) : Prop := match r with UR _ s _ _ _ => ugood s | UCrash _ => True end.
Definition goc (r : ocres) : Prop := match r with OC _ _ s _ _ => ugood s | OCC _ => True end.

Lemma gur_nodone r : gur r -> gur (value_nodone r).
Proof. destruct r; exact (fun H => H). Qed.
Lemma of_ul_good r s : ugood s -> gur (of_ul r s).
Proof. intro G. destruct r; [exact G|exact I]. Qed.
Lemma gur_post r : gur r ->
  gur (match r with
       | UR p1 s1 rest d err => if unil err then r else UR (uset_err p1 err) s1 rest d err
       | c => c
       end).
Proof. destruct r as [p1 s1 rest d err|w]; [|exact (fun H => H)]. intro G. destruct (unil err); exact G. Qed.

Create HintDb ud.
#[local] Hint Resolve gur_nodone of_ul_good : ud.

Ltac uvisit :=
  match goal with
  | |- context [uvis ?s ?e] =>
      let s1 := fresh "s" in let er := fresh "er" in let E := fresh "E" in
      destruct (uvis s e) as [s1 er] eqn:E;
      let G := fresh "G" in
      assert (G : ugood s1)
        by (eapply uvis_good; [exact E | assumption | first [exact I | reflexivity]]);
      clear E
  end.

Ltac ubrk :=
  match goal with
  | |- context [if ?c then _ else _] => destruct c
  | |- context [match ?x with [] => _ | _ :: _ => _ end] => destruct x
  | |- context [match ?x with Some _ => _ | None => _ end] => destruct x
  | |- context [match ?x with UC _ _ _ => _ | UCC => _ end] => destruct x
  | |- context [match ?x with UL _ _ _ => _ | ULC _ => _ end] => destruct x
  | |- context [match ?x with (_, _) => _ end] => destruct x
  end.

Ltac uleaf := cbn [gur goc]; solve [assumption | exact I | auto with ud].
Ltac ugo := cbv zeta; repeat (cbv beta iota; first [uleaf | uvisit | ubrk]).

Lemma ustep_value_good p s b : ugood s -> gur (ustep_value p s b).
Proof. intro G. unfold ustep_value. ugo. Qed.
#[local] Hint Resolve ustep_value_good : ud.

Lemma ustep_fixed_good p s b : ugood s -> gur (ustep_fixed p s b).
Proof. intro G. unfold ustep_fixed. ugo. Qed.
Lemma ustep_string_good p s b : ugood s -> gur (ustep_string p s b).
Proof. intro G. unfold ustep_string. ugo. Qed.
#[local] Hint Resolve ustep_fixed_good ustep_string_good : ud.

Ltac uknown :=
  match goal with
  | G : ugood ?s |- context [match value_nodone (ustep_value ?p ?s ?b) with _ => _ end] =>
      let H := fresh "H" in
      pose proof (ustep_value_good p s b G) as H;
      destruct (ustep_value p s b); cbn [gur value_nodone] in H |- *
  end.
Ltac ugo ::= cbv zeta; repeat (cbv beta iota; first [uleaf | uknown | uvisit | ubrk]).

Lemma ustep_obj_content_good p s b typed : ugood s -> goc (ustep_obj_content p s b typed).
Proof. intro G. unfold ustep_obj_content. ugo. Qed.

Ltac uobj :=
  match goal with
  | G : ugood ?s |- context [ustep_obj_content ?p ?s ?b ?t] =>
      let H := fresh "H" in
      pose proof (ustep_obj_content_good p s b t G) as H;
      destruct (ustep_obj_content p s b t); cbn [goc] in H
  end.
Ltac ugo ::= cbv zeta; repeat (cbv beta iota; first [uleaf | uknown | uobj | uvisit | ubrk]).

Lemma uexec_good : forall fuel p s b, ugood s -> gur (uexec fuel p s b).
Proof.
  induction fuel as [|f IH]; intros p s b G; cbn [uexec]; [exact I|].
  cbv zeta. apply gur_post. ugo.
Qed.

Definition gures (r : res ures) : Prop := match r with Ok x => gur x | _ => True end.
Definition gtr {A} (r : A * sink * Z) : Prop := ugood (snd (fst r)).
Definition gufeed {A} (r : res (A * sink * Z)) : Prop :=
  match r with Ok x => gtr x | _ => True end.

Lemma ufeed_until_good : forall fuel p s b, ugood s -> gures (ufeed_until fuel p s b).
Proof.
  induction fuel as [|f IH]; intros p s b G; cbn [ufeed_until]; [exact I|].
  pose proof (uexec_good 3 p s b G) as H. unfold uexec_step.
  destruct (uexec 3 p s b) as [p1 s1 rest done err|w]; cbn [gur] in H; [|exact I].
  destruct (done || negb (unil err)); [exact H|].
  match goal with |- context [if ?c then _ else _] => destruct c end; [exact H|apply IH; exact H].
Qed.

Lemma ufeed_good : forall fuel p s b, ugood s -> gufeed (ufeed fuel p s b).
Proof.
  induction fuel as [|f IH]; intros p s b G; cbn [ufeed]; [exact I|].
  destruct (zlen b >? 0); [|exact G].
  pose proof (ufeed_until_good (ufeed_fuel p b) p s b G) as H.
  destruct (ufeed_until (ufeed_fuel p b) p s b) as [[p1 s1 rest d err|w]|e|w|]; cbn [gures gur] in H; try exact I.
  destruct (unil err); [apply IH; exact H|exact H].
Qed.

Lemma ufinalize_good : forall fuel p s, ugood s -> gtr (ufinalize fuel p s).
Proof.
  induction fuel as [|f IH]; intros p s G; cbn [ufinalize]; [exact G|].
  repeat (cbv beta iota; first [solve [first [exact G | assumption | apply IH; assumption]] | uvisit | ubrk]).
Qed.

Lemma ufin_good p s : ugood s -> gtr (ufin p s).
Proof. apply ufinalize_good. Qed.

Lemma up_write_good p s b : ugood s -> gufeed (up_write p s b).
Proof.
  intro G. unfold up_write. pose proof (ufeed_good (2 * length b + 2) p s b G) as H.
  destruct (ufeed (2 * length b + 2) p s b) as [[[p1 s1] err]|e|w|]; try exact I.
  destruct (unil err); exact H.
Qed.

Lemma up_parse_good p s b : ugood s -> gufeed (up_parse p s b).
Proof.
  intro G. unfold up_parse. pose proof (ufeed_good (2 * length b + 2) p s b G) as H.
  destruct (ufeed (2 * length b + 2) p s b) as [[[p1 s1] err]|e|w|]; try exact I.
  destruct (unil err); [apply ufin_good; exact H|exact H].
Qed.

Lemma up_writes_good : forall chunks p s, ugood s -> gufeed (up_writes p s chunks).
Proof.
  induction chunks as [|c r IH]; intros p s G; cbn [up_writes]; [apply ufin_good; exact G|].
  pose proof (up_write_good p s c G) as H.
  destruct (up_write p s c) as [[[p1 s1] err]|e|w|]; try exact I.
  destruct (unil err); [apply IH; exact H|exact H].
Qed.

Lemma byval_empty_nokey_log evs : Forall byval_empty_nokey evs ->
  (forall s, In (EVal (SStr s)) evs -> s = []) /\ (forall k, ~ In (EKey k) evs).
Proof.
  intro H. rewrite Forall_forall in H. split; [intros s Hs|intros k Hk].
  - exact (H _ Hs).
  - exact (H _ Hk).
Qed.

(* C15 (first sentence), UBJSON parser: the only string ever delivered by value
   is the empty string, and no key is ever delivered by value *)
Theorem C15_ubj_byvalue_static : forall vfail chunks evs e p,
  urun_chunks vfail chunks = Ok (evs, e, p) ->
  (forall s, In (EVal (SStr s)) evs -> s = []) /\ (forall k, ~ In (EKey k) evs).
Proof.
  intros vfail chunks evs e p H. unfold urun_chunks in H.
  pose proof (up_writes_good chunks uparser0 (sink0 vfail) (good_sink0 _ _)) as G.
  destruct (up_writes uparser0 (sink0 vfail) chunks) as [[[p1 s1] err]|e'|w|]; try discriminate H.
  inversion H; subst. apply byval_empty_nokey_log. apply good_log. exact G.
Qed.
Print Assumptions C15_ubj_byvalue_static.

Theorem C15_ubj_byvalue_static_parse : forall vfail b evs e p,
  urun_parse vfail b = Ok (evs, e, p) ->
  (forall s, In (EVal (SStr s)) evs -> s = []) /\ (forall k, ~ In (EKey k) evs).
Proof.
  intros vfail b evs e p H. unfold urun_parse in H.
  pose proof (up_parse_good uparser0 (sink0 vfail) b (good_sink0 _ _)) as G.
  destruct (up_parse uparser0 (sink0 vfail) b) as [[[p1 s1] err]|e'|w|]; try discriminate H.
  inversion H; subst. apply byval_empty_nokey_log. apply good_log. exact G.
Qed.
Print Assumptions C15_ubj_byvalue_static_parse.

(* the pull decoder *)
Theorem C15_ubj_byvalue_static_next : forall fuel d s, ugood s -> gufeed (udec_next fuel d s).
Proof.
  induction fuel as [|f IH]; intros d s G; cbn [udec_next]; [exact I|]. cbv zeta.
  pose proof (ufin_good (ud_p d) s G) as HF.
  destruct (ufin (ud_p d) s) as [[pf sf] ef]. unfold gtr in HF. cbn [fst snd] in HF.
  match goal with
  | |- context [match ?x with inl _ => _ | inr _ => _ end] =>
      assert (HX : match x with inl (_, s0) => ugood s0 | inr r => gtr r end)
  end.
  { repeat (cbv beta iota; first [solve [first [exact G | exact HF]] | ubrk]). }
  match goal with
  | |- context [match ?x with inl _ => _ | inr _ => _ end] => destruct x as [[d1 s0]|r]
  end; [|exact HX].
  destruct (zlen (ud_buf d1) =? 0); [apply IH; exact HX|].
  pose proof (ufeed_until_good (ufeed_fuel (ud_p d1) (ud_buf d1)) (ud_p d1) s0 (ud_buf d1) HX) as H.
  destruct (ufeed_until (ufeed_fuel (ud_p d1) (ud_buf d1)) (ud_p d1) s0 (ud_buf d1)) as [[p1 s1 rest d' err|w]|e|w|];
    cbn [gures gur] in H; try exact I.
  destruct (negb (unil err)); [exact H|]. destruct d'; [exact H|apply IH; exact H].
Qed.
Print Assumptions C15_ubj_byvalue_static_next.

Example C15_ubj_byvalue_occurs :
  urun_chunks None [[83; 105; 0]] = Ok ([EVal (SStr [])], unilE, uparser0) /\
  (exists p, urun_chunks None [[123; 105; 0; 83; 105; 1; 120; 125]] =
     Ok ([EObjStart (-1) BAny; EKeyRef []; EStrRef [120]; EObjEnd], unilE, p)).
Proof. split; [vm_compute; reflexivity|eexists; vm_compute; reflexivity]. Qed.

(* ---------------------------------------------------------------------- *)
(* B.3 JSON                                                                *)
(* ---------------------------------------------------------------------- *)
(* The JSON parser MODEL (Json/Parse.v) emits every string and key as EStrRef /
   EKeyRef: whether the Go code could unquote in place (OnStringRef / OnKeyRef on
   the literal buffer) or had to allocate (OnString / OnKey on a fresh copy)
   depends on buffer capacities which the model does not represent.  What is
   true of the model is therefore: no by-value string or key event occurs at
   all.  (A by-value delivery of the Go parser is a freshly allocated copy; that
   fact is outside this model.) *)
Import Json.Parse.

Definition no_byval (e : event) : Prop :=
  match e with
  | EVal (SStr _) => False
  | EKey _ => False
  | _ => True
  end.

Notation jgood := (good no_byval).

Lemma jvis_good s e s1 er : jvis s e = (s1, er) -> jgood s -> no_byval e -> jgood s1.
Proof.
  unfold jvis. intros H G Pe. destruct (emit s e) as [s' ok] eqn:E. inversion H; subst.
  eapply emit_good; eassumption.
Qed.

Definition gjs (r : jsres) : Prop := match r with JS _ s _ _ _ => jgood s | JCrash _ => True end.
Definition grn (r : option (sink * Z)) : Prop := match r with Some (s, _) => jgood s | None => True end.

Create HintDb jd.

Ltac jvisit :=
  match goal with
  | |- context [jvis ?s ?e] =>
      let s1 := fresh "s" in let er := fresh "er" in let E := fresh "E" in
      destruct (jvis s e) as [s1 er] eqn:E;
      let G := fresh "G" in
      assert (G : jgood s1)
        by (eapply jvis_good; [exact E | assumption | first [exact I | assumption]]);
      clear E
  end.

Ltac jbrk :=
  match goal with
  | |- context [if ?c then _ else _] => destruct c
  | |- context [match ?x with [] => _ | _ :: _ => _ end] => destruct x
  | |- context [match ?x with Some _ => _ | None => _ end] => destruct x
  | |- context [match ?x with DSMore _ => _ | DSDone _ _ _ => _ | DSErr _ => _ | DSCrash _ => _ end] => destruct x
  | |- context [match ?x with (_, _) => _ end] => destruct x
  end.

Ltac jleaf := cbn [gjs grn]; solve [assumption | exact I | auto with jd].
Ltac jgo := cbv zeta; repeat (cbv beta iota; first [jleaf | jvisit | jbrk]).

Lemma report_number_good pf s b dbl : jgood s -> grn (report_number pf s b dbl).
Proof. intro G. unfold report_number. jgo. Qed.

Ltac jnum :=
  match goal with
  | G : jgood ?s |- context [report_number ?pf ?s ?b ?d] =>
      let H := fresh "H" in
      pose proof (report_number_good pf s b d G) as H;
      destruct (report_number pf s b d) as [[? ?]|]; cbn [grn] in H
  end.
Ltac jgo ::= cbv zeta; repeat (cbv beta iota; first [jleaf | jnum | jvisit | jbrk]).

Lemma step_number_good pf p s b : jgood s -> gjs (step_number pf p s b).
Proof. intro G. unfold step_number. jgo. Qed.
Lemma step_kind_good p s b kind ev : no_byval ev -> jgood s -> gjs (step_kind p s b kind ev).
Proof. intros Pe G. unfold step_kind. jgo. Qed.
Lemma step_string_good p s b : jgood s -> gjs (step_string p s b).
Proof. intro G. unfold step_string. jgo. Qed.
Lemma end_container_good p s b ev : no_byval ev -> jgood s -> gjs (end_container p s b ev).
Proof. intros Pe G. unfold end_container. jgo. Qed.

Lemma nb_nil : no_byval (EVal SNil). Proof. exact I. Qed.
Lemma nb_bool b : no_byval (EVal (SBool b)). Proof. exact I. Qed.
Lemma nb_arrend : no_byval EArrEnd. Proof. exact I. Qed.
Lemma nb_objend : no_byval EObjEnd. Proof. exact I. Qed.
#[local] Hint Resolve step_number_good step_kind_good step_string_good end_container_good
  nb_nil nb_bool nb_arrend nb_objend : jd.

Lemma jstep_value_good pf p s b ret : jgood s -> gjs (step_value pf p s b ret).
Proof. intro G. unfold step_value. jgo. Qed.
Lemma step_dict_good p s b a : jgood s -> gjs (step_dict p s b a).
Proof. intro G. unfold step_dict. jgo. Qed.
Lemma step_dict_key_good p s b : jgood s -> gjs (step_dict_key p s b).
Proof. intro G. unfold step_dict_key. jgo. Qed.
Lemma step_dict_value_end_good p s b : jgood s -> gjs (step_dict_value_end p s b).
Proof. intro G. unfold step_dict_value_end. jgo. Qed.
Lemma jstep_array_good p s b : jgood s -> gjs (step_array p s b).
Proof. intro G. unfold step_array. jgo. Qed.
Lemma step_arr_value_end_good p s b : jgood s -> gjs (step_arr_value_end p s b).
Proof. intro G. unfold step_arr_value_end. jgo. Qed.
#[local] Hint Resolve jstep_value_good step_dict_good step_dict_key_good step_dict_value_end_good
  jstep_array_good step_arr_value_end_good : jd.

Lemma jstep_good pf p s b : jgood s -> gjs (jstep pf p s b).
Proof.
  intro G. unfold jstep. jgo.
  pose proof (jstep_value_good pf p s b jArrNext G) as H.
  destruct (step_value pf p s b jArrNext); exact H.
Qed.

Definition gjres (r : res jsres) : Prop := match r with Ok x => gjs x | _ => True end.
Definition gjtr {A} (r : A * sink * Z) : Prop := jgood (snd (fst r)).
Definition gjfeed {A} (r : res (A * sink * Z)) : Prop :=
  match r with Ok x => gjtr x | _ => True end.

Lemma jfeed_until_good pf : forall fuel p s b orig, jgood s -> gjres (jfeed_until fuel pf p s b orig).
Proof.
  induction fuel as [|f IH]; intros p s b orig G; cbn [jfeed_until]; [exact I|].
  destruct (zlen b =? 0); [exact G|].
  pose proof (jstep_good pf p s b G) as H.
  destruct (jstep pf p s b) as [p1 s1 rest rep err|w]; cbn [gjs] in H; [|exact I].
  destruct (jp_cur p =? jFailed); [exact H|]. destruct (negb (jisnil err)); [exact H|].
  cbv zeta. destruct (rep && (zlen (jp_states p1) =? 0)); [exact H|apply IH; exact H].
Qed.

Lemma jfeed_good pf : forall fuel p s b, jgood s -> gjfeed (jfeed fuel pf p s b).
Proof.
  induction fuel as [|f IH]; intros p s b G; cbn [jfeed]; [exact I|].
  destruct (zlen b >? 0); [|exact G].
  pose proof (jfeed_until_good pf (jfeed_fuel b) p s b b G) as H.
  destruct (jfeed_until (jfeed_fuel b) pf p s b b) as [[p1 s1 rest d err|w]|e|w|]; cbn [gjres gjs] in H; try exact I.
  destruct (jisnil err); [apply IH; exact H|exact H].
Qed.

Definition gjfin (r : option (jparser * sink * Z)) : Prop :=
  match r with Some x => gjtr x | None => True end.

Lemma jfinalize_good pf p s : jgood s -> gjfin (jfinalize pf p s).
Proof.
  intro G. unfold jfinalize. cbv zeta.
  repeat (cbv beta iota; first [solve [cbn [gjfin]; unfold gjtr; cbn [fst snd]; first [assumption | exact I]] | jnum | jbrk]).
Qed.

Lemma with_final_good pf p s : jgood s -> gjfeed (with_final pf p s).
Proof.
  intro G. unfold with_final. pose proof (jfinalize_good pf p s G) as H.
  destruct (jfinalize pf p s); [exact H|exact I].
Qed.

Lemma jp_write_good pf p s b : jgood s -> gjfeed (jp_write pf p s b).
Proof.
  intro G. unfold jp_write. pose proof (jfeed_good pf (2 * length b + 2) p s b G) as H.
  destruct (jfeed (2 * length b + 2) pf p s b) as [[[p1 s1] err]|e|w|]; try exact I. exact H.
Qed.

Lemma jp_parse_good pf p s b : jgood s -> gjfeed (jp_parse pf p s b).
Proof.
  intro G. unfold jp_parse. cbv zeta.
  match goal with |- context [jfeed ?n pf ?p0 s b] =>
    pose proof (jfeed_good pf n p0 s b G) as H; destruct (jfeed n pf p0 s b) as [[[p1 s1] err]|e|w|] end;
    try exact I.
  destruct (jisnil err); [apply with_final_good; exact H|exact H].
Qed.

Lemma jp_writes_good pf : forall chunks p s, jgood s -> gjfeed (jp_writes pf p s chunks).
Proof.
  induction chunks as [|c r IH]; intros p s G; cbn [jp_writes]; [apply with_final_good; exact G|].
  pose proof (jp_write_good pf p s c G) as H.
  destruct (jp_write pf p s c) as [[[p1 s1] err]|e|w|]; try exact I.
  destruct (jisnil err); [apply IH; exact H|exact H].
Qed.

Lemma no_byval_log evs : Forall no_byval evs ->
  (forall s, ~ In (EVal (SStr s)) evs) /\ (forall k, ~ In (EKey k) evs).
Proof.
  intro H. rewrite Forall_forall in H. split; [intros s Hs|intros k Hk].
  - exact (H _ Hs).
  - exact (H _ Hk).
Qed.

(* C15 (first sentence), JSON parser model: no string and no key is delivered
   by value; all of them are EStrRef / EKeyRef events *)
Theorem C15_json_byvalue_none : forall pf vfail chunks evs e p,
  jrun_chunks pf vfail chunks = Ok (evs, e, p) ->
  (forall s, ~ In (EVal (SStr s)) evs) /\ (forall k, ~ In (EKey k) evs).
Proof.
  intros pf vfail chunks evs e p H. unfold jrun_chunks in H.
  pose proof (jp_writes_good pf chunks jparser0 (sink0 vfail) (good_sink0 _ _)) as G.
  destruct (jp_writes pf jparser0 (sink0 vfail) chunks) as [[[p1 s1] err]|e'|w|]; try discriminate H.
  inversion H; subst. apply no_byval_log. apply good_log. exact G.
Qed.
Print Assumptions C15_json_byvalue_none.

Theorem C15_json_byvalue_none_parse : forall pf vfail b evs e p,
  jrun_parse pf vfail b = Ok (evs, e, p) ->
  (forall s, ~ In (EVal (SStr s)) evs) /\ (forall k, ~ In (EKey k) evs).
Proof.
  intros pf vfail b evs e p H. unfold jrun_parse in H.
  pose proof (jp_parse_good pf jparser0 (sink0 vfail) b (good_sink0 _ _)) as G.
  destruct (jp_parse pf jparser0 (sink0 vfail) b) as [[[p1 s1] err]|e'|w|]; try discriminate H.
  inversion H; subst. apply no_byval_log. apply good_log. exact G.
Qed.
Print Assumptions C15_json_byvalue_none_parse.

(* the pull decoder *)
Lemma jdec_finalize_good pf d s : jgood s -> gjfeed (jdec_finalize pf d s).
Proof.
  intro G. unfold jdec_finalize. cbv zeta. pose proof (jfinalize_good pf (jd_p d) s G) as H.
  destruct (jfinalize pf (jd_p d) s) as [[[p1 s1] e]|]; [|exact I].
  unfold gjfin, gjtr in H. cbn [fst snd] in H.
  destruct (negb (jisnil e)); [exact H|]. destruct (jp_cur (jd_p d) =? jNumber); exact H.
Qed.

Theorem C15_json_byvalue_none_next pf : forall fuel d s, jgood s -> gjfeed (jdec_next fuel pf d s).
Proof.
  induction fuel as [|f IH]; intros d s G; cbn [jdec_next]; [exact I|]. cbv zeta.
  match goal with
  | |- context [match ?x with inl _ => _ | inr _ => _ end] =>
      assert (HX : match x with inl _ => True | inr r => gjfeed r end)
  end.
  { repeat (cbv beta iota; first [solve [first [exact I | exact G | apply jdec_finalize_good; exact G]] | jbrk]). }
  match goal with
  | |- context [match ?x with inl _ => _ | inr _ => _ end] => destruct x as [d1|r]
  end; [|exact HX].
  pose proof (jfeed_until_good pf (jfeed_fuel (jd_buf d1)) (jd_p d1) s (jd_buf d1) (jd_buf d1) G) as H.
  destruct (jfeed_until (jfeed_fuel (jd_buf d1)) pf (jd_p d1) s (jd_buf d1) (jd_buf d1)) as [[p1 s1 rest d' err|w]|e|w|];
    cbn [gjres gjs] in H; try exact I.
  destruct (negb (jisnil err)); [exact H|]. destruct d'; [exact H|apply IH; exact H].
Qed.
Print Assumptions C15_json_byvalue_none_next.

Example C15_json_byref_only : exists p,
  jrun_chunks (fun _ => None) None [[123; 34; 34; 58; 34; 34; 125]] =
    Ok ([EObjStart (-1) BAny; EKeyRef []; EStrRef []; EObjEnd], jpnil, p).
Proof. eexists. vm_compute. reflexivity. Qed.

(* ---------------------------------------------------------------------- *)
(* B.4 the pull decoders, in plain words: a call of Next preserves         *)
(* "everything delivered by value so far is the empty string"              *)
(* ---------------------------------------------------------------------- *)
Lemma log_good P s : Forall P (s_log s) -> good P s.
Proof.
  unfold good, s_log. intro G. apply Forall_forall. intros x Hx. apply in_rev in Hx.
  rewrite Forall_forall in G. apply G. exact Hx.
Qed.

Corollary C15_cbor_next_byvalue_static : forall fuel d s d' s' e,
  Cbor.Parse.dec_next fuel d s = Ok (d', s', e) ->
  Forall byval_empty (s_log s) -> Forall byval_empty (s_log s').
Proof.
  intros fuel d s d' s' e H G. apply log_good in G.
  pose proof (C15_cbor_byvalue_static_next fuel d s G) as H1. rewrite H in H1. apply good_log. exact H1.
Qed.
Print Assumptions C15_cbor_next_byvalue_static.

Corollary C15_ubj_next_byvalue_static : forall fuel d s d' s' e,
  udec_next fuel d s = Ok (d', s', e) ->
  Forall byval_empty_nokey (s_log s) -> Forall byval_empty_nokey (s_log s').
Proof.
  intros fuel d s d' s' e H G. apply log_good in G.
  pose proof (C15_ubj_byvalue_static_next fuel d s G) as H1. rewrite H in H1. apply good_log. exact H1.
Qed.
Print Assumptions C15_ubj_next_byvalue_static.

Corollary C15_json_next_byvalue_none : forall pf fuel d s d' s' e,
  jdec_next fuel pf d s = Ok (d', s', e) ->
  Forall no_byval (s_log s) -> Forall no_byval (s_log s').
Proof.
  intros pf fuel d s d' s' e H G. apply log_good in G.
  pose proof (C15_json_byvalue_none_next pf fuel d s G) as H1. rewrite H in H1. apply good_log. exact H1.
Qed.
Print Assumptions C15_json_next_byvalue_none.
