From SF Require Import Base.Prelude Base.PreludeProofs Core.Events.
Open Scope Z_scope.

(* ---------- induction principle for annotated trees (nested lists) ---------- *)
Section TreeInd.
  Variable P : tree -> Prop.
  Hypothesis Hval : forall s r, P (TVal s r).
  Hypothesis Harr : forall len bt es, Forall P es -> P (TArr len bt es).
  Hypothesis Hobj : forall len bt ms, Forall (fun m => P (snd m)) ms -> P (TObj len bt ms).
  Hypothesis Hxarr : forall bt es, P (TXArr bt es).
  Hypothesis Hxobj : forall bt ms, P (TXObj bt ms).

  Fixpoint tree_ind' (t : tree) : P t :=
    match t with
    | TVal s r => Hval s r
    | TArr len bt es =>
        Harr len bt es
          ((fix go (l : list tree) : Forall P l :=
              match l with
              | [] => Forall_nil _
              | e :: r => Forall_cons _ (tree_ind' e) (go r)
              end) es)
    | TObj len bt ms =>
        Hobj len bt ms
          ((fix go (l : list (bytes * bool * tree)) : Forall (fun m => P (snd m)) l :=
              match l with
              | [] => Forall_nil _
              | m :: r => Forall_cons _ (tree_ind' (snd m)) (go r)
              end) ms)
    | TXArr bt es => Hxarr bt es
    | TXObj bt ms => Hxobj bt ms
    end.
End TreeInd.

(* flatten in terms of the list helpers *)
Lemma flatten_arr len bt es :
  flatten (TArr len bt es) = EArrStart len bt :: flatten_elems es ++ [EArrEnd].
Proof. reflexivity. Qed.

Lemma flatten_obj len bt ms :
  flatten (TObj len bt ms) = EObjStart len bt :: flatten_members ms ++ [EObjEnd].
Proof.
  cbn [flatten]. f_equal. f_equal. unfold flatten_members.
  induction ms as [|[[k r] e] rest IH]; [reflexivity|].
  cbn [flat_map]. rewrite <- IH. reflexivity.
Qed.

(* wf_tree in terms of list predicates *)
Lemma wf_arr len bt es :
  wf_tree (TArr len bt es) = len_ok len es && forallb (tree_matches bt) es && forallb wf_tree es.
Proof. reflexivity. Qed.

Lemma wf_obj len bt ms :
  wf_tree (TObj len bt ms) =
  len_ok len ms && forallb (fun m => tree_matches bt (snd m)) ms &&
  forallb (fun m => all_bytes (fst (fst m)) && wf_tree (snd m)) ms.
Proof.
  cbn [wf_tree]. f_equal.
  induction ms as [|[[k r] e] rest IH]; cbn [forallb fst snd]; [reflexivity|].
  rewrite <- IH. reflexivity.
Qed.

(* ---------- the adapters deliver exactly the expansion (C10 for wrapped plain visitors) ---------- *)
Lemma emit_ok s e : s_fail s = None ->
  emit s e = ({| s_rlog := e :: s_rlog s; s_n := S (s_n s); s_fail := None |}, true).
Proof. intro H. unfold emit. rewrite H. reflexivity. Qed.

Lemma emit_all_nofail evs : forall s, s_fail s = None ->
  exists s', emit_all s evs = (s', true) /\ s_fail s' = None /\ s_rlog s' = rev evs ++ s_rlog s.
Proof.
  induction evs as [|e r IH]; intros s H; cbn [emit_all].
  - exists s. auto.
  - rewrite emit_ok by assumption.
    destruct (IH {| s_rlog := e :: s_rlog s; s_n := S (s_n s); s_fail := None |} eq_refl) as (s' & E & F & L).
    exists s'. rewrite E. split; [reflexivity|]. split; [exact F|].
    rewrite L. cbn [rev s_rlog]. rewrite <- app_assoc. reflexivity.
Qed.

Theorem adapter_is_expand e : forall s, s_fail s = None ->
  exists s', adapter s e = (s', true) /\ s_fail s' = None /\ s_log s' = s_log s ++ expand e.
Proof.
  intros s H. unfold s_log.
  destruct e as [sc|b|len bt| |len bt| |k|k|bt es|bt ms];
    try (cbn [adapter expand]; rewrite emit_ok by assumption; eexists; split; [reflexivity|];
         split; [reflexivity|]; cbn [s_rlog rev]; reflexivity).
  - (* typed array *)
    cbn [adapter expand]. unfold adapter_arr. rewrite emit_ok by assumption. cbn [negb].
    destruct (emit_all_nofail (map EVal es) {| s_rlog := EArrStart (zlen es) bt :: s_rlog s; s_n := S (s_n s); s_fail := None |} eq_refl)
      as (s2 & E & F & L).
    rewrite E. cbn [negb]. rewrite emit_ok by assumption.
    eexists. split; [reflexivity|]. split; [reflexivity|].
    cbn [s_rlog rev]. rewrite L. cbn [s_rlog]. rewrite rev_app_distr, rev_involutive. cbn [rev app].
    rewrite <- !app_assoc. reflexivity.
  - (* typed object *)
    cbn [adapter expand]. unfold adapter_obj. rewrite emit_ok by assumption. cbn [negb].
    destruct (emit_all_nofail (flat_map (fun m => [EKey (fst m); EVal (snd m)]) ms)
                {| s_rlog := EObjStart (zlen ms) bt :: s_rlog s; s_n := S (s_n s); s_fail := None |} eq_refl)
      as (s2 & E & F & L).
    rewrite E. cbn [negb]. rewrite emit_ok by assumption.
    eexists. split; [reflexivity|]. split; [reflexivity|].
    cbn [s_rlog rev]. rewrite L. cbn [s_rlog]. rewrite rev_app_distr, rev_involutive. cbn [rev app].
    rewrite <- !app_assoc. reflexivity.
Qed.
