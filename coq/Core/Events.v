(* The Visitor data model: events, annotated trees (= well-formed event
   streams), values, the contract monitor, expansion of extended events and
   the L1 model of the adapters in array.go / map.go / string.go. *)
From SF Require Import Base.Prelude.
Open Scope Z_scope.

(* structform.BaseType, in declaration order (visitor.go). *)
Inductive btype :=
| BAny | BByte | BString | BBool | BZero
| BInt | BInt8 | BInt16 | BInt32 | BInt64
| BUint | BUint8 | BUint16 | BUint32 | BUint64
| BFloat32 | BFloat64.

Definition btype_code (b : btype) : Z :=
  match b with
  | BAny => 0 | BByte => 1 | BString => 2 | BBool => 3 | BZero => 4
  | BInt => 5 | BInt8 => 6 | BInt16 => 7 | BInt32 => 8 | BInt64 => 9
  | BUint => 10 | BUint8 => 11 | BUint16 => 12 | BUint32 => 13 | BUint64 => 14
  | BFloat32 => 15 | BFloat64 => 16
  end.
Definition btype_eqb (a b : btype) : bool := btype_code a =? btype_code b.

(* Which ValueVisitor method delivers a number.  Integers carry their value,
   floats their IEEE bit pattern. *)
Inductive nkind :=
| KInt8 | KInt16 | KInt32 | KInt64 | KInt
| KByte | KUint8 | KUint16 | KUint32 | KUint64 | KUint
| KFloat32 | KFloat64.

Definition nkind_code (k : nkind) : Z :=
  match k with
  | KInt8 => 0 | KInt16 => 1 | KInt32 => 2 | KInt64 => 3 | KInt => 4
  | KByte => 5 | KUint8 => 6 | KUint16 => 7 | KUint32 => 8 | KUint64 => 9 | KUint => 10
  | KFloat32 => 11 | KFloat64 => 12
  end.
Definition nkind_eqb (a b : nkind) : bool := nkind_code a =? nkind_code b.

(* range of the Go type behind each kind *)
Definition nkind_ok (k : nkind) (z : Z) : bool :=
  match k with
  | KInt8 => in_s 8 z | KInt16 => in_s 16 z | KInt32 => in_s 32 z
  | KInt64 | KInt => in_s 64 z
  | KByte | KUint8 => in_u 8 z | KUint16 => in_u 16 z | KUint32 => in_u 32 z
  | KUint64 | KUint => in_u 64 z
  | KFloat32 => in_u 32 z | KFloat64 => in_u 64 z
  end.

Inductive scalar :=
| SNil
| SBool (b : bool)
| SStr (s : bytes)
| SNum (k : nkind) (z : Z).

Definition scalar_ok (s : scalar) : bool :=
  match s with
  | SNil | SBool _ => true
  | SStr s => all_bytes s
  | SNum k z => nkind_ok k z
  end.

Inductive event :=
| EVal (s : scalar)
| EStrRef (s : bytes)
| EArrStart (len : Z) (bt : btype)
| EArrEnd
| EObjStart (len : Z) (bt : btype)
| EObjEnd
| EKey (k : bytes)
| EKeyRef (k : bytes)
| EXArr (bt : btype) (elems : list scalar)              (* On<T>Array / OnBytes *)
| EXObj (bt : btype) (members : list (bytes * scalar)). (* On<T>Object, in iteration order *)

(* ---------- annotated trees: exactly the well-formed streams ---------- *)
Inductive tree :=
| TVal (s : scalar) (byref : bool)
| TArr (len : Z) (bt : btype) (elems : list tree)
| TObj (len : Z) (bt : btype) (members : list (bytes * bool * tree))
| TXArr (bt : btype) (elems : list scalar)
| TXObj (bt : btype) (members : list (bytes * scalar)).

Definition key_event (k : bytes) (byref : bool) : event :=
  if byref then EKeyRef k else EKey k.

Fixpoint flatten (t : tree) : list event :=
  match t with
  | TVal (SStr s) true => [EStrRef s]
  | TVal s _ => [EVal s]
  | TArr len bt es =>
      EArrStart len bt :: (fix go (l : list tree) := match l with [] => [] | e :: r => flatten e ++ go r end) es
        ++ [EArrEnd]
  | TObj len bt ms =>
      EObjStart len bt ::
        (fix go (l : list (bytes * bool * tree)) :=
           match l with [] => [] | (k, r, e) :: rest => key_event k r :: flatten e ++ go rest end) ms
        ++ [EObjEnd]
  | TXArr bt es => [EXArr bt es]
  | TXObj bt ms => [EXObj bt ms]
  end.

Definition flatten_elems (l : list tree) : list event := flat_map flatten l.
Definition flatten_members (l : list (bytes * bool * tree)) : list event :=
  flat_map (fun m => match m with (k, r, e) => key_event k r :: flatten e end) l.

(* element type of a scalar as announced by a typed container *)
Definition scalar_matches (bt : btype) (s : scalar) : bool :=
  match bt, s with
  | BAny, _ | BZero, _ => true
  | BString, SStr _ => true
  | BBool, SBool _ => true
  | BByte, SNum KByte _ | BByte, SNum KUint8 _ => true
  | BUint8, SNum KUint8 _ | BUint8, SNum KByte _ => true
  | BInt, SNum KInt _ => true
  | BInt8, SNum KInt8 _ => true
  | BInt16, SNum KInt16 _ => true
  | BInt32, SNum KInt32 _ => true
  | BInt64, SNum KInt64 _ => true
  | BUint, SNum KUint _ => true
  | BUint16, SNum KUint16 _ => true
  | BUint32, SNum KUint32 _ => true
  | BUint64, SNum KUint64 _ => true
  | BFloat32, SNum KFloat32 _ => true
  | BFloat64, SNum KFloat64 _ => true
  | _, _ => false
  end.

Definition tree_matches (bt : btype) (t : tree) : bool :=
  match bt, t with
  | BAny, _ | BZero, _ => true
  | _, TVal s _ => scalar_matches bt s
  | _, _ => false
  end.

(* typed extended events: element kind is fixed by the method *)
Definition xelem_ok (bt : btype) (s : scalar) : bool :=
  match bt with BAny | BZero => false | _ => scalar_matches bt s && scalar_ok s end.

Definition len_ok {A} (len : Z) (l : list A) : bool := (len <? 0) || (len =? zlen l).

(* The Visitor contract (C09) on a tree. *)
Fixpoint wf_tree (t : tree) : bool :=
  match t with
  | TVal s _ => scalar_ok s
  | TArr len bt es =>
      len_ok len es && forallb (tree_matches bt) es &&
      (fix go (l : list tree) := match l with [] => true | e :: r => wf_tree e && go r end) es
  | TObj len bt ms =>
      len_ok len ms && forallb (fun m => tree_matches bt (snd m)) ms &&
      (fix go (l : list (bytes * bool * tree)) :=
         match l with [] => true | (k, _, e) :: r => all_bytes k && wf_tree e && go r end) ms
  | TXArr bt es => forallb (xelem_ok bt) es
  | TXObj bt ms => negb (btype_eqb bt BByte) && forallb (fun m => all_bytes (fst m) && xelem_ok bt (snd m)) ms
  end.

(* ---------- reading a stream back into a tree (the monitor) ---------- *)
Fixpoint parse_tree (fuel : nat) (evs : list event) : option (tree * list event) :=
  match fuel with
  | O => None
  | S f =>
      match evs with
      | EVal s :: r => Some (TVal s false, r)
      | EStrRef s :: r => Some (TVal (SStr s) true, r)
      | EXArr bt es :: r => Some (TXArr bt es, r)
      | EXObj bt ms :: r => Some (TXObj bt ms, r)
      | EArrStart len bt :: r =>
          (fix elems (g : nat) (evs : list event) (acc : list tree) : option (tree * list event) :=
             match g with
             | O => None
             | S g' =>
                 match evs with
                 | EArrEnd :: r' => Some (TArr len bt (rev acc), r')
                 | _ => match parse_tree f evs with
                        | Some (t, r') => elems g' r' (t :: acc)
                        | None => None
                        end
                 end
             end) f r []
      | EObjStart len bt :: r =>
          (fix members (g : nat) (evs : list event) (acc : list (bytes * bool * tree)) : option (tree * list event) :=
             match g with
             | O => None
             | S g' =>
                 match evs with
                 | EObjEnd :: r' => Some (TObj len bt (rev acc), r')
                 | EKey k :: r' =>
                     match parse_tree f r' with
                     | Some (t, r'') => members g' r'' ((k, false, t) :: acc)
                     | None => None
                     end
                 | EKeyRef k :: r' =>
                     match parse_tree f r' with
                     | Some (t, r'') => members g' r'' ((k, true, t) :: acc)
                     | None => None
                     end
                 | _ => None
                 end
             end) f r []
      | _ => None
      end
  end.

(* A complete stream describing exactly one value. *)
Definition stream_tree (evs : list event) : option tree :=
  match parse_tree (S (length evs)) evs with
  | Some (t, []) => Some t
  | _ => None
  end.

(* contract monitor: one well-formed value *)
Definition contract_ok (evs : list event) : bool :=
  match stream_tree evs with Some t => wf_tree t | None => false end.

(* A stream of several top-level values. *)
Fixpoint stream_trees (fuel : nat) (evs : list event) : option (list tree) :=
  match fuel with
  | O => None
  | S f =>
      match evs with
      | [] => Some []
      | _ => match parse_tree (S (length evs)) evs with
             | Some (t, r) => match stream_trees f r with Some ts => Some (t :: ts) | None => None end
             | None => None
             end
      end
  end.

(* ---------- values: what a stream denotes, representation forgotten ---------- *)
Inductive value :=
| VNil
| VBool (b : bool)
| VStr (s : bytes)
| VNum (k : nkind) (z : Z)
| VArr (vs : list value)
| VObj (kvs : list (bytes * value)).

Definition scalar_value (s : scalar) : value :=
  match s with
  | SNil => VNil | SBool b => VBool b | SStr s => VStr s | SNum k z => VNum k z
  end.

Fixpoint value_of (t : tree) : value :=
  match t with
  | TVal s _ => scalar_value s
  | TArr _ _ es => VArr (map value_of es)
  | TObj _ _ ms => VObj (map (fun m => (fst (fst m), value_of (snd m))) ms)
  | TXArr _ es => VArr (map scalar_value es)
  | TXObj _ ms => VObj (map (fun m => (fst m, scalar_value (snd m))) ms)
  end.

(* ---------- expansion of extended events (C10) ---------- *)
Definition expand_tree_top (t : tree) : tree :=
  match t with
  | TXArr bt es => TArr (zlen es) bt (map (fun s => TVal s false) es)
  | TXObj bt ms => TObj (zlen ms) bt (map (fun m => (fst m, false, TVal (snd m) false)) ms)
  | TVal (SStr s) true => TVal (SStr s) false
  | _ => t
  end.

Definition expand (e : event) : list event :=
  match e with
  | EXArr bt es => EArrStart (zlen es) bt :: map EVal es ++ [EArrEnd]
  | EXObj bt ms => EObjStart (zlen ms) bt :: flat_map (fun m => [EKey (fst m); EVal (snd m)]) ms ++ [EObjEnd]
  | EStrRef s => [EVal (SStr s)]
  | EKeyRef k => [EKey k]
  | _ => [e]
  end.

(* ---------- sinks: a visitor that records and may fail (C16) ---------- *)
(* The visitor fails (returns an error) on its [n]-th call and every later one. *)
Record sink := { s_rlog : list event; s_n : nat; s_fail : option nat }.
Definition sink0 (f : option nat) : sink := {| s_rlog := []; s_n := 0; s_fail := f |}.
Definition s_log (s : sink) : list event := rev (s_rlog s).
Definition err_injected : Z := 99.

Definition emit (s : sink) (e : event) : sink * bool :=
  let s' := {| s_rlog := e :: s_rlog s; s_n := S (s_n s); s_fail := s_fail s |} in
  match s_fail s with
  | Some k => (s', Nat.ltb (s_n s) k)
  | None => (s', true)
  end.

(* ---------- L1: the adapters (array.go, map.go, string.go) ---------- *)
(* extArrVisitor.On<T>Array: start; each element, returning at the first
   error; finished.  Result: the sink and whether the call returned nil. *)
Fixpoint emit_all (s : sink) (evs : list event) : sink * bool :=
  match evs with
  | [] => (s, true)
  | e :: r => let '(s', ok) := emit s e in if ok then emit_all s' r else (s', false)
  end.

Definition adapter_arr (s : sink) (bt : btype) (es : list scalar) : sink * bool :=
  let '(s1, ok) := emit s (EArrStart (zlen es) bt) in
  if negb ok then (s1, false) else
  let '(s2, ok2) := emit_all s1 (map EVal es) in
  if negb ok2 then (s2, false) else
  emit s2 EArrEnd.

Definition adapter_obj (s : sink) (bt : btype) (ms : list (bytes * scalar)) : sink * bool :=
  let '(s1, ok) := emit s (EObjStart (zlen ms) bt) in
  if negb ok then (s1, false) else
  let '(s2, ok2) := emit_all s1 (flat_map (fun m => [EKey (fst m); EVal (snd m)]) ms) in
  if negb ok2 then (s2, false) else
  emit s2 EObjEnd.

(* EnsureExtVisitor around a plain Visitor: what the wrapped visitor sees. *)
Definition adapter (s : sink) (e : event) : sink * bool :=
  match e with
  | EXArr bt es => adapter_arr s bt es
  | EXObj bt ms => adapter_obj s bt ms
  | EStrRef b => emit s (EVal (SStr b))
  | EKeyRef k => emit s (EKey k)
  | _ => emit s e
  end.

(* ---------- writers: an io.Writer that records chunks and may fail (C16) ---------- *)
Record wsink := { w_rchunks : list bytes; w_n : nat; w_fail : option nat }.
Definition wsink0 (f : option nat) : wsink := {| w_rchunks := []; w_n := 0; w_fail := f |}.
Definition w_chunks (w : wsink) : list bytes := rev (w_rchunks w).
Definition w_bytes (w : wsink) : bytes := concat (w_chunks w).

Definition wwrite (w : wsink) (b : bytes) : wsink * bool :=
  let w' := {| w_rchunks := b :: w_rchunks w; w_n := S (w_n w); w_fail := w_fail w |} in
  match w_fail w with
  | Some k => (w', Nat.ltb (w_n w) k)
  | None => (w', true)
  end.

(* ---------- canonical values: what the reference decoders produce ---------- *)
Inductive cnum := CInt (z : Z) | CF32 (bits : Z) | CF64 (bits : Z).
Inductive cvalue :=
| CNil | CBool (b : bool) | CStr (s : bytes) | CNum (n : cnum)
| CArr (vs : list cvalue) | CObj (kvs : list (bytes * cvalue)).

Definition canon_num (k : nkind) (z : Z) : cnum :=
  match k with KFloat32 => CF32 z | KFloat64 => CF64 z | _ => CInt z end.

Fixpoint cv (v : value) : cvalue :=
  match v with
  | VNil => CNil | VBool b => CBool b | VStr s => CStr s
  | VNum k z => CNum (canon_num k z)
  | VArr vs => CArr (map cv vs)
  | VObj kvs => CObj (map (fun kv => (fst kv, cv (snd kv))) kvs)
  end.

Definition cnum_eqb (a b : cnum) : bool :=
  match a, b with
  | CInt x, CInt y | CF32 x, CF32 y | CF64 x, CF64 y => x =? y
  | _, _ => false
  end.

Fixpoint cvalue_eqb (a b : cvalue) : bool :=
  match a, b with
  | CNil, CNil => true
  | CBool x, CBool y => Bool.eqb x y
  | CStr x, CStr y => bytes_eqb x y
  | CNum x, CNum y => cnum_eqb x y
  | CArr xs, CArr ys =>
      (fix go (l1 l2 : list cvalue) :=
         match l1, l2 with
         | [], [] => true
         | x :: r1, y :: r2 => cvalue_eqb x y && go r1 r2
         | _, _ => false
         end) xs ys
  | CObj xs, CObj ys =>
      (fix go (l1 l2 : list (bytes * cvalue)) :=
         match l1, l2 with
         | [], [] => true
         | (k1, x) :: r1, (k2, y) :: r2 => bytes_eqb k1 k2 && cvalue_eqb x y && go r1 r2
         | _, _ => false
         end) xs ys
  | _, _ => false
  end.

(* result of a reference decoder *)
Inductive ref_result :=
| RValue (v : cvalue) (rest : bytes)
| RUnsupported            (* well-formed so far, but outside the supported subset *)
| RTruncated              (* input ended inside an item *)
| RMalformed.             (* not well-formed *)

Definition take (n : Z) (b : bytes) : option (bytes * bytes) :=
  if (n <? 0) then None else
  if (zlen b <? n) then None else Some (firstn (Z.to_nat n) b, skipn (Z.to_nat n) b).
