(* The "a failed document stays failed" guard that Parser.Write (all formats),
   Parser.Parse (cborl, ubjson) and Decoder.Next (all formats) share:

       if x.err != nil { return x.err }     // in front of the call
       x.err = <result of the call>         // behind it

   modelled once, around any step function of the component models. *)
From SF Require Import Base.Prelude Core.Events.
Open Scope Z_scope.

Section Latch.
  Context {S I : Type}.
  Variable isnil : Z -> bool.
  Variable step : S -> sink -> I -> res (S * sink * Z).

  Definition latched (st : S * option Z) (s : sink) (i : I) : res ((S * option Z) * sink * Z) :=
    match snd st with
    | Some e => Ok (st, s, e)
    | None =>
        match step (fst st) s i with
        | Ok (p1, s1, err) => Ok ((p1, if isnil err then None else Some err), s1, err)
        | Err e => Err e
        | Panic w => Panic w
        | OutOfFuel => OutOfFuel
        end
    end.

  (* a caller that goes on calling, whatever the results; [last] is the result of the last call *)
  Fixpoint latched_all (st : S * option Z) (s : sink) (is : list I) (last : Z)
    : res ((S * option Z) * sink * Z) :=
    match is with
    | [] => Ok (st, s, last)
    | i :: r =>
        match latched st s i with
        | Ok (st1, s1, e) => latched_all st1 s1 r e
        | Err e => Err e
        | Panic w => Panic w
        | OutOfFuel => OutOfFuel
        end
    end.
End Latch.
