(* Composition theorems across the three formats:
   C01 (encode, then parse) for UBJSON and JSON,
   C08 (parser connected to encoder) for the nine (source, target) pairs,
   C09 / C17 corollaries for the JSON parser.
   The CBOR instances of C01 / C08 / C09 / C17 are in Cbor/ComposeProofs.v. *)
From Coq Require Import List NArith ZArith Bool Lia.
From Coq Require Import ZifyBool ZifyNat ZifyN.
From SF Require Import Base.Prelude Base.PreludeProofs Base.Utf8 Core.Events Core.EventsProofs
  Core.AdapterProofs.
From SF Require Import Cbor.Spec Cbor.Enc Cbor.Parse.
From SF Require Import Ubjson.Spec Ubjson.Enc Ubjson.Img Ubjson.Parse.
From SF Require Import Json.Spec Json.Enc Json.Parse.
From SF Require Cbor.EncProofs Cbor.RoundtripProofs Cbor.ConformanceProofs Cbor.ChunkTotalProofs
  Cbor.ComposeProofs.
From SF Require Ubjson.EncProofs Ubjson.RoundtripProofs Ubjson.ConformanceProofs Ubjson.ChunkProofs.
From SF Require Json.EncProofs Json.RoundtripProofs Json.SpecProofs Json.ChunkProofs Json.ParseSafety.
Import ListNotations.
Open Scope Z_scope.

Ltac Zify.zify_post_hook ::= Z.div_mod_to_equations.

Notation cbor_small := Cbor.RoundtripProofs.tree_small.
Notation ubj_small := Ubjson.RoundtripProofs.tree_small.
Notation MaxInt64 := Cbor.ConformanceProofs.MaxInt64.
Notation no_huge_zero_typed := Ubjson.ConformanceProofs.no_huge_zero_typed.
Notation tree_finite := Json.EncProofs.tree_finite.
Notation json_img := Json.RoundtripProofs.json_img.

(* ====================================================================== *)
(* Part 0: small list / byte helpers                                        *)
(* ====================================================================== *)

Lemma ab_app a b : all_bytes (a ++ b) = all_bytes a && all_bytes b.
Proof. apply forallb_app. Qed.

Lemma ab_cons x l : all_bytes (x :: l) = is_byte x && all_bytes l.
Proof. reflexivity. Qed.

Lemma ab_flat_map {A} (f : A -> bytes) l :
  (forall x, In x l -> all_bytes (f x) = true) -> all_bytes (flat_map f l) = true.
Proof.
  induction l as [|x l IH]; intro H; [reflexivity|]. cbn [flat_map]. rewrite ab_app.
  rewrite (H x (or_introl eq_refl)), IH; [reflexivity|]. intros y Hy. apply H. right. exact Hy.
Qed.

Lemma forallb_In {A} (f : A -> bool) l x : forallb f l = true -> In x l -> f x = true.
Proof. intros H Hx. eapply forallb_forall in H; eassumption. Qed.

(* ====================================================================== *)
(* Part 1: bounded values                                                   *)
(* ====================================================================== *)

(* every string, every key and every container of the value has fewer than
   [L] bytes / members *)
Fixpoint cv_lim (L : Z) (v : cvalue) : bool :=
  match v with
  | CStr s => zlen s <? L
  | CArr vs => (zlen vs <? L) && forallb (cv_lim L) vs
  | CObj kvs => (zlen kvs <? L) && forallb (fun kv => (zlen (fst kv) <? L) && cv_lim L (snd kv)) kvs
  | _ => true
  end.

Lemma scalar_lim_cbor L s : L <= 2 ^ 64 -> cv_lim L (cv (scalar_value s)) = true ->
  Cbor.RoundtripProofs.scalar_small s = true.
Proof.
  intros HL H. destruct s as [|b|s|k z]; try reflexivity.
  cbn [scalar_value cv cv_lim Cbor.RoundtripProofs.scalar_small] in *. lia.
Qed.

Lemma scalar_lim_ubj L s : L <= 2 ^ 63 -> cv_lim L (cv (scalar_value s)) = true ->
  Ubjson.RoundtripProofs.scalar_small s = true.
Proof.
  intros HL H. destruct s as [|b|s|k z]; try reflexivity.
  cbn [scalar_value cv cv_lim Ubjson.RoundtripProofs.scalar_small] in *.
  unfold Ubjson.RoundtripProofs.int_lim. change (2 ^ 63) with 9223372036854775808 in HL. lia.
Qed.

(* a well-formed tree with a bounded value has small announced lengths: the
   side condition of the CBOR encoder theorems *)
Lemma lim_cbor_small : forall t L, L <= 2 ^ 64 -> wf_tree t = true ->
  cv_lim L (cv (value_of t)) = true -> cbor_small t = true.
Proof.
  induction t as [s r|len bt es IH|len bt ms IH|bt es|bt ms] using tree_ind'; intros L HL Hw Hv.
  - cbn [Cbor.RoundtripProofs.tree_small value_of] in *. eapply scalar_lim_cbor; eassumption.
  - rewrite wf_arr in Hw. apply andb_true_iff in Hw as [Hw Hwf]. apply andb_true_iff in Hw as [Hlen _].
    cbn [value_of cv cv_lim] in Hv. apply andb_true_iff in Hv as [Hn Hv]. rewrite !zlen_map in Hn.
    cbn [Cbor.RoundtripProofs.tree_small]. apply andb_true_iff. split.
    + unfold len_ok in Hlen. lia.
    + apply forallb_forall. intros x Hx. rewrite Forall_forall in IH.
      apply (IH x Hx L HL); [eapply forallb_In; eassumption|].
      rewrite map_map in Hv. rewrite forallb_map in Hv. eapply forallb_In in Hv; [|exact Hx]. exact Hv.
  - rewrite wf_obj in Hw. apply andb_true_iff in Hw as [Hw Hwf]. apply andb_true_iff in Hw as [Hlen _].
    cbn [value_of cv cv_lim] in Hv. apply andb_true_iff in Hv as [Hn Hv]. rewrite !zlen_map in Hn.
    cbn [Cbor.RoundtripProofs.tree_small]. apply andb_true_iff. split.
    + unfold len_ok in Hlen. lia.
    + apply forallb_forall. intros [[k r] e] Hx. rewrite Forall_forall in IH.
      rewrite map_map in Hv. rewrite forallb_map in Hv. eapply forallb_In in Hv; [|exact Hx].
      cbn [fst snd] in Hv |- *. apply andb_true_iff in Hv as [Hk Hv].
      apply andb_true_iff. split; [lia|].
      apply (IH _ Hx L HL); cbn [snd]; [|exact Hv].
      eapply forallb_In in Hwf; [|exact Hx]. apply andb_true_iff in Hwf as [_ Hwf]. exact Hwf.
  - cbn [value_of cv cv_lim] in Hv. apply andb_true_iff in Hv as [Hn Hv]. rewrite !zlen_map in Hn.
    cbn [Cbor.RoundtripProofs.tree_small]. apply andb_true_iff. split; [lia|].
    apply forallb_forall. intros x Hx.
    rewrite map_map in Hv. rewrite forallb_map in Hv. eapply forallb_In in Hv; [|exact Hx].
    eapply scalar_lim_cbor; eassumption.
  - cbn [value_of cv cv_lim] in Hv. apply andb_true_iff in Hv as [Hn Hv]. rewrite !zlen_map in Hn.
    cbn [Cbor.RoundtripProofs.tree_small]. apply andb_true_iff. split; [lia|].
    apply forallb_forall. intros [k x] Hx.
    rewrite map_map in Hv. rewrite forallb_map in Hv. eapply forallb_In in Hv; [|exact Hx].
    cbn [fst snd] in Hv |- *. apply andb_true_iff in Hv as [Hk Hv].
    apply andb_true_iff. split; [lia|]. eapply scalar_lim_cbor; eassumption.
Qed.

(* the same for the side condition of the UBJSON encoder theorems *)
Lemma lim_ubj_small : forall t L, L <= 2 ^ 63 -> wf_tree t = true ->
  cv_lim L (cv (value_of t)) = true -> ubj_small t = true.
Proof.
  assert (E63 : Ubjson.RoundtripProofs.int_lim = 2 ^ 63) by reflexivity.
  induction t as [s r|len bt es IH|len bt ms IH|bt es|bt ms] using tree_ind'; intros L HL Hw Hv.
  - cbn [Ubjson.RoundtripProofs.tree_small value_of] in *. eapply scalar_lim_ubj; eassumption.
  - rewrite Ubjson.RoundtripProofs.small_arr.
    cbn [value_of cv cv_lim] in Hv. apply andb_true_iff in Hv as [Hn Hv]. rewrite !zlen_map in Hn.
    rewrite wf_arr in Hw. apply andb_true_iff in Hw as [_ Hwf].
    apply andb_true_iff. split; [rewrite E63; lia|].
    apply forallb_forall. intros x Hx. rewrite Forall_forall in IH.
    apply (IH x Hx L HL); [eapply forallb_In; eassumption|].
    rewrite map_map in Hv. rewrite forallb_map in Hv. eapply forallb_In in Hv; [|exact Hx]. exact Hv.
  - rewrite Ubjson.RoundtripProofs.small_obj.
    cbn [value_of cv cv_lim] in Hv. apply andb_true_iff in Hv as [Hn Hv]. rewrite !zlen_map in Hn.
    rewrite wf_obj in Hw. apply andb_true_iff in Hw as [_ Hwf].
    apply andb_true_iff. split; [rewrite E63; lia|].
    apply forallb_forall. intros [[k r] e] Hx. rewrite Forall_forall in IH.
    rewrite map_map in Hv. rewrite forallb_map in Hv. eapply forallb_In in Hv; [|exact Hx].
    cbn [fst snd] in Hv |- *. apply andb_true_iff in Hv as [Hk Hv].
    apply andb_true_iff. split; [rewrite E63; lia|].
    apply (IH _ Hx L HL); cbn [snd]; [|exact Hv].
    eapply forallb_In in Hwf; [|exact Hx]. apply andb_true_iff in Hwf as [_ Hwf]. exact Hwf.
  - cbn [value_of cv cv_lim] in Hv. apply andb_true_iff in Hv as [Hn Hv]. rewrite !zlen_map in Hn.
    cbn [Ubjson.RoundtripProofs.tree_small]. apply andb_true_iff. split; [rewrite E63; lia|].
    apply forallb_forall. intros x Hx.
    rewrite map_map in Hv. rewrite forallb_map in Hv. eapply forallb_In in Hv; [|exact Hx].
    eapply scalar_lim_ubj; eassumption.
  - cbn [value_of cv cv_lim] in Hv. apply andb_true_iff in Hv as [Hn Hv]. rewrite !zlen_map in Hn.
    cbn [Ubjson.RoundtripProofs.tree_small]. apply andb_true_iff. split; [rewrite E63; lia|].
    apply forallb_forall. intros [k x] Hx.
    rewrite map_map in Hv. rewrite forallb_map in Hv. eapply forallb_In in Hv; [|exact Hx].
    cbn [fst snd] in Hv |- *. apply andb_true_iff in Hv as [Hk Hv].
    apply andb_true_iff. split; [rewrite E63; lia|]. eapply scalar_lim_ubj; eassumption.
Qed.

(* ---------- induction on canonical values (nested lists) ---------- *)
Section CvInd.
  Variable P : cvalue -> Prop.
  Hypothesis Hnil : P CNil.
  Hypothesis Hbool : forall b, P (CBool b).
  Hypothesis Hstr : forall s, P (CStr s).
  Hypothesis Hnum : forall n, P (CNum n).
  Hypothesis Harr : forall vs, Forall P vs -> P (CArr vs).
  Hypothesis Hobj : forall kvs, Forall (fun kv => P (snd kv)) kvs -> P (CObj kvs).

  Fixpoint cvalue_ind' (v : cvalue) : P v :=
    match v with
    | CNil => Hnil
    | CBool b => Hbool b
    | CStr s => Hstr s
    | CNum n => Hnum n
    | CArr vs =>
        Harr vs ((fix go (l : list cvalue) : Forall P l :=
                    match l with
                    | [] => Forall_nil _
                    | x :: r => Forall_cons _ (cvalue_ind' x) (go r)
                    end) vs)
    | CObj kvs =>
        Hobj kvs ((fix go (l : list (bytes * cvalue)) : Forall (fun kv => P (snd kv)) l :=
                     match l with
                     | [] => Forall_nil _
                     | kv :: r => Forall_cons _ (cvalue_ind' (snd kv)) (go r)
                     end) kvs)
    end.
End CvInd.

Notation cv_size := Cbor.ComposeProofs.cv_size.

(* a value decoded from N bytes (each node costs at least one byte) is bounded *)
Lemma size_lim : forall v N L, (cv_size v <= N)%nat -> Z.of_nat N < L -> cv_lim L v = true.
Proof.
  induction v as [|b|s|n|vs IH|kvs IH] using cvalue_ind'; intros N L Hsz HL; try reflexivity.
  - cbn [cv_size cv_lim] in *. unfold zlen. lia.
  - cbn [cv_size cv_lim] in *.
    pose proof (Cbor.ComposeProofs.list_sum_len cv_size vs Cbor.ComposeProofs.cv_size_pos) as Hl.
    apply andb_true_iff. split; [unfold zlen; lia|].
    apply forallb_forall. intros x Hx. rewrite Forall_forall in IH.
    apply (IH x Hx N L); [|exact HL].
    pose proof (Cbor.ComposeProofs.list_sum_in cv_size vs x Hx). lia.
  - cbn [cv_size cv_lim] in *.
    set (g := fun kv : bytes * cvalue => (S (length (fst kv)) + cv_size (snd kv))%nat) in *.
    pose proof (Cbor.ComposeProofs.list_sum_len g kvs ltac:(intro; unfold g; lia)) as Hl.
    apply andb_true_iff. split; [unfold zlen; lia|].
    apply forallb_forall. intros [k x] Hx. rewrite Forall_forall in IH.
    pose proof (Cbor.ComposeProofs.list_sum_in g kvs _ Hx) as Hin. unfold g in Hin at 1.
    clearbody g. cbn [fst snd] in *. apply andb_true_iff. split; [unfold zlen; lia|].
    apply (IH _ Hx N L); cbn [snd]; [lia|exact HL].
Qed.

Lemma cbor_decode_lim b v rest : cbor_decode b = RValue v rest -> (zlen b <=? MaxInt64) = true ->
  cv_lim (2 ^ 63) v = true.
Proof.
  intros Hd Hsz. unfold cbor_decode in Hd. apply Cbor.ComposeProofs.ref_size in Hd.
  apply (size_lim v (length b)); [lia|].
  unfold Cbor.ConformanceProofs.MaxInt64, zlen in Hsz. lia.
Qed.

(* ====================================================================== *)
(* Part 2: the UBJSON encoder writes bytes                                  *)
(* ====================================================================== *)
Section UbjBytes.
  Import Ubjson.EncProofs.

  Lemma wrapu8_byte i : is_byte (wrapu 8 i) = true.
  Proof.
    pose proof (Ubjson.RoundtripProofs.wrapu_range 8 i ltac:(lia)) as H.
    change (2 ^ 8) with 256 in H. unfold is_byte. lia.
  Qed.

  Lemma optm_bytes mk m : is_byte m = true -> all_bytes (optm mk m) = true.
  Proof. intro H. destruct mk; cbn [optm all_bytes forallb]; [rewrite H|]; reflexivity. Qed.

  Lemma int8_b_bytes i mk : all_bytes (int8_b i mk) = true.
  Proof.
    unfold int8_b. rewrite ab_app, optm_bytes by reflexivity.
    cbn [all_bytes forallb andb]. rewrite wrapu8_byte. reflexivity.
  Qed.

  Lemma uint8_b_bytes u mk : is_byte u = true -> all_bytes (uint8_b u mk) = true.
  Proof.
    intro H. unfold uint8_b. rewrite ab_app, optm_bytes by reflexivity.
    cbn [all_bytes forallb andb]. rewrite H. reflexivity.
  Qed.

  Lemma int16_b_bytes i mk : all_bytes (int16_b i mk) = true.
  Proof. unfold int16_b. rewrite ab_app, optm_bytes, be_enc_bytes by reflexivity. reflexivity. Qed.
  Lemma int32_b_bytes i mk : all_bytes (int32_b i mk) = true.
  Proof. unfold int32_b. rewrite ab_app, optm_bytes, be_enc_bytes by reflexivity. reflexivity. Qed.
  Lemma int64_b_bytes i mk : all_bytes (int64_b i mk) = true.
  Proof. unfold int64_b. rewrite ab_app, optm_bytes, be_enc_bytes by reflexivity. reflexivity. Qed.
  Lemma float32_b_bytes i mk : all_bytes (float32_b i mk) = true.
  Proof. unfold float32_b. rewrite ab_app, optm_bytes, be_enc_bytes by reflexivity. reflexivity. Qed.
  Lemma float64_b_bytes i mk : all_bytes (float64_b i mk) = true.
  Proof. unfold float64_b. rewrite ab_app, optm_bytes, be_enc_bytes by reflexivity. reflexivity. Qed.

  Lemma onint_b_bytes i mk : all_bytes (onint_b i mk) = true.
  Proof.
    unfold onint_b.
    destruct ((-128 <=? i) && (i <=? 127)); [apply int8_b_bytes|].
    destruct ((0 <=? i) && (i <=? 255)) eqn:E; [apply uint8_b_bytes; unfold is_byte; lia|].
    destruct ((-32768 <=? i) && (i <=? 32767)); [apply int16_b_bytes|].
    destruct ((-2147483648 <=? i) && (i <=? 2147483647)); [apply int32_b_bytes|apply int64_b_bytes].
  Qed.

  Lemma len_b_bytes l : all_bytes (len_b l) = true.
  Proof. apply onint_b_bytes. Qed.

  Lemma digits_bytes u : 0 <= u -> all_bytes (digits u) = true.
  Proof.
    intro H. pose proof (Json.EncProofs.digits_digit u H) as D.
    apply forallb_forall. intros x Hx. rewrite Forall_forall in D. specialize (D x Hx).
    unfold Json.EncProofs.is_digit in D. unfold is_byte. lia.
  Qed.

  Lemma highprec_b_bytes u mk : 0 <= u -> all_bytes (highprec_b u mk) = true.
  Proof.
    intro H. unfold highprec_b.
    rewrite !ab_app, optm_bytes, len_b_bytes, digits_bytes by (reflexivity || exact H). reflexivity.
  Qed.

  Lemma uint64_b_bytes u t mk : 0 <= u -> all_bytes (uint64_b u t mk) = true.
  Proof.
    intro H. unfold uint64_b.
    destruct (t =? mi); [apply int8_b_bytes|].
    destruct (t =? mU); [apply uint8_b_bytes, wrapu8_byte|].
    destruct (t =? mI); [apply int16_b_bytes|].
    destruct (t =? ml); [apply int32_b_bytes|].
    destruct (t =? mL); [apply int64_b_bytes|apply highprec_b_bytes; exact H].
  Qed.

  Lemma string_b_bytes s mk : all_bytes s = true -> all_bytes (string_b s mk) = true.
  Proof.
    intro H. unfold string_b. rewrite !ab_app, optm_bytes, len_b_bytes, H by reflexivity. reflexivity.
  Qed.

  Lemma scalar_b_bytes s : scalar_ok s = true -> all_bytes (scalar_b s) = true.
  Proof.
    intro H. destruct s as [|b|s|k z]; cbn [scalar_b scalar_ok] in *.
    - reflexivity.
    - destruct b; reflexivity.
    - apply string_b_bytes. exact H.
    - destruct k; cbn [nkind_ok] in H.
      + apply int8_b_bytes.
      + unfold onint16_b. destruct (_ && _); [apply int8_b_bytes|apply int16_b_bytes].
      + unfold onint32_b, onint16_b. destruct (_ && _); [destruct (_ && _); [apply int8_b_bytes|apply int16_b_bytes]|apply int32_b_bytes].
      + unfold onint64_b, onint32_b, onint16_b.
        destruct (_ && _); [destruct (_ && _); [destruct (_ && _); [apply int8_b_bytes|apply int16_b_bytes]|apply int32_b_bytes]|apply int64_b_bytes].
      + apply onint_b_bytes.
      + destruct (z >? 127).
        { apply uint8_b_bytes. unfold in_u in H. change (2 ^ 8) with 256 in H. unfold is_byte. lia. }
        rewrite !ab_cons. change (is_byte mC) with true. unfold in_u in H. change (2 ^ 8) with 256 in H.
        cbn [all_bytes forallb]. unfold is_byte. lia.
      + apply uint8_b_bytes. unfold in_u in H. change (2 ^ 8) with 256 in H. unfold is_byte. lia.
      + apply uint64_b_bytes. unfold in_u in H. lia.
      + apply uint64_b_bytes. unfold in_u in H. lia.
      + apply uint64_b_bytes. unfold in_u in H. lia.
      + apply uint64_b_bytes. unfold in_u in H. lia.
      + apply float32_b_bytes.
      + apply float64_b_bytes.
  Qed.

  Lemma xelem_snum_nonneg bt s : xelem_ok bt s = true ->
    match bt with BUint16 | BUint32 | BUint64 | BUint => 0 <= snum s
                | BByte | BUint8 => is_byte (snum s) = true
                | BString => all_bytes (sstr s) = true
                | _ => True end.
  Proof.
    intro H. unfold xelem_ok in H.
    destruct bt; try exact I; apply andb_true_iff in H as [Hm Ho];
      destruct s as [|b|s|k z]; try discriminate Hm;
      try (destruct k; try discriminate Hm; cbn [scalar_ok nkind_ok snum] in *; unfold in_u, is_byte in *;
           try change (2 ^ 8) with 256 in Ho; lia).
    cbn [scalar_ok sstr] in *. exact Ho.
  Qed.

  Lemma elem_b_bytes bt t s : xelem_ok bt s = true -> all_bytes (elem_b bt t s) = true.
  Proof.
    intro H. pose proof (xelem_snum_nonneg bt s H) as Hx.
    destruct bt; cbn [elem_b]; try reflexivity;
      try apply int8_b_bytes; try apply int16_b_bytes; try apply int32_b_bytes; try apply int64_b_bytes;
      try apply float32_b_bytes; try apply float64_b_bytes;
      try (apply uint8_b_bytes; exact Hx); try (apply uint64_b_bytes; exact Hx).
    apply string_b_bytes. exact Hx.
  Qed.

  Lemma max_num_type_byte a b : is_byte (max_num_type a b) = true.
  Proof.
    unfold max_num_type.
    repeat match goal with |- context [if ?c then _ else _] => destruct c end; reflexivity.
  Qed.

  Lemma uint_min_type_byte l : is_byte (uint_min_type l) = true.
  Proof.
    unfold uint_min_type. assert (H : is_byte mi = true) by reflexivity. revert H. generalize mi.
    induction l as [|s l IH]; intros a Ha; cbn [fold_left]; [exact Ha|]. apply IH, max_num_type_byte.
  Qed.

  Lemma typed_marker_byte bt vals : is_byte (typed_marker bt vals) = true.
  Proof. destruct bt; cbn [typed_marker]; try reflexivity; apply uint_min_type_byte. Qed.

  Lemma count_b_bytes l : all_bytes (count_b l) = true.
  Proof. unfold count_b. destruct (l <=? 0); [reflexivity|]. rewrite ab_cons, len_b_bytes. reflexivity. Qed.

  Lemma close_b_bytes l m : is_byte m = true -> all_bytes (close_b l m) = true.
  Proof. intro H. unfold close_b. destruct (l <=? 0); [|reflexivity]. cbn [all_bytes forallb]. rewrite H. reflexivity. Qed.

  Lemma bool_b_bytes s : all_bytes (bool_b s) = true.
  Proof. unfold bool_b. destruct (sbool s); reflexivity. Qed.

  Lemma xarr_b_bytes bt es : forallb (xelem_ok bt) es = true -> all_bytes (xarr_b bt es) = true.
  Proof.
    intro H. unfold xarr_b. destruct (is_bool_bt bt).
    - rewrite ab_app, ab_cons, count_b_bytes, ab_app, close_b_bytes by reflexivity.
      rewrite ab_flat_map by (intros; apply bool_b_bytes). reflexivity.
    - destruct (zlen es <=? 0); [reflexivity|].
      rewrite !ab_app, len_b_bytes. rewrite ab_flat_map.
      + rewrite !ab_cons, typed_marker_byte. reflexivity.
      + intros x Hx. apply elem_b_bytes. eapply forallb_In; eassumption.
  Qed.

  Lemma xobj_b_bytes bt ms : forallb (fun m => all_bytes (fst m) && xelem_ok bt (snd m)) ms = true ->
    all_bytes (xobj_b bt ms) = true.
  Proof.
    intro H. unfold xobj_b. destruct (zlen ms <=? 0); [reflexivity|]. destruct (is_bool_bt bt).
    - rewrite ab_app, ab_cons, count_b_bytes, ab_app, close_b_bytes by reflexivity.
      rewrite ab_flat_map; [reflexivity|]. intros m Hm. eapply forallb_In in H; [|exact Hm].
      apply andb_true_iff in H as [Hk _]. rewrite ab_app, string_b_bytes, bool_b_bytes by exact Hk. reflexivity.
    - rewrite !ab_app, len_b_bytes. rewrite ab_flat_map.
      + rewrite !ab_cons, typed_marker_byte. reflexivity.
      + intros m Hm. eapply forallb_In in H; [|exact Hm]. apply andb_true_iff in H as [Hk Hx].
        rewrite ab_app, string_b_bytes, elem_b_bytes by assumption. reflexivity.
  Qed.

  Theorem tbytes_bytes : forall t, wf_tree t = true -> all_bytes (tbytes t) = true.
  Proof.
    induction t as [s r|len bt es IH|len bt ms IH|bt es|bt ms] using tree_ind'; intro Hw.
    - cbn [wf_tree tbytes] in *. apply scalar_b_bytes. exact Hw.
    - rewrite wf_arr in Hw. apply andb_true_iff in Hw as [_ Hw]. cbn [tbytes].
      rewrite ab_app, ab_cons, count_b_bytes, ab_app, close_b_bytes by reflexivity.
      rewrite ab_flat_map; [reflexivity|]. intros x Hx. rewrite Forall_forall in IH.
      apply IH; [exact Hx|eapply forallb_In; eassumption].
    - rewrite wf_obj in Hw. apply andb_true_iff in Hw as [_ Hw]. cbn [tbytes].
      rewrite ab_app, ab_cons, count_b_bytes, ab_app, close_b_bytes by reflexivity.
      rewrite ab_flat_map; [reflexivity|]. intros m Hm. rewrite Forall_forall in IH.
      eapply forallb_In in Hw; [|exact Hm]. apply andb_true_iff in Hw as [Hk Hwm].
      rewrite ab_app, string_b_bytes, (IH m Hm Hwm) by exact Hk. reflexivity.
    - cbn [wf_tree tbytes] in *. apply xarr_b_bytes. exact Hw.
    - cbn [wf_tree tbytes] in *. apply andb_true_iff in Hw as [_ Hw]. apply xobj_b_bytes. exact Hw.
  Qed.
End UbjBytes.

Theorem ubj_encode_tree_bytes : forall t bs, wf_tree t = true ->
  ubj_encode (flatten t) = Some bs -> all_bytes bs = true.
Proof.
  intros t bs Hw H. rewrite Ubjson.EncProofs.ubj_encode_tbytes in H. inversion H; subst bs.
  apply tbytes_bytes. exact Hw.
Qed.
Print Assumptions ubj_encode_tree_bytes.

(* ====================================================================== *)
(* Part 3: C01 for UBJSON                                                   *)
(* ====================================================================== *)

(* Encode a well-formed tree, parse the output: the parser accepts and
   delivers a well-formed stream whose value is the UBJSON image of the tree
   (ubj_img: unsigned integers above MaxInt64 travel as high-precision
   numbers, i.e. come back as strings of digits; everything else is kept).
   Every chunking of the output that returns gives the same events and
   verdict.
   Side conditions on the output: shorter than 2^63 bytes (true of every Go
   slice) and the resource guard of C06 (no_huge_zero_typed).  The guard
   cannot be derived from the tree: it over-approximates by looking for the
   bytes "$Z#", "$T#", "$F#" anywhere, also inside string and number
   payloads - see [guard_not_derivable] below. *)
Theorem C01_ubj : forall t, wf_tree t = true -> ubj_small t = true ->
  exists bs, ubj_encode (flatten t) = Some bs /\ all_bytes bs = true /\
    ((zlen bs <=? MaxInt64) = true -> no_huge_zero_typed bs = true ->
     exists evs t' p, urun_parse None bs = Ok (evs, unilE, p) /\ stream_tree evs = Some t' /\
       wf_tree t' = true /\ cv (value_of t') = ubj_img t /\
       forall cs r, concat cs = bs -> urun_chunks None cs = Ok r -> fst r = (evs, unilE)).
Proof.
  intros t Hw Hs. destruct (Ubjson.RoundtripProofs.C07_ubj t Hw Hs) as (bs & E & D).
  pose proof (ubj_encode_tree_bytes t bs Hw E) as Hb.
  exists bs. split; [exact E|]. split; [exact Hb|]. intros Hsz Hz.
  destruct (Ubjson.ConformanceProofs.C06_accept bs _ Hb Hsz Hz D) as (evs & t' & p & Hrun & Hst & Hwf & Hcv).
  exists evs, t', p. repeat (split; [assumption|]).
  intros cs r Hc Hr. rewrite <- Hc in Hrun.
  pose proof (Ubjson.ChunkProofs.C02_ubj_entry_strong None cs _ _ Hrun Hr) as Hfst.
  cbn [fst] in Hfst. symmetry. exact Hfst.
Qed.
Print Assumptions C01_ubj.

Corollary C01_ubj_parse : forall t bs, wf_tree t = true -> ubj_small t = true ->
  ubj_encode (flatten t) = Some bs -> (zlen bs <=? MaxInt64) = true -> no_huge_zero_typed bs = true ->
  exists evs t' p, urun_parse None bs = Ok (evs, unilE, p) /\ stream_tree evs = Some t' /\
    wf_tree t' = true /\ cv (value_of t') = ubj_img t.
Proof.
  intros t bs Hw Hs E Hsz Hz. destruct (C01_ubj t Hw Hs) as (bs' & E' & _ & H).
  rewrite E in E'. inversion E'; subst bs'.
  destruct (H Hsz Hz) as (evs & t' & p & H1 & H2 & H3 & H4 & _). eauto 8.
Qed.
Print Assumptions C01_ubj_parse.

(* The guard is a premise on the output, not a consequence of wf_tree: a
   12-byte string whose bytes look like the header of a typed array of 2^63-1
   nils.  The guard says no; the parser (which knows it is inside a string)
   accepts, as it should.  So this is incompleteness of the guard of C06, not
   a defect of the parser. *)
Example guard_not_derivable :
  let t := TVal (SStr [36; 90; 35; 76; 127; 255; 255; 255; 255; 255; 255; 255]) true in
  wf_tree t = true /\ ubj_small t = true /\
  match ubj_encode (flatten t) with
  | Some bs => no_huge_zero_typed bs = false /\
               exists p, urun_parse None bs = Ok (flatten t, unilE, p)
  | None => False
  end.
Proof. cbv zeta. split; [reflexivity|]. split; [reflexivity|]. vm_compute. split; [reflexivity|]. eexists. reflexivity. Qed.


(* ====================================================================== *)
(* Part 3b: values decoded by the UBJSON reference decoder are bounded      *)
(* ====================================================================== *)
(* (cv_size v <= length b does not hold for UBJSON: "[$Z#I" 10000 is an array
   of 10000 nils in 7 bytes.  What holds: every announced count is below 2^63
   (it is a non-negative int64 at most), every string / key is a piece of the
   input, and every element of an uncounted container costs a byte.) *)
Section UbjLim.
  Import Ubjson.RoundtripProofs Ubjson.ConformanceProofs.

  Lemma wraps_lt k z : 0 < k -> wraps k z < 2 ^ (k - 1).
  Proof.
    intro Hk. unfold wraps. set (m := z mod 2 ^ k).
    assert (Hp : 0 < 2 ^ (k - 1)) by (apply Z.pow_pos_nonneg; lia).
    assert (E : 2 ^ k = 2 * 2 ^ (k - 1)).
    { replace k with (Z.succ (k - 1)) at 1 by lia. rewrite Z.pow_succ_r by lia. reflexivity. }
    assert (Hm : 0 <= m < 2 ^ k) by (apply Z.mod_pos_bound; lia).
    destruct (m <? 2 ^ (k - 1)) eqn:C; lia.
  Qed.

  Lemma ubj_len_lt b n r : ubj_len b = LVal n r -> all_bytes b = true -> n < 2 ^ 63.
  Proof.
    unfold ubj_len. destruct b as [|m r0]; [discriminate|]. intros H Hb.
    rewrite all_bytes_cons in Hb. apply andb_true_iff in Hb as [_ Hb].
    assert (G : forall (k : Z) (sg : bool), 0 < k <= 8 -> (sg = false -> k = 1) ->
              match take k r0 with
              | Some (a, r') => let v := if sg then wraps (8 * k) (be_dec a) else be_dec a in
                                if v <? 0 then LBad else LVal v r'
              | None => LTrunc end = LVal n r -> n < 2 ^ 63).
    { intros k sg Hk Hsg. destruct (take k r0) as [[a r']|] eqn:Et; [|discriminate]. cbv zeta.
      destruct sg.
      - destruct (wraps (8 * k) (be_dec a) <? 0); [discriminate|]. intro E. inversion E; subst.
        pose proof (wraps_lt (8 * k) (be_dec a) ltac:(lia)) as Hw.
        eapply Z.lt_le_trans; [exact Hw|]. apply Z.pow_le_mono_r; lia.
      - rewrite (Hsg eq_refl) in Et. destruct (be_dec a <? 0); [discriminate|]. intro E. inversion E; subst.
        destruct (take_bytes _ _ _ _ Et Hb) as [Hba _].
        apply take_1_inv in Et as (x & _ & ->).
        pose proof (be_dec_bound [x] Hba) as Hbd. cbn [length] in Hbd. change (256 ^ Z.of_nat 1) with 256 in Hbd.
        change (2 ^ 63) with 9223372036854775808. lia. }
    destruct (m =? mi); [apply (G 1 true); [lia|discriminate|exact H]|].
    destruct (m =? mU); [apply (G 1 false); [lia|reflexivity|exact H]|].
    destruct (m =? mI); [apply (G 2 true); [lia|discriminate|exact H]|].
    destruct (m =? ml); [apply (G 4 true); [lia|discriminate|exact H]|].
    destruct (m =? mL); [apply (G 8 true); [lia|discriminate|exact H]|]. discriminate.
  Qed.

  Lemma ukey_facts b k r' : ukey b = inl (Some (k, r')) -> all_bytes b = true ->
    all_bytes r' = true /\ (length k + length r' + 2 <= length b)%nat.
  Proof.
    intros H Hb. apply ukey_inv in H as (klen & r1 & Hl & Ht).
    destruct (ubj_len_facts _ _ _ Hl Hb) as (Hb1 & _ & Hlen & _).
    destruct (take_bytes _ _ _ _ Ht Hb1) as [_ Hbr].
    apply take_some in Ht as (_ & _ & _ & _ & E & _). subst r1. rewrite zlen_app in Hlen.
    split; [exact Hbr|]. unfold zlen in Hlen. lia.
  Qed.

  Notation lim := (cv_lim (2 ^ 63)).
  Notation mlim := (fun kv : bytes * cvalue => (zlen (fst kv) <? 2 ^ 63) && lim (snd kv)).

  (* [pl] reads one value: the rest is a suffix, [d] bytes shorter at least *)
  Definition lspec (d : nat) (pl : bytes -> ref_result) : Prop :=
    forall b v rest, pl b = RValue v rest -> all_bytes b = true -> zlen b < 2 ^ 63 ->
      all_bytes rest = true /\ (length rest + d <= length b)%nat /\ lim v = true.

  Lemma arr_n_lim pl d : lspec d pl -> forall g n b acc v rest,
    arr_n pl g n b acc = RValue v rest -> all_bytes b = true -> zlen b < 2 ^ 63 ->
    exists vs, v = CArr (rev acc ++ vs) /\ zlen vs <= Z.max 0 n /\ all_bytes rest = true /\
               (length rest <= length b)%nat /\ forallb lim vs = true.
  Proof.
    intro Hpl. induction g as [|g IH]; intros n b acc v rest H Hb Hsz.
    - rewrite arr_n_O in H. destruct (n <=? 0); [|discriminate]. inversion H; subst.
      exists []. rewrite app_nil_r. repeat split; try assumption; try lia. change (zlen (@nil cvalue)) with 0. lia.
    - rewrite arr_n_S in H. destruct (n <=? 0) eqn:En.
      { inversion H; subst. exists []. rewrite app_nil_r. repeat split; try assumption; try lia.
        change (zlen (@nil cvalue)) with 0. lia. }
      destruct (pl b) as [v1 r1| | |] eqn:E1; try discriminate.
      destruct (Hpl _ _ _ E1 Hb Hsz) as (Hb1 & Hl1 & Hv1).
      destruct (IH _ _ _ _ _ H Hb1 ltac:(unfold zlen in *; lia)) as (vs & -> & Hn & Hbr & Hlr & Hvs).
      exists (v1 :: vs). cbn [rev]. rewrite <- app_assoc. cbn [app forallb]. rewrite Hv1, Hvs.
      repeat split; try assumption; try lia. rewrite zlen_cons. lia.
  Qed.

  Lemma obj_n_lim pl d : lspec d pl -> forall g n b acc v rest,
    obj_n pl g n b acc = RValue v rest -> all_bytes b = true -> zlen b < 2 ^ 63 ->
    exists kvs, v = CObj (rev acc ++ kvs) /\ zlen kvs <= Z.max 0 n /\ all_bytes rest = true /\
               (length rest <= length b)%nat /\ forallb mlim kvs = true.
  Proof.
    intro Hpl. induction g as [|g IH]; intros n b acc v rest H Hb Hsz.
    - rewrite obj_n_O in H. destruct (n <=? 0); [|discriminate]. inversion H; subst.
      exists []. rewrite app_nil_r. repeat split; try assumption; try lia.
      change (zlen (@nil (bytes * cvalue))) with 0. lia.
    - rewrite obj_n_S in H. destruct (n <=? 0) eqn:En.
      { inversion H; subst. exists []. rewrite app_nil_r. repeat split; try assumption; try lia.
        change (zlen (@nil (bytes * cvalue))) with 0. lia. }
      destruct (ukey b) as [[[k r0]|]|e] eqn:Ek; try discriminate.
      2:{ destruct (ukey_cases b) as [(k' & r' & E')|(e' & E' & Hne)]; rewrite Ek in E'; [discriminate|].
          inversion E'; subst e'. subst e. exfalso. eapply Hne. reflexivity. }
      destruct (ukey_facts _ _ _ Ek Hb) as (Hb0 & Hl0).
      destruct (pl r0) as [v1 r1| | |] eqn:E1; try discriminate.
      destruct (Hpl _ _ _ E1 Hb0 ltac:(unfold zlen in *; lia)) as (Hb1 & Hl1 & Hv1).
      destruct (IH _ _ _ _ _ H Hb1 ltac:(unfold zlen in *; lia)) as (kvs & -> & Hn & Hbr & Hlr & Hvs).
      exists ((k, v1) :: kvs). cbn [rev]. rewrite <- app_assoc. cbn [app forallb fst snd]. rewrite Hv1, Hvs.
      repeat split; try assumption; try lia; [rewrite zlen_cons; lia|].
      rewrite andb_true_r. unfold zlen in *. lia.
  Qed.

  Lemma arr_plain_lim val : lspec 1 val -> forall g b acc v rest,
    arr_plain val g b acc = RValue v rest -> all_bytes b = true -> zlen b < 2 ^ 63 ->
    exists vs, v = CArr (rev acc ++ vs) /\ all_bytes rest = true /\
               (length vs + length rest + 1 <= length b)%nat /\ forallb lim vs = true.
  Proof.
    intro Hval. induction g as [|g IH]; intros b acc v rest H Hb Hsz; [destruct b; discriminate H|].
    destruct b as [|h r]; [discriminate H|]. rewrite arr_plain_S in H.
    pose proof Hb as Hb'. rewrite all_bytes_cons in Hb'. apply andb_true_iff in Hb' as [_ Hbr].
    assert (Hszr : zlen r < 2 ^ 63) by (rewrite zlen_cons in Hsz; lia).
    destruct (h =? mArrE).
    { inversion H; subst. exists []. rewrite app_nil_r. repeat split; try assumption. cbn [length]. lia. }
    destruct (h =? mN).
    { destruct (IH _ _ _ _ H Hbr Hszr) as (vs & -> & Hb1 & Hl & Hvs). exists vs.
      repeat split; try assumption. cbn [length]. lia. }
    destruct (val (h :: r)) as [v1 r1| | |] eqn:E1; try discriminate.
    destruct (Hval _ _ _ E1 Hb Hsz) as (Hb1 & Hl1 & Hv1).
    destruct (IH _ _ _ _ H Hb1 ltac:(unfold zlen in *; lia)) as (vs & -> & Hbr2 & Hl & Hvs).
    exists (v1 :: vs). cbn [rev]. rewrite <- app_assoc. cbn [app forallb]. rewrite Hv1, Hvs.
    repeat split; try assumption. cbn [length] in *. lia.
  Qed.

  Lemma obj_plain_lim val : lspec 1 val -> forall g b acc v rest,
    obj_plain val g b acc = RValue v rest -> all_bytes b = true -> zlen b < 2 ^ 63 ->
    exists kvs, v = CObj (rev acc ++ kvs) /\ all_bytes rest = true /\
               (length kvs + length rest + 1 <= length b)%nat /\ forallb mlim kvs = true.
  Proof.
    intro Hval. induction g as [|g IH]; intros b acc v rest H Hb Hsz; [destruct b; discriminate H|].
    destruct b as [|h r]; [discriminate H|]. rewrite obj_plain_S in H.
    pose proof Hb as Hb'. rewrite all_bytes_cons in Hb'. apply andb_true_iff in Hb' as [_ Hbr].
    destruct (h =? mObjE).
    { inversion H; subst. exists []. rewrite app_nil_r. repeat split; try assumption. cbn [length]. lia. }
    destruct (ukey (h :: r)) as [[[k r0]|]|e] eqn:Ek; try discriminate.
    2:{ destruct (ukey_cases (h :: r)) as [(k' & r' & E')|(e' & E' & Hne)]; rewrite Ek in E'; [discriminate|].
        inversion E'; subst e'. subst e. exfalso. eapply Hne. reflexivity. }
    destruct (ukey_facts _ _ _ Ek Hb) as (Hb0 & Hl0).
    destruct (val r0) as [v1 r1| | |] eqn:E1; try discriminate.
    destruct (Hval _ _ _ E1 Hb0 ltac:(unfold zlen in *; lia)) as (Hb1 & Hl1 & Hv1).
    destruct (IH _ _ _ _ H Hb1 ltac:(unfold zlen in *; lia)) as (kvs & -> & Hbr2 & Hl & Hvs).
    exists ((k, v1) :: kvs). cbn [rev]. rewrite <- app_assoc. cbn [app forallb fst snd]. rewrite Hv1, Hvs.
    repeat split; try assumption; [cbn [length] in *; lia|].
    rewrite andb_true_r. unfold zlen in *. lia.
  Qed.

  Definition pspec (f : nat) : Prop := forall m, is_value_marker m = true -> lspec 0 (ubj_payload f m).

  Lemma uvalue_lim f : pspec f -> forall g, lspec 1 (uvalue f g).
  Proof.
    intros Hf. induction g as [|g IH]; intros b v rest H Hb Hsz; [destruct b; discriminate H|].
    destruct b as [|m r]; [discriminate H|]. rewrite uvalue_S in H.
    pose proof Hb as Hb'. rewrite all_bytes_cons in Hb'. apply andb_true_iff in Hb' as [_ Hbr].
    assert (Hszr : zlen r < 2 ^ 63) by (rewrite zlen_cons in Hsz; lia).
    destruct (m =? mN).
    { destruct (IH _ _ _ H Hbr Hszr) as (H1 & H2 & H3). repeat split; try assumption. cbn [length]. lia. }
    destruct (is_value_marker m) eqn:Hm; [|discriminate].
    destruct (Hf m Hm _ _ _ H Hbr Hszr) as (H1 & H2 & H3). repeat split; try assumption. cbn [length]. lia.
  Qed.

  Ltac fixed_case lem H Hb :=
    rewrite lem in H;
    match type of H with
    | match take ?k ?b with _ => _ end = _ =>
        let Et := fresh "Et" in
        destruct (take k b) as [[?a ?r]|] eqn:Et; [|discriminate H];
        inversion H; subst;
        let Hbr := fresh "Hbr" in
        destruct (take_bytes _ _ _ _ Et Hb) as [_ Hbr];
        let Hl := fresh "Hl" in
        pose proof (take_len _ _ _ _ Et) as [Hl _];
        split; [exact Hbr|split; [lia|reflexivity]]
    end.

  Theorem payload_lim : forall f, pspec f.
  Proof.
    induction f as [|f IH]; intros m Hm b v rest H Hb Hsz; [discriminate H|].
    assert (Hval : forall g, lspec 1 (uvalue f g)) by (apply uvalue_lim; exact IH).
    apply value_marker_cases in Hm.
    destruct Hm as [->|[->|[->|[->|[->|[->|[->|[->|[->|[->|[->|[->|[->|[->| ->]]]]]]]]]]]]]].
    - rewrite pl_Z in H. inversion H; subst. split; [exact Hb|split; [lia|reflexivity]].
    - rewrite pl_T in H. inversion H; subst. split; [exact Hb|split; [lia|reflexivity]].
    - rewrite pl_F in H. inversion H; subst. split; [exact Hb|split; [lia|reflexivity]].
    - fixed_case pl_i H Hb.
    - fixed_case pl_U H Hb.
    - fixed_case pl_I H Hb.
    - fixed_case pl_l H Hb.
    - fixed_case pl_L H Hb.
    - fixed_case pl_d H Hb.
    - fixed_case pl_D H Hb.
    - (* H *)
      rewrite pl_H in H. unfold ustr in H. destruct (ubj_len b) as [n r1| |] eqn:El; try discriminate.
      destruct (take n r1) as [[a r']|] eqn:Et; [|discriminate]. inversion H; subst.
      destruct (ubj_len_facts _ _ _ El Hb) as (Hb1 & _ & Hl1 & _).
      destruct (take_bytes _ _ _ _ Et Hb1) as [_ Hbr]. apply take_some in Et as (_ & Hn & _ & _ & E & Ha).
      subst r1. rewrite zlen_app in *. split; [exact Hbr|]. cbn [cv_lim]. unfold zlen in *. split; lia.
    - (* C: a char (0..127) *)
      rewrite pl_C in H. destruct b as [|c r]; [discriminate H|].
      destruct (c >? 127); [discriminate H|]. inversion H; subst.
      rewrite all_bytes_cons in Hb. apply andb_true_iff in Hb as [_ Hbr].
      split; [exact Hbr|split; [cbn [length]; lia|reflexivity]].
    - (* S *)
      rewrite pl_S in H. unfold ustr in H. destruct (ubj_len b) as [n r1| |] eqn:El; try discriminate.
      destruct (take n r1) as [[a r']|] eqn:Et; [|discriminate]. inversion H; subst.
      destruct (ubj_len_facts _ _ _ El Hb) as (Hb1 & _ & Hl1 & _).
      destruct (take_bytes _ _ _ _ Et Hb1) as [_ Hbr]. apply take_some in Et as (_ & Hn & _ & _ & E & Ha).
      subst r1. rewrite zlen_app in *. split; [exact Hbr|]. cbn [cv_lim]. unfold zlen in *. split; lia.
    - (* object *)
      destruct b as [|h r]; [discriminate H|].
      pose proof Hb as Hb'. rewrite all_bytes_cons in Hb'. apply andb_true_iff in Hb' as [_ Hbr].
      assert (Hszr : zlen r < 2 ^ 63) by (rewrite zlen_cons in Hsz; lia).
      destruct (h =? mType) eqn:Ety.
      { assert (h = mType) by lia. subst h.
        destruct r as [|t [|c r2]]; try discriminate H.
        { exfalso. revert H. change (ubj_payload (S f) mObjS [mType; t]) with
            (if negb (is_value_marker t) then RMalformed else RTruncated).
          destruct (negb (is_value_marker t)); discriminate. }
        rewrite pl_obj_typed' in H.
        destruct (is_value_marker t) eqn:Hmt; [|discriminate]. cbn [negb] in H.
        destruct (c =? mCount) eqn:Ec; [|discriminate]. cbn [negb] in H.
        destruct (ubj_len r2) as [n r3| |] eqn:El; try discriminate.
        assert (Hbr2 : all_bytes r2 = true).
        { rewrite !all_bytes_cons in Hbr. apply andb_true_iff in Hbr as [_ Hbr].
          apply andb_true_iff in Hbr as [_ Hbr]. exact Hbr. }
        destruct (ubj_len_facts _ _ _ El Hbr2) as (Hb3 & Hn0 & Hl3 & _).
        pose proof (ubj_len_lt _ _ _ El Hbr2) as Hn.
        rewrite !zlen_cons in Hszr.
        destruct (obj_n_lim _ 0 (IH t Hmt) _ _ _ _ _ _ H Hb3 ltac:(lia)) as (kvs & -> & Hk & Hbrest & Hlr & Hvs).
        cbn [rev app cv_lim]. split; [exact Hbrest|]. split; [cbn [length]; unfold zlen in *; lia|].
        apply andb_true_iff. split; [lia|exact Hvs]. }
      destruct (h =? mCount) eqn:Ecnt.
      { assert (h = mCount) by lia. subst h. rewrite pl_obj_counted in H.
        destruct (ubj_len r) as [n r1| |] eqn:El; try discriminate.
        destruct (ubj_len_facts _ _ _ El Hbr) as (Hb1 & Hn0 & Hl1 & _).
        pose proof (ubj_len_lt _ _ _ El Hbr) as Hn.
        destruct (obj_n_lim _ 1 (Hval f) _ _ _ _ _ _ H Hb1 ltac:(lia)) as (kvs & -> & Hk & Hbrest & Hlr & Hvs).
        cbn [rev app cv_lim]. split; [exact Hbrest|]. split; [cbn [length]; unfold zlen in *; lia|].
        apply andb_true_iff. split; [lia|exact Hvs]. }
      rewrite (pl_obj_plain f h r Ety Ecnt) in H.
      destruct (obj_plain_lim _ (Hval f) _ _ _ _ _ H Hb Hsz) as (kvs & -> & Hbrest & Hlr & Hvs).
      cbn [rev app cv_lim]. split; [exact Hbrest|]. split; [lia|].
      apply andb_true_iff. split; [unfold zlen in *; lia|exact Hvs].
    - (* array *)
      destruct b as [|h r]; [discriminate H|].
      pose proof Hb as Hb'. rewrite all_bytes_cons in Hb'. apply andb_true_iff in Hb' as [_ Hbr].
      assert (Hszr : zlen r < 2 ^ 63) by (rewrite zlen_cons in Hsz; lia).
      destruct (h =? mType) eqn:Ety.
      { assert (h = mType) by lia. subst h.
        destruct r as [|t [|c r2]]; try discriminate H.
        { exfalso. revert H. change (ubj_payload (S f) mArrS [mType; t]) with
            (if negb (is_value_marker t) then RMalformed else RTruncated).
          destruct (negb (is_value_marker t)); discriminate. }
        rewrite pl_arr_typed' in H.
        destruct (is_value_marker t) eqn:Hmt; [|discriminate]. cbn [negb] in H.
        destruct (c =? mCount) eqn:Ec; [|discriminate]. cbn [negb] in H.
        destruct (ubj_len r2) as [n r3| |] eqn:El; try discriminate.
        destruct ((100000 <? n) && ((t =? mZ) || (t =? mT) || (t =? mF))); [discriminate|].
        assert (Hbr2 : all_bytes r2 = true).
        { rewrite !all_bytes_cons in Hbr. apply andb_true_iff in Hbr as [_ Hbr].
          apply andb_true_iff in Hbr as [_ Hbr]. exact Hbr. }
        destruct (ubj_len_facts _ _ _ El Hbr2) as (Hb3 & Hn0 & Hl3 & _).
        pose proof (ubj_len_lt _ _ _ El Hbr2) as Hn.
        rewrite !zlen_cons in Hszr.
        destruct (arr_n_lim _ 0 (IH t Hmt) _ _ _ _ _ _ H Hb3 ltac:(lia)) as (vs & -> & Hk & Hbrest & Hlr & Hvs).
        cbn [rev app cv_lim]. split; [exact Hbrest|]. split; [cbn [length]; unfold zlen in *; lia|].
        apply andb_true_iff. split; [lia|exact Hvs]. }
      destruct (h =? mCount) eqn:Ecnt.
      { assert (h = mCount) by lia. subst h. rewrite pl_arr_counted in H.
        destruct (ubj_len r) as [n r1| |] eqn:El; try discriminate.
        destruct (ubj_len_facts _ _ _ El Hbr) as (Hb1 & Hn0 & Hl1 & _).
        pose proof (ubj_len_lt _ _ _ El Hbr) as Hn.
        destruct (arr_n_lim _ 1 (Hval f) _ _ _ _ _ _ H Hb1 ltac:(lia)) as (vs & -> & Hk & Hbrest & Hlr & Hvs).
        cbn [rev app cv_lim]. split; [exact Hbrest|]. split; [cbn [length]; unfold zlen in *; lia|].
        apply andb_true_iff. split; [lia|exact Hvs]. }
      rewrite (pl_arr_plain f h r Ety Ecnt) in H.
      destruct (arr_plain_lim _ (Hval f) _ _ _ _ _ H Hb Hsz) as (vs & -> & Hbrest & Hlr & Hvs).
      cbn [rev app cv_lim]. split; [exact Hbrest|]. split; [lia|].
      apply andb_true_iff. split; [unfold zlen in *; lia|exact Hvs].
  Qed.

  Lemma ubj_value_lim : forall g b v rest, ubj_value g b = RValue v rest ->
    all_bytes b = true -> zlen b < 2 ^ 63 -> lim v = true.
  Proof.
    induction g as [|g IH]; intros b v rest H Hb Hsz; [discriminate H|].
    destruct b as [|m r]; [discriminate H|]. rewrite ubj_value_S in H.
    pose proof Hb as Hb'. rewrite all_bytes_cons in Hb'. apply andb_true_iff in Hb' as [_ Hbr].
    assert (Hszr : zlen r < 2 ^ 63) by (rewrite zlen_cons in Hsz; lia).
    destruct (m =? mN); [eapply IH; eassumption|].
    destruct (is_value_marker m) eqn:Hm; [|discriminate].
    destruct (payload_lim _ m Hm _ _ _ H Hbr Hszr) as (_ & _ & Hv). exact Hv.
  Qed.
End UbjLim.

Theorem ubj_decode_lim : forall b v rest, ubj_decode b = RValue v rest ->
  all_bytes b = true -> (zlen b <=? MaxInt64) = true -> cv_lim (2 ^ 63) v = true.
Proof.
  intros b v rest H Hb Hsz. unfold ubj_decode in H. eapply ubj_value_lim; [exact H|exact Hb|].
  unfold Cbor.ConformanceProofs.MaxInt64 in Hsz. change (2 ^ 63) with 9223372036854775808. lia.
Qed.
Print Assumptions ubj_decode_lim.

(* ====================================================================== *)
(* Part 3c: a value decoded by the JSON reference decoder is not larger     *)
(*          than the text it was decoded from                               *)
(* ====================================================================== *)
Section JsonSize.
  Notation skip_ws_length := Json.SpecProofs.skip_ws_length.

  Lemma match_lit_len name : forall b rest, match_lit name b = LitOk rest ->
    length b = (length name + length rest)%nat.
  Proof.
    induction name as [|x name IH]; intros b rest H; cbn [match_lit] in H.
    - inversion H; reflexivity.
    - destruct b as [|y b']; [discriminate|]. destruct (x =? y); [|discriminate].
      apply IH in H. cbn [length]. lia.
  Qed.

  Lemma lit_value_size name v0 b v rest : lit_value name v0 b = RValue v rest -> name <> [] ->
    v = v0 /\ (length rest + 1 <= length b)%nat.
  Proof.
    unfold lit_value. intros H Hne. destruct (match_lit name b) as [r| |] eqn:E; try discriminate.
    inversion H; subst. apply match_lit_len in E. split; [reflexivity|].
    destruct name; [congruence|]. cbn [length] in E. lia.
  Qed.

  Lemma hex4_len b code rest : hex4 b = HexOk code rest -> length b = (4 + length rest)%nat.
  Proof.
    unfold hex4. destruct b as [|h1 [|h2 [|h3 [|h4 r]]]]; try (destruct (forallb is_hex _); discriminate).
    destruct (hexval h1); [|discriminate]. destruct (hexval h2); [|discriminate].
    destruct (hexval h3); [|discriminate]. destruct (hexval h4); [|discriminate].
    intro H; inversion H; subst. reflexivity.
  Qed.

  Lemma low_escape_len b lo r : low_escape b = Some (lo, r) -> (length r <= length b)%nat.
  Proof.
    unfold low_escape. destruct b as [|c1 [|c2 r0]]; try discriminate.
    destruct ((c1 =? 92) && (c2 =? 117)); [|discriminate].
    destruct (hex4 r0) as [code r1| |] eqn:E; try discriminate.
    destruct (is_low_surrogate code); [|discriminate]. intro H; inversion H; subst.
    apply hex4_len in E. cbn [length]. lia.
  Qed.

  Lemma encode_rune_len c : (length (encode_rune c) <= 4)%nat.
  Proof.
    unfold encode_rune. cbv zeta.
    repeat match goal with |- context [if ?c then _ else _] => destruct c end; cbn [length]; lia.
  Qed.

  Lemma json_escape_len r out rest : json_escape r = ChOk out rest ->
    (length out + length rest <= length r)%nat.
  Proof.
    unfold json_escape. destruct r as [|x r2]; [discriminate|].
    destruct (x =? 34); [intro H; inversion H; subst; cbn [length]; lia|].
    destruct (x =? 92); [intro H; inversion H; subst; cbn [length]; lia|].
    destruct (x =? 47); [intro H; inversion H; subst; cbn [length]; lia|].
    destruct (x =? 98); [intro H; inversion H; subst; cbn [length]; lia|].
    destruct (x =? 102); [intro H; inversion H; subst; cbn [length]; lia|].
    destruct (x =? 110); [intro H; inversion H; subst; cbn [length]; lia|].
    destruct (x =? 114); [intro H; inversion H; subst; cbn [length]; lia|].
    destruct (x =? 116); [intro H; inversion H; subst; cbn [length]; lia|].
    destruct (x =? 117); [|discriminate].
    destruct (hex4 r2) as [code r3| |] eqn:E; try discriminate. apply hex4_len in E.
    destruct (is_high_surrogate code).
    - destruct (low_escape r3) as [[lo r4]|] eqn:EL.
      + apply low_escape_len in EL. intro H; inversion H; subst.
        pose proof (encode_rune_len (utf16_decode code lo)). cbn [length]. lia.
      + intro H; inversion H; subst. pose proof (encode_rune_len rune_error). cbn [length]. lia.
    - destruct (is_low_surrogate code); intro H; inversion H; subst.
      + pose proof (encode_rune_len rune_error). cbn [length]. lia.
      + pose proof (encode_rune_len code). cbn [length]. lia.
  Qed.

  Lemma json_char_len b out rest : json_char b = ChOk out rest ->
    (length out + length rest <= length b)%nat.
  Proof.
    unfold json_char. destruct b as [|c r]; [discriminate|].
    destruct (c =? 92).
    - intro H. apply json_escape_len in H. cbn [length]. lia.
    - destruct ((c =? 34) || (c <? 32)); [discriminate|]. intro H; inversion H; subst. cbn [length]. lia.
  Qed.

  Lemma json_string_loop_len : forall f b racc s rest, json_string_loop f b racc = StrOk s rest ->
    (length s + length rest + 1 <= length racc + length b)%nat.
  Proof.
    induction f as [|f IH]; intros b racc s rest H; [discriminate|]. cbn [json_string_loop] in H.
    destruct b as [|c r]; [discriminate|].
    destruct (c =? 34).
    - inversion H; subst. rewrite rev_length. cbn [length]. lia.
    - destruct (json_char (c :: r)) as [out rest'| |] eqn:E; try discriminate.
      apply json_char_len in E. apply IH in H. rewrite app_length, rev_length in H. lia.
  Qed.

  Lemma json_string_len b s rest : json_string b = StrOk s rest ->
    (length s + length rest + 1 <= length b)%nat.
  Proof. unfold json_string. intro H. apply json_string_loop_len in H. cbn [length] in H. lia. Qed.

  Lemma json_number_len b lit isint rest : json_number b = NumOk lit isint rest ->
    (length rest + 1 <= length b)%nat.
  Proof.
    intro H. pose proof (Json.SpecProofs.json_number_inv _ _ _ _ H) as (E & _).
    assert (Hne : lit <> []).
    { revert H. unfold json_number.
      destruct (match b with c :: r => if c =? 45 then ([c], r) else ([], b) | [] => ([], b) end) as [sg b1].
      destruct (lex_int b1) as [i b2| |] eqn:Ei; try discriminate.
      destruct (lex_frac b2) as [fr b3| |]; try discriminate.
      destruct (lex_exp b3) as [ex b4| |]; try discriminate.
      intro H. inversion H.
      assert (Hi : i <> []).
      { unfold lex_int in Ei. destruct b1 as [|c r]; [discriminate|].
        destruct (c =? 48); [inversion Ei; discriminate|].
        destruct ((49 <=? c) && (c <=? 57)); [|discriminate].
        destruct (span_digits r). inversion Ei. discriminate. }
      destruct sg; [|discriminate]. destruct i; [congruence|discriminate]. }
    subst b. rewrite app_length. destruct lit; [congruence|]. cbn [length]. lia.
  Qed.

  Lemma cv_size_arr_nil : cv_size (CArr []) = 1%nat.
  Proof. reflexivity. Qed.
  Lemma cv_size_arr_cons v vs : cv_size (CArr (v :: vs)) = (cv_size v + cv_size (CArr vs))%nat.
  Proof. cbn [Cbor.ComposeProofs.cv_size map]. rewrite Cbor.ComposeProofs.list_sum_cons. lia. Qed.
  Lemma cv_size_obj_nil : cv_size (CObj []) = 1%nat.
  Proof. reflexivity. Qed.
  Lemma cv_size_obj_cons k v kvs :
    cv_size (CObj ((k, v) :: kvs)) = (S (length k) + cv_size v + cv_size (CObj kvs))%nat.
  Proof. cbn [Cbor.ComposeProofs.cv_size map]. rewrite Cbor.ComposeProofs.list_sum_cons. cbn [fst snd]. lia. Qed.

  Definition jsize (value : bytes -> ref_result) : Prop :=
    forall b v r, value b = RValue v r -> (cv_size v + length r <= length b)%nat.

  Lemma json_elems_size value : jsize value -> forall g b acc v rest,
    json_elems value g b acc = RValue v rest ->
    exists vs, v = CArr (rev acc ++ vs) /\ (cv_size (CArr vs) + length rest <= length b)%nat.
  Proof.
    intro Hv. induction g as [|g IH]; intros b acc v rest H; [discriminate|]. cbn [json_elems] in H.
    destruct (value b) as [v1 r| | |] eqn:E1; try discriminate. apply Hv in E1.
    pose proof (skip_ws_length r) as Hs.
    destruct (skip_ws r) as [|c r']; [discriminate|]. cbn [length] in Hs.
    destruct (c =? 44).
    - destruct (IH _ _ _ _ H) as (vs & -> & Hsz). exists (v1 :: vs). cbn [rev]. rewrite <- app_assoc.
      split; [reflexivity|]. rewrite cv_size_arr_cons. lia.
    - destruct (c =? 93); [|discriminate]. inversion H; subst. exists [v1]. cbn [rev].
      split; [reflexivity|]. rewrite cv_size_arr_cons, cv_size_arr_nil. lia.
  Qed.

  Lemma json_members_size value : jsize value -> forall g b acc v rest,
    json_members value g b acc = RValue v rest ->
    exists kvs, v = CObj (rev acc ++ kvs) /\ (cv_size (CObj kvs) + length rest <= length b)%nat.
  Proof.
    intro Hv. induction g as [|g IH]; intros b acc v rest H; [discriminate|]. cbn [json_members] in H.
    pose proof (skip_ws_length b) as Hs0.
    destruct (skip_ws b) as [|q r0]; [discriminate|]. cbn [length] in Hs0.
    destruct (negb (q =? 34)); [discriminate|].
    destruct (json_string r0) as [k r1| |] eqn:Ek; try discriminate. apply json_string_len in Ek.
    pose proof (skip_ws_length r1) as Hs1.
    destruct (skip_ws r1) as [|c r2]; [discriminate|]. cbn [length] in Hs1.
    destruct (negb (c =? 58)); [discriminate|].
    destruct (value r2) as [v1 r3| | |] eqn:E1; try discriminate. apply Hv in E1.
    pose proof (skip_ws_length r3) as Hs3.
    destruct (skip_ws r3) as [|d r4]; [discriminate|]. cbn [length] in Hs3.
    destruct (d =? 44).
    - destruct (IH _ _ _ _ H) as (kvs & -> & Hsz). exists ((k, v1) :: kvs). cbn [rev]. rewrite <- app_assoc.
      split; [reflexivity|]. rewrite cv_size_obj_cons. lia.
    - destruct (d =? 125); [|discriminate]. inversion H; subst. exists [(k, v1)]. cbn [rev].
      split; [reflexivity|]. rewrite cv_size_obj_cons, cv_size_obj_nil. lia.
  Qed.

  Theorem json_ref_size pf : forall f, jsize (json_ref pf f).
  Proof.
    induction f as [|f IH]; intros b v rest H; [discriminate|].
    rewrite Json.RoundtripProofs.json_ref_S in H.
    pose proof (skip_ws_length b) as Hs0.
    destruct (skip_ws b) as [|c r]; [discriminate|]. cbn [length] in Hs0.
    destruct (c =? 110).
    { apply lit_value_size in H as [-> Hl]; [|discriminate]. cbn [Cbor.ComposeProofs.cv_size length] in *. lia. }
    destruct (c =? 116).
    { apply lit_value_size in H as [-> Hl]; [|discriminate]. cbn [Cbor.ComposeProofs.cv_size length] in *. lia. }
    destruct (c =? 102).
    { apply lit_value_size in H as [-> Hl]; [|discriminate]. cbn [Cbor.ComposeProofs.cv_size length] in *. lia. }
    destruct (c =? 34).
    { destruct (json_string r) as [s r1| |] eqn:Es; try discriminate. inversion H; subst.
      apply json_string_len in Es. cbn [Cbor.ComposeProofs.cv_size]. lia. }
    destruct (c =? 91).
    { pose proof (skip_ws_length r) as Hs1.
      destruct (skip_ws r) as [|d r']; [discriminate|]. cbn [length] in Hs1.
      destruct (d =? 93).
      - inversion H; subst. rewrite cv_size_arr_nil. lia.
      - destruct (json_elems_size _ IH _ _ _ _ _ H) as (vs & -> & Hsz). cbn [rev app]. lia. }
    destruct (c =? 123).
    { pose proof (skip_ws_length r) as Hs1.
      destruct (skip_ws r) as [|d r']; [discriminate|]. cbn [length] in Hs1.
      destruct (d =? 125).
      - inversion H; subst. rewrite cv_size_obj_nil. lia.
      - destruct (json_members_size _ IH _ _ _ _ _ H) as (kvs & -> & Hsz). cbn [rev app]. lia. }
    destruct ((c =? 45) || is_dig c); [|discriminate].
    destruct (json_number (c :: r)) as [lit isint r1| |] eqn:En; try discriminate.
    destruct (json_num_value pf lit isint); [|discriminate]. inversion H; subst.
    apply json_number_len in En. cbn [Cbor.ComposeProofs.cv_size length] in *. lia.
  Qed.
End JsonSize.

Theorem json_decode_lim : forall pf b v rest, json_decode pf b = RValue v rest ->
  (zlen b <=? MaxInt64) = true -> cv_lim (2 ^ 63) v = true.
Proof.
  intros pf b v rest H Hsz. unfold json_decode in H.
  destruct (json_ref pf (S (length b)) b) as [v0 r| | |] eqn:E; try discriminate.
  destruct (skip_ws r); [|discriminate]. inversion H; subst.
  apply json_ref_size in E. apply (size_lim v (length b)); [lia|].
  unfold Cbor.ConformanceProofs.MaxInt64, zlen in Hsz. lia.
Qed.
Print Assumptions json_decode_lim.

(* ====================================================================== *)
(* Part 5: C08 - parser connected to encoder, pairs without JSON            *)
(* ====================================================================== *)
(* Generic shape: the source reference decoder accepts the document b with
   value v; then the source parser accepts b, its events are the events of a
   well-formed tree t' with cv (value_of t') = v, and the target encoder
   model, fed these events, writes a document that the target reference
   decoder reads as the target image of t' (CBOR: v itself; UBJSON: ubj_img
   t'; JSON: json_img t').  The size side conditions of the target encoder
   theorems are derived from the length of the source document. *)

Lemma stream_is_flatten evs t : stream_tree evs = Some t -> evs = flatten t.
Proof. intro H. apply stream_tree_iff in H. tauto. Qed.

Lemma cbor_chunks cs b : concat cs = b -> all_bytes b = true -> run_chunks None cs = run_parse None b.
Proof. intros <- Hb. apply Cbor.ComposeProofs.chunks_as_parse. exact Hb. Qed.

(* ---------- CBOR -> UBJSON ---------- *)
Theorem C08_cbor_ubj : forall b v, all_bytes b = true -> (zlen b <=? MaxInt64) = true ->
  cbor_decode b = RValue v [] ->
  forall cs, concat cs = b ->
  exists t' out, run_chunks None cs = Ok (flatten t', nilE) /\
    wf_tree t' = true /\ cv (value_of t') = v /\
    ubj_encode (flatten t') = Some out /\ ubj_decode out = RValue (ubj_img t') [].
Proof.
  intros b v Hb Hsz Hd cs Hc.
  destruct (Cbor.ConformanceProofs.C05_accept b v Hb Hsz Hd) as (evs & t & Hrun & Hst & Hwf & Hcv).
  apply stream_is_flatten in Hst. subst evs.
  assert (Hsm : ubj_small t = true).
  { apply (lim_ubj_small t (2 ^ 63)); [lia|exact Hwf|]. rewrite Hcv. eapply cbor_decode_lim; eassumption. }
  destruct (Ubjson.RoundtripProofs.C07_ubj t Hwf Hsm) as (out & E & D).
  exists t, out. rewrite (cbor_chunks cs b Hc Hb). auto.
Qed.
Print Assumptions C08_cbor_ubj.

(* ---------- UBJSON -> CBOR ---------- *)
Theorem C08_ubj_cbor : forall b v, all_bytes b = true -> (zlen b <=? MaxInt64) = true ->
  no_huge_zero_typed b = true -> ubj_decode b = RValue v [] ->
  exists t' p out, urun_parse None b = Ok (flatten t', unilE, p) /\
    wf_tree t' = true /\ cv (value_of t') = v /\
    cbor_encode (flatten t') = Some out /\ cbor_decode out = RValue v [] /\
    forall cs r, concat cs = b -> urun_chunks None cs = Ok r -> fst r = (flatten t', unilE).
Proof.
  intros b v Hb Hsz Hz Hd.
  destruct (Ubjson.ConformanceProofs.C06_accept b v Hb Hsz Hz Hd) as (evs & t & p & Hrun & Hst & Hwf & Hcv).
  apply stream_is_flatten in Hst. subst evs.
  assert (Hsm : cbor_small t = true).
  { apply (lim_cbor_small t (2 ^ 63)); [lia|exact Hwf|]. rewrite Hcv. eapply ubj_decode_lim; eassumption. }
  destruct (Cbor.RoundtripProofs.C07_cbor t Hwf Hsm) as (out & E & D).
  exists t, p, out. rewrite Hcv in D. repeat (split; [assumption|]).
  intros cs r Hc Hr. rewrite <- Hc in Hrun.
  pose proof (Ubjson.ChunkProofs.C02_ubj_entry_strong None cs _ _ Hrun Hr) as Hfst.
  cbn [fst] in Hfst. symmetry. exact Hfst.
Qed.
Print Assumptions C08_ubj_cbor.

(* ---------- UBJSON -> UBJSON ---------- *)
Theorem C08_ubj_ubj : forall b v, all_bytes b = true -> (zlen b <=? MaxInt64) = true ->
  no_huge_zero_typed b = true -> ubj_decode b = RValue v [] ->
  exists t' p out, urun_parse None b = Ok (flatten t', unilE, p) /\
    wf_tree t' = true /\ cv (value_of t') = v /\
    ubj_encode (flatten t') = Some out /\ ubj_decode out = RValue (ubj_img t') [] /\
    forall cs r, concat cs = b -> urun_chunks None cs = Ok r -> fst r = (flatten t', unilE).
Proof.
  intros b v Hb Hsz Hz Hd.
  destruct (Ubjson.ConformanceProofs.C06_accept b v Hb Hsz Hz Hd) as (evs & t & p & Hrun & Hst & Hwf & Hcv).
  apply stream_is_flatten in Hst. subst evs.
  assert (Hsm : ubj_small t = true).
  { apply (lim_ubj_small t (2 ^ 63)); [lia|exact Hwf|]. rewrite Hcv. eapply ubj_decode_lim; eassumption. }
  destruct (Ubjson.RoundtripProofs.C07_ubj t Hwf Hsm) as (out & E & D).
  exists t, p, out. repeat (split; [assumption|]).
  intros cs r Hc Hr. rewrite <- Hc in Hrun.
  pose proof (Ubjson.ChunkProofs.C02_ubj_entry_strong None cs _ _ Hrun Hr) as Hfst.
  cbn [fst] in Hfst. symmetry. exact Hfst.
Qed.
Print Assumptions C08_ubj_ubj.

(* ---------- C17 for the UBJSON parser ---------- *)
(* After every document the reference accepts, Parse leaves the parser in its
   initial state: state stack, valueState stack (the element type of typed
   containers), length stack, token buffer, marker and error field are those
   of uparser0.  (Only the cached BaseType up_vtype of the last container may
   differ; it is written before it is read.) *)
Section UbjIdle.
  Import Ubjson.ConformanceProofs.

  Theorem C17_ubj_parser_idle : forall b v, all_bytes b = true -> (zlen b <=? MaxInt64) = true ->
    no_huge_zero_typed b = true -> ubj_decode b = RValue v [] ->
    exists evs p, urun_parse None b = Ok (evs, unilE, p) /\ same_stacks uparser0 p /\
                  contract_ok evs = true.
  Proof.
    intros b v Hb _ Hz H. unfold ubj_decode in H. unfold no_huge_zero_typed in Hz.
    destruct (top_value _ b v [] H Hb (sink0 None) eq_refl) as (t & n & vt & Hwf & Hcv & Hbud & _ & Hreach).
    change (zlen (@nil Z)) with 0 in Hbud. rewrite ztc_nil in Hbud.
    assert (Hne : b <> []) by (intros ->; discriminate H).
    exists (flatten t), (uset_vtype uparser0 vt).
    split; [|split; [apply same_stacks_vtype|rewrite contract_flatten; exact Hwf]].
    unfold urun_parse, up_parse.
    replace (2 * length b + 2)%nat with (S (S (2 * length b))) by lia.
    rewrite ufeed_S. destruct (zlen b >? 0) eqn:Ez; [|pose proof (nonempty_pos b Hne); lia].
    set (F := ufeed_fuel uparser0 b).
    assert (HF : (n + 1 <= F)%nat).
    { unfold F, ufeed_fuel. change (length (up_stack uparser0)) with 0%nat.
      assert (HK : Z.of_nat 8000 = 8000) by (vm_compute; reflexivity).
      unfold zlen in *. lia. }
    replace F with (S (n + (F - S n)))%nat by lia.
    rewrite ufeed_until_S, Hreach. cbn [ufu_cont orb]. rewrite unil_nil.
    rewrite ufeed_S. change (zlen (@nil Z) >? 0) with false. cbv iota. rewrite unil_nil.
    change (ufin (uset_vtype uparser0 vt) (sadd (sink0 None) (flatten t)))
      with (uset_vtype uparser0 vt, sadd (sink0 None) (flatten t), unilE).
    cbv beta iota. rewrite sadd_log. reflexivity.
  Qed.
End UbjIdle.
Print Assumptions C17_ubj_parser_idle.

(* a simple sufficient condition for the guard: no byte "$" (36) in the
   document - no typed containers and no "$" in strings, keys or numbers *)
Lemma guard_no_dollar : forall b, forallb (fun x => negb (x =? 36)) b = true ->
  no_huge_zero_typed b = true.
Proof.
  intros b H. unfold Ubjson.ConformanceProofs.no_huge_zero_typed.
  assert (Hz : Ubjson.ConformanceProofs.ztc b = 0).
  { induction b as [|x r IH]; [reflexivity|]. cbn [forallb] in H. apply andb_true_iff in H as [Hx Hr].
    rewrite Ubjson.ConformanceProofs.ztc_cons, (IH Hr).
    unfold Ubjson.ConformanceProofs.zt_local. destruct r as [|t [|c r']]; try reflexivity.
    replace (x =? mType) with false by (unfold mType; lia). reflexivity. }
  rewrite Hz. pose proof (Cbor.ConformanceProofs.zlen_nonneg b). lia.
Qed.
Print Assumptions guard_no_dollar.

(* ---------- finiteness of the floats of a value (side condition of the JSON encoder) ---------- *)
Definition cnum_finite (n : cnum) : bool :=
  match n with
  | CF32 bits => negb (nonfinite 32 bits)
  | CF64 bits => negb (nonfinite 64 bits)
  | CInt _ => true
  end.

Fixpoint cv_finite (v : cvalue) : bool :=
  match v with
  | CNum n => cnum_finite n
  | CArr vs => forallb cv_finite vs
  | CObj kvs => forallb (fun kv => cv_finite (snd kv)) kvs
  | _ => true
  end.

Lemma scalar_finite_cv s : cv_finite (cv (scalar_value s)) = true -> Json.EncProofs.scalar_finite s = true.
Proof. destruct s as [|b|s|k z]; try reflexivity. destruct k; try reflexivity; intro H; exact H. Qed.

Lemma tree_finite_cv : forall t, cv_finite (cv (value_of t)) = true -> tree_finite t = true.
Proof.
  induction t as [s r|len bt es IH|len bt ms IH|bt es|bt ms] using tree_ind'; intro H.
  - apply scalar_finite_cv. exact H.
  - cbn [value_of cv cv_finite Json.EncProofs.tree_finite] in *. rewrite map_map, forallb_map in H.
    apply forallb_forall. intros x Hx. rewrite Forall_forall in IH. apply IH; [exact Hx|].
    eapply forallb_In in H; [|exact Hx]. exact H.
  - cbn [value_of cv cv_finite Json.EncProofs.tree_finite] in *. rewrite map_map, forallb_map in H.
    apply forallb_forall. intros m Hm. rewrite Forall_forall in IH. apply IH; [exact Hm|].
    eapply forallb_In in H; [|exact Hm]. exact H.
  - cbn [value_of cv cv_finite Json.EncProofs.tree_finite] in *. rewrite map_map, forallb_map in H.
    apply forallb_forall. intros x Hx. apply scalar_finite_cv. eapply forallb_In in H; [|exact Hx]. exact H.
  - cbn [value_of cv cv_finite Json.EncProofs.tree_finite] in *. rewrite map_map, forallb_map in H.
    apply forallb_forall. intros m Hm. apply scalar_finite_cv. eapply forallb_In in H; [|exact Hm]. exact H.
Qed.
(* ====================================================================== *)
(* Part 4: JSON - output bytes, C01, C09, C17                               *)
(* ====================================================================== *)
Section JsonCompose.
  Import Json.EncProofs Json.RoundtripProofs.

  Variable ffmt : Z -> Z -> bytes.        (* strconv.AppendFloat(_, f, 'g', -1, w) on the bit pattern *)
  Variable pf : bytes -> option Z.         (* strconv.ParseFloat(_, 64) as bits; None = range error *)
  Variable fimg : Z -> Z -> cnum.          (* what the reference reads the text of a finite float as *)
  Variable fbits_r : Z -> Z -> Z.          (* bits ParseFloat returns for the text with ".0" inserted *)

  (* the hypotheses of Json/RoundtripProofs.v (JsonRTStrconv) ... *)
  Hypothesis ffmt_number : forall w bits, w = 32 \/ w = 64 -> in_u w bits = true ->
    nonfinite w bits = false ->
    exists isint, json_number (ffmt w bits) = NumOk (ffmt w bits) isint [] /\
                  json_num_value pf (ffmt w bits) isint = Some (fimg w bits).
  Hypothesis ffmt_chars : forall w bits, w = 32 \/ w = 64 -> in_u w bits = true ->
    nonfinite w bits = false -> Forall (fun c => In c fchars) (ffmt w bits).
  Hypothesis pf_radix : forall w bits, w = 32 \/ w = 64 -> in_u w bits = true ->
    nonfinite w bits = false -> snd (radix_scan (ffmt w bits) 0) = true ->
    pf (radix_patch (ffmt w bits)) = Some (fbits_r w bits).
  (* ... and of Json/SpecProofs.v: ParseFloat returns 64-bit patterns *)
  Hypothesis pf_ok : forall l z, pf l = Some z -> in_u 64 z = true.

  Notation jimg := (json_img ffmt fimg (fun w bits => CF64 (fbits_r w bits))).

  (* ---------- the encoder output consists of bytes ---------- *)
  (* C07_json_no_control wants the character hypothesis for every argument of
     ffmt; the encoder calls ffmt only on finite floats of the right width, so
     a guarded copy of ffmt writes the same text *)
  Definition ffmt_g (w bits : Z) : bytes :=
    if ((w =? 32) || (w =? 64)) && in_u w bits && negb (nonfinite w bits) then ffmt w bits else [48].

  Lemma ffmt_g_chars : forall w b, Forall (fun c => In c fchars) (ffmt_g w b).
  Proof using ffmt_chars. clear ffmt_number pf_radix pf_ok. try clear fimg; try clear fbits_r; try clear ffmt; try clear pf.
    intros w b. unfold ffmt_g.
    destruct (((w =? 32) || (w =? 64)) && in_u w b && negb (nonfinite w b)) eqn:E.
    - apply andb_true_iff in E as [E E3]. apply andb_true_iff in E as [E1 E2].
      apply ffmt_chars; [lia|exact E2|apply negb_true_iff; exact E3].
    - constructor; [|constructor]. unfold fchars. cbn [In]. do 3 right. left. reflexivity.
  Qed.

  Lemma float_text_g cfg w bits : w = 32 \/ w = 64 -> in_u w bits = true ->
    float_text ffmt_g cfg w bits = float_text ffmt cfg w bits.
  Proof using. clear ffmt_number ffmt_chars pf_radix pf_ok. try clear fimg; try clear fbits_r; try clear ffmt; try clear pf.
    intros Hw Hu. unfold float_text. destruct (nonfinite w bits) eqn:N; [reflexivity|].
    unfold ffmt_g. rewrite N, Hu. replace ((w =? 32) || (w =? 64)) with true by lia. reflexivity.
  Qed.

  Lemma scalar_text_g cfg s : scalar_ok s = true -> scalar_text ffmt_g cfg s = scalar_text ffmt cfg s.
  Proof using. clear ffmt_number ffmt_chars pf_radix pf_ok. try clear fimg; try clear fbits_r; try clear ffmt; try clear pf.
    destruct s as [|b|s|k z]; try reflexivity.
    destruct k; try reflexivity; cbn [scalar_text scalar_ok nkind_ok]; intro H; apply float_text_g; auto.
  Qed.

  Lemma tree_text_g cfg : forall t, wf_tree t = true -> tree_text ffmt_g cfg t = tree_text ffmt cfg t.
  Proof using. clear ffmt_number ffmt_chars pf_radix pf_ok. try clear fimg; try clear fbits_r; try clear ffmt; try clear pf.
    induction t as [s r|len bt es IH|len bt ms IH|bt es|bt ms] using tree_ind'; intro Hw.
    - cbn [tree_text wf_tree] in *. apply scalar_text_g. exact Hw.
    - rewrite wf_arr in Hw. apply andb_true_iff in Hw as [_ Hw]. cbn [tree_text]. do 3 f_equal.
      apply map_ext_in. intros x Hx. rewrite Forall_forall in IH. apply IH; [exact Hx|eapply forallb_In; eassumption].
    - rewrite wf_obj in Hw. apply andb_true_iff in Hw as [_ Hw]. cbn [tree_text]. do 3 f_equal.
      apply map_ext_in. intros m Hm. rewrite Forall_forall in IH. unfold member_text.
      eapply forallb_In in Hw; [|exact Hm]. apply andb_true_iff in Hw as [_ Hw].
      rewrite (IH m Hm Hw). reflexivity.
    - cbn [tree_text wf_tree] in *. do 3 f_equal. apply map_ext_in. intros x Hx.
      apply scalar_text_g. eapply Cbor.RoundtripProofs.xelem_scalar_ok. eapply forallb_In; eassumption.
    - cbn [tree_text wf_tree] in *. apply andb_true_iff in Hw as [_ Hw]. do 3 f_equal.
      apply map_ext_in. intros m Hm. unfold member_text.
      eapply forallb_In in Hw; [|exact Hm]. apply andb_true_iff in Hw as [_ Hw].
      rewrite scalar_text_g; [reflexivity|]. eapply Cbor.RoundtripProofs.xelem_scalar_ok. exact Hw.
  Qed.

  Theorem json_out_bytes : forall cfg t e', wf_tree t = true ->
    (ignore_invalid cfg = true \/ tree_finite t = true) ->
    json_run cfg ffmt (jenc0 None) (flatten t) 0 = JRun e' None ->
    all_bytes (w_bytes (je_w e')) = true.
  Proof using ffmt_chars. clear ffmt_number pf_radix pf_ok. try clear fimg; try clear fbits_r; try clear ffmt; try clear pf.
    intros cfg t e' Hw Hfin E.
    destruct (json_enc_tree_text ffmt cfg t Hfin (jenc0 None) 0%nat eq_refl) as (e1 & E1 & _ & _ & _ & B1).
    rewrite E in E1. inversion E1; subst e1.
    destruct (json_enc_tree_text ffmt_g cfg t Hfin (jenc0 None) 0%nat eq_refl) as (e2 & E2 & _ & _ & _ & B2).
    pose proof (C07_json_no_control ffmt_g ffmt_g_chars cfg (flatten t) e2 (wf_events_ok t Hw) E2) as Hc.
    rewrite B1. rewrite B2, tree_text_g in Hc by exact Hw.
    apply forallb_forall. rewrite Forall_forall in Hc. intros x Hx. specialize (Hc x Hx).
    unfold is_byte. lia.
  Qed.

  (* ---------- C01 for JSON ---------- *)
  (* Encode a well-formed tree (non-finite floats allowed only under
     IgnoreInvalidFloat), parse the output in ANY chunking: the parser accepts
     and delivers a well-formed stream whose value is the JSON image of the
     tree (json_img: invalid UTF-8 replaced by U+FFFD, floats as read back by
     ParseFloat from the text AppendFloat wrote, NaN/Inf as null, all integers
     exact). *)
  Theorem C01_json : forall cfg t, wf_tree t = true ->
    (ignore_invalid cfg = true \/ tree_finite t = true) ->
    exists e' evs t' p,
      json_run cfg ffmt (jenc0 None) (flatten t) 0 = JRun e' None /\
      all_bytes (w_bytes (je_w e')) = true /\
      jrun_parse pf None (w_bytes (je_w e')) = Ok (evs, jpnil, p) /\
      stream_tree evs = Some t' /\ wf_tree t' = true /\ cv (value_of t') = jimg cfg t /\
      forall cs, concat cs = w_bytes (je_w e') -> exists p', jrun_chunks pf None cs = Ok (evs, jpnil, p').
  Proof using ffmt_number ffmt_chars pf_radix pf_ok. try clear fimg; try clear fbits_r; try clear ffmt; try clear pf.
    intros cfg t Hw Hfin.
    destruct (C07_json_strconv ffmt pf fimg fbits_r ffmt_number ffmt_chars pf_radix cfg t Hw Hfin) as (e' & E & D).
    pose proof (json_out_bytes cfg t e' Hw Hfin E) as Hb.
    destruct (Json.SpecProofs.C04_accept pf _ _ pf_ok D Hb) as (evs & t' & p & Hrun & Hst & Hwf & Hcv).
    exists e', evs, t', p. repeat (split; [assumption|]).
    intros cs Hc. pose proof (Json.ChunkProofs.C02_json_entry pf None cs) as H.
    rewrite Hc, Hrun in H. destruct (jrun_chunks pf None cs) as [[[ev2 e2] p2]| | |]; try contradiction.
    cbn [Json.ChunkProofs.same_jobs] in H. destruct H as [<- <-]. exists p2. reflexivity.
  Qed.

  (* ---------- chunk independence of an accepted Parse ---------- *)
  Lemma json_chunks_same b evs p : jrun_parse pf None b = Ok (evs, jpnil, p) ->
    forall cs, concat cs = b -> exists p', jrun_chunks pf None cs = Ok (evs, jpnil, p').
  Proof using. clear ffmt_number ffmt_chars pf_radix pf_ok. try clear fimg; try clear fbits_r; try clear ffmt; try clear pf.
    intros Hrun cs Hc. pose proof (Json.ChunkProofs.C02_json_entry pf None cs) as H.
    rewrite Hc, Hrun in H. destruct (jrun_chunks pf None cs) as [[[ev2 e2] p2]| | |]; try contradiction.
    cbn [Json.ChunkProofs.same_jobs] in H. destruct H as [<- <-]. exists p2. reflexivity.
  Qed.

  (* what C04 gives for an accepted document, with the events as a tree *)
  Lemma json_accept_tree b v : all_bytes b = true -> json_decode pf b = RValue v [] ->
    exists t p, jrun_parse pf None b = Ok (flatten t, jpnil, p) /\ wf_tree t = true /\ cv (value_of t) = v.
  Proof using pf_ok. clear ffmt_number ffmt_chars pf_radix. try clear fimg; try clear fbits_r; try clear ffmt; try clear pf.
    intros Hb Hd. destruct (Json.SpecProofs.C04_accept_events pf b v pf_ok Hd Hb) as (t & p & Hrun & _ & Hw & Hv).
    eauto.
  Qed.

  (* ---------- C08, JSON as the source ---------- *)
  Theorem C08_json_cbor : forall b v, all_bytes b = true -> (zlen b <=? MaxInt64) = true ->
    json_decode pf b = RValue v [] ->
    exists t' p out, jrun_parse pf None b = Ok (flatten t', jpnil, p) /\
      wf_tree t' = true /\ cv (value_of t') = v /\
      cbor_encode (flatten t') = Some out /\ cbor_decode out = RValue v [] /\
      forall cs, concat cs = b -> exists p', jrun_chunks pf None cs = Ok (flatten t', jpnil, p').
  Proof using pf_ok. clear ffmt_number ffmt_chars pf_radix. try clear fimg; try clear fbits_r; try clear ffmt; try clear pf.
    intros b v Hb Hsz Hd. destruct (json_accept_tree b v Hb Hd) as (t & p & Hrun & Hwf & Hcv).
    assert (Hsm : cbor_small t = true).
    { apply (lim_cbor_small t (2 ^ 63)); [lia|exact Hwf|]. rewrite Hcv. eapply json_decode_lim; eassumption. }
    destruct (Cbor.RoundtripProofs.C07_cbor t Hwf Hsm) as (out & E & D).
    exists t, p, out. rewrite Hcv in D. repeat (split; [assumption|]).
    eapply json_chunks_same. exact Hrun.
  Qed.

  Theorem C08_json_ubj : forall b v, all_bytes b = true -> (zlen b <=? MaxInt64) = true ->
    json_decode pf b = RValue v [] ->
    exists t' p out, jrun_parse pf None b = Ok (flatten t', jpnil, p) /\
      wf_tree t' = true /\ cv (value_of t') = v /\
      ubj_encode (flatten t') = Some out /\ ubj_decode out = RValue (ubj_img t') [] /\
      forall cs, concat cs = b -> exists p', jrun_chunks pf None cs = Ok (flatten t', jpnil, p').
  Proof using pf_ok. clear ffmt_number ffmt_chars pf_radix. try clear fimg; try clear fbits_r; try clear ffmt; try clear pf.
    intros b v Hb Hsz Hd. destruct (json_accept_tree b v Hb Hd) as (t & p & Hrun & Hwf & Hcv).
    assert (Hsm : ubj_small t = true).
    { apply (lim_ubj_small t (2 ^ 63)); [lia|exact Hwf|]. rewrite Hcv. eapply json_decode_lim; eassumption. }
    destruct (Ubjson.RoundtripProofs.C07_ubj t Hwf Hsm) as (out & E & D).
    exists t, p, out. repeat (split; [assumption|]).
    eapply json_chunks_same. exact Hrun.
  Qed.

  (* ---------- C08, JSON as the target ---------- *)
  (* The JSON encoder refuses NaN / Inf unless IgnoreInvalidFloat is set; CBOR
     and UBJSON documents can carry them (and so can a JSON document if the
     oracle pf returns such bits): the premise is stated on the value. *)
  Lemma json_target cfg t v : wf_tree t = true -> cv (value_of t) = v ->
    (ignore_invalid cfg = true \/ cv_finite v = true) ->
    exists e', json_run cfg ffmt (jenc0 None) (flatten t) 0 = JRun e' None /\
      all_bytes (w_bytes (je_w e')) = true /\
      json_decode pf (w_bytes (je_w e')) = RValue (jimg cfg t) [].
  Proof using ffmt_number ffmt_chars pf_radix. clear pf_ok. try clear fimg; try clear fbits_r; try clear ffmt; try clear pf.
    intros Hwf Hcv Hfin.
    assert (Hfin' : ignore_invalid cfg = true \/ tree_finite t = true).
    { destruct Hfin as [H|H]; [left; exact H|right]. apply tree_finite_cv. rewrite Hcv. exact H. }
    destruct (C07_json_strconv ffmt pf fimg fbits_r ffmt_number ffmt_chars pf_radix cfg t Hwf Hfin') as (e' & E & D).
    exists e'. split; [exact E|]. split; [|exact D]. eapply json_out_bytes; eassumption.
  Qed.

  Theorem C08_cbor_json : forall cfg b v, all_bytes b = true -> (zlen b <=? MaxInt64) = true ->
    cbor_decode b = RValue v [] -> (ignore_invalid cfg = true \/ cv_finite v = true) ->
    forall cs, concat cs = b ->
    exists t' e', run_chunks None cs = Ok (flatten t', nilE) /\
      wf_tree t' = true /\ cv (value_of t') = v /\
      json_run cfg ffmt (jenc0 None) (flatten t') 0 = JRun e' None /\
      all_bytes (w_bytes (je_w e')) = true /\
      json_decode pf (w_bytes (je_w e')) = RValue (jimg cfg t') [].
  Proof using ffmt_number ffmt_chars pf_radix. clear pf_ok. try clear fimg; try clear fbits_r; try clear ffmt; try clear pf.
    intros cfg b v Hb Hsz Hd Hfin cs Hc.
    destruct (Cbor.ConformanceProofs.C05_accept b v Hb Hsz Hd) as (evs & t & Hrun & Hst & Hwf & Hcv).
    apply stream_is_flatten in Hst. subst evs.
    destruct (json_target cfg t v Hwf Hcv Hfin) as (e' & E & Hob & D).
    exists t, e'. rewrite (cbor_chunks cs b Hc Hb). auto 7.
  Qed.

  Theorem C08_ubj_json : forall cfg b v, all_bytes b = true -> (zlen b <=? MaxInt64) = true ->
    no_huge_zero_typed b = true -> ubj_decode b = RValue v [] ->
    (ignore_invalid cfg = true \/ cv_finite v = true) ->
    exists t' p e', urun_parse None b = Ok (flatten t', unilE, p) /\
      wf_tree t' = true /\ cv (value_of t') = v /\
      json_run cfg ffmt (jenc0 None) (flatten t') 0 = JRun e' None /\
      all_bytes (w_bytes (je_w e')) = true /\
      json_decode pf (w_bytes (je_w e')) = RValue (jimg cfg t') [] /\
      forall cs r, concat cs = b -> urun_chunks None cs = Ok r -> fst r = (flatten t', unilE).
  Proof using ffmt_number ffmt_chars pf_radix. clear pf_ok. try clear fimg; try clear fbits_r; try clear ffmt; try clear pf.
    intros cfg b v Hb Hsz Hz Hd Hfin.
    destruct (Ubjson.ConformanceProofs.C06_accept b v Hb Hsz Hz Hd) as (evs & t & p & Hrun & Hst & Hwf & Hcv).
    apply stream_is_flatten in Hst. subst evs.
    destruct (json_target cfg t v Hwf Hcv Hfin) as (e' & E & Hob & D).
    exists t, p, e'. repeat (split; [assumption|]).
    intros cs r Hc Hr. rewrite <- Hc in Hrun.
    pose proof (Ubjson.ChunkProofs.C02_ubj_entry_strong None cs _ _ Hrun Hr) as Hfst.
    cbn [fst] in Hfst. symmetry. exact Hfst.
  Qed.

  Theorem C08_json_json : forall cfg b v, all_bytes b = true ->
    json_decode pf b = RValue v [] -> (ignore_invalid cfg = true \/ cv_finite v = true) ->
    exists t' p e', jrun_parse pf None b = Ok (flatten t', jpnil, p) /\
      wf_tree t' = true /\ cv (value_of t') = v /\
      json_run cfg ffmt (jenc0 None) (flatten t') 0 = JRun e' None /\
      all_bytes (w_bytes (je_w e')) = true /\
      json_decode pf (w_bytes (je_w e')) = RValue (jimg cfg t') [] /\
      forall cs, concat cs = b -> exists p', jrun_chunks pf None cs = Ok (flatten t', jpnil, p').
  Proof using ffmt_number ffmt_chars pf_radix pf_ok. try clear fimg; try clear fbits_r; try clear ffmt; try clear pf.
    intros cfg b v Hb Hd Hfin. destruct (json_accept_tree b v Hb Hd) as (t & p & Hrun & Hwf & Hcv).
    destruct (json_target cfg t v Hwf Hcv Hfin) as (e' & E & Hob & D).
    exists t, p, e'. repeat (split; [assumption|]).
    eapply json_chunks_same. exact Hrun.
  Qed.

  (* the re-encoded JSON document is accepted by the parser again, in any
     chunking, with the image as its value: parse . encode . parse *)
  Theorem C08_json_reparse : forall cfg b v, all_bytes b = true ->
    json_decode pf b = RValue v [] -> (ignore_invalid cfg = true \/ cv_finite v = true) ->
    exists t' p e' t2 p2, jrun_parse pf None b = Ok (flatten t', jpnil, p) /\
      json_run cfg ffmt (jenc0 None) (flatten t') 0 = JRun e' None /\
      jrun_parse pf None (w_bytes (je_w e')) = Ok (flatten t2, jpnil, p2) /\
      wf_tree t2 = true /\ cv (value_of t2) = jimg cfg t' /\ cv (value_of t') = v.
  Proof using ffmt_number ffmt_chars pf_radix pf_ok. try clear fimg; try clear fbits_r; try clear ffmt; try clear pf.
    intros cfg b v Hb Hd Hfin.
    destruct (C08_json_json cfg b v Hb Hd Hfin) as (t & p & e' & Hrun & Hwf & Hcv & E & Hob & D & _).
    destruct (json_accept_tree _ _ Hob D) as (t2 & p2 & Hrun2 & Hwf2 & Hcv2).
    exists t, p, e', t2, p2. auto 8.
  Qed.

  (* ---------- C09 for the JSON parser ---------- *)
  (* On every document the reference accepts, the calls the parser makes on
     the visitor satisfy the contract monitor - also when the input arrives
     in chunks. *)
  Theorem C09_json_parser : forall b v, all_bytes b = true -> json_decode pf b = RValue v [] ->
    exists evs p, jrun_parse pf None b = Ok (evs, jpnil, p) /\ contract_ok evs = true /\
      forall cs, concat cs = b -> exists p', jrun_chunks pf None cs = Ok (evs, jpnil, p').
  Proof using pf_ok. clear ffmt_number ffmt_chars pf_radix. try clear fimg; try clear fbits_r; try clear ffmt; try clear pf.
    intros b v Hb Hd. destruct (json_accept_tree b v Hb Hd) as (t & p & Hrun & Hwf & _).
    exists (flatten t), p. split; [exact Hrun|]. split; [rewrite contract_flatten; exact Hwf|].
    eapply json_chunks_same. exact Hrun.
  Qed.

  (* the same for every whitespace-separated stream of documents the
     reference accepts: one contract-conforming value per document *)
  Theorem C09_json_parser_stream : forall fuel b vs, all_bytes b = true ->
    json_decode_all pf fuel b = Some vs ->
    exists ts p, jrun_parse pf None b = Ok (flat_map flatten ts, jpnil, p) /\
      Forall (fun t => contract_ok (flatten t) = true) ts /\
      map (fun t => cv (value_of t)) ts = vs /\
      forall cs, concat cs = b -> exists p', jrun_chunks pf None cs = Ok (flat_map flatten ts, jpnil, p').
  Proof using pf_ok. clear ffmt_number ffmt_chars pf_radix. try clear fimg; try clear fbits_r; try clear ffmt; try clear pf.
    intros fuel b vs Hb Hd.
    destruct (Json.SpecProofs.C04_accept_stream pf fuel b vs pf_ok Hd Hb) as (ts & p & Hrun & _ & Hwf & Hvs).
    exists ts, p. split; [exact Hrun|]. split.
    { apply Forall_forall. intros t Ht. rewrite contract_flatten. eapply forallb_In; eassumption. }
    split; [exact Hvs|]. eapply json_chunks_same. exact Hrun.
  Qed.

  (* C08 for streams with JSON as the source and CBOR as the target: the
     re-encoded stream carries the same sequence of values *)
  Theorem C08_json_cbor_stream : forall fuel b vs, all_bytes b = true -> (zlen b <=? MaxInt64) = true ->
    json_decode_all pf fuel b = Some vs ->
    Forall (fun v => cv_lim (2 ^ 64) v = true) vs ->
    exists ts p out, jrun_parse pf None b = Ok (flat_map flatten ts, jpnil, p) /\
      cbor_encode (flat_map flatten ts) = Some out /\
      cbor_decode_all (S (length out)) out = Some vs.
  Proof using pf_ok. clear ffmt_number ffmt_chars pf_radix. try clear fimg; try clear fbits_r; try clear ffmt; try clear pf.
    intros fuel b vs Hb Hsz Hd Hlim.
    destruct (Json.SpecProofs.C04_accept_stream pf fuel b vs pf_ok Hd Hb) as (ts & p & Hrun & _ & Hwf & Hvs).
    assert (Hsm : forallb cbor_small ts = true).
    { apply forallb_forall. intros t Ht. apply (lim_cbor_small t (2 ^ 64)); [lia|eapply forallb_In; eassumption|].
      rewrite Forall_forall in Hlim. apply Hlim. rewrite <- Hvs. apply in_map_iff. eauto. }
    destruct (Cbor.RoundtripProofs.C07_cbor_stream ts Hwf Hsm) as (out & E & D).
    exists ts, p, out. rewrite Hvs in D. auto.
  Qed.

  (* ---------- C17 for the JSON parser ---------- *)
  (* After every document the reference accepts, Parse leaves the parser
     idle: state stack empty, current state "start", literal buffer empty,
     not inside an escape. *)
  Section JsonIdle.
    Import Json.SpecProofs.

    Theorem C17_json_parser_idle : forall b v, all_bytes b = true -> json_decode pf b = RValue v [] ->
      exists evs p, jrun_parse pf None b = Ok (evs, jpnil, p) /\
        jp_cur p = jStart /\ jp_states p = [] /\ jp_lit p = [] /\ jp_inesc p = false /\
        contract_ok evs = true.
    Proof using pf_ok. clear ffmt_number ffmt_chars pf_radix. try clear fimg; try clear fbits_r; try clear ffmt; try clear pf.
      intros b v Hb H. unfold json_decode in H.
      destruct (json_ref pf (S (length b)) b) as [v0 r| | |] eqn:EJ; try discriminate.
      destruct (skip_ws r) as [|x r''] eqn:ER; [|discriminate]. injection H as ->.
      assert (Hcase : (is_cnum v = false \/ stop_next r = true) \/ (is_cnum v = true /\ r = [])).
      { destruct r as [|y r0]; [destruct (is_cnum v); auto|].
        left. right. cbn [skip_ws] in ER. cbn [stop_next].
        destruct (is_ws y) eqn:W; [apply is_ws_is_stop, W|discriminate]. }
      destruct Hcase as [Hend | [Hnum ->]].
      - destruct (sim_all pf pf_ok _ _ _ _ EJ Hb Hend jparser0 (sink0 None) jStart
                    (or_introl (conj eq_refl eq_refl)) (conj eq_refl eq_refl) eq_refl)
          as (t & p' & (Gv & Gw & Gn) & Hbr & Hrun & (Hc & Hst & Hcl)).
        assert (Hrun' : jsteps pf jparser0 (sink0 None) b p' (sapp (sink0 None) (flatten t)) []).
        { destruct r as [|y r0]; [exact Hrun|].
          eapply jsteps_snoc; [exact Hrun|discriminate|rewrite Hc; reflexivity| |apply mu_consume; cbn [length]; lia].
          rewrite jstep_start by exact Hc. unfold step_value. rewrite trim_left_skip_ws, ER. reflexivity. }
        exists (flatten t), p'. rewrite (jrun_parse_steps _ _ _ _ Hrun').
        rewrite with_final_idle by assumption. rewrite s_log_sink0.
        split; [reflexivity|]. split; [exact Hc|]. split; [exact Hst|].
        split; [apply Hcl|]. split; [apply Hcl|].
        rewrite contract_flatten. exact Gw.
      - destruct v as [| | |n| |]; try discriminate.
        destruct (json_ref_num_inv _ _ _ _ _ EJ) as (c & r0 & lit & isint & E0 & C7 & EN & EV).
        destruct (json_number_inv _ _ _ _ EN) as (Er & Hns & Hde & Hshape).
        rewrite app_nil_r in Er.
        assert (Ht : trim_left b = c :: r0).
        { apply trim_left_head; [exact E0|]. unfold is_space. unfold is_dig in C7. lia. }
        destruct (trim_cons_length _ _ _ Ht) as [L0 Hne0].
        pose proof (sv_num_head pf jparser0 (sink0 None) b jStart c r0 Ht C7) as Hst.
        set (pn := jset_isdbl (jpush (jset_lit (jset_isdbl (jset_cur jparser0 jStart) false) []) jNumber) false) in *.
        rewrite Er, (step_number_eof pf pn (sink0 None) lit eq_refl eq_refl Hns) in Hst.
        assert (Hrun : jsteps pf jparser0 (sink0 None) b (jset_lit (jset_isdbl pn (has_de lit)) lit) (sink0 None) []).
        { apply (vstep _ _ _ _ _ _ _ _ _ (or_introl (conj eq_refl eq_refl) : vstate jparser0 jStart) Hst). cbn [length]. lia. }
        destruct (report_ok pf (sink0 None) lit isint n pf_ok EV eq_refl Hshape) as (k & z & Hrep & Hcn & Hok).
        exists (flatten (TVal (SNum k z) false)), (jset_lit (jpop (jset_lit (jset_isdbl pn (has_de lit)) lit)) []).
        rewrite (jrun_parse_steps _ _ _ _ Hrun).
        unfold with_final, jfinalize. subst pn. unfold jparser0. jsimpl.
        change (jNumber =? jNumber) with true. cbv iota. rewrite Hde, Hrep.
        change (jisnil jpnil) with true. cbv iota. change (jStart =? jFailed) with false. cbv iota. jsimpl.
        split; [reflexivity|]. split; [reflexivity|]. split; [reflexivity|]. split; [reflexivity|].
        split; [reflexivity|]. rewrite contract_flatten. exact Hok.
    Qed.
  End JsonIdle.
End JsonCompose.
Print Assumptions json_out_bytes.
Print Assumptions C01_json.
Print Assumptions C08_json_cbor.
Print Assumptions C08_json_ubj.
Print Assumptions C08_cbor_json.
Print Assumptions C08_ubj_json.
Print Assumptions C08_json_json.
Print Assumptions C08_json_reparse.
Print Assumptions C09_json_parser.
Print Assumptions C09_json_parser_stream.
Print Assumptions C08_json_cbor_stream.
Print Assumptions C17_json_parser_idle.

(* ====================================================================== *)
(* Part 6: the hypotheses are satisfiable; the statements on concrete data  *)
(* ====================================================================== *)
Module ComposeExamples.
  Import Json.EncProofs Json.RoundtripProofs.

  (* toy float oracles: bits 0 -> "0", bits 1 -> "1e+06", anything else -> "2.5";
     ParseFloat = length of the literal (capped, so that it is a 64-bit pattern) *)
  Definition toy_ffmt := JsonRTExamples.toy_ffmt.
  Definition toy_pf (l : bytes) : option Z := Some (Z.min (zlen l) 1000).
  Definition toy_fimg := JsonRTExamples.toy_fimg.
  Definition toy_fbits_r (w bits : Z) : Z := Z.min (zlen (radix_patch (toy_ffmt w bits))) 1000.

  Lemma toy_number : forall w bits, w = 32 \/ w = 64 -> in_u w bits = true -> nonfinite w bits = false ->
    exists isint, json_number (toy_ffmt w bits) = NumOk (toy_ffmt w bits) isint [] /\
                  json_num_value toy_pf (toy_ffmt w bits) isint = Some (toy_fimg w bits).
  Proof.
    intros w bits _ _ _. unfold toy_ffmt, toy_fimg, JsonRTExamples.toy_ffmt, JsonRTExamples.toy_fimg.
    destruct (bits =? 0); [|destruct (bits =? 1)]; eexists; split; reflexivity.
  Qed.
  Lemma toy_chars : forall w bits, w = 32 \/ w = 64 -> in_u w bits = true -> nonfinite w bits = false ->
    Forall (fun c => In c fchars) (toy_ffmt w bits).
  Proof.
    intros w bits _ _ _. unfold toy_ffmt, JsonRTExamples.toy_ffmt.
    destruct (bits =? 0); [|destruct (bits =? 1)];
      repeat (apply Forall_cons;
              [unfold fchars; cbn [In]; repeat (first [left; reflexivity | right])|]);
      apply Forall_nil.
  Qed.
  Lemma toy_radix : forall w bits, w = 32 \/ w = 64 -> in_u w bits = true -> nonfinite w bits = false ->
    snd (radix_scan (toy_ffmt w bits) 0) = true ->
    toy_pf (radix_patch (toy_ffmt w bits)) = Some (toy_fbits_r w bits).
  Proof. reflexivity. Qed.
  Lemma toy_pf_ok : forall l z, toy_pf l = Some z -> in_u 64 z = true.
  Proof.
    intros l z H. unfold toy_pf in H. inversion H; subst. pose proof (Cbor.ConformanceProofs.zlen_nonneg l).
    unfold in_u. change (2 ^ 64) with 18446744073709551616. lia.
  Qed.

  Notation toy_img := (json_img toy_ffmt toy_fimg (fun w bits => CF64 (toy_fbits_r w bits))).

  Theorem C01_json_toy : forall cfg t, wf_tree t = true ->
    (ignore_invalid cfg = true \/ tree_finite t = true) ->
    exists e' evs t' p,
      json_run cfg toy_ffmt (jenc0 None) (flatten t) 0 = JRun e' None /\
      all_bytes (w_bytes (je_w e')) = true /\
      jrun_parse toy_pf None (w_bytes (je_w e')) = Ok (evs, jpnil, p) /\
      stream_tree evs = Some t' /\ wf_tree t' = true /\ cv (value_of t') = toy_img cfg t /\
      forall cs, concat cs = w_bytes (je_w e') -> exists p', jrun_chunks toy_pf None cs = Ok (evs, jpnil, p').
  Proof. exact (C01_json toy_ffmt toy_pf toy_fimg toy_fbits_r toy_number toy_chars toy_radix toy_pf_ok). Qed.

  Theorem C08_cbor_json_toy : forall cfg b v, all_bytes b = true -> (zlen b <=? MaxInt64) = true ->
    cbor_decode b = RValue v [] -> (ignore_invalid cfg = true \/ cv_finite v = true) ->
    forall cs, concat cs = b ->
    exists t' e', run_chunks None cs = Ok (flatten t', nilE) /\
      wf_tree t' = true /\ cv (value_of t') = v /\
      json_run cfg toy_ffmt (jenc0 None) (flatten t') 0 = JRun e' None /\
      all_bytes (w_bytes (je_w e')) = true /\
      json_decode toy_pf (w_bytes (je_w e')) = RValue (toy_img cfg t') [].
  Proof. exact (C08_cbor_json toy_ffmt toy_pf toy_fimg toy_fbits_r toy_number toy_chars toy_radix). Qed.

  Theorem C08_json_cbor_toy : forall b v, all_bytes b = true -> (zlen b <=? MaxInt64) = true ->
    json_decode toy_pf b = RValue v [] ->
    exists t' p out, jrun_parse toy_pf None b = Ok (flatten t', jpnil, p) /\
      wf_tree t' = true /\ cv (value_of t') = v /\
      cbor_encode (flatten t') = Some out /\ cbor_decode out = RValue v [] /\
      forall cs, concat cs = b -> exists p', jrun_chunks toy_pf None cs = Ok (flatten t', jpnil, p').
  Proof. exact (C08_json_cbor toy_pf toy_pf_ok). Qed.

  (* a document with nesting, typed containers, a by-reference string, a float and an unsigned
     integer above MaxInt64: UBJSON -> (parser) -> CBOR -> (parser) -> JSON -> (parser) -> UBJSON *)
  Definition sample : tree :=
    TObj (-1) BAny
      [([97], false, TArr 2 BAny [TVal (SNum KInt8 (-5)) false; TVal (SStr [104; 105]) true]);
       ([98], true, TXArr BInt16 [SNum KInt16 300; SNum KInt16 (-2)]);
       ([99], false, TXObj BFloat32 [([100], SNum KFloat32 0)]);
       ([101], false, TVal (SNum KUint64 18446744073709551615) false);
       ([102], false, TXArr BBool [SBool true; SBool false])].

  Definition cfg0 : jcfg := {| escape_html := false; ignore_invalid := false; explicit_radix := true |}.

  Example pipeline :
    wf_tree sample = true /\
    match ubj_encode (flatten sample) with
    | Some b1 =>
        no_huge_zero_typed b1 = true /\ ubj_decode b1 = RValue (ubj_img sample) [] /\
        match urun_chunks None [firstn 5 b1; skipn 5 b1] with
        | Ok (evs1, e1, _) =>
            e1 = unilE /\
            match cbor_encode evs1 with
            | Some b2 =>
                cbor_decode b2 = RValue (ubj_img sample) [] /\
                match run_chunks None [firstn 7 b2; skipn 7 b2] with
                | Ok (evs2, e2) =>
                    e2 = nilE /\
                    match json_run cfg0 toy_ffmt (jenc0 None) evs2 0 with
                    | JRun e' None =>
                        let b3 := w_bytes (je_w e') in
                        match jrun_chunks toy_pf None [firstn 9 b3; skipn 9 b3] with
                        | Ok (evs3, e3, _) =>
                            e3 = jpnil /\
                            match ubj_encode evs3, stream_tree evs2 with
                            | Some b4, Some t2 => ubj_decode b4 = RValue (toy_img cfg0 t2) []
                            | _, _ => False
                            end
                        | _ => False
                        end
                    | _ => False
                    end
                | _ => False
                end
            | None => False
            end
        | _ => False
        end
    | None => False
    end.
  Proof. vm_compute. repeat split. Qed.
End ComposeExamples.
Print Assumptions ComposeExamples.C01_json_toy.
Print Assumptions ComposeExamples.C08_cbor_json_toy.
Print Assumptions ComposeExamples.C08_json_cbor_toy.
