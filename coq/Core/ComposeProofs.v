(* Composition theorems across the three formats:
   C01 (encode, then parse) for UBJSON and JSON,
   C08 (parser connected to encoder) for the nine (source, target) pairs,
   C09 / C17 corollaries for the JSON parser.
   The CBOR instances of C01 / C08 / C09 / C17 are in Cbor/ComposeProofs.v. *)
From Coq Require Import List NArith ZArith Bool Lia.
From Coq Require Import ZifyBool ZifyNat ZifyN.
From SF Require Import Base.Prelude Base.PreludeProofs Base.Utf8 Core.Events Core.EventsProofs
  Core.AdapterProofs.
From SF Require Import Cbor.Spec Cbor.Enc Cbor.Parse.
From SF Require Import Ubjson.Spec Ubjson.Enc Ubjson.Img Ubjson.Parse.
From SF Require Import Json.Spec Json.Enc Json.Parse.
From SF Require Cbor.EncProofs Cbor.RoundtripProofs Cbor.ConformanceProofs Cbor.ChunkTotalProofs
  Cbor.ComposeProofs.
From SF Require Ubjson.EncProofs Ubjson.RoundtripProofs Ubjson.ConformanceProofs Ubjson.ChunkProofs.
From SF Require Json.EncProofs Json.RoundtripProofs Json.SpecProofs Json.ChunkProofs Json.ParseSafety.
Import ListNotations.
Open Scope Z_scope.

Ltac Zify.zify_post_hook ::= Z.div_mod_to_equations.

Notation cbor_small := Cbor.RoundtripProofs.tree_small.
Notation ubj_small := Ubjson.RoundtripProofs.tree_small.
Notation MaxInt64 := Cbor.ConformanceProofs.MaxInt64.
Notation no_huge_zero_typed := Ubjson.ConformanceProofs.no_huge_zero_typed.
Notation tree_finite := Json.EncProofs.tree_finite.
Notation json_img := Json.RoundtripProofs.json_img.

(* ====================================================================== *)
(* Part 0: small list / byte helpers                                        *)
(* ====================================================================== *)

Lemma ab_app a b : all_bytes (a ++ b) = all_bytes a && all_bytes b.
Proof. apply forallb_app. Qed.

Lemma ab_cons x l : all_bytes (x :: l) = is_byte x && all_bytes l.
Proof. reflexivity. Qed.

Lemma ab_flat_map {A} (f : A -> bytes) l :
  (forall x, In x l -> all_bytes (f x) = true) -> all_bytes (flat_map f l) = true.
Proof.
  induction l as [|x l IH]; intro H; [reflexivity|]. cbn [flat_map]. rewrite ab_app.
  rewrite (H x (or_introl eq_refl)), IH; [reflexivity|]. intros y Hy. apply H. right. exact Hy.
Qed.

Lemma forallb_In {A} (f : A -> bool) l x : forallb f l = true -> In x l -> f x = true.
Proof. intros H Hx. eapply forallb_forall in H; eassumption. Qed.

(* ====================================================================== *)
(* Part 1: bounded values                                                   *)
(* ====================================================================== *)

(* every string, every key and every container of the value has fewer than
   [L] bytes / members *)
Fixpoint cv_lim (L : Z) (v : cvalue) : bool :=
  match v with
  | CStr s => zlen s <? L
  | CArr vs => (zlen vs <? L) && forallb (cv_lim L) vs
  | CObj kvs => (zlen kvs <? L) && forallb (fun kv => (zlen (fst kv) <? L) && cv_lim L (snd kv)) kvs
  | _ => true
  end.

Lemma scalar_lim_cbor L s : L <= 2 ^ 64 -> cv_lim L (cv (scalar_value s)) = true ->
  Cbor.RoundtripProofs.scalar_small s = true.
Proof.
  intros HL H. destruct s as [|b|s|k z]; try reflexivity.
  cbn [scalar_value cv cv_lim Cbor.RoundtripProofs.scalar_small] in *. lia.
Qed.

Lemma scalar_lim_ubj L s : L <= 2 ^ 63 -> cv_lim L (cv (scalar_value s)) = true ->
  Ubjson.RoundtripProofs.scalar_small s = true.
Proof.
  intros HL H. destruct s as [|b|s|k z]; try reflexivity.
  cbn [scalar_value cv cv_lim Ubjson.RoundtripProofs.scalar_small] in *.
  unfold Ubjson.RoundtripProofs.int_lim. change (2 ^ 63) with 9223372036854775808 in HL. lia.
Qed.

(* a well-formed tree with a bounded value has small announced lengths: the
   side condition of the CBOR encoder theorems *)
Lemma lim_cbor_small : forall t L, L <= 2 ^ 64 -> wf_tree t = true ->
  cv_lim L (cv (value_of t)) = true -> cbor_small t = true.
Proof.
  induction t as [s r|len bt es IH|len bt ms IH|bt es|bt ms] using tree_ind'; intros L HL Hw Hv.
  - cbn [Cbor.RoundtripProofs.tree_small value_of] in *. eapply scalar_lim_cbor; eassumption.
  - rewrite wf_arr in Hw. apply andb_true_iff in Hw as [Hw Hwf]. apply andb_true_iff in Hw as [Hlen _].
    cbn [value_of cv cv_lim] in Hv. apply andb_true_iff in Hv as [Hn Hv]. rewrite !zlen_map in Hn.
    cbn [Cbor.RoundtripProofs.tree_small]. apply andb_true_iff. split.
    + unfold len_ok in Hlen. lia.
    + apply forallb_forall. intros x Hx. rewrite Forall_forall in IH.
      apply (IH x Hx L HL); [eapply forallb_In; eassumption|].
      rewrite map_map in Hv. rewrite forallb_map in Hv. eapply forallb_In in Hv; [|exact Hx]. exact Hv.
  - rewrite wf_obj in Hw. apply andb_true_iff in Hw as [Hw Hwf]. apply andb_true_iff in Hw as [Hlen _].
    cbn [value_of cv cv_lim] in Hv. apply andb_true_iff in Hv as [Hn Hv]. rewrite !zlen_map in Hn.
    cbn [Cbor.RoundtripProofs.tree_small]. apply andb_true_iff. split.
    + unfold len_ok in Hlen. lia.
    + apply forallb_forall. intros [[k r] e] Hx. rewrite Forall_forall in IH.
      rewrite map_map in Hv. rewrite forallb_map in Hv. eapply forallb_In in Hv; [|exact Hx].
      cbn [fst snd] in Hv |- *. apply andb_true_iff in Hv as [Hk Hv].
      apply andb_true_iff. split; [lia|].
      apply (IH _ Hx L HL); cbn [snd]; [|exact Hv].
      eapply forallb_In in Hwf; [|exact Hx]. apply andb_true_iff in Hwf as [_ Hwf]. exact Hwf.
  - cbn [value_of cv cv_lim] in Hv. apply andb_true_iff in Hv as [Hn Hv]. rewrite !zlen_map in Hn.
    cbn [Cbor.RoundtripProofs.tree_small]. apply andb_true_iff. split; [lia|].
    apply forallb_forall. intros x Hx.
    rewrite map_map in Hv. rewrite forallb_map in Hv. eapply forallb_In in Hv; [|exact Hx].
    eapply scalar_lim_cbor; eassumption.
  - cbn [value_of cv cv_lim] in Hv. apply andb_true_iff in Hv as [Hn Hv]. rewrite !zlen_map in Hn.
    cbn [Cbor.RoundtripProofs.tree_small]. apply andb_true_iff. split; [lia|].
    apply forallb_forall. intros [k x] Hx.
    rewrite map_map in Hv. rewrite forallb_map in Hv. eapply forallb_In in Hv; [|exact Hx].
    cbn [fst snd] in Hv |- *. apply andb_true_iff in Hv as [Hk Hv].
    apply andb_true_iff. split; [lia|]. eapply scalar_lim_cbor; eassumption.
Qed.

(* the same for the side condition of the UBJSON encoder theorems *)
Lemma lim_ubj_small : forall t L, L <= 2 ^ 63 -> wf_tree t = true ->
  cv_lim L (cv (value_of t)) = true -> ubj_small t = true.
Proof.
  assert (E63 : Ubjson.RoundtripProofs.int_lim = 2 ^ 63) by reflexivity.
  induction t as [s r|len bt es IH|len bt ms IH|bt es|bt ms] using tree_ind'; intros L HL Hw Hv.
  - cbn [Ubjson.RoundtripProofs.tree_small value_of] in *. eapply scalar_lim_ubj; eassumption.
  - rewrite Ubjson.RoundtripProofs.small_arr.
    cbn [value_of cv cv_lim] in Hv. apply andb_true_iff in Hv as [Hn Hv]. rewrite !zlen_map in Hn.
    rewrite wf_arr in Hw. apply andb_true_iff in Hw as [_ Hwf].
    apply andb_true_iff. split; [rewrite E63; lia|].
    apply forallb_forall. intros x Hx. rewrite Forall_forall in IH.
    apply (IH x Hx L HL); [eapply forallb_In; eassumption|].
    rewrite map_map in Hv. rewrite forallb_map in Hv. eapply forallb_In in Hv; [|exact Hx]. exact Hv.
  - rewrite Ubjson.RoundtripProofs.small_obj.
    cbn [value_of cv cv_lim] in Hv. apply andb_true_iff in Hv as [Hn Hv]. rewrite !zlen_map in Hn.
    rewrite wf_obj in Hw. apply andb_true_iff in Hw as [_ Hwf].
    apply andb_true_iff. split; [rewrite E63; lia|].
    apply forallb_forall. intros [[k r] e] Hx. rewrite Forall_forall in IH.
    rewrite map_map in Hv. rewrite forallb_map in Hv. eapply forallb_In in Hv; [|exact Hx].
    cbn [fst snd] in Hv |- *. apply andb_true_iff in Hv as [Hk Hv].
    apply andb_true_iff. split; [rewrite E63; lia|].
    apply (IH _ Hx L HL); cbn [snd]; [|exact Hv].
    eapply forallb_In in Hwf; [|exact Hx]. apply andb_true_iff in Hwf as [_ Hwf]. exact Hwf.
  - cbn [value_of cv cv_lim] in Hv. apply andb_true_iff in Hv as [Hn Hv]. rewrite !zlen_map in Hn.
    cbn [Ubjson.RoundtripProofs.tree_small]. apply andb_true_iff. split; [rewrite E63; lia|].
    apply forallb_forall. intros x Hx.
    rewrite map_map in Hv. rewrite forallb_map in Hv. eapply forallb_In in Hv; [|exact Hx].
    eapply scalar_lim_ubj; eassumption.
  - cbn [value_of cv cv_lim] in Hv. apply andb_true_iff in Hv as [Hn Hv]. rewrite !zlen_map in Hn.
    cbn [Ubjson.RoundtripProofs.tree_small]. apply andb_true_iff. split; [rewrite E63; lia|].
    apply forallb_forall. intros [k x] Hx.
    rewrite map_map in Hv. rewrite forallb_map in Hv. eapply forallb_In in Hv; [|exact Hx].
    cbn [fst snd] in Hv |- *. apply andb_true_iff in Hv as [Hk Hv].
    apply andb_true_iff. split; [rewrite E63; lia|]. eapply scalar_lim_ubj; eassumption.
Qed.

(* ---------- induction on canonical values (nested lists) ---------- *)
Section CvInd.
  Variable P : cvalue -> Prop.
  Hypothesis Hnil : P CNil.
  Hypothesis Hbool : forall b, P (CBool b).
  Hypothesis Hstr : forall s, P (CStr s).
  Hypothesis Hnum : forall n, P (CNum n).
  Hypothesis Harr : forall vs, Forall P vs -> P (CArr vs).
  Hypothesis Hobj : forall kvs, Forall (fun kv => P (snd kv)) kvs -> P (CObj kvs).

  Fixpoint cvalue_ind' (v : cvalue) : P v :=
    match v with
    | CNil => Hnil
    | CBool b => Hbool b
    | CStr s => Hstr s
    | CNum n => Hnum n
    | CArr vs =>
        Harr vs ((fix go (l : list cvalue) : Forall P l :=
                    match l with
                    | [] => Forall_nil _
                    | x :: r => Forall_cons _ (cvalue_ind' x) (go r)
                    end) vs)
    | CObj kvs =>
        Hobj kvs ((fix go (l : list (bytes * cvalue)) : Forall (fun kv => P (snd kv)) l :=
                     match l with
                     | [] => Forall_nil _
                     | kv :: r => Forall_cons _ (cvalue_ind' (snd kv)) (go r)
                     end) kvs)
    end.
End CvInd.

Notation cv_size := Cbor.ComposeProofs.cv_size.

(* a value decoded from N bytes (each node costs at least one byte) is bounded *)
Lemma size_lim : forall v N L, (cv_size v <= N)%nat -> Z.of_nat N < L -> cv_lim L v = true.
Proof.
  induction v as [|b|s|n|vs IH|kvs IH] using cvalue_ind'; intros N L Hsz HL; try reflexivity.
  - cbn [cv_size cv_lim] in *. unfold zlen. lia.
  - cbn [cv_size cv_lim] in *.
    pose proof (Cbor.ComposeProofs.list_sum_len cv_size vs Cbor.ComposeProofs.cv_size_pos) as Hl.
    apply andb_true_iff. split; [unfold zlen; lia|].
    apply forallb_forall. intros x Hx. rewrite Forall_forall in IH.
    apply (IH x Hx N L); [|exact HL].
    pose proof (Cbor.ComposeProofs.list_sum_in cv_size vs x Hx). lia.
  - cbn [cv_size cv_lim] in *.
    set (g := fun kv : bytes * cvalue => (S (length (fst kv)) + cv_size (snd kv))%nat) in *.
    pose proof (Cbor.ComposeProofs.list_sum_len g kvs ltac:(intro; unfold g; lia)) as Hl.
    apply andb_true_iff. split; [unfold zlen; lia|].
    apply forallb_forall. intros [k x] Hx. rewrite Forall_forall in IH.
    pose proof (Cbor.ComposeProofs.list_sum_in g kvs _ Hx) as Hin. unfold g in Hin at 1.
    clearbody g. cbn [fst snd] in *. apply andb_true_iff. split; [unfold zlen; lia|].
    apply (IH _ Hx N L); cbn [snd]; [lia|exact HL].
Qed.

Lemma cbor_decode_lim b v rest : cbor_decode b = RValue v rest -> (zlen b <=? MaxInt64) = true ->
  cv_lim (2 ^ 63) v = true.
Proof.
  intros Hd Hsz. unfold cbor_decode in Hd. apply Cbor.ComposeProofs.ref_size in Hd.
  apply (size_lim v (length b)); [lia|].
  unfold Cbor.ConformanceProofs.MaxInt64, zlen in Hsz. lia.
Qed.

(* ====================================================================== *)
(* Part 2: the UBJSON encoder writes bytes                                  *)
(* ====================================================================== *)
Section UbjBytes.
  Import Ubjson.EncProofs.

  Lemma wrapu8_byte i : is_byte (wrapu 8 i) = true.
  Proof.
    pose proof (Ubjson.RoundtripProofs.wrapu_range 8 i ltac:(lia)) as H.
    change (2 ^ 8) with 256 in H. unfold is_byte. lia.
  Qed.

  Lemma optm_bytes mk m : is_byte m = true -> all_bytes (optm mk m) = true.
  Proof. intro H. destruct mk; cbn [optm all_bytes forallb]; [rewrite H|]; reflexivity. Qed.

  Lemma int8_b_bytes i mk : all_bytes (int8_b i mk) = true.
  Proof.
    unfold int8_b. rewrite ab_app, optm_bytes by reflexivity.
    cbn [all_bytes forallb andb]. rewrite wrapu8_byte. reflexivity.
  Qed.

  Lemma uint8_b_bytes u mk : is_byte u = true -> all_bytes (uint8_b u mk) = true.
  Proof.
    intro H. unfold uint8_b. rewrite ab_app, optm_bytes by reflexivity.
    cbn [all_bytes forallb andb]. rewrite H. reflexivity.
  Qed.

  Lemma int16_b_bytes i mk : all_bytes (int16_b i mk) = true.
  Proof. unfold int16_b. rewrite ab_app, optm_bytes, be_enc_bytes by reflexivity. reflexivity. Qed.
  Lemma int32_b_bytes i mk : all_bytes (int32_b i mk) = true.
  Proof. unfold int32_b. rewrite ab_app, optm_bytes, be_enc_bytes by reflexivity. reflexivity. Qed.
  Lemma int64_b_bytes i mk : all_bytes (int64_b i mk) = true.
  Proof. unfold int64_b. rewrite ab_app, optm_bytes, be_enc_bytes by reflexivity. reflexivity. Qed.
  Lemma float32_b_bytes i mk : all_bytes (float32_b i mk) = true.
  Proof. unfold float32_b. rewrite ab_app, optm_bytes, be_enc_bytes by reflexivity. reflexivity. Qed.
  Lemma float64_b_bytes i mk : all_bytes (float64_b i mk) = true.
  Proof. unfold float64_b. rewrite ab_app, optm_bytes, be_enc_bytes by reflexivity. reflexivity. Qed.

  Lemma onint_b_bytes i mk : all_bytes (onint_b i mk) = true.
  Proof.
    unfold onint_b.
    destruct ((-128 <=? i) && (i <=? 127)); [apply int8_b_bytes|].
    destruct ((0 <=? i) && (i <=? 255)) eqn:E; [apply uint8_b_bytes; unfold is_byte; lia|].
    destruct ((-32768 <=? i) && (i <=? 32767)); [apply int16_b_bytes|].
    destruct ((-2147483648 <=? i) && (i <=? 2147483647)); [apply int32_b_bytes|apply int64_b_bytes].
  Qed.

  Lemma len_b_bytes l : all_bytes (len_b l) = true.
  Proof. apply onint_b_bytes. Qed.

  Lemma digits_bytes u : 0 <= u -> all_bytes (digits u) = true.
  Proof.
    intro H. pose proof (Json.EncProofs.digits_digit u H) as D.
    apply forallb_forall. intros x Hx. rewrite Forall_forall in D. specialize (D x Hx).
    unfold Json.EncProofs.is_digit in D. unfold is_byte. lia.
  Qed.

  Lemma highprec_b_bytes u mk : 0 <= u -> all_bytes (highprec_b u mk) = true.
  Proof.
    intro H. unfold highprec_b.
    rewrite !ab_app, optm_bytes, len_b_bytes, digits_bytes by (reflexivity || exact H). reflexivity.
  Qed.

  Lemma uint64_b_bytes u t mk : 0 <= u -> all_bytes (uint64_b u t mk) = true.
  Proof.
    intro H. unfold uint64_b.
    destruct (t =? mi); [apply int8_b_bytes|].
    destruct (t =? mU); [apply uint8_b_bytes, wrapu8_byte|].
    destruct (t =? mI); [apply int16_b_bytes|].
    destruct (t =? ml); [apply int32_b_bytes|].
    destruct (t =? mL); [apply int64_b_bytes|apply highprec_b_bytes; exact H].
  Qed.

  Lemma string_b_bytes s mk : all_bytes s = true -> all_bytes (string_b s mk) = true.
  Proof.
    intro H. unfold string_b. rewrite !ab_app, optm_bytes, len_b_bytes, H by reflexivity. reflexivity.
  Qed.

  Lemma scalar_b_bytes s : scalar_ok s = true -> all_bytes (scalar_b s) = true.
  Proof.
    intro H. destruct s as [|b|s|k z]; cbn [scalar_b scalar_ok] in *.
    - reflexivity.
    - destruct b; reflexivity.
    - apply string_b_bytes. exact H.
    - destruct k; cbn [nkind_ok] in H.
      + apply int8_b_bytes.
      + unfold onint16_b. destruct (_ && _); [apply int8_b_bytes|apply int16_b_bytes].
      + unfold onint32_b, onint16_b. destruct (_ && _); [destruct (_ && _); [apply int8_b_bytes|apply int16_b_bytes]|apply int32_b_bytes].
      + unfold onint64_b, onint32_b, onint16_b.
        destruct (_ && _); [destruct (_ && _); [destruct (_ && _); [apply int8_b_bytes|apply int16_b_bytes]|apply int32_b_bytes]|apply int64_b_bytes].
      + apply onint_b_bytes.
      + rewrite !ab_cons. change (is_byte mC) with true. unfold in_u in H. change (2 ^ 8) with 256 in H.
        cbn [all_bytes forallb]. unfold is_byte. lia.
      + apply uint8_b_bytes. unfold in_u in H. change (2 ^ 8) with 256 in H. unfold is_byte. lia.
      + apply uint64_b_bytes. unfold in_u in H. lia.
      + apply uint64_b_bytes. unfold in_u in H. lia.
      + apply uint64_b_bytes. unfold in_u in H. lia.
      + apply uint64_b_bytes. unfold in_u in H. lia.
      + apply float32_b_bytes.
      + apply float64_b_bytes.
  Qed.

  Lemma xelem_snum_nonneg bt s : xelem_ok bt s = true ->
    match bt with BUint16 | BUint32 | BUint64 | BUint => 0 <= snum s
                | BByte | BUint8 => is_byte (snum s) = true
                | BString => all_bytes (sstr s) = true
                | _ => True end.
  Proof.
    intro H. unfold xelem_ok in H.
    destruct bt; try exact I; apply andb_true_iff in H as [Hm Ho];
      destruct s as [|b|s|k z]; try discriminate Hm;
      try (destruct k; try discriminate Hm; cbn [scalar_ok nkind_ok snum] in *; unfold in_u, is_byte in *;
           try change (2 ^ 8) with 256 in Ho; lia).
    cbn [scalar_ok sstr] in *. exact Ho.
  Qed.

  Lemma elem_b_bytes bt t s : xelem_ok bt s = true -> all_bytes (elem_b bt t s) = true.
  Proof.
    intro H. pose proof (xelem_snum_nonneg bt s H) as Hx.
    destruct bt; cbn [elem_b]; try reflexivity;
      try apply int8_b_bytes; try apply int16_b_bytes; try apply int32_b_bytes; try apply int64_b_bytes;
      try apply float32_b_bytes; try apply float64_b_bytes;
      try (apply uint8_b_bytes; exact Hx); try (apply uint64_b_bytes; exact Hx).
    apply string_b_bytes. exact Hx.
  Qed.

  Lemma max_num_type_byte a b : is_byte (max_num_type a b) = true.
  Proof.
    unfold max_num_type.
    repeat match goal with |- context [if ?c then _ else _] => destruct c end; reflexivity.
  Qed.

  Lemma uint_min_type_byte l : is_byte (uint_min_type l) = true.
  Proof.
    unfold uint_min_type. assert (H : is_byte mi = true) by reflexivity. revert H. generalize mi.
    induction l as [|s l IH]; intros a Ha; cbn [fold_left]; [exact Ha|]. apply IH, max_num_type_byte.
  Qed.

  Lemma typed_marker_byte bt vals : is_byte (typed_marker bt vals) = true.
  Proof. destruct bt; cbn [typed_marker]; try reflexivity; apply uint_min_type_byte. Qed.

  Lemma count_b_bytes l : all_bytes (count_b l) = true.
  Proof. unfold count_b. destruct (l <=? 0); [reflexivity|]. rewrite ab_cons, len_b_bytes. reflexivity. Qed.

  Lemma close_b_bytes l m : is_byte m = true -> all_bytes (close_b l m) = true.
  Proof. intro H. unfold close_b. destruct (l <=? 0); [|reflexivity]. cbn [all_bytes forallb]. rewrite H. reflexivity. Qed.

  Lemma bool_b_bytes s : all_bytes (bool_b s) = true.
  Proof. unfold bool_b. destruct (sbool s); reflexivity. Qed.

  Lemma xarr_b_bytes bt es : forallb (xelem_ok bt) es = true -> all_bytes (xarr_b bt es) = true.
  Proof.
    intro H. unfold xarr_b. destruct (is_bool_bt bt).
    - rewrite ab_app, ab_cons, count_b_bytes, ab_app, close_b_bytes by reflexivity.
      rewrite ab_flat_map by (intros; apply bool_b_bytes). reflexivity.
    - destruct (zlen es <=? 0); [reflexivity|].
      rewrite !ab_app, len_b_bytes. rewrite ab_flat_map.
      + rewrite !ab_cons, typed_marker_byte. reflexivity.
      + intros x Hx. apply elem_b_bytes. eapply forallb_In; eassumption.
  Qed.

  Lemma xobj_b_bytes bt ms : forallb (fun m => all_bytes (fst m) && xelem_ok bt (snd m)) ms = true ->
    all_bytes (xobj_b bt ms) = true.
  Proof.
    intro H. unfold xobj_b. destruct (zlen ms <=? 0); [reflexivity|]. destruct (is_bool_bt bt).
    - rewrite ab_app, ab_cons, count_b_bytes, ab_app, close_b_bytes by reflexivity.
      rewrite ab_flat_map; [reflexivity|]. intros m Hm. eapply forallb_In in H; [|exact Hm].
      apply andb_true_iff in H as [Hk _]. rewrite ab_app, string_b_bytes, bool_b_bytes by exact Hk. reflexivity.
    - rewrite !ab_app, len_b_bytes. rewrite ab_flat_map.
      + rewrite !ab_cons, typed_marker_byte. reflexivity.
      + intros m Hm. eapply forallb_In in H; [|exact Hm]. apply andb_true_iff in H as [Hk Hx].
        rewrite ab_app, string_b_bytes, elem_b_bytes by assumption. reflexivity.
  Qed.

  Theorem tbytes_bytes : forall t, wf_tree t = true -> all_bytes (tbytes t) = true.
  Proof.
    induction t as [s r|len bt es IH|len bt ms IH|bt es|bt ms] using tree_ind'; intro Hw.
    - cbn [wf_tree tbytes] in *. apply scalar_b_bytes. exact Hw.
    - rewrite wf_arr in Hw. apply andb_true_iff in Hw as [_ Hw]. cbn [tbytes].
      rewrite ab_app, ab_cons, count_b_bytes, ab_app, close_b_bytes by reflexivity.
      rewrite ab_flat_map; [reflexivity|]. intros x Hx. rewrite Forall_forall in IH.
      apply IH; [exact Hx|eapply forallb_In; eassumption].
    - rewrite wf_obj in Hw. apply andb_true_iff in Hw as [_ Hw]. cbn [tbytes].
      rewrite ab_app, ab_cons, count_b_bytes, ab_app, close_b_bytes by reflexivity.
      rewrite ab_flat_map; [reflexivity|]. intros m Hm. rewrite Forall_forall in IH.
      eapply forallb_In in Hw; [|exact Hm]. apply andb_true_iff in Hw as [Hk Hwm].
      rewrite ab_app, string_b_bytes, (IH m Hm Hwm) by exact Hk. reflexivity.
    - cbn [wf_tree tbytes] in *. apply xarr_b_bytes. exact Hw.
    - cbn [wf_tree tbytes] in *. apply andb_true_iff in Hw as [_ Hw]. apply xobj_b_bytes. exact Hw.
  Qed.
End UbjBytes.

Theorem ubj_encode_tree_bytes : forall t bs, wf_tree t = true ->
  ubj_encode (flatten t) = Some bs -> all_bytes bs = true.
Proof.
  intros t bs Hw H. rewrite Ubjson.EncProofs.ubj_encode_tbytes in H. inversion H; subst bs.
  apply tbytes_bytes. exact Hw.
Qed.
Print Assumptions ubj_encode_tree_bytes.

(* ====================================================================== *)
(* Part 3: C01 for UBJSON                                                   *)
(* ====================================================================== *)

(* Encode a well-formed tree, parse the output: the parser accepts and
   delivers a well-formed stream whose value is the UBJSON image of the tree
   (ubj_img: unsigned integers above MaxInt64 travel as high-precision
   numbers, i.e. come back as strings of digits; everything else is kept).
   Every chunking of the output that returns gives the same events and
   verdict.
   Side conditions on the output: shorter than 2^63 bytes (true of every Go
   slice) and the resource guard of C06 (no_huge_zero_typed).  The guard
   cannot be derived from the tree: it over-approximates by looking for the
   bytes "$Z#", "$T#", "$F#" anywhere, also inside string and number
   payloads - see [guard_not_derivable] below. *)
Theorem C01_ubj : forall t, wf_tree t = true -> ubj_small t = true ->
  exists bs, ubj_encode (flatten t) = Some bs /\ all_bytes bs = true /\
    ((zlen bs <=? MaxInt64) = true -> no_huge_zero_typed bs = true ->
     exists evs t' p, urun_parse None bs = Ok (evs, unilE, p) /\ stream_tree evs = Some t' /\
       wf_tree t' = true /\ cv (value_of t') = ubj_img t /\
       forall cs r, concat cs = bs -> urun_chunks None cs = Ok r -> fst r = (evs, unilE)).
Proof.
  intros t Hw Hs. destruct (Ubjson.RoundtripProofs.C07_ubj t Hw Hs) as (bs & E & D).
  pose proof (ubj_encode_tree_bytes t bs Hw E) as Hb.
  exists bs. split; [exact E|]. split; [exact Hb|]. intros Hsz Hz.
  destruct (Ubjson.ConformanceProofs.C06_accept bs _ Hb Hsz Hz D) as (evs & t' & p & Hrun & Hst & Hwf & Hcv).
  exists evs, t', p. repeat (split; [assumption|]).
  intros cs r Hc Hr. rewrite <- Hc in Hrun.
  pose proof (Ubjson.ChunkProofs.C02_ubj_entry_strong None cs _ _ Hrun Hr) as Hfst.
  cbn [fst] in Hfst. symmetry. exact Hfst.
Qed.
Print Assumptions C01_ubj.

Corollary C01_ubj_parse : forall t bs, wf_tree t = true -> ubj_small t = true ->
  ubj_encode (flatten t) = Some bs -> (zlen bs <=? MaxInt64) = true -> no_huge_zero_typed bs = true ->
  exists evs t' p, urun_parse None bs = Ok (evs, unilE, p) /\ stream_tree evs = Some t' /\
    wf_tree t' = true /\ cv (value_of t') = ubj_img t.
Proof.
  intros t bs Hw Hs E Hsz Hz. destruct (C01_ubj t Hw Hs) as (bs' & E' & _ & H).
  rewrite E in E'. inversion E'; subst bs'.
  destruct (H Hsz Hz) as (evs & t' & p & H1 & H2 & H3 & H4 & _). eauto 8.
Qed.
Print Assumptions C01_ubj_parse.

(* The guard is a premise on the output, not a consequence of wf_tree: a
   12-byte string whose bytes look like the header of a typed array of 2^63-1
   nils.  The guard says no; the parser (which knows it is inside a string)
   accepts, as it should.  So this is incompleteness of the guard of C06, not
   a defect of the parser. *)
Example guard_not_derivable :
  let t := TVal (SStr [36; 90; 35; 76; 127; 255; 255; 255; 255; 255; 255; 255]) true in
  wf_tree t = true /\ ubj_small t = true /\
  match ubj_encode (flatten t) with
  | Some bs => no_huge_zero_typed bs = false /\
               exists p, urun_parse None bs = Ok (flatten t, unilE, p)
  | None => False
  end.
Proof. cbv zeta. split; [reflexivity|]. split; [reflexivity|]. vm_compute. split; [reflexivity|]. eexists. reflexivity. Qed.
