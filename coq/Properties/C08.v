(* C08 - streaming transcoding between any two formats preserves the value.
   Statements only; proofs are in Cbor/ComposeProofs.v (the pair CBOR -> CBOR). *)
From SF Require Import Base.Prelude Core.Events Cbor.Spec Cbor.Enc Cbor.Parse Cbor.ConformanceProofs Cbor.ComposeProofs.

(* CBOR -> CBOR.  For every source document the RFC reference decoder accepts (including
   shapes only foreign encoders produce: non-minimal integers, byte strings, indefinite
   lengths), in any chunking, the parser's events fed to the encoder model give a target
   document that the reference decoder reads as the same value. *)
Theorem C08_cbor_cbor : forall b v, all_bytes b = true -> (zlen b <=? MaxInt64) = true -> cbor_decode b = RValue v [] ->
  forall cs, concat cs = b ->
  exists evs out, run_chunks None cs = Ok (evs, nilE) /\ cbor_encode evs = Some out /\ cbor_decode out = RValue v [].
Proof. exact ComposeProofs.C08_cbor_cbor. Qed.
Print Assumptions C08_cbor_cbor.

(* Concatenated streams of documents: whatever the parser accepts is re-encoded to a
   stream with the same sequence of values. *)
Theorem C08_cbor_cbor_stream : forall b evs, all_bytes b = true -> (zlen b <=? MaxInt64) = true ->
  run_parse None b = Ok (evs, nilE) ->
  exists out vs, cbor_encode evs = Some out /\ cbor_decode_all (S (length b)) b = Some vs /\ cbor_decode_all (S (length out)) out = Some vs.
Proof. exact ComposeProofs.C08_cbor_cbor_stream. Qed.
Print Assumptions C08_cbor_cbor_stream.
