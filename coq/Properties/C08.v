(* C08 - streaming transcoding between any two formats preserves the value.
   Statements only; proofs are in Cbor/ComposeProofs.v (the pair CBOR -> CBOR). *)
From SF Require Import Base.Prelude Core.Events Cbor.Spec Cbor.Enc Cbor.Parse Cbor.ConformanceProofs Cbor.ComposeProofs.

(* CBOR -> CBOR.  For every source document the RFC reference decoder accepts (including
   shapes only foreign encoders produce: non-minimal integers, byte strings, indefinite
   lengths), in any chunking, the parser's events fed to the encoder model give a target
   document that the reference decoder reads as the same value. *)
Theorem C08_cbor_cbor : forall b v, all_bytes b = true -> (zlen b <=? MaxInt64) = true -> cbor_decode b = RValue v [] ->
  forall cs, concat cs = b ->
  exists evs out, run_chunks None cs = Ok (evs, nilE) /\ cbor_encode evs = Some out /\ cbor_decode out = RValue v [].
Proof. exact SF.Cbor.ComposeProofs.C08_cbor_cbor. Qed.
Print Assumptions C08_cbor_cbor.

(* Concatenated streams of documents: whatever the parser accepts is re-encoded to a
   stream with the same sequence of values. *)
Theorem C08_cbor_cbor_stream : forall b evs, all_bytes b = true -> (zlen b <=? MaxInt64) = true ->
  run_parse None b = Ok (evs, nilE) ->
  exists out vs, cbor_encode evs = Some out /\ cbor_decode_all (S (length b)) b = Some vs /\ cbor_decode_all (S (length out)) out = Some vs.
Proof. exact SF.Cbor.ComposeProofs.C08_cbor_cbor_stream. Qed.
Print Assumptions C08_cbor_cbor_stream.

(* The other eight pairs (proofs: Core/ComposeProofs.v, composing C04/C05/C06 - reference
   decoder => parser -, C02 - chunking - and C07 - encoder => reference decoder).  Each says:
   for every source document the SOURCE format's reference decoder accepts with value v, the
   source parser model accepts it (Parse; and every chunking, for UBJSON every chunking that
   returns) with the events of a well-formed tree t' of value v, and the target encoder model
   turns exactly these events into a document that the TARGET format's reference decoder reads
   as the target image of t' (CBOR: v itself; UBJSON: ubj_img t' - integers above MaxInt64 as
   decimal strings, finding F1; JSON: json_img cfg t' - sanitized strings, floats through
   strconv).  Side conditions: source shorter than 2^63 bytes; UBJSON sources satisfy the
   resource guard of C06 (finding F2); JSON targets need finite floats or ignoreInvalidFloat. *)
From SF Require Ubjson.Spec Ubjson.Enc Ubjson.Img Ubjson.Parse Ubjson.ConformanceProofs Core.ComposeProofs.
From SF Require Json.Spec Json.Enc Json.Parse Json.EncProofs Json.RoundtripProofs.
Module U := SF.Ubjson.Parse.
Module CC := SF.Core.ComposeProofs.
Import SF.Ubjson.Spec SF.Ubjson.Enc SF.Ubjson.Img SF.Ubjson.ConformanceProofs.

Theorem C08_cbor_ubj : forall b v, all_bytes b = true -> (zlen b <=? MaxInt64) = true ->
  cbor_decode b = RValue v [] ->
  forall cs, concat cs = b ->
  exists t' out, run_chunks None cs = Ok (flatten t', nilE) /\
    wf_tree t' = true /\ cv (value_of t') = v /\
    ubj_encode (flatten t') = Some out /\ ubj_decode out = RValue (ubj_img t') [].
Proof. exact CC.C08_cbor_ubj. Qed.
Print Assumptions C08_cbor_ubj.

Theorem C08_ubj_cbor : forall b v, all_bytes b = true -> (zlen b <=? MaxInt64) = true ->
  no_huge_zero_typed b = true -> ubj_decode b = RValue v [] ->
  exists t' p out, U.urun_parse None b = Ok (flatten t', U.unilE, p) /\
    wf_tree t' = true /\ cv (value_of t') = v /\
    cbor_encode (flatten t') = Some out /\ cbor_decode out = RValue v [] /\
    forall cs r, concat cs = b -> U.urun_chunks None cs = Ok r -> fst r = (flatten t', U.unilE).
Proof. exact CC.C08_ubj_cbor. Qed.
Print Assumptions C08_ubj_cbor.

Theorem C08_ubj_ubj : forall b v, all_bytes b = true -> (zlen b <=? MaxInt64) = true ->
  no_huge_zero_typed b = true -> ubj_decode b = RValue v [] ->
  exists t' p out, U.urun_parse None b = Ok (flatten t', U.unilE, p) /\
    wf_tree t' = true /\ cv (value_of t') = v /\
    ubj_encode (flatten t') = Some out /\ ubj_decode out = RValue (ubj_img t') [] /\
    forall cs r, concat cs = b -> U.urun_chunks None cs = Ok r -> fst r = (flatten t', U.unilE).
Proof. exact CC.C08_ubj_ubj. Qed.
Print Assumptions C08_ubj_ubj.

Section C08Json.
  Import SF.Json.Spec SF.Json.Enc SF.Json.Parse.
  Variable ffmt : Z -> Z -> bytes.
  Variable pf : bytes -> option Z.
  Variable fimg : Z -> Z -> cnum.
  Variable fbits_r : Z -> Z -> Z.
  Hypothesis ffmt_number : forall w bits, w = 32 \/ w = 64 -> in_u w bits = true -> nonfinite w bits = false ->
     exists isint, json_number (ffmt w bits) = NumOk (ffmt w bits) isint [] /\
                   json_num_value pf (ffmt w bits) isint = Some (fimg w bits).
  Hypothesis ffmt_chars : forall w bits, w = 32 \/ w = 64 -> in_u w bits = true -> nonfinite w bits = false ->
     Forall (fun c => In c SF.Json.EncProofs.fchars) (ffmt w bits).
  Hypothesis pf_radix : forall w bits, w = 32 \/ w = 64 -> in_u w bits = true -> nonfinite w bits = false ->
     snd (radix_scan (ffmt w bits) 0) = true ->
     pf (SF.Json.RoundtripProofs.radix_patch (ffmt w bits)) = Some (fbits_r w bits).
  Hypothesis pf_ok : forall l z, pf l = Some z -> in_u 64 z = true.
  Notation jimg := (SF.Json.RoundtripProofs.json_img ffmt fimg (fun w bits => CF64 (fbits_r w bits))).

  Theorem C08_json_cbor : forall b v, all_bytes b = true -> (zlen b <=? MaxInt64) = true ->
    json_decode pf b = RValue v [] ->
    exists t' p out, jrun_parse pf None b = Ok (flatten t', jpnil, p) /\
      wf_tree t' = true /\ cv (value_of t') = v /\
      cbor_encode (flatten t') = Some out /\ cbor_decode out = RValue v [] /\
      forall cs, concat cs = b -> exists p', jrun_chunks pf None cs = Ok (flatten t', jpnil, p').
  Proof. exact (CC.C08_json_cbor pf pf_ok). Qed.

  Theorem C08_json_ubj : forall b v, all_bytes b = true -> (zlen b <=? MaxInt64) = true ->
    json_decode pf b = RValue v [] ->
    exists t' p out, jrun_parse pf None b = Ok (flatten t', jpnil, p) /\
      wf_tree t' = true /\ cv (value_of t') = v /\
      ubj_encode (flatten t') = Some out /\ ubj_decode out = RValue (ubj_img t') [] /\
      forall cs, concat cs = b -> exists p', jrun_chunks pf None cs = Ok (flatten t', jpnil, p').
  Proof. exact (CC.C08_json_ubj pf pf_ok). Qed.

  Theorem C08_cbor_json : forall cfg b v, all_bytes b = true -> (zlen b <=? MaxInt64) = true ->
    cbor_decode b = RValue v [] -> (ignore_invalid cfg = true \/ CC.cv_finite v = true) ->
    forall cs, concat cs = b ->
    exists t' e', run_chunks None cs = Ok (flatten t', nilE) /\
      wf_tree t' = true /\ cv (value_of t') = v /\
      json_run cfg ffmt (jenc0 None) (flatten t') 0 = JRun e' None /\
      all_bytes (w_bytes (je_w e')) = true /\
      json_decode pf (w_bytes (je_w e')) = RValue (jimg cfg t') [].
  Proof. exact (CC.C08_cbor_json ffmt pf fimg fbits_r ffmt_number ffmt_chars pf_radix). Qed.

  Theorem C08_ubj_json : forall cfg b v, all_bytes b = true -> (zlen b <=? MaxInt64) = true ->
    no_huge_zero_typed b = true -> ubj_decode b = RValue v [] ->
    (ignore_invalid cfg = true \/ CC.cv_finite v = true) ->
    exists t' p e', U.urun_parse None b = Ok (flatten t', U.unilE, p) /\
      wf_tree t' = true /\ cv (value_of t') = v /\
      json_run cfg ffmt (jenc0 None) (flatten t') 0 = JRun e' None /\
      all_bytes (w_bytes (je_w e')) = true /\
      json_decode pf (w_bytes (je_w e')) = RValue (jimg cfg t') [] /\
      forall cs r, concat cs = b -> U.urun_chunks None cs = Ok r -> fst r = (flatten t', U.unilE).
  Proof. exact (CC.C08_ubj_json ffmt pf fimg fbits_r ffmt_number ffmt_chars pf_radix). Qed.

  Theorem C08_json_json : forall cfg b v, all_bytes b = true ->
    json_decode pf b = RValue v [] -> (ignore_invalid cfg = true \/ CC.cv_finite v = true) ->
    exists t' p e', jrun_parse pf None b = Ok (flatten t', jpnil, p) /\
      wf_tree t' = true /\ cv (value_of t') = v /\
      json_run cfg ffmt (jenc0 None) (flatten t') 0 = JRun e' None /\
      all_bytes (w_bytes (je_w e')) = true /\
      json_decode pf (w_bytes (je_w e')) = RValue (jimg cfg t') [] /\
      forall cs, concat cs = b -> exists p', jrun_chunks pf None cs = Ok (flatten t', jpnil, p').
  Proof. exact (CC.C08_json_json ffmt pf fimg fbits_r ffmt_number ffmt_chars pf_radix pf_ok). Qed.
End C08Json.
Print Assumptions C08_json_cbor.
Print Assumptions C08_json_ubj.
Print Assumptions C08_cbor_json.
Print Assumptions C08_ubj_json.
Print Assumptions C08_json_json.

(* non-vacuity: the strconv hypotheses are jointly satisfiable (toy oracles of
   Core/ComposeProofs.v, ComposeExamples), and a concrete pipeline UBJSON -> CBOR -> JSON ->
   UBJSON with chunked parsing on a document with typed containers, a float and 2^64-1 computes
   as the theorems say (ComposeExamples.pipeline, by vm_compute) *)
Theorem C08_json_cbor_instance : forall b v, all_bytes b = true -> (zlen b <=? MaxInt64) = true ->
  SF.Json.Spec.json_decode CC.ComposeExamples.toy_pf b = RValue v [] ->
  exists t' p out, SF.Json.Parse.jrun_parse CC.ComposeExamples.toy_pf None b = Ok (flatten t', SF.Json.Parse.jpnil, p) /\
    wf_tree t' = true /\ cv (value_of t') = v /\
    cbor_encode (flatten t') = Some out /\ cbor_decode out = RValue v [] /\
    forall cs, concat cs = b -> exists p', SF.Json.Parse.jrun_chunks CC.ComposeExamples.toy_pf None cs = Ok (flatten t', SF.Json.Parse.jpnil, p').
Proof. exact CC.ComposeExamples.C08_json_cbor_toy. Qed.
Print Assumptions C08_json_cbor_instance.
