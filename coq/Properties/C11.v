(* C11 - Fold then Unfold reproduces any supported Go value, directly or via a codec.
   Statements only; proofs are in Gotype/FoldProofs.v (refusal of unsupported types). *)
From SF Require Import Base.Prelude Core.Events Gotype.Types Gotype.Fold Gotype.FoldSpec Gotype.FoldProofs.

(* A type that cannot be handled is refused with an error when folding - before a single
   event is emitted when the unsupported type is statically visible - never by a crash
   (the model has no crash outcome for Fold; the Go side is checked by guarded runs). *)
Theorem C11_fold_refuses_unsupported : forall F t v,
  spec_supported F t = false -> (tsize t < F)%nat -> exists e, fold_value t v = ([], Some e).
Proof. exact fold_refuses_unsupported. Qed.
Print Assumptions C11_fold_refuses_unsupported.

(* The specification's notion of a supported type is exactly what the folder compiles. *)
Theorem C11_supported_iff_compiles : forall t, spec_supported (S (tsize t)) t = true <-> cc_type t = None.
Proof. exact supported_compiles. Qed.
Print Assumptions C11_supported_iff_compiles.
