(* C11 - Fold then Unfold reproduces any supported Go value, directly or via a codec.
   Statements only; proofs are in Gotype/FoldProofs.v (refusal of unsupported types). *)
From SF Require Import Base.Prelude Core.Events Gotype.Types Gotype.Fold Gotype.FoldSpec Gotype.FoldProofs.

(* A type that cannot be handled is refused with an error when folding - before a single
   event is emitted when the unsupported type is statically visible - never by a crash
   (the model has no crash outcome for Fold; the Go side is checked by guarded runs). *)
Theorem C11_fold_refuses_unsupported : forall F t v,
  spec_supported F t = false -> (tsize t < F)%nat -> exists e, fold_value t v = ([], Some e).
Proof. exact fold_refuses_unsupported. Qed.
Print Assumptions C11_fold_refuses_unsupported.

(* The specification's notion of a supported type is exactly what the folder compiles. *)
Theorem C11_supported_iff_compiles : forall t, spec_supported (S (tsize t)) t = true <-> cc_type t = None.
Proof. exact supported_compiles. Qed.
Print Assumptions C11_supported_iff_compiles.

(* The identity, direct route (Fold's events fed to the unfolder of a zero target of the same
   type).  PARTIAL: proved for (a) every type built from bool, string, the numeric kinds,
   pointers, slices and string-keyed maps of these, and named versions of them ([simple]), and
   (b) every struct whose fields have such types, with any combination of field names, "-",
   omitempty and unexported fields, but without inline/squash ([flat_fields]).  For every
   well-typed value ([wt]: numbers in range, map listing sorted) of such a type that Fold
   accepts, unfolding completes with a value deeply equal to the original under the documented
   view (omitted fields zero, nil = empty, pointer to nil = nil).
   MISSING: nested structs, inline/squash, interface{}-typed fields and elements - decided by
   the run-time part only (kind rtgo, routes direct/json/ubj/cbor). *)
From SF Require Gotype.Conv Gotype.Unfold Gotype.UnfoldSpec Gotype.UnfoldProofs.
Import SF.Gotype.Unfold SF.Gotype.UnfoldSpec SF.Gotype.UnfoldProofs.
Theorem C11_direct_partial : forall T v evs,
  simple T = true -> wt T v = true -> fold_value T v = (evs, None) ->
  exists v', unfold_value T (zero_of T) evs = UDone v' /\
             forall F, (ftsize T < F)%nat -> deep_eq F T (omit_view F T v) v' = true.
Proof. exact C11_direct_partial'. Qed.
Print Assumptions C11_direct_partial.

Theorem C11_direct_struct_partial : forall fs vs evs,
  flat_fields fs = true -> wt_fields fs vs = true ->
  fold_value (TStruct fs) (GStruct vs) = (evs, None) ->
  exists v', unfold_value (TStruct fs) (zero_of (TStruct fs)) evs = UDone v' /\
             forall F, (ftsize (TStruct fs) < F)%nat ->
               deep_eq F (TStruct fs) (omit_view F (TStruct fs) (GStruct vs)) v' = true.
Proof. exact C11_direct_struct_partial'. Qed.
Print Assumptions C11_direct_struct_partial.

(* non-vacuity: a struct with names, omitempty (empty and not), "-", an unexported field,
   pointers, slices and maps meets the hypotheses, folds and unfolds as stated *)
Theorem C11_struct_instance :
  flat_fields ex_fs = true /\ wt_fields ex_fs ex_vs = true /\
  snd (fold_value (TStruct ex_fs) (GStruct ex_vs)) = None.
Proof. pose proof C11_struct_example as (A & B & C & _). rewrite C. auto. Qed.
Print Assumptions C11_struct_instance.

(* Nested structs: structs in structs, behind pointers, in slices and in string-keyed maps, to
   any depth; inlined (squash) structs to any depth; names, "-", omit, omitempty (also on
   struct / pointer / slice / map fields) and unexported fields ([nest]; member names distinct,
   checkable by computation).  For every well-typed value of such a type that Fold accepts,
   unfolding its events into a zero target completes with a value deep_eq to the original under
   the documented view, namely [nv2 T v].
   STILL MISSING: interface{}-typed fields and elements, inlined pointers / maps / interfaces
   (which Unfold refuses), arrays, defined struct types; the three codec routes as one
   statement. *)
From SF Require Gotype.UnfoldStructProofs.
Theorem C11_direct_nested_partial : forall T v evs,
  SF.Gotype.UnfoldStructProofs.nest T = true -> SF.Gotype.UnfoldStructProofs.wt2 T v = true ->
  fold_value T v = (evs, None) ->
  exists v', unfold_value T (zero_of T) evs = UDone v' /\
             forall F, (ftsize T < F)%nat -> deep_eq F T (omit_view F T v) v' = true.
Proof. exact SF.Gotype.UnfoldStructProofs.C11_direct_nested_partial. Qed.
Print Assumptions C11_direct_nested_partial.

(* interface{}-typed fields, elements, map values and pointer targets ([nest3] = [nest] plus
   TIface in these positions and at top level), holding ANY value Fold accepts (it comes back as
   generic data, which deep_eq compares through the documented mapping).  [has_type]: the
   value is well-typed; [ksorted]: maps not behind an interface are listed sorted by key.
   The identity, direct route - and through each codec: the bytes the encoder model writes
   for Fold's events, parsed by the parser model (CBOR, JSON: ANY chunking; UBJSON: any chunking
   that returns), unfold into a zero target to a value deep_eq to the original.
   Side conditions: CBOR lengths < 2^64; UBJSON lengths < 2^63, the resource guard (finding
   F2) on the output, and no integer above MaxInt64 in the value (findings F1/F3:
   SF.Gotype.RoundtripGoProofs.C11_ubj_counterexample); JSON: no floats and valid UTF-8
   strings in the value ([value_exact]: a float64 with an integral value held in an
   interface{} comes back as an integer - numerically identical, which is what C01 asks of
   JSON, but not deep_eq: C11_json_float_in_interface_counterexample).
   STILL MISSING: inlined pointers / maps / interfaces, arrays and defined struct types as
   static types; floats through JSON. *)
From SF Require Gotype.RoundtripGoProofs Cbor.Enc Cbor.Parse Ubjson.Enc Ubjson.Parse Json.Enc Json.Parse.
Module RG := SF.Gotype.RoundtripGoProofs.
Theorem C11_direct_iface_partial : forall T v evs,
  RG.nest3 T = true -> has_type T v = true -> RG.ksorted T v = true -> fold_value T v = (evs, None) ->
  exists v', unfold_value T (zero_of T) evs = UDone v' /\
             forall F, (3 * (tsize T + vsize v) + 6 <= F)%nat -> deep_eq F T (omit_view F T v) v' = true.
Proof. exact RG.C11_direct_iface_partial. Qed.
Print Assumptions C11_direct_iface_partial.

Theorem C11_cbor_route_partial : forall T v evs,
  RG.nest3 T = true -> has_type T v = true -> RG.ksorted T v = true -> fold_value T v = (evs, None) ->
  RG.cbor_small_stream evs = true ->
  exists bs, SF.Cbor.Enc.cbor_encode evs = Some bs /\ all_bytes bs = true /\
    ((zlen bs <=? SF.Cbor.ConformanceProofs.MaxInt64) = true -> forall cs, concat cs = bs ->
       exists pevs v', SF.Cbor.Parse.run_chunks None cs = Ok (pevs, SF.Cbor.Parse.nilE) /\
         unfold_value T (zero_of T) pevs = UDone v' /\
         forall F, (3 * (tsize T + vsize v) + 6 <= F)%nat -> deep_eq F T (omit_view F T v) v' = true).
Proof. exact RG.C11_cbor_route_partial. Qed.
Print Assumptions C11_cbor_route_partial.

Theorem C11_ubj_route_partial : forall T v evs,
  RG.nest3 T = true -> has_type T v = true -> RG.ksorted T v = true -> fold_value T v = (evs, None) ->
  RG.ubj_small_stream evs = true -> RG.value_noh T v = true ->
  exists bs, SF.Ubjson.Enc.ubj_encode evs = Some bs /\ all_bytes bs = true /\
    ((zlen bs <=? SF.Cbor.ConformanceProofs.MaxInt64) = true ->
     SF.Ubjson.ConformanceProofs.no_huge_zero_typed bs = true ->
     exists pevs v' p, SF.Ubjson.Parse.urun_parse None bs = Ok (pevs, SF.Ubjson.Parse.unilE, p) /\
       (forall cs r, concat cs = bs -> SF.Ubjson.Parse.urun_chunks None cs = Ok r -> fst r = (pevs, SF.Ubjson.Parse.unilE)) /\
       unfold_value T (zero_of T) pevs = UDone v' /\
       forall F, (3 * (tsize T + vsize v) + 6 <= F)%nat -> deep_eq F T (omit_view F T v) v' = true).
Proof. exact RG.C11_ubj_route_partial. Qed.
Print Assumptions C11_ubj_route_partial.

Section C11Json.
  Import SF.Json.Spec SF.Json.Enc SF.Json.Parse.
  Variable ffmt : Z -> Z -> bytes.
  Variable pf : bytes -> option Z.
  Variable fimg : Z -> Z -> cnum.
  Variable fbits_r : Z -> Z -> Z.
  Hypothesis ffmt_number : forall w bits, w = 32 \/ w = 64 -> in_u w bits = true -> nonfinite w bits = false ->
     exists isint, json_number (ffmt w bits) = NumOk (ffmt w bits) isint [] /\
                   json_num_value pf (ffmt w bits) isint = Some (fimg w bits).
  Hypothesis ffmt_chars : forall w bits, w = 32 \/ w = 64 -> in_u w bits = true -> nonfinite w bits = false ->
     Forall (fun c => In c SF.Json.EncProofs.fchars) (ffmt w bits).
  Hypothesis pf_radix : forall w bits, w = 32 \/ w = 64 -> in_u w bits = true -> nonfinite w bits = false ->
     snd (radix_scan (ffmt w bits) 0) = true ->
     pf (SF.Json.RoundtripProofs.radix_patch (ffmt w bits)) = Some (fbits_r w bits).
  Hypothesis pf_ok : forall l z, pf l = Some z -> in_u 64 z = true.

  Theorem C11_json_route_partial : forall cfg T v evs,
    RG.nest3 T = true -> has_type T v = true -> RG.ksorted T v = true -> fold_value T v = (evs, None) ->
    RG.value_exact T v = true ->
    exists e' pevs v' p,
      json_run cfg ffmt (jenc0 None) evs 0 = JRun e' None /\
      all_bytes (w_bytes (je_w e')) = true /\
      jrun_parse pf None (w_bytes (je_w e')) = Ok (pevs, jpnil, p) /\
      (forall cs, concat cs = w_bytes (je_w e') -> exists p', jrun_chunks pf None cs = Ok (pevs, jpnil, p')) /\
      unfold_value T (zero_of T) pevs = UDone v' /\
      forall F, (3 * (tsize T + vsize v) + 6 <= F)%nat -> deep_eq F T (omit_view F T v) v' = true.
  Proof. exact (RG.C11_json_route_partial ffmt pf fimg fbits_r ffmt_number ffmt_chars pf_radix pf_ok). Qed.
End C11Json.
Print Assumptions C11_json_route_partial.
