(* C11 - Fold then Unfold reproduces any supported Go value, directly or via a codec.
   Statements only; proofs are in Gotype/FoldProofs.v (refusal of unsupported types). *)
From SF Require Import Base.Prelude Core.Events Gotype.Types Gotype.Fold Gotype.FoldSpec Gotype.FoldProofs.

(* A type that cannot be handled is refused with an error when folding - before a single
   event is emitted when the unsupported type is statically visible - never by a crash
   (the model has no crash outcome for Fold; the Go side is checked by guarded runs). *)
Theorem C11_fold_refuses_unsupported : forall F t v,
  spec_supported F t = false -> (tsize t < F)%nat -> exists e, fold_value t v = ([], Some e).
Proof. exact fold_refuses_unsupported. Qed.
Print Assumptions C11_fold_refuses_unsupported.

(* The specification's notion of a supported type is exactly what the folder compiles. *)
Theorem C11_supported_iff_compiles : forall t, spec_supported (S (tsize t)) t = true <-> cc_type t = None.
Proof. exact supported_compiles. Qed.
Print Assumptions C11_supported_iff_compiles.

(* The identity, direct route (Fold's events fed to the unfolder of a zero target of the same
   type).  PARTIAL: proved for (a) every type built from bool, string, the numeric kinds,
   pointers, slices and string-keyed maps of these, and named versions of them ([simple]), and
   (b) every struct whose fields have such types, with any combination of field names, "-",
   omitempty and unexported fields, but without inline/squash ([flat_fields]).  For every
   well-typed value ([wt]: numbers in range, map listing sorted) of such a type that Fold
   accepts, unfolding completes with a value deeply equal to the original under the documented
   view (omitted fields zero, nil = empty, pointer to nil = nil).
   MISSING: nested structs, inline/squash, interface{}-typed fields and elements - decided by
   the run-time part only (kind rtgo, routes direct/json/ubj/cbor). *)
From SF Require Gotype.Conv Gotype.Unfold Gotype.UnfoldSpec Gotype.UnfoldProofs.
Import SF.Gotype.Unfold SF.Gotype.UnfoldSpec SF.Gotype.UnfoldProofs.
Theorem C11_direct_partial : forall T v evs,
  simple T = true -> wt T v = true -> fold_value T v = (evs, None) ->
  exists v', unfold_value T (zero_of T) evs = UDone v' /\
             forall F, (ftsize T < F)%nat -> deep_eq F T (omit_view F T v) v' = true.
Proof. exact C11_direct_partial'. Qed.
Print Assumptions C11_direct_partial.

Theorem C11_direct_struct_partial : forall fs vs evs,
  flat_fields fs = true -> wt_fields fs vs = true ->
  fold_value (TStruct fs) (GStruct vs) = (evs, None) ->
  exists v', unfold_value (TStruct fs) (zero_of (TStruct fs)) evs = UDone v' /\
             forall F, (ftsize (TStruct fs) < F)%nat ->
               deep_eq F (TStruct fs) (omit_view F (TStruct fs) (GStruct vs)) v' = true.
Proof. exact C11_direct_struct_partial'. Qed.
Print Assumptions C11_direct_struct_partial.

(* non-vacuity: a struct with names, omitempty (empty and not), "-", an unexported field,
   pointers, slices and maps meets the hypotheses, folds and unfolds as stated *)
Theorem C11_struct_instance :
  flat_fields ex_fs = true /\ wt_fields ex_fs ex_vs = true /\
  snd (fold_value (TStruct ex_fs) (GStruct ex_vs)) = None.
Proof. pose proof C11_struct_example as (A & B & C & _). rewrite C. auto. Qed.
Print Assumptions C11_struct_instance.

(* Nested structs: structs in structs, behind pointers, in slices and in string-keyed maps, to
   any depth; inlined (squash) structs to any depth; names, "-", omit, omitempty (also on
   struct / pointer / slice / map fields) and unexported fields ([nest]; member names distinct,
   checkable by computation).  For every well-typed value of such a type that Fold accepts,
   unfolding its events into a zero target completes with a value deep_eq to the original under
   the documented view, namely [nv2 T v].
   STILL MISSING: interface{}-typed fields and elements, inlined pointers / maps / interfaces
   (which Unfold refuses), arrays, defined struct types; the three codec routes as one
   statement. *)
From SF Require Gotype.UnfoldStructProofs.
Theorem C11_direct_nested_partial : forall T v evs,
  SF.Gotype.UnfoldStructProofs.nest T = true -> SF.Gotype.UnfoldStructProofs.wt2 T v = true ->
  fold_value T v = (evs, None) ->
  exists v', unfold_value T (zero_of T) evs = UDone v' /\
             forall F, (ftsize T < F)%nat -> deep_eq F T (omit_view F T v) v' = true.
Proof. exact SF.Gotype.UnfoldStructProofs.C11_direct_nested_partial. Qed.
Print Assumptions C11_direct_nested_partial.
