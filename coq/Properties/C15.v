(* C15 - stored values never alias transient buffers; unsafe conversions stay valid.
   Statements only; proofs are in Core/ExtendedProofs.v and Gotype/LruProofs.v.
   The second sentence of the property (pointer conversions, garbage collection between
   events) is runtime behaviour no Gallina model exhibits: it is decided by the
   buffer-scribbling, forced-GC and -race/checkptr runs only (partial). *)
From SF Require Import Base.Prelude Core.Events Cbor.Parse Ubjson.Parse Json.Parse Gotype.Lru Gotype.LruProofs.
From SF Require Core.ExtendedProofs.

(* What the parser models hand out BY VALUE (OnString / OnKey, which a consumer may keep)
   never refers to a transient buffer: it is only ever the empty string (a static value);
   everything else is delivered by reference (OnStringRef / OnKeyRef), which the
   StringRefVisitor contract obliges the consumer to copy.  For every input, chunking and
   visitor-failure index. *)
Theorem C15_cbor_byvalue_static : forall vfail chunks evs e, run_chunks vfail chunks = Ok (evs, e) ->
  (forall s, In (EVal (SStr s)) evs -> s = []) /\ (forall k, In (EKey k) evs -> k = []).
Proof. exact SF.Core.ExtendedProofs.C15_cbor_byvalue_static. Qed.
Print Assumptions C15_cbor_byvalue_static.

Theorem C15_ubj_byvalue_static : forall vfail chunks evs e p, urun_chunks vfail chunks = Ok (evs, e, p) ->
  (forall s, In (EVal (SStr s)) evs -> s = []) /\ (forall k, ~ In (EKey k) evs).
Proof. exact SF.Core.ExtendedProofs.C15_ubj_byvalue_static. Qed.
Print Assumptions C15_ubj_byvalue_static.

Theorem C15_json_byvalue_none : forall (pf : bytes -> option Z) vfail chunks evs e p,
  jrun_chunks pf vfail chunks = Ok (evs, e, p) ->
  (forall s, ~ In (EVal (SStr s)) evs) /\ (forall k, ~ In (EKey k) evs).
Proof. exact SF.Core.ExtendedProofs.C15_json_byvalue_none. Qed.
Print Assumptions C15_json_byvalue_none.

(* The key cache: every key it returns - hit or miss, from any state satisfying the
   invariant - lives in fresh memory, never in the bytes it was looked up with. *)
Theorem C15_cache_fresh : forall c k, Inv c ->
  exists c', lru_get c k = Ok (k, Fresh, c') /\ Inv c'.
Proof. intros c k I. destruct (get_refines c k I) as (c' & G & I' & _). eauto. Qed.
Print Assumptions C15_cache_fresh.
