(* C18 - pull decoders deliver one top-level value per Next and then io.EOF.
   Statements only; proofs are in Cbor/ParseVisitorProofs.v. *)
From SF Require Import Base.Prelude Core.Events Cbor.Spec Cbor.Parse Cbor.ParseVisitorProofs.

(* CBOR pull decoder over ANY io.Reader whose reads return any sizes (empty reads
   included) with a nil error, the last one possibly together with io.EOF
   ([script_okb]): if the bytes are k complete items of the supported subset, k calls of
   Next succeed, each delivering the complete events of exactly the next item and nothing
   of the following one, and the (k+1)-th call reports io.EOF. *)
Theorem C18_cbor_reader_stream : forall sc vs g fuel s,
  script_okb sc = true ->
  all_bytes (concat (map fst sc)) = true -> zlen (concat (map fst sc)) <= 9223372036854775807 ->
  s_fail s = None ->
  cbor_decode_all g (concat (map fst sc)) = Some vs ->
  (length sc + 1 < fuel)%nat ->
  exists ts, map (fun t => cv (value_of t)) ts = vs /\ forallb wf_tree ts = true /\
             dec_run fuel (S (length vs)) (reader_dec sc) s = Ok (expect (s_log s) ts).
Proof. exact ParseVisitorProofs.C18_cbor_reader_stream. Qed.
Print Assumptions C18_cbor_reader_stream.

(* the decoder over a byte slice *)
Theorem C18_cbor_bytes_stream : forall b vs g fuel s,
  all_bytes b = true -> zlen b <= 9223372036854775807 -> s_fail s = None ->
  cbor_decode_all g b = Some vs -> (1 < fuel)%nat ->
  exists ts, map (fun t => cv (value_of t)) ts = vs /\ forallb wf_tree ts = true /\
             dec_run fuel (S (length vs)) (bytes_dec b) s = Ok (expect (s_log s) ts).
Proof. exact ParseVisitorProofs.C18_cbor_bytes_stream. Qed.
Print Assumptions C18_cbor_bytes_stream.

(* Read sizes are irrelevant: two decoders in the same parser state with the same bytes
   still to come behave identically on every Next, whatever their reader scripts. *)
Theorem C18_cbor_script_independent : forall f1 f2 d1 d2 s d1' s1' e1 d2' s2' e2,
  CInv (d_p d1) -> d_p d1 = d_p d2 -> rem d1 = rem d2 ->
  script_okb (d_script d1) = true -> script_okb (d_script d2) = true ->
  dec_next f1 d1 s = Ok (d1', s1', e1) -> dec_next f2 d2 s = Ok (d2', s2', e2) ->
  s1' = s2' /\ e1 = e2 /\
  (e1 = nilE -> d_p d1' = d_p d2' /\ rem d1' = rem d2' /\ CInv (d_p d1') /\
                script_okb (d_script d1') = true /\ script_okb (d_script d2') = true).
Proof. exact C18_cbor_script_independent_partial. Qed.
Print Assumptions C18_cbor_script_independent.

(* Next never panics and never hangs, for any byte-valued reader script (any errors, empty
   reads at any point - the defect found by this proof and repaired, see known-findings). *)
Theorem C18_cbor_next_total : forall fuel d s,
  SInv (d_p d) -> all_bytes (d_buf d) = true -> script_bytes (d_script d) = true ->
  (length (d_script d) + 1 < fuel)%nat ->
  exists d' s' e, dec_next fuel d s = Ok (d', s', e) /\
    (e = nilE -> SInv (d_p d') /\ all_bytes (d_buf d') = true /\ script_bytes (d_script d') = true /\
                 (length (d_script d') <= length (d_script d))%nat).
Proof. exact ParseVisitorProofs.C18_cbor_next_total. Qed.
Print Assumptions C18_cbor_next_total.

(* UBJSON pull decoder.  Over ANY reader script Next never crashes (C18_ubj_no_panic); under the
   guard of C03 (no '$' directly followed by Z, T or F in what is still to come - the recorded
   finding F2) Next returns, and a nil verdict means the state stack is empty again and at
   least one byte was consumed; two well-behaved scripts (no read error except io.EOF at the
   end, with or without data) carrying the same data produce the same complete event sequence
   and the same final verdict, whatever their read sizes.
   PARTIAL: which events are delivered by which Next call (one value per call) is decided by
   the run-time part (kind ubjdec). *)
From SF Require Ubjson.Parse Ubjson.ParseSafety Ubjson.ParseVisitorProofs.
Module UP := SF.Ubjson.Parse.
Module UV := SF.Ubjson.ParseVisitorProofs.
Theorem C18_ubj_no_panic : forall fuel sc s w, UP.udec_next fuel (UV.ureader_dec sc) s <> Panic w.
Proof. exact UV.C18_ubj_reader_no_panic. Qed.
Print Assumptions C18_ubj_no_panic.

Theorem C18_ubj_next_total : forall fuel d s,
  UV.udec_good d -> (UV.umeasure d < fuel)%nat ->
  exists d' s' e, UP.udec_next fuel d s = Ok (d', s', e) /\
    (e = UP.unilE -> UV.udec_good d' /\ UP.up_stack (UP.ud_p d') = [] /\
                  (length (UV.urem d') <= length (UV.urem d))%nat /\
                  (UP.u_t (UP.up_cur (UP.ud_p d)) = UP.tNext -> (length (UV.urem d') < length (UV.urem d))%nat) /\
                  (UV.umeasure d' <= UV.umeasure d)%nat).
Proof. exact UV.C18_ubj_next_total. Qed.
Print Assumptions C18_ubj_next_total.

Theorem C18_ubj_scripts_same_data : forall sc1 sc2 s fuel,
  UV.uscript_okb sc1 = true -> UV.uscript_okb sc2 = true ->
  concat (map fst sc1) = concat (map fst sc2) ->
  SF.Ubjson.ParseSafety.no_zero_typed (concat (map fst sc1)) = true ->
  (2 * length sc1 + 1 <= fuel)%nat -> (2 * length sc2 + 1 <= fuel)%nat ->
  exists o, UV.udrain (S (length (concat (map fst sc1)))) fuel (UV.ureader_dec sc1) s = Ok o /\
            UV.udrain (S (length (concat (map fst sc1)))) fuel (UV.ureader_dec sc2) s = Ok o.
Proof. exact UV.C18_ubj_scripts_same_data. Qed.
Print Assumptions C18_ubj_scripts_same_data.

(* JSON pull decoder.  From any reachable parser state, over any reader script and for any
   visitor behaviour Next returns (no crash, no missing fuel); a nil Next delivered a non-empty
   list of events that is the flattening of one tree, left the parser idle and consumed input;
   two well-behaved scripts with the same data give the same sequence of (events, verdict)
   per Next call, whatever their read sizes.
   PARTIAL: the tree of a nil Next is not shown well-formed here (C04 covers reference-valid
   inputs), "consumed" is a length measure. *)
From SF Require Json.Parse Json.ParseSafety Json.ParseVisitorProofs.
Module JP := SF.Json.Parse.
Module JV := SF.Json.ParseVisitorProofs.
Theorem C18_json_next_total : forall (pf : bytes -> option Z) fuel d s,
  SF.Json.ParseSafety.inv (JP.jd_p d) -> (JV.jmeasure d < fuel)%nat ->
  exists d' s' e, JP.jdec_next fuel pf d s = Ok (d', s', e) /\ (e = JP.jpnil -> SF.Json.ParseSafety.inv (JP.jd_p d')) /\
                  (JV.jmeasure d' <= JV.jmeasure d)%nat.
Proof. exact JV.C18_json_next_total. Qed.
Print Assumptions C18_json_next_total.

Theorem C18_json_next_one_value : forall (pf : bytes -> option Z) fuel d s d' s',
  JV.W (JP.jd_p d) -> JP.jp_cur (JP.jd_p d) = JP.jStart -> JV.jscript_ok (JP.jd_script d) ->
  JP.jdec_next fuel pf d s = Ok (d', s', JP.jpnil) ->
  exists t, s' = JV.s_add s (flatten t).
Proof. exact JV.C18_json_next_tree. Qed.
Print Assumptions C18_json_next_one_value.

Theorem C18_json_scripts_same_data : forall (pf : bytes -> option Z) k sc1 sc2 s fuel,
  JV.script_okb sc1 = true -> JV.script_okb sc2 = true ->
  concat (map fst sc1) = concat (map fst sc2) ->
  (2 * length sc1 + 1 <= fuel)%nat -> (2 * length sc2 + 1 <= fuel)%nat ->
  exists l, JV.jdec_run pf fuel k (JV.jreader_dec sc1) s = Ok l /\ JV.jdec_run pf fuel k (JV.jreader_dec sc2) s = Ok l.
Proof. exact JV.C18_json_scripts_same_data. Qed.
Print Assumptions C18_json_scripts_same_data.

(* One value per Next, all three decoders.  JSON: the tree of a nil Next is well-formed.
   UBJSON: a nil Next delivered the flattening of exactly one tree (at least one event, nothing
   of the following value) and consumed input; two well-behaved scripts with the same data
   give the same events and verdict for EACH of the first k calls; and for a stream of k
   reference-valid documents over any well-behaved reader script, k calls deliver exactly the
   k values' streams and the next call reports io.EOF (under the guard of finding F2). *)
From SF Require Json.AcceptedProofs Ubjson.ReuseProofs.
Module UR := SF.Ubjson.ReuseProofs.
Theorem C18_json_next_wellformed : forall (pf : bytes -> option Z),
  (forall l z, pf l = Some z -> in_u 64 z = true) ->
  forall fuel d s d' s',
  JV.W (JP.jd_p d) -> JP.jp_cur (JP.jd_p d) = JP.jStart -> JV.jscript_ok (JP.jd_script d) ->
  all_bytes (JP.jd_buf d) = true -> Forall (fun x => all_bytes (fst x) = true) (JP.jd_script d) ->
  JP.jdec_next fuel pf d s = Ok (d', s', JP.jpnil) ->
  exists t, s' = JV.s_add s (flatten t) /\ wf_tree t = true.
Proof. exact SF.Json.AcceptedProofs.C18_json_next_wf. Qed.
Print Assumptions C18_json_next_wellformed.

Theorem C18_ubj_next_one_value : forall fuel d s,
  UR.dtop d -> UV.udec_good d -> (UV.umeasure d < fuel)%nat ->
  exists d' s' e, UP.udec_next fuel d s = Ok (d', s', e) /\
    (e = UP.unilE -> exists t, s' = UV.s_add s (flatten t) /\ flatten t <> [] /\ UR.dtop d' /\ UV.udec_good d' /\
                            (length (UV.urem d') < length (UV.urem d))%nat).
Proof. exact UR.C18_ubj_next_one_value. Qed.
Print Assumptions C18_ubj_next_one_value.

Theorem C18_ubj_script_independent : forall k f1 f2 d1 d2 s l1 l2,
  UR.pinv (UP.ud_p d1) -> UV.uscript_okb (UP.ud_script d1) = true -> UV.uscript_okb (UP.ud_script d2) = true ->
  UP.ud_p d1 = UP.ud_p d2 -> UV.urem d1 = UV.urem d2 ->
  UR.udec_run f1 k d1 s = Ok l1 -> UR.udec_run f2 k d2 s = Ok l2 -> l1 = l2.
Proof. exact UR.C18_ubj_script_independent. Qed.
Print Assumptions C18_ubj_script_independent.

Theorem C18_ubj_reader_stream : forall docs sc fuel s,
  Forall UR.doc_ok docs -> UV.uscript_okb sc = true -> concat (map fst sc) = concat docs ->
  SF.Ubjson.ParseSafety.no_zero_typed (concat docs) = true -> s_fail s = None ->
  (2 * length sc + 1 <= fuel)%nat ->
  exists ts, Forall2 UR.doc_tree docs ts /\
    UR.udec_run fuel (S (length docs)) (UV.ureader_dec sc) s = Ok (UR.uexpect (s_log s) ts).
Proof. exact UR.C18_ubj_reader_stream. Qed.
Print Assumptions C18_ubj_reader_stream.
