(* C02 - parser output is independent of how the input bytes are chunked.
   Statements only; proofs are in Cbor/ChunkProofs.v, Cbor/ChunkTotalProofs.v
   (which uses Cbor/ParseSafety.v for totality). *)
From SF Require Import Base.Prelude Core.Events Cbor.Parse Cbor.ChunkProofs Cbor.ChunkTotalProofs Json.Parse.
From SF Require Json.ChunkProofs.
From SF Require Import Ubjson.Parse.
From SF Require Ubjson.ChunkProofs.

(* CBOR parser model.  For ANY two ways of cutting the same byte string into a sequence
   of writes (every subset of cut positions, single bytes, empty writes), each followed by
   the end of input, and for every visitor-failure index: both runs return, with the
   IDENTICAL event sequence and the IDENTICAL verdict - for accepted and for rejected
   input alike (stronger than the property, which only asks for the accept/reject verdict
   on invalid input). *)
Theorem C02_cbor_chunks : forall vfail cs1 cs2,
  forallb all_bytes cs1 = true -> forallb all_bytes cs2 = true -> concat cs1 = concat cs2 ->
  same_obs_strong (run_chunks vfail cs1) (run_chunks vfail cs2).
Proof. exact C02_cbor_chunks_strongest. Qed.
Print Assumptions C02_cbor_chunks.

(* The whole-buffer entry point (Parse / ParseString) agrees with every sequence of
   partial writes followed by the end of input (Write* + finalize, which is also what
   ParseReader does through io.Copy). *)
Theorem C02_cbor_entry : forall vfail cs, forallb all_bytes cs = true ->
  same_obs_strong (run_parse vfail (concat cs)) (run_chunks vfail cs).
Proof. exact C02_cbor_entry_strongest. Qed.
Print Assumptions C02_cbor_entry.

(* One write split in two, from any reachable parser state: same visitor log, same
   error, and (when no error occurred) the same final parser state. *)
Theorem C02_cbor_write_split : forall p s a b p1 s1 p2 s2 e2 p3 s3 e3, Inv p ->
  p_write p s a = Ok (p1, s1, nilE) -> p_write p1 s1 b = Ok (p2, s2, e2) ->
  p_write p s (a ++ b) = Ok (p3, s3, e3) ->
  s3 = s2 /\ e3 = e2 /\ (e2 = nilE -> p3 = p2).
Proof. exact ChunkProofs.C02_cbor_write_split. Qed.
Print Assumptions C02_cbor_write_split.

(* JSON parser model, for every float-parsing oracle, every visitor-failure index and ANY two
   chunkings of the same bytes: both runs return with IDENTICAL events and IDENTICAL verdict
   (accepted or rejected alike), and the whole-buffer Parse agrees with every sequence of
   writes followed by the end of input.  No premise at all: totality is proved. *)
Theorem C02_json_chunks : forall (pf : bytes -> option Z) vfail cs1 cs2, concat cs1 = concat cs2 ->
  SF.Json.ChunkProofs.same_jobs (jrun_chunks pf vfail cs1) (jrun_chunks pf vfail cs2).
Proof. exact SF.Json.ChunkProofs.C02_json_chunks. Qed.
Print Assumptions C02_json_chunks.

Theorem C02_json_entry : forall (pf : bytes -> option Z) vfail cs,
  SF.Json.ChunkProofs.same_jobs (jrun_parse pf vfail (concat cs)) (jrun_chunks pf vfail cs).
Proof. exact SF.Json.ChunkProofs.C02_json_entry. Qed.
Print Assumptions C02_json_entry.

(* UBJSON parser model, every visitor-failure index, ANY two chunkings of the same bytes and
   Parse vs Write*+end: whenever both runs return (they always do unless the recorded
   finding F2 exhausts the fuel, see C03) the events and the error class are identical. *)
Theorem C02_ubj_chunks : forall vfail cs1 cs2 r1 r2, concat cs1 = concat cs2 ->
  urun_chunks vfail cs1 = Ok r1 -> urun_chunks vfail cs2 = Ok r2 -> fst r1 = fst r2.
Proof. exact SF.Ubjson.ChunkProofs.C02_ubj_chunks_strong. Qed.
Print Assumptions C02_ubj_chunks.

Theorem C02_ubj_entry : forall vfail cs r1 r2,
  urun_parse vfail (concat cs) = Ok r1 -> urun_chunks vfail cs = Ok r2 -> fst r1 = fst r2.
Proof. exact SF.Ubjson.ChunkProofs.C02_ubj_entry_strong. Qed.
Print Assumptions C02_ubj_entry.

Example C02_cbor_nonvacuous :
  run_chunks None [[130]; []; [24]; [200; 97]; [120]] = run_chunks None [[130; 24; 200; 97; 120]] /\
  all_bytes [130; 24; 200; 97; 120] = true.
Proof. vm_compute. split; reflexivity. Qed.
