(* C07 - each encoder emits only valid documents that an independent decoder reads back.
   Statements only; proofs are in Cbor/RoundtripProofs.v (CBOR). *)
From SF Require Import Base.Prelude Core.Events Cbor.Spec Cbor.Enc Cbor.RoundtripProofs.

(* CBOR.  For every well-formed tree (= every well-formed event stream describing one
   value: any nesting, announced and unknown lengths, every scalar kind, the typed
   array/map events, by-reference strings) whose lengths are below 2^64, the encoder model
   accepts the stream and the RFC 7049 reference decoder (Cbor/Spec.v, written from the
   RFC, not from the Go code) reads the bytes back as exactly the stream's value,
   consuming all of them. *)
Theorem C07_cbor : forall t, wf_tree t = true -> tree_small t = true ->
  exists bs, cbor_encode (flatten t) = Some bs /\ cbor_decode bs = RValue (cv (value_of t)) [].
Proof. exact RoundtripProofs.C07_cbor. Qed.
Print Assumptions C07_cbor.

(* Streams of several documents written through one encoder: the reference decoder
   reads back the sequence of values. *)
Theorem C07_cbor_stream : forall ts, forallb wf_tree ts = true -> forallb tree_small ts = true ->
  exists bs, cbor_encode (flat_map flatten ts) = Some bs /\
    cbor_decode_all (S (length bs)) bs = Some (map (fun t => cv (value_of t)) ts).
Proof. exact RoundtripProofs.C07_cbor_stream. Qed.
Print Assumptions C07_cbor_stream.

(* The same from any encoder state (in the middle of any enclosing document, after any
   output), with whatever follows: the bytes appended decode to the value and leave the
   rest - this is the form that composes (C08, C10). *)
Theorem C07_cbor_in_context : forall t, wf_tree t = true -> tree_small t = true ->
  forall e i, w_fail (ce_w e) = None ->
  exists e' bs, cbor_run e (flatten t) i = (e', None) /\
     ce_len e' = ce_len e /\ w_fail (ce_w e') = None /\
     w_bytes (ce_w e') = w_bytes (ce_w e) ++ bs /\
     forall rest fuel, (length (bs ++ rest) < fuel)%nat ->
       cbor_ref fuel (bs ++ rest) = RValue (cv (value_of t)) rest.
Proof. exact cbor_enc_tree. Qed.
Print Assumptions C07_cbor_in_context.

(* Non-vacuity: a mixed tree meets the hypotheses. *)
Example C07_cbor_nonvacuous :
  let t := TArr (-1) BAny [TVal (SNum KInt64 (-9223372036854775808)) false; TXArr BByte [SNum KByte 255];
                           TObj 1 BAny [([107], true, TVal (SStr [228; 189; 160]) true)]] in
  wf_tree t = true /\ tree_small t = true.
Proof. vm_compute. split; reflexivity. Qed.
