(* C07 - each encoder emits only valid documents that an independent decoder reads back.
   Statements only; proofs are in Cbor/RoundtripProofs.v (CBOR). *)
From SF Require Import Base.Prelude Base.Utf8 Core.Events Cbor.Spec Cbor.Enc Cbor.RoundtripProofs Json.Enc Json.EncProofs Ubjson.Spec Ubjson.Enc Ubjson.Img.
From SF Require Ubjson.RoundtripProofs.
From SF Require Import Json.Spec.
From SF Require Json.RoundtripProofs.

(* CBOR.  For every well-formed tree (= every well-formed event stream describing one
   value: any nesting, announced and unknown lengths, every scalar kind, the typed
   array/map events, by-reference strings) whose lengths are below 2^64, the encoder model
   accepts the stream and the RFC 7049 reference decoder (Cbor/Spec.v, written from the
   RFC, not from the Go code) reads the bytes back as exactly the stream's value,
   consuming all of them. *)
Theorem C07_cbor : forall t, wf_tree t = true -> tree_small t = true ->
  exists bs, cbor_encode (flatten t) = Some bs /\ cbor_decode bs = RValue (cv (value_of t)) [].
Proof. exact SF.Cbor.RoundtripProofs.C07_cbor. Qed.
Print Assumptions C07_cbor.

(* Streams of several documents written through one encoder: the reference decoder
   reads back the sequence of values. *)
Theorem C07_cbor_stream : forall ts, forallb wf_tree ts = true -> forallb tree_small ts = true ->
  exists bs, cbor_encode (flat_map flatten ts) = Some bs /\
    cbor_decode_all (S (length bs)) bs = Some (map (fun t => cv (value_of t)) ts).
Proof. exact SF.Cbor.RoundtripProofs.C07_cbor_stream. Qed.
Print Assumptions C07_cbor_stream.

(* The same from any encoder state (in the middle of any enclosing document, after any
   output), with whatever follows: the bytes appended decode to the value and leave the
   rest - this is the form that composes (C08, C10). *)
Theorem C07_cbor_in_context : forall t, wf_tree t = true -> tree_small t = true ->
  forall e i, w_fail (ce_w e) = None ->
  exists e' bs, cbor_run e (flatten t) i = (e', None) /\
     ce_len e' = ce_len e /\ w_fail (ce_w e') = None /\
     w_bytes (ce_w e') = w_bytes (ce_w e) ++ bs /\
     forall rest fuel, (length (bs ++ rest) < fuel)%nat ->
       cbor_ref fuel (bs ++ rest) = RValue (cv (value_of t)) rest.
Proof. exact cbor_enc_tree. Qed.
Print Assumptions C07_cbor_in_context.

(* Non-vacuity: a mixed tree meets the hypotheses. *)
Example C07_cbor_nonvacuous :
  let t := TArr (-1) BAny [TVal (SNum KInt64 (-9223372036854775808)) false; TXArr BByte [SNum KByte 255];
                           TObj 1 BAny [([107], true, TVal (SStr [228; 189; 160]) true)]] in
  wf_tree t = true /\ tree_small t = true.
Proof. vm_compute. split; reflexivity. Qed.

(* JSON.  strconv.AppendFloat is a parameter [ffmt] of the encoder model; the only fact
   assumed about it is that it writes characters of "+-.0123456789e" ([fchars]).
   For every well-formed tree whose floats are finite (or with ignoreInvalidFloat set),
   under every option setting, the encoder model succeeds, and its output contains no
   raw control character, is valid UTF-8, and has no raw '<', '>' or '&' when HTML
   escaping is on. *)
Theorem C07_json_text : forall (ffmt : Z -> Z -> bytes),
  (forall w b, Forall (fun c => In c fchars) (ffmt w b)) ->
  forall cfg t, wf_tree t = true ->
    (ignore_invalid cfg = true \/ tree_finite t = true) ->
    exists e', json_run cfg ffmt (jenc0 None) (flatten t) 0 = JRun e' None /\
      je_first e' = bs0 /\ je_inarr e' = bs0 /\
      Forall (fun b => 32 <= b < 256) (w_bytes (je_w e')) /\
      utf8_valid (w_bytes (je_w e')) = true /\
      (escape_html cfg = true -> Forall (fun b => b <> 60 /\ b <> 62 /\ b <> 38) (w_bytes (je_w e'))).
Proof. exact C07_C17_json_tree. Qed.
Print Assumptions C07_json_text.

(* The three text predicates hold for EVERY call sequence that succeeded, well-formed or
   not (UTF-8 validity even without any premise on the events). *)
Theorem C07_json_utf8_always : forall (ffmt : Z -> Z -> bytes),
  (forall w b, Forall (fun c => In c fchars) (ffmt w b)) ->
  forall cfg evs e', json_run cfg ffmt (jenc0 None) evs 0 = JRun e' None ->
  utf8_valid (w_bytes (je_w e')) = true.
Proof. exact C07_json_utf8. Qed.
Print Assumptions C07_json_utf8_always.

(* Non-finite floats are refused with the error class 1 - after the separator, nothing
   else - or written as the token null when ignoreInvalidFloat is set: never invalid text. *)
Theorem C07_json_nonfinite : forall (ffmt : Z -> Z -> bytes) cfg e w bits,
  nonfinite w bits = true -> w_fail (je_w e) = None ->
  exists e', jfloat cfg ffmt e w bits = JR e' (if ignore_invalid cfg then jnil else 1) /\
    w_bytes (je_w e') = w_bytes (je_w e) ++ sep e ++ (if ignore_invalid cfg then [110;117;108;108] else []).
Proof. exact EncProofs.C07_json_nonfinite. Qed.
Print Assumptions C07_json_nonfinite.

(* With an explicit radix point requested every finite float token contains a '.'. *)
Theorem C07_json_radix : forall (ffmt : Z -> Z -> bytes) cfg e w bits,
  explicit_radix cfg = true -> nonfinite w bits = false -> w_fail (je_w e) = None ->
  exists e' tok, jfloat cfg ffmt e w bits = JR e' jnil /\
    w_bytes (je_w e') = w_bytes (je_w e) ++ sep e ++ tok /\ In 46 tok /\
    (tok = ffmt w bits \/ exists idx, tok = firstn idx (ffmt w bits) ++ [46;48] ++ skipn idx (ffmt w bits)).
Proof. exact EncProofs.C07_json_radix. Qed.
Print Assumptions C07_json_radix.

(* UBJSON.  For every well-formed tree (lengths below 2^63) the encoder model accepts the
   stream and the draft-12 reference decoder (Ubjson/Spec.v) reads the bytes back as
   [ubj_img t]: the stream's value with the format's documented representation change
   (unsigned integers above MaxInt64 as decimal strings; Ubjson/Img.v also models the
   recorded finding for typed unsigned containers). *)
Theorem C07_ubj : forall t, wf_tree t = true -> SF.Ubjson.RoundtripProofs.tree_small t = true ->
  exists bs, ubj_encode (flatten t) = Some bs /\ ubj_decode bs = RValue (ubj_img t) [].
Proof. exact SF.Ubjson.RoundtripProofs.C07_ubj. Qed.
Print Assumptions C07_ubj.

(* JSON, the value: for every well-formed tree with finite floats (or ignoreInvalidFloat),
   under every option setting, the RFC 8259 reference decoder (Json/Spec.v) reads the
   encoder model's output back as [json_img cfg t]: strings and keys sanitized (invalid
   UTF-8 -> U+FFFD), integers exact, non-finite floats null, finite floats whatever the
   reference makes of strconv's text.  The hypotheses speak about strconv only: its float
   text is a number of the RFC grammar made of "+-.0-9e" that ParseFloat maps to [fimg], and
   ParseFloat's value on the text patched with ".0" is [fbits_r]. *)
Theorem C07_json : forall (ffmt : Z -> Z -> bytes) (pf : bytes -> option Z) (fimg : Z -> Z -> cnum) (fbits_r : Z -> Z -> Z),
  (forall w bits, w = 32 \/ w = 64 -> in_u w bits = true -> nonfinite w bits = false ->
     exists isint, json_number (ffmt w bits) = NumOk (ffmt w bits) isint [] /\
                   json_num_value pf (ffmt w bits) isint = Some (fimg w bits)) ->
  (forall w bits, w = 32 \/ w = 64 -> in_u w bits = true -> nonfinite w bits = false ->
     Forall (fun c => In c fchars) (ffmt w bits)) ->
  (forall w bits, w = 32 \/ w = 64 -> in_u w bits = true -> nonfinite w bits = false ->
     snd (radix_scan (ffmt w bits) 0) = true ->
     pf (SF.Json.RoundtripProofs.radix_patch (ffmt w bits)) = Some (fbits_r w bits)) ->
  forall cfg t, wf_tree t = true -> (ignore_invalid cfg = true \/ tree_finite t = true) ->
  exists e', json_run cfg ffmt (jenc0 None) (flatten t) 0 = JRun e' None /\
    json_decode pf (w_bytes (je_w e')) =
      RValue (SF.Json.RoundtripProofs.json_img ffmt fimg (fun w bits => CF64 (fbits_r w bits)) cfg t) [].
Proof. exact SF.Json.RoundtripProofs.C07_json_strconv. Qed.
Print Assumptions C07_json.
