(* C04 - the JSON parser reads every valid document with the RFC 8259 value.
   Statements only; proofs are in Json/SpecProofs.v. *)
From SF Require Import Base.Prelude Core.Events Core.AdapterProofs Json.Parse Json.Spec Json.SpecProofs.

(* [json_decode] (Json/Spec.v) is a reference decoder written from RFC 8259: strings with
   all escapes and surrogate pairs resolved and other bytes untouched, integer literals in
   [-2^63, 2^64) exactly, every other number through the float oracle [pf]
   (strconv.ParseFloat: the correctly rounded float64), members and elements in order.
   Whenever it accepts the whole text with value v, the parser model accepts it and its
   events are a well-formed stream with exactly the value v. *)
Theorem C04_accept : forall (pf : bytes -> option Z) b v,
  (forall l z, pf l = Some z -> in_u 64 z = true) ->
  json_decode pf b = RValue v [] -> all_bytes b = true ->
  exists evs t p, jrun_parse pf None b = Ok (evs, jpnil, p) /\ stream_tree evs = Some t /\
                  wf_tree t = true /\ cv (value_of t) = v.
Proof. exact SpecProofs.C04_accept. Qed.
Print Assumptions C04_accept.

(* Numbers: a literal of the RFC grammar is reported as exactly its integer value when it
   is an integer literal in the 64-bit range, as pf's float64 otherwise, or rejected -
   never as a different number. *)
Theorem C04_number : forall (pf : bytes -> option Z) s lit isint,
  json_number lit = NumOk lit isint [] ->
  report_number pf s lit (has_de lit) = match json_num_value pf lit isint with
   | Some (CInt z) => Some (jvis s (EVal (SNum (int_kind z) z)))
   | Some (CF64 bits) => Some (jvis s (EVal (SNum KFloat64 bits))) | _ => Some (s, jeGeneric) end.
Proof. exact SpecProofs.C04_number. Qed.
Print Assumptions C04_number.

(* Strings: the unescaper of the parser computes the RFC unescaping. *)
Theorem C04_unquote : forall s out, json_unescape s = Some out -> unquote s = UQ out.
Proof. exact unquote_spec. Qed.
Print Assumptions C04_unquote.

(* Streams of whitespace-separated values. *)
Theorem C04_accept_stream : forall (pf : bytes -> option Z) fuel b vs,
  (forall l z, pf l = Some z -> in_u 64 z = true) ->
  json_decode_all pf fuel b = Some vs -> all_bytes b = true ->
  exists ts p, jrun_parse pf None b = Ok (flat_map flatten ts, jpnil, p) /\
    map norm ts = ts /\ forallb wf_tree ts = true /\ map (fun t => cv (value_of t)) ts = vs.
Proof. exact SpecProofs.C04_accept_stream. Qed.
Print Assumptions C04_accept_stream.
