(* C14 - a mismatching document makes Unfold return an error, never crash or corrupt;
   allocation is proportional to the events received.
   Statements only; proofs are in Gotype/UnfoldProofs.v.
   The unfolder model is a total function with outcomes UDone / UMore / UFail / USetupErr: it has
   no crash outcome, so "never panics" is decided by the guarded correspondence runs, and
   "never writes outside the target" by the race/checkptr build (partial; see DESIGN.md). *)
From SF Require Import Base.Prelude Core.Events Core.EventsProofs Core.AdapterProofs.
From SF Require Import Gotype.Types Gotype.Conv Gotype.Unfold Gotype.UnfoldSpec Gotype.UnfoldProofs.

(* Allocation: for EVERY target type, previous target content and event list - matching or
   not, whatever lengths it announces - the size of the result (scalars, elements, members,
   pointers, interfaces) is bounded by the size of what the target held plus a factor that
   depends on the target TYPE only, times the number of events consumed.  Announced lengths do
   not occur in the bound. *)
Theorem C14_allocation_bound : forall fuel t old evs v rest,
  uf fuel t old evs = UOk v rest ->
  (length rest < length evs)%nat /\
  (gsize v <= gsize old + W t * (length evs - length rest))%nat.
Proof. exact C14_size_bound. Qed.
Print Assumptions C14_allocation_bound.

Theorem C14_allocation_bound_top : forall t old evs v,
  unfold_value t old evs = UDone v -> (gsize v <= gsize old + W t * length (flat_map expand evs))%nat.
Proof. exact C14_unfold_value. Qed.
Print Assumptions C14_allocation_bound_top.

(* interface{} targets: 2049 per event *)
Theorem C14_allocation_iface : forall fuel old evs v rest,
  uf fuel TIface old evs = UOk v rest -> (gsize v <= 2049 * (length evs - length rest))%nat.
Proof. exact C14_iface. Qed.
Print Assumptions C14_allocation_iface.

(* slices of scalars: at most max(previous length, 4096, delivered elements) elements *)
Theorem C14_slice_of_scalars : forall fuel t e old evs v rest,
  under t = TSlice e -> prim_kind e = true -> uf fuel t old evs = UOk v rest ->
  exists n, length evs = (n + 2 + length rest)%nat /\
            (nelems v <= Nat.max (Nat.max (nelems old) (Z.to_nat max_initial_len)) n)%nat.
Proof. exact SF.Gotype.UnfoldProofs.C14_slice_of_scalars. Qed.
Print Assumptions C14_slice_of_scalars.

(* non-vacuity: an array announcing 10^12 elements and delivering one *)
Theorem C14_lying_length_example :
  uf 10 TIface GNil [EArrStart 1000000000000 BAny; EVal (SNum KInt 7); EArrEnd]
  = UOk (GIface (TSlice TIface) (GList (GIface (TNum KInt) (GNum 7) :: repeat GNil 4095))) [].
Proof. exact C14_lying_length. Qed.
Print Assumptions C14_lying_length_example.

(* The next document: a completed document leaves nothing pending - the unfolder stops
   exactly at its end, the result does not depend on what follows, and the first event after it
   is refused (so SetTarget/Reset start from the state a new unfolder has; the stack depths of
   the Go unfolder are compared with a fresh one through the verif hooks). *)
Theorem C14_document_exact : forall tr fuel t old rest v r,
  uf fuel t old (flatten (expand_tree tr) ++ rest) = UOk v r -> r = rest.
Proof. exact C17_exact. Qed.
Print Assumptions C14_document_exact.

Theorem C14_after_done_refused : forall tr t old v e evs2,
  unfold_value t old (flatten tr) = UDone v ->
  unfold_value t old (flatten tr ++ e :: evs2) = UFail (length (flat_map expand (flatten tr))).
Proof. exact C17_after_done. Qed.
Print Assumptions C14_after_done_refused.

(* "either succeeds or returns an error": on the events of a COMPLETE document - any tree, any
   target type, any previous content - the unfolder model decides: it completes, or fails at
   an event of the document, or refuses the target type at setup; it never waits for more
   (the fuel of unfold_value is proved adequate); and on a proper prefix it is never done. *)
From SF Require Gotype.UnfoldStructProofs.
Theorem C14_complete_stream_decided : forall t old tr,
  (exists e, unfold_value t old (flatten tr) = USetupErr e) \/
  (exists v, unfold_value t old (flatten tr) = UDone v) \/
  (exists i, unfold_value t old (flatten tr) = UFail i /\ (i < SF.Gotype.UnfoldStructProofs.doc_len tr)%nat).
Proof. exact SF.Gotype.UnfoldStructProofs.C14_complete_stream_decided. Qed.
Print Assumptions C14_complete_stream_decided.

Theorem C14_prefix_not_done : forall t old tr p q,
  flatten tr = p ++ q -> q <> [] -> forall v, unfold_value t old p <> UDone v.
Proof. exact SF.Gotype.UnfoldStructProofs.C14_prefix_not_done. Qed.
Print Assumptions C14_prefix_not_done.
