(* C19 - independent instances can be used concurrently without interference.
   Statements only; the generic proof is in Conc/NonInterference.v, the table
   [Gen.Globals_gen.globals] is regenerated from /repo's Go sources by tools/globals on
   every run of the check. *)
From SF Require Import Base.Prelude Conc.NonInterference.
From Gen Require Import Globals_gen.

(* The footprint premise, discharged by computation on the regenerated table: no
   package-level variable of the library packages (structform, cborl, ubjson, json, gotype,
   internal/unsafe, visitors) is assigned, written through, address-taken outside init(),
   and none that refers to writable shared memory is handed on. *)
Theorem C19_globals_frozen : globals_frozen globals = true.
Proof. vm_compute. reflexivity. Qed.
Print Assumptions C19_globals_frozen.

(* With that footprint an operation reads the frozen package state and reads/writes only the
   instance it is called on, i.e. it is a function [step : G -> I -> O -> I * R].  For EVERY
   such step function, every number of instances and EVERY schedule (interleaving) of their
   operations, each instance ends in the state and returns the results of running its own
   operations alone. *)
Theorem C19_interleaving_irrelevant : forall (G I O R : Type) (step : G -> I -> O -> I * R) g sched s i,
  fst (run_sys G I O R step g s sched) i = fst (run_seq G I O R step g (s i) (proj i sched)) /\
  proj i (snd (run_sys G I O R step g s sched)) = snd (run_seq G I O R step g (s i) (proj i sched)).
Proof. intros. apply interleaving_irrelevant. Qed.
Print Assumptions C19_interleaving_irrelevant.

(* Non-vacuity: the table is the real one (hundreds of variables, among them the shared maps). *)
Example C19_table_nonempty : (100 <? zlen globals) = true /\
  existsb (fun g => match g_class g with CShared => true | _ => false end) globals = true.
Proof. vm_compute. split; reflexivity. Qed.
