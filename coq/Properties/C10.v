(* C10 - extended events mean exactly their expansion into basic events.
   Statements only; proofs are in Core/EventsProofs.v. *)
From SF Require Import Base.Prelude Core.Events Core.EventsProofs Core.AdapterProofs.

(* Wrapped plain visitors (structform.EnsureExtVisitor around a Visitor that has none
   of the extended interfaces): for every extended event - each of the 15 typed
   array events, 14 typed map events, OnStringRef and OnKeyRef, with arbitrary
   contents - the adapter model delivers to the wrapped visitor exactly the
   expansion, after whatever was delivered before, and succeeds. *)
Theorem C10_wrap : forall e s, s_fail s = None ->
  exists s', adapter s e = (s', true) /\ s_fail s' = None /\ s_log s' = s_log s ++ expand e.
Proof. intros e s H. exact (adapter_is_expand e s H). Qed.
Print Assumptions C10_wrap.

(* The expansion has the same value and is well-formed whenever the extended event is,
   at any position and depth of a stream. *)
Theorem C10_expansion_same_value : forall evs t, stream_tree evs = Some t ->
  exists t', stream_tree (flat_map expand evs) = Some t' /\ value_of t' = value_of t.
Proof. exact expand_stream_value. Qed.
Print Assumptions C10_expansion_same_value.

Theorem C10_expansion_wellformed : forall evs, contract_ok evs = true -> contract_ok (flat_map expand evs) = true.
Proof. exact C09_expand_stream. Qed.
Print Assumptions C10_expansion_wellformed.
