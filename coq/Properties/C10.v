(* C10 - extended events mean exactly their expansion into basic events.
   Statements only; proofs are in Core/EventsProofs.v. *)
From SF Require Import Base.Prelude Core.Events Core.EventsProofs.

(* Wrapped plain visitors (structform.EnsureExtVisitor around a Visitor that has none
   of the extended interfaces): for every extended event - each of the 15 typed
   array events, 14 typed map events, OnStringRef and OnKeyRef, with arbitrary
   contents - the adapter model delivers to the wrapped visitor exactly the
   expansion, after whatever was delivered before, and succeeds. *)
Theorem C10_wrap : forall e s, s_fail s = None ->
  exists s', adapter s e = (s', true) /\ s_fail s' = None /\ s_log s' = s_log s ++ expand e.
Proof. intros e s H. exact (adapter_is_expand e s H). Qed.
Print Assumptions C10_wrap.
