(* C10 - extended events mean exactly their expansion into basic events.
   Statements only; proofs are in Core/EventsProofs.v. *)
From SF Require Import Base.Prelude Core.Events Core.EventsProofs Core.AdapterProofs Cbor.Spec Cbor.Enc Ubjson.Spec Ubjson.Enc Ubjson.Img Json.Enc.
From SF Require Core.ExtendedProofs.

(* Wrapped plain visitors (structform.EnsureExtVisitor around a Visitor that has none
   of the extended interfaces): for every extended event - each of the 15 typed
   array events, 14 typed map events, OnStringRef and OnKeyRef, with arbitrary
   contents - the adapter model delivers to the wrapped visitor exactly the
   expansion, after whatever was delivered before, and succeeds. *)
Theorem C10_wrap : forall e s, s_fail s = None ->
  exists s', adapter s e = (s', true) /\ s_fail s' = None /\ s_log s' = s_log s ++ expand e.
Proof. intros e s H. exact (adapter_is_expand e s H). Qed.
Print Assumptions C10_wrap.

(* The expansion has the same value and is well-formed whenever the extended event is,
   at any position and depth of a stream. *)
Theorem C10_expansion_same_value : forall evs t, stream_tree evs = Some t ->
  exists t', stream_tree (flat_map expand evs) = Some t' /\ value_of t' = value_of t.
Proof. exact expand_stream_value. Qed.
Print Assumptions C10_expansion_same_value.

Theorem C10_expansion_wellformed : forall evs, contract_ok evs = true -> contract_ok (flat_map expand evs) = true.
Proof. exact C09_expand_stream. Qed.
Print Assumptions C10_expansion_wellformed.

(* CBOR encoder, from ANY encoder state (any position inside any enclosing containers, after
   any output) and for every well-formed tree: writing the tree and writing its expansion into
   basic events both succeed, leave the length stack exactly as it was (so whatever is written
   next is unaffected), and the bytes each appends decode - followed by any rest - to the same
   value. *)
Theorem C10_cbor_enc : forall t, wf_tree t = true -> SF.Core.ExtendedProofs.cbor_small t = true ->
  forall e i, w_fail (ce_w e) = None ->
  exists e1 bs1 e2 bs2,
    cbor_run e (flatten t) i = (e1, None) /\ cbor_run e (flat_map expand (flatten t)) i = (e2, None) /\
    ce_len e1 = ce_len e /\ ce_len e2 = ce_len e /\ w_fail (ce_w e1) = None /\ w_fail (ce_w e2) = None /\
    w_bytes (ce_w e1) = w_bytes (ce_w e) ++ bs1 /\ w_bytes (ce_w e2) = w_bytes (ce_w e) ++ bs2 /\
    forall rest fuel, (length (bs1 ++ rest) < fuel)%nat -> (length (bs2 ++ rest) < fuel)%nat ->
      cbor_ref fuel (bs1 ++ rest) = RValue (cv (value_of t)) rest /\
      cbor_ref fuel (bs2 ++ rest) = RValue (cv (value_of t)) rest.
Proof. exact SF.Core.ExtendedProofs.C10_cbor_enc. Qed.
Print Assumptions C10_cbor_enc.

(* UBJSON encoder: the consumer state is the same for EVERY tree; the decoded values are the
   same exactly when no typed unsigned container mixes values above and below MaxInt64 -
   the recorded finding F1, proved to be real on the wire. *)
Theorem C10_ubj_enc_state : forall t e i, w_fail (ue_w e) = None ->
  exists e1 e2, ubj_run e (flatten t) i = (e1, None) /\ ubj_run e (flat_map expand (flatten t)) i = (e2, None) /\
                ue_len e1 = ue_len e /\ ue_len e2 = ue_len e.
Proof. exact SF.Core.ExtendedProofs.C10_ubj_enc_state. Qed.
Print Assumptions C10_ubj_enc_state.

Theorem C10_ubj_same_value_iff : forall t, wf_tree t = true ->
  (ubj_img (expand_tree t) = ubj_img t <-> SF.Core.ExtendedProofs.no_mixed_h t = true).
Proof. exact SF.Core.ExtendedProofs.ubj_img_expand_iff. Qed.
Print Assumptions C10_ubj_same_value_iff.

Theorem C10_ubj_typed_h_refuted : exists t bs1 bs2 v1 v2, wf_tree t = true /\
  ubj_encode (flatten t) = Some bs1 /\ ubj_encode (flat_map expand (flatten t)) = Some bs2 /\
  ubj_decode bs1 = RValue v1 [] /\ ubj_decode bs2 = RValue v2 [] /\ v1 <> v2.
Proof. exact SF.Core.ExtendedProofs.C10_ubj_typed_h_refuted_wire. Qed.
Print Assumptions C10_ubj_typed_h_refuted.

(* JSON encoder: for any events, any state, failing writer or not, the run on the events and
   the run on their expansion end in the same state with the same error (only the index of
   the failing call differs: an extended event is one call, its expansion several). *)
Theorem C10_json_enc : forall (ffmt : Z -> Z -> bytes) cfg evs e i j,
  SF.Core.ExtendedProofs.jrun_forget (json_run cfg ffmt e evs i) =
  SF.Core.ExtendedProofs.jrun_forget (json_run cfg ffmt e (flat_map expand evs) j).
Proof. exact SF.Core.ExtendedProofs.json_run_expand_forget. Qed.
Print Assumptions C10_json_enc.

(* The unfolder (Gotype/Unfold.v), for every target type, previous content and event list:
   an extended event is treated exactly as its expansion into basic events, and by-reference
   or by-value delivery of any subset of strings and keys makes no difference. *)
From SF Require Gotype.Types Gotype.Unfold Gotype.UnfoldProofs.
Theorem C10_unfold_expand : forall t old evs,
  SF.Gotype.Unfold.unfold_value t old (flat_map expand evs) = SF.Gotype.Unfold.unfold_value t old evs.
Proof. exact SF.Gotype.UnfoldProofs.C10_unfold_expand. Qed.
Print Assumptions C10_unfold_expand.

Theorem C10_unfold_byref : forall t old evs evs',
  Forall2 SF.Gotype.UnfoldProofs.ref_equiv evs evs' ->
  SF.Gotype.Unfold.unfold_value t old evs = SF.Gotype.Unfold.unfold_value t old evs'.
Proof. exact SF.Gotype.UnfoldProofs.C10_unfold_byref. Qed.
Print Assumptions C10_unfold_byref.

Theorem C10_unfold_tree : forall t old tr,
  SF.Gotype.Unfold.unfold_value t old (flatten tr) =
  SF.Gotype.Unfold.unfold_value t old (flatten (SF.Core.AdapterProofs.expand_tree tr)).
Proof. exact SF.Gotype.UnfoldProofs.C10_unfold_tree. Qed.
Print Assumptions C10_unfold_tree.
