(* C06 - the UBJSON parser reads every valid draft-12 value with its specified value.
   Statements only; proofs are in Ubjson/ConformanceProofs.v. *)
From SF Require Import Base.Prelude Core.Events Ubjson.Spec Ubjson.Parse Ubjson.ConformanceProofs.

(* Whenever the draft-12 reference decoder (Ubjson/Spec.v: all scalar markers incl. no-op,
   char and high-precision numbers, strings with any length marker, plain / counted /
   typed-and-counted arrays and objects nested to any depth, no-ops between elements)
   accepts the whole input with value v, the parser model accepts it and its events are a
   well-formed stream with exactly that value.  [no_huge_zero_typed] excludes only the
   recorded finding F2: the counts announced by "$Z#", "$T#", "$F#" patterns may not sum to
   more than 5*len+8000. *)
Theorem C06_accept : forall b v, all_bytes b = true -> (zlen b <=? 9223372036854775807) = true ->
  no_huge_zero_typed b = true -> ubj_decode b = RValue v [] ->
  exists evs t p, urun_parse None b = Ok (evs, unilE, p) /\ stream_tree evs = Some t /\
                  wf_tree t = true /\ cv (value_of t) = v.
Proof. exact ConformanceProofs.C06_accept. Qed.
Print Assumptions C06_accept.

(* The announced element type of an optimized container applies to exactly that
   container's elements and to nothing after it: after ANY value - a typed container of any
   element type included - in any context and at any depth, the state, element-type and
   length stacks are exactly what they were before it. *)
Theorem C06_scope : forall f m r v rest p s,
  ubj_payload f m r = RValue v rest -> is_value_marker m = true -> all_bytes r = true ->
  uctx p -> s_fail s = None ->
  exists t n p', wf_tree t = true /\ cv (value_of t) = v /\ all_bytes rest = true /\ same_stacks p p' /\
    reaches (vwrap p (ustep_value p s (m :: r)))
            (UR p' (sadd s (flatten t)) rest (zlen (up_stack p) =? 0) unilE) n.
Proof. exact ConformanceProofs.C06_scope. Qed.
Print Assumptions C06_scope.

(* The guard is necessary (the finding, as a refutation with a concrete witness). *)
Example C06_zero_typed_refuted :
  ubj_decode [91;36;90;35;73;39;16] <> RTruncated /\ urun_parse None [91;36;90;35;73;39;16] = OutOfFuel.
Proof. vm_compute. split; [discriminate | reflexivity]. Qed.
