(* C09 - every producer emits only well-formed event streams (Visitor contract).
   Statements only; proofs are in Core/AdapterProofs.v. *)
From SF Require Import Base.Prelude Core.Events Core.EventsProofs Core.AdapterProofs Cbor.Spec Cbor.Parse Cbor.ConformanceProofs Cbor.ComposeProofs Gotype.Types Gotype.Fold Gotype.FoldProofs Ubjson.Spec Ubjson.Parse.
From SF Require Ubjson.ConformanceProofs.

(* The contract monitor [contract_ok] (balanced and properly nested starts/finishes, one
   key before every member value, an announced non-negative length equals the number of
   elements, an announced element type is respected) accepts exactly the flattenings of
   well-formed trees - the monitor is sound and complete for the contract. *)
Theorem C09_monitor_exact : forall evs,
  contract_ok evs = true <-> exists t, evs = flatten t /\ norm t = t /\ wf_tree t = true.
Proof. exact contract_ok_iff. Qed.
Print Assumptions C09_monitor_exact.

(* Adapters (array.go, map.go, string.go): the basic events synthesised for every
   well-typed extended event obey the contract ... *)
Theorem C09_adapter_arr : forall bt es, forallb (xelem_ok bt) es = true ->
  contract_ok (expand (EXArr bt es)) = true.
Proof. exact AdapterProofs.C09_adapter_arr. Qed.
Print Assumptions C09_adapter_arr.

Theorem C09_adapter_obj : forall bt ms,
  forallb (fun m => all_bytes (fst m) && xelem_ok bt (snd m)) ms = true ->
  contract_ok (expand (EXObj bt ms)) = true.
Proof. exact C09_adapter_obj_nobyte. Qed.
Print Assumptions C09_adapter_obj.

(* ... and a whole well-formed stream pushed through the adapters (extended events at any
   position and depth) reaches the wrapped plain visitor as a well-formed stream with the
   same value. *)
Theorem C09_adapter_stream : forall evs s, s_fail s = None -> contract_ok evs = true ->
  exists s', adapter_all s evs = (s', true) /\ s_log s' = s_log s ++ flat_map expand evs /\
             contract_ok (flat_map expand evs) = true.
Proof. exact C09_adapter_all. Qed.
Print Assumptions C09_adapter_stream.

(* CBOR parser: on every item the reference decoder accepts, the events obey the contract
   (announced definite lengths match, ByteType arrays hold bytes, keys precede values). *)
Theorem C09_cbor_parser : forall b v, all_bytes b = true -> (zlen b <=? MaxInt64) = true ->
  cbor_decode b = RValue v [] ->
  exists evs, run_parse None b = Ok (evs, nilE) /\ contract_ok evs = true.
Proof. exact ConformanceProofs.C09_cbor_parser. Qed.
Print Assumptions C09_cbor_parser.

(* Fold: for every well-typed Go value of every type of the universe and every combination
   of tag options, a successful fold emits a well-formed stream: balanced, one key per
   member, the announced member count right (or unknown, -1, when omitempty/inline fields
   make it depend on the value), typed fast-path events well typed. *)
Theorem C09_fold : forall t v evs,
  has_type t v = true -> fold_value t v = (evs, None) -> contract_ok evs = true.
Proof. exact FoldProofs.C09_fold. Qed.
Print Assumptions C09_fold.

(* CBOR parser, EVERY accepted input (not only reference-valid ones: the parser accepts
   nothing else): the events are the concatenation of well-formed values, one per
   top-level item, with the values the reference decoder assigns. *)
Theorem C09_cbor_accepted : forall b evs, all_bytes b = true -> (zlen b <=? MaxInt64) = true ->
  run_parse None b = Ok (evs, nilE) ->
  exists ts, evs = flat_map flatten ts /\ forallb wf_tree ts = true /\
             cbor_decode_all (S (length b)) b = Some (map (fun t => cv (value_of t)) ts).
Proof. exact C09_cbor_accepted_wf. Qed.
Print Assumptions C09_cbor_accepted.

(* UBJSON parser: on every value the reference decoder accepts the events obey the contract
   (counted containers hold exactly their count, typed arrays only elements of their type,
   no-ops are not counted). *)
Theorem C09_ubj_parser : forall b v, all_bytes b = true -> (zlen b <=? 9223372036854775807) = true ->
  SF.Ubjson.ConformanceProofs.no_huge_zero_typed b = true -> ubj_decode b = RValue v [] ->
  exists evs p, urun_parse None b = Ok (evs, unilE, p) /\ contract_ok evs = true.
Proof. exact SF.Ubjson.ConformanceProofs.C09_ubj_parser. Qed.
Print Assumptions C09_ubj_parser.

(* JSON parser: for every text the RFC 8259 reference decoder accepts - one document or a
   whitespace-separated stream of documents - the parser model accepts it, in Parse mode and
   in EVERY chunking, and the delivered events satisfy the contract monitor.  (pf = ParseFloat
   returns 64-bit patterns.) *)
From SF Require Json.Spec Json.Parse Core.ComposeProofs.
Theorem C09_json_parser : forall (pf : bytes -> option Z),
  (forall l z, pf l = Some z -> in_u 64 z = true) ->
  forall b v, all_bytes b = true -> SF.Json.Spec.json_decode pf b = RValue v [] ->
  exists evs p, SF.Json.Parse.jrun_parse pf None b = Ok (evs, SF.Json.Parse.jpnil, p) /\ contract_ok evs = true /\
    forall cs, concat cs = b -> exists p', SF.Json.Parse.jrun_chunks pf None cs = Ok (evs, SF.Json.Parse.jpnil, p').
Proof. exact SF.Core.ComposeProofs.C09_json_parser. Qed.
Print Assumptions C09_json_parser.

Theorem C09_json_parser_stream : forall (pf : bytes -> option Z),
  (forall l z, pf l = Some z -> in_u 64 z = true) ->
  forall fuel b vs, all_bytes b = true -> SF.Json.Spec.json_decode_all pf fuel b = Some vs ->
  exists ts p, SF.Json.Parse.jrun_parse pf None b = Ok (flat_map flatten ts, SF.Json.Parse.jpnil, p) /\
    Forall (fun t => contract_ok (flatten t) = true) ts /\
    map (fun t => cv (value_of t)) ts = vs /\
    forall cs, concat cs = b ->
      exists p', SF.Json.Parse.jrun_chunks pf None cs = Ok (flat_map flatten ts, SF.Json.Parse.jpnil, p').
Proof. exact SF.Core.ComposeProofs.C09_json_parser_stream. Qed.
Print Assumptions C09_json_parser_stream.

(* EVERY accepted input - not only the inputs a reference decoder accepts: the JSON parser is
   deliberately lenient (+1, 01, \', further white space characters), the UBJSON parser accepts
   inputs outside the reference decoder's domain - for any visitor behaviour, in Parse mode and
   in any chunking: the delivered events are the flattening of a list of well-formed trees
   (balanced, keys before member values, announced counts equal to the elements delivered,
   elements of typed containers matching the announced type, numbers in range of their kind).
   (A list, because both parsers accept several top-level values and the empty input.) *)
From SF Require Json.AcceptedProofs Ubjson.AcceptedProofs.
Theorem C09_json_accepted : forall (pf : bytes -> option Z),
  (forall l z, pf l = Some z -> in_u 64 z = true) ->
  forall vfail b evs p, all_bytes b = true ->
  SF.Json.Parse.jrun_parse pf vfail b = Ok (evs, SF.Json.Parse.jpnil, p) ->
  exists ts, evs = flat_map flatten ts /\ forallb wf_tree ts = true.
Proof. exact SF.Json.AcceptedProofs.C09_json_accepted. Qed.
Print Assumptions C09_json_accepted.

Theorem C09_json_accepted_chunks : forall (pf : bytes -> option Z),
  (forall l z, pf l = Some z -> in_u 64 z = true) ->
  forall vfail cs evs p, all_bytes (concat cs) = true ->
  SF.Json.Parse.jrun_chunks pf vfail cs = Ok (evs, SF.Json.Parse.jpnil, p) ->
  exists ts, evs = flat_map flatten ts /\ forallb wf_tree ts = true.
Proof. exact SF.Json.AcceptedProofs.C09_json_accepted_chunks. Qed.
Print Assumptions C09_json_accepted_chunks.

Theorem C09_ubj_accepted : forall vfail b evs p, all_bytes b = true ->
  SF.Ubjson.Parse.urun_parse vfail b = Ok (evs, SF.Ubjson.Parse.unilE, p) ->
  exists ts, evs = flat_map flatten ts /\ forallb wf_tree ts = true.
Proof. exact SF.Ubjson.AcceptedProofs.C09_ubj_accepted. Qed.
Print Assumptions C09_ubj_accepted.

Theorem C09_ubj_accepted_chunks : forall vfail cs evs p, forallb all_bytes cs = true ->
  SF.Ubjson.Parse.urun_chunks vfail cs = Ok (evs, SF.Ubjson.Parse.unilE, p) ->
  exists ts, evs = flat_map flatten ts /\ forallb wf_tree ts = true.
Proof. exact SF.Ubjson.AcceptedProofs.C09_ubj_accepted_chunks. Qed.
Print Assumptions C09_ubj_accepted_chunks.

From SF Require Core.Visitors Core.VisitorsProofs.
(* Inlining (gotype/fold_inline.go through visitors/expect_obj.go): the filter placed in front
   of the visitor while an inlined value is folded lets every value inside the outermost
   object through (typed containers as their expansion), at any depth ... *)
Theorem C09_inline_filter_passes : forall t d s, 1 <= d -> s_fail s = None ->
  SF.Core.Visitors.eo_run (SF.Core.VisitorsProofs.at_depth d s) (flatten t) =
  (SF.Core.VisitorsProofs.at_depth d (SF.Core.VisitorsProofs.push (SF.Core.VisitorsProofs.xflat (flatten t)) s),
   SF.Core.Visitors.EoNone).
Proof. exact SF.Core.VisitorsProofs.every_tree_passes. Qed.
Print Assumptions C09_inline_filter_passes.

(* ... so that a well-formed object arrives as a sequence of members of a well-formed object with
   the same keys and values, and the filter is done (depth 0) afterwards ... *)
Theorem C09_inline_members_wf : forall len bt ms s, s_fail s = None ->
  wf_tree (TObj len bt ms) = true ->
  exists ms',
    SF.Core.Visitors.eo_run (SF.Core.Visitors.eo0 s) (flatten (TObj len bt ms)) =
      (SF.Core.Visitors.eo0 (SF.Core.VisitorsProofs.push (flatten_members ms') s), SF.Core.Visitors.EoNone) /\
    wf_tree (TObj len bt ms') = true /\
    map (fun m => (fst (fst m), value_of (snd m))) ms' = map (fun m => (fst (fst m), value_of (snd m))) ms.
Proof. exact SF.Core.VisitorsProofs.C09_inline_members_wf. Qed.
Print Assumptions C09_inline_members_wf.

(* ... while a value that is not an object is refused at its first event and nothing reaches the
   visitor (the enclosing object is not damaged). *)
Theorem C09_inline_non_object_refused : forall t s, SF.Core.VisitorsProofs.is_object t = false ->
  SF.Core.Visitors.eo_run (SF.Core.Visitors.eo0 s) (flatten t) = (SF.Core.Visitors.eo0 s, SF.Core.Visitors.EoNotObject).
Proof. exact SF.Core.VisitorsProofs.inline_non_object_refused. Qed.
Print Assumptions C09_inline_non_object_refused.
