(* C16 - sink and visitor errors are reported to the caller, promptly and unchanged.
   Statements only; proofs are in Cbor/EncProofs.v. *)
From SF Require Import Base.Prelude Core.Events Cbor.Enc Cbor.EncProofs.

(* CBOR encoder, every call sequence and every failure index k: when the writer
   fails at its k-th write (0-based) and keeps failing, and nevertheless every
   encoder call returned nil, then write k was never attempted - i.e. a failed write
   is always reported by the call that made it (no write error is lost). *)
Theorem C16_cbor_enc : forall evs e' k,
  cbor_run (cenc0 (Some k)) evs 0 = (e', None) -> (w_n (ce_w e') <= k)%nat.
Proof. exact C16_cbor_enc0. Qed.
Print Assumptions C16_cbor_enc.
