(* C16 - sink and visitor errors are reported to the caller, promptly and unchanged.
   Statements only; proofs are in Cbor/EncProofs.v. *)
From SF Require Import Base.Prelude Core.Events Core.EventsProofs Core.AdapterProofs Cbor.Enc Cbor.EncProofs Json.Enc Json.EncProofs Ubjson.Enc Ubjson.EncProofs Cbor.Parse.
From SF Require Cbor.ParseVisitorProofs.
From SF Require Import Gotype.Types Gotype.Fold.
From SF Require Core.ExtendedProofs.

(* CBOR encoder, every call sequence and every failure index k: when the writer
   fails at its k-th write (0-based) and keeps failing, and nevertheless every
   encoder call returned nil, then write k was never attempted - i.e. a failed write
   is always reported by the call that made it (no write error is lost). *)
Theorem C16_cbor_enc : forall evs e' k,
  cbor_run (cenc0 (Some k)) evs 0 = (e', None) -> (w_n (ce_w e') <= k)%nat.
Proof. exact C16_cbor_enc0. Qed.
Print Assumptions C16_cbor_enc.

(* JSON encoder, every option setting, float formatter, call sequence and failure index:
   the same statement, and a call that fails returns either the writer's error (class 99)
   or the refusal of a non-finite float (class 1) - nothing else, nothing swallowed. *)
Theorem C16_json_enc : forall (ffmt : Z -> Z -> bytes) cfg evs e' k,
  json_run cfg ffmt (jenc0 (Some k)) evs 0 = JRun e' None -> (w_n (je_w e') <= k)%nat.
Proof. exact C16_json_enc0. Qed.
Print Assumptions C16_json_enc.

Theorem C16_json_enc_error_unchanged : forall (ffmt : Z -> Z -> bytes) cfg evs e i e' j err,
  json_run cfg ffmt e evs i = JRun e' (Some (j, err)) ->
  err = 99 \/ (err = 1 /\ ignore_invalid cfg = false).
Proof. exact C16_json_err_class_strong. Qed.
Print Assumptions C16_json_enc_error_unchanged.

(* Adapters (extended event -> basic events for a plain visitor), for every extended
   event, every visitor state and every failure index: the visitor receives a prefix of
   the expansion; if the adapter returns nil it is the whole expansion and no call failed;
   if it returns the error, the last call made is the first failing one (index
   max k (s_n s)) - no event is delivered after the visitor failed. *)
Theorem C16_adapter : forall e s s' ok, adapter s e = (s', ok) ->
  exists pre, s_log s' = s_log s ++ pre /\ (exists suf, expand e = pre ++ suf) /\
    s_n s' = (s_n s + length pre)%nat /\ s_fail s' = s_fail s /\
    (ok = true -> pre = expand e /\ forall k, s_fail s = Some k -> (s_n s' <= k)%nat) /\
    (ok = false -> exists k, s_fail s = Some k /\ s_n s' = S (Nat.max k (s_n s)) /\
        length pre = S (k - s_n s) /\ (k < s_n s + length (expand e))%nat).
Proof. exact AdapterProofs.C16_adapter. Qed.
Print Assumptions C16_adapter.

(* UBJSON encoder: the same statement. *)
Theorem C16_ubj_enc : forall evs e' k,
  ubj_run (uenc0 (Some k)) evs 0 = (e', None) -> (w_n (ue_w e') <= k)%nat.
Proof. exact C16_ubj_enc0. Qed.
Print Assumptions C16_ubj_enc.

(* CBOR parser, every input, chunking and failure index k: the run with a visitor that fails
   from its k-th call on delivers EXACTLY the first k+1 events of the unfailing run - nothing
   after the failing event - and returns the visitor's error unchanged (or, when the visitor
   never got that far, the same verdict as the unfailing run). *)
Theorem C16_cbor_parser : forall k chunks evs0 e0,
  run_chunks None chunks = Ok (evs0, e0) ->
  run_chunks (Some k) chunks =
    Ok (firstn (S k) evs0, if (length evs0 <=? k)%nat then e0 else eVisitor).
Proof. exact SF.Cbor.ParseVisitorProofs.C16_cbor_parse_fail_spec. Qed.
Print Assumptions C16_cbor_parser.

(* Fold: with a visitor failing from its k-th call on, exactly the first k+1 events of the
   fold are delivered, and the injected error is what Fold returns (when the fold has at most
   k events, its own verdict comes back). *)
Theorem C16_fold : forall k t v s' r, fold_into (sink0 (Some k)) t v = (s', r) ->
  let evs := fst (fold_value t v) in
  s_log s' = firstn (S k) evs /\ length (s_log s') = Nat.min (length evs) (S k) /\
  ((length evs > k)%nat -> r = Some err_injected) /\
  ((length evs <= k)%nat -> r = snd (fold_value t v) /\ s_log s' = evs).
Proof. exact SF.Core.ExtendedProofs.C16_fold. Qed.
Print Assumptions C16_fold.

(* UBJSON parser, every input, chunking (Write ... Write, then end) and failure index k: the
   failing run is determined by the unfailing one - exactly the first k+1 events, nothing after
   the failing event, the visitor's error returned unchanged (or, when the visitor never got
   that far, the same verdict and the same final parser).  Same for Parse. *)
From SF Require Ubjson.Parse Ubjson.ParseVisitorProofs.
Module UP := SF.Ubjson.Parse.
Module UV := SF.Ubjson.ParseVisitorProofs.
Theorem C16_ubj_parser : forall k chunks evs0 e0 p0,
  UP.urun_chunks None chunks = Ok (evs0, e0, p0) ->
  exists p, UP.urun_chunks (Some k) chunks =
              Ok (firstn (S k) evs0, (if (length evs0 <=? k)%nat then e0 else UP.ueVisitor), p) /\
            ((length evs0 <= k)%nat -> p = p0).
Proof. exact UV.C16_ubj_parse_fail_spec. Qed.
Print Assumptions C16_ubj_parser.

Theorem C16_ubj_parser_parse : forall k b evs0 e0 p0,
  UP.urun_parse None b = Ok (evs0, e0, p0) ->
  exists p, UP.urun_parse (Some k) b =
              Ok (firstn (S k) evs0, (if (length evs0 <=? k)%nat then e0 else UP.ueVisitor), p) /\
            ((length evs0 <= k)%nat -> p = p0).
Proof. exact UV.C16_ubj_run_parse_fail_spec. Qed.
Print Assumptions C16_ubj_parser_parse.

Theorem C16_ubj_parser_prompt : forall k chunks evs e p,
  UP.urun_chunks (Some k) chunks = Ok (evs, e, p) ->
  (length evs <= S k)%nat /\ (length evs = S k -> e = UP.ueVisitor).
Proof. exact UV.C16_ubj_parse_prompt. Qed.
Print Assumptions C16_ubj_parser_prompt.

(* JSON parser, every input, chunking and failure index k, any float oracle: both runs return
   (totality), and the failing run delivers exactly the first k+1 events of the unfailing run
   and returns the visitor's error unchanged. *)
From SF Require Json.Parse Json.ParseVisitorProofs.
Module JP := SF.Json.Parse.
Module JV := SF.Json.ParseVisitorProofs.
Theorem C16_json_parser : forall (pf : bytes -> option Z) k chunks evs0 e0 p0,
  JP.jrun_chunks pf None chunks = Ok (evs0, e0, p0) ->
  exists p, JP.jrun_chunks pf (Some k) chunks =
      Ok (firstn (S k) evs0, (if (length evs0 <=? k)%nat then e0 else JP.jeVisitor), p) /\
    ((length evs0 <= k)%nat -> p = p0).
Proof. exact JV.C16_json_parse_fail_spec. Qed.
Print Assumptions C16_json_parser.

Theorem C16_json_parser_parse : forall (pf : bytes -> option Z) k b evs0 e0 p0,
  JP.jrun_parse pf None b = Ok (evs0, e0, p0) ->
  exists p, JP.jrun_parse pf (Some k) b =
      Ok (firstn (S k) evs0, (if (length evs0 <=? k)%nat then e0 else JP.jeVisitor), p) /\
    ((length evs0 <= k)%nat -> p = p0).
Proof. exact JV.C16_json_run_parse_fail_spec. Qed.
Print Assumptions C16_json_parser_parse.

Theorem C16_json_parser_prompt : forall (pf : bytes -> option Z) k chunks evs e p,
  JP.jrun_chunks pf (Some k) chunks = Ok (evs, e, p) ->
  (length evs <= S k)%nat /\ (length evs = S k -> e = JP.jeVisitor).
Proof. exact JV.C16_json_parse_prompt. Qed.
Print Assumptions C16_json_parser_prompt.

From SF Require Core.Visitors Core.VisitorsProofs.
(* The inline filter (visitors/expect_obj.go) in front of a visitor that fails from its k-th call
   on: for EVERY event list the visitor is handed at most k+1 events, and it has been handed k+1
   exactly when the run stopped with the visitor's error. *)
Theorem C16_inline_filter : forall k evs log err done,
  SF.Core.Visitors.eo_observe (Some k) evs = (log, err, done) ->
  (length log <= S k)%nat /\ (length log = S k <-> err = SF.Core.Visitors.EoTarget).
Proof. exact SF.Core.VisitorsProofs.C16_inline_filter_top. Qed.
Print Assumptions C16_inline_filter.

(* A caller that does not stop at the first error.  Parser.Write (all formats) and Parser.Parse
   (cborl, ubjson) start with `if p.err != nil { return p.err }` and record their result
   (Core/Latch.v wraps exactly that around the component models).  Once a call has returned an
   error, every further Write / Parse returns that same error, the visitor sees no further event
   of the failed document, and the parser state is not touched again. *)
From SF Require Core.Latch Core.LatchProofs.
Theorem C16_failed_document_stays_failed_cbor : forall st s i st' s' e,
  SF.Core.Latch.latched SF.Cbor.Parse.isnil SF.Core.LatchProofs.cbor_call st s i = Ok (st', s', e) ->
  SF.Cbor.Parse.isnil e = false ->
  (forall e0, snd st = Some e0 -> SF.Cbor.Parse.isnil e0 = false) ->
  forall is, SF.Core.Latch.latched_all SF.Cbor.Parse.isnil SF.Core.LatchProofs.cbor_call st' s' is e = Ok (st', s', e).
Proof. exact SF.Core.LatchProofs.cbor_failed_stays_failed. Qed.
Print Assumptions C16_failed_document_stays_failed_cbor.

Theorem C16_failed_document_stays_failed_ubj : forall st s i st' s' e,
  SF.Core.Latch.latched SF.Ubjson.Parse.unil SF.Core.LatchProofs.ubj_call st s i = Ok (st', s', e) ->
  SF.Ubjson.Parse.unil e = false ->
  (forall e0, snd st = Some e0 -> SF.Ubjson.Parse.unil e0 = false) ->
  forall is, SF.Core.Latch.latched_all SF.Ubjson.Parse.unil SF.Core.LatchProofs.ubj_call st' s' is e = Ok (st', s', e).
Proof. exact SF.Core.LatchProofs.ubj_failed_stays_failed. Qed.
Print Assumptions C16_failed_document_stays_failed_ubj.

Theorem C16_failed_document_stays_failed_json : forall pf st s i st' s' e,
  SF.Core.Latch.latched SF.Json.Parse.jisnil (SF.Core.LatchProofs.json_call pf) st s i = Ok (st', s', e) ->
  SF.Json.Parse.jisnil e = false ->
  (forall e0, snd st = Some e0 -> SF.Json.Parse.jisnil e0 = false) ->
  forall is, SF.Core.Latch.latched_all SF.Json.Parse.jisnil (SF.Core.LatchProofs.json_call pf) st' s' is e = Ok (st', s', e).
Proof. exact SF.Core.LatchProofs.json_failed_stays_failed. Qed.
Print Assumptions C16_failed_document_stays_failed_json.
