(* C13 - unfolding assigns exactly the stream's value; unknown members are skipped.
   Statements only; proofs are in Gotype/UnfoldProofs.v. *)
From SF Require Import Base.Prelude Core.Events Core.EventsProofs Core.AdapterProofs.
From SF Require Import Gotype.Types Gotype.Conv Gotype.FoldSpec Gotype.Unfold Gotype.UnfoldSpec Gotype.UnfoldProofs.

(* interface{} target: for EVERY well-formed tree - any nesting, announced or unknown lengths,
   element-type hints, extended events, strings and keys by value or by reference - the
   unfolder model yields exactly the stream's value as generic Go data ([generic], the L0
   definition of Gotype/UnfoldSpec.v), whatever the target held before.  No size hypothesis:
   an announced length above 4096 pre-allocates 4096 elements and the rest is appended. *)
Theorem C13_generic : forall t old, wf_tree t = true -> unfold_value TIface old (flatten t) = UDone (generic t).
Proof. exact C13_generic_top. Qed.
Print Assumptions C13_generic.

(* ... and inside any enclosing stream (as element, member or field value), with any fuel
   that covers the value's own events *)
Theorem C13_generic_in_context : forall t old rest fuel,
  wf_tree t = true -> (length (flatten (expand_tree t)) <= fuel)%nat ->
  uf fuel TIface old (flatten (expand_tree t) ++ rest) = UOk (generic t) rest.
Proof. exact SF.Gotype.UnfoldProofs.C13_generic. Qed.
Print Assumptions C13_generic_in_context.

(* the generic value does not depend on whether extended events are expanded *)
Theorem C13_generic_expand : forall t, wf_tree t = true -> generic (expand_tree t) = generic t.
Proof. exact generic_expand. Qed.
Print Assumptions C13_generic_expand.

(* numbers are converted between all widths; a value that fits is unchanged *)
Theorem C13_conv_fits : forall k z, nkind_ok k z = true -> conv k k z = z.
Proof. exact conv_same_kind. Qed.
Print Assumptions C13_conv_fits.

(* Skipping: the value of an object member without a matching field - of every kind and
   nesting depth, however strings and keys are delivered - is consumed as a whole and exactly;
   the fuel is the one the struct unfolder passes. *)
Theorem C13_skip : forall t rest,
  skip_value (S (length (flatten (expand_tree t) ++ rest))) (flatten (expand_tree t) ++ rest) = SkOk rest.
Proof. exact C13_skip_struct_fuel. Qed.
Print Assumptions C13_skip.

(* while the skipped value is incomplete the ignore unfolder asks for more and never fails *)
Theorem C13_skip_incomplete : forall t p q fuel,
  flatten (expand_tree t) = p ++ q -> q <> [] -> skip_value fuel p = SkMore.
Proof. exact C13_skip_prefix. Qed.
Print Assumptions C13_skip_incomplete.

(* with any fuel a complete value is skipped exactly or not at all - never partially *)
Theorem C13_skip_exact_or_more : forall t rest fuel,
  skip_value fuel (flatten (expand_tree t) ++ rest) = SkOk rest \/
  skip_value fuel (flatten (expand_tree t) ++ rest) = SkMore.
Proof. exact C13_skip_total. Qed.
Print Assumptions C13_skip_exact_or_more.

(* by-reference or by-value delivery of any subset of the strings and keys is irrelevant for
   every target type *)
Theorem C13_byref_irrelevant : forall t old evs evs',
  Forall2 ref_equiv evs evs' -> unfold_value t old evs = unfold_value t old evs'.
Proof. exact C10_unfold_byref. Qed.
Print Assumptions C13_byref_irrelevant.

(* Typed targets.  [struct_spec] (Gotype/UnfoldStructProofs.v) is the short specification of
   what a struct target does with an object: the members are processed left to right; a
   member whose key is in the struct's field table (names through inlined structs included)
   updates that field with the result of unfolding the member's value into the field's
   current value; a member whose key is NOT in the table changes nothing; the first failing
   member fails the whole unfold.  For EVERY struct type (any field types, inlined structs),
   every previous target value and every object - any member keys, by value or by reference,
   any member values incl. extended events - the unfolder model computes exactly this. *)
From SF Require Gotype.UnfoldStructProofs.
Import SF.Gotype.UnfoldStructProofs.
Theorem C13_struct_spec : forall t fs tab old n bt (ms : list member) F,
  under t = TStruct fs -> field_table (S (ftsize t)) fs O = inr tab -> ucc_type t = None ->
  (doc_len (TObj n bt ms) + ftsize t <= S F)%nat ->
  unfold_value t old (flatten (TObj n bt ms)) =
  match struct_spec F tab old (map xmember ms) with
  | UOk v _ => UDone v
  | UErr x => UFail (doc_len (TObj n bt ms) - length x)
  end.
Proof. exact C13_struct_unfold_value. Qed.
Print Assumptions C13_struct_spec.

(* "leaves fields the stream does not mention untouched" *)
Theorem C13_unmentioned_untouched : forall t fs tab olds n bt (ms : list member) v i,
  under t = TStruct fs -> field_table (S (ftsize t)) fs O = inr tab ->
  unfold_value t (GStruct olds) (flatten (TObj n bt ms)) = UDone v ->
  untouched tab i ms = true ->
  exists vs, v = GStruct vs /\ length vs = length olds /\ nth i vs GNil = nth i olds GNil.
Proof. exact C13_unmentioned_untouched_doc. Qed.
Print Assumptions C13_unmentioned_untouched.

(* "skips each object member that has no matching struct field together with its entire
   arbitrarily nested value, however the producer delivers strings and keys": with or without
   such a member - at any position, with ANY tree as its value, whatever the object announces -
   the result is the same value, or fails in both cases *)
Theorem C13_unknown_member_irrelevant : forall t fs tab old n n' bt bt' (ms1 ms2 : list member) k b x,
  under t = TStruct fs -> field_table (S (ftsize t)) fs O = inr tab ->
  assoc_key k tab = None ->
  uresult_same (unfold_value t old (flatten (TObj n bt (ms1 ++ (k, b, x) :: ms2))))
               (unfold_value t old (flatten (TObj n' bt' (ms1 ++ ms2)))).
Proof. exact C13_unknown_member_irrelevant_doc. Qed.
Print Assumptions C13_unknown_member_irrelevant.

(* "assigns every field whose name and shape match, converting numbers between all numeric
   widths": the last member naming a scalar field leaves there the scalar, converted with the Go
   conversion [conv] when both are numbers (leaf_val; every numeric kind converts to every
   numeric kind - the model never refuses a number), by value or by reference *)
Theorem C13_matching_scalar_assigned : forall t fs tab olds n bt (ms1 ms2 : list member) k b s byref i ft lv v,
  under t = TStruct fs -> field_table (S (ftsize t)) fs O = inr tab ->
  assoc_key k tab = Some ([i], ft) -> (i < length olds)%nat ->
  leaf_val (under ft) (EVal s) = Some lv ->
  untouched tab i ms2 = true ->
  unfold_value t (GStruct olds) (flatten (TObj n bt (ms1 ++ (k, b, TVal s byref) :: ms2))) = UDone v ->
  exists vs, v = GStruct vs /\ length vs = length olds /\ nth i vs GNil = lv.
Proof. exact C13_matching_leaf_assigned_doc. Qed.
Print Assumptions C13_matching_scalar_assigned.

(* a scalar of the wrong shape for a scalar field is refused, not stored *)
Theorem C13_mismatching_scalar_refused : forall f tab cur (ms1 ms2 : list member) k b s path ft,
  assoc_key k tab = Some (path, ft) ->
  prim_kind ft = true -> leaf_val (under ft) (EVal s) = None ->
  ur_val (struct_spec (S f) tab cur (ms1 ++ (k, b, TVal s false) :: ms2)) = None.
Proof. exact C13_mismatching_scalar_fails. Qed.
Print Assumptions C13_mismatching_scalar_refused.

(* the order of members naming different fields does not matter (PARTIAL: members leading
   into the same inlined struct are not covered) *)
Theorem C13_member_order_irrelevant_partial : forall t fs tab old n n' bt bt' (ms ms' : list member),
  under t = TStruct fs -> field_table (S (ftsize t)) fs O = inr tab ->
  Permutation.Permutation ms ms' -> pairwise_indep tab ms ->
  uresult_same (unfold_value t old (flatten (TObj n bt ms))) (unfold_value t old (flatten (TObj n' bt' ms'))).
Proof. exact C13_member_order_irrelevant_doc_partial. Qed.
Print Assumptions C13_member_order_irrelevant_partial.
