(* C13 - unfolding assigns exactly the stream's value; unknown members are skipped.
   Statements only; proofs are in Gotype/UnfoldProofs.v. *)
From SF Require Import Base.Prelude Core.Events Core.EventsProofs Core.AdapterProofs.
From SF Require Import Gotype.Types Gotype.Conv Gotype.FoldSpec Gotype.Unfold Gotype.UnfoldSpec Gotype.UnfoldProofs.

(* interface{} target: for EVERY well-formed tree - any nesting, announced or unknown lengths,
   element-type hints, extended events, strings and keys by value or by reference - the
   unfolder model yields exactly the stream's value as generic Go data ([generic], the L0
   definition of Gotype/UnfoldSpec.v), whatever the target held before.  No size hypothesis:
   an announced length above 4096 pre-allocates 4096 elements and the rest is appended. *)
Theorem C13_generic : forall t old, wf_tree t = true -> unfold_value TIface old (flatten t) = UDone (generic t).
Proof. exact C13_generic_top. Qed.
Print Assumptions C13_generic.

(* ... and inside any enclosing stream (as element, member or field value), with any fuel
   that covers the value's own events *)
Theorem C13_generic_in_context : forall t old rest fuel,
  wf_tree t = true -> (length (flatten (expand_tree t)) <= fuel)%nat ->
  uf fuel TIface old (flatten (expand_tree t) ++ rest) = UOk (generic t) rest.
Proof. exact SF.Gotype.UnfoldProofs.C13_generic. Qed.
Print Assumptions C13_generic_in_context.

(* the generic value does not depend on whether extended events are expanded *)
Theorem C13_generic_expand : forall t, wf_tree t = true -> generic (expand_tree t) = generic t.
Proof. exact generic_expand. Qed.
Print Assumptions C13_generic_expand.

(* numbers are converted between all widths; a value that fits is unchanged *)
Theorem C13_conv_fits : forall k z, nkind_ok k z = true -> conv k k z = z.
Proof. exact conv_same_kind. Qed.
Print Assumptions C13_conv_fits.

(* Skipping: the value of an object member without a matching field - of every kind and
   nesting depth, however strings and keys are delivered - is consumed as a whole and exactly;
   the fuel is the one the struct unfolder passes. *)
Theorem C13_skip : forall t rest,
  skip_value (S (length (flatten (expand_tree t) ++ rest))) (flatten (expand_tree t) ++ rest) = SkOk rest.
Proof. exact C13_skip_struct_fuel. Qed.
Print Assumptions C13_skip.

(* while the skipped value is incomplete the ignore unfolder asks for more and never fails *)
Theorem C13_skip_incomplete : forall t p q fuel,
  flatten (expand_tree t) = p ++ q -> q <> [] -> skip_value fuel p = SkMore.
Proof. exact C13_skip_prefix. Qed.
Print Assumptions C13_skip_incomplete.

(* with any fuel a complete value is skipped exactly or not at all - never partially *)
Theorem C13_skip_exact_or_more : forall t rest fuel,
  skip_value fuel (flatten (expand_tree t) ++ rest) = SkOk rest \/
  skip_value fuel (flatten (expand_tree t) ++ rest) = SkMore.
Proof. exact C13_skip_total. Qed.
Print Assumptions C13_skip_exact_or_more.

(* by-reference or by-value delivery of any subset of the strings and keys is irrelevant for
   every target type *)
Theorem C13_byref_irrelevant : forall t old evs evs',
  Forall2 ref_equiv evs evs' -> unfold_value t old evs = unfold_value t old evs'.
Proof. exact C10_unfold_byref. Qed.
Print Assumptions C13_byref_irrelevant.
