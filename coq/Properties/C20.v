(* C20 - the unfolder's key cache never changes results, for any capacity.
   Statements only; proofs are in Gotype/LruProofs.v. *)
From SF Require Import Base.Prelude Gotype.Lru Gotype.LruProofs.

(* For every capacity (any integer) and every history of by-reference keys,
   starting from the state EnableKeyCache creates: no get panics or fails,
   each returns exactly the bytes it was asked for (in fresh memory), and the
   cache content is the abstract LRU list of the history. *)
Theorem C20_cache_transparent : forall (cap : Z) (keys : list bytes),
  exists c', lru_run (lru_init cap) keys = Ok (keys, c') /\
             llst c' = spec_run cap [] keys.
Proof.
  intros cap keys.
  destruct (run_refines keys (lru_init cap) (inv_init cap)) as (c' & R & _ & _ & L).
  exists c'. split; [exact R | exact L].
Qed.
Print Assumptions C20_cache_transparent.

(* Every single get, from any state satisfying the invariant, hands out fresh memory. *)
Theorem C20_fresh : forall c k, Inv c ->
  exists c', lru_get c k = Ok (k, Fresh, c') /\ Inv c'.
Proof.
  intros c k I. destruct (get_refines c k I) as (c' & G & I' & _). eauto.
Qed.
Print Assumptions C20_fresh.

(* With a non-negative capacity the cache never holds more than cap keys. *)
Theorem C20_bounded : forall (cap : Z) (keys : list bytes), 0 <= cap ->
  zlen (spec_run cap [] keys) <= cap.
Proof. intros. apply spec_run_bound; cbn; lia. Qed.
Print Assumptions C20_bounded.
