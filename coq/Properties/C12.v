(* C12 - folding a Go value emits exactly the value defined by the documented tag rules.
   Statements only; proofs are in Gotype/FoldProofs.v. *)
From SF Require Import Base.Prelude Core.Events Gotype.Types Gotype.Fold Gotype.FoldSpec Gotype.FoldProofs.

(* [fold_value] (Gotype/Fold.v) is the model of gotype.Fold: dispatch order (top-level type
   switch, named-type conversion, reflection registry, primitive map, kind), tag parsing,
   the omitempty resolver chain, inline expansion through visitors.ExpectObjVisitor,
   announced lengths.  [spec_fold] (Gotype/FoldSpec.v) is written from the documented
   mapping.  For every well-typed Go value of every type of the universe (bool, string,
   every integer and float width, interface{}, pointers, slices, arrays, string-keyed maps,
   structs with any tag strings, named types): if Fold succeeds, its events form one
   well-formed value, and that value is the documented one. *)
Theorem C12_fold : forall t v evs,
  has_type t v = true -> fold_value t v = (evs, None) ->
  exists tr, stream_tree evs = Some tr /\
             spec_fold (4 * (tsize t + vsize v) + 8) t v = Some (cv (value_of tr)).
Proof. exact FoldProofs.C12_fold. Qed.
Print Assumptions C12_fold.

(* Where the documented mapping does not define a value (unsupported kind, non-string map
   key, inline on a non-object, inline together with omitempty), Fold returns an error. *)
Theorem C12_fold_refuses : forall t v F,
  has_type t v = true -> (tsize t + vsize v < F)%nat -> spec_fold F t v = None ->
  exists e, snd (fold_value t v) = Some e.
Proof. exact FoldProofs.C12_fold_refuses. Qed.
Print Assumptions C12_fold_refuses.

(* Conversely a value the mapping defines, of a supported static type, is folded without
   error.  (What an interface holds is judged by the mapping itself: its dynamic type must
   be a supported one.  Two earlier counterexamples against a looser mapping are kept in
   Gotype/FoldProofs.v as C12_former_counterexample1/2; the premise on the static type is
   necessary, see C12_fold_accepts_needs_supported there.) *)
Theorem C12_fold_accepts : forall t v F c,
  has_type t v = true -> spec_supported (S (tsize t)) t = true ->
  spec_fold F t v = Some c -> snd (fold_value t v) = None.
Proof. exact FoldProofs.C12_fold_accepts. Qed.
Print Assumptions C12_fold_accepts.

Example C12_nonvacuous :
  let t := TStruct [([65], [97;44;111;109;105;116;101;109;112;116;121], TPtr TString);
                    ([66], [44;105;110;108;105;110;101], TMap (TNum KInt));
                    ([67;99], [], TSlice (TNum KUint8))] in
  let v := GStruct [GPtr (GStr []); GMap [([107], GNum 5)]; GList [GNum 1; GNum 2]] in
  has_type t v = true /\ snd (fold_value t v) = None.
Proof. vm_compute. split; reflexivity. Qed.
